(* Proofs about the callback-event logs of Events.v (C11).
     Part A  simulation: the logged functions compute the states of ITModel.decode / MLModel.simplify /
             MLModel.inject / MLModel.ml_finish (erase of the log = the unlogged function)
     Part B  exactly-once: the log lists, without repetition, exactly the columns that become known
             during the call and were not submitted by the application
               B1  one call of the streaming decoder   (decode_ev_log, decode_ev_log_good)
               B2  a whole streaming session            (run_ev_log, run_ev_log_init)
               B3  the ML finish                        (simplify_ev_log, ml_finish_ev_log)
   No hypothesis on the symbol values or on the xor. *)
From Coq Require Import List Arith Bool Lia Permutation.
From OFV Require Import ListAux ITModel ITLemmas ITProofs DenseSolve MLModel StableTables Events.
Import ListNotations.

(* forget the log *)
Definition erase {A : Type} (o : option (A * list nat)) : option A :=
  match o with Some (a, _) => Some a | None => None end.

Lemma erase_some {A : Type} (o : option (A * list nat)) a : erase o = Some a <-> exists l, o = Some (a, l).
Proof.
  destruct o as [[a' l']|]; cbn [erase]; split.
  - intros H. injection H as <-. exists l'. reflexivity.
  - intros [l H]. injection H as <- _. reflexivity.
  - discriminate.
  - intros [l H]. discriminate.
Qed.

Lemma erase_none {A : Type} (o : option (A * list nat)) : erase o = None <-> o = None.
Proof. destruct o as [[a' l']|]; cbn [erase]; split; intros H; try discriminate; reflexivity. Qed.

Lemma erase_pair {A : Type} (o : option (A * list nat)) a l : o = Some (a, l) -> erase o = Some a.
Proof. intros ->. reflexivity. Qed.

(* ============================================================================================== *)
(* Part A - simulation                                                                             *)
(* ============================================================================================== *)
Section SIM.
Variable Sy : Type. Variable sxor : Sy -> Sy -> Sy. Variable s0 : Sy.
Notation st := (st Sy).

(* ---------- streaming decoder ---------- *)
Lemma step3_ev_cons (dec : st -> nat -> Sy -> option (st * list nat)) row L' (s : st) :
  step3_ev dec (row :: L') s =
  (let '(c', s1) := is_complete s in
   if c' then Some (s1, []) else
   if getn (enc s1) row =? 1 then
     match nth row (rws s1) [], nth row (ct s1) None with
     | [cc], Some t =>
         match dec (consume s1 row) cc t with
         | None => None
         | Some (s2, e1) => match step3_ev dec L' s2 with None => None | Some (s3, e2) => Some (s3, cc :: e1 ++ e2) end
         end
     | _, _ => None
     end
   else step3_ev dec L' s1).
Proof. reflexivity. Qed.

Lemma step3_ev_erase (dec_ev : st -> nat -> Sy -> option (st * list nat)) (dec : st -> nat -> Sy -> option st) :
  (forall s c v, erase (dec_ev s c v) = dec s c v) ->
  forall L s, erase (step3_ev dec_ev L s) = step3 dec L s.
Proof.
  intros Hd. induction L as [|row L IH]; intros s; [reflexivity|].
  rewrite step3_ev_cons, step3_cons. destruct (is_complete s) as [b s1]. destruct b; [reflexivity|].
  destruct (getn (enc s1) row =? 1); [|apply IH].
  destruct (nth row (rws s1) []) as [|cc [|c2 rest]]; try reflexivity.
  destruct (nth row (ct s1) None) as [t|]; [|reflexivity].
  rewrite <- (Hd (consume s1 row) cc t). destruct (dec_ev (consume s1 row) cc t) as [[s2 e1]|]; [|reflexivity].
  cbn [erase]. rewrite <- IH. destruct (step3_ev dec_ev L s2) as [[s3 e2]|]; reflexivity.
Qed.

Lemma decode_ev_unfold fuel (s : st) c v : decode_ev sxor s0 (S fuel) s c v =
  if known s c then Some (s, []) else
  let s1 := set_tab s c v in
  let early := if r s1 <=? c then is_complete s1 else (false, s1) in
  if fst early then Some (snd early, []) else
  let '(s2, L) := step2 sxor s0 (snd early) c v in
  step3_ev (decode_ev sxor s0 fuel) (rev L) s2.
Proof. reflexivity. Qed.

Lemma decode_ev_erase : forall fuel (s : st) c v,
  erase (decode_ev sxor s0 fuel s c v) = decode sxor s0 fuel s c v.
Proof.
  induction fuel as [|f IH]; intros s c v; [reflexivity|].
  rewrite decode_ev_unfold, decode_unfold. destruct (known s c); [reflexivity|]. cbv zeta.
  destruct (if r (set_tab s c v) <=? c then is_complete (set_tab s c v) else (false, set_tab s c v)) as [b sx].
  cbn [fst snd]. destruct b; [reflexivity|].
  destruct (step2 sxor s0 sx c v) as [s2 L]. apply step3_ev_erase. exact IH.
Qed.

(* A1 *)
Theorem decode_ev_sim fuel (s : st) c v :
  (forall s' l, decode_ev sxor s0 fuel s c v = Some (s', l) -> decode sxor s0 fuel s c v = Some s')
  /\ (forall s', decode sxor s0 fuel s c v = Some s' -> exists l, decode_ev sxor s0 fuel s c v = Some (s', l))
  /\ (decode sxor s0 fuel s c v = None <-> decode_ev sxor s0 fuel s c v = None).
Proof.
  rewrite <- decode_ev_erase. split; [|split].
  - intros s' l H. exact (erase_pair _ _ _ H).
  - intros s' H. apply erase_some. exact H.
  - apply erase_none.
Qed.

(* A3: histories, from any start state *)
Definition dstep (fuel : nat) (os : option st) (ev : nat * Sy) : option st :=
  match os with Some s => decode sxor s0 fuel s (fst ev) (snd ev) | None => None end.

Definition estep (fuel : nat) (acc : option (st * list nat)) (ev : nat * Sy) : option (st * list nat) :=
  match acc with None => None | Some (s, l) =>
    match decode_ev sxor s0 fuel s (fst ev) (snd ev) with None => None | Some (s', l') => Some (s', l ++ l') end end.

Lemma run_ev_fold fuel (s : st) hist : run_ev sxor s0 fuel s hist = fold_left (estep fuel) hist (Some (s, [])).
Proof. reflexivity. Qed.

Lemma estep_erase fuel acc ev : erase (estep fuel acc ev) = dstep fuel (erase acc) ev.
Proof.
  destruct acc as [[s l]|]; [|reflexivity]. cbn [estep erase dstep].
  rewrite <- decode_ev_erase. destruct (decode_ev sxor s0 fuel s (fst ev) (snd ev)) as [[s' l']|]; reflexivity.
Qed.

Lemma estep_fold_erase fuel : forall hist acc,
  erase (fold_left (estep fuel) hist acc) = fold_left (dstep fuel) hist (erase acc).
Proof.
  induction hist as [|ev h IH]; intros acc; [reflexivity|].
  cbn [fold_left]. rewrite IH, estep_erase. reflexivity.
Qed.

Lemma run_ev_erase fuel (s : st) hist :
  erase (run_ev sxor s0 fuel s hist) =
  fold_left (fun os ev => match os with Some s => decode sxor s0 fuel s (fst ev) (snd ev) | None => None end)
            hist (Some s).
Proof. rewrite run_ev_fold, estep_fold_erase. reflexivity. Qed.

Theorem run_ev_sim fuel (s : st) hist :
  (forall s' l, run_ev sxor s0 fuel s hist = Some (s', l) ->
     fold_left (fun os ev => match os with Some s => decode sxor s0 fuel s (fst ev) (snd ev) | None => None end)
               hist (Some s) = Some s')
  /\ (forall s',
     fold_left (fun os ev => match os with Some s => decode sxor s0 fuel s (fst ev) (snd ev) | None => None end)
               hist (Some s) = Some s' -> exists l, run_ev sxor s0 fuel s hist = Some (s', l)).
Proof.
  rewrite <- run_ev_erase. split.
  - intros s' l H. exact (erase_pair _ _ _ H).
  - intros s' H. apply erase_some. exact H.
Qed.

(* the run of ITProofs *)
Corollary run_ev_sim_init (H0 : list (list nat)) (R0 N0 : nat) fuel hist :
  erase (run_ev sxor s0 fuel (init Sy R0 N0 H0) hist) = run Sy sxor s0 H0 R0 N0 fuel hist.
Proof. rewrite run_ev_erase. reflexivity. Qed.

(* ---------- ML simplification ---------- *)
Definition srow_ev (rec : st -> nat -> Sy -> option (st * list nat)) (c : nat) (v : Sy)
                   (os : option (st * list nat)) (row : nat) : option (st * list nat) :=
  match os with None => None | Some (s, l) =>
    let t := match nth row (ct s) None with None => v | Some t => sxor t v end in
    let u := getn (unk s) row - 1 in
    let rw := rm c (nth row (rws s) []) in
    let s1 := set_row s row rw u (Some t) in
    if u =? 1 then
      match rw with
      | c' :: _ =>
        match nth c' (tab s1) None with
        | Some _ => Some (s1, l)
        | None => match rec (set_tab (set_row s1 row (rm c' rw) (u - 1) None) c' t) c' t with
                  | None => None | Some (s2, l2) => Some (s2, l ++ c' :: l2) end
        end
      | [] => None
      end
    else Some (s1, l)
  end.

Lemma simplify_ev_unfold fuel (s : st) c v : simplify_ev sxor (S fuel) s c v =
  match rows_with s c with
  | [] => Some (s, [])
  | rowsl =>
    let early := if r s <=? c then is_complete s else (false, s) in
    if fst early then Some (snd early, []) else
    fold_left (srow_ev (simplify_ev sxor fuel) c v) rowsl (Some (snd early, []))
  end.
Proof. reflexivity. Qed.

Lemma srow_ev_erase rec_ev rec c v : (forall s c v, erase (rec_ev s c v) = rec s c v) ->
  forall os row, erase (srow_ev rec_ev c v os row) = srow Sy sxor rec c v (erase os) row.
Proof.
  intros Hr os row. destruct os as [[s l]|]; [|reflexivity]. cbn [erase]. unfold srow_ev, srow. cbv zeta.
  destruct (getn (unk s) row - 1 =? 1); [|reflexivity].
  destruct (rm c (nth row (rws s) [])) as [|c' rest]; [reflexivity|].
  match goal with |- context [match nth c' ?tb None with Some _ => _ | None => _ end] => destruct (nth c' tb None) end;
    [reflexivity|].
  match goal with |- erase (match rec_ev ?a ?b ?d with Some _ => _ | None => _ end) = _ =>
    rewrite <- (Hr a b d); destruct (rec_ev a b d) as [[s2 l2]|]; reflexivity end.
Qed.

Lemma srow_ev_fold_erase rec_ev rec c v : (forall s c v, erase (rec_ev s c v) = rec s c v) ->
  forall rows os, erase (fold_left (srow_ev rec_ev c v) rows os) = fold_left (srow Sy sxor rec c v) rows (erase os).
Proof.
  intros Hr. induction rows as [|row rows IH]; intros os; [reflexivity|].
  cbn [fold_left]. rewrite IH, (srow_ev_erase rec_ev rec c v Hr). reflexivity.
Qed.

Lemma simplify_ev_erase : forall fuel (s : st) c v,
  erase (simplify_ev sxor fuel s c v) = simplify sxor fuel s c v.
Proof.
  induction fuel as [|f IH]; intros s c v; [reflexivity|].
  rewrite simplify_ev_unfold, simplify_unfold. destruct (rows_with s c) as [|row0 rowsl]; [reflexivity|].
  cbv zeta. destruct (if r s <=? c then is_complete s else (false, s)) as [b sx]. cbn [fst snd].
  destruct b; [reflexivity|].
  rewrite (srow_ev_fold_erase _ _ c v IH). reflexivity.
Qed.

(* A2, simplify *)
Theorem simplify_ev_sim fuel (s : st) c v :
  (forall s' l, simplify_ev sxor fuel s c v = Some (s', l) -> simplify sxor fuel s c v = Some s')
  /\ (forall s', simplify sxor fuel s c v = Some s' -> exists l, simplify_ev sxor fuel s c v = Some (s', l))
  /\ (simplify sxor fuel s c v = None <-> simplify_ev sxor fuel s c v = None).
Proof.
  rewrite <- simplify_ev_erase. split; [|split].
  - intros s' l H. exact (erase_pair _ _ _ H).
  - intros s' H. apply erase_some. exact H.
  - apply erase_none.
Qed.

Lemma inject_ev_erase fuel os c : erase (inject_ev sxor fuel os c) = inject sxor fuel (erase os) c.
Proof.
  destruct os as [[s l]|]; [|reflexivity]. cbn [erase inject_ev inject].
  destruct (nth c (tab s) None) as [v|]; [|reflexivity].
  rewrite <- simplify_ev_erase. destruct (simplify_ev sxor fuel s c v) as [[s' l']|]; reflexivity.
Qed.

(* A2, inject (on option states) *)
Theorem inject_ev_sim fuel (os : option (st * list nat)) c :
  (forall s' l, inject_ev sxor fuel os c = Some (s', l) -> inject sxor fuel (erase os) c = Some s')
  /\ (forall s', inject sxor fuel (erase os) c = Some s' -> exists l, inject_ev sxor fuel os c = Some (s', l))
  /\ (inject sxor fuel (erase os) c = None <-> inject_ev sxor fuel os c = None).
Proof.
  rewrite <- inject_ev_erase. split; [|split].
  - intros s' l H. exact (erase_pair _ _ _ H).
  - intros s' H. apply erase_some. exact H.
  - apply erase_none.
Qed.

Lemma inject_ev_fold_erase fuel : forall cols os,
  erase (fold_left (inject_ev sxor fuel) cols os) = fold_left (inject sxor fuel) cols (erase os).
Proof.
  induction cols as [|c cols IH]; intros os; [reflexivity|].
  cbn [fold_left]. rewrite IH, inject_ev_erase. reflexivity.
Qed.

Lemma ml_finish_unfold fuel perm (s : st) :
  ml_finish sxor s0 fuel perm s = None <->
  fold_left (inject sxor fuel) perm
    (fold_left (inject sxor fuel) (map (fun i => r s + i) (seq 0 (n s - r s))) (Some (prepar s))) = None.
Proof.
  unfold ml_finish. cbv zeta. change (r (prepar s)) with (r s).
  destruct (fold_left (inject sxor fuel) perm
    (fold_left (inject sxor fuel) (map (fun i => r s + i) (seq 0 (n s - r s))) (Some (prepar s)))) as [sb|].
  - split; [|discriminate]. intros H. exfalso. revert H.
    match goal with |- (if ?c then _ else _) = None -> _ => destruct c end.
    + unfold is_complete. discriminate.
    + match goal with |- (let '(b, ct') := ?tk in _) = None -> _ => destruct tk as [b ct'] end.
      match goal with |- match ?sv with Some _ => _ | None => _ end = None -> _ => destruct sv as [xv|] end.
      * discriminate.
      * unfold is_complete. discriminate.
  - split; reflexivity.
Qed.

Lemma ml_finish_ev_erase fuel perm (s : st) :
  erase (ml_finish_ev sxor s0 fuel perm s) = ml_finish sxor s0 fuel perm s.
Proof.
  unfold ml_finish_ev. cbv zeta.
  pose proof (inject_ev_fold_erase fuel perm
     (fold_left (inject_ev sxor fuel) (map (fun i => r s + i) (seq 0 (n s - r s))) (Some (prepar s, [])))) as He.
  rewrite (inject_ev_fold_erase fuel (map (fun i => r s + i) (seq 0 (n s - r s))) (Some (prepar s, []))) in He.
  cbn [erase] in He.
  destruct (fold_left (inject_ev sxor fuel) perm
     (fold_left (inject_ev sxor fuel) (map (fun i => r s + i) (seq 0 (n s - r s))) (Some (prepar s, [])))) as [[s1 l]|].
  - destruct (ml_finish sxor s0 fuel perm s) as [o|]; reflexivity.
  - cbn [erase] in He. symmetry. apply ml_finish_unfold. symmetry. exact He.
Qed.

(* A2, ml_finish *)
Theorem ml_finish_ev_sim fuel perm (s : st) :
  (forall o l, ml_finish_ev sxor s0 fuel perm s = Some (o, l) -> ml_finish sxor s0 fuel perm s = Some o)
  /\ (forall o, ml_finish sxor s0 fuel perm s = Some o -> exists l, ml_finish_ev sxor s0 fuel perm s = Some (o, l))
  /\ (ml_finish sxor s0 fuel perm s = None <-> ml_finish_ev sxor s0 fuel perm s = None).
Proof.
  rewrite <- ml_finish_ev_erase. split; [|split].
  - intros o l H. exact (erase_pair _ _ _ H).
  - intros o H. apply erase_some. exact H.
  - apply erase_none.
Qed.
End SIM.

(* ============================================================================================== *)
(* Part B - exactly-once                                                                           *)
(* ============================================================================================== *)
Section LOG.
Variable Sy : Type. Variable sxor : Sy -> Sy -> Sy. Variable s0 : Sy.
Notation st := (st Sy).

(* column c becomes known between s and s' *)
Definition newly (s s' : st) (c : nat) : Prop := known s c = false /\ known s' c = true.
Definition kmono (s s' : st) : Prop := forall c, known s c = true -> known s' c = true.

(* l lists, without repetition, exactly the columns that become known between s and s' *)
Definition LogOK (s s' : st) (l : list nat) : Prop :=
  kmono s s' /\ NoDup l /\ forall e, In e l <-> newly s s' e.

Lemma LogOK_nil (s s' : st) : (forall e, known s' e = known s e) -> LogOK s s' [].
Proof.
  intros Hk. split; [|split].
  - intros c Hc. rewrite Hk. exact Hc.
  - constructor.
  - intros e. split; [intros []|]. intros [Ha Hb]. rewrite Hk, Ha in Hb. discriminate.
Qed.

Lemma LogOK_ext_r (s s1 s2 : st) l : (forall e, known s2 e = known s1 e) -> LogOK s s1 l -> LogOK s s2 l.
Proof.
  clear sxor s0.
  intros Hk (Hm & Hn & Hi). split; [|split; [exact Hn|]].
  - intros c Hc. rewrite Hk. apply Hm. exact Hc.
  - intros e. rewrite (Hi e). unfold newly. rewrite Hk. tauto.
Qed.

Lemma LogOK_ext_l (s1 s2 s' : st) l : (forall e, known s2 e = known s1 e) -> LogOK s1 s' l -> LogOK s2 s' l.
Proof.
  clear sxor s0.
  intros Hk (Hm & Hn & Hi). split; [|split; [exact Hn|]].
  - intros c Hc. apply Hm. rewrite <- Hk. exact Hc.
  - intros e. rewrite (Hi e). unfold newly. rewrite Hk. tauto.
Qed.

Lemma known_dec (s : st) e : known s e = true \/ known s e = false.
Proof. destruct (known s e); auto. Qed.

Lemma LogOK_app (s s1 s2 : st) l1 l2 : LogOK s s1 l1 -> LogOK s1 s2 l2 -> LogOK s s2 (l1 ++ l2).
Proof.
  intros (Hm1 & Hn1 & Hi1) (Hm2 & Hn2 & Hi2). split; [|split].
  - intros c Hc. apply Hm2, Hm1, Hc.
  - revert Hn1 Hi1. induction l1 as [|a l1 IH]; intros Hn1 Hi1; [exact Hn2|].
    cbn [app]. inversion Hn1 as [|a' l1' Hna Hn1']; subst. constructor.
    + intros Hin. apply in_app_or in Hin. destruct Hin as [Hin|Hin]; [exact (Hna Hin)|].
      apply Hi2 in Hin. destruct Hin as [Hf _].
      destruct (proj1 (Hi1 a) (or_introl eq_refl)) as [_ Ht]. rewrite Ht in Hf. discriminate.
    + assert (Hsub : forall e, In e l1 -> known s1 e = true).
      { intros e He. exact (proj2 (proj1 (Hi1 e) (or_intror He))). }
      clear IH Hi1 Hna Hn1. induction l1 as [|b l1 IH]; [exact Hn2|].
      cbn [app]. inversion Hn1' as [|b' l1' Hnb Hn1'']; subst. constructor.
      * intros Hin. apply in_app_or in Hin. destruct Hin as [Hin|Hin]; [exact (Hnb Hin)|].
        apply Hi2 in Hin. destruct Hin as [Hf _]. rewrite (Hsub b (or_introl eq_refl)) in Hf. discriminate.
      * apply IH; [exact Hn1''|]. intros e He. apply Hsub. right. exact He.
  - intros e. rewrite in_app_iff, (Hi1 e), (Hi2 e). unfold newly. split.
    + intros [[Ha Hb]|[Ha Hb]].
      * split; [exact Ha|]. apply Hm2. exact Hb.
      * split; [|exact Hb]. destruct (known_dec s e) as [Ht|Hf]; [|exact Hf].
        apply Hm1 in Ht. rewrite Ht in Ha. discriminate.
    + intros [Ha Hb]. destruct (known_dec s1 e) as [Ht|Hf]; [left|right]; auto.
Qed.

Lemma LogOK_single (s s' : st) c : known s c = false -> (forall e, known s' e = known s e || (e =? c)) ->
  LogOK s s' [c].
Proof.
  intros Hc Hk. split; [|split].
  - intros e He. rewrite Hk, He. reflexivity.
  - constructor; [intros []|constructor].
  - intros e. unfold newly. rewrite Hk. split.
    + intros [<-|[]]. rewrite Hc, Nat.eqb_refl. auto.
    + intros [Ha Hb]. rewrite Ha in Hb. cbn [orb] in Hb. apply Nat.eqb_eq in Hb. left. symmetry. exact Hb.
Qed.

Lemma LogOK_perm (s s' : st) l l' : Permutation l l' -> LogOK s s' l -> LogOK s s' l'.
Proof.
  intros Hp (Hm & Hn & Hi). split; [exact Hm|split].
  - exact (Permutation_NoDup Hp Hn).
  - intros e. rewrite <- (Hi e). split; apply Permutation_in; [apply Permutation_sym|]; exact Hp.
Qed.

(* the shape of B1: c is the submitted column, l the log of the call *)
Lemma LogOK_cons_inv (s s' : st) c l : LogOK s s' (c :: l) ->
  NoDup l /\ ~ In c l /\ (forall e, In e l <-> (newly s s' e /\ e <> c)).
Proof.
  intros (Hm & Hn & Hi). inversion Hn as [|c' l' Hnc Hnl]; subst. split; [exact Hnl|split; [exact Hnc|]].
  intros e. split.
  - intros He. split; [apply Hi; right; exact He|]. intros ->. exact (Hnc He).
  - intros [Hne Hec]. apply Hi in Hne. destruct Hne as [->|He]; [congruence|exact He].
Qed.

Lemma known_upd (s : st) c v e : c < length (tab s) -> known (set_tab s c v) e = known s e || (e =? c).
Proof.
  intros Hc. unfold known, set_tab. cbn [tab]. destruct (Nat.eq_dec c e) as [<-|Hne].
  - rewrite it_upd_nth_eq by exact Hc. rewrite Nat.eqb_refl, orb_true_r. reflexivity.
  - rewrite it_upd_nth_neq by exact Hne.
    assert (E : (e =? c) = false) by (apply Nat.eqb_neq; intro; apply Hne; auto). rewrite E, orb_false_r. reflexivity.
Qed.

(* ---------------------------------------------------------------------------------------------- *)
(* B3 - the ML finish.  The only hypothesis on the state: the columns named by the rows (and the    *)
(* source columns) are entries of the table - otherwise a table write is silently lost.             *)
(* ---------------------------------------------------------------------------------------------- *)
Definition MLRng (s : st) : Prop := forall row x, In x (nth row (rws s) []) -> x < length (tab s).
Definition Pres (s s' : st) : Prop := r s' = r s /\ n s' = n s /\ length (tab s') = length (tab s).

Lemma Pres_refl (s : st) : Pres s s.
Proof. unfold Pres. auto. Qed.
Lemma Pres_trans (s1 s2 s3 : st) : Pres s1 s2 -> Pres s2 s3 -> Pres s1 s3.
Proof. unfold Pres. intros (A & B & C) (A' & B' & C'). repeat split; congruence. Qed.

Lemma nth_upd_cases {A : Type} (l : list A) i j x d :
  nth j (ITModel.upd l i x) d = if (j =? i) && (i <? length l) then x else nth j l d.
Proof.
  revert i j; induction l as [|h t IH]; intros i j.
  - cbn [ITModel.upd length]. rewrite andb_false_r. reflexivity.
  - destruct i as [|i], j as [|j]; cbn [ITModel.upd nth length]; try reflexivity.
    rewrite IH. reflexivity.
Qed.

Lemma MLRng_set_row (s : st) row rw u t : MLRng s -> (forall x, In x rw -> x < length (tab s)) ->
  MLRng (set_row s row rw u t).
Proof.
  intros HR Hrw row' x Hx. cbn [set_row rws tab] in *. rewrite nth_upd_cases in Hx.
  destruct ((row' =? row) && (row <? length (rws s))); [apply Hrw; exact Hx|exact (HR row' x Hx)].
Qed.

Lemma MLRng_set_tab (s : st) c v : MLRng s -> MLRng (set_tab s c v).
Proof. intros HR row x Hx. cbn [set_tab rws tab] in *. rewrite upd_length. exact (HR row x Hx). Qed.

Lemma rm_sub c l x : In x (rm c l) -> In x l.
Proof. unfold rm. intros H. apply filter_In in H. exact (proj1 H). Qed.

(* what one step of a loop over rows / columns does to (state, log) *)
Definition StepOK (s : st) (l : list nat) (s' : st) (l' : list nat) : Prop :=
  exists l2, l' = l ++ l2 /\ MLRng s' /\ Pres s s' /\ LogOK s s' l2.

Lemma fold_log {X : Type} (F : option (st * list nat) -> X -> option (st * list nat)) :
  (forall x, F None x = None) ->
  (forall s l x s' l', MLRng s -> F (Some (s, l)) x = Some (s', l') -> StepOK s l s' l') ->
  forall xs s l s' l', MLRng s -> fold_left F xs (Some (s, l)) = Some (s', l') -> StepOK s l s' l'.
Proof.
  intros HN HS. induction xs as [|x xs IH]; intros s l s' l' HR H.
  - cbn [fold_left] in H. injection H as <- <-. exists []. rewrite app_nil_r.
    split; [reflexivity|split; [exact HR|split; [apply Pres_refl|apply LogOK_nil; reflexivity]]].
  - cbn [fold_left] in H. destruct (F (Some (s, l)) x) as [[s1 l1]|] eqn:E.
    + destruct (HS s l x s1 l1 HR E) as (la & -> & HR1 & HP1 & HL1).
      destruct (IH s1 (l ++ la) s' l' HR1 H) as (lb & -> & HR2 & HP2 & HL2).
      exists (la ++ lb). rewrite app_assoc.
      split; [reflexivity|split; [exact HR2|split; [exact (Pres_trans _ _ _ HP1 HP2)|exact (LogOK_app _ _ _ _ _ HL1 HL2)]]].
    + exfalso. clear -H HN. induction xs as [|y xs IH]; cbn [fold_left] in H; [discriminate|].
      rewrite HN in H. exact (IH H).
Qed.

Definition SimContract (rec : st -> nat -> Sy -> option (st * list nat)) : Prop :=
  forall s c v s' l, MLRng s -> rec s c v = Some (s', l) -> MLRng s' /\ Pres s s' /\ LogOK s s' l.

Lemma known_nth_none (s : st) c : nth c (tab s) None = None -> known s c = false.
Proof. unfold known. intros ->. reflexivity. Qed.
Lemma known_nth_some (s : st) c w : nth c (tab s) None = Some w -> known s c = true.
Proof. unfold known. intros ->. reflexivity. Qed.

Lemma srow_ev_step rec c v : SimContract rec ->
  forall s l row s' l', MLRng s -> srow_ev Sy sxor rec c v (Some (s, l)) row = Some (s', l') -> StepOK s l s' l'.
Proof.
  intros HC s l row s' l' HR H. unfold srow_ev in H. cbv zeta in H.
  set (t := match nth row (ct s) None with Some t => sxor t v | None => v end) in *.
  set (u := getn (unk s) row - 1) in *.
  set (rw := rm c (nth row (rws s) [])) in *.
  assert (Hrw : forall x, In x rw -> x < length (tab s)).
  { intros x Hx. apply (HR row x). exact (rm_sub c _ x Hx). }
  assert (HR1 : MLRng (set_row s row rw u (Some t))) by (apply MLRng_set_row; assumption).
  assert (Hsame : StepOK s l (set_row s row rw u (Some t)) l).
  { exists []. rewrite app_nil_r. split; [reflexivity|split; [exact HR1|split; [unfold Pres; auto|]]].
    apply LogOK_nil. reflexivity. }
  destruct (u =? 1).
  - destruct rw as [|c' rest] eqn:Erw; [discriminate|].
    cbn [set_row tab] in H.
    destruct (nth c' (tab s) None) as [w|] eqn:Ec'.
    + injection H as <- <-. exact Hsame.
    + match type of H with match rec ?a ?b ?d with Some _ => _ | None => _ end = _ =>
        destruct (rec a b d) as [[s2 l2]|] eqn:Erec; [|discriminate]; set (sm := a) in * end.
      injection H as <- <-.
      assert (Hc' : c' < length (tab s)) by (apply Hrw; left; reflexivity).
      assert (HRm : MLRng sm).
      { unfold sm. apply MLRng_set_tab. apply MLRng_set_row; [exact HR1|].
        intros x Hx. cbn [set_row tab]. apply Hrw. exact (rm_sub c' _ x Hx). }
      destruct (HC sm c' t s2 l2 HRm Erec) as (HR2 & HP2 & HL2).
      assert (Hkm : forall e, known sm e = known s e || (e =? c')).
      { intros e. unfold sm. rewrite known_upd by (cbn [set_row tab]; exact Hc'). reflexivity. }
      exists (c' :: l2). split; [reflexivity|split; [exact HR2|split]].
      * apply (Pres_trans _ sm); [|exact HP2]. unfold Pres, sm. cbn [set_tab set_row r n tab].
        rewrite upd_length. auto.
      * change (c' :: l2) with ([c'] ++ l2). apply (LogOK_app _ sm); [|exact HL2].
        apply LogOK_single; [apply known_nth_none; exact Ec'|exact Hkm].
  - injection H as <- <-. exact Hsame.
Qed.

Lemma srow_ev_none rec c v row : srow_ev Sy sxor rec c v None row = None.
Proof. reflexivity. Qed.

Lemma simplify_ev_contract : forall fuel, SimContract (simplify_ev sxor fuel).
Proof.
  induction fuel as [|f IH]; intros s c v s' l HR H; [discriminate|].
  rewrite simplify_ev_unfold in H. destruct (rows_with s c) as [|row0 rowsl].
  - injection H as <- <-. split; [exact HR|split; [apply Pres_refl|apply LogOK_nil; reflexivity]].
  - cbv zeta in H.
    assert (He : tab (snd (if r s <=? c then is_complete s else (false, s))) = tab s
              /\ rws (snd (if r s <=? c then is_complete s else (false, s))) = rws s
              /\ r (snd (if r s <=? c then is_complete s else (false, s))) = r s
              /\ n (snd (if r s <=? c then is_complete s else (false, s))) = n s)
      by (destruct (r s <=? c); repeat split; reflexivity).
    destruct (if r s <=? c then is_complete s else (false, s)) as [cf se]. cbn [fst snd] in *.
    destruct He as (Et & Er & Err & Enn).
    assert (HRe : MLRng se) by (intros row x Hx; rewrite Et; rewrite Er in Hx; exact (HR row x Hx)).
    assert (HPe : Pres s se) by (unfold Pres; rewrite Et; auto).
    assert (Hke : forall e, known se e = known s e) by (apply known_tab_eq; exact Et).
    destruct cf.
    + injection H as <- <-. split; [exact HRe|split; [exact HPe|apply LogOK_nil; exact Hke]].
    + destruct (fold_log (srow_ev Sy sxor (simplify_ev sxor f) c v) (srow_ev_none _ c v)
                (fun s l x s' l' => srow_ev_step _ c v IH s l x s' l') (row0 :: rowsl) se [] s' l HRe H)
        as (l2 & -> & HR2 & HP2 & HL2).
      cbn [app]. split; [exact HR2|split; [exact (Pres_trans _ _ _ HPe HP2)|]].
      apply (LogOK_ext_l se); [intros e; symmetry; apply Hke|exact HL2].
Qed.

(* B3, simplification: no repetition, exactly the newly known columns *)
Theorem simplify_ev_log fuel (s : st) c v s' l : MLRng s -> simplify_ev sxor fuel s c v = Some (s', l) ->
  NoDup l /\ forall e, In e l <-> newly s s' e.
Proof. intros HR H. destruct (simplify_ev_contract fuel s c v s' l HR H) as (_ & _ & (_ & Hn & Hi)). auto. Qed.

Lemma inject_ev_step fuel : forall s l c s' l', MLRng s ->
  inject_ev sxor fuel (Some (s, l)) c = Some (s', l') -> StepOK s l s' l'.
Proof.
  intros s l c s' l' HR H. cbn [inject_ev] in H. destruct (nth c (tab s) None) as [v|].
  - destruct (simplify_ev sxor fuel s c v) as [[s2 l2]|] eqn:E; [|discriminate]. injection H as <- <-.
    destruct (simplify_ev_contract fuel s c v s2 l2 HR E) as (HR2 & HP2 & HL2).
    exists l2. auto.
  - injection H as <- <-. exists []. rewrite app_nil_r.
    split; [reflexivity|split; [exact HR|split; [apply Pres_refl|apply LogOK_nil; reflexivity]]].
Qed.

Lemma inject_ev_fold_log fuel cols (s : st) l s' l' : MLRng s ->
  fold_left (inject_ev sxor fuel) cols (Some (s, l)) = Some (s', l') -> StepOK s l s' l'.
Proof.
  apply (fold_log (inject_ev sxor fuel)); [reflexivity|].
  intros s1 l1 x s2 l2. apply inject_ev_step.
Qed.

(* the write-back of the solver: exactly the listed columns become known *)
Definition kn (tb : list (option Sy)) (c : nat) : bool := match nth c tb None with Some _ => true | None => false end.

Lemma kn_upd (tb : list (option Sy)) c w e : c < length tb -> kn (ITModel.upd tb c (Some w)) e = kn tb e || (e =? c).
Proof.
  intros Hc. unfold kn. destruct (Nat.eq_dec c e) as [<-|Hne].
  - rewrite it_upd_nth_eq by exact Hc. rewrite Nat.eqb_refl, orb_true_r. reflexivity.
  - rewrite it_upd_nth_neq by exact Hne.
    assert (E : (e =? c) = false) by (apply Nat.eqb_neq; intro; apply Hne; auto). rewrite E, orb_false_r. reflexivity.
Qed.

Lemma write_back_kn : forall (srcs : list nat) (x : list Sy) pos (tb : list (option Sy)) e,
  (forall c, In c srcs -> c < length tb) ->
  kn (write_back s0 srcs x pos tb) e = kn tb e || existsb (Nat.eqb e) srcs.
Proof.
  induction srcs as [|c srcs IH]; intros x pos tb e Hr.
  - cbn [write_back existsb]. rewrite orb_false_r. reflexivity.
  - cbn [write_back existsb]. destruct (nth c tb None) as [w|] eqn:Ec.
    + rewrite IH by (intros c0 Hc0; apply Hr; right; exact Hc0).
      destruct (e =? c) eqn:E; [|reflexivity]. apply Nat.eqb_eq in E. subst e.
      unfold kn. rewrite Ec. reflexivity.
    + rewrite IH by (intros c0 Hc0; rewrite upd_length; apply Hr; right; exact Hc0).
      rewrite kn_upd by (apply Hr; left; reflexivity). rewrite orb_assoc. reflexivity.
Qed.

Lemma map_add_seq rr : forall k a, map (fun i => rr + i) (seq a k) = seq (rr + a) k.
Proof.
  induction k as [|k IH]; intros a; [reflexivity|].
  cbn [seq map]. rewrite IH. rewrite Nat.add_succ_r. reflexivity.
Qed.

Lemma existsb_eqb_In e (l : list nat) : existsb (Nat.eqb e) l = true <-> In e l.
Proof.
  rewrite existsb_exists. split.
  - intros (x & Hx & E). apply Nat.eqb_eq in E. subst x. exact Hx.
  - intros H. exists e. split; [exact H|apply Nat.eqb_refl].
Qed.

(* B3: the whole finish.  The log lists exactly once every column that becomes known during the call
   (sources AND repairs: the repairs found by the solver are not stored, hence not newly known) *)
Theorem ml_finish_ev_logok fuel perm (s : st) o l : MLRng s -> n s <= length (tab s) ->
  ml_finish_ev sxor s0 fuel perm s = Some (o, l) -> LogOK s (o_st o) l.
Proof.
  intros HR Hn H. unfold ml_finish_ev in H. cbv zeta in H.
  set (srcs := map (fun i => r s + i) (seq 0 (n s - r s))) in *.
  destruct (fold_left (inject_ev sxor fuel) perm (fold_left (inject_ev sxor fuel) srcs (Some (prepar s, []))))
    as [[s1 l1]|] eqn:Hf; [|discriminate].
  destruct (ml_finish sxor s0 fuel perm s) as [o'|] eqn:Hm; [|discriminate].
  injection H as <- <-.
  (* the simplification phase *)
  rewrite <- fold_left_app in Hf.
  assert (HRp : MLRng (prepar s)) by exact HR.
  destruct (inject_ev_fold_log fuel (srcs ++ perm) (prepar s) [] s1 l1 HRp Hf) as (l2 & E2 & HR1 & HP1 & HL1).
  cbn [app] in E2. subst l2.
  assert (HL1' : LogOK s s1 l1) by (apply (LogOK_ext_l (prepar s)); [reflexivity|exact HL1]).
  destruct HP1 as (Pr & Pn & Pt). cbn [prepar r n tab] in Pr, Pn, Pt.
  (* the same state inside ml_finish *)
  pose proof (inject_ev_fold_erase Sy sxor fuel (srcs ++ perm) (Some (prepar s, []))) as He.
  rewrite Hf in He. cbn [erase] in He. rewrite fold_left_app in He.
  unfold ml_finish in Hm. cbv zeta in Hm. change (r (prepar s)) with (r s) in Hm. fold srcs in Hm.
  rewrite <- He in Hm. clear He Hf.
  assert (Hgive : forall (sx : st), tab sx = tab s1 ->
            (let '(b, s2) := is_complete sx in Some {| o_st := s2; o_ok := b; o_solved := false |}) = Some o' ->
            LogOK s (o_st o') (if o_solved o' then l1 ++ filter (fun c => match nth c (tab s1) None with None => true | Some _ => false end) srcs else l1)).
  { intros sx Ex Hg. unfold is_complete in Hg. injection Hg as <-. cbn [o_st o_solved].
    apply (LogOK_ext_r s s1); [|exact HL1']. apply known_tab_eq. exact Ex. }
  match type of Hm with (if ?c then _ else _) = _ => destruct c end.
  - exact (Hgive s1 eq_refl Hm).
  - match type of Hm with (let '(b, ct') := ?tk in _) = _ => destruct tk as [b ct'] end.
    cbn [r n rws unk enc ct tab fnd] in Hm.
    match type of Hm with match ?sv with Some _ => _ | None => _ end = _ => destruct sv as [xv|] end.
    + injection Hm as <-. cbn [o_st o_solved]. rewrite Pr. fold srcs.
      apply (LogOK_app _ s1); [exact HL1'|].
      assert (Hsr : forall c, In c srcs -> c < length (tab s1)).
      { intros c Hc. unfold srcs in Hc. rewrite map_add_seq in Hc. apply in_seq in Hc. lia. }
      assert (Hnd : NoDup srcs) by (unfold srcs; rewrite map_add_seq; apply seq_NoDup).
      match goal with |- LogOK s1 ?so _ =>
        assert (Hk : forall e, known so e = known s1 e || existsb (Nat.eqb e) srcs) end.
      { intros e. unfold known at 1. cbn [tab]. exact (write_back_kn srcs xv _ (tab s1) e Hsr). }
      split; [|split].
      * intros e Hke. rewrite Hk, Hke. reflexivity.
      * apply NoDup_filter. exact Hnd.
      * intros e. rewrite filter_In. unfold newly. rewrite Hk. rewrite <- existsb_eqb_In.
        unfold known. destruct (nth e (tab s1) None); cbn [orb]; split; intros [A B]; split; auto; discriminate.
    + refine (Hgive _ _ Hm). reflexivity.
Qed.

(* B3 in the form asked for *)
Theorem ml_finish_ev_log fuel perm (s : st) o l : MLRng s -> n s <= length (tab s) ->
  ml_finish_ev sxor s0 fuel perm s = Some (o, l) ->
  NoDup l
  /\ (forall e, In e l -> known s e = false /\ known (o_st o) e = true)
  /\ (forall e, known s e = false -> known (o_st o) e = true -> In e l)
  /\ (forall e, r s <= e < n s -> known s e = false -> known (o_st o) e = true -> In e l).
Proof.
  intros HR Hn H. destruct (ml_finish_ev_logok fuel perm s o l HR Hn H) as (_ & Hnd & Hi).
  split; [exact Hnd|split; [|split]].
  - intros e He. apply Hi. exact He.
  - intros e Ha Hb. apply Hi. split; assumption.
  - intros e _ Ha Hb. apply Hi. split; assumption.
Qed.
End LOG.

(* ---------------------------------------------------------------------------------------------- *)
(* B1 / B2 - the streaming decoder, on the states of ITProofs (WF, Inv / PInv, Good)                *)
(* ---------------------------------------------------------------------------------------------- *)
Section ITLOG.
Variable Sy : Type. Variable sxor : Sy -> Sy -> Sy. Variable s0 : Sy.
Notation st := (st Sy).
Variable H0 : list (list nat).
Variable R0 N0 : nat.
Hypothesis H0_len : length H0 = R0.
Hypothesis H0_nodup : forall i, i < R0 -> NoDup (nth i H0 []).
Hypothesis H0_range : forall i c, i < R0 -> In c (nth i H0 []) -> c < N0.
Hypothesis H0_deg : forall i, i < R0 -> 2 <= length (nth i H0 []).
Hypothesis R_le_N : R0 <= N0.

Notation WF := (WF Sy R0 N0).
Notation Inv := (Inv Sy H0 R0).
Notation PInv := (PInv Sy H0 R0).
Notation Good := (Good Sy H0 R0 N0).
Notation iscomp := (iscomp Sy R0 N0).
Notation Contract := (Contract Sy H0 R0 N0).
Notation LogOK := (LogOK Sy).
Notation newly := (newly Sy).

Definition EvContract (dec_ev : st -> nat -> Sy -> option (st * list nat)) : Prop :=
  forall s e v s' l, WF s -> PInv s e -> known s e = false -> e < N0 -> dec_ev s e v = Some (s', l) ->
  LogOK s s' (e :: l).

Lemma step3_ev_complete (dec_ev : st -> nat -> Sy -> option (st * list nat)) L (s s' : st) l :
  WF s -> iscomp s -> step3_ev dec_ev L s = Some (s', l) -> l = [] /\ tab s' = tab s.
Proof.
  intros W Hc H. destruct L as [|row L'].
  - cbn [step3_ev] in H. injection H as <- <-. auto.
  - rewrite step3_ev_cons in H. pose proof (is_complete_spec Sy H0 R0 N0 H0_len R_le_N s W) as Hs.
    destruct (is_complete s) as [b s1]. destruct Hs as (W1 & T1 & _ & _ & _ & _ & Hb).
    assert (b = true) by (apply Hb; exact Hc). subst b. injection H as <- <-. auto.
Qed.

Lemma step3_ev_log dec_ev dec : Contract dec -> (forall s c v, erase (dec_ev s c v) = dec s c v) ->
  EvContract dec_ev -> forall L (s s' : st) l,
  WF s -> Inv s -> (forall i, In i L -> i < R0) -> step3_ev dec_ev L s = Some (s', l) -> LogOK s s' l.
Proof.
  intros HC Her HE. induction L as [|row L' IH]; intros s s' l W HI HL H.
  - cbn [step3_ev] in H. injection H as <- <-. apply LogOK_nil. reflexivity.
  - rewrite step3_ev_cons in H. pose proof (is_complete_spec Sy H0 R0 N0 H0_len R_le_N s W) as Hs.
    destruct (is_complete s) as [b s1]. destruct Hs as (W1 & T1 & A1 & B1 & C1 & D1 & Hb).
    assert (HI1 : Inv s1) by (apply (Inv_fields_eq Sy H0 R0 s s1 T1 A1 B1 C1 D1 HI)).
    assert (Hk1 : forall c, known s1 c = known s c) by (apply known_tab_eq; exact T1).
    apply (LogOK_ext_l Sy s1); [intros e; symmetry; apply Hk1|].
    destruct b.
    + injection H as <- <-. apply LogOK_nil. reflexivity.
    + assert (Hrow : row < R0) by (apply HL; left; reflexivity).
      assert (HL' : forall i, In i L' -> i < R0) by (intros i Hi; apply HL; right; exact Hi).
      destruct (getn (enc s1) row =? 1) eqn:E1.
      * apply Nat.eqb_eq in E1.
        destruct (ready_row_shape Sy H0 R0 N0 H0_len H0_deg R_le_N s1 row Hrow (HI1 row Hrow) E1) as (cc & t & Hr & Hct & HU).
        rewrite Hr, Hct in H.
        destruct (consume_spec Sy sxor s0 H0 R0 N0 H0_len H0_range R_le_N s1 row cc t W1 HI1 Hrow Hr Hct HU)
          as (Wc & Pc & Tc & Kc & Cc & _ & _ & _).
        destruct (dec_ev (consume s1 row) cc t) as [[s2 e1]|] eqn:Ed; [|discriminate].
        destruct (step3_ev dec_ev L' s2) as [[s3 e2]|] eqn:E3; [|discriminate].
        injection H as <- <-.
        assert (Kc' : known (consume s1 row) cc = false) by (rewrite (known_tab_eq Sy _ _ Tc); exact Kc).
        pose proof (HE _ _ _ _ _ Wc Pc Kc' Cc Ed) as HL1.
        assert (Ed' : dec (consume s1 row) cc t = Some s2) by (rewrite <- Her; exact (erase_pair _ _ _ Ed)).
        destruct (HC _ _ _ _ Wc Pc Kc' Cc Ed') as (W2 & _ & _ & _ & Post2).
        change (cc :: e1 ++ e2) with ((cc :: e1) ++ e2). apply (LogOK_app Sy _ s2).
        -- apply (LogOK_ext_l Sy (consume s1 row)); [intros e; symmetry; apply known_tab_eq; exact Tc|exact HL1].
        -- destruct Post2 as [Hcomp2|(HI2 & _)].
           ++ destruct (step3_ev_complete dec_ev L' s2 s3 e2 W2 Hcomp2 E3) as (-> & T3).
              apply LogOK_nil. apply known_tab_eq. exact T3.
           ++ exact (IH s2 s3 e2 W2 HI2 HL' E3).
      * exact (IH s1 s' l W1 HI1 HL' H).
Qed.

Lemma decode_ev_contract : forall fuel, EvContract (decode_ev sxor s0 fuel).
Proof.
  induction fuel as [|f IH]; intros s e v s' l W HP Hke He Hdec; [discriminate|].
  rewrite decode_ev_unfold in Hdec. rewrite Hke in Hdec.
  set (s1 := set_tab s e v) in *.
  assert (Hk1 : forall c, known s1 c = known s c || (c =? e)).
  { intros c. apply known_upd. rewrite (wf_tab Sy R0 N0 s W). exact He. }
  assert (W1 : WF s1).
  { destruct W as [Wr Wn Wrws Wunk Wenc Wct Wtab Wfnd Wcur]. constructor; cbn [s1 set_tab r n rws unk enc ct tab fnd];
      rewrite ?upd_length; auto.
    intros j Hj. rewrite Hk1. rewrite Wcur; auto. }
  assert (Hearly : exists b sx, (if r s1 <=? e then is_complete s1 else (false, s1)) = (b, sx)
            /\ WF sx /\ tab sx = tab s1 /\ rws sx = rws s /\ unk sx = unk s /\ enc sx = enc s /\ ct sx = ct s).
  { destruct (r s1 <=? e).
    - pose proof (is_complete_spec Sy H0 R0 N0 H0_len R_le_N s1 W1) as Hs. destruct (is_complete s1) as [b sx].
      destruct Hs as (Wx & Tx & Ax & Bx & Cx & Dx & Hb). exists b, sx.
      split; [reflexivity|]. split; [exact Wx|]. split; [exact Tx|]. split; [exact Ax|]. split; [exact Bx|].
      split; [exact Cx|exact Dx].
    - exists false, s1.
      split; [reflexivity|]. split; [exact W1|]. do 4 (split; [reflexivity|]). reflexivity. }
  destruct Hearly as (b & sx & Eearly & Wx & Tx & Ax & Bx & Cx & Dx).
  cbv zeta in Hdec. rewrite Eearly in Hdec. cbn [fst snd] in Hdec.
  assert (Hkx : forall c, known sx c = known s c || (c =? e)) by (intros c; rewrite (known_tab_eq Sy s1 sx Tx); apply Hk1).
  assert (Hkex : known sx e = true) by (rewrite Hkx, Nat.eqb_refl; apply orb_true_r).
  destruct b.
  - injection Hdec as <- <-. apply LogOK_single; assumption.
  - assert (Hrows : forall i, i < R0 -> rowinv Sy H0 (fun c => known sx c && negb (c =? e)) (Some e) sx i).
    { intros i Hi. specialize (HP i Hi).
      eapply rowinv_kn_ext; [|eapply rowinv_fields_eq; eauto].
      intros c. cbn beta. rewrite Hkx. destruct (c =? e) eqn:E; cbn [negb].
      - apply Nat.eqb_eq in E; subst. rewrite Hke. reflexivity.
      - rewrite orb_false_r, andb_true_r. reflexivity. }
    pose proof (step2_spec Sy sxor s0 H0 R0 N0 H0_len H0_nodup H0_range H0_deg R_le_N sx e v Wx He Hkex Hrows) as H2.
    destruct (step2 sxor s0 sx e v) as [s2 L].
    destruct H2 as (W2 & T2 & F2 & I2 & R2 & L2).
    assert (HLrev : forall i, In i (rev L) -> i < R0) by (intros i Hi; apply L2; apply in_rev; exact Hi).
    assert (Hk2 : forall c, known s2 c = known s c || (c =? e))
      by (intros c; rewrite (known_tab_eq Sy sx s2 T2); apply Hkx).
    pose proof (step3_ev_log (decode_ev sxor s0 f) (decode sxor s0 f)
                  (decode_contract Sy sxor s0 H0 R0 N0 H0_len H0_nodup H0_range H0_deg R_le_N f)
                  (decode_ev_erase Sy sxor s0 f) IH (rev L) s2 s' l W2 I2 HLrev Hdec) as HL3.
    change (e :: l) with ([e] ++ l). apply (LogOK_app Sy _ s2); [|exact HL3].
    apply LogOK_single; assumption.
Qed.

(* B1, under the preconditions of ITProofs.decode_contract (nested calls included) *)
Theorem decode_ev_log fuel (s : st) c v s' l : WF s -> PInv s c -> c < N0 ->
  decode_ev sxor s0 fuel s c v = Some (s', l) ->
  NoDup l /\ ~ In c l /\ (forall e, In e l <-> (newly s s' e /\ e <> c)).
Proof.
  intros W HP Hc H. destruct (known s c) eqn:Hk.
  - destruct fuel as [|f]; [discriminate|]. rewrite decode_ev_unfold, Hk in H. injection H as <- <-.
    split; [constructor|split; [intros []|]]. intros e. split; [intros []|].
    intros [[Ha Hb] _]. rewrite Ha in Hb. discriminate.
  - apply LogOK_cons_inv. exact (decode_ev_contract fuel s c v s' l W HP Hk Hc H).
Qed.

(* a complete session state: nothing is decoded any more *)
Lemma decode_ev_complete fuel (s s' : st) e v l : WF s -> iscomp s -> e < N0 -> known s e = false ->
  decode_ev sxor s0 fuel s e v = Some (s', l) -> l = [].
Proof.
  intros W Hc He Hke Hdec. destruct fuel as [|f]; [discriminate|]. rewrite decode_ev_unfold, Hke in Hdec.
  cbv zeta in Hdec. set (s1 := set_tab s e v) in *.
  assert (Hk1 : forall c, known s1 c = known s c || (c =? e)).
  { intros c. apply known_upd. rewrite (wf_tab Sy R0 N0 s W). exact He. }
  assert (W1 : WF s1).
  { destruct W as [Wr Wn Wrws Wunk Wenc Wct Wtab Wfnd Wcur]. constructor; cbn [s1 set_tab r n rws unk enc ct tab fnd];
      rewrite ?upd_length; auto.
    intros j Hj. rewrite Hk1. rewrite Wcur; auto. }
  assert (Hc1 : iscomp s1) by (intros c Hcc; rewrite Hk1, Hc; auto).
  destruct (r s1 <=? e).
  - pose proof (is_complete_spec Sy H0 R0 N0 H0_len R_le_N s1 W1) as Hs. destruct (is_complete s1) as [b sx].
    destruct Hs as (Wx & Tx & _ & _ & _ & _ & Hb). assert (b = true) by (apply Hb; exact Hc1). subst b.
    cbn [fst snd] in Hdec. injection Hdec as <- <-. reflexivity.
  - cbn [fst snd] in Hdec. unfold step2 in Hdec. fold (f2 Sy sxor s0 e v) in Hdec.
    assert (HL : forall i, In i (rows_with s1 e) -> i < R0).
    { intros i Hi. unfold rows_with in Hi. apply filter_In in Hi. destruct Hi as [Hi _]. apply in_seq in Hi.
      rewrite (wf_r Sy R0 N0 s1 W1) in Hi. lia. }
    destruct (step2_fold_wf Sy sxor s0 R0 N0 e v (rows_with s1 e) s1 [] W1 HL) as (W2 & T2).
    destruct (fold_left (f2 Sy sxor s0 e v) (rows_with s1 e) (s1, [])) as [s2 L]. cbn [fst] in W2, T2.
    assert (Hc2 : iscomp s2) by (apply (iscomp_tab_eq Sy R0 N0 s1 s2); [exact T2|exact Hc1]).
    exact (proj1 (step3_ev_complete _ (rev L) s2 s' l W2 Hc2 Hdec)).
Qed.

(* B1 on the states of a session: the submitted column (if it was unknown) followed by the log *)
Theorem decode_ev_logok_good fuel (s : st) c v s' l : Good s -> c < N0 ->
  decode_ev sxor s0 fuel s c v = Some (s', l) ->
  LogOK s s' ((if known s c then [] else [c]) ++ l).
Proof.
  intros (W & HG) Hc H. destruct (known s c) eqn:Hk.
  - destruct fuel as [|f]; [discriminate|]. rewrite decode_ev_unfold, Hk in H. injection H as <- <-.
    apply LogOK_nil. reflexivity.
  - cbn [app]. destruct HG as [Hcomp|(HI & _)].
    + assert (El : l = []) by exact (decode_ev_complete fuel s s' c v l W Hcomp Hc Hk H). subst l.
      pose proof (erase_pair _ _ _ H) as Hd. rewrite decode_ev_erase in Hd.
      destruct (decode_complete Sy sxor s0 H0 R0 N0 H0_len H0_nodup H0_range H0_deg R_le_N fuel s s' c v W Hcomp Hc Hd)
        as (_ & _ & K' & M' & E').
      split; [exact M'|split; [constructor; [intros []|constructor]|]].
      intros e. split.
      * intros [<-|[]]. split; assumption.
      * intros [Ha Hb]. destruct (K' e Hb) as [Hx|Hx]; [rewrite Hx in Ha; discriminate|left; symmetry; exact Hx].
    + exact (decode_ev_contract fuel s c v s' l W (Inv_PInv Sy H0 R0 s c HI) Hk Hc H).
Qed.

Theorem decode_ev_log_good fuel (s : st) c v s' l : Good s -> c < N0 ->
  decode_ev sxor s0 fuel s c v = Some (s', l) ->
  NoDup l /\ ~ In c l /\ (forall e, In e l <-> (newly s s' e /\ e <> c)).
Proof.
  intros HG Hc H. pose proof (decode_ev_logok_good fuel s c v s' l HG Hc H) as HL.
  destruct (known s c) eqn:Hk.
  - cbn [app] in HL. destruct HL as (Hm & Hn & Hi). split; [exact Hn|split].
    + intros Hin. apply Hi in Hin. destruct Hin as [Ha _]. rewrite Hk in Ha. discriminate.
    + intros e. rewrite (Hi e). split; [|tauto]. intros Hne. split; [exact Hne|].
      intros ->. destruct Hne as [Ha _]. rewrite Hk in Ha. discriminate.
  - apply LogOK_cons_inv. exact HL.
Qed.

(* ---------- B2: a whole session ---------- *)
(* the columns submitted at a moment they were unknown ("received first"), in order *)
Fixpoint firsts (fuel : nat) (s : st) (hist : list (nat * Sy)) : list nat :=
  match hist with
  | [] => []
  | ev :: h =>
      (if known s (fst ev) then [] else [fst ev]) ++
      match decode sxor s0 fuel s (fst ev) (snd ev) with Some s' => firsts fuel s' h | None => [] end
  end.

Lemma firsts_sub fuel : forall hist (s : st) e, In e (firsts fuel s hist) -> In e (map fst hist).
Proof.
  induction hist as [|ev h IH]; intros s e He; [exact He|].
  cbn [firsts] in He. cbn [map]. apply in_app_or in He. destruct He as [He|He].
  - destruct (known s (fst ev)); [destruct He|]. destruct He as [<-|[]]. left. reflexivity.
  - destruct (decode sxor s0 fuel s (fst ev) (snd ev)) as [s1|]; [|destruct He]. right. exact (IH s1 e He).
Qed.

Lemma estep_fold_none fuel : forall hist, fold_left (estep Sy sxor s0 fuel) hist None = None.
Proof. induction hist as [|ev h IH]; [reflexivity|exact IH]. Qed.

Lemma estep_fold_acc fuel : forall hist (s : st) l0,
  fold_left (estep Sy sxor s0 fuel) hist (Some (s, l0)) =
  match fold_left (estep Sy sxor s0 fuel) hist (Some (s, [])) with
  | None => None | Some (s2, l2) => Some (s2, l0 ++ l2) end.
Proof.
  induction hist as [|ev h IH]; intros s l0.
  - cbn [fold_left]. rewrite app_nil_r. reflexivity.
  - cbn [fold_left estep]. destruct (decode_ev sxor s0 fuel s (fst ev) (snd ev)) as [[s1 l1]|].
    + rewrite (IH s1 (l0 ++ l1)), (IH s1 ([] ++ l1)). cbn [app].
      destruct (fold_left (estep Sy sxor s0 fuel) h (Some (s1, []))) as [[s2 l2]|]; [|reflexivity].
      rewrite app_assoc. reflexivity.
    + rewrite estep_fold_none. reflexivity.
Qed.

Lemma run_ev_cons fuel (s : st) ev h : run_ev sxor s0 fuel s (ev :: h) =
  match decode_ev sxor s0 fuel s (fst ev) (snd ev) with
  | None => None
  | Some (s1, l1) => match run_ev sxor s0 fuel s1 h with None => None | Some (s2, l2) => Some (s2, l1 ++ l2) end
  end.
Proof.
  rewrite !run_ev_fold. cbn [fold_left estep]. destruct (decode_ev sxor s0 fuel s (fst ev) (snd ev)) as [[s1 l1]|].
  - rewrite run_ev_fold. cbn [app]. apply estep_fold_acc.
  - apply estep_fold_none.
Qed.

Lemma Sound_top (s : st) : Sound Sy H0 R0 (fun _ => True) s.
Proof. intros c _. apply peel_recv. exact I. Qed.

(* B2, from any Good state: received-first columns and logged columns together are exactly the
   columns that became known, each listed once *)
Theorem run_ev_logok fuel : forall hist (s sf : st) l, Good s -> (forall ev, In ev hist -> fst ev < N0) ->
  run_ev sxor s0 fuel s hist = Some (sf, l) ->
  Good sf /\ LogOK s sf (firsts fuel s hist ++ l).
Proof.
  induction hist as [|ev h IH]; intros s sf l HG Hr H.
  - cbn in H. injection H as <- <-. split; [exact HG|]. apply LogOK_nil. reflexivity.
  - rewrite run_ev_cons in H.
    destruct (decode_ev sxor s0 fuel s (fst ev) (snd ev)) as [[s1 l1]|] eqn:Ed; [|discriminate].
    destruct (run_ev sxor s0 fuel s1 h) as [[s2 l2]|] eqn:Er; [|discriminate]. injection H as <- <-.
    assert (Hev : fst ev < N0) by (apply Hr; left; reflexivity).
    pose proof (erase_pair _ _ _ Ed) as Hd. rewrite decode_ev_erase in Hd.
    destruct (decode_good Sy sxor s0 H0 R0 N0 H0_len H0_nodup H0_range H0_deg R_le_N fuel s s1 (fst ev) (snd ev)
                (fun _ => True) HG (Sound_top s) I Hev Hd) as (G1 & _ & _ & _).
    destruct (IH s1 s2 l2 G1 (fun e He => Hr e (or_intror He)) Er) as (G2 & HL2).
    split; [exact G2|].
    pose proof (decode_ev_logok_good fuel s (fst ev) (snd ev) s1 l1 HG Hev Ed) as HL1.
    pose proof (LogOK_app Sy _ _ _ _ _ HL1 HL2) as HL.
    cbn [firsts]. rewrite Hd. revert HL. apply LogOK_perm.
    rewrite <- !app_assoc. apply Permutation_app_head.
    rewrite !app_assoc. apply Permutation_app_tail. apply Permutation_app_comm.
Qed.

Lemma NoDup_app_parts {A : Type} (a b : list A) : NoDup (a ++ b) ->
  NoDup a /\ NoDup b /\ forall x, In x a -> ~ In x b.
Proof.
  induction a as [|h a IH]; intros H.
  - split; [constructor|split; [exact H|intros x []]].
  - cbn [app] in H. inversion H as [|h' t' Hn Hnd]; subst. destruct (IH Hnd) as (Na & Nb & Hd).
    split; [|split; [exact Nb|]].
    + constructor; [|exact Na]. intros Hin. apply Hn. apply in_or_app. left. exact Hin.
    + intros x [<-|Hx]; [|exact (Hd x Hx)]. intros Hin. apply Hn. apply in_or_app. right. exact Hin.
Qed.

(* B2, from the initial state of ITProofs.run *)
Theorem run_ev_log fuel hist (sf : st) l : (forall ev, In ev hist -> fst ev < N0) ->
  run_ev sxor s0 fuel (init Sy R0 N0 H0) hist = Some (sf, l) ->
  let fs := firsts fuel (init Sy R0 N0 H0) hist in
  NoDup l /\ NoDup fs
  /\ (forall e, ~ (In e l /\ In e fs))
  /\ (forall e, known sf e = true -> In e l \/ In e fs)
  /\ (forall e, In e l <-> (known sf e = true /\ ~ In e fs))
  /\ (forall e, In e fs -> known sf e = true /\ In e (map fst hist)).
Proof.
  intros Hr H fs.
  destruct (init_good Sy sxor s0 H0 R0 N0 H0_len H0_deg R_le_N) as (G0 & K0).
  destruct (run_ev_logok fuel hist _ sf l G0 Hr H) as (_ & (Hm & Hn & Hi)). fold fs in Hn, Hi.
  destruct (NoDup_app_parts fs l Hn) as (Nf & Nl & Hd).
  assert (Hall : forall e, In e (fs ++ l) <-> known sf e = true).
  { intros e. rewrite (Hi e). split; [intros [_ Hb]; exact Hb|intros Hb; split; [apply K0|exact Hb]]. }
  split; [exact Nl|split; [exact Nf|split; [|split; [|split]]]].
  - intros e [Ha Hb]. exact (Hd e Hb Ha).
  - intros e He. apply Hall in He. apply in_app_or in He. tauto.
  - intros e. split.
    + intros He. split; [apply Hall; apply in_or_app; right; exact He|]. intros Hf. exact (Hd e Hf He).
    + intros [Hk Hnf]. apply Hall in Hk. apply in_app_or in Hk. tauto.
  - intros e He. split; [apply Hall; apply in_or_app; left; exact He|]. exact (firsts_sub fuel hist _ e He).
Qed.

(* the row/column hypothesis of B3 holds on every state whose rows are sub-rows of the matrix
   (the states the streaming decoder leaves behind, and those of the simplification) *)
Lemma MLRng_of_rows (s : st) : WF s -> (forall i, i < R0 -> incl (nth i (rws s) []) (nth i H0 [])) ->
  MLRng Sy s /\ n s <= length (tab s).
Proof.
  intros W Hsub. split.
  - intros row x Hx. rewrite (wf_tab Sy R0 N0 s W).
    destruct (Nat.lt_ge_cases row R0) as [Hlt|Hge].
    + exact (H0_range row x Hlt (Hsub row Hlt x Hx)).
    + rewrite nth_overflow in Hx by (rewrite (wf_rws Sy R0 N0 s W); exact Hge). destruct Hx.
  - rewrite (wf_tab Sy R0 N0 s W), (wf_n Sy R0 N0 s W). apply Nat.le_refl.
Qed.

(* B3 on such states *)
Corollary ml_finish_ev_log_wf fuel perm (s : st) o l : WF s ->
  (forall i, i < R0 -> incl (nth i (rws s) []) (nth i H0 [])) ->
  ml_finish_ev sxor s0 fuel perm s = Some (o, l) ->
  NoDup l
  /\ (forall e, In e l -> known s e = false /\ known (o_st o) e = true)
  /\ (forall e, known s e = false -> known (o_st o) e = true -> In e l).
Proof.
  intros W Hsub H. destruct (MLRng_of_rows s W Hsub) as (HR & Hn).
  destruct (ml_finish_ev_log Sy sxor s0 fuel perm s o l HR Hn H) as (A & B & C & _). auto.
Qed.
End ITLOG.

Print Assumptions decode_ev_sim.
Print Assumptions run_ev_sim.
Print Assumptions simplify_ev_sim.
Print Assumptions inject_ev_sim.
Print Assumptions ml_finish_ev_sim.
Print Assumptions decode_ev_log.
Print Assumptions decode_ev_log_good.
Print Assumptions run_ev_logok.
Print Assumptions run_ev_log.
Print Assumptions simplify_ev_log.
Print Assumptions ml_finish_ev_logok.
Print Assumptions ml_finish_ev_log.
Print Assumptions MLRng_of_rows.
Print Assumptions ml_finish_ev_log_wf.
