(* Proofs about the callback-event logs of Events.v (C11).
     Part A  simulation: the logged functions compute the states of ITModel.decode / MLModel.simplify /
             MLModel.inject / MLModel.ml_finish (erase of the log = the unlogged function)
     Part B  exactly-once: the log lists, without repetition, exactly the columns that become known
             during the call and were not submitted by the application
               B1  one call of the streaming decoder   (decode_ev_log, decode_ev_log_good)
               B2  a whole streaming session            (run_ev_log, run_ev_log_init)
               B3  the ML finish                        (simplify_ev_log, ml_finish_ev_log)
   No hypothesis on the symbol values or on the xor. *)
From Coq Require Import List Arith Bool Lia Permutation.
From OFV Require Import ListAux ITModel ITLemmas ITProofs DenseSolve MLModel StableTables Events.
Import ListNotations.

(* forget the log *)
Definition erase {A : Type} (o : option (A * list nat)) : option A :=
  match o with Some (a, _) => Some a | None => None end.

Lemma erase_some {A : Type} (o : option (A * list nat)) a : erase o = Some a <-> exists l, o = Some (a, l).
Proof.
  destruct o as [[a' l']|]; cbn [erase]; split.
  - intros H. injection H as <-. exists l'. reflexivity.
  - intros [l H]. injection H as <- _. reflexivity.
  - discriminate.
  - intros [l H]. discriminate.
Qed.

Lemma erase_none {A : Type} (o : option (A * list nat)) : erase o = None <-> o = None.
Proof. destruct o as [[a' l']|]; cbn [erase]; split; intros H; try discriminate; reflexivity. Qed.

Lemma erase_pair {A : Type} (o : option (A * list nat)) a l : o = Some (a, l) -> erase o = Some a.
Proof. intros ->. reflexivity. Qed.

(* ============================================================================================== *)
(* Part A - simulation                                                                             *)
(* ============================================================================================== *)
Section SIM.
Variable Sy : Type. Variable sxor : Sy -> Sy -> Sy. Variable s0 : Sy.
Notation st := (st Sy).

(* ---------- streaming decoder ---------- *)
Lemma step3_ev_cons (dec : st -> nat -> Sy -> option (st * list nat)) row L' (s : st) :
  step3_ev dec (row :: L') s =
  (let '(c', s1) := is_complete s in
   if c' then Some (s1, []) else
   if getn (enc s1) row =? 1 then
     match nth row (rws s1) [], nth row (ct s1) None with
     | [cc], Some t =>
         match dec (consume s1 row) cc t with
         | None => None
         | Some (s2, e1) => match step3_ev dec L' s2 with None => None | Some (s3, e2) => Some (s3, cc :: e1 ++ e2) end
         end
     | _, _ => None
     end
   else step3_ev dec L' s1).
Proof. reflexivity. Qed.

Lemma step3_ev_erase (dec_ev : st -> nat -> Sy -> option (st * list nat)) (dec : st -> nat -> Sy -> option st) :
  (forall s c v, erase (dec_ev s c v) = dec s c v) ->
  forall L s, erase (step3_ev dec_ev L s) = step3 dec L s.
Proof.
  intros Hd. induction L as [|row L IH]; intros s; [reflexivity|].
  rewrite step3_ev_cons, step3_cons. destruct (is_complete s) as [b s1]. destruct b; [reflexivity|].
  destruct (getn (enc s1) row =? 1); [|apply IH].
  destruct (nth row (rws s1) []) as [|cc [|c2 rest]]; try reflexivity.
  destruct (nth row (ct s1) None) as [t|]; [|reflexivity].
  rewrite <- (Hd (consume s1 row) cc t). destruct (dec_ev (consume s1 row) cc t) as [[s2 e1]|]; [|reflexivity].
  cbn [erase]. rewrite <- IH. destruct (step3_ev dec_ev L s2) as [[s3 e2]|]; reflexivity.
Qed.

Lemma decode_ev_unfold fuel (s : st) c v : decode_ev sxor s0 (S fuel) s c v =
  if known s c then Some (s, []) else
  let s1 := set_tab s c v in
  let early := if r s1 <=? c then is_complete s1 else (false, s1) in
  if fst early then Some (snd early, []) else
  let '(s2, L) := step2 sxor s0 (snd early) c v in
  step3_ev (decode_ev sxor s0 fuel) (rev L) s2.
Proof. reflexivity. Qed.

Lemma decode_ev_erase : forall fuel (s : st) c v,
  erase (decode_ev sxor s0 fuel s c v) = decode sxor s0 fuel s c v.
Proof.
  induction fuel as [|f IH]; intros s c v; [reflexivity|].
  rewrite decode_ev_unfold, decode_unfold. destruct (known s c); [reflexivity|]. cbv zeta.
  destruct (if r (set_tab s c v) <=? c then is_complete (set_tab s c v) else (false, set_tab s c v)) as [b sx].
  cbn [fst snd]. destruct b; [reflexivity|].
  destruct (step2 sxor s0 sx c v) as [s2 L]. apply step3_ev_erase. exact IH.
Qed.

(* A1 *)
Theorem decode_ev_sim fuel (s : st) c v :
  (forall s' l, decode_ev sxor s0 fuel s c v = Some (s', l) -> decode sxor s0 fuel s c v = Some s')
  /\ (forall s', decode sxor s0 fuel s c v = Some s' -> exists l, decode_ev sxor s0 fuel s c v = Some (s', l))
  /\ (decode sxor s0 fuel s c v = None <-> decode_ev sxor s0 fuel s c v = None).
Proof.
  rewrite <- decode_ev_erase. split; [|split].
  - intros s' l H. exact (erase_pair _ _ _ H).
  - intros s' H. apply erase_some. exact H.
  - apply erase_none.
Qed.

(* A3: histories, from any start state *)
Definition dstep (fuel : nat) (os : option st) (ev : nat * Sy) : option st :=
  match os with Some s => decode sxor s0 fuel s (fst ev) (snd ev) | None => None end.

Definition estep (fuel : nat) (acc : option (st * list nat)) (ev : nat * Sy) : option (st * list nat) :=
  match acc with None => None | Some (s, l) =>
    match decode_ev sxor s0 fuel s (fst ev) (snd ev) with None => None | Some (s', l') => Some (s', l ++ l') end end.

Lemma run_ev_fold fuel (s : st) hist : run_ev sxor s0 fuel s hist = fold_left (estep fuel) hist (Some (s, [])).
Proof. reflexivity. Qed.

Lemma estep_erase fuel acc ev : erase (estep fuel acc ev) = dstep fuel (erase acc) ev.
Proof.
  destruct acc as [[s l]|]; [|reflexivity]. cbn [estep erase dstep].
  rewrite <- decode_ev_erase. destruct (decode_ev sxor s0 fuel s (fst ev) (snd ev)) as [[s' l']|]; reflexivity.
Qed.

Lemma estep_fold_erase fuel : forall hist acc,
  erase (fold_left (estep fuel) hist acc) = fold_left (dstep fuel) hist (erase acc).
Proof.
  induction hist as [|ev h IH]; intros acc; [reflexivity|].
  cbn [fold_left]. rewrite IH, estep_erase. reflexivity.
Qed.

Lemma run_ev_erase fuel (s : st) hist :
  erase (run_ev sxor s0 fuel s hist) =
  fold_left (fun os ev => match os with Some s => decode sxor s0 fuel s (fst ev) (snd ev) | None => None end)
            hist (Some s).
Proof. rewrite run_ev_fold, estep_fold_erase. reflexivity. Qed.

Theorem run_ev_sim fuel (s : st) hist :
  (forall s' l, run_ev sxor s0 fuel s hist = Some (s', l) ->
     fold_left (fun os ev => match os with Some s => decode sxor s0 fuel s (fst ev) (snd ev) | None => None end)
               hist (Some s) = Some s')
  /\ (forall s',
     fold_left (fun os ev => match os with Some s => decode sxor s0 fuel s (fst ev) (snd ev) | None => None end)
               hist (Some s) = Some s' -> exists l, run_ev sxor s0 fuel s hist = Some (s', l)).
Proof.
  rewrite <- run_ev_erase. split.
  - intros s' l H. exact (erase_pair _ _ _ H).
  - intros s' H. apply erase_some. exact H.
Qed.

(* the run of ITProofs *)
Corollary run_ev_sim_init (H0 : list (list nat)) (R0 N0 : nat) fuel hist :
  erase (run_ev sxor s0 fuel (init Sy R0 N0 H0) hist) = run Sy sxor s0 H0 R0 N0 fuel hist.
Proof. rewrite run_ev_erase. reflexivity. Qed.

(* ---------- ML simplification ---------- *)
Definition srow_ev (rec : st -> nat -> Sy -> option (st * list nat)) (c : nat) (v : Sy)
                   (os : option (st * list nat)) (row : nat) : option (st * list nat) :=
  match os with None => None | Some (s, l) =>
    let t := match nth row (ct s) None with None => v | Some t => sxor t v end in
    let u := getn (unk s) row - 1 in
    let rw := rm c (nth row (rws s) []) in
    let s1 := set_row s row rw u (Some t) in
    if u =? 1 then
      match rw with
      | c' :: _ =>
        match nth c' (tab s1) None with
        | Some _ => Some (s1, l)
        | None => match rec (set_tab (set_row s1 row (rm c' rw) (u - 1) None) c' t) c' t with
                  | None => None | Some (s2, l2) => Some (s2, l ++ c' :: l2) end
        end
      | [] => None
      end
    else Some (s1, l)
  end.

Lemma simplify_ev_unfold fuel (s : st) c v : simplify_ev sxor (S fuel) s c v =
  match rows_with s c with
  | [] => Some (s, [])
  | rowsl =>
    let early := if r s <=? c then is_complete s else (false, s) in
    if fst early then Some (snd early, []) else
    fold_left (srow_ev (simplify_ev sxor fuel) c v) rowsl (Some (snd early, []))
  end.
Proof. reflexivity. Qed.

Lemma srow_ev_erase rec_ev rec c v : (forall s c v, erase (rec_ev s c v) = rec s c v) ->
  forall os row, erase (srow_ev rec_ev c v os row) = srow Sy sxor rec c v (erase os) row.
Proof.
  intros Hr os row. destruct os as [[s l]|]; [|reflexivity]. cbn [erase]. unfold srow_ev, srow. cbv zeta.
  destruct (getn (unk s) row - 1 =? 1); [|reflexivity].
  destruct (rm c (nth row (rws s) [])) as [|c' rest]; [reflexivity|].
  match goal with |- context [match nth c' ?tb None with Some _ => _ | None => _ end] => destruct (nth c' tb None) end;
    [reflexivity|].
  match goal with |- erase (match rec_ev ?a ?b ?d with Some _ => _ | None => _ end) = _ =>
    rewrite <- (Hr a b d); destruct (rec_ev a b d) as [[s2 l2]|]; reflexivity end.
Qed.

Lemma srow_ev_fold_erase rec_ev rec c v : (forall s c v, erase (rec_ev s c v) = rec s c v) ->
  forall rows os, erase (fold_left (srow_ev rec_ev c v) rows os) = fold_left (srow Sy sxor rec c v) rows (erase os).
Proof.
  intros Hr. induction rows as [|row rows IH]; intros os; [reflexivity|].
  cbn [fold_left]. rewrite IH, (srow_ev_erase rec_ev rec c v Hr). reflexivity.
Qed.

Lemma simplify_ev_erase : forall fuel (s : st) c v,
  erase (simplify_ev sxor fuel s c v) = simplify sxor fuel s c v.
Proof.
  induction fuel as [|f IH]; intros s c v; [reflexivity|].
  rewrite simplify_ev_unfold, simplify_unfold. destruct (rows_with s c) as [|row0 rowsl]; [reflexivity|].
  cbv zeta. destruct (if r s <=? c then is_complete s else (false, s)) as [b sx]. cbn [fst snd].
  destruct b; [reflexivity|].
  rewrite (srow_ev_fold_erase _ _ c v IH). reflexivity.
Qed.

(* A2, simplify *)
Theorem simplify_ev_sim fuel (s : st) c v :
  (forall s' l, simplify_ev sxor fuel s c v = Some (s', l) -> simplify sxor fuel s c v = Some s')
  /\ (forall s', simplify sxor fuel s c v = Some s' -> exists l, simplify_ev sxor fuel s c v = Some (s', l))
  /\ (simplify sxor fuel s c v = None <-> simplify_ev sxor fuel s c v = None).
Proof.
  rewrite <- simplify_ev_erase. split; [|split].
  - intros s' l H. exact (erase_pair _ _ _ H).
  - intros s' H. apply erase_some. exact H.
  - apply erase_none.
Qed.

Lemma inject_ev_erase fuel os c : erase (inject_ev sxor fuel os c) = inject sxor fuel (erase os) c.
Proof.
  destruct os as [[s l]|]; [|reflexivity]. cbn [erase inject_ev inject].
  destruct (nth c (tab s) None) as [v|]; [|reflexivity].
  rewrite <- simplify_ev_erase. destruct (simplify_ev sxor fuel s c v) as [[s' l']|]; reflexivity.
Qed.

(* A2, inject (on option states) *)
Theorem inject_ev_sim fuel (os : option (st * list nat)) c :
  (forall s' l, inject_ev sxor fuel os c = Some (s', l) -> inject sxor fuel (erase os) c = Some s')
  /\ (forall s', inject sxor fuel (erase os) c = Some s' -> exists l, inject_ev sxor fuel os c = Some (s', l))
  /\ (inject sxor fuel (erase os) c = None <-> inject_ev sxor fuel os c = None).
Proof.
  rewrite <- inject_ev_erase. split; [|split].
  - intros s' l H. exact (erase_pair _ _ _ H).
  - intros s' H. apply erase_some. exact H.
  - apply erase_none.
Qed.

Lemma inject_ev_fold_erase fuel : forall cols os,
  erase (fold_left (inject_ev sxor fuel) cols os) = fold_left (inject sxor fuel) cols (erase os).
Proof.
  induction cols as [|c cols IH]; intros os; [reflexivity|].
  cbn [fold_left]. rewrite IH, inject_ev_erase. reflexivity.
Qed.

Lemma ml_finish_unfold fuel perm (s : st) :
  ml_finish sxor s0 fuel perm s = None <->
  fold_left (inject sxor fuel) perm
    (fold_left (inject sxor fuel) (map (fun i => r s + i) (seq 0 (n s - r s))) (Some (prepar s))) = None.
Proof.
  unfold ml_finish. cbv zeta. change (r (prepar s)) with (r s).
  destruct (fold_left (inject sxor fuel) perm
    (fold_left (inject sxor fuel) (map (fun i => r s + i) (seq 0 (n s - r s))) (Some (prepar s)))) as [sb|].
  - split; [|discriminate]. intros H. exfalso. revert H.
    match goal with |- (if ?c then _ else _) = None -> _ => destruct c end.
    + unfold is_complete. discriminate.
    + match goal with |- (let '(b, ct') := ?tk in _) = None -> _ => destruct tk as [b ct'] end.
      match goal with |- match ?sv with Some _ => _ | None => _ end = None -> _ => destruct sv as [xv|] end.
      * discriminate.
      * unfold is_complete. discriminate.
  - split; reflexivity.
Qed.

Lemma ml_finish_ev_erase fuel perm (s : st) :
  erase (ml_finish_ev sxor s0 fuel perm s) = ml_finish sxor s0 fuel perm s.
Proof.
  unfold ml_finish_ev. cbv zeta.
  pose proof (inject_ev_fold_erase fuel perm
     (fold_left (inject_ev sxor fuel) (map (fun i => r s + i) (seq 0 (n s - r s))) (Some (prepar s, [])))) as He.
  rewrite (inject_ev_fold_erase fuel (map (fun i => r s + i) (seq 0 (n s - r s))) (Some (prepar s, []))) in He.
  cbn [erase] in He.
  destruct (fold_left (inject_ev sxor fuel) perm
     (fold_left (inject_ev sxor fuel) (map (fun i => r s + i) (seq 0 (n s - r s))) (Some (prepar s, [])))) as [[s1 l]|].
  - destruct (ml_finish sxor s0 fuel perm s) as [o|]; reflexivity.
  - cbn [erase] in He. symmetry. apply ml_finish_unfold. symmetry. exact He.
Qed.

(* A2, ml_finish *)
Theorem ml_finish_ev_sim fuel perm (s : st) :
  (forall o l, ml_finish_ev sxor s0 fuel perm s = Some (o, l) -> ml_finish sxor s0 fuel perm s = Some o)
  /\ (forall o, ml_finish sxor s0 fuel perm s = Some o -> exists l, ml_finish_ev sxor s0 fuel perm s = Some (o, l))
  /\ (ml_finish sxor s0 fuel perm s = None <-> ml_finish_ev sxor s0 fuel perm s = None).
Proof.
  rewrite <- ml_finish_ev_erase. split; [|split].
  - intros o l H. exact (erase_pair _ _ _ H).
  - intros o H. apply erase_some. exact H.
  - apply erase_none.
Qed.
End SIM.
