(* C15: in any codeword of a parity-check matrix whose source columns all have even weight and whose
   repair part is the staircase (column j < r-1 in rows j and j+1, column r-1 in row r-1 only), the
   last repair symbol is the null symbol.  Universal in the matrix, its size and the symbol group. *)
From Coq Require Import Arith List Bool Lia.
Import ListNotations.

Section LN.
Variable Sy : Type. Variable sxor : Sy -> Sy -> Sy. Variable s0 : Sy.
Hypothesis sxor_assoc : forall a b c, sxor a (sxor b c) = sxor (sxor a b) c.
Hypothesis sxor_comm : forall a b, sxor a b = sxor b a.
Hypothesis sxor_0_l : forall a, sxor s0 a = a.
Hypothesis sxor_nilp : forall a, sxor a a = s0.

Definition xsum (l : list Sy) : Sy := fold_right sxor s0 l.
Lemma xsum_app a b : xsum (a ++ b) = sxor (xsum a) (xsum b).
Proof. induction a as [|x a IH]; simpl; [now rewrite sxor_0_l|]. now rewrite IH, sxor_assoc. Qed.
Lemma sxor_0_r a : sxor a s0 = a.  Proof. now rewrite sxor_comm, sxor_0_l. Qed.

Ltac bool_lia := repeat match goal with
  | |- context [?a <=? ?b] => destruct (Nat.leb_spec a b)
  | |- context [?a <? ?b] => destruct (Nat.ltb_spec a b)
  end; cbn [andb]; try lia; auto.

(* a sum with at most one non-null term *)
Lemma xsum_single (f : nat -> Sy) x : (forall c, c <> x -> f c = s0) ->
  forall len a, xsum (map f (seq a len)) = if (a <=? x) && (x <? a + len) then f x else s0.
Proof.
  intros Hf. induction len as [|len IH]; intros a.
  - cbn [seq map xsum fold_right]. bool_lia.
  - cbn [seq map]. change (xsum (f a :: map f (seq (S a) len))) with (sxor (f a) (xsum (map f (seq (S a) len)))).
    rewrite IH. destruct (Nat.eq_dec a x) as [->|Hne].
    + bool_lia. apply sxor_0_r.
    + rewrite (Hf a Hne), sxor_0_l. bool_lia.
Qed.

Variable cw : nat -> Sy.                       (* a codeword: value of every matrix column *)
Definition rowsum (row : list nat) : Sy := xsum (map cw row).
Definition colcount (H : list (list nat)) (c : nat) : nat := length (filter (fun row => existsb (Nat.eqb c) row) H).
(* sum over columns 0..n-1 of cw c taken (count c) times, i.e. when the count is odd *)
Definition oddsum (cnt : nat -> nat) (n : nat) : Sy := xsum (map (fun c => if Nat.odd (cnt c) then cw c else s0) (seq 0 n)).

Lemma xsum_pointwise (f g : nat -> Sy) l : xsum (map (fun c => sxor (f c) (g c)) l) = sxor (xsum (map f l)) (xsum (map g l)).
Proof.
  induction l as [|x l IH]; simpl; [now rewrite sxor_0_l|]. rewrite IH.
  rewrite !sxor_assoc. f_equal. rewrite <- !sxor_assoc. f_equal. apply sxor_comm.
Qed.

(* indicator sum of a duplicate-free row *)
Lemma rowsum_indicator n : forall row, NoDup row -> (forall c, In c row -> c < n) ->
  rowsum row = xsum (map (fun c => if existsb (Nat.eqb c) row then cw c else s0) (seq 0 n)).
Proof.
  induction row as [|x row IH]; intros Hnd Hr.
  - unfold rowsum. simpl. induction (seq 0 n) as [|y l IHl]; simpl; [reflexivity|]. rewrite sxor_0_l. exact IHl.
  - inversion Hnd as [|? ? Hx Hnd']; subst. unfold rowsum in *. simpl map. simpl xsum.
    rewrite IH by (auto; intros; apply Hr; now right).
    assert (Hs : cw x = xsum (map (fun c => if c =? x then cw c else s0) (seq 0 n))).
    { assert (Hxn : x < n) by (apply Hr; now left).
      rewrite (xsum_single (fun c => if c =? x then cw c else s0) x).
      - rewrite Nat.eqb_refl. bool_lia.
      - intros c Hc. destruct (Nat.eqb_spec c x); [congruence|reflexivity]. }
    rewrite Hs at 1. rewrite <- xsum_pointwise. f_equal. apply map_ext. intros c. simpl.
    destruct (Nat.eqb_spec c x) as [->|Hne]; simpl.
    + destruct (existsb (Nat.eqb x) row) eqn:E; [|now rewrite sxor_0_r].
      apply existsb_exists in E as (y & Hy & Ey). apply Nat.eqb_eq in Ey. subst. tauto.
    + now rewrite sxor_0_l.
Qed.

(* summing all parity equations = summing every column an odd-count number of times *)
Lemma total_rowsum n : forall H, (forall row, In row H -> NoDup row /\ forall c, In c row -> c < n) ->
  xsum (map rowsum H) = oddsum (colcount H) n.
Proof.
  induction H as [|row H IH]; intros Hwf.
  - unfold oddsum, colcount. simpl. induction (seq 0 n) as [|y l IHl]; simpl; [reflexivity|]. rewrite sxor_0_l. exact IHl.
  - simpl map. simpl xsum. rewrite IH by (intros; apply Hwf; now right).
    destruct (Hwf row (or_introl eq_refl)) as (Hnd & Hr).
    rewrite (rowsum_indicator n row Hnd Hr). unfold oddsum. rewrite <- xsum_pointwise. f_equal. apply map_ext. intros c.
    unfold colcount. simpl. destruct (existsb (Nat.eqb c) row); simpl.
    + rewrite Nat.odd_succ. rewrite <- Nat.negb_odd.
      destruct (Nat.odd (length (filter (fun row0 => existsb (Nat.eqb c) row0) H))); simpl; [apply sxor_nilp|apply sxor_0_r].
    + apply sxor_0_l.
Qed.

(* C15 *)
Theorem last_repair_is_null_proof (H : list (list nat)) (r n : nat) :
  1 <= r -> r <= n ->
  (forall row, In row H -> NoDup row /\ forall c, In c row -> c < n) ->
  (forall row, In row H -> rowsum row = s0) ->                       (* cw is a codeword *)
  (forall c, r <= c < n -> Nat.even (colcount H c) = true) ->         (* source columns: even weight *)
  (forall c, c < r - 1 -> colcount H c = 2) -> colcount H (r - 1) = 1 -> (* staircase *)
  cw (r - 1) = s0.
Proof.
  intros Hr Hrn Hwf Hcw Hsrc Hst Hlast.
  assert (Hz : xsum (map rowsum H) = s0).
  { clear -Hcw sxor_0_l. induction H as [|row H IH]; simpl; auto. rewrite (Hcw row (or_introl eq_refl)), sxor_0_l.
    apply IH. intros; apply Hcw; now right. }
  rewrite (total_rowsum n H Hwf) in Hz. unfold oddsum in Hz.
  assert (Hodd : forall a, a < n -> Nat.odd (colcount H a) = (a =? r - 1)).
  { intros a Ha. destruct (Nat.eqb_spec a (r - 1)) as [->|Hne]; [now rewrite Hlast|].
    destruct (Nat.lt_ge_cases a (r - 1)) as [Hlt|Hge]; [now rewrite (Hst a Hlt)|].
    rewrite <- Nat.negb_even, (Hsrc a ltac:(lia)). reflexivity. }
  rewrite (map_ext_in _ (fun c => if c =? r - 1 then cw c else s0)) in Hz
    by (intros c Hc; apply in_seq in Hc; rewrite Hodd by lia; reflexivity).
  rewrite (xsum_single (fun c => if c =? r - 1 then cw c else s0) (r - 1)) in Hz
    by (intros c Hc; destruct (Nat.eqb_spec c (r - 1)); [congruence|reflexivity]).
  rewrite Nat.eqb_refl in Hz. revert Hz. bool_lia.
Qed.
End LN.
