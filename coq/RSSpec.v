(* RSSpec: abstract algebra behind systematic Reed-Solomon codes over an
   arbitrary field; polynomials are coefficient lists, low degree first. *)
From Coq Require Import List Arith Bool Lia Ring.
Import ListNotations.

(* ------------------------------------------------------------------ *)
(* Section 1: definitions (operations only, no hypotheses)             *)
(* ------------------------------------------------------------------ *)
Section Defs.
  Variable F : Type.
  Variables (zero one : F) (add mul : F -> F -> F) (opp inv : F -> F).

  Definition sub a b := add a (opp b).

  Definition peval (p : list F) (x : F) : F :=
    fold_right (fun c acc => add c (mul x acc)) zero p.

  Fixpoint pow (x : F) (n : nat) : F :=
    match n with O => one | S m => mul x (pow x m) end.

  Definition sum (l : list F) : F := fold_right add zero l.
  Definition prod (l : list F) : F := fold_right mul one l.

  (* Lagrange basis polynomial number i on the points pts, evaluated at x *)
  Definition lagr (pts : list F) (i : nat) (x : F) : F :=
    prod (map (fun j => mul (sub x (nth j pts zero))
                            (inv (sub (nth i pts zero) (nth j pts zero))))
              (filter (fun j => negb (Nat.eqb j i)) (seq 0 (length pts)))).

  (* symbol at evaluation point x of the systematic code with base points pts *)
  Definition rs_sym (pts src : list F) (x : F) : F :=
    sum (map (fun i => mul (nth i src zero) (lagr pts i x)) (seq 0 (length pts))).

  (* ---- auxiliary coefficient-list operations ---- *)
  Definition pscale (c : F) (p : list F) : list F := map (mul c) p.

  Fixpoint padd (p q : list F) : list F :=
    match p, q with
    | [], _ => q
    | _, [] => p
    | a :: p', b :: q' => add a b :: padd p' q'
    end.

  Definition psub (p q : list F) : list F :=
    map (fun ab => sub (fst ab) (snd ab)) (combine p q).

  (* multiplication by the linear factor a + b X *)
  Definition pmul_lin (a b : F) (p : list F) : list F :=
    padd (pscale a p) (zero :: pscale b p).

  (* synthetic division by (X - a) *)
  Fixpoint quot (p : list F) (a : F) : list F :=
    match p with
    | [] => []
    | _ :: p' => match p' with
                 | [] => []
                 | _ :: _ => peval p' a :: quot p' a
                 end
    end.

  (* coefficient list of the Lagrange basis polynomial *)
  Definition lagr_poly (pts : list F) (i : nat) : list F :=
    fold_right
      (fun j acc =>
         pmul_lin (mul (opp (nth j pts zero))
                       (inv (sub (nth i pts zero) (nth j pts zero))))
                  (inv (sub (nth i pts zero) (nth j pts zero))) acc)
      [one]
      (filter (fun j => negb (Nat.eqb j i)) (seq 0 (length pts))).

  (* sum of a list of polynomials, padded to length n *)
  Definition psum (n : nat) (l : list (list F)) : list F :=
    fold_right padd (repeat zero n) l.

  (* coefficient list of the encoding polynomial *)
  Definition rs_poly (pts src : list F) : list F :=
    psum (length pts)
         (map (fun i => pscale (nth i src zero) (lagr_poly pts i))
              (seq 0 (length pts))).

  (* the monomial X^t as a list of length k (when t < k) *)
  Definition mono (t k : nat) : list F :=
    repeat zero t ++ one :: repeat zero (k - t - 1).
End Defs.

(* ------------------------------------------------------------------ *)
(* Section 2: homomorphisms                                            *)
(* ------------------------------------------------------------------ *)
Section Hom.
  Variables F1 F2 : Type.
  Variables (zero1 one1 : F1) (add1 mul1 : F1 -> F1 -> F1) (opp1 inv1 : F1 -> F1).
  Variables (zero2 one2 : F2) (add2 mul2 : F2 -> F2 -> F2) (opp2 inv2 : F2 -> F2).
  Variable phi : F1 -> F2.
  Hypothesis phi_zero : phi zero1 = zero2.
  Hypothesis phi_one : phi one1 = one2.
  Hypothesis phi_add : forall a b, phi (add1 a b) = add2 (phi a) (phi b).
  Hypothesis phi_mul : forall a b, phi (mul1 a b) = mul2 (phi a) (phi b).
  Hypothesis phi_opp : forall a, phi (opp1 a) = opp2 (phi a).
  Hypothesis phi_inv : forall a, phi (inv1 a) = inv2 (phi a).

  Lemma hom_sub : forall a b,
    phi (sub F1 add1 opp1 a b) = sub F2 add2 opp2 (phi a) (phi b).
  Proof. intros a b. unfold sub. rewrite phi_add, phi_opp. reflexivity. Qed.

  Lemma hom_peval : forall p x,
    phi (peval F1 zero1 add1 mul1 p x) = peval F2 zero2 add2 mul2 (map phi p) (phi x).
  Proof.
    intros p x. induction p as [|c p IH].
    - exact phi_zero.
    - cbn [peval map fold_right]. rewrite phi_add, phi_mul.
      unfold peval in IH. rewrite IH. reflexivity.
  Qed.

  Lemma hom_pow : forall x n,
    phi (pow F1 one1 mul1 x n) = pow F2 one2 mul2 (phi x) n.
  Proof.
    intros x n. induction n as [|n IH].
    - exact phi_one.
    - cbn [pow]. rewrite phi_mul, IH. reflexivity.
  Qed.

  Lemma hom_sum : forall l,
    phi (sum F1 zero1 add1 l) = sum F2 zero2 add2 (map phi l).
  Proof.
    intros l. induction l as [|c l IH].
    - exact phi_zero.
    - cbn [sum map fold_right]. rewrite phi_add.
      unfold sum in IH. rewrite IH. reflexivity.
  Qed.

  Lemma hom_prod : forall l,
    phi (prod F1 one1 mul1 l) = prod F2 one2 mul2 (map phi l).
  Proof.
    intros l. induction l as [|c l IH].
    - exact phi_one.
    - cbn [prod map fold_right]. rewrite phi_mul.
      unfold prod in IH. rewrite IH. reflexivity.
  Qed.

  Lemma hom_nth : forall l i, nth i (map phi l) zero2 = phi (nth i l zero1).
  Proof. intros l i. rewrite <- phi_zero. apply map_nth. Qed.

  Lemma hom_lagr : forall pts i x,
    phi (lagr F1 zero1 one1 add1 mul1 opp1 inv1 pts i x)
    = lagr F2 zero2 one2 add2 mul2 opp2 inv2 (map phi pts) i (phi x).
  Proof.
    intros pts i x. unfold lagr. rewrite hom_prod, map_map, map_length.
    f_equal. apply map_ext. intros j.
    rewrite phi_mul, phi_inv, !hom_sub, !hom_nth. reflexivity.
  Qed.

  Lemma hom_rs_sym : forall pts src x,
    phi (rs_sym F1 zero1 one1 add1 mul1 opp1 inv1 pts src x)
    = rs_sym F2 zero2 one2 add2 mul2 opp2 inv2 (map phi pts) (map phi src) (phi x).
  Proof.
    intros pts src x. unfold rs_sym. rewrite hom_sum, map_map, map_length.
    f_equal. apply map_ext. intros i.
    rewrite phi_mul, hom_lagr, hom_nth. reflexivity.
  Qed.
End Hom.

(* ------------------------------------------------------------------ *)
(* Section 3: theory over a field                                      *)
(* ------------------------------------------------------------------ *)
Section Theory.
  Variable F : Type.
  Variables (zero one : F) (add mul : F -> F -> F) (opp inv : F -> F).

  Hypothesis eq_dec : forall a b : F, {a = b} + {a <> b}.
  Hypothesis add_comm : forall a b, add a b = add b a.
  Hypothesis add_assoc : forall a b c, add a (add b c) = add (add a b) c.
  Hypothesis add_0_l : forall a, add zero a = a.
  Hypothesis add_opp_r : forall a, add a (opp a) = zero.
  Hypothesis mul_comm : forall a b, mul a b = mul b a.
  Hypothesis mul_assoc : forall a b c, mul a (mul b c) = mul (mul a b) c.
  Hypothesis mul_1_l : forall a, mul one a = a.
  Hypothesis mul_add_distr_l : forall a b c, mul a (add b c) = add (mul a b) (mul a c).
  Hypothesis mul_inv_r : forall a, a <> zero -> mul a (inv a) = one.
  Hypothesis one_neq_zero : one <> zero.

  Local Notation fsub := (sub F add opp).
  Local Notation pe := (peval F zero add mul).
  Local Notation fpow := (pow F one mul).
  Local Notation fsum := (sum F zero add).
  Local Notation fprod := (prod F one mul).
  Local Notation flagr := (lagr F zero one add mul opp inv).
  Local Notation frs := (rs_sym F zero one add mul opp inv).
  Local Notation fpscale := (pscale F mul).
  Local Notation fpadd := (padd F add).
  Local Notation fpsub := (psub F add opp).
  Local Notation fpmul_lin := (pmul_lin F zero add mul).
  Local Notation fquot := (quot F zero add mul).
  Local Notation flagr_poly := (lagr_poly F zero one add mul opp inv).
  Local Notation fpsum := (psum F zero add).
  Local Notation frs_poly := (rs_poly F zero one add mul opp inv).
  Local Notation fmono := (mono F zero one).

  Lemma F_ring : ring_theory zero one add mul fsub opp (@eq F).
  Proof.
    constructor.
    - exact add_0_l.
    - exact add_comm.
    - exact add_assoc.
    - exact mul_1_l.
    - exact mul_comm.
    - exact mul_assoc.
    - intros x y z. rewrite (mul_comm (add x y) z), mul_add_distr_l,
        (mul_comm z x), (mul_comm z y). reflexivity.
    - intros x y. reflexivity.
    - exact add_opp_r.
  Qed.

  Add Ring F_ring_inst : F_ring.

  (* ---- basic field facts ---- *)
  Lemma sub_eq_zero : forall x a, fsub x a = zero -> x = a.
  Proof.
    intros x a H. assert (E : x = add (fsub x a) a) by ring.
    rewrite E, H. ring.
  Qed.

  Lemma sub_diag : forall a, fsub a a = zero.
  Proof. intros a. ring. Qed.

  Lemma sub_neq_zero : forall x a, x <> a -> fsub x a <> zero.
  Proof. intros x a H E. apply H. apply sub_eq_zero. exact E. Qed.

  Lemma mul_eq_zero : forall a b, mul a b = zero -> a = zero \/ b = zero.
  Proof.
    intros a b H. destruct (eq_dec a zero) as [Ea|Na].
    - left. exact Ea.
    - right. assert (E : b = mul (mul a (inv a)) b).
      { rewrite (mul_inv_r a Na). ring. }
      assert (E2 : mul (mul a (inv a)) b = mul (inv a) (mul a b)) by ring.
      rewrite E, E2, H. ring.
  Qed.

  (* ---- unfolding lemmas ---- *)
  Lemma peval_nil : forall x, pe [] x = zero.
  Proof. reflexivity. Qed.

  Lemma peval_cons : forall c p x, pe (c :: p) x = add c (mul x (pe p x)).
  Proof. reflexivity. Qed.

  Lemma sum_cons : forall c l, fsum (c :: l) = add c (fsum l).
  Proof. reflexivity. Qed.

  Lemma prod_cons : forall c l, fprod (c :: l) = mul c (fprod l).
  Proof. reflexivity. Qed.

  (* ---- sums ---- *)
  Lemma sum_map_zero : forall (A : Type) (f : A -> F) l,
    (forall i, In i l -> f i = zero) -> fsum (map f l) = zero.
  Proof.
    intros A f l. induction l as [|a l IH]; intros H.
    - reflexivity.
    - cbn [map]. rewrite sum_cons, IH, (H a).
      + ring.
      + left. reflexivity.
      + intros i Hi. apply H. right. exact Hi.
  Qed.

  Lemma sum_map_add : forall (A : Type) (f h : A -> F) l,
    fsum (map (fun i => add (f i) (h i)) l) = add (fsum (map f l)) (fsum (map h l)).
  Proof.
    intros A f h l. induction l as [|a l IH].
    - cbn. ring.
    - cbn [map]. rewrite !sum_cons, IH. ring.
  Qed.

  Lemma sum_map_scale : forall (A : Type) c (f : A -> F) l,
    fsum (map (fun i => mul c (f i)) l) = mul c (fsum (map f l)).
  Proof.
    intros A c f l. induction l as [|a l IH].
    - cbn. ring.
    - cbn [map]. rewrite !sum_cons, IH. ring.
  Qed.

  Lemma sum_map_ext_in : forall (A : Type) (f h : A -> F) l,
    (forall i, In i l -> f i = h i) -> fsum (map f l) = fsum (map h l).
  Proof. intros A f h l H. f_equal. apply map_ext_in. exact H. Qed.

  Lemma sum_single : forall (g : nat -> F) l j,
    NoDup l -> In j l -> (forall i, In i l -> i <> j -> g i = zero) ->
    fsum (map g l) = g j.
  Proof.
    intros g l j. induction l as [|a l IH]; intros ND Hj Hz.
    - destruct Hj.
    - inversion ND as [|a' l' Hna ND']; subst a' l'.
      cbn [map]. rewrite sum_cons. destruct Hj as [Ea|Hin].
      + subst a. rewrite sum_map_zero.
        * ring.
        * intros i Hi. apply Hz.
          -- right. exact Hi.
          -- intros E. subst i. apply Hna. exact Hi.
      + rewrite IH.
        * rewrite (Hz a).
          -- ring.
          -- left. reflexivity.
          -- intros E. subst a. apply Hna. exact Hin.
        * exact ND'.
        * exact Hin.
        * intros i Hi Hne. apply Hz.
          -- right. exact Hi.
          -- exact Hne.
  Qed.

  (* ---- products ---- *)
  Lemma prod_all_one : forall l, (forall y, In y l -> y = one) -> fprod l = one.
  Proof.
    intros l. induction l as [|a l IH]; intros H.
    - reflexivity.
    - rewrite prod_cons, IH, (H a).
      + ring.
      + left. reflexivity.
      + intros y Hy. apply H. right. exact Hy.
  Qed.

  Lemma prod_has_zero : forall l, In zero l -> fprod l = zero.
  Proof.
    intros l. induction l as [|a l IH]; intros H.
    - destruct H.
    - rewrite prod_cons. destruct H as [E|Hin].
      + subst a. ring.
      + rewrite (IH Hin). ring.
  Qed.

  (* ---- polynomial operations ---- *)
  Lemma peval_pscale : forall c p x, pe (fpscale c p) x = mul c (pe p x).
  Proof.
    intros c p x. induction p as [|a p IH].
    - cbn. ring.
    - unfold pscale in *. cbn [map]. rewrite !peval_cons, IH. ring.
  Qed.

  Lemma pscale_length : forall c p, length (fpscale c p) = length p.
  Proof. intros c p. unfold pscale. apply map_length. Qed.

  Lemma peval_padd : forall p q x, pe (fpadd p q) x = add (pe p x) (pe q x).
  Proof.
    intros p. induction p as [|a p IH]; intros q x.
    - cbn [padd]. rewrite peval_nil. ring.
    - destruct q as [|b q].
      + cbn [padd]. rewrite peval_nil. ring.
      + cbn [padd]. rewrite !peval_cons, IH. ring.
  Qed.

  Lemma padd_length : forall p q, length (fpadd p q) = Nat.max (length p) (length q).
  Proof.
    intros p. induction p as [|a p IH]; intros q.
    - reflexivity.
    - destruct q as [|b q].
      + reflexivity.
      + cbn [padd length]. rewrite IH. reflexivity.
  Qed.

  Lemma peval_pmul_lin : forall a b p x,
    pe (fpmul_lin a b p) x = mul (add a (mul b x)) (pe p x).
  Proof.
    intros a b p x. unfold pmul_lin.
    rewrite peval_padd, peval_cons, !peval_pscale. ring.
  Qed.

  Lemma pmul_lin_length : forall a b p, length (fpmul_lin a b p) = S (length p).
  Proof.
    intros a b p. unfold pmul_lin. rewrite padd_length. cbn [length].
    rewrite !pscale_length. lia.
  Qed.

  Lemma peval_repeat_zero : forall n x, pe (repeat zero n) x = zero.
  Proof.
    intros n x. induction n as [|n IH].
    - reflexivity.
    - cbn [repeat]. rewrite peval_cons, IH. ring.
  Qed.

  Lemma peval_shift : forall n q x, pe (repeat zero n ++ q) x = mul (fpow x n) (pe q x).
  Proof.
    intros n q x. induction n as [|n IH].
    - cbn [repeat app pow]. ring.
    - cbn [repeat app pow]. rewrite peval_cons, IH. ring.
  Qed.

  Lemma peval_mono : forall t k x, pe (fmono t k) x = fpow x t.
  Proof.
    intros t k x. unfold mono. rewrite peval_shift, peval_cons, peval_repeat_zero. ring.
  Qed.

  Lemma mono_length : forall t k, t < k -> length (fmono t k) = k.
  Proof.
    intros t k H. unfold mono. rewrite app_length. cbn [length].
    rewrite !repeat_length. lia.
  Qed.

  Lemma peval_psum : forall n l x, pe (fpsum n l) x = fsum (map (fun q => pe q x) l).
  Proof.
    intros n l x. unfold psum. induction l as [|q l IH].
    - cbn [fold_right map]. apply peval_repeat_zero.
    - cbn [fold_right map]. rewrite peval_padd, sum_cons, IH. reflexivity.
  Qed.

  Lemma psum_length : forall n l, (forall q, In q l -> length q = n) -> length (fpsum n l) = n.
  Proof.
    intros n l. unfold psum. induction l as [|q l IH]; intros H.
    - apply repeat_length.
    - cbn [fold_right]. rewrite padd_length, IH, (H q).
      + lia.
      + left. reflexivity.
      + intros q' Hq'. apply H. right. exact Hq'.
  Qed.

  (* ---- psub ---- *)
  Lemma psub_length : forall p q, length p = length q -> length (fpsub p q) = length p.
  Proof.
    intros p q H. unfold psub. rewrite map_length, combine_length. lia.
  Qed.

  Lemma peval_psub : forall p q x, length p = length q ->
    pe (fpsub p q) x = fsub (pe p x) (pe q x).
  Proof.
    intros p. induction p as [|a p IH]; intros q x H.
    - destruct q as [|b q]; [|discriminate H]. cbn. ring.
    - destruct q as [|b q]; [discriminate H|]. injection H as H.
      unfold psub in *. cbn [combine map fst snd]. rewrite !peval_cons, (IH q x H). ring.
  Qed.

  Lemma psub_zero_eq : forall p q, length p = length q ->
    Forall (fun c => c = zero) (fpsub p q) -> p = q.
  Proof.
    intros p. induction p as [|a p IH]; intros q H HF.
    - destruct q as [|b q]; [reflexivity|discriminate H].
    - destruct q as [|b q]; [discriminate H|]. injection H as H.
      unfold psub in *. cbn [combine map fst snd] in HF.
      inversion HF as [|c l Hc HF']; subst c l.
      f_equal.
      + apply sub_eq_zero. exact Hc.
      + apply IH; assumption.
  Qed.

  (* ---- synthetic division ---- *)
  Lemma quot_cons2 : forall c d p a,
    fquot (c :: d :: p) a = pe (d :: p) a :: fquot (d :: p) a.
  Proof. reflexivity. Qed.

  Lemma quot_spec : forall p a x,
    pe p x = add (pe p a) (mul (fsub x a) (pe (fquot p a) x)).
  Proof.
    intros p a x. induction p as [|c p IH].
    - cbn. ring.
    - destruct p as [|d p].
      + cbn. ring.
      + rewrite quot_cons2. remember (d :: p) as p' eqn:Ep in *.
        rewrite !peval_cons, IH. ring.
  Qed.

  Lemma quot_length : forall p a, length (fquot p a) = pred (length p).
  Proof.
    intros p a. induction p as [|c p IH].
    - reflexivity.
    - destruct p as [|d p].
      + reflexivity.
      + rewrite quot_cons2. cbn [length] in *. rewrite IH. reflexivity.
  Qed.

  Lemma quot_zero : forall p a,
    Forall (fun c => c = zero) (fquot p a) -> pe p a = zero ->
    Forall (fun c => c = zero) p.
  Proof.
    intros p a. induction p as [|c p IH]; intros HF H0.
    - constructor.
    - destruct p as [|d p].
      + constructor; [|constructor]. rewrite <- H0. cbn. ring.
      + rewrite quot_cons2 in HF. remember (d :: p) as p' eqn:Ep in *.
        inversion HF as [|c' l' Hc HF']; subst c' l'.
        rewrite peval_cons, Hc in H0. constructor.
        * rewrite <- H0. ring.
        * apply IH; assumption.
  Qed.

  (* ---- T1 ---- *)
  Theorem root_bound : forall (p xs : list F),
    NoDup xs -> length p <= length xs ->
    (forall x, In x xs -> pe p x = zero) ->
    Forall (fun c => c = zero) p.
  Proof.
    intros p xs. revert p. induction xs as [|a xs IH]; intros p ND HL HR.
    - destruct p as [|c p]; [constructor|]. cbn in HL. lia.
    - inversion ND as [|a' l' Hna ND']; subst a' l'.
      assert (Ha : pe p a = zero) by (apply HR; left; reflexivity).
      apply (quot_zero p a); [|exact Ha].
      apply IH.
      + exact ND'.
      + rewrite quot_length. cbn [length] in HL. lia.
      + intros x Hx.
        assert (Hpx : pe p x = zero) by (apply HR; right; exact Hx).
        rewrite (quot_spec p a x), Ha in Hpx.
        assert (Hm : mul (fsub x a) (pe (fquot p a) x) = zero).
        { etransitivity; [|exact Hpx]. ring. }
        destruct (mul_eq_zero _ _ Hm) as [E|E].
        * exfalso. apply Hna. rewrite <- (sub_eq_zero x a E). exact Hx.
        * exact E.
  Qed.

  (* ---- T1' ---- *)
  Theorem peval_inj : forall p q xs,
    length p = length q -> NoDup xs -> length p <= length xs ->
    (forall x, In x xs -> pe p x = pe q x) -> p = q.
  Proof.
    intros p q xs HL ND HLx HE.
    apply psub_zero_eq; [exact HL|].
    apply (root_bound _ xs ND).
    - rewrite psub_length; assumption.
    - intros x Hx. rewrite peval_psub by exact HL. rewrite (HE x Hx). ring.
  Qed.

  (* ---- T2 ---- *)
  Lemma in_others : forall n i j,
    In j (filter (fun j => negb (Nat.eqb j i)) (seq 0 n)) <-> j < n /\ j <> i.
  Proof.
    intros n i j. rewrite filter_In, in_seq, negb_true_iff, Nat.eqb_neq. lia.
  Qed.

  Lemma nth_inj : forall (pts : list F) i j,
    NoDup pts -> i < length pts -> j < length pts ->
    nth i pts zero = nth j pts zero -> i = j.
  Proof.
    intros pts i j ND Hi Hj E.
    apply (proj1 (NoDup_nth pts zero) ND i j Hi Hj E).
  Qed.

  Theorem lagr_delta : forall pts i j,
    NoDup pts -> i < length pts -> j < length pts ->
    flagr pts i (nth j pts zero) = if Nat.eqb i j then one else zero.
  Proof.
    intros pts i j ND Hi Hj. unfold lagr.
    destruct (Nat.eqb_spec i j) as [E|NE].
    - subst j. apply prod_all_one. intros y Hy.
      apply in_map_iff in Hy. destruct Hy as [m [Hm Hin]].
      apply in_others in Hin. destruct Hin as [Hmk Hmi].
      subst y. apply mul_inv_r. apply sub_neq_zero.
      intros E. apply Hmi. symmetry. apply (nth_inj pts i m ND Hi Hmk E).
    - apply prod_has_zero. apply in_map_iff. exists j. split.
      + rewrite sub_diag. ring.
      + apply in_others. split; [exact Hj|]. intros E. apply NE. symmetry. exact E.
  Qed.

  (* ---- T3 ---- *)
  Lemma sum_delta : forall (f : nat -> F) (d : nat -> F) n j,
    j < n ->
    (forall i, i < n -> d i = if Nat.eqb i j then one else zero) ->
    fsum (map (fun i => mul (f i) (d i)) (seq 0 n)) = f j.
  Proof.
    intros f d n j Hj Hd.
    rewrite (sum_single (fun i => mul (f i) (d i)) (seq 0 n) j).
    - rewrite (Hd j Hj), Nat.eqb_refl. ring.
    - apply seq_NoDup.
    - apply in_seq. lia.
    - intros i Hi Hne. apply in_seq in Hi. rewrite (Hd i) by lia.
      destruct (Nat.eqb_spec i j) as [E|_]; [contradiction|]. ring.
  Qed.

  Theorem rs_systematic : forall pts src j,
    NoDup pts -> length src = length pts -> j < length pts ->
    frs pts src (nth j pts zero) = nth j src zero.
  Proof.
    intros pts src j ND HL Hj. unfold rs_sym.
    apply (sum_delta (fun i => nth i src zero)
                     (fun i => flagr pts i (nth j pts zero)) (length pts) j Hj).
    intros i Hi. rewrite (lagr_delta pts i j ND Hi Hj). reflexivity.
  Qed.

  (* ---- T4 ---- *)
  Lemma others_length_lt : forall i n a, i < a ->
    length (filter (fun j => negb (Nat.eqb j i)) (seq a n)) = n.
  Proof.
    intros i n. induction n as [|n IH]; intros a Ha.
    - reflexivity.
    - cbn [seq filter]. destruct (Nat.eqb_spec a i) as [E|NE]; [lia|].
      cbn [negb length]. rewrite IH by lia. reflexivity.
  Qed.

  Lemma others_length : forall i n a, a <= i < a + n ->
    S (length (filter (fun j => negb (Nat.eqb j i)) (seq a n))) = n.
  Proof.
    intros i n. induction n as [|n IH]; intros a Ha.
    - lia.
    - cbn [seq filter]. destruct (Nat.eqb_spec a i) as [E|NE].
      + cbn [negb]. rewrite others_length_lt by lia. reflexivity.
      + cbn [negb length]. rewrite IH by lia. reflexivity.
  Qed.

  Lemma lagr_poly_length : forall pts i, i < length pts ->
    length (flagr_poly pts i) = length pts.
  Proof.
    intros pts i Hi. unfold lagr_poly.
    rewrite <- (others_length i (length pts) 0) at 2 by lia.
    generalize (filter (fun j => negb (Nat.eqb j i)) (seq 0 (length pts))).
    intros l. induction l as [|j l IH].
    - reflexivity.
    - cbn [fold_right length]. rewrite pmul_lin_length, IH. reflexivity.
  Qed.

  Lemma peval_lagr_poly : forall pts i x, pe (flagr_poly pts i) x = flagr pts i x.
  Proof.
    intros pts i x. unfold lagr_poly, lagr.
    generalize (filter (fun j => negb (Nat.eqb j i)) (seq 0 (length pts))).
    intros l. induction l as [|j l IH].
    - cbn. ring.
    - cbn [fold_right map]. rewrite peval_pmul_lin, prod_cons, IH. ring.
  Qed.

  Lemma rs_poly_length : forall pts src, length (frs_poly pts src) = length pts.
  Proof.
    intros pts src. unfold rs_poly. apply psum_length.
    intros q Hq. apply in_map_iff in Hq. destruct Hq as [i [Eq Hi]].
    apply in_seq in Hi. subst q. rewrite pscale_length.
    apply lagr_poly_length. lia.
  Qed.

  Lemma peval_rs_poly : forall pts src x, pe (frs_poly pts src) x = frs pts src x.
  Proof.
    intros pts src x. unfold rs_poly, rs_sym.
    rewrite peval_psum, map_map. f_equal. apply map_ext. intros i.
    rewrite peval_pscale, peval_lagr_poly. reflexivity.
  Qed.

  Theorem rs_sym_is_poly : forall pts src,
    NoDup pts -> length src = length pts ->
    exists p, length p = length pts /\ forall x, frs pts src x = pe p x.
  Proof.
    intros pts src _ _. exists (frs_poly pts src). split.
    - apply rs_poly_length.
    - intros x. symmetry. apply peval_rs_poly.
  Qed.

  (* ---- T5 ---- *)
  Theorem rs_mds : forall pts src src' ys,
    NoDup pts -> length src = length pts -> length src' = length pts ->
    NoDup ys -> length ys = length pts ->
    (forall y, In y ys -> frs pts src y = frs pts src' y) -> src = src'.
  Proof.
    intros pts src src' ys ND HL HL' NDy HLy HE.
    assert (EP : frs_poly pts src = frs_poly pts src').
    { apply (peval_inj _ _ ys).
      - rewrite !rs_poly_length. reflexivity.
      - exact NDy.
      - rewrite rs_poly_length. lia.
      - intros y Hy. rewrite !peval_rs_poly. apply HE. exact Hy. }
    apply (nth_ext src src' zero zero).
    - lia.
    - intros j Hj. rewrite HL in Hj.
      rewrite <- (rs_systematic pts src j ND HL Hj).
      rewrite <- (rs_systematic pts src' j ND HL' Hj).
      rewrite <- !peval_rs_poly, EP. reflexivity.
  Qed.

  (* ---- T6 ---- *)
  Theorem rs_vandermonde : forall pts t x,
    NoDup pts -> t < length pts ->
    fsum (map (fun i => mul (flagr pts i x) (fpow (nth i pts zero) t))
              (seq 0 (length pts))) = fpow x t.
  Proof.
    intros pts t x ND Ht.
    set (src := map (fun a => fpow a t) pts).
    assert (HL : length src = length pts) by (unfold src; apply map_length).
    assert (Hsrc : forall i, i < length pts -> nth i src zero = fpow (nth i pts zero) t).
    { intros i Hi. unfold src.
      rewrite (nth_indep _ zero (fpow zero t)) by (rewrite map_length; exact Hi).
      apply (map_nth (fun a => fpow a t)). }
    transitivity (frs pts src x).
    - unfold rs_sym. apply sum_map_ext_in. intros i Hi. apply in_seq in Hi.
      rewrite Hsrc by lia. ring.
    - rewrite <- peval_rs_poly, <- (peval_mono t (length pts) x).
      f_equal. apply (peval_inj _ _ pts).
      + rewrite rs_poly_length, mono_length by exact Ht. reflexivity.
      + exact ND.
      + rewrite rs_poly_length. lia.
      + intros y Hy. destruct (In_nth pts y zero Hy) as [j [Hj Ey]]. subst y.
        rewrite peval_rs_poly, peval_mono, (rs_systematic pts src j ND HL Hj).
        apply Hsrc. exact Hj.
  Qed.

  (* ---- T7 ---- *)
  Lemma lin_ext : forall pts (g : list F) x,
    (forall t, t < length pts ->
       fsum (map (fun i => mul (nth i g zero) (fpow (nth i pts zero) t))
                 (seq 0 (length pts))) = fpow x t) ->
    forall q s, s + length q <= length pts ->
      fsum (map (fun i => mul (nth i g zero)
                              (mul (fpow (nth i pts zero) s) (pe q (nth i pts zero))))
                (seq 0 (length pts)))
      = mul (fpow x s) (pe q x).
  Proof.
    intros pts g x HV q. induction q as [|c q IH]; intros s Hs.
    - rewrite sum_map_zero.
      + rewrite peval_nil. ring.
      + intros i _. rewrite peval_nil. ring.
    - cbn [length] in Hs.
      rewrite (sum_map_ext_in _ _
        (fun i => add (mul c (mul (nth i g zero) (fpow (nth i pts zero) s)))
                      (mul (nth i g zero)
                           (mul (fpow (nth i pts zero) (S s)) (pe q (nth i pts zero)))))).
      + rewrite sum_map_add, sum_map_scale, (HV s) by lia.
        rewrite (IH (S s)) by lia. rewrite peval_cons. cbn [pow]. ring.
      + intros i _. rewrite peval_cons. cbn [pow]. ring.
  Qed.

  Theorem gen_row_unique : forall pts (g : list F) x,
    NoDup pts -> length g = length pts ->
    (forall t, t < length pts ->
       fsum (map (fun i => mul (nth i g zero) (fpow (nth i pts zero) t))
                 (seq 0 (length pts))) = fpow x t) ->
    forall i, i < length pts -> nth i g zero = flagr pts i x.
  Proof.
    intros pts g x ND HL HV m Hm.
    pose proof (lin_ext pts g x HV (flagr_poly pts m) 0) as H.
    rewrite lagr_poly_length in H by exact Hm. specialize (H (le_n _)).
    rewrite peval_lagr_poly in H. cbn [pow] in H.
    transitivity (mul one (flagr pts m x)); [|ring].
    rewrite <- H. symmetry.
    apply (sum_delta (fun i => nth i g zero)
             (fun i => mul one (pe (flagr_poly pts m) (nth i pts zero)))
             (length pts) m Hm).
    intros i Hi. rewrite peval_lagr_poly, (lagr_delta pts m i ND Hm Hi).
    rewrite (Nat.eqb_sym i m). ring.
  Qed.
End Theory.

Print Assumptions root_bound.
Print Assumptions peval_inj.
Print Assumptions lagr_delta.
Print Assumptions rs_systematic.
Print Assumptions rs_sym_is_poly.
Print Assumptions rs_mds.
Print Assumptions rs_vandermonde.
Print Assumptions gen_row_unique.
