(* C07 for the LDPC-Staircase / 2D streaming decoder model: every table access stays inside its table.

   ITModel.decode reads with [nth i l default] and writes with [upd l i x]; both are total (an out-of-range
   read returns the default, an out-of-range write is dropped), so an index bug in the model would be
   masked.  Here the decoder is copied with every read and write going through accessors that FAIL out of
   range ([nth_chk], [upd_chk]); the result of the checked decoder distinguishes
        Ok s | OutOfFuel | OutOfBounds | BadShape
   (BadShape: the plain model's "row chosen in step 3 is not a single entry with a partial sum" dead end,
   which the plain model also reports as None).
     B2  [decode_chk_refines]: whatever the checked copy returns other than OutOfBounds is what the plain
         model returns (Ok s' -> Some s';  OutOfFuel / BadShape -> None);
     B3  [decode_chk_safe]: on GoodB states (Good of ITProofs + every row entry is a column) and for a column
         < N0 the checked copy equals the plain model, hence is never OutOfBounds (any fuel), and is Ok with
         a GoodB result when N0 < fuel; [run_chk_eq], [run_chk_ok], [run_chk_every_call] for histories;
     B4  closed examples where the checked copy is OutOfBounds and the plain model returns Some. *)
Require Import List Arith Bool Lia. Import ListNotations.
From OFV Require Import ITModel ITLemmas ITProofs.

Notation "'do' x <- o ; k" := (match o with Some x => k | None => None end)
  (at level 200, x name, o at level 100, k at level 200, right associativity).
Notation "'do' ' p <- o ; k" := (match o with Some p => k | None => None end)
  (at level 200, p pattern, o at level 100, k at level 200, right associativity).

(* ---------- B0: checked accessors ---------- *)
Fixpoint nth_chk {A} (l : list A) (i : nat) : option A :=
  match l, i with
  | [], _ => None
  | h :: _, O => Some h
  | _ :: t, S j => nth_chk t j
  end.

Fixpoint upd_chk {A} (l : list A) (i : nat) (x : A) : option (list A) :=
  match l, i with
  | [], _ => None
  | _ :: t, O => Some (x :: t)
  | h :: t, S j => do t' <- upd_chk t j x; Some (h :: t')
  end.

Lemma nth_chk_none {A} (l : list A) i : nth_chk l i = None <-> length l <= i.
Proof.
  revert i. induction l as [|h t IH]; intros i; simpl.
  - split; [lia|reflexivity].
  - destruct i as [|j]; [split; [discriminate|lia]|]. rewrite IH. lia.
Qed.

Lemma nth_chk_in {A} (l : list A) i d : i < length l -> nth_chk l i = Some (nth i l d).
Proof.
  revert i. induction l as [|h t IH]; intros i Hi; simpl in *; [lia|].
  destruct i as [|j]; [reflexivity|]. apply IH. lia.
Qed.

Lemma nth_chk_sound {A} (l : list A) i x d : nth_chk l i = Some x -> i < length l /\ nth i l d = x.
Proof.
  revert i. induction l as [|h t IH]; intros i H; simpl in *; [discriminate|].
  destruct i as [|j]; [inversion H; split; [lia|reflexivity]|].
  destruct (IH j H) as (A1 & A2). split; [lia|exact A2].
Qed.

Lemma upd_chk_none {A} (l : list A) i x : upd_chk l i x = None <-> length l <= i.
Proof.
  revert i. induction l as [|h t IH]; intros i; simpl.
  - split; [lia|reflexivity].
  - destruct i as [|j]; [split; [discriminate|lia]|].
    specialize (IH j). destruct (upd_chk t j x).
    + split; [discriminate|]. intros Hl. assert (Hl' : length t <= j) by lia.
      apply IH in Hl'. discriminate.
    + split; [|reflexivity]. intros _. assert (length t <= j) by (apply IH; reflexivity). lia.
Qed.

Lemma upd_chk_in {A} (l : list A) i x : i < length l -> upd_chk l i x = Some (upd l i x).
Proof.
  revert i. induction l as [|h t IH]; intros i Hi; simpl in *; [lia|].
  destruct i as [|j]; [reflexivity|]. rewrite IH by lia. reflexivity.
Qed.

Lemma upd_chk_sound {A} (l : list A) i x l' : upd_chk l i x = Some l' -> i < length l /\ upd l i x = l'.
Proof.
  revert i l'. induction l as [|h t IH]; intros i l' H; simpl in *; [discriminate|].
  destruct i as [|j]; [inversion H; split; [lia|reflexivity]|].
  destruct (upd_chk t j x) as [t'|] eqn:E; [|discriminate]. inversion H; subst.
  destruct (IH j t' E) as (A1 & A2). split; [lia|now rewrite A2].
Qed.

(* checked filter / fold: the predicate / the step may fail *)
Fixpoint filterM {A} (p : A -> option bool) (l : list A) : option (list A) :=
  match l with
  | [] => Some []
  | x :: t => do b <- p x; do t' <- filterM p t; Some (if b then x :: t' else t')
  end.

Fixpoint foldM {A B} (f : A -> B -> option A) (l : list B) (a : A) : option A :=
  match l with
  | [] => Some a
  | x :: t => do a' <- f a x; foldM f t a'
  end.

Lemma filterM_in {A} (p : A -> option bool) (q : A -> bool) l :
  (forall x, In x l -> p x = Some (q x)) -> filterM p l = Some (filter q l).
Proof.
  induction l as [|x t IH]; intros H; simpl; [reflexivity|].
  rewrite (H x (or_introl eq_refl)). rewrite IH by (intros y Hy; apply H; now right). reflexivity.
Qed.

Lemma filterM_sound {A} (p : A -> option bool) (q : A -> bool) l l' :
  (forall x b, In x l -> p x = Some b -> q x = b) -> filterM p l = Some l' -> filter q l = l'.
Proof.
  revert l'. induction l as [|x t IH]; intros l' H E; simpl in *; [now inversion E|].
  destruct (p x) as [b|] eqn:Ep; [|discriminate].
  destruct (filterM p t) as [t'|] eqn:Et; [|discriminate]. inversion E; subst.
  rewrite (H x b (or_introl eq_refl) Ep).
  rewrite (IH t' (fun y c Hy => H y c (or_intror Hy)) eq_refl). reflexivity.
Qed.

Lemma foldM_in {A B} (f : A -> B -> option A) (g : A -> B -> A) l :
  forall a, (forall a x, In x l -> f a x = Some (g a x)) -> foldM f l a = Some (fold_left g l a).
Proof.
  induction l as [|x t IH]; intros a H; simpl; [reflexivity|].
  rewrite (H a x (or_introl eq_refl)). apply IH. intros a' y Hy. apply H. now right.
Qed.

Lemma foldM_sound {A B} (f : A -> B -> option A) (g : A -> B -> A) l :
  (forall a x a', f a x = Some a' -> g a x = a') ->
  forall a a', foldM f l a = Some a' -> fold_left g l a = a'.
Proof.
  intros H. induction l as [|x t IH]; intros a a' E; simpl in *; [now inversion E|].
  destruct (f a x) as [a1|] eqn:Ef; [|discriminate]. rewrite (H a x a1 Ef). apply IH. exact E.
Qed.

(* ---------- B1: the checked decoder ---------- *)
Set Implicit Arguments.
Section CHK.
Variable Sy : Type. Variable sxor : Sy -> Sy -> Sy. Variable s0 : Sy.
Notation st := (st Sy).

Definition known_chk (s : st) (c : nat) : option bool :=
  do o <- nth_chk (tab s) c; Some (match o with Some _ => true | None => false end).

(* the C tests the cursor against n BEFORE it looks at the table *)
Fixpoint adv_chk (fuel : nat) (s : st) (i : nat) : option nat :=
  match fuel with
  | O => Some i
  | S f => if r s + i <? n s
           then do k <- known_chk s (r s + i); if k then adv_chk f s (S i) else Some i
           else Some i
  end.

Definition is_complete_chk (s : st) : option (bool * st) :=
  do i <- adv_chk (n s - r s) s (fnd s); Some (n s - r s <=? i, set_fnd s i).

Definition set_tab_chk (s : st) (c : nat) (v : Sy) : option st :=
  do t <- upd_chk (tab s) c (Some v); Some (mk (r s) (n s) (rws s) (unk s) (enc s) (ct s) t (fnd s)).

Definition step2_row_chk (s : st) (c : nat) (v : Sy) (row : nat) : option (st * bool) :=
  do u0 <- nth_chk (unk s) row;
  let u := u0 - 1 in
  do c0 <- nth_chk (ct s) row;
  do e0 <- nth_chk (enc s) row;
  let ct1 := match c0 with
             | None => if u =? 1 then Some s0 else None | Some t => Some t end in
  match ct1 with
  | None => do unk' <- upd_chk (unk s) row u;
            Some (mk (r s) (n s) (rws s) unk' (enc s) (ct s) (tab s) (fnd s), e0 =? 1)
  | Some t =>
      let t1 := if 1 <? e0 then sxor t v else t in
      do rw <- nth_chk (rws s) row;
      let ents := filter (fun c' => negb (c' =? c)) rw in
      do kn <- filterM (known_chk s) ents;
      do t2 <- foldM (fun acc c' => do w <- nth_chk (tab s) c';
                                    Some (match w with Some w => sxor acc w | None => acc end)) kn t1;
      do ents' <- filterM (fun c' => do k <- known_chk s c'; Some (negb k)) ents;
      let e' := e0 - 1 - length kn in
      do rws' <- upd_chk (rws s) row ents';
      do unk' <- upd_chk (unk s) row u;
      do enc' <- upd_chk (enc s) row e';
      do ct' <- upd_chk (ct s) row (Some t2);
      Some (mk (r s) (n s) rws' unk' enc' ct' (tab s) (fnd s), e' =? 1)
  end.

Definition rows_with_chk (s : st) (c : nat) : option (list nat) :=
  filterM (fun row => do rw <- nth_chk (rws s) row; Some (existsb (Nat.eqb c) rw)) (seq 0 (r s)).

Definition f2_chk (c : nat) (v : Sy) (a : st * list nat) (row : nat) : option (st * list nat) :=
  do ' (s', rdy) <- step2_row_chk (fst a) c v row; Some (s', if rdy then snd a ++ [row] else snd a).

Definition step2_chk (s : st) (c : nat) (v : Sy) : option (st * list nat) :=
  do rows <- rows_with_chk s c; foldM (f2_chk c v) rows (s, []).

Definition consume_chk (s : st) (row : nat) : option st :=
  do rws' <- upd_chk (rws s) row [];
  do enc' <- upd_chk (enc s) row 0;
  do ct' <- upd_chk (ct s) row None;
  Some (mk (r s) (n s) rws' (unk s) enc' ct' (tab s) (fnd s)).

Inductive res : Type := Ok (s : st) | OutOfFuel | OutOfBounds | BadShape.

Fixpoint step3_chk (dec : st -> nat -> Sy -> res) (L : list nat) (s : st) : res :=
  match L with
  | [] => Ok s
  | row :: L' =>
      match is_complete_chk s with
      | None => OutOfBounds
      | Some (c', s) =>
          if c' then Ok s else
          match nth_chk (enc s) row with
          | None => OutOfBounds
          | Some e =>
              if e =? 1 then
                match nth_chk (rws s) row, nth_chk (ct s) row with
                | None, _ | _, None => OutOfBounds
                | Some [cc], Some (Some t) =>
                    match consume_chk s row with
                    | None => OutOfBounds
                    | Some sc => match dec sc cc t with Ok s2 => step3_chk dec L' s2 | x => x end
                    end
                | Some _, Some _ => BadShape
                end
              else step3_chk dec L' s
          end
      end
  end.

Fixpoint decode_chk (fuel : nat) (s : st) (c : nat) (v : Sy) : res :=
  match fuel with
  | O => OutOfFuel
  | S f =>
      match known_chk s c with
      | None => OutOfBounds
      | Some true => Ok s
      | Some false =>
          match set_tab_chk s c v with
          | None => OutOfBounds
          | Some s1 =>
              match (if r s1 <=? c then is_complete_chk s1 else Some (false, s1)) with
              | None => OutOfBounds
              | Some early =>
                  if fst early then Ok (snd early) else
                  match step2_chk (snd early) c v with
                  | None => OutOfBounds
                  | Some (s2, L) => step3_chk (decode_chk f) (rev L) s2
                  end
              end
          end
      end
  end.

End CHK.
Arguments OutOfFuel {Sy}.
Arguments OutOfBounds {Sy}.
Arguments BadShape {Sy}.
Unset Implicit Arguments.

(* ---------- B2: the checked copy refines the plain model (no hypothesis on the state) ---------- *)
Section REF.
Variable Sy : Type. Variable sxor : Sy -> Sy -> Sy. Variable s0 : Sy.
Notation st := (st Sy).
Notation res := (res Sy).

Lemma known_chk_sound (s : st) c b : known_chk s c = Some b -> c < length (tab s) /\ known s c = b.
Proof.
  unfold known_chk, known. intros H. destruct (nth_chk (tab s) c) as [o|] eqn:E; [|discriminate].
  destruct (nth_chk_sound _ _ _ None E) as (A1 & A2). rewrite A2. split; [exact A1|]. now inversion H.
Qed.

Lemma adv_chk_sound fuel (s : st) : forall i j, adv_chk fuel s i = Some j -> adv fuel s i = j.
Proof.
  induction fuel as [|f IH]; intros i j H; simpl in *; [now inversion H|].
  destruct (r s + i <? n s); simpl; [|now inversion H].
  destruct (known_chk s (r s + i)) as [k|] eqn:E; [|discriminate].
  destruct (known_chk_sound _ _ _ E) as (_ & ->). destruct k; [apply IH; exact H|now inversion H].
Qed.

Lemma is_complete_chk_sound (s : st) p : is_complete_chk s = Some p -> is_complete s = p.
Proof.
  unfold is_complete_chk, is_complete. intros H.
  destruct (adv_chk (n s - r s) s (fnd s)) as [i|] eqn:E; [|discriminate].
  rewrite (adv_chk_sound _ _ _ _ E). now inversion H.
Qed.

Lemma set_tab_chk_sound (s : st) c v s' : set_tab_chk s c v = Some s' -> c < length (tab s) /\ set_tab s c v = s'.
Proof.
  unfold set_tab_chk, set_tab. intros H. destruct (upd_chk (tab s) c (Some v)) as [t|] eqn:E; [|discriminate].
  destruct (upd_chk_sound _ _ _ _ E) as (A1 & ->). split; [exact A1|now inversion H].
Qed.

Lemma step2_row_chk_sound (s : st) c v row p :
  step2_row_chk sxor s0 s c v row = Some p -> step2_row sxor s0 s c v row = p.
Proof.
  unfold step2_row_chk, step2_row. intros H. cbv zeta in *.
  destruct (nth_chk (unk s) row) as [u0|] eqn:Eu; [|discriminate].
  destruct (nth_chk (ct s) row) as [c0|] eqn:Ec; [|discriminate].
  destruct (nth_chk (enc s) row) as [e0|] eqn:Ee; [|discriminate].
  destruct (nth_chk_sound _ _ _ 0 Eu) as (_ & Hu). destruct (nth_chk_sound _ _ _ None Ec) as (_ & Hc).
  destruct (nth_chk_sound _ _ _ 0 Ee) as (_ & He).
  unfold getn. rewrite Hu, Hc, He.
  assert (HS : forall t,
    (do rw <- nth_chk (rws s) row;
     do kn <- filterM (known_chk s) (filter (fun c' => negb (c' =? c)) rw);
     do t2 <- foldM (fun acc c' => do w <- nth_chk (tab s) c';
                       Some (match w with Some w0 => sxor acc w0 | None => acc end)) kn
                    (if 1 <? e0 then sxor t v else t);
     do ents' <- filterM (fun c' => do k <- known_chk s c'; Some (negb k)) (filter (fun c' => negb (c' =? c)) rw);
     do rws' <- upd_chk (rws s) row ents';
     do unk' <- upd_chk (unk s) row (u0 - 1);
     do enc' <- upd_chk (enc s) row (e0 - 1 - length kn);
     do ct' <- upd_chk (ct s) row (Some t2);
     Some (mk (r s) (n s) rws' unk' enc' ct' (tab s) (fnd s), e0 - 1 - length kn =? 1)) = Some p ->
    (let ents := filter (fun c' => negb (c' =? c)) (nth row (rws s) []) in
     let kn := filter (known s) ents in
     let t2 := fold_left (fun acc c' => match nth c' (tab s) None with Some w => sxor acc w | None => acc end) kn
                 (if 1 <? e0 then sxor t v else t) in
     (mk (r s) (n s) (upd (rws s) row (filter (fun c' => negb (known s c')) ents)) (upd (unk s) row (u0 - 1))
         (upd (enc s) row (e0 - 1 - length kn)) (upd (ct s) row (Some t2)) (tab s) (fnd s),
      e0 - 1 - length kn =? 1)) = p).
  { intros t HH. cbv zeta.
    destruct (nth_chk (rws s) row) as [rw|] eqn:Er; [|discriminate].
    destruct (nth_chk_sound _ _ _ [] Er) as (_ & Hr). rewrite Hr.
    destruct (filterM (known_chk s) (filter (fun c' => negb (c' =? c)) rw)) as [kn|] eqn:Ek; [|discriminate].
    assert (Hk : filter (known s) (filter (fun c' => negb (c' =? c)) rw) = kn).
    { apply (filterM_sound (known_chk s)); [|exact Ek]. intros x b _ Hx. apply (known_chk_sound _ _ _ Hx). }
    rewrite Hk.
    match type of HH with (do t2 <- ?F; _) = _ => destruct F as [t2|] eqn:Ef; [|discriminate] end.
    assert (Hf : fold_left (fun acc c' => match nth c' (tab s) None with Some w => sxor acc w | None => acc end) kn
                   (if 1 <? e0 then sxor t v else t) = t2).
    { eapply foldM_sound; [|exact Ef]. intros a x a' Hx. cbv beta in Hx.
      destruct (nth_chk (tab s) x) as [w|] eqn:Ew; [|discriminate].
      destruct (nth_chk_sound _ _ _ None Ew) as (_ & ->). now inversion Hx. }
    rewrite Hf.
    match type of HH with (do e <- ?F; _) = _ => destruct F as [ents'|] eqn:Ee'; [|discriminate] end.
    assert (He' : filter (fun c' => negb (known s c')) (filter (fun c' => negb (c' =? c)) rw) = ents').
    { eapply filterM_sound; [|exact Ee']. intros x b _ Hx. cbv beta in Hx.
      destruct (known_chk s x) as [k|] eqn:Ekx; [|discriminate].
      destruct (known_chk_sound _ _ _ Ekx) as (_ & ->). now inversion Hx. }
    rewrite He'.
    destruct (upd_chk (rws s) row ents') as [rws'|] eqn:E1; [|discriminate].
    destruct (upd_chk (unk s) row (u0 - 1)) as [unk'|] eqn:E2; [|discriminate].
    destruct (upd_chk (enc s) row (e0 - 1 - length kn)) as [enc'|] eqn:E3; [|discriminate].
    destruct (upd_chk (ct s) row (Some t2)) as [ct'|] eqn:E4; [|discriminate].
    destruct (upd_chk_sound _ _ _ _ E1) as (_ & ->). destruct (upd_chk_sound _ _ _ _ E2) as (_ & ->).
    destruct (upd_chk_sound _ _ _ _ E3) as (_ & ->). destruct (upd_chk_sound _ _ _ _ E4) as (_ & ->).
    now inversion HH. }
  destruct c0 as [t|]; [apply HS; exact H|].
  destruct (u0 - 1 =? 1); [apply HS; exact H|].
  destruct (upd_chk (unk s) row (u0 - 1)) as [unk'|] eqn:E2; [|discriminate].
  destruct (upd_chk_sound _ _ _ _ E2) as (_ & ->). now inversion H.
Qed.

Lemma rows_with_chk_sound (s : st) c l : rows_with_chk s c = Some l -> rows_with s c = l.
Proof.
  unfold rows_with_chk, rows_with. apply filterM_sound. intros row b _ H.
  destruct (nth_chk (rws s) row) as [rw|] eqn:E; [|discriminate].
  destruct (nth_chk_sound _ _ _ [] E) as (_ & ->). now inversion H.
Qed.

Lemma step2_chk_sound (s : st) c v p : step2_chk sxor s0 s c v = Some p -> step2 sxor s0 s c v = p.
Proof.
  unfold step2_chk, step2. intros H. destruct (rows_with_chk s c) as [rows|] eqn:E; [|discriminate].
  rewrite (rows_with_chk_sound _ _ _ E). eapply foldM_sound; [|exact H].
  intros [s1 L] row a' Hf. unfold f2_chk in Hf. simpl in Hf.
  destruct (step2_row_chk sxor s0 s1 c v row) as [[s' rdy]|] eqn:E2; [|discriminate].
  rewrite (step2_row_chk_sound _ _ _ _ _ E2). now inversion Hf.
Qed.

Lemma consume_chk_sound (s : st) row s' : consume_chk s row = Some s' -> consume s row = s'.
Proof.
  unfold consume_chk, consume. intros H.
  destruct (upd_chk (rws s) row []) as [rws'|] eqn:E1; [|discriminate].
  destruct (upd_chk (enc s) row 0) as [enc'|] eqn:E2; [|discriminate].
  destruct (upd_chk (ct s) row None) as [ct'|] eqn:E3; [|discriminate].
  destruct (upd_chk_sound _ _ _ _ E1) as (_ & ->). destruct (upd_chk_sound _ _ _ _ E2) as (_ & ->).
  destruct (upd_chk_sound _ _ _ _ E3) as (_ & ->). now inversion H.
Qed.

Definition refines (x : res) (o : option st) : Prop :=
  match x with
  | Ok s => o = Some s
  | OutOfFuel => o = None
  | BadShape => o = None
  | OutOfBounds => True
  end.

Lemma step3_chk_cons (decc : st -> nat -> Sy -> res) row L' (s : st) : step3_chk decc (row :: L') s =
  match is_complete_chk s with
  | None => OutOfBounds
  | Some (c', s1) =>
      if c' then Ok s1 else
      match nth_chk (enc s1) row with
      | None => OutOfBounds
      | Some e =>
          if e =? 1 then
            match nth_chk (rws s1) row, nth_chk (ct s1) row with
            | None, _ | _, None => OutOfBounds
            | Some [cc], Some (Some t) =>
                match consume_chk s1 row with
                | None => OutOfBounds
                | Some sc => match decc sc cc t with Ok s2 => step3_chk decc L' s2 | x => x end
                end
            | Some _, Some _ => BadShape
            end
          else step3_chk decc L' s1
      end
  end.
Proof. reflexivity. Qed.

Lemma decode_chk_unfold fuel (s : st) c v : decode_chk sxor s0 (S fuel) s c v =
  match known_chk s c with
  | None => OutOfBounds
  | Some true => Ok s
  | Some false =>
      match set_tab_chk s c v with
      | None => OutOfBounds
      | Some s1 =>
          match (if r s1 <=? c then is_complete_chk s1 else Some (false, s1)) with
          | None => OutOfBounds
          | Some early =>
              if fst early then Ok (snd early) else
              match step2_chk sxor s0 (snd early) c v with
              | None => OutOfBounds
              | Some (s2, L) => step3_chk (decode_chk sxor s0 fuel) (rev L) s2
              end
          end
      end
  end.
Proof. reflexivity. Qed.

Lemma step3_chk_refines (decc : st -> nat -> Sy -> res) (dec : st -> nat -> Sy -> option st) :
  (forall s c v, refines (decc s c v) (dec s c v)) ->
  forall L s, refines (step3_chk decc L s) (step3 dec L s).
Proof.
  intros HD. induction L as [|row L' IH]; intros s; [reflexivity|].
  rewrite step3_chk_cons, step3_cons.
  destruct (is_complete_chk s) as [[b s1]|] eqn:Ec; [|exact I].
  rewrite (is_complete_chk_sound _ _ Ec).
  destruct b; [reflexivity|].
  destruct (nth_chk (enc s1) row) as [e|] eqn:Ee; [|exact I].
  destruct (nth_chk_sound _ _ _ 0 Ee) as (_ & He). unfold getn. rewrite He.
  destruct (e =? 1); [|apply IH].
  destruct (nth_chk (rws s1) row) as [rw|] eqn:Er; [|exact I].
  destruct (nth_chk (ct s1) row) as [ot|] eqn:Et; [|destruct rw as [|? [|? ?]]; exact I].
  destruct (nth_chk_sound _ _ _ [] Er) as (_ & ->). destruct (nth_chk_sound _ _ _ None Et) as (_ & ->).
  destruct rw as [|cc [|x rw]]; [destruct ot; reflexivity| |destruct ot; reflexivity].
  destruct ot as [t|]; [|reflexivity].
  destruct (consume_chk s1 row) as [sc|] eqn:Ek; [|exact I].
  rewrite (consume_chk_sound _ _ _ Ek).
  specialize (HD sc cc t). destruct (decc sc cc t) as [s2| | |]; simpl in HD; rewrite ?HD; try exact I; try reflexivity.
  apply IH.
Qed.

Theorem decode_chk_refines fuel : forall (s : st) c v,
  refines (decode_chk sxor s0 fuel s c v) (decode sxor s0 fuel s c v).
Proof.
  induction fuel as [|f IH]; intros s c v; [reflexivity|].
  rewrite decode_chk_unfold, decode_unfold.
  destruct (known_chk s c) as [k|] eqn:Ek; [|exact I].
  destruct (known_chk_sound _ _ _ Ek) as (_ & ->). destruct k; [reflexivity|].
  destruct (set_tab_chk s c v) as [s1|] eqn:E1; [|exact I].
  destruct (set_tab_chk_sound _ _ _ _ E1) as (_ & ->). cbv zeta.
  assert (HE : forall oe, (if r s1 <=? c then is_complete_chk s1 else Some (false, s1)) = Some oe ->
                          (if r s1 <=? c then is_complete s1 else (false, s1)) = oe).
  { intros oe H. destruct (r s1 <=? c); [apply is_complete_chk_sound; exact H|now inversion H]. }
  destruct (if r s1 <=? c then is_complete_chk s1 else Some (false, s1)) as [early|]; [|exact I].
  rewrite (HE early eq_refl).
  destruct (fst early); [reflexivity|].
  destruct (step2_chk sxor s0 (snd early) c v) as [[s2 L]|] eqn:E2; [|exact I].
  rewrite (step2_chk_sound _ _ _ _ E2).
  apply step3_chk_refines. exact IH.
Qed.

Corollary decode_chk_ok fuel (s s' : st) c v :
  decode_chk sxor s0 fuel s c v = Ok s' -> decode sxor s0 fuel s c v = Some s'.
Proof. intros H. pose proof (decode_chk_refines fuel s c v) as R. rewrite H in R. exact R. Qed.

Corollary decode_chk_fuel fuel (s : st) c v :
  decode_chk sxor s0 fuel s c v = OutOfFuel -> decode sxor s0 fuel s c v = None.
Proof. intros H. pose proof (decode_chk_refines fuel s c v) as R. rewrite H in R. exact R. Qed.

Corollary decode_chk_shape fuel (s : st) c v :
  decode_chk sxor s0 fuel s c v = BadShape -> decode sxor s0 fuel s c v = None.
Proof. intros H. pose proof (decode_chk_refines fuel s c v) as R. rewrite H in R. exact R. Qed.

End REF.

(* ---------- completeness of the non-recursive pieces: inside the tables the checked copy succeeds
              and returns what the plain model returns (stated on the table lengths only) ---------- *)
Section INB.
Variable Sy : Type. Variable sxor : Sy -> Sy -> Sy. Variable s0 : Sy.
Notation st := (st Sy).

Lemma known_chk_in (s : st) c : c < length (tab s) -> known_chk s c = Some (known s c).
Proof. intros H. unfold known_chk, known. rewrite (nth_chk_in _ _ None H). reflexivity. Qed.

Lemma adv_chk_in fuel (s : st) : n s <= length (tab s) -> forall i, adv_chk fuel s i = Some (adv fuel s i).
Proof.
  intros Hn. induction fuel as [|f IH]; intros i; simpl; [reflexivity|].
  destruct (r s + i <? n s) eqn:E; simpl; [|reflexivity].
  apply Nat.ltb_lt in E. rewrite known_chk_in by lia.
  destruct (known s (r s + i)); [apply IH|reflexivity].
Qed.

Lemma is_complete_chk_in (s : st) : n s <= length (tab s) -> is_complete_chk s = Some (is_complete s).
Proof. intros Hn. unfold is_complete_chk, is_complete. rewrite adv_chk_in by exact Hn. reflexivity. Qed.

Lemma set_tab_chk_in (s : st) c v : c < length (tab s) -> set_tab_chk s c v = Some (set_tab s c v).
Proof. intros H. unfold set_tab_chk, set_tab. rewrite (upd_chk_in _ _ _ H). reflexivity. Qed.

Lemma step2_row_chk_in (s : st) c v row :
  row < length (unk s) -> row < length (ct s) -> row < length (enc s) -> row < length (rws s) ->
  (forall c', In c' (nth row (rws s) []) -> c' < length (tab s)) ->
  step2_row_chk sxor s0 s c v row = Some (step2_row sxor s0 s c v row).
Proof.
  intros Hu Hc He Hr Hents. unfold step2_row_chk, step2_row, getn. cbv zeta.
  rewrite (nth_chk_in _ _ 0 Hu), (nth_chk_in _ _ None Hc), (nth_chk_in _ _ 0 He).
  set (u0 := nth row (unk s) 0). set (e0 := nth row (enc s) 0).
  assert (HS : forall t,
    (do rw <- nth_chk (rws s) row;
     do kn <- filterM (known_chk s) (filter (fun c' => negb (c' =? c)) rw);
     do t2 <- foldM (fun acc c' => do w <- nth_chk (tab s) c';
                       Some (match w with Some w0 => sxor acc w0 | None => acc end)) kn
                    (if 1 <? e0 then sxor t v else t);
     do ents' <- filterM (fun c' => do k <- known_chk s c'; Some (negb k)) (filter (fun c' => negb (c' =? c)) rw);
     do rws' <- upd_chk (rws s) row ents';
     do unk' <- upd_chk (unk s) row (u0 - 1);
     do enc' <- upd_chk (enc s) row (e0 - 1 - length kn);
     do ct' <- upd_chk (ct s) row (Some t2);
     Some (mk (r s) (n s) rws' unk' enc' ct' (tab s) (fnd s), e0 - 1 - length kn =? 1)) =
    Some
    (let ents := filter (fun c' => negb (c' =? c)) (nth row (rws s) []) in
     let kn := filter (known s) ents in
     let t2 := fold_left (fun acc c' => match nth c' (tab s) None with Some w => sxor acc w | None => acc end) kn
                 (if 1 <? e0 then sxor t v else t) in
     (mk (r s) (n s) (upd (rws s) row (filter (fun c' => negb (known s c')) ents)) (upd (unk s) row (u0 - 1))
         (upd (enc s) row (e0 - 1 - length kn)) (upd (ct s) row (Some t2)) (tab s) (fnd s),
      e0 - 1 - length kn =? 1))).
  { intros t. cbv zeta. rewrite (nth_chk_in _ _ [] Hr).
    set (ents := filter (fun c' => negb (c' =? c)) (nth row (rws s) [])).
    assert (Hb : forall x, In x ents -> x < length (tab s)).
    { intros x Hx. apply Hents. unfold ents in Hx. apply filter_In in Hx. tauto. }
    rewrite (filterM_in (known_chk s) (known s)) by (intros x Hx; apply known_chk_in; auto).
    set (kn := filter (known s) ents).
    assert (Hbk : forall x, In x kn -> x < length (tab s)).
    { intros x Hx. apply Hb. unfold kn in Hx. apply filter_In in Hx. tauto. }
    rewrite (foldM_in _ (fun acc c' => match nth c' (tab s) None with Some w => sxor acc w | None => acc end))
      by (intros a x Hx; rewrite (nth_chk_in _ _ None (Hbk x Hx)); reflexivity).
    rewrite (filterM_in _ (fun c' => negb (known s c')))
      by (intros x Hx; rewrite (known_chk_in _ _ (Hb x Hx)); reflexivity).
    rewrite (upd_chk_in _ _ _ Hr), (upd_chk_in _ _ _ Hu), (upd_chk_in _ _ _ He), (upd_chk_in _ _ _ Hc). reflexivity. }
  destruct (nth row (ct s) None) as [t|]; [apply HS|].
  destruct (u0 - 1 =? 1); [apply HS|].
  rewrite (upd_chk_in _ _ _ Hu). reflexivity.
Qed.

Lemma rows_with_chk_in (s : st) c : r s <= length (rws s) -> rows_with_chk s c = Some (rows_with s c).
Proof.
  intros H. unfold rows_with_chk, rows_with. apply filterM_in. intros row Hrow. apply in_seq in Hrow.
  rewrite (nth_chk_in (rws s) row []) by lia. reflexivity.
Qed.

Lemma consume_chk_in (s : st) row : row < length (rws s) -> row < length (enc s) -> row < length (ct s) ->
  consume_chk s row = Some (consume s row).
Proof.
  intros Hr He Hc. unfold consume_chk, consume.
  rewrite (upd_chk_in _ _ _ Hr), (upd_chk_in _ _ _ He), (upd_chk_in _ _ _ Hc). reflexivity.
Qed.

Lemma nth_upd_cases {A} (l : list A) i j x d : nth j (upd l i x) d = x \/ nth j (upd l i x) d = nth j l d.
Proof.
  revert i j. induction l as [|h t IH]; intros i j; simpl; [now right|].
  destruct i as [|i], j as [|j]; simpl; auto.
Qed.

End INB.

(* ---------- B3: safety on the states the decoder reaches ---------- *)
Section SAFE.
Variable Sy : Type. Variable sxor : Sy -> Sy -> Sy. Variable s0 : Sy.
Notation st := (st Sy).
Notation res := (res Sy).

Variable H0 : list (list nat).
Variable R0 N0 : nat.
Hypothesis H0_len : length H0 = R0.
Hypothesis H0_nodup : forall i, i < R0 -> NoDup (nth i H0 []).
Hypothesis H0_range : forall i c, i < R0 -> In c (nth i H0 []) -> c < N0.
Hypothesis H0_deg : forall i, i < R0 -> 2 <= length (nth i H0 []).
Hypothesis R_le_N : R0 <= N0.

Notation WF := (WF Sy R0 N0).
Notation Inv := (Inv Sy H0 R0).
Notation PInv := (PInv Sy H0 R0).
Notation Good := (Good Sy H0 R0 N0).
Notation iscomp := (iscomp Sy R0 N0).
Notation f2 := (f2 Sy sxor s0).

Definition lift (o : option st) : res := match o with Some s => Ok s | None => OutOfFuel end.

(* every entry of every row is a column: the extra invariant needed once decoding is complete
   (Good then says nothing about the rows, and a late parity symbol still runs step 2) *)
Definition RowsB (s : st) : Prop := forall i c, In c (nth i (rws s) []) -> c < N0.
Definition GoodB (s : st) : Prop := Good s /\ RowsB s.

Lemma RowsB_rws (s s' : st) : rws s' = rws s -> RowsB s -> RowsB s'.
Proof. intros E H i c. rewrite E. apply H. Qed.

Lemma is_complete_rws (s : st) : rws (snd (is_complete s)) = rws s.
Proof. reflexivity. Qed.

Lemma step2_row_rowsb (s : st) e v i : RowsB s -> RowsB (fst (step2_row sxor s0 s e v i)).
Proof.
  intros HB j c. unfold step2_row. cbv zeta.
  destruct (match nth i (ct s) None with
            | Some t => Some t
            | None => if getn (unk s) i - 1 =? 1 then Some s0 else None end) as [t|];
    cbn [fst rws]; [|apply HB].
  intros Hin.
  match type of Hin with In c (nth j (upd ?l i ?x) []) =>
    destruct (nth_upd_cases l i j x []) as [E|E]; rewrite E in Hin end.
  - apply filter_In in Hin. destruct Hin as (Hin & _). apply filter_In in Hin. destruct Hin as (Hin & _).
    apply (HB i c Hin).
  - apply (HB j c Hin).
Qed.

Lemma step2_fold_rowsb e v rowsl : forall (s : st) L, RowsB s -> RowsB (fst (fold_left (f2 e v) rowsl (s, L))).
Proof.
  induction rowsl as [|a rest IH]; intros s L HB; [exact HB|].
  cbn [fold_left]. unfold ITProofs.f2 at 2.
  pose proof (step2_row_rowsb s e v a HB) as H1.
  destruct (step2_row sxor s0 s e v a) as [s1 rdy]. apply IH. exact H1.
Qed.

Lemma step2_as_fold (s : st) e v : step2 sxor s0 s e v = fold_left (f2 e v) (rows_with s e) (s, []).
Proof. reflexivity. Qed.

Lemma consume_rowsb (s : st) row : RowsB s -> RowsB (consume s row).
Proof.
  intros HB j c Hin. unfold consume in Hin. cbn [rws] in Hin.
  destruct (nth_upd_cases (rws s) row j [] []) as [E|E]; rewrite E in Hin; [inversion Hin|apply (HB j c Hin)].
Qed.

Definition DecB (dec : st -> nat -> Sy -> option st) : Prop :=
  forall s e v s', RowsB s -> dec s e v = Some s' -> RowsB s'.

Lemma step3_rowsb dec : DecB dec -> forall L (s s' : st), RowsB s -> step3 dec L s = Some s' -> RowsB s'.
Proof.
  intros HD. induction L as [|row L' IH]; intros s s' HB H; [simpl in H; inversion H; subst; exact HB|].
  rewrite step3_cons in H.
  pose proof (is_complete_rws s) as Er. destruct (is_complete s) as [b s1]. cbn [snd] in Er.
  pose proof (RowsB_rws s s1 Er HB) as HB1.
  destruct b; [inversion H; subst; exact HB1|].
  destruct (getn (enc s1) row =? 1); [|apply (IH s1 s' HB1 H)].
  destruct (nth row (rws s1) []) as [|cc [|x l]]; try discriminate.
  destruct (nth row (ct s1) None) as [t|]; try discriminate.
  destruct (dec (consume s1 row) cc t) as [s2|] eqn:Ed; try discriminate.
  apply (IH s2 s'); [|exact H]. apply (HD _ _ _ _ (consume_rowsb s1 row HB1) Ed).
Qed.

Lemma decode_rowsb fuel : DecB (decode sxor s0 fuel).
Proof.
  induction fuel as [|f IH]; intros s e v s' HB H; [discriminate|].
  rewrite decode_unfold in H. destruct (known s e); [inversion H; subst; exact HB|].
  cbv zeta in H. set (s1 := set_tab s e v) in *.
  assert (HB1 : RowsB s1) by exact HB.
  set (early := if r s1 <=? e then is_complete s1 else (false, s1)) in *.
  assert (HBe : RowsB (snd early)).
  { unfold early. destruct (r s1 <=? e); [|exact HB1]. apply (RowsB_rws s1 _ (is_complete_rws s1) HB1). }
  destruct (fst early); [inversion H; subst; exact HBe|].
  rewrite step2_as_fold in H.
  pose proof (step2_fold_rowsb e v (rows_with (snd early) e) (snd early) [] HBe) as HB2.
  destruct (fold_left (f2 e v) (rows_with (snd early) e) (snd early, [])) as [s2 L]. cbn [fst] in HB2.
  apply (step3_rowsb (decode sxor s0 f) IH (rev L) s2 s' HB2 H).
Qed.

Lemma rowinv_rowsb (s : st) kn pend : WF s -> (forall i, i < R0 -> rowinv Sy H0 kn pend s i) -> RowsB s.
Proof.
  intros W HP i c Hin. destruct (Nat.lt_ge_cases i R0) as [Hi|Hi].
  - specialize (HP i Hi). unfold rowinv, lazy, consumed, ready in HP.
    destruct (nth i (ct s) None).
    + destruct HP as (A & _). rewrite A in Hin. unfold Urow in Hin. apply filter_In in Hin.
      apply (H0_range i c Hi (proj1 Hin)).
    + destruct HP as [(A & _)|(A & _)]; rewrite A in Hin; [apply (H0_range i c Hi Hin)|inversion Hin].
  - rewrite nth_overflow in Hin by (rewrite (wf_rws Sy R0 N0 s W); exact Hi). inversion Hin.
Qed.

(* ---- the non-recursive pieces under WF ---- *)
Lemma is_complete_chk_wf (s : st) : WF s -> is_complete_chk s = Some (is_complete s).
Proof.
  intros W. apply is_complete_chk_in. rewrite (wf_n Sy R0 N0 s W), (wf_tab Sy R0 N0 s W). apply le_n.
Qed.

Lemma step2_row_chk_wf (s : st) e v row : WF s -> RowsB s -> row < R0 ->
  step2_row_chk sxor s0 s e v row = Some (step2_row sxor s0 s e v row).
Proof.
  intros W HB Hrow. destruct W as [Wr Wn Wrws Wunk Wenc Wct Wtab Wfnd Wcur].
  apply step2_row_chk_in; try lia. intros c' Hc'. rewrite Wtab. apply (HB row c' Hc').
Qed.

Lemma consume_chk_wf (s : st) row : WF s -> row < R0 -> consume_chk s row = Some (consume s row).
Proof.
  intros W Hrow. destruct W as [Wr Wn Wrws Wunk Wenc Wct Wtab Wfnd Wcur]. apply consume_chk_in; lia.
Qed.

Lemma step2_fold_chk e v rowsl : forall (s : st) L, WF s -> RowsB s -> (forall i, In i rowsl -> i < R0) ->
  foldM (f2_chk sxor s0 e v) rowsl (s, L) = Some (fold_left (f2 e v) rowsl (s, L)).
Proof.
  induction rowsl as [|a rest IH]; intros s L W HB HL; [reflexivity|].
  cbn [foldM fold_left]. unfold f2_chk at 1. cbn [fst snd]. unfold ITProofs.f2 at 2.
  assert (Ha : a < R0) by (apply HL; now left).
  rewrite (step2_row_chk_wf s e v a W HB Ha).
  destruct (step2_row_wf Sy sxor s0 R0 N0 s e v a W Ha) as (W1 & _).
  pose proof (step2_row_rowsb s e v a HB) as HB1.
  destruct (step2_row sxor s0 s e v a) as [s1 rdy]. cbn [fst] in W1, HB1.
  apply IH; auto. intros i Hi. apply HL. now right.
Qed.

Lemma step2_chk_wf (s : st) e v : WF s -> RowsB s -> step2_chk sxor s0 s e v = Some (step2 sxor s0 s e v).
Proof.
  intros W HB. unfold step2_chk. rewrite rows_with_chk_in by (rewrite (wf_r Sy R0 N0 s W), (wf_rws Sy R0 N0 s W); apply le_n).
  rewrite step2_as_fold. apply step2_fold_chk; auto.
  intros i Hi. apply (rows_with_spec Sy H0 R0 N0 H0_len H0_nodup H0_range H0_deg R_le_N s e i (wf_r Sy R0 N0 s W)) in Hi. tauto.
Qed.

Lemma known_chk_wf (s : st) c : WF s -> c < N0 -> known_chk s c = Some (known s c).
Proof. intros W Hc. apply known_chk_in. rewrite (wf_tab Sy R0 N0 s W). exact Hc. Qed.

Lemma set_tab_chk_wf (s : st) c v : WF s -> c < N0 -> set_tab_chk s c v = Some (set_tab s c v).
Proof. intros W Hc. apply set_tab_chk_in. rewrite (wf_tab Sy R0 N0 s W). exact Hc. Qed.

Lemma set_tab_wf (s : st) e v : WF s -> e < N0 ->
  WF (set_tab s e v) /\ forall c, known (set_tab s e v) c = known s c || (c =? e).
Proof.
  intros W He.
  assert (Hk1 : forall c, known (set_tab s e v) c = known s c || (c =? e)).
  { intros c. apply (known_set_tab Sy H0 R0 N0 H0_len R_le_N). rewrite (wf_tab Sy R0 N0 s W). exact He. }
  split; [|exact Hk1].
  destruct W as [Wr Wn Wrws Wunk Wenc Wct Wtab Wfnd Wcur]. constructor; simpl; rewrite ?upd_length; auto.
  intros j Hj. rewrite Hk1. rewrite Wcur; auto.
Qed.

(* ---- step 3 and the recursive decoder ---- *)
Lemma step3_chk_complete (decc : st -> nat -> Sy -> res) dec L (s : st) : WF s -> iscomp s ->
  step3_chk decc L s = lift (step3 dec L s).
Proof.
  intros W Hc. destruct L as [|row L']; [reflexivity|].
  rewrite step3_chk_cons, step3_cons, (is_complete_chk_wf s W).
  pose proof (is_complete_spec Sy H0 R0 N0 H0_len R_le_N s W) as Hs. destruct (is_complete s) as [b s1].
  destruct Hs as (_ & _ & _ & _ & _ & _ & Hb). assert (b = true) by (apply Hb; auto). subst b. reflexivity.
Qed.

Definition DecEq (f : nat) : Prop := forall (s : st) e v,
  WF s -> PInv s e -> known s e = false -> e < N0 ->
  decode_chk sxor s0 f s e v = lift (decode sxor s0 f s e v).

Lemma step3_chk_eq f : DecEq f -> forall L (s : st), WF s -> (iscomp s \/ Inv s) -> (forall i, In i L -> i < R0) ->
  step3_chk (decode_chk sxor s0 f) L s = lift (step3 (decode sxor s0 f) L s).
Proof.
  intros HD. induction L as [|row L' IH]; intros s W HG HL; [reflexivity|].
  rewrite step3_chk_cons, step3_cons, (is_complete_chk_wf s W).
  pose proof (is_complete_spec Sy H0 R0 N0 H0_len R_le_N s W) as Hs. destruct (is_complete s) as [b s1].
  destruct Hs as (W1 & T1 & A1 & B1 & C1 & D1 & Hb).
  destruct b; [reflexivity|].
  assert (HI : Inv s) by (destruct HG as [Hc|HI]; [apply Hb in Hc; discriminate|exact HI]).
  assert (HI1 : Inv s1) by (eapply Inv_fields_eq; eauto).
  assert (Hrow : row < R0) by (apply HL; now left).
  assert (HL' : forall i, In i L' -> i < R0) by (intros i Hi; apply HL; now right).
  rewrite (nth_chk_in (enc s1) row 0) by (rewrite (wf_enc Sy R0 N0 s1 W1); exact Hrow).
  unfold getn.
  destruct (nth row (enc s1) 0 =? 1) eqn:E1; [|apply IH; auto].
  apply Nat.eqb_eq in E1.
  destruct (ready_row_shape Sy H0 R0 N0 H0_len H0_deg R_le_N s1 row Hrow (HI1 row Hrow) E1) as (cc & t & Hr & Hct & HU).
  rewrite (nth_chk_in (rws s1) row []) by (rewrite (wf_rws Sy R0 N0 s1 W1); exact Hrow).
  rewrite (nth_chk_in (ct s1) row None) by (rewrite (wf_ct Sy R0 N0 s1 W1); exact Hrow).
  rewrite Hr, Hct. rewrite (consume_chk_wf s1 row W1 Hrow).
  destruct (consume_spec Sy sxor s0 H0 R0 N0 H0_len H0_range R_le_N s1 row cc t W1 HI1 Hrow Hr Hct HU)
    as (Wc & Pc & Tc & Kc & Cc & _).
  assert (Kc' : known (consume s1 row) cc = false) by (rewrite (known_tab_eq Sy _ _ Tc); exact Kc).
  rewrite (HD (consume s1 row) cc t Wc Pc Kc' Cc).
  destruct (decode sxor s0 f (consume s1 row) cc t) as [s2|] eqn:Ed; [|reflexivity].
  cbn [lift].
  destruct (decode_contract Sy sxor s0 H0 R0 N0 H0_len H0_nodup H0_range H0_deg R_le_N f
              (consume s1 row) cc t s2 Wc Pc Kc' Cc Ed) as (W2 & _ & _ & _ & Post2).
  apply IH; auto. destruct Post2 as [Hc2|(HI2 & _)]; auto.
Qed.

Lemma decode_chk_eq : forall f, DecEq f.
Proof.
  induction f as [|f IH]; intros s e v W HP Hke He; [reflexivity|].
  rewrite decode_chk_unfold, decode_unfold.
  rewrite (known_chk_wf s e W He), Hke, (set_tab_chk_wf s e v W He). cbv zeta.
  destruct (set_tab_wf s e v W He) as (W1 & Hk1). set (s1 := set_tab s e v) in *.
  assert (Hearly : exists b sx, (if r s1 <=? e then is_complete s1 else (false, s1)) = (b, sx)
            /\ (if r s1 <=? e then is_complete_chk s1 else Some (false, s1)) = Some (b, sx)
            /\ WF sx /\ tab sx = tab s1 /\ rws sx = rws s /\ unk sx = unk s /\ enc sx = enc s /\ ct sx = ct s).
  { destruct (r s1 <=? e).
    - rewrite (is_complete_chk_wf s1 W1).
      pose proof (is_complete_spec Sy H0 R0 N0 H0_len R_le_N s1 W1) as Hs. destruct (is_complete s1) as [b sx].
      destruct Hs as (Wx & Tx & Ax & Bx & Cx & Dx & _). exists b, sx.
      split; [reflexivity|]. split; [reflexivity|]. split; [exact Wx|]. split; [exact Tx|]. split; [exact Ax|].
      split; [exact Bx|]. split; [exact Cx|exact Dx].
    - exists false, s1. split; [reflexivity|]. split; [reflexivity|]. split; [exact W1|].
      do 4 (split; [reflexivity|]). reflexivity. }
  destruct Hearly as (b & sx & Ee & Eec & Wx & Tx & Ax & Bx & Cx & Dx).
  rewrite Ee, Eec. cbn [fst snd]. destruct b; [reflexivity|].
  assert (Hkx : forall c, known sx c = known s c || (c =? e)) by (intros c; rewrite (known_tab_eq Sy s1 sx Tx); auto).
  assert (Hkex : known sx e = true) by (rewrite Hkx, Nat.eqb_refl; apply orb_true_r).
  assert (Hrows : forall i, i < R0 -> rowinv Sy H0 (fun c => known sx c && negb (c =? e)) (Some e) sx i).
  { intros i Hi. specialize (HP i Hi).
    eapply rowinv_kn_ext; [|eapply rowinv_fields_eq; eauto].
    intros c. simpl. rewrite Hkx. destruct (c =? e) eqn:E; simpl.
    - apply Nat.eqb_eq in E; subst. now rewrite Hke.
    - now rewrite orb_false_r, andb_true_r. }
  assert (HBx : RowsB sx) by (apply (rowinv_rowsb sx _ (Some e) Wx Hrows)).
  rewrite (step2_chk_wf sx e v Wx HBx).
  pose proof (step2_spec Sy sxor s0 H0 R0 N0 H0_len H0_nodup H0_range H0_deg R_le_N sx e v Wx He Hkex Hrows) as H2.
  destruct (step2 sxor s0 sx e v) as [s2 L].
  destruct H2 as (W2 & T2 & F2 & I2 & R2 & L2).
  apply (step3_chk_eq f IH); auto.
  intros i Hi. apply L2. now apply in_rev.
Qed.

Lemma decode_chk_eq_complete f (s : st) e v : WF s -> RowsB s -> iscomp s -> e < N0 ->
  decode_chk sxor s0 f s e v = lift (decode sxor s0 f s e v).
Proof.
  intros W HB Hc He. destruct f as [|f]; [reflexivity|].
  rewrite decode_chk_unfold, decode_unfold, (known_chk_wf s e W He).
  destruct (known s e) eqn:Hke; [reflexivity|].
  rewrite (set_tab_chk_wf s e v W He). cbv zeta.
  destruct (set_tab_wf s e v W He) as (W1 & Hk1).
  assert (HB1 : RowsB (set_tab s e v)) by exact HB.
  set (s1 := set_tab s e v) in *.
  assert (Hc1 : iscomp s1) by (intros c Hcc; rewrite Hk1, Hc; auto).
  destruct (r s1 <=? e).
  - rewrite (is_complete_chk_wf s1 W1).
    pose proof (is_complete_spec Sy H0 R0 N0 H0_len R_le_N s1 W1) as Hs. destruct (is_complete s1) as [b sx].
    destruct Hs as (_ & _ & _ & _ & _ & _ & Hb). assert (b = true) by (apply Hb; auto). subst b. reflexivity.
  - cbn [fst snd]. rewrite (step2_chk_wf s1 e v W1 HB1). rewrite step2_as_fold.
    assert (HL : forall i, In i (rows_with s1 e) -> i < R0).
    { intros i Hi. apply (rows_with_spec Sy H0 R0 N0 H0_len H0_nodup H0_range H0_deg R_le_N s1 e i (wf_r Sy R0 N0 s1 W1)) in Hi. tauto. }
    destruct (step2_fold_wf Sy sxor s0 R0 N0 e v (rows_with s1 e) s1 [] W1 HL) as (W2 & T2).
    destruct (fold_left (f2 e v) (rows_with s1 e) (s1, [])) as [s2 L]. cbn [fst] in W2, T2.
    apply step3_chk_complete; [exact W2|]. apply (iscomp_tab_eq Sy R0 N0 s1 s2 T2 Hc1).
Qed.

(* B3, one call: on a GoodB state and for a column of the code the checked decoder IS the plain one *)
Theorem decode_chk_safe fuel (s : st) c v : GoodB s -> c < N0 ->
  decode_chk sxor s0 fuel s c v = lift (decode sxor s0 fuel s c v).
Proof.
  intros ((W & HG) & HB) Hc. destruct HG as [Hcomp|(HI & _)].
  - apply decode_chk_eq_complete; auto.
  - destruct (known s c) eqn:Hk.
    + destruct fuel as [|f]; [reflexivity|].
      rewrite decode_chk_unfold, decode_unfold, (known_chk_wf s c W Hc), Hk. reflexivity.
    + apply decode_chk_eq; auto. apply Inv_PInv. exact HI.
Qed.

Corollary decode_chk_never_oob fuel (s : st) c v : GoodB s -> c < N0 ->
  decode_chk sxor s0 fuel s c v <> OutOfBounds /\ decode_chk sxor s0 fuel s c v <> BadShape.
Proof.
  intros HG Hc. rewrite (decode_chk_safe fuel s c v HG Hc).
  destruct (decode sxor s0 fuel s c v); split; discriminate.
Qed.

Lemma decode_goodb fuel (s s' : st) c v : GoodB s -> c < N0 -> decode sxor s0 fuel s c v = Some s' -> GoodB s'.
Proof.
  intros (HG & HB) Hc Hd. split; [|apply (decode_rowsb fuel s c v s' HB Hd)].
  destruct (decode_good Sy sxor s0 H0 R0 N0 H0_len H0_nodup H0_range H0_deg R_le_N fuel s s' c v (fun _ => True) HG)
    as (G' & _); auto.
  intros x _. apply peel_recv. exact I.
Qed.

Corollary decode_chk_ok_good fuel (s : st) c v : GoodB s -> c < N0 -> N0 < fuel ->
  exists s', decode_chk sxor s0 fuel s c v = Ok s' /\ decode sxor s0 fuel s c v = Some s' /\ GoodB s'.
Proof.
  intros HG Hc Hf.
  destruct (decode_total_good Sy sxor s0 H0 R0 N0 H0_len H0_nodup H0_range H0_deg R_le_N fuel s c v (proj1 HG) Hc Hf)
    as (s' & Hd).
  exists s'. rewrite (decode_chk_safe fuel s c v HG Hc), Hd. split; [reflexivity|]. split; [reflexivity|].
  apply (decode_goodb fuel s s' c v HG Hc Hd).
Qed.

(* ---- histories ---- *)
Definition stepf fuel (os : option st) (ev : nat * Sy) : option st :=
  match os with Some s => decode sxor s0 fuel s (fst ev) (snd ev) | None => None end.
Definition stepf_chk fuel (x : res) (ev : nat * Sy) : res :=
  match x with Ok s => decode_chk sxor s0 fuel s (fst ev) (snd ev) | y => y end.
Definition run_chk fuel (hist : list (nat * Sy)) : res :=
  fold_left (stepf_chk fuel) hist (Ok (init Sy R0 N0 H0)).

Lemma run_as_fold fuel hist : run Sy sxor s0 H0 R0 N0 fuel hist = fold_left (stepf fuel) hist (Some (init Sy R0 N0 H0)).
Proof. reflexivity. Qed.

Lemma init_goodb : GoodB (init Sy R0 N0 H0).
Proof.
  destruct (init_good Sy sxor s0 H0 R0 N0 H0_len H0_deg R_le_N) as (G0 & _). split; [exact G0|].
  intros i c Hin. cbn [init rws] in Hin.
  destruct (Nat.lt_ge_cases i R0) as [Hi|Hi]; [apply (H0_range i c Hi Hin)|].
  rewrite nth_overflow in Hin by (rewrite H0_len; exact Hi). inversion Hin.
Qed.

Lemma fold_none fuel hist : fold_left (stepf fuel) hist None = None.
Proof. induction hist as [|ev h IH]; [reflexivity|exact IH]. Qed.
Lemma fold_fuel fuel hist : fold_left (stepf_chk fuel) hist OutOfFuel = OutOfFuel.
Proof. induction hist as [|ev h IH]; [reflexivity|exact IH]. Qed.

Lemma fold_chk_eq fuel : forall hist (sA : st), GoodB sA -> (forall ev, In ev hist -> fst ev < N0) ->
  fold_left (stepf_chk fuel) hist (Ok sA) = lift (fold_left (stepf fuel) hist (Some sA)).
Proof.
  induction hist as [|ev h IH]; intros sA HG Hr; [reflexivity|].
  cbn [fold_left stepf stepf_chk].
  assert (Hev : fst ev < N0) by (apply Hr; now left).
  rewrite (decode_chk_safe fuel sA (fst ev) (snd ev) HG Hev).
  destruct (decode sxor s0 fuel sA (fst ev) (snd ev)) as [sB|] eqn:Ed; cbn [lift].
  - apply IH; [apply (decode_goodb fuel sA sB (fst ev) (snd ev) HG Hev Ed)|]. intros e He. apply Hr. now right.
  - rewrite fold_none, fold_fuel. reflexivity.
Qed.

(* B3, histories: the checked run is the plain run; in particular it is never OutOfBounds, whatever the fuel *)
Theorem run_chk_eq fuel hist : (forall ev, In ev hist -> fst ev < N0) ->
  run_chk fuel hist = lift (run Sy sxor s0 H0 R0 N0 fuel hist).
Proof. intros Hr. rewrite run_as_fold. apply fold_chk_eq; [apply init_goodb|exact Hr]. Qed.

Corollary run_chk_never_oob fuel hist : (forall ev, In ev hist -> fst ev < N0) ->
  run_chk fuel hist <> OutOfBounds /\ run_chk fuel hist <> BadShape.
Proof.
  intros Hr. rewrite (run_chk_eq fuel hist Hr). destruct (run Sy sxor s0 H0 R0 N0 fuel hist); split; discriminate.
Qed.

Lemma fold_chk_ok fuel : N0 < fuel -> forall hist (sA : st), GoodB sA -> (forall ev, In ev hist -> fst ev < N0) ->
  exists s, fold_left (stepf_chk fuel) hist (Ok sA) = Ok s /\ fold_left (stepf fuel) hist (Some sA) = Some s /\ GoodB s.
Proof.
  intros Hf. induction hist as [|ev h IH]; intros sA HG Hr; [exists sA; auto|].
  cbn [fold_left stepf stepf_chk].
  assert (Hev : fst ev < N0) by (apply Hr; now left).
  destruct (decode_chk_ok_good fuel sA (fst ev) (snd ev) HG Hev Hf) as (sB & E1 & E2 & GB).
  rewrite E1, E2. apply IH; [exact GB|]. intros e He. apply Hr. now right.
Qed.

Theorem run_chk_ok fuel hist : N0 < fuel -> (forall ev, In ev hist -> fst ev < N0) ->
  exists s, run_chk fuel hist = Ok s /\ run Sy sxor s0 H0 R0 N0 fuel hist = Some s /\ GoodB s.
Proof. intros Hf Hr. rewrite run_as_fold. apply fold_chk_ok; [exact Hf|apply init_goodb|exact Hr]. Qed.

(* every single call of the history is Ok: the state before it is GoodB and the call returns Ok *)
Theorem run_chk_every_call fuel hist : N0 < fuel -> (forall ev, In ev hist -> fst ev < N0) ->
  forall h1 ev h2, hist = h1 ++ ev :: h2 ->
  exists s s', run_chk fuel h1 = Ok s /\ GoodB s /\ decode_chk sxor s0 fuel s (fst ev) (snd ev) = Ok s' /\ GoodB s'.
Proof.
  intros Hf Hr h1 ev h2 E.
  assert (Hr1 : forall e, In e h1 -> fst e < N0) by (intros e He; apply Hr; rewrite E; apply in_or_app; now left).
  assert (Hev : fst ev < N0) by (apply Hr; rewrite E; apply in_or_app; right; now left).
  destruct (run_chk_ok fuel h1 Hf Hr1) as (s & E1 & _ & G1).
  destruct (decode_chk_ok_good fuel s (fst ev) (snd ev) G1 Hev Hf) as (s' & E2 & _ & G2).
  exists s, s'. auto.
Qed.

End SAFE.

(* ---------- B4: the premises are needed (the checked copy really is stricter) ---------- *)
(* (a) a column outside the code: the plain model silently drops the write and returns Some *)
Example oob_column :
  let s := init nat 1 3 [[0; 1; 2]] in
  decode_chk Nat.add 0 10 s 5 7 = OutOfBounds /\ decode Nat.add 0 10 s 5 7 = Some s.
Proof. vm_compute. split; reflexivity. Qed.

(* (b) a state that is not well formed (n = 3 but the symbol table has 2 entries): the completion cursor
   walks to column 2 *)
Example oob_short_table :
  let s := mk 1 3 [[0; 1; 2]] [3] [3] [@None nat] [@None nat; None] 0 in
  decode_chk Nat.add 0 10 s 1 7 = OutOfBounds /\ decode Nat.add 0 10 s 1 7 <> None.
Proof. vm_compute. split; [reflexivity|discriminate]. Qed.

(* (c) Good alone is not enough: a complete state (Good says nothing about its rows) whose row 0 mentions
   "column" 7; a late parity symbol makes step 2 look at tab[7] *)
Example good_is_not_enough :
  let s := mk 1 2 [[0; 7]] [2] [2] [@None nat] [None; Some 5] 0 in
  Good nat [[0; 1]] 1 2 s /\ 0 < 2 /\
  decode_chk Nat.add 0 10 s 0 9 = OutOfBounds /\ decode Nat.add 0 10 s 0 9 <> None.
Proof.
  cbv zeta. split; [|split; [lia|vm_compute; split; [reflexivity|discriminate]]].
  split.
  - constructor; cbn; try reflexivity; try lia.
  - left. intros c Hc. assert (c = 1) by lia. subst c. reflexivity.
Qed.

Print Assumptions decode_chk_refines.
Print Assumptions decode_chk_safe.
Print Assumptions decode_chk_never_oob.
Print Assumptions decode_chk_ok_good.
Print Assumptions run_chk_eq.
Print Assumptions run_chk_never_oob.
Print Assumptions run_chk_ok.
Print Assumptions run_chk_every_call.
Print Assumptions good_is_not_enough.
