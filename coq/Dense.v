(* Model M of the dense GF(2) matrix (of_matrix_dense.c, row-oriented build): rows of 32-bit words,
   bit j of a row is bit (j & 31) of word (j >> 5); n_words = (n_cols + 31) >> 5. *)
From Coq Require Import NArith Arith List Bool.
From OFV Require Import ListAux.
Import ListNotations.

Record dmat := { dr : nat; dc : nat; dw : nat; drows : list (list N) }.

Definition nwords (cols : nat) : nat := (cols + 31) / 32.

Definition d_allocate (r c : nat) : dmat :=
  {| dr := r; dc := c; dw := nwords c; drows := repeat (repeat 0%N (nwords c)) r |}.

Definition word (m : dmat) (i k : nat) : N := nth k (nth i (drows m) []) 0%N.

(* of_mod2dense_get: of_mod2_getbit(m->row[row][col >> 5], col & 31) *)
Definition d_get (m : dmat) (i j : nat) : bool := N.testbit (word m i (j / 32)) (N.of_nat (j mod 32)).

Definition set_word (m : dmat) (i k : nat) (w : N) : dmat :=
  {| dr := dr m; dc := dc m; dw := dw m; drows := upd (drows m) i (upd (nth i (drows m) []) k w) |}.

(* of_mod2dense_set (range-checked in the C: out of range -> unchanged, returns -1) *)
Definition d_set (m : dmat) (i j : nat) (v : bool) : dmat :=
  if (dr m <=? i) || (dc m <=? j) then m else
  let w := word m i (j / 32) in
  set_word m i (j / 32) (if v then N.setbit w (N.of_nat (j mod 32)) else N.clearbit w (N.of_nat (j mod 32))).

Definition d_flip (m : dmat) (i j : nat) : dmat * bool :=
  if (dr m <=? i) || (dc m <=? j) then (m, true) else
  let b := negb (d_get m i j) in (d_set m i j b, b).

Definition d_clear (m : dmat) : dmat :=
  {| dr := dr m; dc := dc m; dw := dw m; drows := repeat (repeat 0%N (dw m)) (dr m) |}.

(* first n words of src, then zeros up to len *)
Definition copy_words (src : list N) (n len : nat) : list N := firstn n src ++ repeat 0%N (len - n).

(* of_mod2dense_copy: r at least as large as m *)
Definition d_copy (m r : dmat) : dmat :=
  if (dr r <? dr m) || (dc r <? dc m) then r else
  {| dr := dr r; dc := dc r; dw := dw r;
     drows := map (fun i => if i <? dr m then copy_words (nth i (drows m) []) (dw m) (dw r) else repeat 0%N (dw r)) (seq 0 (dr r)) |}.

(* of_mod2dense_copyrows (as repaired): row i of r := row rows[i] of m; stops at the first bad index *)
Fixpoint copyrows_loop (m : dmat) (rows : list nat) (n i : nat) (acc : list (list N)) (w : nat) : list (list N) :=
  match n with
  | O => acc
  | S n' => let s := nth i rows 0 in
            if dr m <=? s then acc
            else copyrows_loop m rows n' (S i) (upd acc i (copy_words (nth s (drows m) []) (dw m) w)) w
  end.
Definition d_copyrows (m r : dmat) (rows : list nat) : dmat :=
  if dc r <? dc m then r else
  let r0 := d_clear r in
  {| dr := dr r; dc := dc r; dw := dw r; drows := copyrows_loop m rows (dr r) 0 (drows r0) (dw r) |}.

(* of_mod2dense_copycols: bit by bit, r[i][j] := m[i][cols[j]] for i < rows(m), every column j of r *)
Definition d_copycols (m r : dmat) (cols : list nat) : dmat :=
  if dr r <? dr m then r else
  fold_left (fun acc j => fold_left (fun acc2 i => d_set acc2 i j (d_get m i (nth j cols 0))) (seq 0 (dr m)) acc)
            (seq 0 (dc r)) r.

Fixpoint xor_words (a b : list N) : list N :=
  match a, b with x :: a', y :: b' => N.lxor x y :: xor_words a' b' | _, _ => a end.
(* of_mod2dense_xor_rows(m, from, to): to ^= from *)
Definition d_xor_rows (m : dmat) (from to : nat) : dmat :=
  {| dr := dr m; dc := dc m; dw := dw m; drows := upd (drows m) to (xor_words (nth to (drows m) []) (nth from (drows m) [])) |}.

Definition d_row_weight (m : dmat) (i : nat) : nat := length (filter (fun j => d_get m i j) (seq 0 (dc m))).
Definition d_col_weight (m : dmat) (j : nat) : nat := length (filter (fun i => d_get m i j) (seq 0 (dr m))).
(* all n_words words are zero (padding bits included) *)
Definition d_row_is_empty (m : dmat) (i : nat) : bool := forallb (fun w => N.eqb w 0) (nth i (drows m) []).
