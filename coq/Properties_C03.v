(* C03 — LDPC-Staircase of_finish_decoding is ML-complete: it succeeds iff the sources are recoverable.
   Model: the streaming decoder (ITModel.v) followed by MLModel.ml_finish, the mirror of
   of_linear_binary_code_finish_decoding_with_ml (simplification with every known symbol and recursive
   decoding of rows left with one unknown, the two give-up exits, the dense system with its stale-index
   right-hand sides, Gaussian elimination with back-substitution, positional write-back).  `perm` is the
   order in which the repair symbols are injected (the C draws it with rand()); `fuel` bounds the
   recursions (any value above the number of columns).
   For ANY parity-check matrix satisfying the stated hypotheses (duplicate-free in-range rows of degree
   >= 2, every column in some equation, staircase shape: the check evaluates them on the matrix of every
   session; ldpc_construction_meets_the_decoder_hypotheses derives them for the model of the
   LDPC-Staircase construction, for every outcome of its pseudo-random choices),
   any symbol group with a non-zero element, any codeword, any history of received symbols (any order,
   duplicates; of_set_available_symbols is the history in increasing ESI order), any perm and fuel:
     - the session always produces an outcome (no model "undefined behaviour");
     - every symbol held afterwards is the codeword's, and every symbol held before is kept;
     - the status is OK iff all k sources are available afterwards;
     - that happens iff the sources are uniquely determined by the received symbols and the parity
       equations, stated over GF(2) and independently of the data: every kernel vector of H that
       vanishes on the received set vanishes on all source columns (no non-zero "difference of two
       codewords" is invisible on the received set yet visible on a source);
     - hence the outcome depends only on the SET of received symbols: not on order, duplicates, the
       submission API, rand() or the fuel. *)
From Coq Require Import Arith List Bool.
From Coq Require Import ZArith.
From OFV Require Import ListAux XorGroup LdpcEnc ITModel ITProofs MLModel MLFinish MLSession Sparse Prng Pchk PchkConcrete.
Import ListNotations.

Theorem ldpc_finish_sound_truthful_and_complete :
  forall (Sy : Type) (sxor : Sy -> Sy -> Sy) (s0 : Sy),
  (forall a b c, sxor a (sxor b c) = sxor (sxor a b) c) -> (forall a b, sxor a b = sxor b a) ->
  (forall a, sxor s0 a = a) -> (forall a, sxor a a = s0) ->
  forall (H0 : list (list nat)) (R0 N0 : nat),
  length H0 = R0 -> (forall i, i < R0 -> NoDup (nth i H0 [])) ->
  (forall i c, i < R0 -> In c (nth i H0 []) -> c < N0) -> (forall i, i < R0 -> 2 <= length (nth i H0 [])) -> R0 <= N0 ->
  (forall c, c < N0 -> exists i, i < R0 /\ In c (nth i H0 [])) -> stair R0 H0 -> (exists a : Sy, a <> s0) ->
  forall cw : nat -> Sy, (forall i, i < R0 -> fold_right sxor s0 (map cw (nth i H0 [])) = s0) ->
  forall (hist : list (nat * Sy)) (s : st Sy) (fuel : nat) (perm : list nat) (o : outcome Sy),
  (forall ev, In ev hist -> fst ev < N0 /\ snd ev = cw (fst ev)) ->
  run Sy sxor s0 H0 R0 N0 (S N0) hist = Some s ->
  N0 < fuel -> (forall c, c < R0 -> In c perm) -> (forall c, In c perm -> c < R0) ->
  ml_finish sxor s0 fuel perm s = Some o ->
  (forall c v, nth c (tab (o_st o)) None = Some v -> v = cw c) /\
  (forall c x, nth c (tab s) None = Some x -> nth c (tab (o_st o)) None = Some x) /\
  (o_ok o = true <-> (forall c, R0 <= c < N0 -> known (o_st o) c = true)) /\
  ((forall c, R0 <= c < N0 -> known (o_st o) c = true) <->
   (forall z : nat -> bool, (forall i, i < R0 -> fold_right xorb false (map z (nth i H0 [])) = false) ->
      (forall c, In c (map fst hist) -> z c = false) -> forall c, R0 <= c < N0 -> z c = false)).
Proof. exact ldpc_session_finish. Qed.

Theorem ldpc_finish_always_returns :
  forall (Sy : Type) (sxor : Sy -> Sy -> Sy) (s0 : Sy),
  (forall a b c, sxor a (sxor b c) = sxor (sxor a b) c) -> (forall a b, sxor a b = sxor b a) ->
  (forall a, sxor s0 a = a) -> (forall a, sxor a a = s0) ->
  forall (H0 : list (list nat)) (R0 N0 : nat),
  length H0 = R0 -> (forall i, i < R0 -> NoDup (nth i H0 [])) ->
  (forall i c, i < R0 -> In c (nth i H0 []) -> c < N0) -> (forall i, i < R0 -> 2 <= length (nth i H0 [])) -> R0 <= N0 ->
  (forall c, c < N0 -> exists i, i < R0 /\ In c (nth i H0 [])) -> stair R0 H0 -> (exists a : Sy, a <> s0) ->
  forall cw : nat -> Sy, (forall i, i < R0 -> fold_right sxor s0 (map cw (nth i H0 [])) = s0) ->
  forall (hist : list (nat * Sy)) (fuel : nat) (perm : list nat),
  (forall ev, In ev hist -> fst ev < N0 /\ snd ev = cw (fst ev)) ->
  N0 < fuel -> (forall c, c < R0 -> In c perm) -> (forall c, In c perm -> c < R0) ->
  exists (s : st Sy) (o : outcome Sy), run Sy sxor s0 H0 R0 N0 (S N0) hist = Some s /\ ml_finish sxor s0 fuel perm s = Some o.
Proof. exact ldpc_session_total. Qed.

Theorem ldpc_finish_outcome_depends_only_on_the_received_set :
  forall (Sy : Type) (sxor : Sy -> Sy -> Sy) (s0 : Sy),
  (forall a b c, sxor a (sxor b c) = sxor (sxor a b) c) -> (forall a b, sxor a b = sxor b a) ->
  (forall a, sxor s0 a = a) -> (forall a, sxor a a = s0) ->
  forall (H0 : list (list nat)) (R0 N0 : nat),
  length H0 = R0 -> (forall i, i < R0 -> NoDup (nth i H0 [])) ->
  (forall i c, i < R0 -> In c (nth i H0 []) -> c < N0) -> (forall i, i < R0 -> 2 <= length (nth i H0 [])) -> R0 <= N0 ->
  (forall c, c < N0 -> exists i, i < R0 /\ In c (nth i H0 [])) -> stair R0 H0 -> (exists a : Sy, a <> s0) ->
  forall cw : nat -> Sy, (forall i, i < R0 -> fold_right sxor s0 (map cw (nth i H0 [])) = s0) ->
  forall (h1 h2 : list (nat * Sy)) (s1 s2 : st Sy) (fuel1 fuel2 : nat) (perm1 perm2 : list nat) (o1 o2 : outcome Sy),
  (forall ev, In ev h1 -> fst ev < N0 /\ snd ev = cw (fst ev)) -> (forall ev, In ev h2 -> fst ev < N0 /\ snd ev = cw (fst ev)) ->
  (forall c, In c (map fst h1) <-> In c (map fst h2)) ->
  run Sy sxor s0 H0 R0 N0 (S N0) h1 = Some s1 -> run Sy sxor s0 H0 R0 N0 (S N0) h2 = Some s2 ->
  N0 < fuel1 -> N0 < fuel2 ->
  (forall c, c < R0 -> In c perm1) -> (forall c, In c perm1 -> c < R0) ->
  (forall c, c < R0 -> In c perm2) -> (forall c, In c perm2 -> c < R0) ->
  ml_finish sxor s0 fuel1 perm1 s1 = Some o1 -> ml_finish sxor s0 fuel2 perm2 s2 = Some o2 -> o_ok o1 = o_ok o2.
Proof. exact ldpc_session_finish_order_independent. Qed.

(* the hypotheses about the matrix hold for every matrix the model of the LDPC-Staircase construction
   (Pchk.v, tied to the C by C05's entry-by-entry comparison) builds from an accepted seed, whatever the
   pseudo-random choices are *)
Theorem ldpc_construction_meets_the_decoder_hypotheses :
  forall fuel k r n1 seed g0 m extra g,
  1 <= k -> 1 <= r -> (Z.of_nat k <= 2^24)%Z -> (Z.of_nat r <= 2^24)%Z ->
  (1 <= seed <= PM_P - 1)%Z -> pchk fuel k r n1 seed g0 = Some (m, extra, g) -> 1 <= n1 ->
  length (rws m) = r /\
  (forall i, i < r -> NoDup (nth i (rws m) [])) /\
  (forall i c, i < r -> In c (nth i (rws m) []) -> c < k + r) /\
  (forall i, i < r -> 2 <= length (nth i (rws m) [])) /\
  r <= k + r /\
  (forall c, c < k + r -> exists i, i < r /\ In c (nth i (rws m) [])) /\
  stair r (rws m).
Proof. exact pchk_decoder_premises. Qed.

Print Assumptions ldpc_finish_sound_truthful_and_complete.
Print Assumptions ldpc_construction_meets_the_decoder_hypotheses.
Print Assumptions ldpc_finish_always_returns.
Print Assumptions ldpc_finish_outcome_depends_only_on_the_received_set.
