(* Scratch prototype: IT decoder model in matrix-column space (symbols are identified by their
   matrix column; the API layer converts ESIs).  Values are carried but irrelevant for C04. *)
Require Import List Arith Bool Lia. Import ListNotations.
Set Implicit Arguments.

Section IT.
Variable Sy : Type. Variable sxor : Sy -> Sy -> Sy. Variable s0 : Sy.

Record st := mk { r : nat; n : nat;
  rws : list (list nat); unk : list nat; enc : list nat;
  ct : list (option Sy); tab : list (option Sy); fnd : nat }.

Fixpoint upd {A} (l:list A) (i:nat) (x:A) : list A :=
  match l, i with [], _ => [] | _ :: t, O => x :: t | h :: t, S j => h :: upd t j x end.
Definition getn (l:list nat) i := nth i l 0.
Definition known (s:st) c := match nth c (tab s) None with Some _ => true | None => false end.

(* completion cursor: sources are columns r .. n-1 *)
Fixpoint adv (fuel:nat) (s:st) (i:nat) : nat :=
  match fuel with O => i | S f => if (r s + i <? n s) && known s (r s + i) then adv f s (S i) else i end.
Definition set_fnd s i := mk (r s) (n s) (rws s) (unk s) (enc s) (ct s) (tab s) i.
Definition is_complete (s:st) : bool * st :=
  let i := adv (n s - r s) s (fnd s) in (n s - r s <=? i, set_fnd s i).

Definition set_tab s c v := mk (r s) (n s) (rws s) (unk s) (enc s) (ct s) (upd (tab s) c (Some v)) (fnd s).

Definition step2_row (s:st) (c:nat) (v:Sy) (row:nat) : st * bool :=
  let u := getn (unk s) row - 1 in
  let ct1 := match nth row (ct s) None with
             | None => if u =? 1 then Some s0 else None | Some t => Some t end in
  match ct1 with
  | None => (mk (r s) (n s) (rws s) (upd (unk s) row u) (enc s) (ct s) (tab s) (fnd s),
             getn (enc s) row =? 1)
  | Some t =>
      let t1 := if 1 <? getn (enc s) row then sxor t v else t in
      let ents := filter (fun c' => negb (c' =? c)) (nth row (rws s) []) in
      let kn := filter (known s) ents in
      let t2 := fold_left (fun acc c' => match nth c' (tab s) None with Some w => sxor acc w | None => acc end) kn t1 in
      let ents' := filter (fun c' => negb (known s c')) ents in
      let e' := getn (enc s) row - 1 - length kn in
      (mk (r s) (n s) (upd (rws s) row ents') (upd (unk s) row u) (upd (enc s) row e')
          (upd (ct s) row (Some t2)) (tab s) (fnd s), e' =? 1)
  end.

Definition rows_with (s:st) c : list nat :=
  filter (fun row => existsb (Nat.eqb c) (nth row (rws s) [])) (seq 0 (r s)).

Definition step2 (s:st) (c:nat) (v:Sy) : st * list nat :=
  fold_left (fun '(s, L) row => let '(s', rdy) := step2_row s c v row in (s', if rdy then L ++ [row] else L))
            (rows_with s c) (s, []).

Definition consume (s:st) (row:nat) : st :=
  mk (r s) (n s) (upd (rws s) row []) (unk s) (upd (enc s) row 0) (upd (ct s) row None) (tab s) (fnd s).

Fixpoint step3 (dec : st -> nat -> Sy -> option st) (L:list nat) (s:st) : option st :=
  match L with
  | [] => Some s
  | row :: L' =>
      let '(c', s) := is_complete s in
      if c' then Some s else
      if getn (enc s) row =? 1 then
        match nth row (rws s) [], nth row (ct s) None with
        | [cc], Some t =>
            match dec (consume s row) cc t with None => None | Some s2 => step3 dec L' s2 end
        | _, _ => None
        end
      else step3 dec L' s
  end.

Fixpoint decode (fuel:nat) (s:st) (c:nat) (v:Sy) : option st :=
  match fuel with O => None | S f =>
  if known s c then Some s else
  let s := set_tab s c v in
  let early := if r s <=? c then is_complete s else (false, s) in
  if fst early then Some (snd early) else
  let s := snd early in
  let '(s, L) := step2 s c v in
  step3 (decode f) (rev L) s
  end.

Definition init (r n:nat) (H : list (list nat)) : st :=
  mk r n H (map (@length nat) H) (map (@length nat) H) (repeat None r) (repeat None n) 0.
End IT.
