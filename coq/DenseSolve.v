(* Model M of the symbol-level dense solver (of_ml_tool.c): forward elimination column by column with
   row swap and word-granular row XOR, then backward substitution.  Rows are bit lists; constant
   terms are `option Sy` (None = the C's NULL pointer = null symbol, as repaired in back-substitution). *)
From Coq Require Import Arith List Bool.
From OFV Require Import ListAux.
Import ListNotations.

Section DS.
Variable Sy : Type. Variable sxor : Sy -> Sy -> Sy. Variable s0 : Sy.

Definition bit (row : list bool) (c : nat) : bool := nth c row false.
Definition getrow (A : list (list bool)) (r : nat) : list bool := nth r A [].
Definition val (o : option Sy) : Sy := match o with Some c => c | None => s0 end.

(* s ^= t on the words from word c0/32 on, i.e. on the columns >= 32 * (c0 / 32) *)
Fixpoint xor_from_aux (c0 : nat) (i : nat) (s t : list bool) : list bool :=
  match s, t with
  | x :: s', y :: t' => (if c0 <=? i then xorb x y else x) :: xor_from_aux c0 (S i) s' t'
  | _, _ => s
  end.
Definition xor_row_from (c0 : nat) (s t : list bool) : list bool := xor_from_aux c0 0 s t.

(* for (j = i; j < p; j++) if (getbit(row j, i)) break; *)
Fixpoint find_pivot (A : list (list bool)) (i j cnt : nat) : option nat :=
  match cnt with O => None | S c => if bit (getrow A j) i then Some j else find_pivot A i (S j) c end.

Definition swap {X} (l : list X) (i j : nat) (d : X) : list X := upd (upd l i (nth j l d)) j (nth i l d).

Record sys := { sA : list (list bool); sb : list (option Sy) }.

(* one row below the pivot *)
Definition elim_row (i : nat) (y : sys) (j : nat) : sys :=
  if bit (getrow (sA y) j) i then
    let A' := upd (sA y) j (xor_row_from (32 * (i / 32)) (getrow (sA y) j) (getrow (sA y) i)) in
    match nth i (sb y) None with
    | Some ci => {| sA := A'; sb := upd (sb y) j (match nth j (sb y) None with None => Some ci | Some cj => Some (sxor cj ci) end) |}
    | None => {| sA := A'; sb := upd (sb y) i (Some s0) |}       (* constant_tab[i] = of_calloc(...) *)
    end
  else y.

Definition col_forward (p : nat) (y : sys) (i : nat) : option sys :=
  match find_pivot (sA y) i i (p - i) with
  | None => None
  | Some j =>
    let y1 := if j =? i then y else {| sA := swap (sA y) i j []; sb := swap (sb y) i j None |} in
    Some (fold_left (elim_row i) (seq (S i) (p - S i)) y1)
  end.

Fixpoint triangularize (p : nat) (cols : list nat) (y : sys) : option sys :=
  match cols with [] => Some y | i :: rest => match col_forward p y i with None => None | Some y' => triangularize p rest y' end end.

(* for (i = n - 1; i >= 0; i--) x[i] = b[i] + sum over j > i with A[i][j] of x[j] *)
Fixpoint back_subst (q : nat) (y : sys) (cnt : nat) (x : list Sy) : list Sy :=
  match cnt with
  | O => x
  | S c => let i := c in
           let acc := fold_left (fun a j => if bit (getrow (sA y) i) j then sxor a (nth j x s0) else a) (seq (S i) (q - S i))
                                (val (nth i (sb y) None)) in
           back_subst q y c (upd x i acc)
  end.

(* of_linear_binary_code_solve_dense_system on a p x q system *)
Definition solve (p q : nat) (y : sys) : option (list Sy) :=
  match triangularize p (seq 0 q) y with
  | None => None
  | Some y' => Some (back_subst q y' q (repeat s0 q))
  end.
End DS.
Arguments sA {Sy} _.
Arguments sb {Sy} _.
Arguments Build_sys {Sy} _ _.
