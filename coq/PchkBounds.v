(* C07 / C05 for the LDPC-Staircase parity-check matrix construction
   (of_create_pchck_matrix_rfc5170_compliant, model Pchk.pchk / PchkShape.gpchk): the construction never
   indexes its choice table u[] nor the matrix out of range, and never calls the PRNG with bound 0.

   Pchk.v reads u with [nth i u 0] and writes it with [upd], which are TOTAL (an out-of-range read returns
   0, an out-of-range write is dropped); of_mod2sparse_find out of range is read as "not found" ([found])
   and an insertion that s_insert refuses (OutOfRange) is silently ignored ([ins]).  A theorem about such
   a model could hide an index slip.  Here the construction is copied with accessors that FAIL:
        rd u i        = nth_chk of ITBounds       (read of u[i])
        wr u i x      = upd_chk of ITBounds       (u[i] = x)
        found_chk     fails when s_find answers None (row or column outside the matrix)
        ins_chk       fails when s_insert answers OutOfRange or Garbled
        row_chk       fails when the row header rows[i] is outside the matrix (of_mod2sparse_first_in_row)
        draw g maxv   fails when maxv = 0 (the C would evaluate of_rfc5170_rand(0))
   and the result type distinguishes
        Ok x | OutOfFuel | PrngUndefined | OutOfBounds | Rejected
   (OutOfFuel: a do-while retry loop used up its fuel; PrngUndefined: the PRNG step or the seeding
   returned None; Rejected: the "left_degree > nb_rows" test of the C, which returns NULL).

   Setting: the abstract-PRNG setting of PchkShape.v.  Section variables rndf, srandf (the two PRNG
   functions; gpchk rndf srandf is the plain model and Pchk.pchk = gpchk Pchk.rnd of_rfc5170_srand by
   pchk_is_gpchk) and, for C3 only, the hypotheses of PchkShape plus one:
        rnd_good   : forall g maxv x g', good g -> rndf g maxv = Some (x, g') -> good g'
        rnd_range  : forall g maxv x g', good g -> okmax maxv -> 1 <= maxv -> rndf g maxv = Some (x, g') -> x < maxv
        srand_good : forall g0 seed g, pre g0 seed -> srandf g0 seed = Some g -> good g
        okmax_le   : forall a b, a <= b -> okmax b -> okmax a
   (PchkConcrete.prng_rnd_good / prng_rnd_range / prng_srand_good discharge the first three for Pchk.rnd
   with okmax v := v <= 2^24, which is downward closed).

     C1  scan_chk, pick_u_chk, pick_row_chk, fill_col_chk, fill_cols_chk, pick_other_chk,
         xstep1_chk, xstep2_chk, extra_rows_chk, staircase_chk, pchk_chk;
     C2  *_refines: NO hypothesis.  Ok x -> the plain function returns x (Some x);
         OutOfFuel / PrngUndefined / Rejected -> the plain function returns None;
     C3  fill_col_chk_safe, fill_cols_chk_safe (on states satisfying SInv), pchk_chk_safe,
         pchk_chk_never_oob, pchk_chk_complete, and the same under the bare range hypothesis
         (pchk_chk_never_oob_range, pchk_chk_complete_range);
     C4  closed examples (a toy PRNG) where a checked copy is OutOfBounds and the plain one returns a value.

   Not modelled as a failing access: the initialisation u[h] = h % nb_rows (h runs over the calloc'ed
   range by construction; the division is reached only when 1 <= left_degree <= nb_rows); the model's
   reading of a row that is still empty in the second half of the extra-entry pass (Pchk.v skips it; it
   cannot be empty once the checked insertion of the first half has succeeded on a well-formed matrix). *)
From Coq Require Import ZArith Arith List Bool Lia.
From OFV Require Import ListAux CSem Sparse SparseProofs Pchk PchkShape.
From OFV Require ITBounds.
Import ListNotations.

(* ---------- C1.0: result type, checked accessors ---------- *)
Inductive cres (A : Type) : Type :=
| Ok (a : A) | OutOfFuel | PrngUndefined | OutOfBounds | Rejected.
Arguments Ok {A} a.
Arguments OutOfFuel {A}.
Arguments PrngUndefined {A}.
Arguments OutOfBounds {A}.
Arguments Rejected {A}.

Definition bind {A B} (x : cres A) (f : A -> cres B) : cres B :=
  match x with
  | Ok a => f a
  | OutOfFuel => OutOfFuel
  | PrngUndefined => PrngUndefined
  | OutOfBounds => OutOfBounds
  | Rejected => Rejected
  end.

Notation "'do' x <- e ; k" := (bind e (fun x => k))
  (at level 200, x name, e at level 100, k at level 200, right associativity).

Definition rd (u : list nat) (i : nat) : cres nat :=
  match ITBounds.nth_chk u i with Some x => Ok x | None => OutOfBounds end.
Definition wr (u : list nat) (i x : nat) : cres (list nat) :=
  match ITBounds.upd_chk u i x with Some u' => Ok u' | None => OutOfBounds end.
Definition found_chk (m : smat) (i j : nat) : cres bool :=
  match s_find m i j with Some b => Ok b | None => OutOfBounds end.
Definition ins_chk (m : smat) (i j : nat) : cres smat :=
  let (m', st) := s_insert m i j in
  match st with Existed | Inserted => Ok m' | Garbled | OutOfRange => OutOfBounds end.
Definition row_chk (m : smat) (i : nat) : cres (list nat) :=
  match ITBounds.nth_chk (rws m) i with Some row => Ok row | None => OutOfBounds end.

(* what the accessors answer: inside / outside *)
Lemma rd_cases u i : (i < length u /\ rd u i = Ok (nth i u 0)) \/ (length u <= i /\ rd u i = OutOfBounds).
Proof.
  unfold rd. destruct (Nat.lt_ge_cases i (length u)) as [H|H].
  - left. split; [exact H|]. rewrite (ITBounds.nth_chk_in u i 0 H). reflexivity.
  - right. split; [exact H|]. apply ITBounds.nth_chk_none in H. rewrite H. reflexivity.
Qed.

Lemma rd_in u i : i < length u -> rd u i = Ok (nth i u 0).
Proof. intros H. destruct (rd_cases u i) as [(_ & E)|(H' & _)]; [exact E|lia]. Qed.

Lemma rd_out u i : length u <= i -> rd u i = OutOfBounds.
Proof. intros H. destruct (rd_cases u i) as [(H' & _)|(_ & E)]; [lia|exact E]. Qed.

Lemma wr_cases u i x : (i < length u /\ wr u i x = Ok (upd u i x)) \/ (length u <= i /\ wr u i x = OutOfBounds).
Proof.
  unfold wr. destruct (Nat.lt_ge_cases i (length u)) as [H|H].
  - left. split; [exact H|]. rewrite (ITBounds.upd_chk_in u i x H). reflexivity.
  - right. split; [exact H|]. apply (ITBounds.upd_chk_none u i x) in H. rewrite H. reflexivity.
Qed.

Lemma wr_in u i x : i < length u -> wr u i x = Ok (upd u i x).
Proof. intros H. destruct (wr_cases u i x) as [(_ & E)|(H' & _)]; [exact E|lia]. Qed.

Lemma row_chk_cases m i :
  (i < length (rws m) /\ row_chk m i = Ok (nth i (rws m) [])) \/ (length (rws m) <= i /\ row_chk m i = OutOfBounds).
Proof.
  unfold row_chk. destruct (Nat.lt_ge_cases i (length (rws m))) as [H|H].
  - left. split; [exact H|]. rewrite (ITBounds.nth_chk_in (rws m) i [] H). reflexivity.
  - right. split; [exact H|]. apply ITBounds.nth_chk_none in H. rewrite H. reflexivity.
Qed.

Lemma row_chk_in m i : i < length (rws m) -> row_chk m i = Ok (nth i (rws m) []).
Proof. intros H. destruct (row_chk_cases m i) as [(_ & E)|(H' & _)]; [exact E|lia]. Qed.

Lemma found_chk_cases m i j : found_chk m i j = Ok (found m i j) \/ found_chk m i j = OutOfBounds.
Proof. unfold found_chk, found. destruct (s_find m i j); [left|right]; reflexivity. Qed.

Lemma found_chk_in m i j : WF m -> i < nr m -> j < nc m -> found_chk m i j = Ok (found m i j).
Proof. intros W Hi Hj. unfold found_chk, found. rewrite (find_spec m i j W Hi Hj). reflexivity. Qed.

Lemma found_chk_out m i j : ~ (i < nr m /\ j < nc m) -> found_chk m i j = OutOfBounds.
Proof.
  intros Hn. unfold found_chk, s_find.
  destruct (Nat.leb_spec (nr m) i); [reflexivity|]. destruct (Nat.leb_spec (nc m) j); [reflexivity|]. lia.
Qed.

Lemma ins_chk_cases m i j : ins_chk m i j = Ok (ins m i j) \/ ins_chk m i j = OutOfBounds.
Proof. unfold ins_chk, ins. destruct (s_insert m i j) as [m' st]. cbn [fst]. destruct st; auto. Qed.

Lemma ins_chk_in m i j : WF m -> i < nr m -> j < nc m -> ins_chk m i j = Ok (ins m i j).
Proof.
  intros W Hi Hj. unfold ins_chk, ins. pose proof (insert_spec m i j W Hi Hj) as HI.
  destruct (s_insert m i j) as [m' st]. cbn [fst]. destruct HI as (_ & _ & _ & _ & Hst).
  subst st. destruct (has m i j); reflexivity.
Qed.

Lemma ins_chk_out m i j : ~ (i < nr m /\ j < nc m) -> ins_chk m i j = OutOfBounds.
Proof.
  intros Hn. unfold ins_chk, s_insert.
  destruct (Nat.leb_spec (nr m) i); [reflexivity|]. destruct (Nat.leb_spec (nc m) j); [reflexivity|]. lia.
Qed.

(* ---------- what "refines" and "safe" mean ---------- *)
Definition refines {A} (x : cres A) (o : option A) : Prop :=
  match x with
  | Ok a => o = Some a
  | OutOfBounds => True
  | OutOfFuel | PrngUndefined | Rejected => o = None
  end.

(* never OutOfBounds, and P on an Ok result *)
Definition post {A} (P : A -> Prop) (x : cres A) : Prop :=
  match x with Ok a => P a | OutOfBounds => False | OutOfFuel | PrngUndefined | Rejected => True end.

Lemma post_bind {A B} (Q : B -> Prop) (x : cres A) (f : A -> cres B) :
  post (fun a => post Q (f a)) x -> post Q (bind x f).
Proof. destruct x; cbn [post bind]; auto. Qed.

Lemma post_mono {A} (P Q : A -> Prop) (x : cres A) : (forall a, P a -> Q a) -> post P x -> post Q x.
Proof. intros H. destruct x; cbn [post]; auto. Qed.

Lemma post_not_oob {A} (P : A -> Prop) (x : cres A) : post P x -> x <> OutOfBounds.
Proof. intros H E. rewrite E in H. exact H. Qed.

Lemma post_ok {A} (P : A -> Prop) (x : cres A) a : post P x -> x = Ok a -> P a.
Proof. intros H E. rewrite E in H. exact H. Qed.

(* ---------- C1: the checked construction ---------- *)

(* for (i = t; i < len && find(u[i], j); i++) ;   -- no PRNG here *)
Fixpoint scan_chk (m : smat) (u : list nat) (j : nat) (i cnt : nat) : cres nat :=
  match cnt with
  | O => Ok i
  | S c => do x <- rd u i; do b <- found_chk m x j; if b then scan_chk m u j (S i) c else Ok i
  end.

Fixpoint foldC {A B} (f : A -> B -> cres A) (l : list B) (a : A) : cres A :=
  match l with [] => Ok a | x :: t => do a' <- f a x; foldC f t a' end.

(* insert (i, i) then (i, i - 1) *)
Definition stair_step_chk (acc : smat) (i : nat) : cres smat :=
  do m1 <- ins_chk acc i i; ins_chk m1 i (i - 1).

Definition staircase_chk (r : nat) (m : smat) : cres smat :=
  do m0 <- ins_chk m 0 0; foldC stair_step_chk (seq 1 (r - 1)) m0.

Section CHK.
Variable rndf : Z -> nat -> option (nat * Z).
Variable srandf : Z -> Z -> option Z.

(* of_rfc5170_rand (maxv): bound 0 is an error *)
Definition draw (g : Z) (maxv : nat) : cres (nat * Z) :=
  if maxv =? 0 then OutOfBounds else
  match rndf g maxv with Some p => Ok p | None => PrngUndefined end.

(* do { i = t + rand(len - t); } while (find(u[i], j)); *)
Fixpoint pick_u_chk (fuel : nat) (m : smat) (u : list nat) (j t len : nat) (g : Z) : cres (nat * Z) :=
  match fuel with
  | O => OutOfFuel
  | S f =>
      do p <- draw g (len - t);
      do x <- rd u (t + fst p);
      do b <- found_chk m x j;
      if b then pick_u_chk f m u j t len (snd p) else Ok (t + fst p, snd p)
  end.

(* do { i = rand(nb_rows); } while (find(i, j)); *)
Fixpoint pick_row_chk (fuel : nat) (m : smat) (j r : nat) (g : Z) : cres (nat * Z) :=
  match fuel with
  | O => OutOfFuel
  | S f =>
      do p <- draw g r;
      do b <- found_chk m (fst p) j;
      if b then pick_row_chk f m j r (snd p) else Ok p
  end.

(* the N1 insertions of one source column j:
     insert (u[i], j);  u[i] = u[t];  t++        or        insert (i, j) *)
Fixpoint fill_col_chk (fuel : nat) (cnt : nat) (j r len : nat) (s : lstate) : cres lstate :=
  match cnt with
  | O => Ok s
  | S c =>
      do i <- scan_chk (lm s) (lu s) j (lt s) (len - lt s);
      if i <? len then
        do p <- pick_u_chk fuel (lm s) (lu s) j (lt s) len (lg s);
        do row <- rd (lu s) (fst p);
        do m' <- ins_chk (lm s) row j;
        do ut <- rd (lu s) (lt s);
        do u' <- wr (lu s) (fst p) ut;
        fill_col_chk fuel c j r len {| lm := m'; lu := u'; lt := S (lt s); lg := snd p |}
      else
        do p <- pick_row_chk fuel (lm s) j r (lg s);
        do m' <- ins_chk (lm s) (fst p) j;
        fill_col_chk fuel c j r len {| lm := m'; lu := lu s; lt := lt s; lg := snd p |}
  end.

Fixpoint fill_cols_chk (fuel : nat) (cols : list nat) (n1 r len : nat) (s : lstate) : cres lstate :=
  match cols with
  | [] => Ok s
  | j :: rest => do s' <- fill_col_chk fuel n1 j r len s; fill_cols_chk fuel rest n1 r len s'
  end.

(* do { j = rand(k) + r; } while (j == col(e)); *)
Fixpoint pick_other_chk (fuel : nat) (k r avoid : nat) (g : Z) : cres (nat * Z) :=
  match fuel with
  | O => OutOfFuel
  | S f =>
      do p <- draw g k;
      if fst p + r =? avoid then pick_other_chk f k r avoid (snd p) else Ok (fst p + r, snd p)
  end.

(* the two halves of one round of the extra-entry pass (PchkShape.xstep1 / xstep2) *)
Definition xstep1_chk (i k r : nat) (m : smat) (g : Z) (added : nat) : cres (smat * Z * nat) :=
  do row <- row_chk m i;
  match row with
  | [] => do p <- draw g k; do m1 <- ins_chk m i (fst p + r); Ok (m1, snd p, S added)
  | _ => Ok (m, g, added)
  end.

Definition xstep2_chk (fuel i k r : nat) (m1 : smat) (g1 : Z) (a1 : nat) : cres (smat * Z * nat) :=
  do row <- row_chk m1 i;
  match row with
  | [e] => if 1 <? k then
             do p <- pick_other_chk fuel k r e g1; do m2 <- ins_chk m1 i (fst p); Ok (m2, snd p, S a1)
           else Ok (m1, g1, a1)
  | _ => Ok (m1, g1, a1)
  end.

Fixpoint extra_rows_chk (fuel : nat) (rows : list nat) (k r : nat) (m : smat) (g : Z) (added : nat)
  : cres (smat * Z * nat) :=
  match rows with
  | [] => Ok (m, g, added)
  | i :: rest =>
      do s1 <- xstep1_chk i k r m g added;
      do s2 <- xstep2_chk fuel i k r (fst (fst s1)) (snd (fst s1)) (snd s1);
      extra_rows_chk fuel rest k r (fst (fst s2)) (snd (fst s2)) (snd s2)
  end.

Definition pchk_chk (fuel : nat) (k r n1 : nat) (seed : Z) (g0 : Z) : cres (smat * bool * Z) :=
  if r <? n1 then Rejected else
  match srandf g0 seed with
  | None => PrngUndefined
  | Some g =>
      let n := k + r in let len := n1 * k in
      let u := map (fun h => h mod r) (seq 0 len) in
      do s <- fill_cols_chk fuel (seq r k) n1 r len {| lm := s_allocate r n; lu := u; lt := 0; lg := g |};
      do x <- extra_rows_chk fuel (seq 0 r) k r (lm s) (lg s) 0;
      do m' <- staircase_chk r (fst (fst x));
      Ok (m', 1 <=? snd x, snd (fst x))
  end.

End CHK.

(* ---------- C2: the checked copies refine the plain model (no hypothesis at all) ---------- *)
Lemma scan_chk_cases m u j : forall cnt i,
  scan_chk m u j i cnt = Ok (scan m u j i cnt) \/ scan_chk m u j i cnt = OutOfBounds.
Proof.
  induction cnt as [|c IH]; intros i; cbn [scan_chk scan]; [left; reflexivity|].
  destruct (rd_cases u i) as [(_ & ->)|(_ & ->)]; cbn [bind]; [|right; reflexivity].
  destruct (found_chk_cases m (nth i u 0) j) as [-> | ->]; cbn [bind]; [|right; reflexivity].
  destruct (found m (nth i u 0) j); [apply IH|left; reflexivity].
Qed.

Theorem scan_chk_refines m u j i cnt i' : scan_chk m u j i cnt = Ok i' -> scan m u j i cnt = i'.
Proof.
  intros H. destruct (scan_chk_cases m u j cnt i) as [E|E]; rewrite E in H; [|discriminate].
  inversion H. reflexivity.
Qed.

Lemma stair_fold_cases : forall l acc,
  foldC stair_step_chk l acc = Ok (fold_left (fun acc i => ins (ins acc i i) i (i - 1)) l acc) \/
  foldC stair_step_chk l acc = OutOfBounds.
Proof.
  induction l as [|i l IH]; intros acc; cbn [foldC fold_left]; [left; reflexivity|].
  unfold stair_step_chk at 1 3.
  destruct (ins_chk_cases acc i i) as [-> | ->]; cbn [bind]; [|right; reflexivity].
  destruct (ins_chk_cases (ins acc i i) i (i - 1)) as [-> | ->]; cbn [bind]; [|right; reflexivity].
  apply IH.
Qed.

Lemma staircase_chk_cases r m : staircase_chk r m = Ok (staircase r m) \/ staircase_chk r m = OutOfBounds.
Proof.
  unfold staircase_chk, staircase.
  destruct (ins_chk_cases m 0 0) as [-> | ->]; cbn [bind]; [|right; reflexivity].
  apply stair_fold_cases.
Qed.

Theorem staircase_chk_refines r m m' : staircase_chk r m = Ok m' -> staircase r m = m'.
Proof.
  intros H. destruct (staircase_chk_cases r m) as [E|E]; rewrite E in H; [|discriminate].
  inversion H. reflexivity.
Qed.

Section REF.
Variable rndf : Z -> nat -> option (nat * Z).
Variable srandf : Z -> Z -> option Z.

Lemma draw_cases g maxv :
  (maxv = 0 /\ draw rndf g maxv = OutOfBounds) \/
  (1 <= maxv /\ draw rndf g maxv = match rndf g maxv with Some p => Ok p | None => PrngUndefined end).
Proof.
  unfold draw. destruct (Nat.eqb_spec maxv 0) as [E|E]; [left; split; [exact E|reflexivity]|right].
  split; [lia|reflexivity].
Qed.

Lemma draw_pos g maxv : 1 <= maxv ->
  draw rndf g maxv = match rndf g maxv with Some p => Ok p | None => PrngUndefined end.
Proof. intros H. destruct (draw_cases g maxv) as [(E & _)|(_ & E)]; [lia|exact E]. Qed.

Lemma pick_u_chk_refines m u j t len : forall fuel g,
  refines (pick_u_chk rndf fuel m u j t len g) (gpick_u rndf fuel m u j t len g).
Proof.
  induction fuel as [|f IH]; intros g; cbn [pick_u_chk gpick_u]; [reflexivity|].
  destruct (draw_cases g (len - t)) as [(_ & ->)|(_ & ->)]; cbn [bind]; [exact I|].
  destruct (rndf g (len - t)) as [[x g']|]; cbn [bind fst snd]; [|reflexivity]. cbv zeta.
  destruct (rd_cases u (t + x)) as [(_ & ->)|(_ & ->)]; cbn [bind]; [|exact I].
  destruct (found_chk_cases m (nth (t + x) u 0) j) as [-> | ->]; cbn [bind]; [|exact I].
  destruct (found m (nth (t + x) u 0) j); [apply IH|reflexivity].
Qed.

Lemma pick_row_chk_refines m j r : forall fuel g,
  refines (pick_row_chk rndf fuel m j r g) (gpick_row rndf fuel m j r g).
Proof.
  induction fuel as [|f IH]; intros g; cbn [pick_row_chk gpick_row]; [reflexivity|].
  destruct (draw_cases g r) as [(_ & ->)|(_ & ->)]; cbn [bind]; [exact I|].
  destruct (rndf g r) as [[x g']|]; cbn [bind fst snd]; [|reflexivity].
  destruct (found_chk_cases m x j) as [-> | ->]; cbn [bind]; [|exact I].
  destruct (found m x j); [apply IH|reflexivity].
Qed.

Lemma pick_other_chk_refines k r avoid : forall fuel g,
  refines (pick_other_chk rndf fuel k r avoid g) (gpick_other rndf fuel k r avoid g).
Proof.
  induction fuel as [|f IH]; intros g; cbn [pick_other_chk gpick_other]; [reflexivity|].
  destruct (draw_cases g k) as [(_ & ->)|(_ & ->)]; cbn [bind]; [exact I|].
  destruct (rndf g k) as [[x g']|]; cbn [bind fst snd]; [|reflexivity].
  destruct (x + r =? avoid); [apply IH|reflexivity].
Qed.

Theorem fill_col_chk_refines fuel j r len : forall cnt s,
  refines (fill_col_chk rndf fuel cnt j r len s) (gfill_col rndf fuel cnt j r len s).
Proof.
  induction cnt as [|c IH]; intros s; cbn [fill_col_chk gfill_col]; [reflexivity|]. cbv zeta.
  destruct (scan_chk_cases (lm s) (lu s) j (len - lt s) (lt s)) as [-> | ->]; cbn [bind]; [|exact I].
  destruct (scan (lm s) (lu s) j (lt s) (len - lt s) <? len).
  - pose proof (pick_u_chk_refines (lm s) (lu s) j (lt s) len fuel (lg s)) as R.
    destruct (pick_u_chk rndf fuel (lm s) (lu s) j (lt s) len (lg s)) as [[i' g']| | | |];
      cbn [refines] in R; cbn [bind]; try exact I; rewrite R; try reflexivity.
    cbn [fst snd].
    destruct (rd_cases (lu s) i') as [(_ & ->)|(_ & ->)]; cbn [bind]; [|exact I].
    destruct (ins_chk_cases (lm s) (nth i' (lu s) 0) j) as [-> | ->]; cbn [bind]; [|exact I].
    destruct (rd_cases (lu s) (lt s)) as [(_ & ->)|(_ & ->)]; cbn [bind]; [|exact I].
    destruct (wr_cases (lu s) i' (nth (lt s) (lu s) 0)) as [(_ & ->)|(_ & ->)]; cbn [bind]; [|exact I].
    apply IH.
  - pose proof (pick_row_chk_refines (lm s) j r fuel (lg s)) as R.
    destruct (pick_row_chk rndf fuel (lm s) j r (lg s)) as [[i' g']| | | |];
      cbn [refines] in R; cbn [bind]; try exact I; rewrite R; try reflexivity.
    cbn [fst snd].
    destruct (ins_chk_cases (lm s) i' j) as [-> | ->]; cbn [bind]; [|exact I].
    apply IH.
Qed.

Theorem fill_cols_chk_refines fuel n1 r len : forall cols s,
  refines (fill_cols_chk rndf fuel cols n1 r len s) (gfill_cols rndf fuel cols n1 r len s).
Proof.
  induction cols as [|j rest IH]; intros s; cbn [fill_cols_chk gfill_cols]; [reflexivity|].
  pose proof (fill_col_chk_refines fuel j r len n1 s) as R.
  destruct (fill_col_chk rndf fuel n1 j r len s) as [s'| | | |];
    cbn [refines] in R; cbn [bind]; try exact I; rewrite R; try reflexivity.
  apply IH.
Qed.

Lemma xstep1_chk_refines i k r m g added :
  refines (xstep1_chk rndf i k r m g added) (xstep1 rndf i k r m g added).
Proof.
  unfold xstep1_chk, xstep1.
  destruct (row_chk_cases m i) as [(_ & ->)|(_ & ->)]; cbn [bind]; [|exact I].
  destruct (nth i (rws m) []) as [|e t]; [|reflexivity].
  destruct (draw_cases g k) as [(_ & ->)|(_ & ->)]; cbn [bind]; [exact I|].
  destruct (rndf g k) as [[x g']|]; cbn [bind fst snd]; [|reflexivity].
  destruct (ins_chk_cases m i (x + r)) as [-> | ->]; cbn [bind]; [|exact I]. reflexivity.
Qed.

Lemma xstep2_chk_refines fuel i k r m1 g1 a1 :
  refines (xstep2_chk rndf fuel i k r m1 g1 a1) (xstep2 rndf fuel i k r m1 g1 a1).
Proof.
  unfold xstep2_chk, xstep2.
  destruct (row_chk_cases m1 i) as [(_ & ->)|(_ & ->)]; cbn [bind]; [|exact I].
  destruct (nth i (rws m1) []) as [|e [|e2 t]]; try reflexivity.
  destruct (1 <? k); [|reflexivity].
  pose proof (pick_other_chk_refines k r e fuel g1) as R.
  destruct (pick_other_chk rndf fuel k r e g1) as [[j g2]| | | |];
    cbn [refines] in R; cbn [bind]; try exact I; rewrite R; try reflexivity.
  cbn [fst snd].
  destruct (ins_chk_cases m1 i j) as [-> | ->]; cbn [bind]; [|exact I]. reflexivity.
Qed.

Theorem extra_rows_chk_refines fuel k r : forall rows m g added,
  refines (extra_rows_chk rndf fuel rows k r m g added) (gextra_rows rndf fuel rows k r m g added).
Proof.
  induction rows as [|i rest IH]; intros m g added; [reflexivity|].
  rewrite extra_rows_cons. cbn [extra_rows_chk].
  pose proof (xstep1_chk_refines i k r m g added) as R1.
  destruct (xstep1_chk rndf i k r m g added) as [[[m1 g1] a1]| | | |];
    cbn [refines] in R1; cbn [bind]; try exact I; rewrite R1; try reflexivity.
  cbn [fst snd].
  pose proof (xstep2_chk_refines fuel i k r m1 g1 a1) as R2.
  destruct (xstep2_chk rndf fuel i k r m1 g1 a1) as [[[m2 g2] a2]| | | |];
    cbn [refines] in R2; cbn [bind]; try exact I; rewrite R2; try reflexivity.
  cbn [fst snd]. apply IH.
Qed.

Theorem pchk_chk_refines fuel k r n1 seed g0 :
  refines (pchk_chk rndf srandf fuel k r n1 seed g0) (gpchk rndf srandf fuel k r n1 seed g0).
Proof.
  unfold pchk_chk, gpchk. destruct (r <? n1); [reflexivity|].
  destruct (srandf g0 seed) as [gs|]; [|reflexivity]. cbv zeta.
  set (s0 := {| lm := s_allocate r (k + r); lu := map (fun h => h mod r) (seq 0 (n1 * k)); lt := 0; lg := gs |}).
  pose proof (fill_cols_chk_refines fuel n1 r (n1 * k) (seq r k) s0) as R1.
  destruct (fill_cols_chk rndf fuel (seq r k) n1 r (n1 * k) s0) as [s| | | |];
    cbn [refines] in R1; cbn [bind]; try exact I; rewrite R1; try reflexivity.
  pose proof (extra_rows_chk_refines fuel k r (seq 0 r) (lm s) (lg s) 0) as R2.
  destruct (extra_rows_chk rndf fuel (seq 0 r) k r (lm s) (lg s) 0) as [[[m g'] added]| | | |];
    cbn [refines] in R2; cbn [bind]; try exact I; rewrite R2; try reflexivity.
  cbn [fst snd].
  destruct (staircase_chk_cases r m) as [-> | ->]; cbn [bind]; [|exact I]. reflexivity.
Qed.

Corollary pchk_chk_ok fuel k r n1 seed g0 x :
  pchk_chk rndf srandf fuel k r n1 seed g0 = Ok x -> gpchk rndf srandf fuel k r n1 seed g0 = Some x.
Proof. intros H. pose proof (pchk_chk_refines fuel k r n1 seed g0) as R. rewrite H in R. exact R. Qed.

Corollary pchk_chk_none fuel k r n1 seed g0 :
  pchk_chk rndf srandf fuel k r n1 seed g0 = OutOfFuel \/
  pchk_chk rndf srandf fuel k r n1 seed g0 = PrngUndefined \/
  pchk_chk rndf srandf fuel k r n1 seed g0 = Rejected ->
  gpchk rndf srandf fuel k r n1 seed g0 = None.
Proof.
  intros H. pose proof (pchk_chk_refines fuel k r n1 seed g0) as R.
  destruct H as [H|[H|H]]; rewrite H in R; exact R.
Qed.

End REF.

(* ---------- C3: safety ---------- *)

(* the deterministic pieces, inside the tables: the checked copy succeeds with the plain value *)
Lemma scan_ge m u j : forall cnt i, i <= scan m u j i cnt.
Proof.
  induction cnt as [|c IH]; intros i; cbn [scan]; [apply Nat.le_refl|].
  destruct (found m (nth i u 0) j); [|apply Nat.le_refl]. specialize (IH (S i)). lia.
Qed.

Lemma scan_chk_in r n m u j : 1 <= r -> MInv r n m -> uok r u -> j < n -> forall cnt i,
  i + cnt <= length u -> scan_chk m u j i cnt = Ok (scan m u j i cnt).
Proof.
  intros Hr (W & Er & Ec) Hu Hj. induction cnt as [|c IH]; intros i Hi; cbn [scan_chk scan]; [reflexivity|].
  rewrite rd_in by lia. cbn [bind].
  rewrite found_chk_in; [|exact W|rewrite Er; apply uok_nth; assumption|rewrite Ec; exact Hj]. cbn [bind].
  destruct (found m (nth i u 0) j); [|reflexivity]. apply IH. lia.
Qed.

Lemma stair_fold_in r n : r <= n -> forall cnt a acc, 1 <= a -> a + cnt <= r -> MInv r n acc ->
  foldC stair_step_chk (seq a cnt) acc =
  Ok (fold_left (fun acc i => ins (ins acc i i) i (i - 1)) (seq a cnt) acc).
Proof.
  intros Hrn. induction cnt as [|cnt IH]; intros a acc Ha Hac HM; cbn [seq foldC fold_left]; [reflexivity|].
  unfold stair_step_chk at 1.
  destruct (step_ins r n acc a a HM) as (HM1 & _).
  destruct (step_ins r n (ins acc a a) a (a - 1) HM1) as (HM2 & _).
  destruct HM as (W & Er & Ec). rewrite (ins_chk_in acc a a W) by lia. cbn [bind].
  destruct HM1 as (W1 & Er1 & Ec1). rewrite (ins_chk_in (ins acc a a) a (a - 1) W1) by lia. cbn [bind].
  apply IH; [lia|lia|exact HM2].
Qed.

Theorem staircase_chk_in r n m : 1 <= r -> r <= n -> MInv r n m -> staircase_chk r m = Ok (staircase r m).
Proof.
  intros Hr Hrn HM. unfold staircase_chk, staircase.
  destruct (step_ins r n m 0 0 HM) as (HM0 & _).
  destruct HM as (W & Er & Ec). rewrite (ins_chk_in m 0 0 W) by lia. cbn [bind].
  apply (stair_fold_in r n Hrn (r - 1) 1 (ins m 0 0)); [lia|lia|exact HM0].
Qed.

Section SAFE.
Variable rndf : Z -> nat -> option (nat * Z).
Variable srandf : Z -> Z -> option Z.

(* the hypotheses of PchkShape.v on the generator (good: invariant of its state; okmax: the bounds for
   which the range of a draw is known; pre: what the seeding needs), and okmax downward closed *)
Variable good : Z -> Prop.
Variable okmax : nat -> Prop.
Variable pre : Z -> Z -> Prop.
Hypothesis rnd_good : forall g maxv x g', good g -> rndf g maxv = Some (x, g') -> good g'.
Hypothesis rnd_range : forall g maxv x g', good g -> okmax maxv -> 1 <= maxv -> rndf g maxv = Some (x, g') -> x < maxv.
Hypothesis srand_good : forall g0 seed g, pre g0 seed -> srandf g0 seed = Some g -> good g.
Hypothesis okmax_le : forall a b, a <= b -> okmax b -> okmax a.

(* a draw with a known bound >= 1: never OutOfBounds, the value is below the bound *)
Lemma draw_post g maxv : good g -> okmax maxv -> 1 <= maxv ->
  post (fun p => fst p < maxv /\ good (snd p)) (draw rndf g maxv).
Proof.
  intros Hg Ho Hm. rewrite draw_pos by exact Hm.
  destruct (rndf g maxv) as [[x g']|] eqn:Er; cbn [post fst snd]; [|exact I].
  split; [exact (rnd_range _ _ _ _ Hg Ho Hm Er)|exact (rnd_good _ _ _ _ Hg Er)].
Qed.

(* i = t + rand(len - t) with t < len <= |u|: a draw is made with bound len - t >= 1, and t <= i < len *)
Lemma pick_u_chk_post r n m u j t len : 1 <= r -> MInv r n m -> uok r u -> j < n ->
  t < len -> len <= length u -> okmax (len - t) -> forall fuel g, good g ->
  post (fun p => t <= fst p < len /\ good (snd p)) (pick_u_chk rndf fuel m u j t len g).
Proof.
  intros Hr (W & Er & Ec) Hu Hj Ht Hlen Ho. induction fuel as [|f IH]; intros g Hg; cbn [pick_u_chk]; [exact I|].
  apply post_bind. eapply post_mono; [|exact (draw_post g (len - t) Hg Ho ltac:(lia))]. cbv beta.
  intros [x g'] (Hx & Hg'). cbn [fst snd] in *.
  rewrite rd_in by lia. cbn [bind].
  rewrite found_chk_in; [|exact W|rewrite Er; apply uok_nth; assumption|rewrite Ec; exact Hj]. cbn [bind].
  destruct (found m (nth (t + x) u 0) j); [apply IH; exact Hg'|].
  cbn [post fst snd]. split; [lia|exact Hg'].
Qed.

Lemma pick_row_chk_post r n m j : 1 <= r -> okmax r -> MInv r n m -> j < n -> forall fuel g, good g ->
  post (fun p => fst p < r /\ good (snd p)) (pick_row_chk rndf fuel m j r g).
Proof.
  intros Hr Ho (W & Er & Ec) Hj. induction fuel as [|f IH]; intros g Hg; cbn [pick_row_chk]; [exact I|].
  apply post_bind. eapply post_mono; [|exact (draw_post g r Hg Ho Hr)]. cbv beta.
  intros [x g'] (Hx & Hg'). cbn [fst snd] in *.
  rewrite found_chk_in; [|exact W|rewrite Er; exact Hx|rewrite Ec; exact Hj]. cbn [bind].
  destruct (found m x j); [apply IH; exact Hg'|].
  cbn [post fst snd]. split; [exact Hx|exact Hg'].
Qed.

Lemma pick_other_chk_post k r avoid : 1 <= k -> okmax k -> forall fuel g, good g ->
  post (fun p => r <= fst p < k + r /\ good (snd p)) (pick_other_chk rndf fuel k r avoid g).
Proof.
  intros Hk Ho. induction fuel as [|f IH]; intros g Hg; cbn [pick_other_chk]; [exact I|].
  apply post_bind. eapply post_mono; [|exact (draw_post g k Hg Ho Hk)]. cbv beta.
  intros [x g'] (Hx & Hg'). cbn [fst snd] in *.
  destruct (x + r =? avoid); [apply IH; exact Hg'|].
  cbn [post fst snd]. split; [lia|exact Hg'].
Qed.

(* the states of the column-filling loops: the matrix is a well-formed r x n matrix, u holds row numbers,
   u has at least len cells, the left limit t is at most len, the generator state is good *)
Definition SInv (r n len : nat) (s : lstate) : Prop :=
  MInv r n (lm s) /\ uok r (lu s) /\ len <= length (lu s) /\ lt s <= len /\ good (lg s).

Theorem fill_col_chk_safe fuel j r n len : 1 <= r -> j < n -> okmax r -> okmax len ->
  forall cnt s, SInv r n len s -> post (SInv r n len) (fill_col_chk rndf fuel cnt j r len s).
Proof.
  intros Hr Hj Hor Hol. induction cnt as [|c IH]; intros s HS; cbn [fill_col_chk]; [exact HS|].
  destruct HS as (HM & Hu & Hlen & Ht & Hg).
  rewrite (scan_chk_in r n (lm s) (lu s) j Hr HM Hu Hj) by lia. cbn [bind].
  pose proof (scan_ge (lm s) (lu s) j (len - lt s) (lt s)) as Hge.
  destruct (Nat.ltb_spec (scan (lm s) (lu s) j (lt s) (len - lt s)) len) as [Hlt|Hnlt].
  - (* valid choices remain: lt s < len *)
    apply post_bind. eapply post_mono; [|exact (pick_u_chk_post r n (lm s) (lu s) j (lt s) len Hr HM Hu Hj ltac:(lia) Hlen (okmax_le (len - lt s) len ltac:(lia) Hol) fuel (lg s) Hg)]. cbv beta.
    intros [i' g'] (Hi & Hg'). cbn [fst snd] in *.
    rewrite rd_in by lia. cbn [bind].
    pose proof (uok_nth r (lu s) i' Hr Hu) as Hrow.
    destruct (step_ins r n (lm s) (nth i' (lu s) 0) j HM) as (HM1 & _).
    destruct HM as (W & Er & Ec).
    rewrite ins_chk_in; [|exact W|rewrite Er; exact Hrow|rewrite Ec; exact Hj]. cbn [bind].
    rewrite rd_in by lia. cbn [bind]. rewrite wr_in by lia. cbn [bind].
    apply IH. unfold SInv. cbn [lm lu lt lg].
    split; [exact HM1|]. split; [apply uok_upd; [exact Hu|apply uok_nth; assumption]|].
    split; [rewrite upd_length; exact Hlen|]. split; [lia|exact Hg'].
  - (* no choice left *)
    apply post_bind. eapply post_mono; [|exact (pick_row_chk_post r n (lm s) j Hr Hor HM Hj fuel (lg s) Hg)]. cbv beta.
    intros [i' g'] (Hi & Hg'). cbn [fst snd] in *.
    destruct (step_ins r n (lm s) i' j HM) as (HM1 & _).
    destruct HM as (W & Er & Ec).
    rewrite ins_chk_in; [|exact W|rewrite Er; exact Hi|rewrite Ec; exact Hj]. cbn [bind].
    apply IH. unfold SInv. cbn [lm lu lt lg].
    split; [exact HM1|]. split; [exact Hu|]. split; [exact Hlen|]. split; [exact Ht|exact Hg'].
Qed.

Theorem fill_cols_chk_safe fuel r n n1 len : 1 <= r -> okmax r -> okmax len ->
  forall cols s, (forall c, In c cols -> c < n) -> SInv r n len s ->
  post (SInv r n len) (fill_cols_chk rndf fuel cols n1 r len s).
Proof.
  intros Hr Hor Hol. induction cols as [|j rest IH]; intros s Hc HS; cbn [fill_cols_chk]; [exact HS|].
  apply post_bind.
  eapply post_mono; [|exact (fill_col_chk_safe fuel j r n len Hr (Hc j (or_introl eq_refl)) Hor Hol n1 s HS)].
  cbv beta. intros s' HS'. apply IH; [|exact HS']. intros c Hin. apply Hc. now right.
Qed.

(* the extra-entry pass *)
Definition XInv (r n : nat) (x : smat * Z * nat) : Prop := MInv r n (fst (fst x)) /\ good (snd (fst x)).

Lemma xstep1_chk_post i k r n m g added : n = k + r -> 1 <= k -> okmax k -> i < r -> MInv r n m -> good g ->
  post (XInv r n) (xstep1_chk rndf i k r m g added).
Proof.
  intros En Hk Ho Hi HM Hg. unfold xstep1_chk.
  assert (Hl : i < length (rws m)) by (destruct HM as (W & Er & _); rewrite (wf_rl m W), Er; exact Hi).
  rewrite (row_chk_in m i Hl). cbn [bind].
  destruct (nth i (rws m) []) as [|e t]; [|split; [exact HM|exact Hg]].
  apply post_bind. eapply post_mono; [|exact (draw_post g k Hg Ho Hk)]. cbv beta.
  intros [x g'] (Hx & Hg'). cbn [fst snd] in *.
  destruct (step_ins r n m i (x + r) HM) as (HM1 & _).
  destruct HM as (W & Er & Ec). rewrite ins_chk_in; [|exact W|lia|lia]. cbn [bind].
  split; [exact HM1|exact Hg'].
Qed.

Lemma xstep2_chk_post fuel i k r n m1 g1 a1 : n = k + r -> 1 <= k -> okmax k -> i < r -> MInv r n m1 -> good g1 ->
  post (XInv r n) (xstep2_chk rndf fuel i k r m1 g1 a1).
Proof.
  intros En Hk Ho Hi HM Hg. unfold xstep2_chk.
  assert (Hl : i < length (rws m1)) by (destruct HM as (W & Er & _); rewrite (wf_rl m1 W), Er; exact Hi).
  rewrite (row_chk_in m1 i Hl). cbn [bind].
  destruct (nth i (rws m1) []) as [|e [|e2 t]]; try (split; [exact HM|exact Hg]).
  destruct (1 <? k); [|split; [exact HM|exact Hg]].
  apply post_bind. eapply post_mono; [|exact (pick_other_chk_post k r e Hk Ho fuel g1 Hg)]. cbv beta.
  intros [j g2] (Hj & Hg2). cbn [fst snd] in *.
  destruct (step_ins r n m1 i j HM) as (HM2 & _).
  destruct HM as (W & Er & Ec). rewrite ins_chk_in; [|exact W|lia|lia]. cbn [bind].
  split; [exact HM2|exact Hg2].
Qed.

Theorem extra_rows_chk_safe fuel k r n : n = k + r -> 1 <= k -> okmax k ->
  forall rows m g added, (forall i, In i rows -> i < r) -> MInv r n m -> good g ->
  post (XInv r n) (extra_rows_chk rndf fuel rows k r m g added).
Proof.
  intros En Hk Ho. induction rows as [|i rest IH]; intros m g added Hrows HM Hg; cbn [extra_rows_chk].
  { split; [exact HM|exact Hg]. }
  assert (Hi : i < r) by (apply Hrows; now left).
  apply post_bind. eapply post_mono; [|exact (xstep1_chk_post i k r n m g added En Hk Ho Hi HM Hg)]. cbv beta.
  intros [[m1 g1] a1] (HM1 & Hg1). cbn [fst snd] in *.
  apply post_bind. eapply post_mono; [|exact (xstep2_chk_post fuel i k r n m1 g1 a1 En Hk Ho Hi HM1 Hg1)]. cbv beta.
  intros [[m2 g2] a2] (HM2 & Hg2). cbn [fst snd] in *.
  apply IH; [|exact HM2|exact Hg2]. intros i0 Hi0. apply Hrows. now right.
Qed.

(* the whole construction: for every fuel, never OutOfBounds, and an Ok result is a well-formed
   r x (k + r) matrix *)
Theorem pchk_chk_safe fuel k r n1 seed g0 : 1 <= k -> 1 <= r ->
  pre g0 seed -> okmax k -> okmax r -> okmax (n1 * k) ->
  post (fun x => MInv r (k + r) (fst (fst x))) (pchk_chk rndf srandf fuel k r n1 seed g0).
Proof.
  intros Hk Hr Hpre Hok Hor Hol. unfold pchk_chk. destruct (r <? n1); [exact I|].
  destruct (srandf g0 seed) as [gs|] eqn:Es; [|exact I]. cbv zeta.
  set (s0 := {| lm := s_allocate r (k + r); lu := map (fun h => h mod r) (seq 0 (n1 * k)); lt := 0; lg := gs |}).
  assert (HS0 : SInv r (k + r) (n1 * k) s0).
  { unfold SInv, s0. cbn [lm lu lt lg]. destruct (allocate_wf r (k + r)) as (W0 & _).
    split; [split; [exact W0|split; reflexivity]|]. split; [apply uok_init; exact Hr|].
    split; [rewrite map_length, seq_length; apply Nat.le_refl|]. split; [lia|exact (srand_good _ _ _ Hpre Es)]. }
  apply post_bind. eapply post_mono; [|exact (fill_cols_chk_safe fuel r (k + r) n1 (n1 * k) Hr Hor Hol (seq r k) s0 ltac:(intros c Hc; apply in_seq in Hc; lia) HS0)]. cbv beta.
  intros s (HM & _ & _ & _ & Hg).
  apply post_bind. eapply post_mono; [|exact (extra_rows_chk_safe fuel k r (k + r) eq_refl Hk Hok (seq 0 r) (lm s) (lg s) 0 ltac:(intros i Hi; apply in_seq in Hi; lia) HM Hg)]. cbv beta.
  intros [[m g'] added] (HM2 & _). cbn [fst snd] in *.
  rewrite (staircase_chk_in r (k + r) m Hr ltac:(lia) HM2). cbn [bind post fst].
  apply (staircase_spec r (k + r) m Hr ltac:(lia) HM2).
Qed.

Corollary pchk_chk_never_oob fuel k r n1 seed g0 : 1 <= k -> 1 <= r ->
  pre g0 seed -> okmax k -> okmax r -> okmax (n1 * k) ->
  pchk_chk rndf srandf fuel k r n1 seed g0 <> OutOfBounds.
Proof. intros Hk Hr Hpre Hok Hor Hol. exact (post_not_oob _ _ (pchk_chk_safe fuel k r n1 seed g0 Hk Hr Hpre Hok Hor Hol)). Qed.

(* hence the plain model and the checked copy agree whenever the plain model returns a matrix *)
Corollary pchk_chk_complete fuel k r n1 seed g0 x : 1 <= k -> 1 <= r ->
  pre g0 seed -> okmax k -> okmax r -> okmax (n1 * k) ->
  gpchk rndf srandf fuel k r n1 seed g0 = Some x -> pchk_chk rndf srandf fuel k r n1 seed g0 = Ok x.
Proof.
  intros Hk Hr Hpre Hok Hor Hol Hp.
  pose proof (pchk_chk_never_oob fuel k r n1 seed g0 Hk Hr Hpre Hok Hor Hol) as Hn.
  pose proof (pchk_chk_refines rndf srandf fuel k r n1 seed g0) as R.
  destruct (pchk_chk rndf srandf fuel k r n1 seed g0) as [y| | | |]; cbn [refines] in R;
    try congruence.
Qed.

End SAFE.

(* ---------- C3 under the bare range hypothesis (instance good := True, okmax := True) ---------- *)
Section RANGE.
Variable rndf : Z -> nat -> option (nat * Z).
Variable srandf : Z -> Z -> option Z.
Hypothesis rnd_range : forall g maxv x g', 1 <= maxv -> rndf g maxv = Some (x, g') -> x < maxv.

Let goodT : Z -> Prop := fun _ => True.
Let okT : nat -> Prop := fun _ => True.
Let preT : Z -> Z -> Prop := fun _ _ => True.
Let hT1 : forall g maxv x g', goodT g -> rndf g maxv = Some (x, g') -> goodT g'.
Proof. intros; exact I. Qed.
Let hT2 : forall g maxv x g', goodT g -> okT maxv -> 1 <= maxv -> rndf g maxv = Some (x, g') -> x < maxv.
Proof. intros g1 maxv x g' _ _ Hm E. exact (rnd_range g1 maxv x g' Hm E). Qed.
Let hT3 : forall g0 seed g, preT g0 seed -> srandf g0 seed = Some g -> goodT g.
Proof. intros; exact I. Qed.
Let hT4 : forall a b, a <= b -> okT b -> okT a.
Proof. intros; exact I. Qed.

(* the u-table part on its own: from a state with a well-formed r x n matrix, row numbers in u,
   len <= |u| and t <= len, the N1 insertions of column j < n never leave u or the matrix *)
Theorem fill_col_chk_never_oob_range fuel cnt j r n len s : 1 <= r -> j < n ->
  MInv r n (lm s) -> uok r (lu s) -> len <= length (lu s) -> lt s <= len ->
  fill_col_chk rndf fuel cnt j r len s <> OutOfBounds.
Proof.
  intros Hr Hj HM Hu Hl Ht.
  apply (post_not_oob (SInv goodT r n len)).
  apply (fill_col_chk_safe rndf goodT okT hT1 hT2 hT4 fuel j r n len Hr Hj I I cnt s).
  split; [exact HM|]. split; [exact Hu|]. split; [exact Hl|]. split; [exact Ht|exact I].
Qed.

Theorem fill_cols_chk_never_oob_range fuel cols n1 r n len s : 1 <= r -> (forall c, In c cols -> c < n) ->
  MInv r n (lm s) -> uok r (lu s) -> len <= length (lu s) -> lt s <= len ->
  fill_cols_chk rndf fuel cols n1 r len s <> OutOfBounds.
Proof.
  intros Hr Hc HM Hu Hl Ht.
  apply (post_not_oob (SInv goodT r n len)).
  apply (fill_cols_chk_safe rndf goodT okT hT1 hT2 hT4 fuel r n n1 len Hr I I cols s Hc).
  split; [exact HM|]. split; [exact Hu|]. split; [exact Hl|]. split; [exact Ht|exact I].
Qed.

Theorem pchk_chk_never_oob_range fuel k r n1 seed g0 : 1 <= k -> 1 <= r ->
  pchk_chk rndf srandf fuel k r n1 seed g0 <> OutOfBounds.
Proof.
  intros Hk Hr.
  exact (pchk_chk_never_oob rndf srandf goodT okT preT hT1 hT2 hT3 hT4 fuel k r n1 seed g0 Hk Hr I I I I).
Qed.

Theorem pchk_chk_complete_range fuel k r n1 seed g0 x : 1 <= k -> 1 <= r ->
  gpchk rndf srandf fuel k r n1 seed g0 = Some x -> pchk_chk rndf srandf fuel k r n1 seed g0 = Ok x.
Proof.
  intros Hk Hr.
  exact (pchk_chk_complete rndf srandf goodT okT preT hT1 hT2 hT3 hT4 fuel k r n1 seed g0 x Hk Hr I I I I).
Qed.

End RANGE.

(* ---------- C4: closed examples ---------- *)
(* a toy generator (NOT the RFC 5170 one): it satisfies the range hypothesis, so the hypotheses of
   Section RANGE are satisfiable; with maxv = 0 it returns its state, as any value would do *)
Definition toy (g : Z) (maxv : nat) : option (nat * Z) := Some (Z.to_nat (g mod Z.of_nat maxv), (g + 1)%Z).
Definition toy_srand (g0 seed : Z) : option Z := Some seed.

Lemma toy_range : forall g maxv x g', 1 <= maxv -> toy g maxv = Some (x, g') -> x < maxv.
Proof.
  intros g maxv x g' Hm E. unfold toy in E. inversion E; subst.
  pose proof (Z.mod_pos_bound g (Z.of_nat maxv) ltac:(lia)) as Hb. lia.
Qed.

Theorem toy_pchk_never_oob fuel k r n1 seed g0 : 1 <= k -> 1 <= r ->
  pchk_chk toy toy_srand fuel k r n1 seed g0 <> OutOfBounds.
Proof. exact (pchk_chk_never_oob_range toy toy_srand toy_range fuel k r n1 seed g0). Qed.

(* a run inside the hypotheses: k = 4, r = 3, N1 = 3; the checked copy and the plain model agree *)
Example ex_ok : exists x, pchk_chk toy toy_srand 20 4 3 3 5 1 = Ok x /\ gpchk toy toy_srand 20 4 3 3 5 1 = Some x.
Proof. eexists. split; vm_compute; reflexivity. Qed.
Example ex_rejected : pchk_chk toy toy_srand 20 4 3 4 5 1 = Rejected.
Proof. vm_compute. reflexivity. Qed.
Example ex_fuel : pchk_chk toy toy_srand 1 4 3 3 5 1 = OutOfFuel.
Proof. vm_compute. reflexivity. Qed.

(* the scan loop on a table shorter than its bound: u[1] does not exist; the plain model reads 0 *)
Example ex_scan_short_table :
  scan_chk (ins (s_allocate 2 3) 0 2) [0] 2 0 2 = OutOfBounds /\ scan (ins (s_allocate 2 3) 0 2) [0] 2 0 2 = 2.
Proof. split; vm_compute; reflexivity. Qed.

Definition ex_state (u : list nat) (t : nat) (g : Z) : lstate := {| lm := s_allocate 2 4; lu := u; lt := t; lg := g |}.

(* len = 4 but u has 2 cells: i = t + rand(4) = 3 is outside u; the plain model goes on and returns a state *)
Example ex_fill_col_short_table :
  fill_col_chk toy 10 2 2 2 4 (ex_state [0; 1] 0 3) = OutOfBounds /\
  exists s', gfill_col toy 10 2 2 2 4 (ex_state [0; 1] 0 3) = Some s'.
Proof. split; [vm_compute; reflexivity|eexists; vm_compute; reflexivity]. Qed.

(* the same call with the 4 cells: fine *)
Example ex_fill_col_full_table : exists s',
  fill_col_chk toy 10 2 2 2 4 (ex_state [0; 1; 0; 1] 0 3) = Ok s' /\
  gfill_col toy 10 2 2 2 4 (ex_state [0; 1; 0; 1] 0 3) = Some s'.
Proof. eexists. split; vm_compute; reflexivity. Qed.

(* an entry of u that is not a row number: of_mod2sparse_find / insert are called with row 7 of a
   2-row matrix; the plain model reads "not found", drops the insertion and still advances t *)
Example ex_fill_col_bad_entry :
  fill_col_chk toy 10 1 2 2 4 (ex_state [0; 7; 0; 1] 0 1) = OutOfBounds /\
  exists s', gfill_col toy 10 1 2 2 4 (ex_state [0; 7; 0; 1] 0 1) = Some s' /\ lt s' = 1 /\ rws (lm s') = [[]; []].
Proof. split; [vm_compute; reflexivity|eexists; vm_compute; repeat split; reflexivity]. Qed.

(* the left limit t at len (resp. beyond): the draw would be rand(0) *)
Example ex_pick_u_t_eq_len :
  pick_u_chk toy 5 (s_allocate 2 4) [0; 1; 0; 1] 2 4 4 7 = OutOfBounds /\
  gpick_u toy 5 (s_allocate 2 4) [0; 1; 0; 1] 2 4 4 7 = Some (11, 8%Z).
Proof. split; vm_compute; reflexivity. Qed.
Example ex_pick_u_t_beyond_len :
  pick_u_chk toy 5 (s_allocate 2 4) [0; 1; 0; 1] 2 5 4 7 = OutOfBounds /\
  gpick_u toy 5 (s_allocate 2 4) [0; 1; 0; 1] 2 5 4 7 = Some (12, 8%Z).
Proof. split; vm_compute; reflexivity. Qed.

(* a staircase of 3 rows on a 2-row matrix; a row list that runs past the matrix *)
Example ex_staircase_short_matrix :
  staircase_chk 3 (s_allocate 2 5) = OutOfBounds /\ rws (staircase 3 (s_allocate 2 5)) = [[0]; [0; 1]].
Proof. split; vm_compute; reflexivity. Qed.
Example ex_extra_rows_past_matrix :
  extra_rows_chk toy 5 [0; 1; 2] 2 2 (s_allocate 2 4) 1 0 = OutOfBounds /\
  exists x, gextra_rows toy 5 [0; 1; 2] 2 2 (s_allocate 2 4) 1 0 = Some x.
Proof. split; [vm_compute; reflexivity|eexists; vm_compute; reflexivity]. Qed.

(* k = 0 (outside 1 <= k): the extra-entry pass calls rand(0); the plain model returns a matrix *)
Example ex_pchk_k0 :
  pchk_chk toy toy_srand 20 0 2 1 5 1 = OutOfBounds /\ exists x, gpchk toy toy_srand 20 0 2 1 5 1 = Some x.
Proof. split; [vm_compute; reflexivity|eexists; vm_compute; reflexivity]. Qed.

(* ---------- Print Assumptions: every theorem below is closed under the global context ---------- *)
Print Assumptions pchk_chk_refines.
Print Assumptions fill_col_chk_refines.
Print Assumptions fill_col_chk_safe.
Print Assumptions fill_cols_chk_safe.
Print Assumptions extra_rows_chk_safe.
Print Assumptions staircase_chk_in.
Print Assumptions pchk_chk_safe.
Print Assumptions pchk_chk_never_oob.
Print Assumptions pchk_chk_complete.
Print Assumptions pchk_chk_never_oob_range.
Print Assumptions pchk_chk_complete_range.
Print Assumptions toy_pchk_never_oob.
Print Assumptions ex_fill_col_short_table.
Print Assumptions ex_pchk_k0.
