(* End-to-end theorems: from accepted parameters to recovered source symbols.

   LDPC-Staircase:  accept_ldpc (Params.v, the parameter decisions of of_set_fec_parameters)
                    -> pchk (Pchk.v, the parity-check matrix H the codec builds, PchkConcrete.v: its shape)
                    -> encode_all (LdpcEnc.v, the repair symbols the encoder builds from the sources)
                    -> run (ITProofs.v, the streaming decoder over any received history)
                    -> ml_finish (MLModel.v, of_finish_decoding) -> the source symbols held at the end.
   2D parity:       the same chain with H := rows2d d l (Pchk2D.v), either for 1 <= d, 1 <= l or
                    starting from create2d nb_rows nb_cols = Some (d, l, m).

   Nothing new is proved about the components; the file composes the closed theorems
   accept_ldpc_valid_proof, pchk_decoder_premises, ldpc_encode_zero_sum_proof, ldpc_session_finish,
   ldpc_session_total, it_closure_full, run_complete_flag, run_values, create2d_spec and the p2d_* shape
   lemmas.  The only glue is: LdpcEnc.rowsum and ITProofs.xs are the same function (codeword_parity), and
   the nat/Z bounds between Params (Z) and Pchk (nat). *)
From Coq Require Import ZArith List Arith Bool Lia ZifyBool.
From OFV Require Import XorGroup ITModel ITLemmas ITProofs ITCorollaries MLModel MLFinish MLSession LdpcEnc.
From OFV Require Import Params ParamsProofs Pchk PchkConcrete Pchk2D P2DProofs.
From OFV Require Sparse Prng.
From OFV.gen Require Import GenConsts.
Import ListNotations.

(* ============================================================================================ *)
(* The codeword of a source vector, and the generic chain for any matrix with the seven premises *)
(* ============================================================================================ *)
Section Sym.
Variable Sy : Type. Variable sxor : Sy -> Sy -> Sy. Variable s0 : Sy.
Hypothesis sxor_assoc : forall a b c, sxor a (sxor b c) = sxor (sxor a b) c.
Hypothesis sxor_comm : forall a b, sxor a b = sxor b a.
Hypothesis sxor_0_l : forall a, sxor s0 a = a.
Hypothesis sxor_nilp : forall a, sxor a a = s0.
Hypothesis Sy_nontrivial : exists a : Sy, a <> s0.

(* srcs gives the source symbol of column c >= r; what it says below r is overwritten *)
Definition codeword (r : nat) (H : list (list nat)) (srcs : nat -> Sy) : nat -> Sy :=
  encode_all Sy sxor s0 r H srcs.

(* the encoder's row sum and the decoder's row sum are the same function *)
Lemma rowsum_is_xs (t : nat -> Sy) (row : list nat) : rowsum Sy sxor s0 t row = xs Sy sxor s0 t row.
Proof. reflexivity. Qed.

(* E1 *)
Lemma codeword_parity_s r H srcs : stair r H ->
  forall i, i < r -> xs Sy sxor s0 (codeword r H srcs) (nth i H []) = s0.
Proof.
  intros Hst i Hi. rewrite <- rowsum_is_xs. unfold codeword.
  exact (proj1 (ldpc_encode_zero_sum_proof Sy sxor s0 sxor_assoc sxor_comm sxor_nilp r H srcs Hst) i Hi).
Qed.

(* E1' *)
Lemma codeword_sources_s r H srcs c : r <= c -> codeword r H srcs c = srcs c.
Proof. intros Hc. unfold codeword, encode_all. apply (encode_prefix Sy sxor s0 H). right. simpl. exact Hc. Qed.

Section Generic.
Variable H : list (list nat).
Variables r N : nat.
Hypothesis H_len : length H = r.
Hypothesis H_nodup : forall i, i < r -> NoDup (nth i H []).
Hypothesis H_range : forall i c, i < r -> In c (nth i H []) -> c < N.
Hypothesis H_deg : forall i, i < r -> 2 <= length (nth i H []).
Hypothesis r_le_N : r <= N.
Hypothesis H_cols : forall c, c < N -> exists i, i < r /\ In c (nth i H []).
Hypothesis H_stair : stair r H.
Variable srcs : nat -> Sy.

Lemma gen_end_to_end : forall (hist : list (nat * Sy)) (s : st Sy) fuel' perm (o : outcome Sy),
  (forall ev, In ev hist -> fst ev < N /\ snd ev = codeword r H srcs (fst ev)) ->
  run Sy sxor s0 H r N (S N) hist = Some s -> N < fuel' -> (forall c, c < r -> In c perm) -> (forall c, In c perm -> c < r) ->
  ml_finish sxor s0 fuel' perm s = Some o ->
  (forall c v, r <= c < N -> nth c (tab (o_st o)) None = Some v -> v = srcs c) /\
  (o_ok o = true <-> forall c, r <= c < N -> known (o_st o) c = true) /\
  ((forall c, r <= c < N -> known (o_st o) c = true) <->
   (forall z : nat -> bool, (forall i, i < r -> fold_right xorb false (map z (nth i H [])) = false) ->
      (forall c, In c (map fst hist) -> z c = false) -> forall c, r <= c < N -> z c = false)).
Proof.
  intros hist s fuel' perm o Hh Hrun Hf Hp1 Hp2 Ho.
  destruct (ldpc_session_finish Sy sxor s0 sxor_assoc sxor_comm sxor_0_l sxor_nilp H r N
              H_len H_nodup H_range H_deg r_le_N H_cols H_stair Sy_nontrivial
              (codeword r H srcs) (codeword_parity_s r H srcs H_stair)
              hist s fuel' perm o Hh Hrun Hf Hp1 Hp2 Ho) as (V & _ & OK & D).
  split; [|split; [exact OK|exact D]].
  intros c v Hc Hv. rewrite (V c v Hv). apply codeword_sources_s. apply Hc.
Qed.

Lemma gen_end_to_end_total : forall (hist : list (nat * Sy)) fuel' perm,
  (forall ev, In ev hist -> fst ev < N /\ snd ev = codeword r H srcs (fst ev)) ->
  N < fuel' -> (forall c, c < r -> In c perm) -> (forall c, In c perm -> c < r) ->
  exists (s : st Sy) (o : outcome Sy), run Sy sxor s0 H r N (S N) hist = Some s /\ ml_finish sxor s0 fuel' perm s = Some o.
Proof.
  exact (ldpc_session_total Sy sxor s0 sxor_assoc sxor_comm sxor_0_l sxor_nilp H r N
           H_len H_nodup H_range H_deg r_le_N H_cols H_stair Sy_nontrivial
           (codeword r H srcs) (codeword_parity_s r H srcs H_stair)).
Qed.

(* every source symbol received: the streaming decoder alone is complete and holds the originals *)
Lemma gen_sources_received : forall (hist : list (nat * Sy)),
  (forall ev, In ev hist -> fst ev < N /\ snd ev = codeword r H srcs (fst ev)) ->
  (forall c, r <= c < N -> In c (map fst hist)) ->
  exists s : st Sy, run Sy sxor s0 H r N (S N) hist = Some s /\ fst (is_complete s) = true /\
    forall c, r <= c < N -> nth c (tab s) None = Some (srcs c).
Proof.
  intros hist Hh Hall.
  assert (Hr : forall ev, In ev hist -> fst ev < N) by (intros ev Hev; apply (Hh ev Hev)).
  destruct (it_closure_full Sy sxor s0 H r N H_len H_nodup H_range H_deg r_le_N hist Hr) as (s & Hs & Hk & _).
  exists s. split; [exact Hs|].
  assert (Hsrc : forall c, r <= c < N -> known s c = true).
  { intros c Hc. apply (Hk c Hc). apply peel_recv. apply Hall. exact Hc. }
  split.
  - apply (run_complete_flag Sy sxor s0 H r N H_len H_nodup H_range H_deg r_le_N (S N) hist s Hr Hs). exact Hsrc.
  - intros c Hc. pose proof (Hsrc c Hc) as Hkc. unfold known in Hkc.
    destruct (nth c (tab s) None) as [v|] eqn:Ev; [|discriminate Hkc].
    rewrite (run_values Sy sxor s0 H r N H_len H_nodup H_range H_deg r_le_N sxor_assoc sxor_comm sxor_0_l sxor_nilp
               (codeword r H srcs) (codeword_parity_s r H srcs H_stair) (S N) hist s Hh Hs c v Ev).
    f_equal. apply codeword_sources_s. apply Hc.
Qed.
End Generic.

(* ============================================================================================ *)
(* LDPC-Staircase                                                                                *)
(* ============================================================================================ *)
Section LDPC.
Variables (k r n1 : nat) (L seed g0 : Z) (fuel : nat) (m : Sparse.smat) (extra : bool) (g : Z).
Hypothesis Hacc : accept_ldpc (Z.of_nat k) (Z.of_nat r) L (Z.of_nat n1) seed = true.
Hypothesis Hpchk : pchk fuel k r n1 seed g0 = Some (m, extra, g).

(* accepted parameters, seen from the nat side *)
Lemma accepted_nat : 1 <= k /\ 3 <= n1 /\ n1 <= r /\ (Z.of_nat (k + r) <= 50000)%Z /\ (1 <= seed <= 2147483646)%Z.
Proof.
  assert (Hk : (Z.of_nat k <= 50000)%Z /\ (Z.of_nat r <= 50000)%Z).
  { pose proof Hacc as Ha. unfold accept_ldpc, c_ldpc_max_k, c_ldpc_max_n in Ha.
    generalize dependent (u32 (Z.of_nat k + Z.of_nat r)). intros u Ha. lia. }
  destruct Hk as (Hk & Hr).
  assert (P32 : (2 ^ 32 = 4294967296)%Z) by reflexivity.
  destruct (accept_ldpc_valid_proof (Z.of_nat k) (Z.of_nat r) L (Z.of_nat n1) seed) as (A & B & _ & D & E).
  - rewrite P32. lia.
  - rewrite P32. lia.
  - exact Hacc.
  - split; [lia|]. split; [lia|]. split; [lia|]. split; [lia|exact D].
Qed.

Lemma ldpc_premises :
  length (Sparse.rws m) = r /\
  (forall i, i < r -> NoDup (nth i (Sparse.rws m) [])) /\
  (forall i c, i < r -> In c (nth i (Sparse.rws m) []) -> c < k + r) /\
  (forall i, i < r -> 2 <= length (nth i (Sparse.rws m) [])) /\
  r <= k + r /\
  (forall c, c < k + r -> exists i, i < r /\ In c (nth i (Sparse.rws m) [])) /\
  stair r (Sparse.rws m).
Proof.
  destruct accepted_nat as (A & B & C & D & E).
  assert (P24 : (2 ^ 24 = 16777216)%Z) by reflexivity.
  apply (pchk_decoder_premises fuel k r n1 seed g0 m extra g).
  - exact A.
  - lia.
  - rewrite P24. lia.
  - rewrite P24. lia.
  - unfold Prng.PM_P. lia.
  - exact Hpchk.
  - lia.
Qed.
End LDPC.
End Sym.

(* ============================================================================================ *)
(* Closed statements                                                                             *)
(* ============================================================================================ *)
Section Closed.
Variable Sy : Type. Variable sxor : Sy -> Sy -> Sy. Variable s0 : Sy.
Hypothesis sxor_assoc : forall a b c, sxor a (sxor b c) = sxor (sxor a b) c.
Hypothesis sxor_comm : forall a b, sxor a b = sxor b a.
Hypothesis sxor_0_l : forall a, sxor s0 a = a.
Hypothesis sxor_nilp : forall a, sxor a a = s0.
Hypothesis Sy_nontrivial : exists a : Sy, a <> s0.
Notation codeword := (codeword Sy sxor s0).

(* E1: the encoder's output satisfies every parity equation, in the form the decoder theorems ask for *)
Theorem codeword_parity : forall r H (srcs : nat -> Sy), stair r H ->
  forall i, i < r -> xs Sy sxor s0 (codeword r H srcs) (nth i H []) = s0.
Proof. exact (codeword_parity_s Sy sxor s0 sxor_assoc sxor_comm sxor_nilp). Qed.

(* E1': ... and leaves the source symbols alone *)
Theorem codeword_sources : forall r H (srcs : nat -> Sy) c, r <= c -> codeword r H srcs c = srcs c.
Proof. exact (codeword_sources_s Sy sxor s0). Qed.

(* E2 *)
Theorem ldpc_end_to_end : forall (k r n1 : nat) (L seed g0 : Z) fuel m extra g,
  accept_ldpc (Z.of_nat k) (Z.of_nat r) L (Z.of_nat n1) seed = true -> pchk fuel k r n1 seed g0 = Some (m, extra, g) ->
  let H := Sparse.rws m in let N := k + r in
  forall (srcs : nat -> Sy) (hist : list (nat * Sy)) (s : st Sy) fuel' perm (o : outcome Sy),
  (forall ev, In ev hist -> fst ev < N /\ snd ev = codeword r H srcs (fst ev)) ->   (* any received multiset, any order, of encoded symbols *)
  run Sy sxor s0 H r N (S N) hist = Some s -> N < fuel' -> (forall c, c < r -> In c perm) -> (forall c, In c perm -> c < r) ->
  ml_finish sxor s0 fuel' perm s = Some o ->
  (* every source symbol the decoder holds is the original one *)
  (forall c v, r <= c < N -> nth c (tab (o_st o)) None = Some v -> v = srcs c) /\
  (* status OK <-> all sources recovered <-> they are determined by the received set *)
  (o_ok o = true <-> forall c, r <= c < N -> known (o_st o) c = true) /\
  ((forall c, r <= c < N -> known (o_st o) c = true) <->
   (forall z : nat -> bool, (forall i, i < r -> fold_right xorb false (map z (nth i H [])) = false) ->
      (forall c, In c (map fst hist) -> z c = false) -> forall c, r <= c < N -> z c = false)).
Proof.
  intros k r n1 L seed g0 fuel m extra g Hacc Hp H N srcs.
  destruct (ldpc_premises k r n1 L seed g0 fuel m extra g Hacc Hp) as (P1 & P2 & P3 & P4 & P5 & P6 & P7).
  exact (gen_end_to_end Sy sxor s0 sxor_assoc sxor_comm sxor_0_l sxor_nilp Sy_nontrivial H r N P1 P2 P3 P4 P5 P6 P7 srcs).
Qed.

(* E3: the whole session always produces an outcome *)
Theorem ldpc_end_to_end_total : forall (k r n1 : nat) (L seed g0 : Z) fuel m extra g,
  accept_ldpc (Z.of_nat k) (Z.of_nat r) L (Z.of_nat n1) seed = true -> pchk fuel k r n1 seed g0 = Some (m, extra, g) ->
  let H := Sparse.rws m in let N := k + r in
  forall (srcs : nat -> Sy) (hist : list (nat * Sy)) fuel' perm,
  (forall ev, In ev hist -> fst ev < N /\ snd ev = codeword r H srcs (fst ev)) ->
  N < fuel' -> (forall c, c < r -> In c perm) -> (forall c, In c perm -> c < r) ->
  exists (s : st Sy) (o : outcome Sy), run Sy sxor s0 H r N (S N) hist = Some s /\ ml_finish sxor s0 fuel' perm s = Some o.
Proof.
  intros k r n1 L seed g0 fuel m extra g Hacc Hp H N srcs.
  destruct (ldpc_premises k r n1 L seed g0 fuel m extra g Hacc Hp) as (P1 & P2 & P3 & P4 & P5 & P6 & P7).
  exact (gen_end_to_end_total Sy sxor s0 sxor_assoc sxor_comm sxor_0_l sxor_nilp Sy_nontrivial H r N P1 P2 P3 P4 P5 P6 P7 srcs).
Qed.

(* E4 (general form): every SOURCE symbol received, whatever else is lost *)
Theorem ldpc_sources_received_recovers : forall (k r n1 : nat) (L seed g0 : Z) fuel m extra g,
  accept_ldpc (Z.of_nat k) (Z.of_nat r) L (Z.of_nat n1) seed = true -> pchk fuel k r n1 seed g0 = Some (m, extra, g) ->
  let H := Sparse.rws m in let N := k + r in
  forall (srcs : nat -> Sy) (hist : list (nat * Sy)),
  (forall ev, In ev hist -> fst ev < N /\ snd ev = codeword r H srcs (fst ev)) ->
  (forall c, r <= c < N -> In c (map fst hist)) ->
  exists s : st Sy, run Sy sxor s0 H r N (S N) hist = Some s /\ fst (is_complete s) = true /\
    forall c, r <= c < N -> nth c (tab s) None = Some (srcs c).
Proof.
  intros k r n1 L seed g0 fuel m extra g Hacc Hp H N srcs.
  destruct (ldpc_premises k r n1 L seed g0 fuel m extra g Hacc Hp) as (P1 & P2 & P3 & P4 & P5 & P6 & P7).
  exact (gen_sources_received Sy sxor s0 sxor_assoc sxor_comm sxor_0_l sxor_nilp H r N P1 P2 P3 P4 P5 P7 srcs).
Qed.

(* E4: nothing lost -> the streaming decoder alone is complete and holds every source symbol *)
Theorem ldpc_all_received_recovers : forall (k r n1 : nat) (L seed g0 : Z) fuel m extra g,
  accept_ldpc (Z.of_nat k) (Z.of_nat r) L (Z.of_nat n1) seed = true -> pchk fuel k r n1 seed g0 = Some (m, extra, g) ->
  let H := Sparse.rws m in let N := k + r in
  forall (srcs : nat -> Sy) (hist : list (nat * Sy)),
  (forall ev, In ev hist -> fst ev < N /\ snd ev = codeword r H srcs (fst ev)) ->
  (forall c, c < N -> In c (map fst hist)) ->
  exists s : st Sy, run Sy sxor s0 H r N (S N) hist = Some s /\ fst (is_complete s) = true /\
    forall c, r <= c < N -> nth c (tab s) None = Some (srcs c).
Proof.
  intros k r n1 L seed g0 fuel m extra g Hacc Hp H N srcs hist Hh Hall.
  apply (ldpc_sources_received_recovers k r n1 L seed g0 fuel m extra g Hacc Hp srcs hist Hh).
  intros c Hc. apply Hall. apply Hc.
Qed.

(* ---------------------------------- 2D parity ---------------------------------- *)
Lemma p2d_premises d l : 1 <= d -> 1 <= l ->
  length (rows2d d l) = d + l /\
  (forall i, i < d + l -> NoDup (nth i (rows2d d l) [])) /\
  (forall i c, i < d + l -> In c (nth i (rows2d d l) []) -> c < d * l + d + l) /\
  (forall i, i < d + l -> 2 <= length (nth i (rows2d d l) [])) /\
  d + l <= d * l + d + l /\
  (forall c, c < d * l + d + l -> exists i, i < d + l /\ In c (nth i (rows2d d l) [])) /\
  stair (d + l) (rows2d d l).
Proof.
  intros Hd Hl.
  split; [apply p2d_len; assumption|]. split; [apply p2d_nodup; assumption|].
  split; [apply p2d_range; assumption|]. split; [apply p2d_deg; assumption|].
  split; [apply p2d_R_le_N; assumption|]. split; [apply p2d_covered; assumption|].
  apply p2d_stair; assumption.
Qed.
Theorem p2d_end_to_end : forall d l : nat, 1 <= d -> 1 <= l ->
  let H := rows2d d l in let r := d + l in let N := d * l + d + l in
  forall (srcs : nat -> Sy) (hist : list (nat * Sy)) (s : st Sy) fuel' perm (o : outcome Sy),
  (forall ev, In ev hist -> fst ev < N /\ snd ev = codeword r H srcs (fst ev)) ->
  run Sy sxor s0 H r N (S N) hist = Some s -> N < fuel' -> (forall c, c < r -> In c perm) -> (forall c, In c perm -> c < r) ->
  ml_finish sxor s0 fuel' perm s = Some o ->
  (forall c v, r <= c < N -> nth c (tab (o_st o)) None = Some v -> v = srcs c) /\
  (o_ok o = true <-> forall c, r <= c < N -> known (o_st o) c = true) /\
  ((forall c, r <= c < N -> known (o_st o) c = true) <->
   (forall z : nat -> bool, (forall i, i < r -> fold_right xorb false (map z (nth i H [])) = false) ->
      (forall c, In c (map fst hist) -> z c = false) -> forall c, r <= c < N -> z c = false)).
Proof.
  intros d l Hd Hl H r N srcs.
  destruct (p2d_premises d l Hd Hl) as (P1 & P2 & P3 & P4 & P5 & P6 & P7).
  exact (gen_end_to_end Sy sxor s0 sxor_assoc sxor_comm sxor_0_l sxor_nilp Sy_nontrivial H r N
           P1 P2 P3 P4 P5 P6 P7 srcs).
Qed.

Theorem p2d_end_to_end_total : forall d l : nat, 1 <= d -> 1 <= l ->
  let H := rows2d d l in let r := d + l in let N := d * l + d + l in
  forall (srcs : nat -> Sy) (hist : list (nat * Sy)) fuel' perm,
  (forall ev, In ev hist -> fst ev < N /\ snd ev = codeword r H srcs (fst ev)) ->
  N < fuel' -> (forall c, c < r -> In c perm) -> (forall c, In c perm -> c < r) ->
  exists (s : st Sy) (o : outcome Sy), run Sy sxor s0 H r N (S N) hist = Some s /\ ml_finish sxor s0 fuel' perm s = Some o.
Proof.
  intros d l Hd Hl H r N srcs.
  destruct (p2d_premises d l Hd Hl) as (P1 & P2 & P3 & P4 & P5 & P6 & P7).
  exact (gen_end_to_end_total Sy sxor s0 sxor_assoc sxor_comm sxor_0_l sxor_nilp Sy_nontrivial H r N
           P1 P2 P3 P4 P5 P6 P7 srcs).
Qed.

Theorem p2d_all_received_recovers : forall d l : nat, 1 <= d -> 1 <= l ->
  let H := rows2d d l in let r := d + l in let N := d * l + d + l in
  forall (srcs : nat -> Sy) (hist : list (nat * Sy)),
  (forall ev, In ev hist -> fst ev < N /\ snd ev = codeword r H srcs (fst ev)) ->
  (forall c, r <= c < N -> In c (map fst hist)) ->
  exists s : st Sy, run Sy sxor s0 H r N (S N) hist = Some s /\ fst (is_complete s) = true /\
    forall c, r <= c < N -> nth c (tab s) None = Some (srcs c).
Proof.
  intros d l Hd Hl H r N srcs.
  destruct (p2d_premises d l Hd Hl) as (P1 & P2 & P3 & P4 & P5 & P6 & P7).
  exact (gen_sources_received Sy sxor s0 sxor_assoc sxor_comm sxor_0_l sxor_nilp H r N
           P1 P2 P3 P4 P5 P7 srcs).
Qed.

(* the same from the matrix the codec creates: create2d nb_rows nb_cols = Some (d, l, m), H = rws m,
   r = nb_rows, N = nb_cols *)
Theorem p2d_create_end_to_end : forall (nb_rows nb_cols d l : nat) (m : Sparse.smat),
  create2d nb_rows nb_cols = Some (d, l, m) ->
  let H := Sparse.rws m in let r := nb_rows in let N := nb_cols in
  forall (srcs : nat -> Sy) (hist : list (nat * Sy)) (s : st Sy) fuel' perm (o : outcome Sy),
  (forall ev, In ev hist -> fst ev < N /\ snd ev = codeword r H srcs (fst ev)) ->
  run Sy sxor s0 H r N (S N) hist = Some s -> N < fuel' -> (forall c, c < r -> In c perm) -> (forall c, In c perm -> c < r) ->
  ml_finish sxor s0 fuel' perm s = Some o ->
  (forall c v, r <= c < N -> nth c (tab (o_st o)) None = Some v -> v = srcs c) /\
  (o_ok o = true <-> forall c, r <= c < N -> known (o_st o) c = true) /\
  ((forall c, r <= c < N -> known (o_st o) c = true) <->
   (forall z : nat -> bool, (forall i, i < r -> fold_right xorb false (map z (nth i H [])) = false) ->
      (forall c, In c (map fst hist) -> z c = false) -> forall c, r <= c < N -> z c = false)).
Proof.
  intros nb_rows nb_cols d l m Hc.
  destruct (create2d_spec nb_rows nb_cols d l m Hc) as (Em & Er & En & Hd & Hl).
  subst m nb_rows nb_cols. exact (p2d_end_to_end d l Hd Hl).
Qed.

Theorem p2d_create_end_to_end_total : forall (nb_rows nb_cols d l : nat) (m : Sparse.smat),
  create2d nb_rows nb_cols = Some (d, l, m) ->
  let H := Sparse.rws m in let r := nb_rows in let N := nb_cols in
  forall (srcs : nat -> Sy) (hist : list (nat * Sy)) fuel' perm,
  (forall ev, In ev hist -> fst ev < N /\ snd ev = codeword r H srcs (fst ev)) ->
  N < fuel' -> (forall c, c < r -> In c perm) -> (forall c, In c perm -> c < r) ->
  exists (s : st Sy) (o : outcome Sy), run Sy sxor s0 H r N (S N) hist = Some s /\ ml_finish sxor s0 fuel' perm s = Some o.
Proof.
  intros nb_rows nb_cols d l m Hc.
  destruct (create2d_spec nb_rows nb_cols d l m Hc) as (Em & Er & En & Hd & Hl).
  subst m nb_rows nb_cols. exact (p2d_end_to_end_total d l Hd Hl).
Qed.
End Closed.

Print Assumptions codeword_parity.
Print Assumptions codeword_sources.
Print Assumptions ldpc_end_to_end.
Print Assumptions ldpc_end_to_end_total.
Print Assumptions ldpc_all_received_recovers.
Print Assumptions p2d_end_to_end.
Print Assumptions p2d_end_to_end_total.
Print Assumptions p2d_all_received_recovers.
Print Assumptions p2d_create_end_to_end.
Print Assumptions p2d_create_end_to_end_total.
