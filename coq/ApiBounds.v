(* C07 for the Reed-Solomon API layer (RSApi.v) and the LDPC-Staircase / 2D encoder (LdpcEnc.v):
   no access to a symbol table is out of range.

   The plain models read with [nth i l d] and write with [upd l i x] (RS) or with a function update
   (encoder); all are total, so an index bug would be masked.  Here every function is copied with its
   table accesses going through [ITBounds.nth_chk] / [ITBounds.upd_chk], which FAIL out of range.
     Part A (RS):  A1 refinement, no hypothesis on the state; A2 safety under [RInv]; A3 histories.
     Part B (encoder): refinement; safety under ITProofs' H0_range / R_le_N.
     Part C: closed examples where the checked copy is OutOfBounds and the plain model returns a value. *)
From Coq Require Import Arith List Bool Lia.
From OFV Require Import ListAux RSApi XorGroup LdpcEnc.
From OFV Require ITBounds.
Import ListNotations.

Notation nth_chk := ITBounds.nth_chk.
Notation upd_chk := ITBounds.upd_chk.

(* ITBounds states its accessor lemmas with ITModel's copy of upd; RSApi uses ListAux's (same text) *)
Lemma upd_same {X} (l : list X) i x : ITModel.upd l i x = upd l i x.
Proof. reflexivity. Qed.
Lemma upd_chk_sound {X} (l : list X) i x l' : upd_chk l i x = Some l' -> i < length l /\ upd l i x = l'.
Proof. intros H. rewrite <- upd_same. apply ITBounds.upd_chk_sound. exact H. Qed.
Lemma upd_chk_in {X} (l : list X) i x : i < length l -> upd_chk l i x = Some (upd l i x).
Proof. intros H. rewrite <- upd_same. apply ITBounds.upd_chk_in. exact H. Qed.

(* ====================================================================================== *)
(*                                Part A: the RS API layer                                 *)
(* ====================================================================================== *)
Section RSA.
Variable B : Type.
Variable core : nat -> list (option B) -> option (list B).
Variable cb : bool. Variable mk : nat -> B -> B.
Notation rs := (rs B).

(* result of a checked call: the plain (state, status) pair, or an out-of-range table access, or
   BadCore: the algebraic decoder handed back MORE than k values (the C copies k of them, the plain
   model would walk on; excluded by core_len below) *)
Inductive rres : Type := Ret (x : rs * status) | OutOfBounds | BadCore.

(* copy-out loop of finish_decoding, "for (i = 0; i < k; i++) if (tab[i] == NULL) tab[i] = mk (i, vals[i])",
   through the checked accessors: fails when tab or vals has no entry i *)
Fixpoint fill_chk (cnt : nat) (vals : list B) (t : list (option B)) (i : nat) (ev : list nat)
  : option (list (option B) * list nat) :=
  match cnt with
  | O => Some (t, ev)
  | S c =>
    match nth_chk t i, nth_chk vals i with
    | Some e, Some v =>
      match e with
      | Some _ => fill_chk c vals t (S i) ev
      | None => match upd_chk t i (Some (mk i v)) with
                | None => None
                | Some t1 => fill_chk c vals t1 (S i) (if cb then ev ++ [i] else ev)
                end
      end
    | _, _ => None
    end
  end.

(* the same loop by structural recursion on the two tables (as RSApi.fill is written); proof device *)
Fixpoint fill_str (cnt : nat) (vals : list B) (t : list (option B)) (i : nat) (ev : list nat)
  : option (list (option B) * list nat) :=
  match cnt with
  | O => Some (t, ev)
  | S c =>
    match vals, t with
    | v :: vals', e :: t' =>
      match e with
      | Some _ => match fill_str c vals' t' (S i) ev with
                  | Some (t2, ev2) => Some (e :: t2, ev2) | None => None end
      | None => match fill_str c vals' t' (S i) (if cb then ev ++ [i] else ev) with
                | Some (t2, ev2) => Some (Some (mk i v) :: t2, ev2) | None => None end
      end
    | _, _ => None
    end
  end.

Definition rs_finish_chk (s : rs) : rres :=
  if fin s then Ret (s, OK) else
  if navail s <? rk s then Ret (s, FAILURE) else
  if navail_src s =? rk s then
    Ret ({| rk := rk s; rn := rn s; tab := tab s; navail := navail s; navail_src := navail_src s; fin := true; evs := evs s |}, OK)
  else match core (rk s) (tab s) with
       | None => Ret (s, ERROR)
       | Some vals =>
         if rk s <? length vals then BadCore else
         match fill_chk (rk s) vals (tab s) 0 (evs s) with
         | None => OutOfBounds
         | Some (t2, ev2) =>
           Ret ({| rk := rk s; rn := rn s; tab := t2; navail := navail s; navail_src := navail_src s; fin := true; evs := ev2 |}, OK)
         end
       end.

Definition rs_decode_with_new_symbol_chk (s : rs) (esi : nat) (b : B) : rres :=
  if fin s then Ret (s, OK) else
  match nth_chk (tab s) esi with
  | None => OutOfBounds
  | Some (Some _) => Ret (s, OK)
  | Some None =>
    match upd_chk (tab s) esi (Some b) with
    | None => OutOfBounds
    | Some t1 =>
      let s1 := {| rk := rk s; rn := rn s; tab := t1; navail := S (navail s);
                   navail_src := if esi <? rk s then S (navail_src s) else navail_src s; fin := false; evs := evs s |} in
      if navail_src s1 =? rk s1 then
        Ret ({| rk := rk s1; rn := rn s1; tab := tab s1; navail := navail s1; navail_src := navail_src s1; fin := true; evs := evs s1 |}, OK)
      else if rk s1 <=? navail s1 then
        match rs_finish_chk s1 with
        | Ret (s2, OK) => Ret (s2, OK)
        | Ret (s2, _) => Ret (s2, ERROR)
        | x => x
        end
      else Ret (s1, OK)
    end
  end.

(* the C loop "for i < n: own[i] = caller[i]" reads n entries of the caller's table and writes n of its own *)
Definition rs_set_available_chk (s : rs) (t : list (option B)) : rres :=
  if (length t <? rn s) || (length (tab s) <? rn s) then OutOfBounds else Ret (rs_set_available s t).

(* ---------- the accessor-based loop is the structural one ---------- *)
Lemma nth_chk_app_len {X} (pre rest : list X) :
  nth_chk (pre ++ rest) (length pre) = match rest with [] => None | e :: _ => Some e end.
Proof. induction pre as [|h pre IH]; [destruct rest; reflexivity|exact IH]. Qed.

Lemma upd_chk_app_len {X} (pre : list X) e rest x : upd_chk (pre ++ e :: rest) (length pre) x = Some (pre ++ x :: rest).
Proof. induction pre as [|h pre IH]; [reflexivity|]. cbn [app length ITBounds.upd_chk]. rewrite IH. reflexivity. Qed.

Lemma fill_chk_str_gen : forall cnt pre vpre rest vrest ev, length vpre = length pre ->
  fill_chk cnt (vpre ++ vrest) (pre ++ rest) (length pre) ev =
  match fill_str cnt vrest rest (length pre) ev with Some (t2, ev2) => Some (pre ++ t2, ev2) | None => None end.
Proof.
  induction cnt as [|c IH]; intros pre vpre rest vrest ev Hl; [reflexivity|].
  cbn [fill_chk fill_str]. rewrite nth_chk_app_len.
  assert (Hv : nth_chk (vpre ++ vrest) (length pre) = match vrest with [] => None | v :: _ => Some v end)
    by (rewrite <- Hl; apply nth_chk_app_len).
  rewrite Hv. clear Hv.
  destruct rest as [|e t']; [destruct vrest; reflexivity|].
  destruct vrest as [|v vals']; [reflexivity|].
  assert (Hl' : length (vpre ++ [v]) = length (pre ++ [e])) by (rewrite !app_length; simpl; lia).
  assert (HS : S (length pre) = length (pre ++ [e])) by (rewrite app_length; simpl; lia).
  destruct e as [x|].
  - specialize (IH (pre ++ [Some x]) (vpre ++ [v]) t' vals' ev Hl').
    rewrite <- !app_assoc in IH. cbn [app] in IH. rewrite <- HS in IH. rewrite IH.
    destruct (fill_str c vals' t' (S (length pre)) ev) as [[t2 ev2]|]; [|reflexivity].
    rewrite <- app_assoc. reflexivity.
  - rewrite upd_chk_app_len.
    assert (Hl2 : length (vpre ++ [v]) = length (pre ++ [Some (mk (length pre) v)])) by (rewrite !app_length; simpl; lia).
    assert (HS2 : S (length pre) = length (pre ++ [Some (mk (length pre) v)])) by (rewrite app_length; simpl; lia).
    specialize (IH (pre ++ [Some (mk (length pre) v)]) (vpre ++ [v]) t' vals' (if cb then ev ++ [length pre] else ev) Hl2).
    rewrite <- !app_assoc in IH. cbn [app] in IH. rewrite <- HS2 in IH. rewrite IH.
    destruct (fill_str c vals' t' (S (length pre)) (if cb then ev ++ [length pre] else ev)) as [[t2 ev2]|]; [|reflexivity].
    rewrite <- app_assoc. reflexivity.
Qed.

Lemma fill_chk_str cnt vals t ev : fill_chk cnt vals t 0 ev = fill_str cnt vals t 0 ev.
Proof.
  pose proof (fill_chk_str_gen cnt [] [] t vals ev eq_refl) as E. cbn [length app] in E. rewrite E.
  destruct (fill_str cnt vals t 0 ev) as [[t2 ev2]|]; reflexivity.
Qed.

(* ---------- A1: refinement, no hypothesis on the state or on core ---------- *)
Definition refines (x : rres) (p : rs * status) : Prop :=
  match x with Ret q => q = p | OutOfBounds => True | BadCore => True end.

Lemma fill_str_sound : forall cnt vals t i ev r, length vals <= cnt ->
  fill_str cnt vals t i ev = Some r -> fill cb mk vals t i ev = r.
Proof.
  induction cnt as [|c IH]; intros vals t i ev r Hl H.
  - destruct vals as [|v vals']; [|simpl in Hl; lia]. simpl in H. inversion H. reflexivity.
  - destruct vals as [|v vals']; [discriminate|]. destruct t as [|e t']; [discriminate|].
    simpl in Hl. assert (Hl' : length vals' <= c) by lia.
    cbn [fill_str fill] in *. destruct e as [x|].
    + destruct (fill_str c vals' t' (S i) ev) as [[t2 ev2]|] eqn:E; [|discriminate].
      rewrite (IH _ _ _ _ _ Hl' E). inversion H. reflexivity.
    + destruct (fill_str c vals' t' (S i) (if cb then ev ++ [i] else ev)) as [[t2 ev2]|] eqn:E; [|discriminate].
      rewrite (IH _ _ _ _ _ Hl' E). inversion H. reflexivity.
Qed.

Lemma fill_str_some_len : forall cnt vals t i ev r,
  fill_str cnt vals t i ev = Some r -> cnt <= length vals /\ cnt <= length t.
Proof.
  induction cnt as [|c IH]; intros vals t i ev r H; [split; lia|].
  destruct vals as [|v vals']; [discriminate|]. destruct t as [|e t']; [discriminate|].
  cbn [fill_str] in H. destruct e as [x|].
  - destruct (fill_str c vals' t' (S i) ev) as [[t2 ev2]|] eqn:E; [|discriminate].
    destruct (IH _ _ _ _ _ E). simpl. lia.
  - destruct (fill_str c vals' t' (S i) (if cb then ev ++ [i] else ev)) as [[t2 ev2]|] eqn:E; [|discriminate].
    destruct (IH _ _ _ _ _ E). simpl. lia.
Qed.

(* the copy-out loop fails exactly when one of the two tables has fewer than cnt entries *)
Lemma fill_str_total : forall cnt vals t i ev, cnt <= length vals -> cnt <= length t ->
  exists r, fill_str cnt vals t i ev = Some r.
Proof.
  induction cnt as [|c IH]; intros vals t i ev Hv Ht; [eexists; reflexivity|].
  destruct vals as [|v vals']; [simpl in Hv; lia|]. destruct t as [|e t']; [simpl in Ht; lia|].
  simpl in Hv, Ht. cbn [fill_str]. destruct e as [x|].
  - destruct (IH vals' t' (S i) ev) as ([t2 ev2] & ->); try lia. eexists; reflexivity.
  - destruct (IH vals' t' (S i) (if cb then ev ++ [i] else ev)) as ([t2 ev2] & ->); try lia. eexists; reflexivity.
Qed.

Theorem fill_chk_none cnt vals t ev : fill_chk cnt vals t 0 ev = None <-> (length vals < cnt \/ length t < cnt).
Proof.
  rewrite fill_chk_str. split.
  - intros E. destruct (le_lt_dec cnt (length vals)) as [Hv|Hv]; [|now left].
    destruct (le_lt_dec cnt (length t)) as [Ht|Ht]; [|now right].
    destruct (fill_str_total cnt vals t 0 ev Hv Ht) as (r & Er). congruence.
  - intros Hlt. destruct (fill_str cnt vals t 0 ev) as [r|] eqn:E; [|reflexivity].
    destruct (fill_str_some_len _ _ _ _ _ _ E). lia.
Qed.

Theorem fill_chk_refines cnt vals t ev r : length vals <= cnt ->
  fill_chk cnt vals t 0 ev = Some r -> fill cb mk vals t 0 ev = r.
Proof. rewrite fill_chk_str. apply fill_str_sound. Qed.

Theorem rs_finish_chk_refines (s : rs) : refines (rs_finish_chk s) (rs_finish core cb mk s).
Proof.
  unfold rs_finish_chk, rs_finish.
  destruct (fin s); [reflexivity|]. destruct (navail s <? rk s); [reflexivity|].
  destruct (navail_src s =? rk s); [reflexivity|].
  destruct (core (rk s) (tab s)) as [vals|]; [|reflexivity].
  destruct (rk s <? length vals) eqn:El; [exact I|]. apply Nat.ltb_ge in El.
  rewrite fill_chk_str.
  destruct (fill_str (rk s) vals (tab s) 0 (evs s)) as [[t2 ev2]|] eqn:E; [|exact I].
  rewrite (fill_str_sound _ _ _ _ _ _ El E). reflexivity.
Qed.

Theorem rs_decode_with_new_symbol_chk_refines (s : rs) esi b :
  refines (rs_decode_with_new_symbol_chk s esi b) (rs_decode_with_new_symbol core cb mk s esi b).
Proof.
  unfold rs_decode_with_new_symbol_chk, rs_decode_with_new_symbol.
  destruct (fin s); [reflexivity|].
  destruct (nth_chk (tab s) esi) as [o|] eqn:En; [|exact I].
  destruct (ITBounds.nth_chk_sound _ _ _ None En) as (_ & ->).
  destruct o as [x|]; [reflexivity|].
  destruct (upd_chk (tab s) esi (Some b)) as [t1|] eqn:Eu; [|exact I].
  destruct (upd_chk_sound _ _ _ _ Eu) as (_ & ->). cbv zeta. cbn [rk rn tab navail navail_src fin evs].
  match goal with |- context [if ?c then _ else _] => destruct c end; [reflexivity|].
  match goal with |- context [if ?c then _ else _] => destruct c end; [|reflexivity].
  match goal with |- context [rs_finish_chk ?s1] => pose proof (rs_finish_chk_refines s1) as R;
    destruct (rs_finish_chk s1) as [[s2 st]| |] end; try exact I.
  simpl in R. rewrite <- R. destruct st; reflexivity.
Qed.

Theorem rs_set_available_chk_refines (s : rs) t : refines (rs_set_available_chk s t) (rs_set_available s t).
Proof. unfold rs_set_available_chk. destruct (_ || _); [exact I|reflexivity]. Qed.

Corollary rs_decode_chk_ret (s : rs) esi b p :
  rs_decode_with_new_symbol_chk s esi b = Ret p -> rs_decode_with_new_symbol core cb mk s esi b = p.
Proof. intros H. pose proof (rs_decode_with_new_symbol_chk_refines s esi b) as R. rewrite H in R. symmetry. exact R. Qed.

Corollary rs_finish_chk_ret (s : rs) p : rs_finish_chk s = Ret p -> rs_finish core cb mk s = p.
Proof. intros H. pose proof (rs_finish_chk_refines s) as R. rewrite H in R. symmetry. exact R. Qed.

(* what BadCore means *)
Lemma rs_finish_chk_badcore (s : rs) : rs_finish_chk s = BadCore ->
  exists vals, core (rk s) (tab s) = Some vals /\ rk s < length vals.
Proof.
  unfold rs_finish_chk. destruct (fin s); [discriminate|]. destruct (navail s <? rk s); [discriminate|].
  destruct (navail_src s =? rk s); [discriminate|].
  destruct (core (rk s) (tab s)) as [vals|]; [|discriminate].
  destruct (rk s <? length vals) eqn:El; [|destruct (fill_chk _ _ _ _ _) as [[? ?]|]; discriminate].
  intros _. exists vals. split; [reflexivity|]. apply Nat.ltb_lt. exact El.
Qed.

(* ---------- A2: safety ---------- *)
(* the minimal invariant: the availability table has n entries and k <= n *)
Definition RInv (s : rs) : Prop := length (tab s) = rn s /\ rk s <= rn s.

Lemma fill_str_in : forall cnt vals t i ev, length vals = cnt -> cnt <= length t ->
  fill_str cnt vals t i ev = Some (fill cb mk vals t i ev).
Proof.
  induction cnt as [|c IH]; intros vals t i ev Hv Ht.
  - destruct vals; [|discriminate]. reflexivity.
  - destruct vals as [|v vals']; [discriminate|]. destruct t as [|e t']; [simpl in Ht; lia|].
    simpl in Hv, Ht. cbn [fill_str fill]. destruct e as [x|].
    + rewrite IH by lia. destruct (fill cb mk vals' t' (S i) ev). reflexivity.
    + rewrite IH by lia. destruct (fill cb mk vals' t' (S i) (if cb then ev ++ [i] else ev)). reflexivity.
Qed.

Theorem fill_chk_safe cnt vals t ev : length vals = cnt -> cnt <= length t ->
  fill_chk cnt vals t 0 ev = Some (fill cb mk vals t 0 ev).
Proof. rewrite fill_chk_str. apply fill_str_in. Qed.

Lemma fill_length : forall vals t i ev, length (fst (fill cb mk vals t i ev)) = length t.
Proof.
  induction vals as [|v vals' IH]; intros t i ev; [reflexivity|].
  destruct t as [|e t']; [reflexivity|]. cbn [fill]. destruct e as [x|].
  - specialize (IH t' (S i) ev). destruct (fill cb mk vals' t' (S i) ev). simpl in *. now rewrite IH.
  - specialize (IH t' (S i) (if cb then ev ++ [i] else ev)).
    destruct (fill cb mk vals' t' (S i) (if cb then ev ++ [i] else ev)). simpl in *. now rewrite IH.
Qed.

(* the three calls keep k, n and the table length: no hypothesis *)
Lemma rs_finish_fields (s : rs) : let s' := fst (rs_finish core cb mk s) in
  rk s' = rk s /\ rn s' = rn s /\ length (tab s') = length (tab s).
Proof.
  cbv zeta. unfold rs_finish. destruct (fin s); [auto|]. destruct (navail s <? rk s); [auto|].
  destruct (navail_src s =? rk s); [auto|].
  destruct (core (rk s) (tab s)) as [vals|]; [|auto].
  pose proof (fill_length vals (tab s) 0 (evs s)) as Hl.
  destruct (fill cb mk vals (tab s) 0 (evs s)) as [t2 ev2]. simpl in *. auto.
Qed.

Lemma rs_decode_fields (s : rs) esi b : let s' := fst (rs_decode_with_new_symbol core cb mk s esi b) in
  rk s' = rk s /\ rn s' = rn s /\ length (tab s') = length (tab s).
Proof.
  cbv zeta. unfold rs_decode_with_new_symbol. destruct (fin s); [auto|].
  destruct (nth esi (tab s) None); [auto|]. cbv zeta. cbn [rk rn tab navail navail_src fin evs].
  match goal with |- context [if ?c then _ else _] => destruct c end; [cbn; rewrite upd_length; auto|].
  match goal with |- context [if ?c then _ else _] => destruct c end; [|cbn; rewrite upd_length; auto].
  match goal with |- context [rs_finish core cb mk ?s1] => pose proof (rs_finish_fields s1) as F;
    destruct (rs_finish core cb mk s1) as [s2 st] end.
  cbv zeta in F. cbn [fst rk rn tab] in F. rewrite upd_length in F. destruct st; exact F.
Qed.

Lemma rs_finish_inv (s : rs) : RInv s -> RInv (fst (rs_finish core cb mk s)).
Proof. intros (A & C). destruct (rs_finish_fields s) as (E1 & E2 & E3). unfold RInv. rewrite E1, E2, E3. auto. Qed.

Lemma rs_decode_inv (s : rs) esi b : RInv s -> RInv (fst (rs_decode_with_new_symbol core cb mk s esi b)).
Proof. intros (A & C). destruct (rs_decode_fields s esi b) as (E1 & E2 & E3). unfold RInv. rewrite E1, E2, E3. auto. Qed.

Lemma rs_set_available_inv (s : rs) t : RInv s -> length t = rn s -> RInv (fst (rs_set_available s t)).
Proof. intros (A & C) Ht. unfold RInv. simpl. auto. Qed.

Lemma rs_init_inv k n : k <= n -> RInv (rs_init B k n).
Proof. intros H. unfold RInv. simpl. rewrite repeat_length. auto. Qed.

(* the postcondition of the algebraic decoder that matters here: it hands back k values *)
Hypothesis core_len : forall k t vals, core k t = Some vals -> length vals = k.

Theorem rs_finish_chk_safe (s : rs) : RInv s -> rs_finish_chk s = Ret (rs_finish core cb mk s).
Proof.
  intros (A & C). unfold rs_finish_chk, rs_finish.
  destruct (fin s); [reflexivity|]. destruct (navail s <? rk s); [reflexivity|].
  destruct (navail_src s =? rk s); [reflexivity|].
  destruct (core (rk s) (tab s)) as [vals|] eqn:Ec; [|reflexivity].
  pose proof (core_len _ _ _ Ec) as Hl.
  assert (El : rk s <? length vals = false) by (apply Nat.ltb_ge; lia). rewrite El.
  rewrite fill_chk_str, fill_str_in by lia. destruct (fill cb mk vals (tab s) 0 (evs s)). reflexivity.
Qed.

Theorem rs_decode_with_new_symbol_chk_safe (s : rs) esi b : RInv s -> esi < rn s ->
  rs_decode_with_new_symbol_chk s esi b = Ret (rs_decode_with_new_symbol core cb mk s esi b).
Proof.
  intros (A & C) He. unfold rs_decode_with_new_symbol_chk, rs_decode_with_new_symbol.
  destruct (fin s); [reflexivity|].
  rewrite (ITBounds.nth_chk_in (tab s) esi None) by lia.
  destruct (nth esi (tab s) None) as [x|]; [reflexivity|].
  rewrite (upd_chk_in (tab s) esi (Some b)) by lia. cbv zeta. cbn [rk rn tab navail navail_src fin evs].
  match goal with |- context [if ?c then _ else _] => destruct c end; [reflexivity|].
  match goal with |- context [if ?c then _ else _] => destruct c end; [|reflexivity].
  rewrite rs_finish_chk_safe by (unfold RInv; cbn; rewrite upd_length; auto).
  match goal with |- context [rs_finish core cb mk ?s1] => destruct (rs_finish core cb mk s1) as [s2 st] end.
  destruct st; reflexivity.
Qed.

Theorem rs_set_available_chk_safe (s : rs) t : RInv s -> length t = rn s ->
  rs_set_available_chk s t = Ret (rs_set_available s t).
Proof.
  intros (A & C) Ht. unfold rs_set_available_chk.
  assert (E1 : length t <? rn s = false) by (apply Nat.ltb_ge; lia).
  assert (E2 : length (tab s) <? rn s = false) by (apply Nat.ltb_ge; lia). rewrite E1, E2. reflexivity.
Qed.

Corollary rs_decode_chk_never_oob (s : rs) esi b : RInv s -> esi < rn s ->
  rs_decode_with_new_symbol_chk s esi b <> OutOfBounds /\ rs_decode_with_new_symbol_chk s esi b <> BadCore.
Proof. intros HI He. rewrite (rs_decode_with_new_symbol_chk_safe s esi b HI He). split; discriminate. Qed.

Corollary rs_finish_chk_never_oob (s : rs) : RInv s ->
  rs_finish_chk s <> OutOfBounds /\ rs_finish_chk s <> BadCore.
Proof. intros HI. rewrite (rs_finish_chk_safe s HI). split; discriminate. Qed.

(* ---------- A3: histories of API calls ---------- *)
Inductive op : Type := Dec (esi : nat) (b : B) | Fin | SetTab (t : list (option B)).

Definition call (s : rs) (o : op) : rs * status :=
  match o with
  | Dec e b => rs_decode_with_new_symbol core cb mk s e b
  | Fin => rs_finish core cb mk s
  | SetTab t => rs_set_available s t
  end.
Definition call_chk (s : rs) (o : op) : rres :=
  match o with
  | Dec e b => rs_decode_with_new_symbol_chk s e b
  | Fin => rs_finish_chk s
  | SetTab t => rs_set_available_chk s t
  end.
(* what the caller must respect: ESIs below n, tables of n entries *)
Definition op_ok (n : nat) (o : op) : Prop :=
  match o with Dec e _ => e < n | Fin => True | SetTab t => length t = n end.

Definition runs (s : rs) (h : list op) : rs := fold_left (fun s o => fst (call s o)) h s.
(* the checked run stops at the first call that is not a normal return; the status of the last call is kept *)
Definition step_chk (x : rres) (o : op) : rres := match x with Ret (s, _) => call_chk s o | y => y end.
Definition runs_chk (s : rs) (h : list op) : rres := fold_left step_chk h (Ret (s, OK)).

Lemma call_inv (s : rs) o : RInv s -> op_ok (rn s) o -> RInv (fst (call s o)) /\ rn (fst (call s o)) = rn s.
Proof.
  intros HI Ho. destruct o as [e b| |t]; cbn [call op_ok] in *.
  - split; [apply rs_decode_inv; exact HI|apply (rs_decode_fields s e b)].
  - split; [apply rs_finish_inv; exact HI|apply (rs_finish_fields s)].
  - split; [apply rs_set_available_inv; assumption|reflexivity].
Qed.

Theorem call_chk_refines (s : rs) o : refines (call_chk s o) (call s o).
Proof.
  destruct o as [e b| |t]; cbn [call call_chk].
  - apply rs_decode_with_new_symbol_chk_refines.
  - apply rs_finish_chk_refines.
  - apply rs_set_available_chk_refines.
Qed.

Theorem call_chk_safe (s : rs) o : RInv s -> op_ok (rn s) o -> call_chk s o = Ret (call s o).
Proof.
  intros HI Ho. destruct o as [e b| |t]; cbn [call call_chk op_ok] in *.
  - apply rs_decode_with_new_symbol_chk_safe; assumption.
  - apply rs_finish_chk_safe; assumption.
  - apply rs_set_available_chk_safe; assumption.
Qed.

Lemma runs_inv : forall h (s : rs), RInv s -> (forall o, In o h -> op_ok (rn s) o) ->
  RInv (runs s h) /\ rn (runs s h) = rn s.
Proof.
  induction h as [|o h IH]; intros s HI Hh; [split; [exact HI|reflexivity]|].
  destruct (call_inv s o HI (Hh o (or_introl eq_refl))) as (HI1 & En).
  unfold runs. cbn [fold_left]. fold (runs (fst (call s o)) h).
  destruct (IH (fst (call s o)) HI1) as (HI2 & En2).
  - intros o' Ho'. rewrite En. apply Hh. now right.
  - split; [exact HI2|]. rewrite En2. exact En.
Qed.

Lemma runs_chk_eq_gen : forall h (s : rs) st0, RInv s -> (forall o, In o h -> op_ok (rn s) o) ->
  exists st, fold_left step_chk h (Ret (s, st0)) = Ret (runs s h, st).
Proof.
  induction h as [|o h IH]; intros s st0 HI Hh; [exists st0; reflexivity|].
  cbn [fold_left step_chk]. rewrite (call_chk_safe s o HI (Hh o (or_introl eq_refl))).
  destruct (call_inv s o HI (Hh o (or_introl eq_refl))) as (HI1 & En).
  unfold runs. cbn [fold_left]. fold (runs (fst (call s o)) h).
  destruct (call s o) as [s1 st1]. cbn [fst] in *.
  apply IH; [exact HI1|]. intros o' Ho'. rewrite En. apply Hh. now right.
Qed.

(* A3: from rs_init k n (k <= n), whatever sequence of calls with ESIs < n and tables of n entries *)
Theorem rs_history_chk_eq k n (h : list op) : k <= n -> (forall o, In o h -> op_ok n o) ->
  exists st, runs_chk (rs_init B k n) h = Ret (runs (rs_init B k n) h, st).
Proof. intros Hk Hh. apply runs_chk_eq_gen; [apply rs_init_inv; exact Hk|exact Hh]. Qed.

Corollary rs_history_never_oob k n (h : list op) : k <= n -> (forall o, In o h -> op_ok n o) ->
  runs_chk (rs_init B k n) h <> OutOfBounds /\ runs_chk (rs_init B k n) h <> BadCore.
Proof. intros Hk Hh. destruct (rs_history_chk_eq k n h Hk Hh) as (st & ->). split; discriminate. Qed.

(* every single call of the history returns normally, from a state satisfying the invariant *)
Theorem rs_history_every_call k n (h : list op) : k <= n -> (forall o, In o h -> op_ok n o) ->
  forall h1 o h2, h = h1 ++ o :: h2 ->
  let s := runs (rs_init B k n) h1 in
  RInv s /\ rn s = n /\ call_chk s o = Ret (call s o) /\ RInv (fst (call s o)).
Proof.
  intros Hk Hh h1 o h2 E. cbv zeta.
  assert (H1 : forall o', In o' h1 -> op_ok (rn (rs_init B k n)) o').
  { intros o' Ho'. apply Hh. rewrite E. apply in_or_app. now left. }
  assert (Ho : op_ok n o) by (apply Hh; rewrite E; apply in_or_app; right; now left).
  destruct (runs_inv h1 (rs_init B k n) (rs_init_inv k n Hk) H1) as (HI & En). cbn [rs_init rn] in En.
  rewrite <- En in Ho. split; [exact HI|]. split; [exact En|].
  split; [apply call_chk_safe; assumption|apply call_inv; assumption].
Qed.

End RSA.
Arguments OutOfBounds {B}.
Arguments BadCore {B}.

(* ====================================================================================== *)
(*                     Part B: the LDPC-Staircase / 2D parity encoder                      *)
(* ====================================================================================== *)
Section ENC.
Variable Sy : Type. Variable sxor : Sy -> Sy -> Sy. Variable s0 : Sy.
Notation xsum := (xsum Sy sxor s0).
Notation build := (build Sy sxor s0).
Notation encode_all := (encode_all Sy sxor s0).

(* LdpcEnc's symbol table is a function nat -> Sy; the checked copy works on a table of n entries given
   as a list, and is related to the model through [nth] *)
Definition tabf (d : Sy) (l : list Sy) : nat -> Sy := fun x => nth x l d.

Inductive eres : Type := EOk (l : list Sy) | EOutOfBounds.

(* parity = 0; for every entry x of the row other than c: parity ^= tab[x]   (tab[x] checked) *)
Fixpoint xsum_chk (l : list Sy) (xs : list nat) : option Sy :=
  match xs with
  | [] => Some s0
  | x :: xs' => match nth_chk l x, xsum_chk l xs' with
                | Some v, Some a => Some (sxor v a)
                | _, _ => None
                end
  end.

(* build repair symbol c: read the other entries of row c, write position c *)
Definition build_chk (H : list (list nat)) (c : nat) (l : list Sy) : eres :=
  match xsum_chk l (others (nth c H []) c) with
  | None => EOutOfBounds
  | Some p => match upd_chk l c p with None => EOutOfBounds | Some l' => EOk l' end
  end.

Definition bstep (H : list (list nat)) (x : eres) (c : nat) : eres :=
  match x with EOk l => build_chk H c l | y => y end.
(* build the repair symbols of the columns cs in that order; encode_all: columns 0 .. r-1 *)
Definition encode_chk (H : list (list nat)) (cs : list nat) (l : list Sy) : eres := fold_left (bstep H) cs (EOk l).
Definition encode_all_chk (r : nat) (H : list (list nat)) (l : list Sy) : eres := encode_chk H (seq 0 r) l.

(* ---------- refinement: no hypothesis on the matrix or on the table ---------- *)
Lemma xsum_chk_sound d l xs p : xsum_chk l xs = Some p ->
  (forall x, In x xs -> x < length l) /\ xsum (map (tabf d l) xs) = p.
Proof.
  revert p. induction xs as [|x xs' IH]; intros p H; simpl in H.
  - inversion H. split; [intros x []|reflexivity].
  - destruct (nth_chk l x) as [v|] eqn:En; [|discriminate].
    destruct (xsum_chk l xs') as [a|] eqn:Ea; [|discriminate]. inversion H; subst p.
    destruct (ITBounds.nth_chk_sound _ _ _ d En) as (Hx & Hv). destruct (IH a eq_refl) as (Hr & Hs).
    split.
    + intros y [<-|Hy]; [exact Hx|apply Hr; exact Hy].
    + cbn [map]. unfold XorGroup.xsum in *. cbn [fold_right]. unfold tabf at 1. rewrite Hv, Hs. reflexivity.
Qed.

Lemma xsum_chk_in d l xs : (forall x, In x xs -> x < length l) ->
  xsum_chk l xs = Some (xsum (map (tabf d l) xs)).
Proof.
  induction xs as [|x xs' IH]; intros Hr; [reflexivity|].
  cbn [xsum_chk]. rewrite (ITBounds.nth_chk_in l x d) by (apply Hr; now left).
  rewrite IH by (intros y Hy; apply Hr; now right). reflexivity.
Qed.

Lemma tabf_upd d l c p x : c < length l -> tabf d (upd l c p) x = if x =? c then p else tabf d l x.
Proof.
  intros Hc. unfold tabf. destruct (Nat.eqb_spec x c) as [->|Hne].
  - apply nth_upd_eq. exact Hc.
  - apply nth_upd_neq. intros E. apply Hne. symmetry. exact E.
Qed.

(* one repair symbol: a normal result is the model's table, position by position, and has n entries *)
Theorem build_chk_refines d H c l l' : build_chk H c l = EOk l' ->
  c < length l /\ length l' = length l /\ forall x, tabf d l' x = build H c (tabf d l) x.
Proof.
  unfold build_chk. intros E.
  destruct (xsum_chk l (others (nth c H []) c)) as [p|] eqn:Ep; [|discriminate].
  destruct (upd_chk l c p) as [l1|] eqn:Eu; [|discriminate]. inversion E; subst l1.
  destruct (upd_chk_sound _ _ _ _ Eu) as (Hc & <-). destruct (xsum_chk_sound d _ _ _ Ep) as (_ & Hp).
  split; [exact Hc|]. split; [apply upd_length|].
  intros x. rewrite (tabf_upd d l c p x Hc). unfold LdpcEnc.build. rewrite Hp. reflexivity.
Qed.

Lemma build_ext H c (t1 t2 : nat -> Sy) : (forall x, t1 x = t2 x) -> forall x, build H c t1 x = build H c t2 x.
Proof.
  intros E x. unfold LdpcEnc.build. destruct (x =? c); [|apply E].
  f_equal. apply map_ext. exact E.
Qed.

Lemma builds_ext H cs : forall (t1 t2 : nat -> Sy), (forall x, t1 x = t2 x) ->
  forall x, fold_left (fun t c => build H c t) cs t1 x = fold_left (fun t c => build H c t) cs t2 x.
Proof.
  induction cs as [|c cs IH]; intros t1 t2 E; [exact E|]. cbn [fold_left]. apply IH. apply build_ext. exact E.
Qed.

Lemma bstep_oob H cs : fold_left (bstep H) cs EOutOfBounds = EOutOfBounds.
Proof. induction cs as [|c cs IH]; [reflexivity|exact IH]. Qed.

Theorem encode_chk_refines d H cs : forall l l', encode_chk H cs l = EOk l' ->
  length l' = length l /\ forall x, tabf d l' x = fold_left (fun t c => build H c t) cs (tabf d l) x.
Proof.
  unfold encode_chk. induction cs as [|c cs IH]; intros l l' E.
  - inversion E. split; reflexivity.
  - cbn [fold_left bstep] in E. destruct (build_chk H c l) as [l1|] eqn:Eb; [|rewrite bstep_oob in E; discriminate].
    destruct (build_chk_refines d H c l l1 Eb) as (_ & Hl1 & Hb). destruct (IH l1 l' E) as (Hl' & Hf).
    split; [congruence|]. intros x. rewrite Hf. cbn [fold_left]. apply builds_ext. exact Hb.
Qed.

Corollary encode_all_chk_refines d r H l l' : encode_all_chk r H l = EOk l' ->
  length l' = length l /\ forall x, nth x l' d = encode_all r H (fun y => nth y l d) x.
Proof. intros E. apply (encode_chk_refines d H (seq 0 r) l l' E). Qed.

(* ---------- safety: ITProofs' H0_range and R_le_N ---------- *)
Variable H : list (list nat).
Variable r n : nat.
Hypothesis H_range : forall i x, i < r -> In x (nth i H []) -> x < n.
Hypothesis r_le_n : r <= n.

Theorem build_chk_safe d c l : length l = n -> c < r ->
  build_chk H c l = EOk (upd l c (xsum (map (tabf d l) (others (nth c H []) c)))).
Proof.
  intros Hl Hc. unfold build_chk. rewrite (xsum_chk_in d).
  - rewrite upd_chk_in by lia. reflexivity.
  - intros x Hx. unfold others in Hx. apply filter_In in Hx. rewrite Hl. apply (H_range c x Hc (proj1 Hx)).
Qed.

Corollary build_chk_safe_model d c l : length l = n -> c < r ->
  exists l', build_chk H c l = EOk l' /\ length l' = n /\ forall x, nth x l' d = build H c (fun y => nth y l d) x.
Proof.
  intros Hl Hc. eexists. split; [apply (build_chk_safe d c l Hl Hc)|].
  destruct (build_chk_refines d H c l _ (build_chk_safe d c l Hl Hc)) as (_ & A & C).
  split; [congruence|exact C].
Qed.

(* any sequence of repair columns, in any order *)
Lemma encode_chk_safe d cs : forall l, length l = n -> (forall c, In c cs -> c < r) ->
  exists l', encode_chk H cs l = EOk l' /\ length l' = n /\
             forall x, nth x l' d = fold_left (fun t c => build H c t) cs (fun y => nth y l d) x.
Proof.
  assert (G : forall cs l, length l = n -> (forall c, In c cs -> c < r) -> exists l', encode_chk H cs l = EOk l').
  { clear cs. unfold encode_chk. induction cs as [|c cs IH]; intros l Hl Hcs; [exists l; reflexivity|].
    cbn [fold_left bstep]. rewrite (build_chk_safe d c l Hl (Hcs c (or_introl eq_refl))).
    apply IH; [rewrite upd_length; exact Hl|]. intros c' Hc'. apply Hcs. now right. }
  intros l Hl Hcs. destruct (G cs l Hl Hcs) as (l' & E). exists l'. split; [exact E|].
  destruct (encode_chk_refines d H cs l l' E) as (A & C). split; [congruence|exact C].
Qed.

(* all repair symbols in increasing order *)
Theorem encode_all_chk_safe d l : length l = n ->
  exists l', encode_all_chk r H l = EOk l' /\ length l' = n /\
             forall x, nth x l' d = encode_all r H (fun y => nth y l d) x.
Proof.
  intros Hl. apply (encode_chk_safe d (seq 0 r) l Hl). intros c Hc. apply in_seq in Hc. lia.
Qed.

Corollary build_chk_never_oob c l : length l = n -> c < r -> build_chk H c l <> EOutOfBounds.
Proof. intros Hl Hc. rewrite (build_chk_safe s0 c l Hl Hc). discriminate. Qed.

Corollary encode_all_chk_never_oob l : length l = n -> encode_all_chk r H l <> EOutOfBounds.
Proof. intros Hl. destruct (encode_all_chk_safe s0 l Hl) as (l' & -> & _). discriminate. Qed.

(* every single build of the increasing-order run returns normally, on a table of n entries *)
Theorem encode_all_chk_every_build d l c : length l = n -> c < r ->
  exists l1 l2, encode_chk H (seq 0 c) l = EOk l1 /\ length l1 = n /\ build_chk H c l1 = EOk l2 /\ length l2 = n /\
                forall x, nth x l2 d = LdpcEnc.encode_all Sy sxor s0 (S c) H (fun y => nth y l d) x.
Proof.
  intros Hl Hc.
  destruct (encode_chk_safe d (seq 0 c) l Hl) as (l1 & E1 & L1 & F1); [intros c' Hc'; apply in_seq in Hc'; lia|].
  destruct (build_chk_safe_model d c l1 L1 Hc) as (l2 & E2 & L2 & F2).
  exists l1, l2. split; [exact E1|]. split; [exact L1|]. split; [exact E2|]. split; [exact L2|].
  intros x. rewrite F2. unfold LdpcEnc.encode_all. rewrite seq_S, fold_left_app. cbn [fold_left Nat.add].
  apply build_ext. exact F1.
Qed.

End ENC.
Arguments EOutOfBounds {Sy}.

(* ====================================================================================== *)
(*          Part C: the premises are needed (the checked copies really are stricter)       *)
(* ====================================================================================== *)
(* (a) esi = n: the plain model reads the default, drops the write, counts a phantom symbol and says OK *)
Example rs_oob_esi :
  let core := fun (_ : nat) (_ : list (option nat)) => @None (list nat) in
  let mk := fun (_ : nat) (v : nat) => v in
  let s := rs_init nat 2 3 in
  RInv nat s /\
  rs_decode_with_new_symbol_chk nat core true mk s 3 7 = OutOfBounds /\
  rs_decode_with_new_symbol core true mk s 3 7 =
    ({| rk := 2; rn := 3; tab := [None; None; None]; navail := 1; navail_src := 0; fin := false; evs := [] |}, OK).
Proof. cbv zeta. split; [split; [reflexivity|simpl; lia]|]. vm_compute. split; reflexivity. Qed.

(* (b) a state whose table (2 entries) is shorter than k = 3: the copy-out loop walks to entry 2 *)
Example rs_oob_finish_short_table :
  let core := fun (_ : nat) (_ : list (option nat)) => Some [10; 11; 12] in
  let mk := fun (_ : nat) (v : nat) => v in
  let s := {| rk := 3; rn := 4; tab := [Some 10; None]; navail := 3; navail_src := 1; fin := false; evs := [] |} in
  (forall k t vals, core k t = Some vals -> length vals = 3) /\
  rs_finish_chk nat core true mk s = OutOfBounds /\
  rs_finish core true mk s =
    ({| rk := 3; rn := 4; tab := [Some 10; Some 11]; navail := 3; navail_src := 1; fin := true; evs := [1] |}, OK).
Proof.
  cbv zeta. split; [intros k t vals E; inversion E; reflexivity|]. vm_compute. split; reflexivity.
Qed.

(* (c) core_len is needed too: a core handing back only 2 values for k = 3 makes the loop read vals[2] *)
Example rs_oob_finish_short_vals :
  let core := fun (_ : nat) (_ : list (option nat)) => Some [10; 11] in
  let mk := fun (_ : nat) (v : nat) => v in
  let s := {| rk := 3; rn := 4; tab := [None; None; None; Some 5]; navail := 3; navail_src := 0; fin := false; evs := [] |} in
  RInv nat s /\
  rs_finish_chk nat core true mk s = OutOfBounds /\
  rs_finish core true mk s =
    ({| rk := 3; rn := 4; tab := [Some 10; Some 11; None; Some 5]; navail := 3; navail_src := 0; fin := true; evs := [0; 1] |}, OK).
Proof. cbv zeta. split; [split; [reflexivity|simpl; lia]|]. vm_compute. split; reflexivity. Qed.

(* (d) set_available_symbols with a caller's table of n - 1 entries *)
Example rs_oob_set_available :
  let s := rs_init nat 2 3 in
  RInv nat s /\ rs_set_available_chk nat s [Some 1; Some 2] = OutOfBounds /\
  fst (rs_set_available s [Some 1; Some 2]) =
    {| rk := 2; rn := 3; tab := [Some 1; Some 2]; navail := 2; navail_src := 2; fin := false; evs := [] |}.
Proof. cbv zeta. split; [split; [reflexivity|simpl; lia]|]. vm_compute. split; reflexivity. Qed.

(* (e) encoder: r = 1, n = 2, and row 0 names column 2 = n: the plain model reads the default there *)
Example enc_oob_column :
  let H := [[0; 2]] in
  let l := [5; 6] in
  length l = 2 /\ 0 < 1 /\ 1 <= 2 /\
  build_chk nat Nat.lxor 0 H 0 l = EOutOfBounds /\
  encode_all_chk nat Nat.lxor 0 1 H l = EOutOfBounds /\
  build nat Nat.lxor 0 H 0 (fun x => nth x l 9) 0 = 9 /\
  encode_all nat Nat.lxor 0 1 H (fun x => nth x l 9) 0 = 9.
Proof. cbv zeta. split; [reflexivity|]. split; [lia|]. split; [lia|]. vm_compute. repeat split. Qed.

(* (f) encoder: the matrix is fine (entries < n = 2) but the table handed in has a single entry *)
Example enc_oob_short_table :
  let H := [[0; 1]] in
  (forall i x, i < 1 -> In x (nth i H []) -> x < 2) /\
  build_chk nat Nat.lxor 0 H 0 [5] = EOutOfBounds /\
  build nat Nat.lxor 0 H 0 (fun x => nth x [5] 9) 0 = 9.
Proof.
  cbv zeta. split.
  - intros i x Hi Hx. assert (i = 0) by lia. subst i. simpl in Hx. lia.
  - vm_compute. split; reflexivity.
Qed.

Print Assumptions fill_chk_none.
Print Assumptions rs_finish_chk_refines.
Print Assumptions rs_decode_with_new_symbol_chk_refines.
Print Assumptions call_chk_refines.
Print Assumptions rs_finish_chk_safe.
Print Assumptions rs_decode_with_new_symbol_chk_safe.
Print Assumptions rs_set_available_chk_safe.
Print Assumptions rs_decode_inv.
Print Assumptions rs_finish_inv.
Print Assumptions rs_set_available_inv.
Print Assumptions rs_history_chk_eq.
Print Assumptions rs_history_never_oob.
Print Assumptions rs_history_every_call.
Print Assumptions build_chk_refines.
Print Assumptions encode_chk_refines.
Print Assumptions encode_all_chk_refines.
Print Assumptions build_chk_safe.
Print Assumptions encode_all_chk_safe.
Print Assumptions encode_all_chk_never_oob.
Print Assumptions encode_all_chk_every_build.
Print Assumptions rs_oob_esi.
Print Assumptions rs_oob_finish_short_table.
Print Assumptions rs_oob_finish_short_vals.
Print Assumptions rs_oob_set_available.
Print Assumptions enc_oob_column.
Print Assumptions enc_oob_short_table.
