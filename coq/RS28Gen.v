(* Model M of the run-time table generator of the GF(2^8) codec
   (of_reed-solomon_gf_2_8.c: of_modnn, of_generate_gf, of_rs_init_mul_table), loop by loop.
   gf = unsigned char, so stores into gf arrays are taken mod 256. *)
From Coq Require Import NArith Arith List Bool.
From OFV Require Import ListAux.
Import ListNotations.
Local Open Scope N_scope.

Section Gen.
Variable gf_bits : N.          (* GF_BITS *)
Variable Pp : list bool.       (* of_rs_allPp[GF_BITS], '1' = true *)
Definition gf_size : N := N.shiftl 1 gf_bits - 1.
Definition u8 (x : N) : N := x mod 256.

(* static gf of_modnn (INT32 x): while (x >= GF_SIZE) { x -= GF_SIZE; x = (x >> GF_BITS) + (x & GF_SIZE); } *)
Fixpoint modnn_f (fuel : nat) (x : N) : N :=
  match fuel with O => u8 x | S f =>
    if gf_size <=? x then let x1 := x - gf_size in modnn_f f (N.shiftr x1 gf_bits + N.land x1 gf_size)
    else u8 x end.
Definition modnn (x : N) : N := modnn_f 8 x.

Record tabs := { t_exp : list N; t_log : list N; t_inv : list N }.

Definition getn (l : list N) (i : N) : N := nth (N.to_nat i) l 0.
Definition setn (l : list N) (i : N) (v : N) : list N := upd l (N.to_nat i) v.

(* first loop: i = 0 .. GF_BITS-1 *)
Fixpoint loop1 (n : nat) (i mask : N) (pp : list bool) (e l : list N) : list N * list N :=
  match n with O => (e, l) | S n' =>
    let e := setn e i mask in
    let l := setn l (getn e i) i in
    let e := if nth 0 pp false then setn e gf_bits (u8 (N.lxor (getn e gf_bits) mask)) else e in
    loop1 n' (i + 1) (u8 (N.shiftl mask 1)) (tl pp) e l end.

(* second loop: i = GF_BITS+1 .. GF_SIZE-1 *)
Fixpoint loop2 (n : nat) (i mask : N) (e l : list N) : list N * list N :=
  match n with O => (e, l) | S n' =>
    let prev := getn e (i - 1) in
    let v := if mask <=? prev then u8 (N.lxor (getn e gf_bits) (N.shiftl (N.lxor prev mask) 1))
             else u8 (N.shiftl prev 1) in
    let e := setn e i v in
    let l := setn l (getn e i) i in
    loop2 n' (i + 1) mask e l end.

Fixpoint loop3 (n : nat) (i : N) (e : list N) : list N :=
  match n with O => e | S n' => loop3 n' (i + 1) (setn e (i + gf_size) (getn e i)) end.

Fixpoint loop4 (n : nat) (i : N) (e l inv : list N) : list N :=
  match n with O => inv | S n' => loop4 n' (i + 1) e l (setn inv i (getn e (gf_size - getn l i))) end.

Definition generate_gf : tabs :=
  let e0 := repeat 0 (N.to_nat (2 * gf_size)) in
  let l0 := repeat 0 (N.to_nat (gf_size + 1)) in
  let i0 := repeat 0 (N.to_nat (gf_size + 1)) in
  let e0 := setn e0 gf_bits 0 in
  let '(e, l) := loop1 (N.to_nat gf_bits) 0 1 Pp e0 l0 in
  let l := setn l (getn e gf_bits) gf_bits in
  let '(e, l) := loop2 (N.to_nat (gf_size - (gf_bits + 1))) (gf_bits + 1) (N.shiftl 1 (gf_bits - 1)) e l in
  let l := setn l 0 gf_size in
  let e := loop3 (N.to_nat gf_size) 0 e in
  let inv := setn (setn i0 0 0) 1 1 in
  let inv := loop4 (N.to_nat (gf_size - 1)) 2 e l inv in
  {| t_exp := e; t_log := l; t_inv := inv |}.

(* of_rs_init_mul_table *)
Definition init_mul_table (t : tabs) : list (list N) :=
  let idx := map N.of_nat (seq 0 (N.to_nat (gf_size + 1))) in
  let full := map (fun i => map (fun j => getn (t_exp t) (modnn (getn (t_log t) i + getn (t_log t) j))) idx) idx in
  (* of_gf_mul_table[0][j] = of_gf_mul_table[j][0] = 0 *)
  match full with
  | [] => []
  | r0 :: rest => map (fun _ => 0) r0 :: map (fun r => match r with [] => [] | _ :: t => 0 :: t end) rest
  end.
End Gen.
