From Coq Require Import NArith Arith List Bool.
From OFV Require Import GF2Poly Tables RS28Gen.
From OFV.gen Require Import GenTables.
Import ListNotations.
Local Open Scope N_scope.

(* the tables the model of the generator computes from /repo's GF_BITS and polynomial string *)
Definition rs28_tabs := generate_gf rs28_gf_bits rs28_Pp.
Definition rs28_mulm := init_mul_table rs28_gf_bits rs28_tabs.

Lemma rs28_bits : rs28_gf_bits = 8.                                    Proof. reflexivity. Qed.
Lemma rs28m_exp_ok : chk_exp 510 8 P256 (t_exp rs28_tabs) = true.      Proof. vm_compute. reflexivity. Qed.
Lemma rs28m_log_ok : chk_log 256 8 P256 (t_log rs28_tabs) = true.      Proof. vm_compute. reflexivity. Qed.
Lemma rs28m_inv_ok : chk_inv 256 mul256 (t_inv rs28_tabs) = true.      Proof. vm_compute. reflexivity. Qed.
Lemma rs28m_mul_ok : chk_mul 256 mul256 rs28_mulm = true.              Proof. vm_compute. reflexivity. Qed.

From OFV Require Import TablesProofs.
Lemma rs28_generated_tables_are_field_proof :
  rs28_gf_bits = 8 /\
  (forall a b, a < 256 -> b < 256 -> get2 rs28_mulm a b = mul256 a b) /\
  (length (t_exp rs28_tabs) = 510%nat /\ forall i, (i < 510)%nat -> nth i (t_exp rs28_tabs) 0 = xpow 8 P256 i) /\
  (length (t_log rs28_tabs) = 256%nat /\ getN (t_log rs28_tabs) 0 = 255 /\
     forall a, 0 < a -> a < 256 -> getN (t_log rs28_tabs) a < 255 /\
                                   xpow 8 P256 (N.to_nat (getN (t_log rs28_tabs) a)) = a) /\
  (length (t_inv rs28_tabs) = 256%nat /\ getN (t_inv rs28_tabs) 0 = 0 /\
     forall a, 0 < a -> a < 256 -> getN (t_inv rs28_tabs) a < 256 /\ mul256 a (getN (t_inv rs28_tabs) a) = 1).
Proof.
  split; [reflexivity|].
  split; [exact (chk_mul_spec 256 mul256 _ rs28m_mul_ok)|].
  split; [exact (chk_exp_spec _ _ _ _ rs28m_exp_ok)|].
  split; [split; [vm_compute; reflexivity|exact (chk_log_spec1 256 _ _ _ rs28m_log_ok ltac:(vm_compute; reflexivity))]|].
  exact (chk_inv_spec 256 mul256 _ rs28m_inv_ok).
Qed.
