(* Entry-identity model of the sparse matrix's entry pool (C17: "no operation touches freed memory, and freeing the
   matrix releases everything").  Sparse.v counts blocks and free entries; here every entry of the matrix and every
   entry of the free list is NAMED by (block, index within the block), as of_alloc_entry hands them out:
     free list empty -> a new block b is allocated, its entries pushed 0, 1, ..., BLOCK-1 (so BLOCK-1 is the head),
                        the head is taken;
     otherwise       -> the head of the free list is taken;
     delete          -> the entry is pushed on the free list;
     clear           -> every block is released and the free list emptied (the repaired behaviour: before the fix the
                        free list kept pointing into the released blocks).
   The matrix part is Sparse.v's smat, unchanged (sm); ids maps every (row, column) entry to its name. *)
From Coq Require Import Arith List Bool.
From OFV Require Import ListAux Sparse SparseOptProofs SparseChk.
Import ListNotations.

Record pool := { pblocks : list nat; pnext : nat; pfree : list (nat * nat) }.
Definition p_empty : pool := {| pblocks := []; pnext := 0; pfree := [] |}.
Definition p_take (p : pool) : pool * (nat * nat) :=
  match pfree p with
  | e :: rest => ({| pblocks := pblocks p; pnext := pnext p; pfree := rest |}, e)
  | [] => let b := pnext p in
          ({| pblocks := b :: pblocks p; pnext := S b; pfree := map (fun i => (b, i)) (rev (seq 0 (BLOCK - 1))) |}, (b, BLOCK - 1))
  end.
Definition p_give (p : pool) (e : nat * nat) : pool := {| pblocks := pblocks p; pnext := pnext p; pfree := e :: pfree p |}.
Definition p_clear (p : pool) : pool := {| pblocks := []; pnext := pnext p; pfree := [] |}.

Record imat := { sm : smat; ids : list ((nat * nat) * (nat * nat)); pl : pool }.
Definition i_allocate (r c : nat) : imat := {| sm := s_allocate r c; ids := []; pl := p_empty |}.

Definition key_eqb (a b : nat * nat) : bool := (fst a =? fst b) && (snd a =? snd b).
Fixpoint id_of (l : list ((nat * nat) * (nat * nat))) (k : nat * nat) : option (nat * nat) :=
  match l with [] => None | (k', e) :: t => if key_eqb k' k then Some e else id_of t k end.
Definition drop_key (l : list ((nat * nat) * (nat * nat))) (k : nat * nat) := filter (fun x => negb (key_eqb (fst x) k)) l.

Definition i_insert (m : imat) (i j : nat) : imat * sres :=
  let '(m', res) := s_insert (sm m) i j in
  match res with
  | Inserted | Garbled => let '(p', e) := p_take (pl m) in ({| sm := m'; ids := ((i, j), e) :: ids m; pl := p' |}, res)
  | _ => ({| sm := m'; ids := ids m; pl := pl m |}, res)
  end.

Definition i_delete (m : imat) (i j : nat) : imat :=
  if mem j (nth i (rws (sm m)) []) then
    match id_of (ids m) (i, j) with
    | Some e => {| sm := s_delete (sm m) i j; ids := drop_key (ids m) (i, j); pl := p_give (pl m) e |}
    | None => {| sm := s_delete (sm m) i j; ids := ids m; pl := pl m |}      (* excluded by the invariant *)
    end
  else m.

Definition i_clear (m : imat) : imat := {| sm := s_clear (sm m); ids := []; pl := p_clear (pl m) |}.
Definition i_insert_all (m : imat) (es : list (nat * nat)) : imat := fold_left (fun acc e => fst (i_insert acc (fst e) (snd e))) es m.

(* the copies: destination cleared, then the entries inserted in the C's loop order *)
Definition i_copy (m r : imat) : imat :=
  if (nr (sm r) <? nr (sm m)) || (nc (sm r) <? nc (sm m)) then r else i_insert_all (i_clear r) (entries (sm m)).
Definition i_copyrows (m r : imat) (rows : list nat) : imat :=
  if nc (sm r) <? nc (sm m) then r else
  i_insert_all (i_clear r)
    (flat_map (fun i => map (fun j => (i, j)) (nth (nth i rows 0) (rws (sm m)) [])) (seq 0 (first_bad_row (sm m) rows (nr (sm r))))).
Definition i_copycols (m r : imat) (cols : list nat) : imat :=
  if nr (sm r) <? nr (sm m) then r else
  i_insert_all (i_clear r)
    (flat_map (fun j => map (fun i => (i, j)) (nth (nth j cols 0) (cls (sm m)) [])) (seq 0 (first_bad_col (sm m) cols (nc (sm r))))).
Definition i_copy_filled (m r : imat) (irows icols : list nat) : imat :=
  i_insert_all r (map (fun e => (nth (fst e) irows 0, nth (snd e) icols 0)) (entries (sm m))).

(* ---- executable wrapper: names made canonical (position of the block counted from the oldest) ---- *)
Definition block_pos (p : pool) (b : nat) : nat :=
  let fix go (l : list nat) (k : nat) := match l with [] => 0 | x :: t => if x =? b then k else go t (S k) end in
  go (rev (pblocks p)) 0.
Definition canon (p : pool) (e : nat * nat) : nat * nat := (block_pos p (fst e), snd e).
(* names of the entries in row-major order, and the free list from its head *)
Definition i_dump (m : imat) : list (nat * nat) * list (nat * nat) :=
  (flat_map (fun k => match id_of (ids m) k with Some e => [canon (pl m) e] | None => [(99, 99)] end) (entries (sm m)),
   map (canon (pl m)) (pfree (pl m))).

Inductive iop :=
| IInsert (i j : nat) | IDelete (i j : nat) | IClear
| ICopy (dr dc : nat) (junk : list (nat * nat)) | ICopyRows (rows : list nat) (junk : list (nat * nat))
| ICopyCols (cols : list nat) (junk : list (nat * nat)) | ICopyFilled (irows icols : list nat) (r2 c2 : nat) | INop.

Definition i_step (m : imat) (o : iop) : imat :=
  match o with
  | IInsert i j => fst (i_insert m i j)
  | IDelete i j => i_delete m i j
  | IClear => i_clear m
  | ICopy dr dc junk => i_copy m (i_insert_all (i_allocate (nr (sm m) + dr) (nc (sm m) + dc)) junk)
  | ICopyRows rows junk => i_copyrows m (i_insert_all (i_allocate (nr (sm m)) (nc (sm m))) junk) rows
  | ICopyCols cols junk => i_copycols m (i_insert_all (i_allocate (nr (sm m)) (nc (sm m))) junk) cols
  | ICopyFilled ir ic r2 c2 => i_copy_filled m (i_allocate r2 c2) ir ic
  | INop => m
  end.
