(* Executable wrapper of the sparse-matrix model for the correspondence check (stream `sparse`). *)
From Coq Require Import Arith List Bool.
From OFV Require Import ListAux Sparse SparseOpt SparseChk.
Import ListNotations.

Inductive sop :=
| OInsert (i j : nat) | OFind (i j : nat) | ODelete (i j : nat) | OClear
| OCopy (dr dc : nat) (junk : list (nat * nat))            (* copy into a (nr+dr) x (nc+dc) matrix holding junk, continue on the copy *)
| OCopyRows (rows : list nat) (junk : list (nat * nat))     (* same-size destination, row i := row rows[i] *)
| OCopyCols (cols : list nat) (junk : list (nat * nat))
| OCopyRowsOpt (rows : list nat) (junk : list (nat * nat))  (* of_mod2sparse_copyrows_opt (.., NULL): destination NOT cleared, junk stays *)
| OCopyColsOpt (cols : list nat) (junk : list (nat * nat))
| OCopyFilled (irows icols : list nat) (r2 c2 : nat)        (* renumbered copy into a fresh r2 x c2 matrix *)
| ODenseRoundTrip                                           (* sparse -> dense -> sparse (fresh matrix with junk) *)
| OEmptyRow (i : nat) | OEmptyCol (j : nat) | OWeightRow (i : nat).

(* result code: 0/1 for booleans and statuses, weight for OWeightRow *)
Definition sres_code (s : sres) : nat := match s with Existed => 0 | Inserted => 1 | Garbled => 8 | OutOfRange => 9 end.

Definition sparse_step (m : smat) (o : sop) : smat * nat :=
  match o with
  | OInsert i j => let '(m', s) := s_insert m i j in (m', sres_code s)
  | OFind i j => (m, match s_find m i j with Some true => 1 | Some false => 0 | None => 9 end)
  | ODelete i j => (s_delete m i j, if mem j (nth i (rws m) []) then 1 else 0)
  | OClear => (s_clear m, 0)
  | OCopy dr dc junk => (s_copy m (insert_all (s_allocate (nr m + dr) (nc m + dc)) junk), 0)
  | OCopyRows rows junk => (s_copyrows_chk m (insert_all (s_allocate (nr m) (nc m)) junk) rows, 0)
  | OCopyCols cols junk => (s_copycols_chk m (insert_all (s_allocate (nr m) (nc m)) junk) cols, 0)
  | OCopyRowsOpt rows junk => (s_copyrows_opt m (insert_all (s_allocate (nr m) (nc m)) junk) rows, 0)
  | OCopyColsOpt cols junk => (s_copycols_opt m (insert_all (s_allocate (nr m) (nc m)) junk) cols, 0)
  | OCopyFilled ir ic r2 c2 => (s_copy_filled m (s_allocate r2 c2) ir ic, 0)
  | ODenseRoundTrip => (s_from_dense (s_to_dense m (nr m) (nc m)) (insert_all (s_allocate (nr m) (nc m)) [(0, 0)]), 0)
  | OEmptyRow i => (m, if s_empty_row m i then 1 else 0)
  | OEmptyCol j => (m, if s_empty_col m j then 1 else 0)
  | OWeightRow i => (m, s_weight_row m i)
  end.
