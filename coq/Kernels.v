(* Model M of the symbol kernels (C13):
     of_add_to_symbol, of_add_from_multiple_symbols, of_add_to_multiple_symbols   (of_symbol.c, LP64 path)
     of_addmul1 (of_reed-solomon_gf_2_8.c), of_galois_field_2_8_addmul1, of_galois_field_2_4_addmul1,
     of_galois_field_2_4_addmul1_compact                                          (algebra_2_8.c / algebra_2_4.c, LP64 little-endian path)
   Memory = byte lists.  The loop structure and the offset arithmetic of the C are kept (64-bit
   main loop over size>>3 words, optional 32-bit step, size%4 byte tail; 8/4/2/1 operand
   grouping; 16-byte unrolled GF loop with `lim = dst + sz - 15`, byte tail).  A word operation is
   modelled as the same operation on the bytes the word covers (XOR of words is XOR of their bytes
   whatever the endianness; the little-endian packing of eight table look-ups into a 64-bit word
   puts look-up i on byte i). *)
From Coq Require Import NArith ZArith Arith List Bool.
Import ListNotations.

(* apply f (index, old byte) to the bytes of l at positions off .. off+len-1 *)
Fixpoint upd_range_aux (f : nat -> N -> N) (off len i : nat) (l : list N) : list N :=
  match l with
  | [] => []
  | x :: t => (if (off <=? i) && (i <? off + len) then f i x else x) :: upd_range_aux f off len (S i) t
  end.
Definition upd_range f off len l := upd_range_aux f off len 0 l.

(* ---- XOR kernels ---- *)
(* new byte i = old byte xor byte i of every operand of the group *)
Definition fx (grp : list (list N)) (i : nat) (x : N) : N :=
  fold_left (fun acc s => N.lxor acc (nth i s 0%N)) grp x.

(* for (i = symbolSize64; i > 0; i--) { *t ^= ...; t++; ... } *)
Fixpoint loop64 (cnt w : nat) (grp : list (list N)) (dst : list N) : list N * nat :=
  match cnt with O => (dst, w) | S c => loop64 c (S w) grp (upd_range (fx grp) (8 * w) 8 dst) end.
(* for (i = 0; i < symbolSize32rem; i++) *(t32 + i) ^= ... *)
Fixpoint tail_loop (cnt i off : nat) (grp : list (list N)) (dst : list N) : list N :=
  match cnt with O => dst | S c => tail_loop c (S i) off grp (upd_range (fx grp) (off + i) 1 dst) end.

Definition xor_block (size : nat) (grp : list (list N)) (dst : list N) : list N :=
  let s64 := size / 8 in let s32 := size / 4 in let rem := size mod 4 in
  let '(d, w) := loop64 s64 0 grp dst in
  let off := 8 * w in
  let '(d, off) := if s64 * 2 <? s32 then (upd_range (fx grp) off 4 d, off + 4) else (d, off) in
  tail_loop rem 0 off grp d.

Definition add_to_symbol (dst from : list N) (size : nat) : list N := xor_block size [from] dst.

(* while (from_size >= g) { ...first g operands...; from += g; from_size -= g; } *)
Fixpoint take_groups (g fuel size : nat) (from : list (list N)) (dst : list N) : list N * list (list N) :=
  match fuel with
  | O => (dst, from)
  | S f => if g <=? length from then take_groups g f size (skipn g from) (xor_block size (firstn g from) dst)
           else (dst, from)
  end.
Definition add_from_multiple (dst : list N) (from : list (list N)) (size : nat) : list N :=
  let fuel := S (length from) in
  let '(d, fr) := take_groups 8 fuel size from dst in
  let '(d, fr) := take_groups 4 fuel size fr d in
  let '(d, fr) := take_groups 2 fuel size fr d in
  match fr with [] => d | f :: _ => xor_block size [f] d end.

(* one source into many targets (targets are distinct buffers, none overlaps the source) *)
Fixpoint take_groups_to (g fuel size : nat) (from : list N) (tos done : list (list N)) : list (list N) * list (list N) :=
  match fuel with
  | O => (done, tos)
  | S f => if g <=? length tos
           then take_groups_to g f size from (skipn g tos) (done ++ map (xor_block size [from]) (firstn g tos))
           else (done, tos)
  end.
Definition add_to_multiple (tos : list (list N)) (from : list N) (size : nat) : list (list N) :=
  let fuel := S (length tos) in
  let '(dn, ts) := take_groups_to 8 fuel size from tos [] in
  let '(dn, ts) := take_groups_to 4 fuel size from ts dn in
  let '(dn, ts) := take_groups_to 2 fuel size from ts dn in
  match ts with [] => dn | t :: rest => dn ++ xor_block size [from] t :: rest end.

(* ---- GF multiply-accumulate kernels ---- *)
Definition fmul (mulc : N -> N) (src : list N) (i : nat) (x : N) : N := N.lxor x (mulc (nth i src 0%N)).
(* GF_ADDMULC_COMPACT(dst,x): dst = (dst>>4 ^ mulc[x>>4])<<4 | (dst & 0x0F ^ mulc[x & 0x0F]), stored in a byte *)
Definition fnib (mulc : N -> N) (src : list N) (i : nat) (x : N) : N :=
  let s := nth i src 0%N in
  (N.lor (N.shiftl (N.lxor (N.shiftr x 4) (mulc (N.shiftr s 4))) 4)
         (N.lxor (N.land x 15) (mulc (N.land s 15))) mod 256)%N.

Local Open Scope Z_scope.
(* for (; dst < lim; dst += 16, src += 16) with lim = dst1 + sz - 15: two 64-bit words per turn *)
Fixpoint addmul_main (fuel : nat) (off sz : Z) (f : nat -> N -> N) (dst : list N) : list N * Z :=
  match fuel with
  | O => (dst, off)
  | S k => if off <? sz - 15
           then addmul_main k (off + 16) sz f
                  (upd_range f (Z.to_nat off + 8) 8 (upd_range f (Z.to_nat off) 8 dst))
           else (dst, off)
  end.
(* lim += 15; for (; dst < lim; dst++, src++) *)
Fixpoint addmul_tail (fuel : nat) (off sz : Z) (f : nat -> N -> N) (dst : list N) : list N :=
  match fuel with
  | O => dst
  | S k => if off <? sz then addmul_tail k (off + 1) sz f (upd_range f (Z.to_nat off) 1 dst) else dst
  end.
Definition addmul_gen (fmain ftail : nat -> N -> N) (sz : Z) (dst : list N) : list N :=
  let '(d, off) := addmul_main (Z.to_nat sz) 0 sz fmain dst in
  addmul_tail 16 off sz ftail d.

(* of_addmul1 / of_galois_field_2_8_addmul1 / of_galois_field_2_4_addmul1: table row `mulc` *)
Definition addmul1 (mulc : N -> N) (dst src : list N) (sz : Z) : list N :=
  addmul_gen (fmul mulc src) (fmul mulc src) sz dst.
(* of_galois_field_2_4_addmul1_compact: packed table row in the main loop, nibble formula in the tail *)
Definition addmul1_compact (optrow : N -> N) (dst src : list N) (sz : Z) : list N :=
  addmul_gen (fmul optrow src) (fnib optrow src) sz dst.
