(* C14 — the GF(2^4) and GF(2^8) tables are the fields they claim to be.
   Tables: gen/GenTables.v is re-read from /repo's headers on every run; the third table set is
   what the model of the GF(2^8) codec's run-time generator computes (RS28Gen.v), and
   RS28Corr.v ties that model to the tables dumped from the compiled C.
   Finite domain: 16^2 + 16*256 + 2*256^2 products, all inverses, logs and exps; the bounds are in
   the statements.  mul16 / mul256 / xpow are shift-and-add arithmetic in GF(2)[x]/(x^4+x+1) and
   GF(2)[x]/(x^8+x^4+x^3+x^2+1) (GF2Poly.v). *)
From Coq Require Import NArith Arith List.
From OFV Require Import GF2Poly Tables TablesProofs RS28Gen RS28GenProofs RS28Corr.
From OFV.gen Require Import GenTables GenRS28Dump.
Local Open Scope N_scope.

Theorem gf24_tables_are_field :
  (forall a b, a < 16 -> b < 16 -> get2 gf24_mul a b = mul16 a b) /\
  (forall c x, c < 16 -> x < 256 ->
     get2 gf24_optmul c x = N.lor (N.shiftl (mul16 c (N.shiftr x 4)) 4) (mul16 c (N.land x 15))) /\
  (length gf24_exp = 16%nat /\ forall i, (i < 16)%nat -> nth i gf24_exp 0 = xpow 4 P16 i) /\
  (length gf24_log = 16%nat /\ getN gf24_log 0 = 15 /\
     forall a, 0 < a -> a < 16 -> getN gf24_log a < 15 /\ xpow 4 P16 (N.to_nat (getN gf24_log a)) = a) /\
  (length gf24_inv = 16%nat /\ getN gf24_inv 0 = 0 /\
     forall a, 0 < a -> a < 16 -> getN gf24_inv a < 16 /\ mul16 a (getN gf24_inv a) = 1).
Proof. exact gf24_tables_are_field_proof. Qed.

Theorem gf28_tables_are_field :
  (forall a b, a < 256 -> b < 256 -> get2 gf28_mul a b = mul256 a b) /\
  (length gf28_exp = 256%nat /\ forall i, (i < 256)%nat -> nth i gf28_exp 0 = xpow 8 P256 i) /\
  ((length gf28_log mod 256 = 0)%nat /\ (0 < length gf28_log)%nat /\
     forall i, (i < length gf28_log)%nat ->
       ((i mod 256 = 0)%nat -> nth i gf28_log 0 = 255) /\
       ((i mod 256 <> 0)%nat -> nth i gf28_log 0 < 255 /\
          xpow 8 P256 (N.to_nat (nth i gf28_log 0)) = N.of_nat (i mod 256))) /\
  (length gf28_inv = 256%nat /\ getN gf28_inv 0 = 0 /\
     forall a, 0 < a -> a < 256 -> getN gf28_inv a < 256 /\ mul256 a (getN gf28_inv a) = 1).
Proof. exact gf28_tables_are_field_proof. Qed.

(* the tables the GF(2^8) codec generates at first use (model of of_generate_gf / of_rs_init_mul_table
   run on /repo's GF_BITS and polynomial string) *)
Theorem rs28_generated_tables_are_field :
  rs28_gf_bits = 8 /\
  (forall a b, a < 256 -> b < 256 -> get2 rs28_mulm a b = mul256 a b) /\
  (length (t_exp rs28_tabs) = 510%nat /\ forall i, (i < 510)%nat -> nth i (t_exp rs28_tabs) 0 = xpow 8 P256 i) /\
  (length (t_log rs28_tabs) = 256%nat /\ getN (t_log rs28_tabs) 0 = 255 /\
     forall a, 0 < a -> a < 256 -> getN (t_log rs28_tabs) a < 255 /\
                                   xpow 8 P256 (N.to_nat (getN (t_log rs28_tabs) a)) = a) /\
  (length (t_inv rs28_tabs) = 256%nat /\ getN (t_inv rs28_tabs) 0 = 0 /\
     forall a, 0 < a -> a < 256 -> getN (t_inv rs28_tabs) a < 256 /\ mul256 a (getN (t_inv rs28_tabs) a) = 1).
Proof. exact rs28_generated_tables_are_field_proof. Qed.

(* correspondence, evaluated in Coq: what the compiled C holds after of_rs_init() = the model's tables *)
Theorem rs28_c_tables_are_model_tables :
  c_rs28_exp = t_exp rs28_tabs /\ c_rs28_log = t_log rs28_tabs /\
  c_rs28_inv = t_inv rs28_tabs /\ c_rs28_mul = rs28_mulm.
Proof. exact (conj rs28_c_exp_eq_model (conj rs28_c_log_eq_model (conj rs28_c_inv_eq_model rs28_c_mul_eq_model))). Qed.

Print Assumptions gf24_tables_are_field.
Print Assumptions gf28_tables_are_field.
Print Assumptions rs28_generated_tables_are_field.
Print Assumptions rs28_c_tables_are_model_tables.
