(* C12 instantiated: configuring an LDPC-Staircase session (the only API step that reads the shared
   PRNG state) is local in the sense of Interleave.v, because set_fec_parameters refuses seeds the
   generator would not accept (C09) and the construction ignores the state for accepted ones (C05). *)
From Coq Require Import ZArith Arith List Bool Lia.
From OFV Require Import Sparse Prng Pchk PchkProofs Interleave.
Import ListNotations.

Record cfg := { c_k : nat; c_r : nat; c_n1 : nat; c_seed : Z }.
(* global state = of_seed; session state = the configured matrix (None before / when refused) *)
Definition ldpc_configure (fuel : nat) (g : Z) (_ : option (smat * bool)) (o : cfg) : Z * option (smat * bool) * bool :=
  if ((1 <=? c_seed o) && (c_seed o <=? 2147483646))%Z then
    match pchk fuel (c_k o) (c_r o) (c_n1 o) (c_seed o) g with
    | Some (m, extra, g') => (g', Some (m, extra), true)
    | None => (g, None, false)
    end
  else (g, None, false).

Lemma ldpc_configure_local fuel : forall g g' s o,
  snd (fst (ldpc_configure fuel g s o)) = snd (fst (ldpc_configure fuel g' s o)) /\
  snd (ldpc_configure fuel g s o) = snd (ldpc_configure fuel g' s o).
Proof.
  intros g g' s o. unfold ldpc_configure.
  destruct ((1 <=? c_seed o)%Z && (c_seed o <=? 2147483646)%Z) eqn:E; [|auto].
  apply andb_true_iff in E as (E1 & E2). apply Z.leb_le in E1. apply Z.leb_le in E2.
  rewrite (pchk_ignores_global_state_proof fuel (c_k o) (c_r o) (c_n1 o) (c_seed o) g g') by (unfold PM_P; lia).
  destruct (pchk fuel (c_k o) (c_r o) (c_n1 o) (c_seed o) g') as [[[m extra] g2]|]; auto.
Qed.

Theorem ldpc_sessions_independent_proof fuel : forall (h : list (nat * cfg)) g st i g',
  outs_of bool i (grun Z (option (smat * bool)) cfg bool (ldpc_configure fuel) g st h)
  = solo Z (option (smat * bool)) cfg bool (ldpc_configure fuel) g' (st i) (ops_of cfg i h).
Proof. intros. apply sessions_independent_proof. apply ldpc_configure_local. Qed.
