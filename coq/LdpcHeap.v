(* Ownership ledger of an LDPC-Staircase / 2D-parity decoder session (C08, also C07): which heap blocks the
   library owns after every API call, where it allocates, moves and frees them.

   The control state is the IT/ML model itself, instantiated at Sy := unit (control flow never looks at symbol
   values; the simulation theorems of LdpcHeapProofs.v say so).  On top of it ride
     hct  : per equation, the block holding its partial sum (tab_const_term_of_equ[row])
     htab : per column, who owns the stored buffer: App (the application's received buffer or a buffer its
            callback returned) or Lib b (a block the library allocated)
     hp   : the heap ledger: the set of live library blocks and a counter for fresh block names
     aux  : whether the two index tables of the ML path exist, whether the parity-check matrix still exists
   Allocation sites mirrored from the C (of_it_decoding.c, of_ml_decoding.c, of_ldpc_staircase_api.c):
     step 1   a repair symbol is copied into a fresh block; a source symbol is stored by pointer
     step 2   an equation left with one unknown and no partial sum gets a fresh zeroed block
     step 3   the row's block is detached (tab_const_term_of_equ[row] = NULL), then
              source + callback buffer : contents copied, block freed, recursion with the application's buffer
              source otherwise         : the block itself becomes the stored source symbol (moved, not copied)
              repair                   : recursion (which copies it as in step 1), THEN the block is freed
     release  repair entries of the table, every partial sum, the tables, the matrix, the index tables
   hfree fails (None) on a block that is not live: a double or invalid free in the model is a stuck run.
   of_finish_decoding is modelled by its persistent effect only (blocks that exist before and after the call;
   the temporaries of the Gaussian elimination are allocated and freed inside the call and are not modelled):
   see hfinish.  Call-local scratch (table_of_check_deg_1, permutation arrays, dense matrix ...) likewise. *)
From Coq Require Import List Arith Bool.
From OFV Require Import ListAux ITModel DenseSolve MLModel.
Import ListNotations.
Set Implicit Arguments.

Inductive own := App | Lib (b : nat).

Record heap := { live : list nat; nxt : nat }.
Definition h_empty : heap := {| live := []; nxt := 0 |}.
Definition halloc (h : heap) : heap * nat := ({| live := nxt h :: live h; nxt := S (nxt h) |}, nxt h).
Definition hmem (b : nat) (h : heap) : bool := existsb (Nat.eqb b) (live h).
Definition hfree (h : heap) (b : nat) : option heap :=
  if hmem b h then Some {| live := filter (fun x => negb (x =? b)) (live h); nxt := nxt h |} else None.
Definition free_all (bs : list nat) (h : heap) : option heap :=
  fold_left (fun oh b => match oh with None => None | Some h => hfree h b end) bs (Some h).

Definition ux (_ _ : unit) : unit := tt.
Notation cst := (st unit).

Record hst := { core : cst; hct : list (option nat); htab : list (option own); hp : heap;
                ncb : nat;            (* decoded-source callbacks so far *)
                idx : bool;           (* index_rows / index_cols exist *)
                mat : bool }.         (* pchk_matrix exists *)

Definition with_core (s : hst) (c : cst) : hst :=
  {| core := c; hct := hct s; htab := htab s; hp := hp s; ncb := ncb s; idx := idx s; mat := mat s |}.
Definition with_heap (s : hst) (h : heap) : hst :=
  {| core := core s; hct := hct s; htab := htab s; hp := h; ncb := ncb s; idx := idx s; mat := mat s |}.

Definition hinit (r n : nat) (H : list (list nat)) : hst :=
  {| core := init unit r n H; hct := repeat None r; htab := repeat None n; hp := h_empty; ncb := 0; idx := false; mat := true |}.

(* step 2: every equation whose partial sum was created by this pass gets a fresh block *)
Fixpoint alloc_new (old new : list (option unit)) (hc : list (option nat)) (h : heap) : list (option nat) * heap :=
  match old, new, hc with
  | o :: old', nw :: new', c :: hc' =>
      match o, nw with
      | None, Some _ => let '(h1, b) := halloc h in let '(rr, h2) := alloc_new old' new' hc' h1 in (Some b :: rr, h2)
      | _, _ => let '(rr, h2) := alloc_new old' new' hc' h in (c :: rr, h2)
      end
  | _, _, _ => (hc, h)
  end.

Section Dec.
(* does the callback invocation number n (source and repair callbacks counted together, from 0) return a buffer
   when it is a decoded-source callback?  (no callback registered: never) *)
Variable cbf : nat -> bool.

Fixpoint hstep3 (dec : hst -> nat -> own -> option hst) (L : list nat) (s : hst) : option hst :=
  match L with
  | [] => Some s
  | row :: L' =>
      let '(c', cs) := is_complete (core s) in
      if c' then Some (with_core s cs) else
      if getn (enc cs) row =? 1 then
        match nth row (rws cs) [], nth row (ct cs) None, nth row (hct s) None with
        | [cc], Some _, Some t =>
            let s1 := {| core := consume cs row; hct := upd (hct s) row None; htab := htab s; hp := hp s;
                         ncb := ncb s; idx := idx s; mat := mat s |} in
            if r cs <=? cc then
              (* source symbol *)
              let s1' := {| core := core s1; hct := hct s1; htab := htab s1; hp := hp s1; ncb := S (ncb s1); idx := idx s1; mat := mat s1 |} in
              if cbf (ncb s1) then
                match hfree (hp s1') t with
                | None => None
                | Some h' => match dec (with_heap s1' h') cc App with None => None | Some s2 => hstep3 dec L' s2 end
                end
              else match dec s1' cc (Lib t) with None => None | Some s2 => hstep3 dec L' s2 end
            else
              (* repair symbol (its callback, if any, returns nothing that is used): the recursive call stores a copy,
                 then the partial sum is freed *)
              match dec {| core := core s1; hct := hct s1; htab := htab s1; hp := hp s1; ncb := S (ncb s1); idx := idx s1; mat := mat s1 |} cc App with
              | None => None
              | Some s2 => match hfree (hp s2) t with None => None | Some h' => hstep3 dec L' (with_heap s2 h') end
              end
        | _, _, _ => None
        end
      else hstep3 dec L' (with_core s cs)
  end.

(* p: the buffer handed in for a source column (the application's own buffer, or the one step 3 produced) *)
Fixpoint hdecode (fuel : nat) (s : hst) (c : nat) (p : own) : option hst :=
  match fuel with O => None | S f =>
  if known (core s) c then Some s else
  let '(p', h1) := if c <? r (core s) then let '(h1, b) := halloc (hp s) in (Lib b, h1) else (p, hp s) in
  let cs := set_tab (core s) c tt in
  let htab' := upd (htab s) c (Some p') in
  let early := if r cs <=? c then is_complete cs else (false, cs) in
  if fst early then Some {| core := snd early; hct := hct s; htab := htab'; hp := h1; ncb := ncb s; idx := idx s; mat := mat s |} else
  let cs := snd early in
  let '(cs2, L) := step2 ux tt cs c tt in
  let '(hct2, h2) := alloc_new (ct cs) (ct cs2) (hct s) h1 in
  hstep3 (hdecode f) (rev L) {| core := cs2; hct := hct2; htab := htab'; hp := h2; ncb := ncb s; idx := idx s; mat := mat s |}
  end.

(* ---- of_finish_decoding: persistent effect ---- *)
(* partial sums: an equation that has one afterwards keeps its block or gets a fresh one (allocated by the
   simplification); an equation that has none afterwards had it taken into the solver's table and freed *)
Fixpoint sync_ct (new : list (option unit)) (hc : list (option nat)) (h : heap) : option (list (option nat) * heap) :=
  match new, hc with
  | nw :: new', c :: hc' =>
      match nw, c with
      | Some _, Some b => match sync_ct new' hc' h with None => None | Some (rr, h2) => Some (Some b :: rr, h2) end
      | Some _, None => let '(h1, b) := halloc h in match sync_ct new' hc' h1 with None => None | Some (rr, h2) => Some (Some b :: rr, h2) end
      | None, Some b => match hfree h b with None => None | Some h1 => match sync_ct new' hc' h1 with None => None | Some (rr, h2) => Some (None :: rr, h2) end end
      | None, None => match sync_ct new' hc' h with None => None | Some (rr, h2) => Some (None :: rr, h2) end
      end
  | _, _ => Some (hc, h)
  end.
(* table: a column known afterwards and not before was produced by the solver: a source gets the callback's
   buffer or the solver's block (one callback per such source, in ESI order); repairs found by the solver are
   discarded and never enter the table *)
Fixpoint sync_tab (rr : nat) (i : nat) (new : list (option unit)) (ht : list (option own)) (h : heap) (nc : nat)
  : list (option own) * heap * nat :=
  match new, ht with
  | nw :: new', o :: ht' =>
      match nw, o with
      | Some _, None =>
          if rr <=? i then
            if cbf nc then let '(t2, h2, nc2) := sync_tab rr (S i) new' ht' h (S nc) in (Some App :: t2, h2, nc2)
            else let '(h1, b) := halloc h in let '(t2, h2, nc2) := sync_tab rr (S i) new' ht' h1 (S nc) in (Some (Lib b) :: t2, h2, nc2)
          else (* a repair symbol decoded by the simplification (of_ml_decoding.c, "only one more symbol in the line"): a library block *)
            let '(h1, b) := halloc h in let '(t2, h2, nc2) := sync_tab rr (S i) new' ht' h1 nc in (Some (Lib b) :: t2, h2, nc2)
      | _, _ => let '(t2, h2, nc2) := sync_tab rr (S i) new' ht' h nc in (o :: t2, h2, nc2)
      end
  | _, _ => (ht, h, nc)
  end.

(* did the ML path get past of_linear_binary_code_create_simplified_linear_system?  (same tests as ml_finish) *)
Definition ml_reaches_dense (fuel : nat) (perm : list nat) (s : cst) : bool :=
  let k := n s - r s in
  let s := prepar s in
  let os := fold_left (inject ux fuel) (map (fun i => r s + i) (seq 0 k)) (Some s) in
  let os := fold_left (inject ux fuel) perm os in
  match os with None => false | Some s =>
    let cols := filter (fun c => negb (is_nil (rows_with s c))) (seq 0 (n s)) in
    let rows := filter (fun i => negb (is_nil (nth i (rws s) []))) (seq 0 (r s)) in
    negb ((length cols =? 0) || (length rows <? length cols))
  end.

Definition hfinish (fuel : nat) (perm : list nat) (s : hst) : option (hst * bool) :=
  match ml_finish ux tt fuel perm (core s) with
  | None => None
  | Some o =>
    let cs' := o_st o in
    let dense := ml_reaches_dense fuel perm (core s) in
    match sync_ct (ct cs') (hct s) (hp s) with
    | None => None
    | Some (hct', h1) =>
      let '(htab', h2, nc') := sync_tab (r cs') 0 (tab cs') (htab s) h1 (ncb s) in
      Some ({| core := cs'; hct := hct'; htab := htab'; hp := h2; ncb := nc';
               idx := dense;                       (* a give-up exit frees the index tables again *)
               mat := mat s && negb dense |},      (* the matrix is released once the simplified copy exists *)
            o_ok o)
    end
  end.
End Dec.

(* ---- of_release_codec_instance ---- *)
Definition lib_blocks (l : list (option own)) : list nat :=
  flat_map (fun o => match o with Some (Lib b) => [b] | _ => [] end) l.
Definition somes (l : list (option nat)) : list nat := flat_map (fun o => match o with Some b => [b] | None => [] end) l.

(* repair columns are 0 .. r-1: their stored copies are freed; every remaining partial sum is freed;
   source entries are left to the application *)
Definition hrelease (s : hst) : option heap :=
  free_all (lib_blocks (firstn (r (core s)) (htab s)) ++ somes (hct s)) (hp s).

(* number of library blocks of a session state, fixed ones included: session block, matrix (header, row and
   column arrays, entry blocks), symbol table, the four per-equation tables, the scratch pointer table *)
Definition fixed_blocks (nblk : nat) (s : hst) : nat :=
  1 + (if mat s then 3 + nblk else 0) + 1 + 4 + 1 + (if idx s then 2 else 0).
Definition ledger (nblk : nat) (s : hst) : nat := fixed_blocks nblk s + length (live (hp s)).
