(* Corollaries of the IT = peeling theorem (C04): totality with linear fuel, independence of order
   and duplicates, completion flag. *)
From Coq Require Import List Arith Bool Lia.
From OFV Require Import ITModel ITLemmas ITProofs.
Import ListNotations.

Section C.
Variable Sy : Type. Variable sxor : Sy -> Sy -> Sy. Variable s0 : Sy.
Variable H0 : list (list nat). Variable R0 N0 : nat.
Hypothesis H0_len : length H0 = R0.
Hypothesis H0_nodup : forall i, i < R0 -> NoDup (nth i H0 []).
Hypothesis H0_range : forall i c, i < R0 -> In c (nth i H0 []) -> c < N0.
Hypothesis H0_deg : forall i, i < R0 -> 2 <= length (nth i H0 []).
Hypothesis R_le_N : R0 <= N0.

Let peelH := peel H0 R0.
Let runH := run Sy sxor s0 H0 R0 N0.

Lemma peel_ext (Rc Rc' : nat -> Prop) : (forall e, Rc e -> Rc' e) -> forall c, peelH Rc c -> peelH Rc' c.
Proof.
  intros Hsub c Hp. induction Hp as [c Hc|i c Hi Hin Hall IH].
  - apply peel_recv. auto.
  - apply (peel_row H0 R0 Rc' i c Hi Hin). exact IH.
Qed.

(* full statement of C04 for the model: for every history of in-range symbols (any order,
   repetitions allowed) the run succeeds and the available sources are exactly the source part of
   the peeling closure of the received set; complete <-> the closure has all sources *)
Theorem it_closure_full (hist : list (nat * Sy)) :
  (forall ev, In ev hist -> fst ev < N0) ->
  exists s, runH (S N0) hist = Some s /\
    let Rc := fun e => In e (map fst hist) in
    (forall c, R0 <= c < N0 -> (known s c = true <-> peelH Rc c)) /\
    ((forall c, R0 <= c < N0 -> known s c = true) <-> (forall c, R0 <= c < N0 -> peelH Rc c)).
Proof.
  intros Hr.
  destruct (run_total Sy sxor s0 H0 R0 N0 H0_len H0_nodup H0_range H0_deg R_le_N (S N0) hist ltac:(lia) Hr) as (s & Hs).
  exists s. split; [exact Hs|]. cbv zeta.
  destruct (it_is_peeling Sy sxor s0 H0 R0 N0 H0_len H0_nodup H0_range H0_deg R_le_N (S N0) hist s Hr Hs) as (A & B & _).
  split.
  - intros c Hc. split; [apply A|apply B; exact Hc].
  - split; intros H c Hc; [apply A, H, Hc|apply B; [exact Hc|apply H, Hc]].
Qed.

(* order / duplicate independence: two histories over the same set of symbols make the same
   sources available *)
Theorem it_order_independent (h1 h2 : list (nat * Sy)) s1 s2 :
  (forall ev, In ev h1 -> fst ev < N0) -> (forall ev, In ev h2 -> fst ev < N0) ->
  (forall e, In e (map fst h1) <-> In e (map fst h2)) ->
  runH (S N0) h1 = Some s1 -> runH (S N0) h2 = Some s2 ->
  forall c, R0 <= c < N0 -> known s1 c = known s2 c.
Proof.
  intros R1 R2 Hset E1 E2 c Hc.
  destruct (it_is_peeling Sy sxor s0 H0 R0 N0 H0_len H0_nodup H0_range H0_deg R_le_N (S N0) h1 s1 R1 E1) as (A1 & B1 & _).
  destruct (it_is_peeling Sy sxor s0 H0 R0 N0 H0_len H0_nodup H0_range H0_deg R_le_N (S N0) h2 s2 R2 E2) as (A2 & B2 & _).
  destruct (known s1 c) eqn:K1, (known s2 c) eqn:K2; auto.
  - apply A1 in K1. apply (peel_ext _ (fun e => In e (map fst h2))) in K1; [|intros e; apply Hset].
    apply B2 in K1; [congruence|exact Hc].
  - apply A2 in K2. apply (peel_ext _ (fun e => In e (map fst h1))) in K2; [|intros e; apply Hset].
    apply B1 in K2; [congruence|exact Hc].
Qed.
End C.
