(* Model M of the API layer shared by the two Reed-Solomon codecs
   (of_rs_*/of_rs_2_m_* : decode_with_new_symbol, set_available_symbols, finish_decoding,
   is_decoding_complete, get_source_symbols_tab): counters, trigger, statuses, callback events.
   The algebraic decoder itself (of_rs_decode / of_rs_2m_decode) is a parameter `core`; that it
   succeeds whenever k symbols are present is the MDS property (C02a) and appears as a hypothesis. *)
From Coq Require Import Arith List Bool.
From OFV Require Import ListAux.
Import ListNotations.
Set Implicit Arguments.

Section RSApi.
Variable B : Type.                                   (* symbol buffers (identity + content) *)
Variable core : nat -> list (option B) -> option (list B).   (* k, availability table -> the k source values *)

Inductive status := OK | FAILURE | ERROR.

Record rs := { rk : nat; rn : nat; tab : list (option B); navail : nat; navail_src : nat; fin : bool;
               evs : list nat }.                     (* evs: ESIs passed to the decoded_source_symbol callback *)

Definition rs_init (k n : nat) : rs :=
  {| rk := k; rn := n; tab := repeat None n; navail := 0; navail_src := 0; fin := false; evs := [] |}.

Definition is_some {A} (o : option A) : bool := match o with Some _ => true | None => false end.

(* copy-out loop of finish_decoding: every source entry still empty gets a buffer holding the decoded
   value (from the callback if it returns one, else allocated by the library); one callback per entry *)
Fixpoint fill (cb : bool) (mk : nat -> B -> B) (vals : list B) (t : list (option B)) (i : nat) (ev : list nat)
  : list (option B) * list nat :=
  match vals, t with
  | v :: vals', e :: t' =>
    match e with
    | Some _ => let '(t2, ev2) := fill cb mk vals' t' (S i) ev in (e :: t2, ev2)
    | None => let '(t2, ev2) := fill cb mk vals' t' (S i) (if cb then ev ++ [i] else ev) in (Some (mk i v) :: t2, ev2)
    end
  | _, _ => (t, ev)
  end.

Definition rs_finish (cb : bool) (mk : nat -> B -> B) (s : rs) : rs * status :=
  if fin s then (s, OK) else
  if navail s <? rk s then (s, FAILURE) else
  if navail_src s =? rk s then
    ({| rk := rk s; rn := rn s; tab := tab s; navail := navail s; navail_src := navail_src s; fin := true; evs := evs s |}, OK)
  else match core (rk s) (tab s) with
       | None => (s, ERROR)
       | Some vals =>
         let '(t2, ev2) := fill cb mk vals (tab s) 0 (evs s) in
         ({| rk := rk s; rn := rn s; tab := t2; navail := navail s; navail_src := navail_src s; fin := true; evs := ev2 |}, OK)
       end.

Definition rs_decode_with_new_symbol (cb : bool) (mk : nat -> B -> B) (s : rs) (esi : nat) (b : B) : rs * status :=
  if fin s then (s, OK) else
  match nth esi (tab s) None with
  | Some _ => (s, OK)                                 (* duplicate: ignored *)
  | None =>
    let s1 := {| rk := rk s; rn := rn s; tab := upd (tab s) esi (Some b); navail := S (navail s);
                 navail_src := if esi <? rk s then S (navail_src s) else navail_src s; fin := false; evs := evs s |} in
    if navail_src s1 =? rk s1 then
      ({| rk := rk s1; rn := rn s1; tab := tab s1; navail := navail s1; navail_src := navail_src s1; fin := true; evs := evs s1 |}, OK)
    else if rk s1 <=? navail s1 then
      match rs_finish cb mk s1 with (s2, OK) => (s2, OK) | (s2, _) => (s2, ERROR) end
    else (s1, OK)
  end.

Definition count_some (t : list (option B)) : nat := length (filter is_some t).

Definition rs_set_available (s : rs) (t : list (option B)) : rs * status :=
  ({| rk := rk s; rn := rn s; tab := t; navail := count_some t; navail_src := count_some (firstn (rk s) t);
      fin := fin s; evs := evs s |}, OK).

Definition rs_is_complete (s : rs) : bool := fin s.
(* get_source_symbols_tab: an error (nothing returned) unless decoding is complete *)
Definition rs_source_tab (s : rs) : option (list (option B)) := if fin s then Some (firstn (rk s) (tab s)) else None.
End RSApi.
