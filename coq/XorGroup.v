(* Symbols as an abstract abelian group of exponent 2 (XOR of byte strings of any fixed length). *)
From Coq Require Import Arith List Bool Lia.
Import ListNotations.

Section G.
Variable Sy : Type. Variable sxor : Sy -> Sy -> Sy. Variable s0 : Sy.
Hypothesis sxor_assoc : forall a b c, sxor a (sxor b c) = sxor (sxor a b) c.
Hypothesis sxor_comm : forall a b, sxor a b = sxor b a.
Hypothesis sxor_0_l : forall a, sxor s0 a = a.
Hypothesis sxor_nilp : forall a, sxor a a = s0.

Definition xsum (l : list Sy) : Sy := fold_right sxor s0 l.
Lemma sxor_0_r a : sxor a s0 = a.  Proof. now rewrite sxor_comm, sxor_0_l. Qed.
Lemma xsum_app a b : xsum (a ++ b) = sxor (xsum a) (xsum b).
Proof. induction a as [|x a IH]; simpl; [now rewrite sxor_0_l|]. now rewrite IH, sxor_assoc. Qed.
Lemma xsum_pointwise {A} (f g : A -> Sy) l : xsum (map (fun c => sxor (f c) (g c)) l) = sxor (xsum (map f l)) (xsum (map g l)).
Proof.
  induction l as [|x l IH]; simpl; [now rewrite sxor_0_l|]. rewrite IH.
  rewrite !sxor_assoc. f_equal. rewrite <- !sxor_assoc. f_equal. apply sxor_comm.
Qed.
Lemma xsum_zero {A} (l : list A) : xsum (map (fun _ => s0) l) = s0.
Proof. induction l; simpl; auto. now rewrite IHl, sxor_0_l. Qed.
Lemma sxor_cancel a b c : sxor a b = sxor a c -> b = c.
Proof.
  intros H. assert (E : sxor a (sxor a b) = sxor a (sxor a c)) by now rewrite H.
  rewrite !sxor_assoc, sxor_nilp, !sxor_0_l in E. exact E.
Qed.
Lemma sxor_move a b c : sxor a b = c -> a = sxor c b.
Proof. intros <-. now rewrite <- sxor_assoc, sxor_nilp, sxor_0_r. Qed.
End G.
