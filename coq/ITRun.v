(* Executable wrapper of the IT decoder model for the correspondence check (stream `dec`, api 0,
   no finish): LDPC-Staircase session = IT engine on the parity-check matrix, symbols identified
   by matrix column (sources: esi + r, repairs: esi - k), values = byte lists. *)
From Coq Require Import NArith Arith List Bool.
From OFV Require Import ITModel.
Import ListNotations.

Fixpoint bxor (a b : list N) : list N :=
  match a, b with x :: a', y :: b' => N.lxor x y :: bxor a' b' | _, _ => [] end.

Definition col_of (k r esi : nat) : nat := if esi <? k then esi + r else esi - k.

Record obs := { o_complete : bool; o_src : list bool; o_rep : list bool; o_vals : list (option (list N));
                o_state : st (list N) (* the whole decoder state: the check compares a digest of it with the C's after every call *) }.

Definition observe (k r : nat) (s : st (list N)) : obs :=
  let '(c, _) := is_complete s in
  {| o_complete := c;
     o_src := map (fun i => known s (i + r)) (seq 0 k);
     o_rep := map (fun i => known s i) (seq 0 r);
     o_vals := map (fun i => nth (i + r) (tab s) None) (seq 0 k);
     o_state := s |}.

Fixpoint it_steps (fuel k r L : nat) (s : st (list N)) (vals : list (list N)) (esis : list nat) : list (option obs) :=
  match esis with
  | [] => []
  | e :: rest =>
    match decode bxor (repeat 0%N L) fuel s (col_of k r e) (nth e vals []) with
    | None => [None]
    | Some s' => Some (observe k r s') :: it_steps fuel k r L s' vals rest
    end
  end.

(* lastnull: the decoder session pretends it received the (all-zero) last repair symbol at configuration *)
Definition it_session (k r L : nat) (H : list (list nat)) (lastnull : bool) (vals : list (list N)) (esis : list nat)
  : list (option obs) :=
  let n := k + r in
  let fuel := S (S n) in
  let s0 := init (list N) r n H in
  let s1 := if lastnull then decode bxor (repeat 0%N L) fuel s0 (col_of k r (n - 1)) (repeat 0%N L) else Some s0 in
  match s1 with None => [None] | Some s => it_steps fuel k r L s vals esis end.
