(* C13, GF part: the multiply-accumulate kernels instantiated with the table rows of /repo
   (gen/GenTables.v, proved to be the field in C14) compute the bytewise field definition. *)
From Coq Require Import NArith ZArith Arith List Bool Lia.
From OFV Require Import GF2Poly Tables TablesProofs RS28Gen RS28GenProofs Kernels KernelProofs.
From OFV.gen Require Import GenTables.
Import ListNotations.
Local Open Scope N_scope.

Definition nrange (n : nat) : list N := map N.of_nat (seq 0 n).
Lemma In_nrange x n : x < N.of_nat n -> In x (nrange n).
Proof.
  intros H. unfold nrange. apply in_map_iff. exists (N.to_nat x). split; [apply N2Nat.id|].
  apply in_seq. lia.
Qed.

(* two GF(2^4) elements per byte *)
Definition pack16 (c s : N) : N := N.lor (N.shiftl (mul16 c (N.shiftr s 4)) 4) (mul16 c (N.land s 15)).
Definition nib_formula (x ph pl : N) : N :=
  (N.lor (N.shiftl (N.lxor (N.shiftr x 4) ph) 4) (N.lxor (N.land x 15) pl)) mod 256.

Lemma nib_sweep : forallb (fun x => forallb (fun ph => forallb (fun pl =>
    N.eqb (nib_formula x ph pl) (N.lxor x (N.lor (N.shiftl ph 4) pl))) (nrange 16)) (nrange 16)) (nrange 256) = true.
Proof. vm_compute. reflexivity. Qed.
Lemma nib_formula_ok x ph pl : x < 256 -> ph < 16 -> pl < 16 ->
  nib_formula x ph pl = N.lxor x (N.lor (N.shiftl ph 4) pl).
Proof.
  intros Hx Hh Hl. pose proof nib_sweep as H. rewrite forallb_forall in H.
  specialize (H x (In_nrange x 256 Hx)). rewrite forallb_forall in H.
  specialize (H ph (In_nrange ph 16 Hh)). rewrite forallb_forall in H.
  specialize (H pl (In_nrange pl 16 Hl)). apply N.eqb_eq in H. exact H.
Qed.

Lemma mul16_sweep : forallb (fun c => forallb (fun h =>
    N.ltb (mul16 c h) 16 && N.eqb (mul16 c 0) 0) (nrange 16)) (nrange 16) = true.
Proof. vm_compute. reflexivity. Qed.
Lemma mul16_lt c h : c < 16 -> h < 16 -> mul16 c h < 16 /\ mul16 c 0 = 0.
Proof.
  intros Hc Hh. pose proof mul16_sweep as H. rewrite forallb_forall in H.
  specialize (H c (In_nrange c 16 Hc)). rewrite forallb_forall in H.
  specialize (H h (In_nrange h 16 Hh)). apply andb_true_iff in H as [H1 H2].
  apply N.ltb_lt in H1. apply N.eqb_eq in H2. auto.
Qed.

Lemma nib_bounds_sweep : forallb (fun s => N.ltb (N.shiftr s 4) 16 && N.ltb (N.land s 15) 16 &&
    N.eqb (N.shiftr (N.shiftr s 4) 4) 0 && N.eqb (N.land (N.shiftr s 4) 15) (N.shiftr s 4) &&
    N.eqb (N.shiftr (N.land s 15) 4) 0 && N.eqb (N.land (N.land s 15) 15) (N.land s 15)) (nrange 256) = true.
Proof. vm_compute. reflexivity. Qed.

(* the packed table row applied to a nibble-sized index is the plain product *)
Lemma optrow_nibble c h : c < 16 -> h < 16 -> get2 gf24_optmul c h = mul16 c h.
Proof.
  intros Hc Hh. destruct gf24_tables_are_field_proof as (_ & Hopt & _).
  rewrite Hopt by lia.
  assert (Hs : forallb (fun h => N.eqb (N.shiftr h 4) 0 && N.eqb (N.land h 15) h) (nrange 16) = true) by (vm_compute; reflexivity).
  rewrite forallb_forall in Hs. specialize (Hs h (In_nrange h 16 Hh)).
  apply andb_true_iff in Hs as [H1 H2]. apply N.eqb_eq in H1. apply N.eqb_eq in H2.
  rewrite H1, H2. destruct (mul16_lt c h Hc Hh) as [_ H0]. rewrite H0. reflexivity.
Qed.

Theorem addmul1_compact_gf16 c dst src sz : (0 <= sz)%Z -> c < 16 ->
  Forall (fun b => b < 256) dst -> Forall (fun b => b < 256) src ->
  addmul1_compact (get2 gf24_optmul c) dst src sz =
  upd_range (fun i x => N.lxor x (pack16 c (nth i src 0))) 0 (Z.to_nat sz) dst.
Proof.
  intros Hsz Hc Hd Hs. unfold addmul1_compact.
  assert (Hsrc : forall i, nth i src 0 < 256).
  { intros i. destruct (Nat.lt_ge_cases i (length src)) as [Hi|Hi].
    - rewrite Forall_forall in Hs. apply Hs, nth_In, Hi.
    - rewrite nth_overflow by exact Hi. lia. }
  rewrite addmul_gen_spec; [| exact Hsz | | exact Hd].
  - apply upd_range_ext. intros j _ _. unfold fmul. f_equal.
    destruct gf24_tables_are_field_proof as (_ & Hopt & _). apply Hopt; [exact Hc|apply Hsrc].
  - intros j x Hx. unfold fnib, fmul. specialize (Hsrc j). set (s := nth j src 0) in *.
    pose proof nib_bounds_sweep as Hb. rewrite forallb_forall in Hb. specialize (Hb s (In_nrange s 256 Hsrc)).
    repeat (apply andb_true_iff in Hb as [Hb ?]).
    repeat match goal with H : N.ltb _ _ = true |- _ => apply N.ltb_lt in H | H : N.eqb _ _ = true |- _ => apply N.eqb_eq in H end.
    rewrite !optrow_nibble by assumption.
    destruct gf24_tables_are_field_proof as (_ & Hopt & _). rewrite (Hopt c s Hc Hsrc).
    destruct (mul16_lt c (N.shiftr s 4) Hc Hb) as [Hh _].
    destruct (mul16_lt c (N.land s 15) Hc ltac:(assumption)) as [Hl _].
    apply (nib_formula_ok x _ _ Hx Hh Hl).
Qed.

(* GF(2^8): row c of a multiplication table proved equal to mul256 *)
Theorem addmul1_gf256_2m c dst src sz : (0 <= sz)%Z -> c < 256 -> Forall (fun b => b < 256) src ->
  addmul1 (get2 gf28_mul c) dst src sz =
  upd_range (fun i x => N.lxor x (mul256 c (nth i src 0))) 0 (Z.to_nat sz) dst.
Proof.
  intros Hsz Hc Hs. rewrite addmul1_spec by exact Hsz. apply upd_range_ext. intros j _ _. f_equal.
  destruct gf28_tables_are_field_proof as (Hm & _). apply Hm; [exact Hc|].
  destruct (Nat.lt_ge_cases j (length src)) as [Hi|Hi].
  - rewrite Forall_forall in Hs. apply Hs, nth_In, Hi.
  - rewrite nth_overflow by exact Hi. lia.
Qed.

Theorem addmul1_gf256_rs28 c dst src sz : (0 <= sz)%Z -> c < 256 -> Forall (fun b => b < 256) src ->
  addmul1 (get2 rs28_mulm c) dst src sz =
  upd_range (fun i x => N.lxor x (mul256 c (nth i src 0))) 0 (Z.to_nat sz) dst.
Proof.
  intros Hsz Hc Hs. rewrite addmul1_spec by exact Hsz. apply upd_range_ext. intros j _ _. f_equal.
  destruct rs28_generated_tables_are_field_proof as (_ & Hm & _). apply Hm; [exact Hc|].
  destruct (Nat.lt_ge_cases j (length src)) as [Hi|Hi].
  - rewrite Forall_forall in Hs. apply Hs, nth_In, Hi.
  - rewrite nth_overflow by exact Hi. lia.
Qed.

Theorem addmul1_gf16_bytes c dst src sz : (0 <= sz)%Z -> c < 16 -> Forall (fun b => b < 16) src ->
  addmul1 (get2 gf24_mul c) dst src sz =
  upd_range (fun i x => N.lxor x (mul16 c (nth i src 0))) 0 (Z.to_nat sz) dst.
Proof.
  intros Hsz Hc Hs. rewrite addmul1_spec by exact Hsz. apply upd_range_ext. intros j _ _. f_equal.
  destruct gf24_tables_are_field_proof as (Hm & _). apply Hm; [exact Hc|].
  destruct (Nat.lt_ge_cases j (length src)) as [Hi|Hi].
  - rewrite Forall_forall in Hs. apply Hs, nth_In, Hi.
  - rewrite nth_overflow by exact Hi. lia.
Qed.
