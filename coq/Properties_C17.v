(* C17 — sparse GF(2) matrix = set of (row, column) pairs under any operation sequence.
   has m i j is membership in the abstract set; WF m packages: every row/column traversal is
   strictly increasing and in range, rows and columns agree, and the entry pool is exactly
   accounted for (blocks * block size = free entries + live entries). *)
From Coq Require Import Arith List Bool.
From OFV Require Import ListAux Sparse SparseProofs.
Import ListNotations.

Theorem sparse_allocate_empty : forall r c, WF (s_allocate r c) /\ forall i j, has (s_allocate r c) i j = false.
Proof. exact allocate_wf. Qed.

Theorem sparse_find_is_membership : forall m i j, WF m -> i < nr m -> j < nc m -> s_find m i j = Some (has m i j).
Proof. exact find_spec. Qed.

Theorem sparse_insert_adds_exactly_one : forall m i j, WF m -> i < nr m -> j < nc m ->
  let '(m', st) := s_insert m i j in
  WF m' /\ nr m' = nr m /\ nc m' = nc m /\
  (forall i' j', has m' i' j' = has m i' j' || ((i' =? i) && (j' =? j))) /\
  (st = if has m i j then Existed else Inserted).
Proof. exact insert_spec. Qed.

Theorem sparse_insert_idempotent : forall m i j, WF m -> i < nr m -> j < nc m -> has m i j = true -> s_insert m i j = (m, Existed).
Proof. exact insert_idempotent. Qed.

Theorem sparse_delete_removes_exactly_one : forall m i j, WF m -> i < nr m -> j < nc m ->
  WF (s_delete m i j) /\ (forall i' j', has (s_delete m i j) i' j' = has m i' j' && negb ((i' =? i) && (j' =? j))).
Proof. exact delete_spec. Qed.

Theorem sparse_clear_empties : forall m, WF (s_clear m) /\ forall i j, has (s_clear m) i j = false.
Proof. exact clear_wf. Qed.

Theorem sparse_bulk_insert : forall es r, WF r -> (forall e, In e es -> fst e < nr r /\ snd e < nc r) ->
  WF (insert_all r es) /\ nr (insert_all r es) = nr r /\ nc (insert_all r es) = nc r /\
  forall i j, has (insert_all r es) i j = has r i j || existsb (fun e => (i =? fst e) && (j =? snd e)) es.
Proof. exact insert_all_spec. Qed.

Theorem sparse_copy_is_the_same_set : forall m r, WF m -> WF r -> nr m <= nr r -> nc m <= nc r ->
  WF (s_copy m r) /\ forall i j, has (s_copy m r) i j = (i <? nr m) && has m i j.
Proof. exact copy_spec. Qed.

Theorem sparse_traversals_sorted : forall m, WF m ->
  (forall i, i < nr m -> ssorted (nth i (rws m) []) /\ forall j, In j (nth i (rws m) []) <-> has m i j = true) /\
  (forall j, j < nc m -> ssorted (nth j (cls m) []) /\ forall i, i < nr m -> (In i (nth j (cls m) []) <-> has m i j = true)).
Proof. exact traversals_sorted. Qed.

Theorem sparse_pool_accounting : forall m, WF m -> nblocks m * BLOCK = nfree m + total m.
Proof. exact pool_accounting. Qed.

Print Assumptions sparse_insert_adds_exactly_one.
Print Assumptions sparse_find_is_membership.
Print Assumptions sparse_copy_is_the_same_set.
