(* C17 — sparse GF(2) matrix = set of (row, column) pairs under any operation sequence.
   has m i j is membership in the abstract set; WF m packages: every row/column traversal is
   strictly increasing and in range, rows and columns agree, and the entry pool is exactly
   accounted for (blocks * block size = free entries + live entries). *)
From Coq Require Import Arith List Bool.
From OFV Require Import ListAux Sparse SparseProofs SparseOpt SparseOptProofs SparseChk SparseId SparseIdProofs.
Import ListNotations.

Theorem sparse_allocate_empty : forall r c, WF (s_allocate r c) /\ forall i j, has (s_allocate r c) i j = false.
Proof. exact allocate_wf. Qed.

Theorem sparse_find_is_membership : forall m i j, WF m -> i < nr m -> j < nc m -> s_find m i j = Some (has m i j).
Proof. exact find_spec. Qed.

Theorem sparse_insert_adds_exactly_one : forall m i j, WF m -> i < nr m -> j < nc m ->
  let '(m', st) := s_insert m i j in
  WF m' /\ nr m' = nr m /\ nc m' = nc m /\
  (forall i' j', has m' i' j' = has m i' j' || ((i' =? i) && (j' =? j))) /\
  (st = if has m i j then Existed else Inserted).
Proof. exact insert_spec. Qed.

Theorem sparse_insert_idempotent : forall m i j, WF m -> i < nr m -> j < nc m -> has m i j = true -> s_insert m i j = (m, Existed).
Proof. exact insert_idempotent. Qed.

Theorem sparse_delete_removes_exactly_one : forall m i j, WF m -> i < nr m -> j < nc m ->
  WF (s_delete m i j) /\ (forall i' j', has (s_delete m i j) i' j' = has m i' j' && negb ((i' =? i) && (j' =? j))).
Proof. exact delete_spec. Qed.

Theorem sparse_clear_empties : forall m, WF (s_clear m) /\ forall i j, has (s_clear m) i j = false.
Proof. exact clear_wf. Qed.

Theorem sparse_bulk_insert : forall es r, WF r -> (forall e, In e es -> fst e < nr r /\ snd e < nc r) ->
  WF (insert_all r es) /\ nr (insert_all r es) = nr r /\ nc (insert_all r es) = nc r /\
  forall i j, has (insert_all r es) i j = has r i j || existsb (fun e => (i =? fst e) && (j =? snd e)) es.
Proof. exact insert_all_spec. Qed.

Theorem sparse_copy_is_the_same_set : forall m r, WF m -> WF r -> nr m <= nr r -> nc m <= nc r ->
  WF (s_copy m r) /\ forall i j, has (s_copy m r) i j = (i <? nr m) && has m i j.
Proof. exact copy_spec. Qed.

(* copy-rows / copy-columns, with their error exit: the destination is cleared, then row i := row rows[i] of the source for the rows
   before the first out-of-range index (all of them when there is none) *)
Theorem sparse_copyrows_selects_rows : forall m r rows, WF m -> WF r -> nc m <= nc r ->
  WF (s_copyrows_chk m r rows) /\ nr (s_copyrows_chk m r rows) = nr r /\ nc (s_copyrows_chk m r rows) = nc r /\
  forall i j, has (s_copyrows_chk m r rows) i j = (i <? first_bad_row m rows (nr r)) && has m (nth i rows 0) j.
Proof. exact copyrows_chk_spec. Qed.

Theorem sparse_copycols_selects_columns : forall m r cols, WF m -> WF r -> nr m <= nr r ->
  WF (s_copycols_chk m r cols) /\ nr (s_copycols_chk m r cols) = nr r /\ nc (s_copycols_chk m r cols) = nc r /\
  forall i j, has (s_copycols_chk m r cols) i j = (j <? first_bad_col m cols (nc r)) && (i <? nr m) && has m i (nth j cols 0).
Proof. exact copycols_chk_spec. Qed.

(* the "optimised" copies do not clear the destination: the result is the union; their hinted column walk inserts exactly as
   of_mod2sparse_insert does whenever the hint is an entry of the column at or above the new row (insert_opt_is_insert) *)
Theorem sparse_insert_opt_is_insert : forall m i j hint, WF m -> i < nr m -> j < nc m -> hint_ok m i j hint -> s_insert_opt m i j hint = s_insert m i j.
Proof. exact insert_opt_spec. Qed.

Theorem sparse_copyrows_opt_adds_rows : forall m r rows, WF m -> WF r -> nc m <= nc r ->
  WF (s_copyrows_opt m r rows) /\ nr (s_copyrows_opt m r rows) = nr r /\ nc (s_copyrows_opt m r rows) = nc r /\
  forall i j, has (s_copyrows_opt m r rows) i j = has r i j || ((i <? first_bad_row m rows (nr r)) && has m (nth i rows 0) j).
Proof. exact copyrows_opt_spec. Qed.

Theorem sparse_copycols_opt_adds_columns : forall m r cols, WF m -> WF r -> nr m <= nr r ->
  WF (s_copycols_opt m r cols) /\ nr (s_copycols_opt m r cols) = nr r /\ nc (s_copycols_opt m r cols) = nc r /\
  forall i j, has (s_copycols_opt m r cols) i j = has r i j || ((j <? first_bad_col m cols (nc r)) && (i <? nr m) && has m i (nth j cols 0)).
Proof. exact copycols_opt_spec. Qed.

(* copy_filled_matrix: the entries renumbered through the two index tables, added to what the destination holds *)
Theorem sparse_copy_filled_renumbers : forall m r irows icols, WF m -> WF r ->
  (forall e, In e (entries m) -> nth (fst e) irows 0 < nr r /\ nth (snd e) icols 0 < nc r) ->
  WF (s_copy_filled m r irows icols) /\ nr (s_copy_filled m r irows icols) = nr r /\ nc (s_copy_filled m r irows icols) = nc r /\
  forall i j, has (s_copy_filled m r irows icols) i j =
              has r i j || existsb (fun e => (i =? nth (fst e) irows 0) && (j =? nth (snd e) icols 0)) (entries m).
Proof. exact copy_filled_spec. Qed.

(* sparse -> dense -> sparse gives the same set back, whatever the destination held *)
Theorem sparse_dense_round_trip : forall m r, WF m -> WF r -> nr r = nr m -> nc r = nc m ->
  WF (s_from_dense (s_to_dense m (nr m) (nc m)) r) /\ nr (s_from_dense (s_to_dense m (nr m) (nc m)) r) = nr r /\
  nc (s_from_dense (s_to_dense m (nr m) (nc m)) r) = nc r /\
  forall i j, i < nr m -> j < nc m -> has (s_from_dense (s_to_dense m (nr m) (nc m)) r) i j = has m i j.
Proof. exact dense_roundtrip. Qed.

Theorem sparse_traversals_sorted : forall m, WF m ->
  (forall i, i < nr m -> ssorted (nth i (rws m) []) /\ forall j, In j (nth i (rws m) []) <-> has m i j = true) /\
  (forall j, j < nc m -> ssorted (nth j (cls m) []) /\ forall i, i < nr m -> (In i (nth j (cls m) []) <-> has m i j = true)).
Proof. exact traversals_sorted. Qed.

Theorem sparse_pool_accounting : forall m, WF m -> nblocks m * BLOCK = nfree m + total m.
Proof. exact pool_accounting. Qed.

(* ---- the entry pool at the level of entry identities (SparseId.v): "no operation touches freed memory, and freeing
   the matrix releases everything".  Every entry of the matrix and of the free list is named by (block, slot) exactly as
   of_alloc_entry hands them out; the names the compiled C uses are compared with the model's after every operation.
   In every state reachable from of_mod2sparse_allocate by insert / delete / clear / copy / copy-rows / copy-columns /
   copy-filled-matrix: exactly the matrix's entries are named, no slot is in use twice or both in use and free, EVERY
   entry in use or on the free list lies in a block that has not been released, every slot of every live block is in use
   or free, and Sparse.v's two counters are the lengths of the block list and of the free list. *)
Theorem entry_pool_invariant_in_every_reachable_state : forall m, reach m -> WF (sm m) /\ PInv m.
Proof. exact reach_inv. Qed.
Theorem no_entry_in_a_released_block : forall m, PInv m -> forall k e, id_of (ids m) k = Some e -> In (fst e) (pblocks (pl m)).
Proof. exact no_dangling_entry. Qed.
Theorem free_list_stays_inside_live_blocks : forall m, PInv m -> forall e, In e (pfree (pl m)) -> In (fst e) (pblocks (pl m)).
Proof. exact free_list_in_live_blocks. Qed.
Theorem an_entry_handed_out_is_not_in_use : forall m, PInv m -> let '(p', e) := p_take (pl m) in ~ In e (map snd (ids m)).
Proof. exact take_is_fresh. Qed.
Theorem two_entries_never_share_a_slot : forall m, PInv m -> forall k1 k2 e, id_of (ids m) k1 = Some e -> id_of (ids m) k2 = Some e -> k1 = k2.
Proof. exact names_distinct. Qed.
Theorem clear_releases_every_block : forall m, pblocks (pl (i_clear m)) = [] /\ pfree (pl (i_clear m)) = [] /\ ids (i_clear m) = [].
Proof. exact clear_releases_everything. Qed.
(* the defect repaired in 1d8dcbc (clear released the blocks but kept the free list) is exactly a violation of this invariant *)
Theorem the_pre_fix_clear_left_a_dangling_free_list :
  exists m, reach m /\ PInv m /\ pfree (pl m) <> [] /\
            ~ (forall e, In e (pfree (p_clear_buggy (pl m))) -> In (fst e) (pblocks (p_clear_buggy (pl m)))).
Proof. exact buggy_clear_example. Qed.

Print Assumptions entry_pool_invariant_in_every_reachable_state.
Print Assumptions the_pre_fix_clear_left_a_dangling_free_list.
Print Assumptions sparse_insert_adds_exactly_one.
Print Assumptions sparse_find_is_membership.
Print Assumptions sparse_copy_is_the_same_set.
Print Assumptions sparse_copyrows_selects_rows.
Print Assumptions sparse_copyrows_opt_adds_rows.
Print Assumptions sparse_copycols_opt_adds_columns.
Print Assumptions sparse_copy_filled_renumbers.
Print Assumptions sparse_dense_round_trip.
