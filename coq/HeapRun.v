(* Executable wrapper of the ownership ledger (LdpcHeap.v) for the correspondence check: one LDPC-Staircase / 2D
   decoder session; the number of library blocks after set-up, after every submission call, after
   of_finish_decoding and what is left after of_release_codec_instance (the decoded source symbols the
   application owns).  harness/drv_dec.c reports the same numbers from link-time allocation counters. *)
From Coq Require Import Arith List Bool.
From OFV Require Import ITModel ITRun MLModel LdpcHeap.
Import ListNotations.

Definition cbf_of_mode (m : nat) : nat -> bool :=
  match m with 1 => fun _ => true | 3 => fun i => Nat.even i | _ => fun _ => false end.

Fixpoint h_steps (cbf : nat -> bool) (fuel k r nblk : nat) (s : hst) (esis : list nat) : list (option nat) * option hst :=
  match esis with
  | [] => ([], Some s)
  | e :: rest =>
    match hdecode cbf fuel s (col_of k r e) App with
    | None => ([None], None)
    | Some s' => let '(l, f) := h_steps cbf fuel k r nblk s' rest in (Some (ledger nblk s') :: l, f)
    end
  end.

(* result: ledger after set-up; after every submission (api 0) or after the single of_set_available_symbols call
   (api 1: the table is walked in increasing ESI order); after finish (if requested); blocks left after release
   together with the number of source entries that hold a library block (these two must be equal) *)
Record heap_obs := { ho_setup : nat; ho_calls : list (option nat); ho_finish : option (option (nat * bool));
                     ho_left : option (nat * nat);
                     ho_own : list (option own) (* who owns each source entry at the end: compared with the pointers of of_get_source_symbols_tab *) }.

Definition heap_session (k r nblk : nat) (H : list (list nat)) (lastnull : bool) (cbmode : nat) (api1 : bool)
                        (esis : list nat) (fin : bool) (perm : list nat) : option heap_obs :=
  let n := k + r in
  let fuel := S (S n) in
  let cbf := cbf_of_mode cbmode in
  let s0 := hinit r n H in
  let s1 := if lastnull then hdecode (fun _ => false) fuel s0 (col_of k r (n - 1)) App else Some s0 in
  match s1 with
  | None => None
  | Some s =>
    let '(l, f) := h_steps cbf fuel k r nblk s esis in
    match f with
    | None => Some {| ho_setup := ledger nblk s; ho_calls := l; ho_finish := None; ho_left := None; ho_own := [] |}
    | Some sf =>
      let calls := if api1 then [Some (ledger nblk sf)] else l in
      let '(fo, sl) := if fin then match hfinish cbf fuel perm sf with
                                   | None => (Some None, None)
                                   | Some (s2, ok) => (Some (Some (ledger nblk s2, ok)), Some s2) end
                       else (None, Some sf) in
      Some {| ho_setup := ledger nblk s; ho_calls := calls; ho_finish := fo;
         ho_left := match sl with None => None | Some s2 =>
                      match hrelease s2 with None => None
                      | Some h => Some (length (live h), length (lib_blocks (skipn (ITModel.r (core s2)) (htab s2)))) end end;
         ho_own := match sl with None => [] | Some s2 => skipn (ITModel.r (core s2)) (htab s2) end |}
      
    end
  end.
