(* Session-level theorem for the LDPC erasure decoder model: the streaming (iterative) decoder
   (ITModel.decode, run over a history of received symbols) followed by the maximum-likelihood
   finish (MLModel.ml_finish).

     Part 1  an invariant of the streaming decoder that holds in EVERY reachable state, complete or
             not (RJ, Keep): rows are duplicate-free sub-lists of the original rows, a row carries a
             partial sum exactly when its entry counter is the row length and the sum is the sum of
             the codeword symbols of the entries that are left, and no unknown column is ever
             removed from a row.
     Part 2  the precondition JF of the ML finish that follows from it; it generalises MLPre
             (MLSimplify.v) and is enough for the whole of MLFinish.v (ml_finish_JF).
     Part 3  good_MLPre: not-complete reachable states satisfy MLPre (the bridge to MLFinish.v as it
             stands).
     Part 4  Det s <-> DetR hist (peeling closure and kernel vectors) and the session theorems
             ldpc_session_finish, ldpc_session_finish_total, ldpc_session_finish_order_independent.

   NOTE.  The finish may decode repair symbols from the partial sums that the streaming decoder
   left behind also when the streaming decoder had stopped early on completion; "never a wrong
   symbol" therefore needs the VALUES of the partial sums in complete states as well.  This is why
   Part 1 carries the values and the session theorem goes through JF for both cases instead of a
   purely structural treatment of the complete case. *)
From Coq Require Import List Arith Bool Lia.
From OFV Require Import XorGroup ITModel ITLemmas ITProofs MLModel MLSimplify LdpcEnc MLFinish.
From OFV Require DenseSolveComplete StableTables ITCorollaries.
Import ListNotations.

Section Session.
Variable Sy : Type. Variable sxor : Sy -> Sy -> Sy. Variable s0 : Sy.
Hypothesis sxor_assoc : forall a b c, sxor a (sxor b c) = sxor (sxor a b) c.
Hypothesis sxor_comm : forall a b, sxor a b = sxor b a.
Hypothesis sxor_0_l : forall a, sxor s0 a = a.
Hypothesis sxor_nilp : forall a, sxor a a = s0.

Variable H0 : list (list nat).
Variable R0 N0 : nat.
Hypothesis H0_len : length H0 = R0.
Hypothesis H0_nodup : forall i, i < R0 -> NoDup (nth i H0 []).
Hypothesis H0_range : forall i c, i < R0 -> In c (nth i H0 []) -> c < N0.
Hypothesis H0_deg : forall i, i < R0 -> 2 <= length (nth i H0 []).
Hypothesis R_le_N : R0 <= N0.

Hypothesis H0_cols : forall c, c < N0 -> exists i, i < R0 /\ In c (nth i H0 []).
Hypothesis H0_stair : stair R0 H0.
Hypothesis Sy_nontrivial : exists a : Sy, a <> s0.

Variable cw : nat -> Sy.
Hypothesis parity : forall i, i < R0 -> xs Sy sxor s0 cw (nth i H0 []) = s0.

Notation st := (st Sy).
Notation WF := (WF Sy R0 N0).
Notation Good := (Good Sy H0 R0 N0).
Notation Kmono := (Kmono Sy).
Notation iscomp := (iscomp Sy R0 N0).
Notation gs := (xs Sy sxor s0).
Notation run := (run Sy sxor s0 H0 R0 N0).
Notation hker := (hker H0 R0).
Notation Det := (Det Sy H0 R0 N0).
Notation MLInv := (MLInv Sy sxor s0 H0 R0 N0).
Notation MLPre := (MLPre Sy H0 R0 N0).
Notation val := (val Sy s0).
Notation dstep fuel := (fun os ev => match os with Some s => decode sxor s0 fuel s (fst ev) (snd ev) | None => None end).

Lemma sx0r a : sxor a s0 = a.
Proof. rewrite sxor_comm. apply sxor_0_l. Qed.

Lemma grp1 x A B : sxor (sxor (sxor x (sxor A B)) x) A = B.
Proof.
  rewrite (sxor_comm (sxor x (sxor A B)) x). rewrite (sxor_assoc x x (sxor A B)).
  rewrite sxor_nilp, sxor_0_l. rewrite (sxor_comm A B). rewrite <- sxor_assoc, sxor_nilp. apply sx0r.
Qed.

Lemma gs_remove c l : NoDup l -> In c l -> gs cw l = sxor (cw c) (gs cw (filter (fun x => negb (x =? c)) l)).
Proof. exact (xs_remove Sy sxor s0 H0 R0 N0 H0_len H0_nodup H0_range H0_deg R_le_N sxor_assoc sxor_comm cw parity c l). Qed.

Lemma gs_split (p : nat -> bool) l : gs cw l = sxor (gs cw (filter p l)) (gs cw (filter (fun x => negb (p x)) l)).
Proof. exact (xs_filter_split Sy sxor s0 sxor_assoc sxor_comm sxor_0_l cw p l). Qed.

Lemma upd_nth {A} (l : list A) i j x d : nth j (upd l i x) d = if (j =? i) && (i <? length l) then x else nth j l d.
Proof. exact (nth_upd_same_or H0 R0 N0 H0_len R_le_N A l i j x d). Qed.

(* ============================================================================================ *)
(* Part 1.  The invariant of the streaming decoder                                               *)
(* ============================================================================================ *)
Definition RowJ (s : st) (i : nat) : Prop :=
  NoDup (nth i (rws s) []) /\ incl (nth i (rws s) []) (nth i H0 []) /\
  match nth i (ct s) None with
  | None => nth i (rws s) [] = [] \/ (nth i (rws s) [] = nth i H0 [] /\ getn (enc s) i = length (nth i H0 []))
  | Some t => getn (enc s) i = length (nth i (rws s) []) /\ (nth i (rws s) [] <> [] -> t = gs cw (nth i (rws s) []))
  end.

Record RJ (s : st) : Prop := {
  rj_r : r s = R0;
  rj_rws : length (rws s) = R0;
  rj_enc : length (enc s) = R0;
  rj_ct : length (ct s) = R0;
  rj_tab : length (tab s) = N0;
  rj_val : forall c v, nth c (tab s) None = Some v -> v = cw c;
  rj_row : forall i, i < R0 -> RowJ s i }.

(* no unknown column has been removed from a row (KeepX: except column e, which is about to be stored) *)
Definition Keep (s : st) : Prop :=
  forall i c, i < R0 -> In c (nth i H0 []) -> known s c = false -> In c (nth i (rws s) []).
Definition KeepX (e : nat) (s : st) : Prop :=
  forall i c, i < R0 -> In c (nth i H0 []) -> known s c = false -> c <> e -> In c (nth i (rws s) []).

(* the structural part alone (rows are only ever filtered or emptied) *)
Definition Sub (s : st) : Prop :=
  length (rws s) = R0 /\ forall i, i < R0 -> NoDup (nth i (rws s) []) /\ incl (nth i (rws s) []) (nth i H0 []).

Lemma RJ_Sub (s : st) : RJ s -> Sub s.
Proof.
  intros J. split; [apply J|]. intros i Hi. destruct (rj_row s J i Hi) as (A & B & _). split; [exact A|exact B].
Qed.

Lemma RJ_fields (s s' : st) : r s' = r s -> rws s' = rws s -> enc s' = enc s -> ct s' = ct s -> tab s' = tab s ->
  RJ s -> RJ s'.
Proof.
  intros E1 E2 E3 E4 E5 [J1 J2 J3 J4 J5 J6 J7].
  constructor; try congruence.
  - rewrite E5. exact J6.
  - intros i Hi. unfold RowJ. rewrite E2, E3, E4. exact (J7 i Hi).
Qed.

Lemma Keep_fields (s s' : st) : rws s' = rws s -> tab s' = tab s -> Keep s -> Keep s'.
Proof.
  intros E2 E5 K i c Hi Hin Hk. rewrite E2. apply K; auto. now rewrite <- (known_tab_eq Sy s s' E5).
Qed.

(* ---------- one row of step 2 ---------- *)
Definition srS (s : st) (c : nat) (v : Sy) (row : nat) (t : Sy) : st :=
  let t1 := if 1 <? getn (enc s) row then sxor t v else t in
  let ents := filter (fun c' => negb (c' =? c)) (nth row (rws s) []) in
  let kn := filter (known s) ents in
  let t2 := fold_left (fun acc c' => match nth c' (tab s) None with Some w => sxor acc w | None => acc end) kn t1 in
  let ents' := filter (fun c' => negb (known s c')) ents in
  let e' := getn (enc s) row - 1 - length kn in
  mk (r s) (n s) (upd (rws s) row ents') (upd (unk s) row (getn (unk s) row - 1)) (upd (enc s) row e')
     (upd (ct s) row (Some t2)) (tab s) (fnd s).

Definition srN (s : st) (row : nat) : st :=
  mk (r s) (n s) (rws s) (upd (unk s) row (getn (unk s) row - 1)) (enc s) (ct s) (tab s) (fnd s).

Lemma step2_row_cases (s : st) c v row : fst (step2_row sxor s0 s c v row) =
  match nth row (ct s) None with
  | Some t => srS s c v row t
  | None => if getn (unk s) row - 1 =? 1 then srS s c v row s0 else srN s row
  end.
Proof.
  unfold step2_row. destruct (nth row (ct s) None); [reflexivity|].
  destruct (getn (unk s) row - 1 =? 1); reflexivity.
Qed.

Lemma srS_J (s : st) c v row t : RJ s -> Keep s -> known s c = true -> v = cw c -> row < R0 ->
  In c (nth row (rws s) []) -> getn (enc s) row = length (nth row (rws s) []) -> t = gs cw (nth row (rws s) []) ->
  RJ (srS s c v row t) /\ Keep (srS s c v row t).
Proof.
  intros J K Hkc Hv Hrow Hin Henc Ht.
  destruct J as [J1 J2 J3 J4 J5 J6 J7].
  destruct (J7 row Hrow) as (ND & Incl & _).
  unfold srS.
  set (rowl := nth row (rws s) []) in *.
  set (ents := filter (fun c' => negb (c' =? c)) rowl).
  set (kn := filter (known s) ents).
  set (ents' := filter (fun c' => negb (known s c')) ents).
  set (t1 := if 1 <? getn (enc s) row then sxor t v else t).
  assert (Lents : length ents = length rowl - 1) by (apply filter_remove_nodup; auto).
  assert (Lsplit : length ents = length kn + length ents') by (apply filter_length_split).
  assert (Hfold : fold_left (fun acc c' => match nth c' (tab s) None with Some w => sxor acc w | None => acc end) kn t1
                  = sxor t1 (gs cw kn)).
  { apply (fold_known_values Sy sxor s0 sxor_assoc sxor_comm sxor_0_l cw s J6).
    intros x Hx. apply filter_In in Hx. apply Hx. }
  rewrite Hfold.
  split.
  - constructor; cbn [r rws enc ct tab]; rewrite ?upd_length; auto.
    intros i Hi. unfold RowJ. cbn [rws enc ct]. unfold getn.
    destruct (Nat.eq_dec i row) as [->|Hne].
    + rewrite !nth_upd_eq by lia.
      split; [unfold ents', ents; apply NoDup_filter, NoDup_filter; exact ND|].
      split.
      { intros x Hx. apply Incl. unfold ents', ents in Hx. apply filter_In in Hx. destruct Hx as (Hx & _).
        apply filter_In in Hx. apply Hx. }
      split; [unfold getn in Henc; lia|].
      intros Hne.
      assert (L1 : 1 <= length ents') by (destruct ents'; [now elim Hne|simpl; lia]).
      assert (E1 : t1 = sxor t v).
      { unfold t1. replace (1 <? getn (enc s) row) with true; [reflexivity|]. symmetry. apply Nat.ltb_lt. lia. }
      rewrite E1, Ht, Hv.
      rewrite (gs_remove c rowl ND Hin). fold ents.
      rewrite (gs_split (known s) ents). fold kn. fold ents'.
      apply grp1.
    + rewrite !nth_upd_neq by auto. exact (J7 i Hi).
  - intros i x Hi Hx Hk. cbn [rws].
    change (known (srS s c v row t) x) with (known s x) in Hk.
    pose proof (K i x Hi Hx Hk) as Hin'.
    destruct (Nat.eq_dec i row) as [->|Hne].
    + rewrite nth_upd_eq by lia. unfold ents', ents. apply filter_In. split.
      * apply filter_In. split; [exact Hin'|]. apply negb_true_iff. apply Nat.eqb_neq. intros ->. congruence.
      * now rewrite Hk.
    + rewrite nth_upd_neq by auto. exact Hin'.
Qed.

Lemma step2_row_J (s : st) c v row : RJ s -> Keep s -> known s c = true -> v = cw c -> row < R0 ->
  In c (nth row (rws s) []) ->
  RJ (fst (step2_row sxor s0 s c v row)) /\ Keep (fst (step2_row sxor s0 s c v row))
  /\ tab (fst (step2_row sxor s0 s c v row)) = tab s
  /\ (forall j, j <> row -> nth j (rws (fst (step2_row sxor s0 s c v row))) [] = nth j (rws s) []).
Proof.
  intros J K Hkc Hv Hrow Hin.
  rewrite step2_row_cases.
  destruct (rj_row s J row Hrow) as (ND & Incl & M).
  destruct (nth row (ct s) None) as [t|] eqn:Ect.
  - destruct M as (M1 & M2).
    assert (Ht : t = gs cw (nth row (rws s) [])).
    { apply M2. intros E. rewrite E in Hin. destruct Hin. }
    destruct (srS_J s c v row t J K Hkc Hv Hrow Hin M1 Ht) as (A & B).
    split; [exact A|]. split; [exact B|]. split; [reflexivity|].
    intros j Hj. unfold srS. cbn [rws]. apply nth_upd_neq. auto.
  - destruct M as [M|(M1 & M2)]; [rewrite M in Hin; destruct Hin|].
    destruct (getn (unk s) row - 1 =? 1).
    + assert (Ht : s0 = gs cw (nth row (rws s) [])) by (rewrite M1; symmetry; apply parity; exact Hrow).
      assert (He : getn (enc s) row = length (nth row (rws s) [])) by (rewrite M1; exact M2).
      destruct (srS_J s c v row s0 J K Hkc Hv Hrow Hin He Ht) as (A & B).
      split; [exact A|]. split; [exact B|]. split; [reflexivity|].
      intros j Hj. unfold srS. cbn [rws]. apply nth_upd_neq. auto.
    + split; [apply (RJ_fields s); auto|]. split; [apply (Keep_fields s); auto|]. split; [reflexivity|].
      intros j Hj. reflexivity.
Qed.

Lemma step2_fold_J c v : v = cw c -> forall rowsl (s : st) L, NoDup rowsl -> RJ s -> Keep s -> known s c = true ->
  (forall i, In i rowsl -> i < R0 /\ In c (nth i (rws s) [])) ->
  RJ (fst (fold_left (f2 Sy sxor s0 c v) rowsl (s, L))) /\ Keep (fst (fold_left (f2 Sy sxor s0 c v) rowsl (s, L))).
Proof.
  intros Hv. induction rowsl as [|a rest IH]; intros s L ND J K Hkc Hrows.
  - split; [exact J|exact K].
  - inversion ND as [|? ? Hnotin ND']; subst.
    destruct (Hrows a (or_introl eq_refl)) as (Ha & Hina).
    destruct (step2_row_J s c (cw c) a J K Hkc eq_refl Ha Hina) as (J1 & K1 & T1 & S1).
    cbn [fold_left]. unfold f2 at 2.
    destruct (step2_row sxor s0 s c (cw c) a) as [s1 rdy]. cbn [fst] in *.
    apply IH; auto.
    + now rewrite (known_tab_eq Sy s s1 T1).
    + intros i Hi. destruct (Hrows i (or_intror Hi)) as (A & B). split; [exact A|].
      rewrite S1; [exact B|]. intros ->. now apply Hnotin.
Qed.

Lemma step2_J (s : st) c v : v = cw c -> RJ s -> Keep s -> known s c = true ->
  RJ (fst (step2 sxor s0 s c v)) /\ Keep (fst (step2 sxor s0 s c v)).
Proof.
  intros Hv J K Hkc. unfold step2. fold (f2 Sy sxor s0 c v).
  apply step2_fold_J; auto; [apply rows_with_nodup|].
  intros i Hi. apply (rows_with_spec Sy H0 R0 N0 H0_len H0_nodup H0_range H0_deg R_le_N s c i (rj_r s J)). exact Hi.
Qed.

(* ---------- step 3 and the recursive decoder ---------- *)
Definition DecJ (dec : st -> nat -> Sy -> option st) : Prop := forall s e v s',
  RJ s -> KeepX e s -> e < N0 -> v = cw e -> dec s e v = Some s' -> RJ s' /\ Keep s'.

Lemma is_complete_J (s : st) : RJ s -> Keep s -> RJ (snd (is_complete s)) /\ Keep (snd (is_complete s)).
Proof.
  intros J K. split; [apply (RJ_fields s); auto|apply (Keep_fields s); auto].
Qed.

Lemma consume_J (s : st) row cc t : RJ s -> Keep s -> row < R0 -> nth row (rws s) [] = [cc] ->
  nth row (ct s) None = Some t -> RJ (consume s row) /\ KeepX cc (consume s row) /\ cc < N0 /\ t = cw cc.
Proof.
  intros J K Hrow Hr Hct.
  destruct (rj_row s J row Hrow) as (ND & Incl & M). rewrite Hct in M. destruct M as (M1 & M2).
  assert (Hcc : cc < N0) by (apply (H0_range row cc Hrow); apply Incl; rewrite Hr; now left).
  assert (Ht : t = cw cc).
  { rewrite M2 by (rewrite Hr; discriminate). rewrite Hr. unfold xs. cbn [map fold_right]. apply sx0r. }
  destruct J as [J1 J2 J3 J4 J5 J6 J7].
  split; [|split; [|split; [exact Hcc|exact Ht]]].
  - constructor; cbn [consume r rws enc ct tab]; rewrite ?upd_length; auto.
    intros i Hi. unfold RowJ. cbn [consume rws enc ct]. unfold getn.
    destruct (Nat.eq_dec i row) as [->|Hne].
    + rewrite !nth_upd_eq by lia. split; [constructor|]. split; [intros x []|]. now left.
    + rewrite !nth_upd_neq by auto. exact (J7 i Hi).
  - intros i x Hi Hx Hk Hne. change (known (consume s row) x) with (known s x) in Hk.
    pose proof (K i x Hi Hx Hk) as Hin'. cbn [consume rws].
    destruct (Nat.eq_dec i row) as [->|Hne'].
    + rewrite Hr in Hin'. destruct Hin' as [->|[]]. now elim Hne.
    + rewrite nth_upd_neq by auto. exact Hin'.
Qed.

Lemma step3_J dec : DecJ dec -> forall L (s s' : st), RJ s -> Keep s -> step3 dec L s = Some s' -> RJ s' /\ Keep s'.
Proof.
  intros HD. induction L as [|row L IH]; intros s s' J K H.
  - cbn [step3] in H. injection H as <-. split; [exact J|exact K].
  - rewrite step3_cons in H.
    destruct (is_complete_J s J K) as (J1 & K1).
    destruct (is_complete s) as [b s1]. cbn [snd] in J1, K1.
    destruct b; [injection H as <-; split; [exact J1|exact K1]|].
    destruct (getn (enc s1) row =? 1); [|exact (IH s1 s' J1 K1 H)].
    destruct (nth row (rws s1) []) as [|cc [|cc2 rest]] eqn:Er; try discriminate H.
    destruct (nth row (ct s1) None) as [t|] eqn:Ect; [|discriminate H].
    assert (Hrow : row < R0).
    { destruct (Nat.lt_ge_cases row R0) as [Hlt|Hge]; [exact Hlt|].
      rewrite nth_overflow in Er by (rewrite (rj_rws s1 J1); exact Hge). discriminate Er. }
    destruct (consume_J s1 row cc t J1 K1 Hrow Er Ect) as (Jc & Kc & Hcc & Ht).
    destruct (dec (consume s1 row) cc t) as [s2|] eqn:Ed; [|discriminate H].
    destruct (HD _ _ _ _ Jc Kc Hcc Ht Ed) as (J2 & K2).
    exact (IH s2 s' J2 K2 H).
Qed.

Lemma set_tab_J (s : st) e v : RJ s -> KeepX e s -> e < N0 -> v = cw e -> known s e = false ->
  RJ (set_tab s e v) /\ Keep (set_tab s e v) /\ known (set_tab s e v) e = true.
Proof.
  intros J K He Hv Hke.
  assert (Hk1 : forall c, known (set_tab s e v) c = known s c || (c =? e)).
  { intros c. apply (known_set_tab Sy H0 R0 N0 H0_len R_le_N). rewrite (rj_tab s J). exact He. }
  split; [|split].
  - destruct J as [J1 J2 J3 J4 J5 J6 J7].
    constructor; cbn [set_tab r rws enc ct tab]; rewrite ?upd_length; auto.
    intros c w Hc. rewrite upd_nth in Hc.
    destruct ((c =? e) && (e <? length (tab s))) eqn:E.
    + apply andb_true_iff in E. destruct E as (E & _). apply Nat.eqb_eq in E. subst c. congruence.
    + exact (J6 c w Hc).
  - intros i c Hi Hc Hk. rewrite Hk1 in Hk. apply orb_false_iff in Hk. destruct Hk as (Hk & Hne).
    apply Nat.eqb_neq in Hne. exact (K i c Hi Hc Hk Hne).
  - rewrite Hk1, Nat.eqb_refl. apply orb_true_r.
Qed.

Lemma decode_J : forall fuel, DecJ (decode sxor s0 fuel).
Proof.
  induction fuel as [|f IH]; intros s e v s' J K He Hv Hdec; [discriminate Hdec|].
  rewrite decode_unfold in Hdec.
  destruct (known s e) eqn:Hke.
  - injection Hdec as <-. split; [exact J|].
    intros i c Hi Hc Hk. apply (K i c Hi Hc Hk). intros ->. congruence.
  - cbv zeta in Hdec.
    destruct (set_tab_J s e v J K He Hv Hke) as (J1 & K1 & Hk1).
    set (s1 := set_tab s e v) in *.
    assert (Hearly : RJ (snd (if r s1 <=? e then is_complete s1 else (false, s1)))
                     /\ Keep (snd (if r s1 <=? e then is_complete s1 else (false, s1)))
                     /\ tab (snd (if r s1 <=? e then is_complete s1 else (false, s1))) = tab s1).
    { destruct (r s1 <=? e).
      - destruct (is_complete_J s1 J1 K1) as (A & B). split; [exact A|]. split; [exact B|reflexivity].
      - split; [exact J1|]. split; [exact K1|reflexivity]. }
    destruct (if r s1 <=? e then is_complete s1 else (false, s1)) as [b sx]. cbn [fst snd] in *.
    destruct Hearly as (Jx & Kx & Tx).
    destruct b; [injection Hdec as <-; split; [exact Jx|exact Kx]|].
    assert (Hkx : known sx e = true) by (rewrite (known_tab_eq Sy s1 sx Tx); exact Hk1).
    destruct (step2_J sx e v Hv Jx Kx Hkx) as (J2 & K2).
    destruct (step2 sxor s0 sx e v) as [s2 L]. cbn [fst] in *.
    exact (step3_J (decode sxor s0 f) IH (rev L) s2 s' J2 K2 Hdec).
Qed.

Lemma init_J : RJ (init Sy R0 N0 H0) /\ Keep (init Sy R0 N0 H0).
Proof.
  split.
  - constructor; cbn [init r rws enc ct tab]; rewrite ?map_length, ?repeat_length; auto.
    + intros c v Hc. rewrite nth_repeat_none in Hc. discriminate Hc.
    + intros i Hi. unfold RowJ. cbn [init rws enc ct]. rewrite nth_repeat_none.
      split; [now apply H0_nodup|]. split; [apply incl_refl|]. right. split; [reflexivity|].
      unfold getn. apply nth_map_length.
  - intros i c Hi Hc _. exact Hc.
Qed.

Lemma fold_J fuel : forall (h : list (nat * Sy)) (sA s1 : st),
  (forall ev, In ev h -> fst ev < N0 /\ snd ev = cw (fst ev)) ->
  fold_left (dstep fuel) h (Some sA) = Some s1 -> RJ sA -> Keep sA -> RJ s1 /\ Keep s1.
Proof.
  induction h as [|ev h IH]; intros sA s1 Hh Hf J K.
  - injection Hf as <-. split; [exact J|exact K].
  - cbn [fold_left] in Hf.
    destruct (decode sxor s0 fuel sA (fst ev) (snd ev)) as [sB|] eqn:Ed.
    + destruct (Hh ev (or_introl eq_refl)) as (Hr & Hcw).
      assert (KX : KeepX (fst ev) sA) by (intros i c Hi Hc Hk _; exact (K i c Hi Hc Hk)).
      destruct (decode_J fuel sA (fst ev) (snd ev) sB J KX Hr Hcw Ed) as (JB & KB).
      exact (IH sB s1 (fun e He => Hh e (or_intror He)) Hf JB KB).
    + rewrite (StableTables.fold_none Sy sxor s0 fuel h) in Hf. discriminate Hf.
Qed.

(* every reachable state satisfies the invariant *)
Theorem run_J fuel (hist : list (nat * Sy)) (s : st) :
  (forall ev, In ev hist -> fst ev < N0 /\ snd ev = cw (fst ev)) -> run fuel hist = Some s -> RJ s /\ Keep s.
Proof.
  intros Hh Hrun. destruct init_J as (J0 & K0).
  exact (fold_J fuel hist (init Sy R0 N0 H0) s Hh Hrun J0 K0).
Qed.

Corollary run_Sub fuel (hist : list (nat * Sy)) (s : st) :
  (forall ev, In ev hist -> fst ev < N0 /\ snd ev = cw (fst ev)) -> run fuel hist = Some s -> Sub s.
Proof. intros Hh Hrun. apply RJ_Sub. apply (run_J fuel hist s Hh Hrun). Qed.

End Session.
