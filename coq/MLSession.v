(* Session-level theorem for the LDPC erasure decoder model: the streaming (iterative) decoder
   (ITModel.decode, run over a history of received symbols) followed by the maximum-likelihood
   finish (MLModel.ml_finish).

     Part 1  an invariant of the streaming decoder that holds in EVERY reachable state, complete or
             not (RJ, Keep): rows are duplicate-free sub-lists of the original rows, a row carries a
             partial sum exactly when its entry counter is the row length and the sum is the sum of
             the codeword symbols of the entries that are left, and no unknown column is ever
             removed from a row.
     Part 2  the precondition JF of the ML finish that follows from it; it generalises MLPre
             (MLSimplify.v) and is enough for the whole of MLFinish.v (ml_finish_JF,
             ml_finish_from_complete).
     Part 3  good_MLPre: not-complete reachable states satisfy MLPre (the bridge to MLFinish.v as it
             stands).
     Part 4  Det s <-> DetR hist (peeling closure and kernel vectors) and the session theorems
             ldpc_session_finish, ldpc_session_finish_total, ldpc_session_finish_order_independent.

   NOTE.  The finish may decode repair symbols from the partial sums that the streaming decoder
   left behind also when the streaming decoder had stopped early on completion; "never a wrong
   symbol" therefore needs the VALUES of the partial sums in complete states as well.  This is why
   Part 1 carries the values and the session theorem goes through JF for both cases instead of a
   purely structural treatment of the complete case. *)
From Coq Require Import List Arith Bool Lia.
From OFV Require Import XorGroup ITModel ITLemmas ITProofs MLModel MLSimplify LdpcEnc MLFinish.
From OFV Require DenseSolveComplete StableTables ITCorollaries.
Import ListNotations.

Section Session.
Variable Sy : Type. Variable sxor : Sy -> Sy -> Sy. Variable s0 : Sy.
Hypothesis sxor_assoc : forall a b c, sxor a (sxor b c) = sxor (sxor a b) c.
Hypothesis sxor_comm : forall a b, sxor a b = sxor b a.
Hypothesis sxor_0_l : forall a, sxor s0 a = a.
Hypothesis sxor_nilp : forall a, sxor a a = s0.

Variable H0 : list (list nat).
Variable R0 N0 : nat.
Hypothesis H0_len : length H0 = R0.
Hypothesis H0_nodup : forall i, i < R0 -> NoDup (nth i H0 []).
Hypothesis H0_range : forall i c, i < R0 -> In c (nth i H0 []) -> c < N0.
Hypothesis H0_deg : forall i, i < R0 -> 2 <= length (nth i H0 []).
Hypothesis R_le_N : R0 <= N0.

Hypothesis H0_cols : forall c, c < N0 -> exists i, i < R0 /\ In c (nth i H0 []).
Hypothesis H0_stair : stair R0 H0.
Hypothesis Sy_nontrivial : exists a : Sy, a <> s0.

Variable cw : nat -> Sy.
Hypothesis parity : forall i, i < R0 -> xs Sy sxor s0 cw (nth i H0 []) = s0.

Notation st := (st Sy).
Notation WF := (WF Sy R0 N0).
Notation Good := (Good Sy H0 R0 N0).
Notation Kmono := (Kmono Sy).
Notation iscomp := (iscomp Sy R0 N0).
Notation gs := (xs Sy sxor s0).
Notation run := (run Sy sxor s0 H0 R0 N0).
Notation hker := (hker H0 R0).
Notation Det := (Det Sy H0 R0 N0).
Notation MLInv := (MLInv Sy sxor s0 H0 R0 N0).
Notation MLPre := (MLPre Sy H0 R0 N0).
Notation val := (val Sy s0).
Notation dstep fuel := (fun os ev => match os with Some s => decode sxor s0 fuel s (fst ev) (snd ev) | None => None end).

Lemma sx0r a : sxor a s0 = a.
Proof. rewrite sxor_comm. apply sxor_0_l. Qed.

Lemma grp1 x A B : sxor (sxor (sxor x (sxor A B)) x) A = B.
Proof.
  rewrite (sxor_comm (sxor x (sxor A B)) x). rewrite (sxor_assoc x x (sxor A B)).
  rewrite sxor_nilp, sxor_0_l. rewrite (sxor_comm A B). rewrite <- sxor_assoc, sxor_nilp. apply sx0r.
Qed.

Lemma gs_remove c l : NoDup l -> In c l -> gs cw l = sxor (cw c) (gs cw (filter (fun x => negb (x =? c)) l)).
Proof. exact (xs_remove Sy sxor s0 H0 R0 N0 H0_len H0_nodup H0_range H0_deg R_le_N sxor_assoc sxor_comm cw parity c l). Qed.

Lemma gs_split (p : nat -> bool) l : gs cw l = sxor (gs cw (filter p l)) (gs cw (filter (fun x => negb (p x)) l)).
Proof. exact (xs_filter_split Sy sxor s0 sxor_assoc sxor_comm sxor_0_l cw p l). Qed.

Lemma upd_nth {A} (l : list A) i j x d : nth j (upd l i x) d = if (j =? i) && (i <? length l) then x else nth j l d.
Proof. exact (nth_upd_same_or H0 R0 N0 H0_len R_le_N l i j x d). Qed.

(* ============================================================================================ *)
(* Part 1.  The invariant of the streaming decoder                                               *)
(* ============================================================================================ *)
Definition RowJ (s : st) (i : nat) : Prop :=
  NoDup (nth i (rws s) []) /\ incl (nth i (rws s) []) (nth i H0 []) /\
  match nth i (ct s) None with
  | None => nth i (rws s) [] = [] \/ (nth i (rws s) [] = nth i H0 [] /\ getn (enc s) i = length (nth i H0 []))
  | Some t => getn (enc s) i = length (nth i (rws s) []) /\ (nth i (rws s) [] <> [] -> t = gs cw (nth i (rws s) []))
  end.

Record RJ (s : st) : Prop := {
  rj_r : r s = R0;
  rj_rws : length (rws s) = R0;
  rj_enc : length (enc s) = R0;
  rj_ct : length (ct s) = R0;
  rj_tab : length (tab s) = N0;
  rj_val : forall c v, nth c (tab s) None = Some v -> v = cw c;
  rj_row : forall i, i < R0 -> RowJ s i }.

(* no unknown column has been removed from a row (KeepX: except column e, which is about to be stored) *)
Definition Keep (s : st) : Prop :=
  forall i c, i < R0 -> In c (nth i H0 []) -> known s c = false -> In c (nth i (rws s) []).
Definition KeepX (e : nat) (s : st) : Prop :=
  forall i c, i < R0 -> In c (nth i H0 []) -> known s c = false -> c <> e -> In c (nth i (rws s) []).

(* the structural part alone (rows are only ever filtered or emptied) *)
Definition Sub (s : st) : Prop :=
  length (rws s) = R0 /\ forall i, i < R0 -> NoDup (nth i (rws s) []) /\ incl (nth i (rws s) []) (nth i H0 []).

Lemma RJ_Sub (s : st) : RJ s -> Sub s.
Proof.
  intros J. split; [apply J|]. intros i Hi. destruct (rj_row s J i Hi) as (A & B & _). split; [exact A|exact B].
Qed.

Lemma RJ_fields (s s' : st) : r s' = r s -> rws s' = rws s -> enc s' = enc s -> ct s' = ct s -> tab s' = tab s ->
  RJ s -> RJ s'.
Proof.
  intros E1 E2 E3 E4 E5 [J1 J2 J3 J4 J5 J6 J7].
  constructor; try congruence.
  - rewrite E5. exact J6.
  - intros i Hi. unfold RowJ. rewrite E2, E3, E4. exact (J7 i Hi).
Qed.

Lemma Keep_fields (s s' : st) : rws s' = rws s -> tab s' = tab s -> Keep s -> Keep s'.
Proof.
  intros E2 E5 K i c Hi Hin Hk. rewrite E2. apply K; auto. now rewrite <- (known_tab_eq Sy s s' E5).
Qed.

(* ---------- one row of step 2 ---------- *)
Definition srS (s : st) (c : nat) (v : Sy) (row : nat) (t : Sy) : st :=
  let t1 := if 1 <? getn (enc s) row then sxor t v else t in
  let ents := filter (fun c' => negb (c' =? c)) (nth row (rws s) []) in
  let kn := filter (known s) ents in
  let t2 := fold_left (fun acc c' => match nth c' (tab s) None with Some w => sxor acc w | None => acc end) kn t1 in
  let ents' := filter (fun c' => negb (known s c')) ents in
  let e' := getn (enc s) row - 1 - length kn in
  mk (r s) (n s) (upd (rws s) row ents') (upd (unk s) row (getn (unk s) row - 1)) (upd (enc s) row e')
     (upd (ct s) row (Some t2)) (tab s) (fnd s).

Definition srN (s : st) (row : nat) : st :=
  mk (r s) (n s) (rws s) (upd (unk s) row (getn (unk s) row - 1)) (enc s) (ct s) (tab s) (fnd s).

Lemma step2_row_cases (s : st) c v row : fst (step2_row sxor s0 s c v row) =
  match nth row (ct s) None with
  | Some t => srS s c v row t
  | None => if getn (unk s) row - 1 =? 1 then srS s c v row s0 else srN s row
  end.
Proof.
  unfold step2_row. destruct (nth row (ct s) None); [reflexivity|].
  destruct (getn (unk s) row - 1 =? 1); reflexivity.
Qed.

Lemma srS_J (s : st) c v row t : RJ s -> Keep s -> known s c = true -> v = cw c -> row < R0 ->
  In c (nth row (rws s) []) -> getn (enc s) row = length (nth row (rws s) []) -> t = gs cw (nth row (rws s) []) ->
  RJ (srS s c v row t) /\ Keep (srS s c v row t).
Proof.
  intros J K Hkc Hv Hrow Hin Henc Ht.
  destruct J as [J1 J2 J3 J4 J5 J6 J7].
  destruct (J7 row Hrow) as (ND & Incl & _).
  unfold srS.
  set (rowl := nth row (rws s) []) in *.
  set (ents := filter (fun c' => negb (c' =? c)) rowl).
  set (kn := filter (known s) ents).
  set (ents' := filter (fun c' => negb (known s c')) ents).
  set (t1 := if 1 <? getn (enc s) row then sxor t v else t).
  assert (Lents : length ents = length rowl - 1) by (apply filter_remove_nodup; auto).
  assert (Lsplit : length ents = length kn + length ents') by (apply filter_length_split).
  assert (Hfold : fold_left (fun acc c' => match nth c' (tab s) None with Some w => sxor acc w | None => acc end) kn t1
                  = sxor t1 (gs cw kn)).
  { apply (fold_known_values Sy sxor s0 sxor_assoc sxor_comm sxor_0_l cw s J6).
    intros x Hx. apply filter_In in Hx. apply Hx. }
  rewrite Hfold.
  split.
  - constructor; cbn [r rws enc ct tab]; rewrite ?upd_length; auto.
    intros i Hi. unfold RowJ. cbn [rws enc ct]. unfold getn.
    destruct (Nat.eq_dec i row) as [->|Hne].
    + rewrite !nth_upd_eq by lia.
      split; [unfold ents', ents; apply NoDup_filter, NoDup_filter; exact ND|].
      split.
      { intros x Hx. apply Incl. unfold ents', ents in Hx. apply filter_In in Hx. destruct Hx as (Hx & _).
        apply filter_In in Hx. apply Hx. }
      split; [unfold getn in Henc; lia|].
      intros Hne.
      assert (L1 : 1 <= length ents') by (destruct ents'; [now elim Hne|simpl; lia]).
      assert (E1 : t1 = sxor t v).
      { unfold t1. replace (1 <? getn (enc s) row) with true; [reflexivity|]. symmetry. apply Nat.ltb_lt. lia. }
      rewrite E1, Ht, Hv.
      rewrite (gs_remove c rowl ND Hin). fold ents.
      rewrite (gs_split (known s) ents). fold kn. fold ents'.
      apply grp1.
    + rewrite !nth_upd_neq by auto. exact (J7 i Hi).
  - intros i x Hi Hx Hk. cbn [rws].
    assert (Hk' : known s x = false) by exact Hk. clear Hk.
    pose proof (K i x Hi Hx Hk') as Hin'.
    destruct (Nat.eq_dec i row) as [->|Hne].
    + rewrite nth_upd_eq by lia. unfold ents', ents. apply filter_In. split.
      * apply filter_In. split; [exact Hin'|]. apply negb_true_iff. apply Nat.eqb_neq. intros ->. congruence.
      * now rewrite Hk'.
    + rewrite nth_upd_neq by auto. exact Hin'.
Qed.

Lemma step2_row_J (s : st) c v row : RJ s -> Keep s -> known s c = true -> v = cw c -> row < R0 ->
  In c (nth row (rws s) []) ->
  RJ (fst (step2_row sxor s0 s c v row)) /\ Keep (fst (step2_row sxor s0 s c v row))
  /\ tab (fst (step2_row sxor s0 s c v row)) = tab s
  /\ (forall j, j <> row -> nth j (rws (fst (step2_row sxor s0 s c v row))) [] = nth j (rws s) []).
Proof.
  intros J K Hkc Hv Hrow Hin.
  rewrite step2_row_cases.
  destruct (rj_row s J row Hrow) as (ND & Incl & M).
  destruct (nth row (ct s) None) as [t|] eqn:Ect.
  - destruct M as (M1 & M2).
    assert (Ht : t = gs cw (nth row (rws s) [])).
    { apply M2. intros E. rewrite E in Hin. destruct Hin. }
    destruct (srS_J s c v row t J K Hkc Hv Hrow Hin M1 Ht) as (A & B).
    split; [exact A|]. split; [exact B|]. split; [reflexivity|].
    intros j Hj. unfold srS. cbn [rws]. apply nth_upd_neq. auto.
  - destruct M as [M|(M1 & M2)]; [rewrite M in Hin; destruct Hin|].
    destruct (getn (unk s) row - 1 =? 1).
    + assert (Ht : s0 = gs cw (nth row (rws s) [])) by (rewrite M1; symmetry; apply parity; exact Hrow).
      assert (He : getn (enc s) row = length (nth row (rws s) [])) by (rewrite M1; exact M2).
      destruct (srS_J s c v row s0 J K Hkc Hv Hrow Hin He Ht) as (A & B).
      split; [exact A|]. split; [exact B|]. split; [reflexivity|].
      intros j Hj. unfold srS. cbn [rws]. apply nth_upd_neq. auto.
    + split; [apply (RJ_fields s); auto|]. split; [apply (Keep_fields s); auto|]. split; [reflexivity|].
      intros j Hj. reflexivity.
Qed.

Lemma step2_fold_J c v : v = cw c -> forall rowsl (s : st) L, NoDup rowsl -> RJ s -> Keep s -> known s c = true ->
  (forall i, In i rowsl -> i < R0 /\ In c (nth i (rws s) [])) ->
  RJ (fst (fold_left (f2 Sy sxor s0 c v) rowsl (s, L))) /\ Keep (fst (fold_left (f2 Sy sxor s0 c v) rowsl (s, L))).
Proof.
  intros Hv. induction rowsl as [|a rest IH]; intros s L ND J K Hkc Hrows.
  - split; [exact J|exact K].
  - inversion ND as [|? ? Hnotin ND']; subst.
    destruct (Hrows a (or_introl eq_refl)) as (Ha & Hina).
    destruct (step2_row_J s c (cw c) a J K Hkc eq_refl Ha Hina) as (J1 & K1 & T1 & S1).
    cbn [fold_left].
    assert (E : f2 Sy sxor s0 c (cw c) (s, L) a =
                (fst (step2_row sxor s0 s c (cw c) a), if snd (step2_row sxor s0 s c (cw c) a) then L ++ [a] else L)).
    { unfold f2. destruct (step2_row sxor s0 s c (cw c) a); reflexivity. }
    rewrite E. set (s1 := fst (step2_row sxor s0 s c (cw c) a)) in *.
    apply IH; auto.
    + now rewrite (known_tab_eq Sy s s1 T1).
    + intros i Hi. destruct (Hrows i (or_intror Hi)) as (A & B). split; [exact A|].
      rewrite S1; [exact B|]. intros ->. now apply Hnotin.
Qed.

Lemma step2_J (s : st) c v : v = cw c -> RJ s -> Keep s -> known s c = true ->
  RJ (fst (step2 sxor s0 s c v)) /\ Keep (fst (step2 sxor s0 s c v)).
Proof.
  intros Hv J K Hkc. unfold step2. fold (f2 Sy sxor s0 c v).
  apply step2_fold_J; auto; [apply rows_with_nodup|].
  intros i Hi. apply (rows_with_spec Sy H0 R0 N0 H0_len H0_nodup H0_range H0_deg R_le_N s c i (rj_r s J)). exact Hi.
Qed.

(* ---------- step 3 and the recursive decoder ---------- *)
Definition DecJ (dec : st -> nat -> Sy -> option st) : Prop := forall s e v s',
  RJ s -> KeepX e s -> e < N0 -> v = cw e -> dec s e v = Some s' -> RJ s' /\ Keep s'.

Lemma is_complete_J (s : st) : RJ s -> Keep s -> RJ (snd (is_complete s)) /\ Keep (snd (is_complete s)).
Proof.
  intros J K. split; [apply (RJ_fields s); auto|apply (Keep_fields s); auto].
Qed.

Lemma consume_J (s : st) row cc t : RJ s -> Keep s -> row < R0 -> nth row (rws s) [] = [cc] ->
  nth row (ct s) None = Some t -> RJ (consume s row) /\ KeepX cc (consume s row) /\ cc < N0 /\ t = cw cc.
Proof.
  intros J K Hrow Hr Hct.
  destruct (rj_row s J row Hrow) as (ND & Incl & M). rewrite Hct in M. destruct M as (M1 & M2).
  assert (Hcc : cc < N0) by (apply (H0_range row cc Hrow); apply Incl; rewrite Hr; now left).
  assert (Ht : t = cw cc).
  { rewrite M2 by (rewrite Hr; discriminate). rewrite Hr. unfold xs. cbn [map fold_right]. apply sx0r. }
  destruct J as [J1 J2 J3 J4 J5 J6 J7].
  split; [|split; [|split; [exact Hcc|exact Ht]]].
  - constructor; cbn [consume r rws enc ct tab]; rewrite ?upd_length; auto.
    intros i Hi. unfold RowJ. cbn [consume rws enc ct]. unfold getn.
    destruct (Nat.eq_dec i row) as [->|Hne].
    + rewrite !nth_upd_eq by lia. split; [constructor|]. split; [intros x []|]. now left.
    + rewrite !nth_upd_neq by auto. exact (J7 i Hi).
  - intros i x Hi Hx Hk Hne. assert (Hk' : known s x = false) by exact Hk. clear Hk.
    pose proof (K i x Hi Hx Hk') as Hin'. cbn [consume rws].
    destruct (Nat.eq_dec i row) as [->|Hne'].
    + rewrite Hr in Hin'. destruct Hin' as [->|[]]. now elim Hne.
    + rewrite nth_upd_neq by auto. exact Hin'.
Qed.

Lemma step3_J dec : DecJ dec -> forall L (s s' : st), RJ s -> Keep s -> step3 dec L s = Some s' -> RJ s' /\ Keep s'.
Proof.
  intros HD. induction L as [|row L IH]; intros s s' J K H.
  - cbn [step3] in H. injection H as <-. split; [exact J|exact K].
  - rewrite step3_cons in H.
    destruct (is_complete_J s J K) as (J1 & K1).
    destruct (is_complete s) as [b s1]. cbn [snd] in J1, K1.
    destruct b; [injection H as <-; split; [exact J1|exact K1]|].
    destruct (getn (enc s1) row =? 1); [|exact (IH s1 s' J1 K1 H)].
    destruct (nth row (rws s1) []) as [|cc [|cc2 rest]] eqn:Er; try discriminate H.
    destruct (nth row (ct s1) None) as [t|] eqn:Ect; [|discriminate H].
    assert (Hrow : row < R0).
    { destruct (Nat.lt_ge_cases row R0) as [Hlt|Hge]; [exact Hlt|].
      rewrite nth_overflow in Er by (rewrite (rj_rws s1 J1); exact Hge). discriminate Er. }
    destruct (consume_J s1 row cc t J1 K1 Hrow Er Ect) as (Jc & Kc & Hcc & Ht).
    destruct (dec (consume s1 row) cc t) as [s2|] eqn:Ed; [|discriminate H].
    destruct (HD _ _ _ _ Jc Kc Hcc Ht Ed) as (J2 & K2).
    exact (IH s2 s' J2 K2 H).
Qed.

Lemma set_tab_J (s : st) e v : RJ s -> KeepX e s -> e < N0 -> v = cw e -> known s e = false ->
  RJ (set_tab s e v) /\ Keep (set_tab s e v) /\ known (set_tab s e v) e = true.
Proof.
  intros J K He Hv Hke.
  assert (Hk1 : forall c, known (set_tab s e v) c = known s c || (c =? e)).
  { intros c. apply (known_set_tab Sy H0 R0 N0 H0_len R_le_N). rewrite (rj_tab s J). exact He. }
  split; [|split].
  - destruct J as [J1 J2 J3 J4 J5 J6 J7].
    constructor; cbn [set_tab r rws enc ct tab]; rewrite ?upd_length; auto.
    intros c w Hc. rewrite upd_nth in Hc.
    destruct ((c =? e) && (e <? length (tab s))) eqn:E.
    + apply andb_true_iff in E. destruct E as (E & _). apply Nat.eqb_eq in E. subst c. congruence.
    + exact (J6 c w Hc).
  - intros i c Hi Hc Hk. rewrite Hk1 in Hk. apply orb_false_iff in Hk. destruct Hk as (Hk & Hne).
    apply Nat.eqb_neq in Hne. exact (K i c Hi Hc Hk Hne).
  - rewrite Hk1, Nat.eqb_refl. apply orb_true_r.
Qed.

Lemma decode_J : forall fuel, DecJ (decode sxor s0 fuel).
Proof.
  induction fuel as [|f IH]; intros s e v s' J K He Hv Hdec; [discriminate Hdec|].
  rewrite decode_unfold in Hdec.
  destruct (known s e) eqn:Hke.
  - injection Hdec as <-. split; [exact J|].
    intros i c Hi Hc Hk. apply (K i c Hi Hc Hk). intros ->. congruence.
  - cbv zeta in Hdec.
    destruct (set_tab_J s e v J K He Hv Hke) as (J1 & K1 & Hk1).
    set (s1 := set_tab s e v) in *.
    assert (Hearly : RJ (snd (if r s1 <=? e then is_complete s1 else (false, s1)))
                     /\ Keep (snd (if r s1 <=? e then is_complete s1 else (false, s1)))
                     /\ tab (snd (if r s1 <=? e then is_complete s1 else (false, s1))) = tab s1).
    { destruct (r s1 <=? e).
      - destruct (is_complete_J s1 J1 K1) as (A & B). split; [exact A|]. split; [exact B|reflexivity].
      - split; [exact J1|]. split; [exact K1|reflexivity]. }
    destruct (if r s1 <=? e then is_complete s1 else (false, s1)) as [b sx]. cbn [fst snd] in *.
    destruct Hearly as (Jx & Kx & Tx).
    destruct b; [injection Hdec as <-; split; [exact Jx|exact Kx]|].
    assert (Hkx : known sx e = true) by (rewrite (known_tab_eq Sy s1 sx Tx); exact Hk1).
    destruct (step2_J sx e v Hv Jx Kx Hkx) as (J2 & K2).
    destruct (step2 sxor s0 sx e v) as [s2 L]. cbn [fst] in *.
    exact (step3_J (decode sxor s0 f) IH (rev L) s2 s' J2 K2 Hdec).
Qed.

Lemma init_J : RJ (init Sy R0 N0 H0) /\ Keep (init Sy R0 N0 H0).
Proof.
  split.
  - constructor; cbn [init r rws enc ct tab]; rewrite ?map_length, ?repeat_length; auto.
    + intros c v Hc. rewrite nth_repeat_none in Hc. discriminate Hc.
    + intros i Hi. unfold RowJ. cbn [init rws enc ct]. rewrite nth_repeat_none.
      split; [now apply H0_nodup|]. split; [apply incl_refl|]. right. split; [reflexivity|].
      unfold getn. apply nth_map_length.
  - intros i c Hi Hc _. exact Hc.
Qed.

Lemma fold_J fuel : forall (h : list (nat * Sy)) (sA s1 : st),
  (forall ev, In ev h -> fst ev < N0 /\ snd ev = cw (fst ev)) ->
  fold_left (dstep fuel) h (Some sA) = Some s1 -> RJ sA -> Keep sA -> RJ s1 /\ Keep s1.
Proof.
  induction h as [|ev h IH]; intros sA s1 Hh Hf J K.
  - injection Hf as <-. split; [exact J|exact K].
  - cbn [fold_left] in Hf.
    destruct (decode sxor s0 fuel sA (fst ev) (snd ev)) as [sB|] eqn:Ed.
    + destruct (Hh ev (or_introl eq_refl)) as (Hr & Hcw).
      assert (KX : KeepX (fst ev) sA) by (intros i c Hi Hc Hk _; exact (K i c Hi Hc Hk)).
      destruct (decode_J fuel sA (fst ev) (snd ev) sB J KX Hr Hcw Ed) as (JB & KB).
      exact (IH sB s1 (fun e He => Hh e (or_intror He)) Hf JB KB).
    + rewrite (StableTables.fold_none Sy sxor s0 fuel h) in Hf. discriminate Hf.
Qed.

(* every reachable state satisfies the invariant *)
Theorem run_J fuel (hist : list (nat * Sy)) (s : st) :
  (forall ev, In ev hist -> fst ev < N0 /\ snd ev = cw (fst ev)) -> run fuel hist = Some s -> RJ s /\ Keep s.
Proof.
  intros Hh Hrun. destruct init_J as (J0 & K0).
  exact (fold_J fuel hist (init Sy R0 N0 H0) s Hh Hrun J0 K0).
Qed.

Corollary run_Sub fuel (hist : list (nat * Sy)) (s : st) :
  (forall ev, In ev hist -> fst ev < N0 /\ snd ev = cw (fst ev)) -> run fuel hist = Some s -> Sub s.
Proof. intros Hh Hrun. apply RJ_Sub. apply (run_J fuel hist s Hh Hrun). Qed.

(* ---------- the structural part holds for ANY history (no hypothesis on the submitted values) ---------- *)
Lemma Sub_rws_eq (s s' : st) : rws s' = rws s -> Sub s -> Sub s'.
Proof. intros E. unfold Sub. now rewrite E. Qed.

Lemma Sub_upd (s s' : st) row rw : rws s' = upd (rws s) row rw -> NoDup rw -> incl rw (nth row (rws s) []) -> Sub s -> Sub s'.
Proof.
  intros E ND Incl (L & Rows). unfold Sub. rewrite E, upd_length. split; [exact L|].
  intros i Hi. rewrite upd_nth. destruct ((i =? row) && (row <? length (rws s))) eqn:Eb; [|exact (Rows i Hi)].
  apply andb_true_iff in Eb. destruct Eb as (Eb & _). apply Nat.eqb_eq in Eb. subst i.
  split; [exact ND|]. intros x Hx. apply (proj2 (Rows row Hi)). now apply Incl.
Qed.

Lemma step2_row_Sub (s : st) c v row : Sub s -> Sub (fst (step2_row sxor s0 s c v row)).
Proof.
  intros HS. rewrite step2_row_cases.
  assert (X : forall t, Sub (srS s c v row t)).
  { intros t. unfold srS. eapply (Sub_upd s); [cbn [rws]; reflexivity| | |exact HS].
    - destruct (Nat.lt_ge_cases row R0) as [Hlt|Hge].
      + apply NoDup_filter, NoDup_filter. exact (proj1 (proj2 HS row Hlt)).
      + rewrite nth_overflow by (rewrite (proj1 HS); exact Hge). constructor.
    - intros x Hx. apply filter_In in Hx. destruct Hx as (Hx & _). apply filter_In in Hx. apply Hx. }
  destruct (nth row (ct s) None); [apply X|].
  destruct (getn (unk s) row - 1 =? 1); [apply X|]. apply (Sub_rws_eq s); [reflexivity|exact HS].
Qed.

Lemma step2_fold_Sub c v : forall rowsl (s : st) L, Sub s -> Sub (fst (fold_left (f2 Sy sxor s0 c v) rowsl (s, L))).
Proof.
  induction rowsl as [|a rest IH]; intros s1 L HS; [exact HS|].
  cbn [fold_left].
  assert (E : f2 Sy sxor s0 c v (s1, L) a =
              (fst (step2_row sxor s0 s1 c v a), if snd (step2_row sxor s0 s1 c v a) then L ++ [a] else L)).
  { unfold f2. destruct (step2_row sxor s0 s1 c v a); reflexivity. }
  rewrite E. apply IH. now apply step2_row_Sub.
Qed.

Lemma step2_Sub (s : st) c v : Sub s -> Sub (fst (step2 sxor s0 s c v)).
Proof. intros HS. unfold step2. fold (f2 Sy sxor s0 c v). now apply step2_fold_Sub. Qed.

Definition DecS (dec : st -> nat -> Sy -> option st) : Prop := forall s e v s', Sub s -> dec s e v = Some s' -> Sub s'.

Lemma step3_Sub dec : DecS dec -> forall L (s s' : st), Sub s -> step3 dec L s = Some s' -> Sub s'.
Proof.
  intros HD. induction L as [|row L IH]; intros s s' HS H.
  - cbn [step3] in H. injection H as <-. exact HS.
  - rewrite step3_cons in H.
    assert (HS1 : Sub (snd (is_complete s))) by (apply (Sub_rws_eq s); [reflexivity|exact HS]).
    destruct (is_complete s) as [b s1]. cbn [snd] in HS1.
    destruct b; [injection H as <-; exact HS1|].
    destruct (getn (enc s1) row =? 1); [|exact (IH s1 s' HS1 H)].
    destruct (nth row (rws s1) []) as [|cc [|cc2 rest]]; try discriminate H.
    destruct (nth row (ct s1) None) as [t|]; [|discriminate H].
    destruct (dec (consume s1 row) cc t) as [s2|] eqn:Ed; [|discriminate H].
    assert (HSc : Sub (consume s1 row)).
    { eapply (Sub_upd s1); [unfold consume; cbn [rws]; reflexivity|constructor|intros x []|exact HS1]. }
    exact (IH s2 s' (HD _ _ _ _ HSc Ed) H).
Qed.

Lemma decode_Sub : forall fuel, DecS (decode sxor s0 fuel).
Proof.
  induction fuel as [|f IH]; intros s e v s' HS Hdec; [discriminate Hdec|].
  rewrite decode_unfold in Hdec.
  destruct (known s e); [injection Hdec as <-; exact HS|].
  cbv zeta in Hdec. set (s1 := set_tab s e v) in *.
  assert (HS1 : Sub s1) by (apply (Sub_rws_eq s); [reflexivity|exact HS]).
  assert (HSx : Sub (snd (if r s1 <=? e then is_complete s1 else (false, s1)))).
  { destruct (r s1 <=? e); [|exact HS1]. apply (Sub_rws_eq s1); [reflexivity|exact HS1]. }
  destruct (if r s1 <=? e then is_complete s1 else (false, s1)) as [b sx]. cbn [fst snd] in *.
  destruct b; [injection Hdec as <-; exact HSx|].
  pose proof (step2_Sub sx e v HSx) as HS2.
  destruct (step2 sxor s0 sx e v) as [s2 L]. cbn [fst] in *.
  exact (step3_Sub (decode sxor s0 f) IH (rev L) s2 s' HS2 Hdec).
Qed.

Theorem run_Sub_any fuel (hist : list (nat * Sy)) (s : st) : run fuel hist = Some s -> Sub s.
Proof.
  unfold ITProofs.run.
  assert (H0S : Sub (init Sy R0 N0 H0)).
  { split; [exact H0_len|]. intros i Hi. cbn [init rws]. split; [now apply H0_nodup|apply incl_refl]. }
  revert H0S. generalize (init Sy R0 N0 H0) as sA. induction hist as [|ev h IH]; intros sA HS Hf.
  - injection Hf as <-. exact HS.
  - cbn [fold_left] in Hf. destruct (decode sxor s0 fuel sA (fst ev) (snd ev)) as [sB|] eqn:Ed.
    + exact (IH sB (decode_Sub fuel _ _ _ _ HS Ed) Hf).
    + rewrite (StableTables.fold_none Sy sxor s0 fuel h) in Hf. discriminate Hf.
Qed.

(* ============================================================================================ *)
(* Part 2.  The precondition of the ML finish                                                    *)
(* ============================================================================================ *)
(* JF cwx s: the rows are duplicate-free sub-lists of the original rows that still contain every
   unknown column, and the partial sum of a non-empty row is the sum of the symbols (of the
   codeword cwx) of its entries.  The counters are irrelevant (prepar resets them). *)
Definition JF (cwx : nat -> Sy) (s : st) : Prop :=
  WF s /\ (forall c v, nth c (tab s) None = Some v -> v = cwx c) /\
  (forall i, i < R0 -> NoDup (nth i (rws s) []) /\ incl (nth i (rws s) []) (nth i H0 [])) /\
  (forall i, i < R0 -> nth i (rws s) [] <> [] -> val (nth i (ct s) None) = gs cwx (nth i (rws s) [])) /\
  (forall i c, i < R0 -> In c (nth i H0 []) -> known s c = false -> In c (nth i (rws s) [])).

Lemma RJ_JF (s : st) : WF s -> RJ s -> Keep s -> JF cw s.
Proof.
  intros W J K. split; [exact W|]. split; [exact (rj_val s J)|]. split; [|split; [|exact K]].
  - intros i Hi. destruct (rj_row s J i Hi) as (A & B & _). split; [exact A|exact B].
  - intros i Hi Hne. destruct (rj_row s J i Hi) as (_ & _ & M).
    destruct (nth i (ct s) None) as [t|].
    + destruct M as (_ & M). exact (M Hne).
    + destruct M as [M|(M & _)]; [now elim Hne|]. rewrite M. cbn [MLSimplify.val]. symmetry. now apply parity.
Qed.

(* MLPre is the special case "untouched or empty" *)
Lemma MLPre_JF (cwx : nat -> Sy) (s : st) : (forall i, i < R0 -> gs cwx (nth i H0 []) = s0) -> MLPre cwx s -> JF cwx s.
Proof.
  intros parx (W & T & Rows). split; [exact W|]. split; [exact T|]. split; [|split].
  - intros i Hi. destruct (Rows i Hi) as [(A & _)|(A & _)]; rewrite A.
    + split; [now apply H0_nodup|apply incl_refl].
    + split; [constructor|intros x []].
  - intros i Hi Hne. destruct (Rows i Hi) as [(A & B)|(A & _)]; [|now elim Hne].
    rewrite A, B. cbn [MLSimplify.val]. symmetry. now apply parx.
  - intros i c Hi Hin Hk. destruct (Rows i Hi) as [(A & _)|(_ & B)]; [now rewrite A|].
    rewrite (B c Hin) in Hk. discriminate Hk.
Qed.

Lemma JF_prepar (cwx : nat -> Sy) (s : st) : JF cwx s -> MLSimplify.MLInv Sy sxor s0 H0 R0 N0 cwx (prepar s).
Proof.
  intros (W & T & S & V & K).
  constructor.
  - assert (Hl : length (map (@length nat) (rws s)) = R0) by (rewrite map_length; apply W).
    apply (WF_pres Sy R0 N0 s); auto; try reflexivity.
    + unfold prepar; cbn [unk]. rewrite Hl. symmetry. apply W.
    + unfold prepar; cbn [enc]. rewrite Hl. symmetry. apply W.
    + intros c Hc. exact Hc.
  - exact S.
  - intros i Hi. unfold prepar, getn; cbn [unk rws]. apply nth_map_len.
  - exact V.
  - exact T.
  - exact K.
Qed.

(* a kernel vector that vanishes on the known columns gives a second codeword compatible with the state *)
Lemma JF_cw2 (s : st) (z : nat -> bool) (a : Sy) : JF cw s -> hker z ->
  (forall c, c < N0 -> known s c = true -> z c = false) -> JF (cw2 Sy sxor cw z a) s.
Proof.
  intros (W & T & S & V & K) Hz Hv. split; [exact W|]. split; [|split; [exact S|split; [|exact K]]].
  - intros c v Hc. rewrite (T c v Hc). unfold cw2.
    destruct (Nat.lt_ge_cases c N0) as [Hlt|Hge].
    + rewrite (Hv c Hlt); [reflexivity|]. unfold known. now rewrite Hc.
    + rewrite nth_overflow in Hc by (rewrite (wf_tab Sy R0 N0 s W); exact Hge). discriminate Hc.
  - intros i Hi Hne. rewrite (V i Hi Hne).
    rewrite (gs_cw2 Sy sxor s0 sxor_assoc sxor_comm sxor_0_l sxor_nilp cw z a).
    destruct (S i Hi) as (ND & Incl).
    assert (E : fold_right xorb false (map z (nth i (rws s) [])) = false).
    { change (xs bool xorb false z (nth i (rws s) []) = false).
      rewrite <- (gs_mem bool xorb false DenseSolveComplete.bx_assoc DenseSolveComplete.bx_comm DenseSolveComplete.bx_0_l
                    z (nth i H0 []) (nth i (rws s) []) (H0_nodup i Hi) ND Incl).
      transitivity (xs bool xorb false z (nth i H0 [])); [|exact (Hz i Hi)].
      apply gs_ext. intros c Hc.
      destruct (mem c (nth i (rws s) [])) eqn:Em; [reflexivity|].
      apply mem_false in Em. symmetry. apply Hv; [exact (H0_range i c Hi Hc)|].
      destruct (known s c) eqn:Hk; [reflexivity|]. exfalso. apply Em. exact (K i c Hi Hc Hk). }
    rewrite E. symmetry. apply sx0r.
Qed.

(* the simplification phase (MLFinish.reduce_gen / reduce_main with JF in place of MLPre) *)
Lemma reduce_gen_JF (cwx : nat -> Sy) fuel perm (s : st) :
  (forall i, i < R0 -> gs cwx (nth i H0 []) = s0) ->
  JF cwx s -> N0 < fuel -> (forall c, c < R0 -> In c perm) -> (forall c, In c perm -> c < R0) ->
  exists s1, red Sy sxor fuel perm s = Some s1 /\ MLSimplify.MLInv Sy sxor s0 H0 R0 N0 cwx s1 /\ Kmono s s1
    /\ (forall c, known s c = true -> nth c (tab s1) None = nth c (tab s) None)
    /\ (iscomp s1 \/ RC Sy H0 R0 s1).
Proof.
  intros parx P Hf Hp1 Hp2.
  assert (W : WF s) by apply P.
  pose proof (JF_prepar cwx s P) as I0.
  unfold red. change (r (prepar s)) with (r s). rewrite (wf_r Sy R0 N0 s W), (wf_n Sy R0 N0 s W).
  rewrite map_add_seq. rewrite <- fold_left_app.
  set (cs := seq R0 (N0 - R0) ++ perm).
  assert (Hcs1 : forall c, In c cs -> c < N0).
  { intros c Hc. apply in_app_or in Hc. destruct Hc as [Hc|Hc]; [apply in_seq in Hc; lia|apply Hp2 in Hc; lia]. }
  assert (Hcs2 : forall c, c < N0 -> In c cs).
  { intros c Hc. apply in_or_app. destruct (Nat.lt_ge_cases c R0) as [Hlt|Hge]; [right; now apply Hp1|left; apply in_seq; lia]. }
  destruct (inject_all_spec Sy sxor s0 sxor_assoc sxor_comm sxor_0_l sxor_nilp H0 R0 N0 H0_len H0_nodup H0_range H0_deg R_le_N
              cwx parx cs fuel (prepar s) I0 Hcs1 Hf) as (s1 & Hs1 & I1 & M & T & _).
  exists s1. split; [exact Hs1|]. split; [exact I1|]. split; [exact M|]. split; [exact T|].
  destruct (reduced Sy sxor s0 sxor_assoc sxor_comm sxor_0_l sxor_nilp H0 R0 N0 H0_len H0_nodup H0_range H0_deg R_le_N
              cwx parx cs fuel (prepar s) s1 I0 Hcs1 Hcs2 Hf Hs1) as (_ & [C|(_ & X)]); [now left|right; exact X].
Qed.

Lemma reduce_main_JF fuel perm (s : st) :
  JF cw s -> N0 < fuel -> (forall c, c < R0 -> In c perm) -> (forall c, In c perm -> c < R0) ->
  exists s1, red Sy sxor fuel perm s = Some s1 /\ MLInv cw s1 /\ Kmono s s1
    /\ (forall c, known s c = true -> nth c (tab s1) None = nth c (tab s) None)
    /\ (iscomp s1 \/ RC Sy H0 R0 s1)
    /\ (forall z, hker z -> (forall c, c < N0 -> known s c = true -> z c = false) ->
        forall c, known s1 c = true -> z c = false).
Proof.
  intros P Hf Hp1 Hp2.
  destruct (reduce_gen_JF cw fuel perm s parity P Hf Hp1 Hp2) as (s1 & Hs1 & I1 & M & T & X).
  exists s1. split; [exact Hs1|]. split; [exact I1|]. split; [exact M|]. split; [exact T|]. split; [exact X|].
  intros z Hz Hv c Hk.
  destruct Sy_nontrivial as (a & Ha).
  pose proof (JF_cw2 s z a P Hz Hv) as P2.
  destruct (reduce_gen_JF (cw2 Sy sxor cw z a) fuel perm s
              (parity2 Sy sxor s0 sxor_assoc sxor_comm sxor_0_l sxor_nilp H0 R0 cw parity z a Hz) P2 Hf Hp1 Hp2)
    as (s1' & Hs1' & I1' & _).
  rewrite Hs1 in Hs1'. injection Hs1' as <-.
  unfold known in Hk. destruct (nth c (tab s1) None) as [v|] eqn:Ev; [|discriminate Hk].
  pose proof (ml_tab Sy sxor s0 H0 R0 N0 cw s1 I1 c v Ev) as E1.
  pose proof (ml_tab Sy sxor s0 H0 R0 N0 (cw2 Sy sxor cw z a) s1 I1' c v Ev) as E2.
  unfold cw2 in E2. destruct (z c); [|reflexivity]. exfalso. apply Ha.
  apply (XorGroup.sxor_cancel Sy sxor s0 sxor_assoc sxor_0_l sxor_nilp (cw c)). rewrite sx0r. congruence.
Qed.

(* the ML finish from any state that satisfies JF: total, sound, complete iff determined *)
Theorem ml_finish_JF fuel perm (s : st) :
  JF cw s -> N0 < fuel -> (forall c, c < R0 -> In c perm) -> (forall c, In c perm -> c < R0) ->
  exists o, ml_finish sxor s0 fuel perm s = Some o /\
    (forall c v, nth c (tab (o_st o)) None = Some v -> v = cw c) /\
    Kmono s (o_st o) /\
    (o_ok o = true <-> iscomp (o_st o)) /\
    (iscomp (o_st o) <-> Det s).
Proof.
  intros P Hf Hp1 Hp2.
  destruct (reduce_main_JF fuel perm s P Hf Hp1 Hp2) as (s1 & Hs1 & I1 & KM & T & X & KD).
  destruct (tail_spec Sy sxor s0 sxor_assoc sxor_comm sxor_0_l sxor_nilp H0 R0 N0 H0_len H0_nodup H0_range H0_deg R_le_N
              cw H0_cols H0_stair s1 I1 s KM KD X) as (o & Ho & (P1 & P2 & P3 & P4 & P5)).
  exists o. split.
  - rewrite ml_finish_eq, Hs1.
    assert (W : WF s) by apply P.
    rewrite (wf_r Sy R0 N0 s W), (wf_n Sy R0 N0 s W). exact Ho.
  - split; [exact P1|]. split; [intros c Hc; apply P2, KM, Hc|]. split; [exact P4|exact P5].
Qed.

(* the finish from a state in which every source symbol is already available (the streaming decoder
   stops early on completion and leaves rows half-processed: MLPre does not hold there, JF does) *)
Corollary ml_finish_from_complete fuel perm (s : st) :
  JF cw s -> iscomp s -> N0 < fuel -> (forall c, c < R0 -> In c perm) -> (forall c, In c perm -> c < R0) ->
  exists o, ml_finish sxor s0 fuel perm s = Some o /\ o_ok o = true /\ iscomp (o_st o)
    /\ (forall c v, nth c (tab (o_st o)) None = Some v -> v = cw c)
    /\ (forall e x, nth e (tab s) None = Some x -> nth e (tab (o_st o)) None = Some x).
Proof.
  intros P C Hf Hp1 Hp2.
  destruct (ml_finish_JF fuel perm s P Hf Hp1 Hp2) as (o & Ho & V & KM & OK & _).
  exists o. split; [exact Ho|].
  assert (C' : iscomp (o_st o)) by (intros c Hc; apply KM, C, Hc).
  split; [apply OK; exact C'|]. split; [exact C'|]. split; [exact V|].
  exact (StableTables.ml_finish_tab_stable Sy sxor s0 fuel perm s o Ho).
Qed.

(* ============================================================================================ *)
(* Part 3.  Not-complete reachable states satisfy MLPre                                          *)
(* ============================================================================================ *)
Lemma Urow_nil_known (s : st) i : Urow H0 (known s) i = [] -> forall c, In c (nth i H0 []) -> known s c = true.
Proof.
  intros E c Hc. destruct (known s c) eqn:Hk; [reflexivity|]. exfalso.
  assert (Hin : In c (Urow H0 (known s) i)) by (unfold Urow; apply filter_In; split; [exact Hc|now rewrite Hk]).
  rewrite E in Hin. destruct Hin.
Qed.

Lemma good_MLPre (s : st) : Good s -> ~ iscomp s -> (forall c v, nth c (tab s) None = Some v -> v = cw c) -> MLPre cw s.
Proof.
  intros (W & HG) Hnc T. destruct HG as [C|(HI & HN)]; [now elim Hnc|].
  split; [exact W|]. split; [exact T|].
  intros i Hi. specialize (HI i Hi). specialize (HN i Hi). unfold rowinv in HI. unfold ready1 in HN.
  destruct (nth i (ct s) None) as [t|] eqn:Ect.
  - right. destruct HI as (A & B & _ & _).
    assert (E : Urow H0 (known s) i = []).
    { destruct (Urow H0 (known s) i) as [|x [|y l]] eqn:EU; [reflexivity| |simpl in B; lia].
      exfalso. apply HN. split; [discriminate|]. rewrite A. reflexivity. }
    split; [rewrite A; exact E|exact (Urow_nil_known s i E)].
  - destruct HI as [(A & _)|(A & _ & C)].
    + left. split; [exact A|reflexivity].
    + right. split; [exact A|]. apply Urow_nil_known.
      destruct (Urow H0 (known s) i) as [|x l]; [reflexivity|].
      specialize (C x (or_introl eq_refl)). discriminate C.
Qed.

(* ============================================================================================ *)
(* Part 4.  The session theorems                                                                 *)
(* ============================================================================================ *)
Definition Rcv (hist : list (nat * Sy)) : nat -> Prop := fun c => In c (map fst hist).
(* the sources are uniquely determined by the RECEIVED symbols and the parity equations *)
Definition DetR (hist : list (nat * Sy)) : Prop :=
  forall z, hker z -> (forall c, Rcv hist c -> z c = false) -> forall c, R0 <= c < N0 -> z c = false.

(* a kernel vector that vanishes on a set vanishes on its peeling closure *)
Lemma ker_peel (z : nat -> bool) (Rc : nat -> Prop) : hker z -> (forall c, Rc c -> z c = false) ->
  forall c, peel H0 R0 Rc c -> z c = false.
Proof.
  intros Hz Hv c Hp. induction Hp as [c Hc|i c Hi Hin Hall IH]; [now apply Hv|].
  pose proof (Hz i Hi) as E. change (xs bool xorb false z (nth i H0 []) = false) in E.
  rewrite (gs_rm bool xorb false DenseSolveComplete.bx_assoc DenseSolveComplete.bx_comm z (nth i H0 []) c
             (H0_nodup i Hi) Hin) in E.
  assert (E2 : xs bool xorb false z (rm c (nth i H0 [])) = false).
  { apply DenseSolveComplete.fold_xorb_zero. intros x Hx. apply rm_In in Hx. destruct Hx as (Hx & Hne). now apply IH. }
  rewrite E2 in E. destruct (z c); [discriminate E|reflexivity].
Qed.

Lemma fold_recv fuel : forall (h : list (nat * Sy)) (sA s1 : st), (forall ev, In ev h -> fst ev < N0) ->
  fold_left (dstep fuel) h (Some sA) = Some s1 -> Good sA ->
  Good s1 /\ Kmono sA s1 /\ forall ev, In ev h -> known s1 (fst ev) = true.
Proof.
  induction h as [|ev h IH]; intros sA s1 Hh Hf HG.
  - injection Hf as <-. split; [exact HG|]. split; [intros c Hc; exact Hc|intros ev []].
  - cbn [fold_left] in Hf.
    destruct (decode sxor s0 fuel sA (fst ev) (snd ev)) as [sB|] eqn:Ed.
    + assert (HS : Sound Sy H0 R0 (fun _ => True) sA) by (intros c _; now apply peel_recv).
      destruct (decode_good Sy sxor s0 H0 R0 N0 H0_len H0_nodup H0_range H0_deg R_le_N fuel sA sB (fst ev) (snd ev)
                  (fun _ => True) HG HS I (Hh ev (or_introl eq_refl)) Ed) as (GB & _ & MB & KB).
      destruct (IH sB s1 (fun e He => Hh e (or_intror He)) Hf GB) as (G1 & M1 & K1).
      split; [exact G1|]. split; [intros c Hc; apply M1, MB, Hc|].
      intros e [<-|He]; [apply M1, KB|now apply K1].
    + rewrite (StableTables.fold_none Sy sxor s0 fuel h) in Hf. discriminate Hf.
Qed.

(* what is known about a state reached by the streaming decoder on codeword symbols *)
Lemma run_facts fuel (hist : list (nat * Sy)) (s : st) :
  (forall ev, In ev hist -> fst ev < N0 /\ snd ev = cw (fst ev)) -> run fuel hist = Some s ->
  JF cw s /\ (forall c, Rcv hist c -> c < N0 /\ known s c = true) /\ (forall c, known s c = true -> peel H0 R0 (Rcv hist) c).
Proof.
  intros Hh Hrun.
  assert (Hr : forall ev, In ev hist -> fst ev < N0) by (intros ev Hev; apply (Hh ev Hev)).
  destruct (init_good Sy sxor s0 H0 R0 N0 H0_len H0_deg R_le_N) as (G0 & _).
  destruct (fold_recv fuel hist (init Sy R0 N0 H0) s Hr Hrun G0) as ((W & _) & _ & KR).
  destruct (run_J fuel hist s Hh Hrun) as (J & K).
  destruct (it_is_peeling Sy sxor s0 H0 R0 N0 H0_len H0_nodup H0_range H0_deg R_le_N fuel hist s Hr Hrun) as (A & _).
  split; [exact (RJ_JF s W J K)|]. split; [|exact A].
  intros c Hc. unfold Rcv in Hc. apply in_map_iff in Hc. destruct Hc as (ev & <- & Hev).
  split; [exact (Hr ev Hev)|exact (KR ev Hev)].
Qed.

Lemma Det_DetR fuel (hist : list (nat * Sy)) (s : st) :
  (forall ev, In ev hist -> fst ev < N0 /\ snd ev = cw (fst ev)) -> run fuel hist = Some s ->
  (Det s <-> DetR hist).
Proof.
  intros Hh Hrun. destruct (run_facts fuel hist s Hh Hrun) as (_ & KR & A).
  split; intros D z Hz Hv c Hc; apply (D z Hz); try exact Hc.
  - intros c' _ Hk. apply (ker_peel z (Rcv hist) Hz Hv). now apply A.
  - intros c' Hr. destruct (KR c' Hr) as (Hlt & Hk). now apply Hv.
Qed.

Lemma DetR_ext (h1 h2 : list (nat * Sy)) : (forall c, In c (map fst h1) <-> In c (map fst h2)) -> (DetR h1 <-> DetR h2).
Proof.
  intros E. split; intros D z Hz Hv c Hc; apply (D z Hz); try exact Hc; intros c' Hr; apply Hv; unfold Rcv in *; now apply E.
Qed.

Theorem ldpc_session_finish : forall hist s fuel perm o,
  (forall ev, In ev hist -> fst ev < N0 /\ snd ev = cw (fst ev)) -> run (S N0) hist = Some s ->
  N0 < fuel -> (forall c, c < R0 -> In c perm) -> (forall c, In c perm -> c < R0) ->
  ml_finish sxor s0 fuel perm s = Some o ->
  (forall c v, nth c (tab (o_st o)) None = Some v -> v = cw c)                        (* never a wrong symbol *)
  /\ (forall c x, nth c (tab s) None = Some x -> nth c (tab (o_st o)) None = Some x)   (* held symbols are kept *)
  /\ (o_ok o = true <-> iscomp (o_st o))                                              (* status tells the truth *)
  /\ (iscomp (o_st o) <-> DetR hist).                                                 (* succeeds iff recoverable *)
Proof.
  intros hist s fuel perm o Hh Hrun Hf Hp1 Hp2 Ho.
  destruct (run_facts (S N0) hist s Hh Hrun) as (P & _ & _).
  destruct (ml_finish_JF fuel perm s P Hf Hp1 Hp2) as (o' & Ho' & V & _ & OK & D).
  rewrite Ho in Ho'. injection Ho' as <-.
  split; [exact V|]. split; [exact (StableTables.ml_finish_tab_stable Sy sxor s0 fuel perm s o Ho)|].
  split; [exact OK|]. rewrite D. exact (Det_DetR (S N0) hist s Hh Hrun).
Qed.

Theorem ldpc_session_finish_total : forall hist s fuel perm,
  (forall ev, In ev hist -> fst ev < N0 /\ snd ev = cw (fst ev)) -> run (S N0) hist = Some s ->
  N0 < fuel -> (forall c, c < R0 -> In c perm) -> (forall c, In c perm -> c < R0) ->
  exists o, ml_finish sxor s0 fuel perm s = Some o.
Proof.
  intros hist s fuel perm Hh Hrun Hf Hp1 Hp2.
  destruct (run_facts (S N0) hist s Hh Hrun) as (P & _ & _).
  destruct (ml_finish_JF fuel perm s P Hf Hp1 Hp2) as (o & Ho & _). exists o. exact Ho.
Qed.

(* the whole session (streaming decoder, then ML finish) always produces an outcome *)
Corollary ldpc_session_total : forall hist fuel perm,
  (forall ev, In ev hist -> fst ev < N0 /\ snd ev = cw (fst ev)) ->
  N0 < fuel -> (forall c, c < R0 -> In c perm) -> (forall c, In c perm -> c < R0) ->
  exists s o, run (S N0) hist = Some s /\ ml_finish sxor s0 fuel perm s = Some o.
Proof.
  intros hist fuel perm Hh Hf Hp1 Hp2.
  destruct (run_total Sy sxor s0 H0 R0 N0 H0_len H0_nodup H0_range H0_deg R_le_N (S N0) hist (Nat.lt_succ_diag_r N0)
              (fun ev Hev => proj1 (Hh ev Hev))) as (s & Hs).
  destruct (ldpc_session_finish_total hist s fuel perm Hh Hs Hf Hp1 Hp2) as (o & Ho).
  exists s, o. split; [exact Hs|exact Ho].
Qed.

Corollary ldpc_session_finish_order_independent : forall h1 h2 s1 s2 fuel1 fuel2 perm1 perm2 o1 o2,
  (forall ev, In ev h1 -> fst ev < N0 /\ snd ev = cw (fst ev)) ->
  (forall ev, In ev h2 -> fst ev < N0 /\ snd ev = cw (fst ev)) ->
  (forall c, In c (map fst h1) <-> In c (map fst h2)) ->
  run (S N0) h1 = Some s1 -> run (S N0) h2 = Some s2 ->
  N0 < fuel1 -> N0 < fuel2 ->
  (forall c, c < R0 -> In c perm1) -> (forall c, In c perm1 -> c < R0) ->
  (forall c, c < R0 -> In c perm2) -> (forall c, In c perm2 -> c < R0) ->
  ml_finish sxor s0 fuel1 perm1 s1 = Some o1 -> ml_finish sxor s0 fuel2 perm2 s2 = Some o2 ->
  o_ok o1 = o_ok o2.
Proof.
  intros h1 h2 s1 s2 fuel1 fuel2 perm1 perm2 o1 o2 Hh1 Hh2 E R1 R2 F1 F2 A1 A2 B1 B2 O1 O2.
  destruct (ldpc_session_finish h1 s1 fuel1 perm1 o1 Hh1 R1 F1 A1 A2 O1) as (_ & _ & X1 & Y1).
  destruct (ldpc_session_finish h2 s2 fuel2 perm2 o2 Hh2 R2 F2 B1 B2 O2) as (_ & _ & X2 & Y2).
  pose proof (DetR_ext h1 h2 E) as D.
  destruct (o_ok o1) eqn:E1; destruct (o_ok o2) eqn:E2; try reflexivity.
  - assert (T : false = true) by (apply X2, Y2, D, Y1, X1; reflexivity). discriminate T.
  - assert (T : false = true) by (apply X1, Y1, D, Y2, X2; reflexivity). discriminate T.
Qed.

End Session.

Print Assumptions run_Sub_any.
Print Assumptions run_J.
Print Assumptions ml_finish_JF.
Print Assumptions good_MLPre.
Print Assumptions ldpc_session_finish.
Print Assumptions ldpc_session_finish_total.
Print Assumptions ldpc_session_finish_order_independent.
