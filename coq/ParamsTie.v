(* C09: the hand-written decision functions of Params.v ARE what the source says.  gen/GenParams.v is regenerated on every
   run from the parameter checks at the head of of_rs_set_fec_parameters, of_rs_2_m_set_fec_parameters,
   of_ldpc_staircase_set_fec_parameters and of_create_pchck_matrix_rfc5170_compliant (tools/gen_params.py: clang parses, c2gallina
   translates with C's integer semantics: UINT32 wrap-around, the UINT16 / UINT8 / INT32 promotions, undefined behaviour as None).
   For every value the C types can hold, the generated prefix is defined (no undefined behaviour) and returns accept_*. *)
From Coq Require Import ZArith Bool Lia.
From OFV Require Import CSem Params.
From OFV.gen Require Import GenConsts GenParams.
Local Open Scope Z_scope.

Definition is_u32 (z : Z) : Prop := 0 <= z < 4294967296.

Lemma wrapu32_small z : 0 <= z < 4294967296 -> wrapu32 z = z.
Proof. intros H. unfold wrapu32, wrapu. apply Z.mod_small. exact H. Qed.
Lemma wraps32_small z : -2147483648 <= z < 2147483648 -> wraps32 z = z.
Proof. intros H. unfold wraps32, wraps. change (2 ^ (32 - 1)) with 2147483648. change (2 ^ 32) with 4294967296.
  rewrite Z.mod_small by lia. lia. Qed.

(* Reed-Solomon GF(2^8): the limits are the constants of the control block (of_rs_create_codec_instance), read from the headers *)
Theorem rs28_prefix_is_accept : forall k r L, is_u32 k -> is_u32 r -> is_u32 L ->
  rs28_prefix k c_rs28_max_k r L c_rs28_max_n = Some (accept_rs28 k r L).
Proof.
  intros k r L Hk Hr HL. unfold is_u32 in *. unfold rs28_prefix, accept_rs28, bind, c_rs28_max_k, c_rs28_max_n.
  rewrite (wrapu32_small 1) by lia.
  rewrite !Z.gtb_ltb.
  destruct (Z.ltb_spec 255 k) as [H1|H1]; cbn [negb andb]; [reflexivity|].
  destruct (Z.ltb_spec k 1) as [H2|H2]; cbn [orb negb andb]; [reflexivity|].
  destruct (Z.ltb_spec r 1) as [H3|H3]; cbn [orb negb andb]; [reflexivity|].
  destruct (Z.ltb_spec L 1) as [H4|H4]; cbn [orb negb andb]; [reflexivity|].
  rewrite (wrapu32_small (255 - k)) by lia.
  destruct (Z.ltb_spec (255 - k) r); reflexivity.
Qed.

(* Reed-Solomon GF(2^m): m is a UINT16; the shift 1 << m is only reached with m = 4 or 8, so it is defined *)
Theorem rs2m_prefix_is_accept : forall m k r L, 0 <= m < 65536 -> is_u32 k -> is_u32 r -> is_u32 L ->
  rs2m_prefix m k r L = Some (accept_rs2m m k r L).
Proof.
  intros m k r L Hm Hk Hr HL. unfold is_u32 in *. unfold rs2m_prefix, accept_rs2m.
  rewrite (wraps32_small m) by lia. rewrite (wrapu32_small 1) by lia.
  destruct (Z.eqb_spec m 4) as [->|N4].
  - cbn [negb andb orb]. vm_compute (chk_s32 (Z.shiftl 1 4)). cbn [bind]. vm_compute (chk_shift 32 4 16). cbn [bind].
    vm_compute (chk_s32 (16 - 1)). cbn [bind]. vm_compute (wrapu32 (wrapu16 15)). cbn [bind].
    change (2 ^ 4 - 1) with 15. rewrite !Z.gtb_ltb.
    destruct (Z.ltb_spec 15 k); cbn [negb andb]; [reflexivity|].
    destruct (Z.ltb_spec k 1); cbn [orb negb]; [reflexivity|].
    destruct (Z.ltb_spec r 1); cbn [orb negb]; [reflexivity|].
    destruct (Z.ltb_spec L 1); reflexivity.
  - destruct (Z.eqb_spec m 8) as [->|N8].
    + cbn [negb andb orb]. vm_compute (chk_s32 (Z.shiftl 1 8)). cbn [bind]. vm_compute (chk_shift 32 8 256). cbn [bind].
      vm_compute (chk_s32 (256 - 1)). cbn [bind]. vm_compute (wrapu32 (wrapu16 255)). cbn [bind].
      change (2 ^ 8 - 1) with 255. rewrite !Z.gtb_ltb.
      destruct (Z.ltb_spec 255 k); cbn [negb andb]; [reflexivity|].
      destruct (Z.ltb_spec k 1); cbn [orb negb]; [reflexivity|].
      destruct (Z.ltb_spec r 1); cbn [orb negb]; [reflexivity|].
      destruct (Z.ltb_spec L 1); reflexivity.
    + reflexivity.
Qed.

(* LDPC-Staircase: N1 is a UINT8, the seed an INT32; the matrix construction is entered with nb_rows = n-k,
   nb_cols = (UINT32)(k + n-k), left_degree = N1, and its own first test completes the decision *)
Theorem ldpc_prefix_is_accept : forall k r L n1 seed, is_u32 k -> is_u32 r -> is_u32 L -> 0 <= n1 < 256 ->
  -2147483648 <= seed < 2147483648 ->
  match ldpc_prefix n1 k r L seed c_ldpc_max_k c_ldpc_max_n with
  | Some true => pchk_prefix r (u32 (k + r)) n1 (wrapu32 seed) = Some (accept_ldpc k r L n1 seed)
  | Some false => accept_ldpc k r L n1 seed = false
  | None => False
  end.
Proof.
  intros k r L n1 seed Hk Hr HL Hn Hs. unfold is_u32 in *.
  unfold ldpc_prefix, pchk_prefix, accept_ldpc, bind, c_ldpc_max_k, c_ldpc_max_n, u32.
  rewrite (wraps32_small n1) by lia. rewrite (wrapu32_small 1) by lia. rewrite !Z.gtb_ltb.
  change (2 ^ 32) with 4294967296. unfold wrapu32, wrapu. change (2 ^ 32) with 4294967296.
  destruct (Z.ltb_spec n1 3); cbn [negb andb]; [reflexivity|].
  destruct (Z.ltb_spec k 1); cbn [orb negb andb]; [reflexivity|].
  destruct (Z.ltb_spec r 1); cbn [orb negb andb]; [reflexivity|].
  destruct (Z.ltb_spec L 1); cbn [orb negb andb]; [reflexivity|].
  destruct (Z.ltb_spec seed 1); cbn [orb negb andb]; [reflexivity|].
  destruct (Z.ltb_spec 2147483646 seed); cbn [orb negb andb]; [reflexivity|].
  destruct (Z.ltb_spec 50000 k); cbn [negb andb]; [reflexivity|].
  destruct (Z.ltb_spec 50000 r); cbn [negb andb]; [reflexivity|].
  destruct (Z.ltb_spec 50000 ((k + r) mod 4294967296)); cbn [negb andb]; [reflexivity|].
  destruct (Z.ltb_spec r n1); reflexivity.
Qed.

(* hence: of_set_fec_parameters gets past its checks exactly when accept_ldpc says so *)
Corollary ldpc_checks_pass_iff_accept : forall k r L n1 seed, is_u32 k -> is_u32 r -> is_u32 L -> 0 <= n1 < 256 ->
  -2147483648 <= seed < 2147483648 ->
  (ldpc_prefix n1 k r L seed c_ldpc_max_k c_ldpc_max_n = Some true /\ pchk_prefix r (u32 (k + r)) n1 (wrapu32 seed) = Some true)
  <-> accept_ldpc k r L n1 seed = true.
Proof.
  intros k r L n1 seed Hk Hr HL Hn Hs. pose proof (ldpc_prefix_is_accept k r L n1 seed Hk Hr HL Hn Hs) as H.
  destruct (ldpc_prefix n1 k r L seed c_ldpc_max_k c_ldpc_max_n) as [[|]|]; [| |contradiction].
  - rewrite H. split; [intros (_ & E); congruence|intros E; split; [reflexivity|congruence]].
  - rewrite H. split; [intros (E & _); discriminate|discriminate].
Qed.

(* 2D parity: only k and the (wrapping) total are tested here; the shape test is the matrix construction's (Pchk2D.create2d) *)
Theorem p2d_prefix_is_limits : forall k r L, is_u32 k -> is_u32 r ->
  p2d_prefix k c_p2d_max_k r c_p2d_max_n L = Some ((k <=? c_p2d_max_k) && (u32 (k + r) <=? c_p2d_max_n)).
Proof.
  intros k r L Hk Hr. unfold is_u32 in *. unfold p2d_prefix, bind, c_p2d_max_k, c_p2d_max_n, u32, wrapu32, wrapu.
  rewrite !Z.gtb_ltb.
  destruct (Z.ltb_spec 16 k); destruct (Z.leb_spec k 16); try lia; cbn [andb]; [reflexivity|].
  destruct (Z.ltb_spec 24 ((k + r) mod 2 ^ 32)); destruct (Z.leb_spec ((k + r) mod 2 ^ 32) 24); try lia; reflexivity.
Qed.

Print Assumptions rs28_prefix_is_accept.
Print Assumptions rs2m_prefix_is_accept.
Print Assumptions ldpc_checks_pass_iff_accept.
Print Assumptions p2d_prefix_is_limits.
