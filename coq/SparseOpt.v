(* Model M, continued (C17): the "optimised" copies of of_matrix_sparse.c - of_mod2sparse_copyrows_opt,
   of_mod2sparse_copycols_opt and the static of_mod2sparse_insert_opt they use.  They differ from the plain
   copies in two ways: the destination is NOT cleared first (the call is commented out in the C), and the
   column walk of every insertion starts at the entry inserted last into that column (the table __parsing,
   allocated by the function itself when the caller passes NULL, which is how the model calls it) instead
   of at the head of the column.  Both functions return at the first out-of-range index, keeping what was
   copied so far (and, in the C, without releasing __parsing: a leak of that scratch table on the error path). *)
From Coq Require Import Arith List Bool.
From OFV Require Import ListAux Sparse.
Import ListNotations.

(* column walk of insert_opt: advance while the entry's row is smaller, insert in front of the first other one *)
Fixpoint ins_before (x : nat) (l : list nat) : list nat :=
  match l with [] => [x] | y :: t => if y <? x then y :: ins_before x t else x :: l end.
(* the walk starts at the hinted entry h of the column (an entry that is in the column: see hint_ok in the proofs;
   for a stale hint the C would follow a dangling pointer, the model appends) *)
Fixpoint ins_from (h x : nat) (l : list nat) : list nat :=
  match l with [] => [x] | y :: t => if y =? h then ins_before x l else y :: ins_from h x t end.
Definition col_ins (hint : option nat) (x : nat) (l : list nat) : list nat :=
  match hint with None => ins_before x l | Some h => ins_from h x l end.

(* of_mod2sparse_insert_opt: the row search is the one of of_mod2sparse_insert (last entry first, then from the front);
   an entry found in the row is returned as it is; a new one is linked into the column by the hinted walk *)
Definition s_insert_opt (m : smat) (i j : nat) (hint : option nat) : smat * sres :=
  if (nr m <=? i) || (nc m <=? j) then (m, OutOfRange) else
  match ins_fast j (nth i (rws m) []) with
  | None => (m, Existed)
  | Some row' =>
    let '(nb, nf) := pool_take m in
    ({| nr := nr m; nc := nc m; rws := upd (rws m) i row';
        cls := upd (cls m) j (col_ins hint i (nth j (cls m) [])); nblocks := nb; nfree := nf |}, Inserted)
  end.

(* one source row into row i of r; hints : one slot per column of m, set to the entry just inserted (or found) *)
Fixpoint cro_row (r : smat) (i : nat) (cols : list nat) (hints : list (option nat)) : smat * list (option nat) :=
  match cols with
  | [] => (r, hints)
  | c :: t => cro_row (fst (s_insert_opt r i c (nth c hints None))) i t (upd hints c (Some i))
  end.
Fixpoint cro_loop (m r : smat) (rows : list nat) (i n : nat) (hints : list (option nat)) : smat :=
  match n with
  | O => r
  | S n' =>
    let src := nth i rows 0 in
    if nr m <=? src then r
    else let '(r', h') := cro_row r i (nth src (rws m) []) hints in cro_loop m r' rows (S i) n' h'
  end.
Definition s_copyrows_opt (m r : smat) (rows : list nat) : smat :=
  if nc r <? nc m then r else cro_loop m r rows 0 (nr r) (repeat None (nc m)).

(* one source column into column j of r; the hint is the entry inserted last into that column by this call *)
Fixpoint cco_col (r : smat) (j : nat) (rows : list nat) (hint : option nat) : smat :=
  match rows with [] => r | e :: t => cco_col (fst (s_insert_opt r e j hint)) j t (Some e) end.
Fixpoint cco_loop (m r : smat) (cols : list nat) (j n : nat) : smat :=
  match n with
  | O => r
  | S n' =>
    let src := nth j cols 0 in
    if nc m <=? src then r else cco_loop m (cco_col r j (nth src (cls m) []) None) cols (S j) n'
  end.
Definition s_copycols_opt (m r : smat) (cols : list nat) : smat :=
  if nr r <? nr m then r else cco_loop m r cols 0 (nc r).

