(* GaussJordan: a Gallina model of of_invert_mat (in-place Gauss-Jordan matrix
   inversion with full pivoting over a finite field, adapted from Numerical
   Recipes by L. Rizzo; three textually identical copies in the library, two for
   GF(2^8) and one for GF(2^4)) and the proof that it computes the two-sided
   inverse of every invertible matrix and reports failure exactly on the
   singular ones.

   Part 0: list utilities (in-place update, index swap, pivot marks).
   Part 1: the model (Section Defs), over arbitrary operations.
   Part 2: theory over a field of characteristic 2 (Section Theory):
           GJ_sound, GJ_complete, GJ_complete_left, GJ_none_iff_singular,
           GJ_none_iff_singular_left, GJ_unique.
   Part 3: homomorphisms (Section Hom): the model commutes with a map between
           two carriers that respects the operations.
   Part 4: executable instances over N for GF(256) and GF(16) and their
           theorems by transfer along val : GF q -> N.
   Part 5: examples.

   On the field.  The C code eliminates with addmul (dst[i] ^= c * src[i]),
   i.e. it ADDS c times the pivot row where the textbook algorithm subtracts.
   The model keeps the addition (abstract [add]); the theory therefore assumes
   characteristic 2 ([add_self : add a a = zero]), which is what makes the
   addition an elimination; [add_self] is used in exactly one place, the
   pivot-column case of [Inv_step].
   On the shortcut.  With addmul read as an addition, the "pivot row equals the
   unit row" test skips a loop that is a no-op on every well-formed matrix, in
   any characteristic (lemma [elim_unit_noop]): the skipped loop would write
   p[icol] = 0 and then add c * 1 = c back, and add c * 0 to the other entries.
   (With a subtracting elimination the skipped loop would store -c, so the
   shortcut is tied to characteristic 2 as well.)  The test is kept in the
   model.
   On the marks.  ipiv[ix] > 1 never happens (the marks stay 0/1, part of the
   loop invariant [SInv]); the test and its [goto fail] are kept in the model
   (result [PFail]) and shown unreachable ([find_pivot_nofail]).  Likewise the
   second "c == 0" failure is kept ([eliminate] returns None) and unreachable
   ([eliminate_spec]). *)
From Coq Require Import List Arith NArith Bool Lia Ring.
From OFV Require Import GF2Poly RSSpec GFField.
Import ListNotations.

(* ------------------------------------------------------------------ *)
(* Part 0: list utilities                                              *)
(* ------------------------------------------------------------------ *)
Section ListUtil.
  Variable X : Type.

  (* l[i] = v, in place; no effect when i is out of range *)
  Fixpoint set_nth (i : nat) (v : X) (l : list X) {struct l} : list X :=
    match l with
    | [] => []
    | x :: t => match i with O => v :: t | S i' => x :: set_nth i' v t end
    end.

  Lemma set_nth_length : forall i v l, length (set_nth i v l) = length l.
  Proof.
    intros i v l. revert i. induction l as [|x t IH]; intros i.
    - reflexivity.
    - destruct i as [|i]; cbn [set_nth length]; [reflexivity|].
      rewrite IH. reflexivity.
  Qed.

  Lemma nth_set_nth_eq : forall i v l d, i < length l -> nth i (set_nth i v l) d = v.
  Proof.
    intros i v l d. revert i. induction l as [|x t IH]; intros i Hi.
    - cbn [length] in Hi. lia.
    - destruct i as [|i]; cbn [set_nth nth]; [reflexivity|].
      apply IH. cbn [length] in Hi. lia.
  Qed.

  Lemma nth_set_nth_neq : forall i j v l d, j <> i -> nth j (set_nth i v l) d = nth j l d.
  Proof.
    intros i j v l d. revert i j. induction l as [|x t IH]; intros i j Hne.
    - reflexivity.
    - destruct i as [|i]; destruct j as [|j]; cbn [set_nth nth]; try reflexivity.
      + lia.
      + apply IH. lia.
  Qed.

  Lemma nth_set_nth : forall i j v l d, i < length l ->
    nth j (set_nth i v l) d = if Nat.eqb j i then v else nth j l d.
  Proof.
    intros i j v l d Hi. destruct (Nat.eqb_spec j i) as [E|NE].
    - subst j. apply nth_set_nth_eq. exact Hi.
    - apply nth_set_nth_neq. exact NE.
  Qed.

  Lemma set_nth_same : forall i l d, set_nth i (nth i l d) l = l.
  Proof.
    intros i l d. revert i. induction l as [|x t IH]; intros i.
    - reflexivity.
    - destruct i as [|i]; cbn [set_nth nth]; [reflexivity|].
      rewrite IH. reflexivity.
  Qed.
End ListUtil.
Arguments set_nth {X} i v l.

Lemma map_set_nth : forall (X Y : Type) (f : X -> Y) i v l,
  map f (set_nth i v l) = set_nth i (f v) (map f l).
Proof.
  intros X Y f i v l. revert i. induction l as [|x t IH]; intros i.
  - reflexivity.
  - destruct i as [|i]; cbn [set_nth map]; [reflexivity|].
    rewrite IH. reflexivity.
Qed.

Lemma Forall_set_nth : forall (X : Type) (Q : X -> Prop) i v l,
  Forall Q l -> Q v -> Forall Q (set_nth i v l).
Proof.
  intros X Q i v l HF Hv. revert i. induction HF as [|x t Hx HF IH]; intros i.
  - constructor.
  - destruct i as [|i]; cbn [set_nth]; constructor; try assumption. apply IH.
Qed.

Lemma nth_map_lt : forall (X Y : Type) (f : X -> Y) l i d d',
  i < length l -> nth i (map f l) d' = f (nth i l d).
Proof.
  intros X Y f l i d d' Hi.
  rewrite (nth_indep _ d' (f d)) by (rewrite map_length; exact Hi).
  apply map_nth.
Qed.

Lemma nth_map_seq0 : forall (A : Type) (f : nat -> A) (n j : nat) (d : A),
  j < n -> nth j (map f (seq 0 n)) d = f j.
Proof.
  intros A f n j d Hj.
  rewrite (nth_indep _ d (f 0)) by (rewrite map_length, seq_length; exact Hj).
  rewrite map_nth, seq_nth by exact Hj. reflexivity.
Qed.

(* the transposition of r and c *)
Definition swapi (r c i : nat) : nat :=
  if Nat.eqb i r then c else if Nat.eqb i c then r else i.

Lemma swapi_invol : forall r c i, swapi r c (swapi r c i) = i.
Proof.
  intros r c i. unfold swapi.
  destruct (Nat.eqb_spec i r) as [E1|N1].
  - destruct (Nat.eqb_spec c r) as [E2|N2]; [lia|].
    rewrite Nat.eqb_refl. lia.
  - destruct (Nat.eqb_spec i c) as [E2|N2].
    + rewrite Nat.eqb_refl. lia.
    + destruct (Nat.eqb_spec i r) as [E3|_]; [lia|].
      destruct (Nat.eqb_spec i c) as [E4|_]; [lia|]. reflexivity.
Qed.

Lemma swapi_lt : forall k r c i, r < k -> c < k -> i < k -> swapi r c i < k.
Proof.
  intros k r c i Hr Hc Hi. unfold swapi.
  destruct (Nat.eqb i r); [exact Hc|]. destruct (Nat.eqb i c); assumption.
Qed.

Lemma swapi_inj : forall r c i j, swapi r c i = swapi r c j -> i = j.
Proof.
  intros r c i j E. rewrite <- (swapi_invol r c i), <- (swapi_invol r c j), E.
  reflexivity.
Qed.

Lemma swapi_l : forall r c, swapi r c r = c.
Proof. intros r c. unfold swapi. rewrite Nat.eqb_refl. reflexivity. Qed.

Lemma swapi_r : forall r c, swapi r c c = r.
Proof.
  intros r c. unfold swapi. destruct (Nat.eqb_spec c r) as [E|_]; [lia|].
  rewrite Nat.eqb_refl. reflexivity.
Qed.

Lemma swapi_other : forall r c i, i <> r -> i <> c -> swapi r c i = i.
Proof.
  intros r c i H1 H2. unfold swapi.
  destruct (Nat.eqb_spec i r) as [E|_]; [lia|].
  destruct (Nat.eqb_spec i c) as [E|_]; [lia|]. reflexivity.
Qed.

Lemma swapi_same : forall r i, swapi r r i = i.
Proof.
  intros r i. unfold swapi. destruct (Nat.eqb_spec i r) as [E|_]; lia.
Qed.

(* pivot marks: ipiv[i] counts how often column i was chosen *)
Lemma list_sum_set_nth_S : forall l i, i < length l ->
  list_sum (set_nth i (S (nth i l 0)) l) = S (list_sum l).
Proof.
  intros l. induction l as [|x t IH]; intros i Hi.
  - cbn [length] in Hi. lia.
  - destruct i as [|i]; cbn [set_nth nth list_sum fold_right].
    + reflexivity.
    + cbn [length] in Hi. fold (list_sum (set_nth i (S (nth i t 0)) t)).
      rewrite IH by lia. fold (list_sum t). lia.
Qed.

Lemma exists_unmarked : forall l, list_sum l < length l ->
  exists i, i < length l /\ nth i l 0 = 0.
Proof.
  intros l. induction l as [|x t IH]; intros H.
  - cbn in H. lia.
  - cbn [list_sum fold_right length] in H. fold (list_sum t) in H.
    destruct x as [|x].
    + exists 0. split; [cbn [length]; lia|reflexivity].
    + destruct IH as [i [Hi Ei]]; [lia|].
      exists (S i). split; [cbn [length]; lia|exact Ei].
Qed.

Lemma list_sum_le_length : forall l, (forall i, nth i l 0 <= 1) -> list_sum l <= length l.
Proof.
  intros l. induction l as [|x t IH]; intros H.
  - cbn. lia.
  - cbn [list_sum fold_right length]. fold (list_sum t).
    pose proof (H 0) as H0. cbn [nth] in H0.
    assert (Ht : list_sum t <= length t).
    { apply IH. intros i. exact (H (S i)). }
    lia.
Qed.

Lemma all_marked : forall l, (forall i, nth i l 0 <= 1) -> list_sum l = length l ->
  forall i, i < length l -> nth i l 0 = 1.
Proof.
  intros l. induction l as [|x t IH]; intros H E i Hi.
  - cbn [length] in Hi. lia.
  - cbn [list_sum fold_right length] in E. fold (list_sum t) in E.
    pose proof (H 0) as H0. cbn [nth] in H0.
    assert (Ht : forall j, nth j t 0 <= 1) by (intros j; exact (H (S j))).
    pose proof (list_sum_le_length t Ht) as Hle.
    destruct i as [|i]; cbn [nth].
    + lia.
    + apply IH; [exact Ht|lia|cbn [length] in Hi; lia].
Qed.

(* ------------------------------------------------------------------ *)
(* Part 1: the model                                                   *)
(* ------------------------------------------------------------------ *)
(* result of the pivot search *)
Inductive pres : Type :=
| PFound (irow icol : nat)   (* goto found_piv *)
| PNone                      (* loops exhausted, icol == -1 *)
| PFail.                     (* ipiv[ix] > 1: goto fail *)

Section Defs.
  Variable F : Type.
  Variables (zero one : F) (add mul : F -> F -> F) (inv : F -> F).
  Variable eqb : F -> F -> bool.

  (* a k x k matrix is a list of k rows of length k (row-major, as src[]) *)
  Definition matrix := list (list F).
  Definition get (A : matrix) (i j : nat) : F := nth j (nth i A []) zero.
  Definition wf (k : nat) (A : matrix) : Prop :=
    length A = k /\ Forall (fun r => length r = k) A.

  Definition delta (i j : nat) : F := if Nat.eqb i j then one else zero.

  (* sum over l < k of f l * g l *)
  Definition dot (k : nat) (f g : nat -> F) : F :=
    sum F zero add (map (fun l => mul (f l) (g l)) (seq 0 k)).

  Definition mmul (A B : matrix) : matrix :=
    map (fun ra =>
           map (fun j => dot (length B) (fun l => nth l ra zero) (fun l => get B l j))
               (seq 0 (length (nth 0 B []))))
        A.

  Definition mI (k : nat) : matrix :=
    map (fun i => map (fun j => delta i j) (seq 0 k)) (seq 0 k).

  Definition mT (A : matrix) : matrix :=
    map (fun j => map (fun i => get A i j) (seq 0 (length A)))
        (seq 0 (length (nth 0 A []))).

  (* ---- pivot search ---- *)
  (* for (ix = 0; ix < k; ix++) of one row *)
  Fixpoint scan_row (ipiv : list nat) (A : matrix) (row : nat) (cols : list nat) : pres :=
    match cols with
    | [] => PNone
    | ix :: cols' =>
        if Nat.eqb (nth ix ipiv 0) 0 then
          if negb (eqb (get A row ix) zero) then PFound row ix
          else scan_row ipiv A row cols'
        else if Nat.ltb 1 (nth ix ipiv 0) then PFail
        else scan_row ipiv A row cols'
    end.

  (* for (row = 0; row < k; row++) *)
  Fixpoint scan_rows (k : nat) (ipiv : list nat) (A : matrix) (rows : list nat) : pres :=
    match rows with
    | [] => PNone
    | row :: rows' =>
        if negb (Nat.eqb (nth row ipiv 0) 1) then
          match scan_row ipiv A row (seq 0 k) with
          | PNone => scan_rows k ipiv A rows'
          | r => r
          end
        else scan_rows k ipiv A rows'
    end.

  (* first the diagonal, then everywhere *)
  Definition find_pivot (k : nat) (ipiv : list nat) (A : matrix) (col : nat) : pres :=
    if negb (Nat.eqb (nth col ipiv 0) 1) && negb (eqb (get A col col) zero)
    then PFound col col
    else scan_rows k ipiv A (seq 0 k).

  (* ---- row operations ---- *)
  (* SWAP of the rows irow and icol *)
  Definition swap_rows (r c : nat) (A : matrix) : matrix :=
    set_nth r (nth c A []) (set_nth c (nth r A []) A).

  (* SWAP of the columns a and b in every row *)
  Definition swap_cols (a b : nat) (A : matrix) : matrix :=
    map (fun row => set_nth a (nth b row zero) (set_nth b (nth a row zero) row)) A.

  (* if (c != 1) { c = inverse[c]; pivot_row[icol] = 1; pivot_row[ix] = c * pivot_row[ix] } *)
  Definition scale_row (icol : nat) (prow : list F) : list F :=
    let c := nth icol prow zero in
    if eqb c one then prow
    else map (mul (inv c)) (set_nth icol one prow).

  (* addmul(dst, src, c, k): dst[i] += c * src[i] *)
  Definition addmul (dst src : list F) (c : F) : list F :=
    map (fun ds => add (fst ds) (mul c (snd ds))) (combine dst src).

  (* for every row ix != icol: c = p[icol]; p[icol] = 0; addmul(p, pivot_row, c, k) *)
  Definition elim_rows (k icol : nat) (prow : list F) (A : matrix) : matrix :=
    map (fun ix => let p := nth ix A [] in
                   if Nat.eqb ix icol then p
                   else addmul (set_nth icol zero p) prow (nth icol p zero))
        (seq 0 k).

  (* id_row with id_row[icol] = 1 *)
  Definition unit_row (k icol : nat) : list F :=
    map (fun j => if Nat.eqb j icol then one else zero) (seq 0 k).

  (* bcmp *)
  Fixpoint list_eqb (l1 l2 : list F) : bool :=
    match l1, l2 with
    | [], [] => true
    | a :: t1, b :: t2 => eqb a b && list_eqb t1 t2
    | _, _ => false
    end.

  (* the body of the col loop after found_piv, on the matrix *)
  Definition eliminate (k : nat) (A : matrix) (irow icol : nat) : option matrix :=
    let A1 := if Nat.eqb irow icol then A else swap_rows irow icol A in
    let c := get A1 icol icol in
    if eqb c zero then None
    else
      let prow := scale_row icol (nth icol A1 []) in
      let A2 := set_nth icol prow A1 in
      Some (if list_eqb prow (unit_row k icol) then A2
            else elim_rows k icol prow A2).

  (* state: src, ipiv, and the pairs (indxr[col], indxc[col]), latest first *)
  Definition gj_state : Type := (matrix * list nat * list (nat * nat))%type.

  Definition gj_step (k : nat) (st : gj_state) (col : nat) : option gj_state :=
    match st with
    | (A, ipiv, idx) =>
        match find_pivot k ipiv A col with
        | PFound irow icol =>
            match eliminate k A irow icol with
            | Some A' =>
                Some (A', set_nth icol (S (nth icol ipiv 0)) ipiv, (irow, icol) :: idx)
            | None => None
            end
        | PNone => None
        | PFail => None
        end
    end.

  Fixpoint gj_loop (k : nat) (st : gj_state) (cols : list nat) : option gj_state :=
    match cols with
    | [] => Some st
    | col :: cols' =>
        match gj_step k st col with
        | Some st' => gj_loop k st' cols'
        | None => None
        end
    end.

  (* for (col = k-1; col >= 0; col--) swap the columns indxr[col], indxc[col] *)
  Fixpoint unscramble (idx : list (nat * nat)) (A : matrix) : matrix :=
    match idx with
    | [] => A
    | (r, c) :: idx' => unscramble idx' (if Nat.eqb r c then A else swap_cols r c A)
    end.

  (* Some inverse (error == 0) or None (error == 1) *)
  Definition invert_mat (k : nat) (A : matrix) : option matrix :=
    match gj_loop k (A, repeat 0 k, []) (seq 0 k) with
    | Some (A', _, idx) => Some (unscramble idx A')
    | None => None
    end.
End Defs.

(* ------------------------------------------------------------------ *)
(* Part 2: theory over a field of characteristic 2                     *)
(* ------------------------------------------------------------------ *)
Section Theory.
  Variable F : Type.
  Variables (zero one : F) (add mul : F -> F -> F) (inv : F -> F).
  Variable eqb : F -> F -> bool.

  Hypothesis eqb_eq : forall a b, eqb a b = true <-> a = b.
  Hypothesis add_comm : forall a b, add a b = add b a.
  Hypothesis add_assoc : forall a b c, add a (add b c) = add (add a b) c.
  Hypothesis add_0_l : forall a, add zero a = a.
  Hypothesis add_self : forall a, add a a = zero.
  Hypothesis mul_comm : forall a b, mul a b = mul b a.
  Hypothesis mul_assoc : forall a b c, mul a (mul b c) = mul (mul a b) c.
  Hypothesis mul_1_l : forall a, mul one a = a.
  Hypothesis mul_add_distr_l : forall a b c, mul a (add b c) = add (mul a b) (mul a c).
  Hypothesis mul_inv_r : forall a, a <> zero -> mul a (inv a) = one.
  Hypothesis one_neq_zero : one <> zero.

  Local Notation mat := (matrix F).
  Local Notation fsum := (sum F zero add).
  Local Notation fget := (get F zero).
  Local Notation fwf := (wf F).
  Local Notation fdelta := (delta F zero one).
  Local Notation fdot := (dot F zero add mul).
  Local Notation fmmul := (mmul F zero add mul).
  Local Notation fmI := (mI F zero one).
  Local Notation fmT := (mT F zero).
  Local Notation fscan_row := (scan_row F zero eqb).
  Local Notation fscan_rows := (scan_rows F zero eqb).
  Local Notation ffind_pivot := (find_pivot F zero eqb).
  Local Notation fswap_rows := (swap_rows F).
  Local Notation fswap_cols := (swap_cols F zero).
  Local Notation fscale_row := (scale_row F zero one mul inv eqb).
  Local Notation faddmul := (addmul F add mul).
  Local Notation felim_rows := (elim_rows F zero add mul).
  Local Notation funit_row := (unit_row F zero one).
  Local Notation flist_eqb := (list_eqb F eqb).
  Local Notation feliminate := (eliminate F zero one add mul inv eqb).
  Local Notation fgj_step := (gj_step F zero one add mul inv eqb).
  Local Notation fgj_loop := (gj_loop F zero one add mul inv eqb).
  Local Notation funscramble := (unscramble F zero).
  Local Notation finvert_mat := (invert_mat F zero one add mul inv eqb).

  Definition idF (a : F) : F := a.

  Lemma GJ_ring : ring_theory zero one add mul (sub F add idF) idF (@eq F).
  Proof.
    exact (F_ring F zero one add mul idF add_comm add_assoc add_0_l add_self
                  mul_comm mul_assoc mul_1_l mul_add_distr_l).
  Qed.

  Add Ring GJ_ring_inst : GJ_ring.

  Lemma inv_one : inv one = one.
  Proof. rewrite <- (mul_1_l (inv one)). apply mul_inv_r. exact one_neq_zero. Qed.

  Lemma eqb_false_neq : forall a b, eqb a b = false -> a <> b.
  Proof.
    intros a b H E. apply eqb_eq in E. rewrite E in H. discriminate H.
  Qed.

  Lemma eqb_refl : forall a, eqb a a = true.
  Proof. intros a. apply eqb_eq. reflexivity. Qed.

  (* ---- finite sums ---- *)
  Lemma fsum_cons : forall c l, fsum (c :: l) = add c (fsum l).
  Proof. reflexivity. Qed.

  Lemma fsum_ext : forall (f h : nat -> F) l,
    (forall i, In i l -> f i = h i) -> fsum (map f l) = fsum (map h l).
  Proof. intros f h l H. f_equal. apply map_ext_in. exact H. Qed.

  Lemma fsum_zero : forall (f : nat -> F) l,
    (forall i, In i l -> f i = zero) -> fsum (map f l) = zero.
  Proof.
    intros f l. induction l as [|a l IH]; intros H.
    - reflexivity.
    - cbn [map]. rewrite fsum_cons, IH, (H a).
      + ring.
      + left. reflexivity.
      + intros i Hi. apply H. right. exact Hi.
  Qed.

  Lemma fsum_add : forall (f h : nat -> F) l,
    fsum (map (fun i => add (f i) (h i)) l) = add (fsum (map f l)) (fsum (map h l)).
  Proof.
    intros f h l. induction l as [|a l IH].
    - cbn. ring.
    - cbn [map]. rewrite !fsum_cons, IH. ring.
  Qed.

  Lemma fsum_scale : forall c (f : nat -> F) l,
    fsum (map (fun i => mul c (f i)) l) = mul c (fsum (map f l)).
  Proof.
    intros c f l. induction l as [|a l IH].
    - cbn. ring.
    - cbn [map]. rewrite !fsum_cons, IH. ring.
  Qed.

  Lemma fsum_scale_r : forall c (f : nat -> F) l,
    fsum (map (fun i => mul (f i) c) l) = mul (fsum (map f l)) c.
  Proof.
    intros c f l. rewrite (mul_comm _ c), <- fsum_scale.
    apply fsum_ext. intros i _. apply mul_comm.
  Qed.

  Lemma fsum_exchange : forall (a : nat -> nat -> F) l1 l2,
    fsum (map (fun j => fsum (map (fun l => a j l) l2)) l1)
    = fsum (map (fun l => fsum (map (fun j => a j l) l1)) l2).
  Proof.
    intros a l1 l2. induction l1 as [|x l1 IH].
    - cbn [map]. symmetry. apply fsum_zero. intros i _. reflexivity.
    - cbn [map]. rewrite fsum_cons, IH.
      rewrite <- fsum_add. apply fsum_ext. intros i _. rewrite fsum_cons. reflexivity.
  Qed.

  (* take the term number r out of a sum *)
  Lemma fsum_extract_gen : forall (f : nat -> F) l r, NoDup l -> In r l ->
    fsum (map f l)
    = add (f r) (fsum (map (fun i => if Nat.eqb i r then zero else f i) l)).
  Proof.
    intros f l r. induction l as [|a l IH]; intros ND Hr.
    - destruct Hr.
    - inversion ND as [|a' l' Hna ND']; subst a' l'.
      cbn [map]. rewrite !fsum_cons.
      destruct (Nat.eqb_spec a r) as [E|NE].
      + subst a.
        rewrite (fsum_ext (fun i => if Nat.eqb i r then zero else f i) f l).
        * ring.
        * intros i Hi. destruct (Nat.eqb_spec i r) as [E|_]; [|reflexivity].
          subst i. contradiction.
      + destruct Hr as [E|Hr]; [contradiction|].
        rewrite (IH ND' Hr). ring.
  Qed.

  Lemma fsum_extract : forall (f : nat -> F) k r, r < k ->
    fsum (map f (seq 0 k))
    = add (f r) (fsum (map (fun i => if Nat.eqb i r then zero else f i) (seq 0 k))).
  Proof.
    intros f k r Hr. apply fsum_extract_gen.
    - apply seq_NoDup.
    - apply in_seq. lia.
  Qed.

  (* re-indexing a sum by a transposition *)
  Lemma fsum_swapi : forall (f : nat -> F) k r c, r < k -> c < k ->
    fsum (map (fun l => f (swapi r c l)) (seq 0 k)) = fsum (map f (seq 0 k)).
  Proof.
    intros f k r c Hr Hc. destruct (Nat.eq_dec r c) as [E|NE].
    - subst c. apply fsum_ext. intros i _. rewrite swapi_same. reflexivity.
    - rewrite (fsum_extract (fun l => f (swapi r c l)) k r Hr).
      rewrite (fsum_extract (fun i => if Nat.eqb i r then zero else f (swapi r c i)) k c Hc).
      rewrite (fsum_extract f k r Hr).
      rewrite (fsum_extract (fun i => if Nat.eqb i r then zero else f i) k c Hc).
      rewrite swapi_l, swapi_r.
      destruct (Nat.eqb_spec c r) as [E|_]; [lia|].
      rewrite (fsum_ext
        (fun i => if Nat.eqb i c then zero
                  else if Nat.eqb i r then zero else f (swapi r c i))
        (fun i => if Nat.eqb i c then zero else if Nat.eqb i r then zero else f i)).
      + ring.
      + intros i _. destruct (Nat.eqb_spec i c) as [E1|N1]; [reflexivity|].
        destruct (Nat.eqb_spec i r) as [E2|N2]; [reflexivity|].
        rewrite swapi_other by assumption. reflexivity.
  Qed.

  (* ---- dot products ---- *)
  Lemma dot_ext : forall k (f f' g g' : nat -> F),
    (forall l, l < k -> f l = f' l) -> (forall l, l < k -> g l = g' l) ->
    fdot k f g = fdot k f' g'.
  Proof.
    intros k f f' g g' Hf Hg. unfold dot. apply fsum_ext. intros l Hl.
    apply in_seq in Hl. rewrite Hf, Hg by lia. reflexivity.
  Qed.

  Lemma dot_comm : forall k (f g : nat -> F), fdot k f g = fdot k g f.
  Proof.
    intros k f g. unfold dot. apply fsum_ext. intros l _. apply mul_comm.
  Qed.

  Lemma dot_scale_l : forall k e (f g : nat -> F),
    fdot k (fun l => mul e (f l)) g = mul e (fdot k f g).
  Proof.
    intros k e f g. unfold dot. rewrite <- fsum_scale.
    apply fsum_ext. intros l _. ring.
  Qed.

  Lemma dot_add_l : forall k e (f f' g : nat -> F),
    fdot k (fun l => add (f l) (mul e (f' l))) g
    = add (fdot k f g) (mul e (fdot k f' g)).
  Proof.
    intros k e f f' g. unfold dot. rewrite <- fsum_scale, <- fsum_add.
    apply fsum_ext. intros l _. ring.
  Qed.

  Lemma dot_delta_l : forall k i (g : nat -> F), i < k -> fdot k (fdelta i) g = g i.
  Proof.
    intros k i g Hi. unfold dot.
    rewrite (fsum_extract _ k i Hi). unfold delta at 1. rewrite Nat.eqb_refl.
    rewrite fsum_zero.
    - ring.
    - intros l _. unfold delta. rewrite (Nat.eqb_sym i l).
      destruct (Nat.eqb l i); ring.
  Qed.

  Lemma dot_delta_r : forall k j (f : nat -> F), j < k ->
    fdot k f (fun l => fdelta l j) = f j.
  Proof.
    intros k j f Hj. rewrite dot_comm.
    rewrite (dot_ext k (fun l => fdelta l j) (fdelta j) f f).
    - apply dot_delta_l. exact Hj.
    - intros l _. unfold delta. rewrite (Nat.eqb_sym l j). reflexivity.
    - intros l _. reflexivity.
  Qed.

  Lemma dot_swapi : forall k r c (f g : nat -> F), r < k -> c < k ->
    fdot k (fun l => f (swapi r c l)) (fun l => g (swapi r c l)) = fdot k f g.
  Proof.
    intros k r c f g Hr Hc. unfold dot.
    exact (fsum_swapi (fun l => mul (f l) (g l)) k r c Hr Hc).
  Qed.

  (* (u M) v = u (M v) *)
  Lemma dot_assoc : forall k (u v : nat -> F) (M : nat -> nat -> F),
    fdot k (fun j => fdot k u (fun l => M l j)) v
    = fdot k u (fun l => fdot k (M l) v).
  Proof.
    intros k u v M. unfold dot.
    rewrite (fsum_ext
      (fun j => mul (fsum (map (fun l => mul (u l) (M l j)) (seq 0 k))) (v j))
      (fun j => fsum (map (fun l => mul (mul (u l) (M l j)) (v j)) (seq 0 k)))).
    2:{ intros j _. rewrite fsum_scale_r. reflexivity. }
    rewrite fsum_exchange. apply fsum_ext. intros l _.
    rewrite <- fsum_scale. apply fsum_ext. intros j _. ring.
  Qed.

  Lemma delta_swapi : forall r c i j, fdelta (swapi r c i) (swapi r c j) = fdelta i j.
  Proof.
    intros r c i j. unfold delta.
    destruct (Nat.eqb_spec i j) as [E|NE].
    - subst j. rewrite Nat.eqb_refl. reflexivity.
    - destruct (Nat.eqb_spec (swapi r c i) (swapi r c j)) as [E|_]; [|reflexivity].
      exfalso. apply NE. exact (swapi_inj r c i j E).
  Qed.

  (* ---- the in-place invariant, on matrices seen as functions ---- *)
  (* P marks the pivot columns used so far.  The in-place matrix S stands for
     the pair (C, A') of the conventional algorithm on [A | I]: column l of S
     is column l of the accumulated transformation C when l is marked, and
     column l of the reduced matrix A' otherwise; the columns not stored are
     unit vectors.  M is the input with the row swaps made so far. *)
  Definition Chat (P : nat -> bool) (S : nat -> nat -> F) (i l : nat) : F :=
    if P l then S i l else fdelta i l.
  Definition Ahat (P : nat -> bool) (S : nat -> nat -> F) (i j : nat) : F :=
    if P j then fdelta i j else S i j.
  Definition Inv (k : nat) (P : nat -> bool) (S M : nat -> nat -> F) : Prop :=
    forall i j, i < k -> j < k ->
      fdot k (Chat P S i) (fun l => M l j) = Ahat P S i j.

  Lemma Inv_ext : forall k P P' S S' M M',
    (forall l, l < k -> P l = P' l) ->
    (forall i j, i < k -> j < k -> S i j = S' i j) ->
    (forall i j, i < k -> j < k -> M i j = M' i j) ->
    Inv k P S M -> Inv k P' S' M'.
  Proof.
    intros k P P' S S' M M' HP HS HM H i j Hi Hj.
    rewrite <- (dot_ext k (Chat P S i) (Chat P' S' i) (fun l => M l j) (fun l => M' l j)).
    - rewrite (H i j Hi Hj). unfold Ahat. rewrite (HP j Hj), (HS i j Hi Hj). reflexivity.
    - intros l Hl. unfold Chat. rewrite (HP l Hl), (HS i l Hi Hl). reflexivity.
    - intros l Hl. apply HM; assumption.
  Qed.

  Lemma Inv_init : forall k (S : nat -> nat -> F), Inv k (fun _ => false) S S.
  Proof.
    intros k S i j Hi Hj. unfold Ahat.
    rewrite (dot_ext k (Chat (fun _ => false) S i) (fdelta i) (fun l => S l j) (fun l => S l j)).
    - exact (dot_delta_l k i (fun l => S l j) Hi).
    - intros l _. reflexivity.
    - intros l _. reflexivity.
  Qed.

  (* row swap, of two unmarked rows *)
  Lemma Inv_swap : forall k P S M r c,
    r < k -> c < k -> P r = false -> P c = false ->
    Inv k P S M ->
    Inv k P (fun i j => S (swapi r c i) j) (fun i j => M (swapi r c i) j).
  Proof.
    intros k P S M r c Hr Hc Pr Pc H i j Hi Hj.
    assert (HPs : forall l, P (swapi r c l) = P l).
    { intros l. unfold swapi.
      destruct (Nat.eqb_spec l r) as [E|_]; [subst l; rewrite Pr, Pc; reflexivity|].
      destruct (Nat.eqb_spec l c) as [E|_]; [subst l; rewrite Pr, Pc; reflexivity|].
      reflexivity. }
    assert (HPfix : forall l, P l = true -> swapi r c l = l).
    { intros l Hl. apply swapi_other; intros E; subst l.
      - rewrite Pr in Hl. discriminate Hl.
      - rewrite Pc in Hl. discriminate Hl. }
    rewrite (dot_ext k _ (fun l => Chat P S (swapi r c i) (swapi r c l))
                       _ (fun l => M (swapi r c l) j)).
    - rewrite (dot_swapi k r c (Chat P S (swapi r c i)) (fun l => M l j) Hr Hc).
      rewrite (H (swapi r c i) j (swapi_lt k r c i Hr Hc Hi) Hj).
      unfold Ahat. destruct (P j) eqn:Pj; [|reflexivity].
      rewrite <- (HPfix j Pj) at 1. apply delta_swapi.
    - intros l _. unfold Chat. rewrite HPs. destruct (P l) eqn:Pl.
      + rewrite (HPfix l Pl). reflexivity.
      + symmetry. apply delta_swapi.
    - intros l _. reflexivity.
  Qed.

  (* the in-place elimination step on the pivot (c, c) *)
  Definition pivf (S : nat -> nat -> F) (c j : nat) : F :=
    if Nat.eqb j c then inv (S c c) else mul (inv (S c c)) (S c j).
  Definition stepf (S : nat -> nat -> F) (c i j : nat) : F :=
    if Nat.eqb i c then pivf S c j
    else add (if Nat.eqb j c then zero else S i j) (mul (S i c) (pivf S c j)).

  Lemma Inv_step : forall k P S M c,
    c < k -> P c = false -> S c c <> zero ->
    Inv k P S M ->
    Inv k (fun l => Nat.eqb l c || P l) (stepf S c) M.
  Proof.
    intros k P S M c Hc Pc Hnz H i j Hi Hj.
    set (P' := fun l => Nat.eqb l c || P l).
    set (d := inv (S c c)).
    assert (Hd : mul (S c c) d = one) by (apply mul_inv_r; exact Hnz).
    (* the marked/unit columns of the new transformation, row c *)
    assert (HCc : forall l, Chat P' (stepf S c) c l = mul d (Chat P S c l)).
    { intros l. unfold Chat, P', stepf, pivf. rewrite Nat.eqb_refl. fold d.
      destruct (Nat.eqb_spec l c) as [E|NE]; cbn [orb].
      - subst l. rewrite Pc. unfold delta. rewrite Nat.eqb_refl. ring.
      - destruct (P l); [reflexivity|].
        unfold delta. destruct (Nat.eqb_spec c l) as [E|_]; [lia|]. ring. }
    (* ... and the other rows *)
    assert (HCi : forall l, i <> c ->
      Chat P' (stepf S c) i l = add (Chat P S i l) (mul (mul (S i c) d) (Chat P S c l))).
    { intros l Hic. unfold Chat, P', stepf, pivf. fold d.
      destruct (Nat.eqb_spec i c) as [E|_]; [contradiction|].
      destruct (Nat.eqb_spec l c) as [E|NE]; cbn [orb].
      - subst l. rewrite Pc. unfold delta. rewrite Nat.eqb_refl.
        destruct (Nat.eqb_spec i c) as [E|_]; [contradiction|]. ring.
      - destruct (P l); [ring|].
        unfold delta. destruct (Nat.eqb_spec c l) as [E|_]; [lia|]. ring. }
    destruct (Nat.eq_dec i c) as [Eic|Nic].
    - subst i.
      rewrite (dot_ext k _ (fun l => mul d (Chat P S c l)) _ (fun l => M l j)
                 (fun l _ => HCc l) (fun l _ => eq_refl)).
      rewrite dot_scale_l, (H c j Hc Hj).
      unfold Ahat, P', stepf, pivf. rewrite Nat.eqb_refl. fold d.
      destruct (Nat.eqb_spec j c) as [E|NE]; cbn [orb].
      + subst j. rewrite Pc. unfold delta. rewrite Nat.eqb_refl.
        rewrite <- Hd. ring.
      + destruct (P j); [|reflexivity].
        unfold delta. destruct (Nat.eqb_spec c j) as [E|_]; [lia|]. ring.
    - rewrite (dot_ext k _ (fun l => add (Chat P S i l) (mul (mul (S i c) d) (Chat P S c l)))
                 _ (fun l => M l j) (fun l _ => HCi l Nic) (fun l _ => eq_refl)).
      rewrite dot_add_l, (H i j Hi Hj), (H c j Hc Hj).
      unfold Ahat, P', stepf, pivf. fold d.
      destruct (Nat.eqb_spec i c) as [E|_]; [contradiction|].
      destruct (Nat.eqb_spec j c) as [E|NE]; cbn [orb].
      + subst j. rewrite Pc. unfold delta.
        destruct (Nat.eqb_spec i c) as [E|_]; [contradiction|].
        transitivity (add (S i c) (mul (S i c) (mul (S c c) d))); [ring|].
        rewrite Hd. transitivity (add (S i c) (S i c)); [ring|]. apply add_self.
      + destruct (P j); [|ring].
        unfold delta. destruct (Nat.eqb_spec c j) as [E|_]; [lia|]. ring.
  Qed.

  (* when every column is marked, S is a left inverse of M *)
  Lemma Inv_final : forall k P S M,
    (forall l, l < k -> P l = true) -> Inv k P S M ->
    forall i j, i < k -> j < k -> fdot k (S i) (fun l => M l j) = fdelta i j.
  Proof.
    intros k P S M HP H i j Hi Hj.
    rewrite <- (dot_ext k (Chat P S i) (S i) (fun l => M l j) (fun l => M l j)).
    - rewrite (H i j Hi Hj). unfold Ahat. rewrite (HP j Hj). reflexivity.
    - intros l Hl. unfold Chat. rewrite (HP l Hl). reflexivity.
    - intros l _. reflexivity.
  Qed.

  (* no pivot left: impossible when M has a right inverse *)
  Lemma Inv_stuck : forall k P S M Y i,
    Inv k P S M ->
    (forall a b, a < k -> b < k -> fdot k (M a) (fun l => Y l b) = fdelta a b) ->
    i < k -> P i = false ->
    (forall j, j < k -> P j = false -> S i j = zero) ->
    False.
  Proof.
    intros k P S M Y i H HY Hi Pi Hz.
    apply one_neq_zero.
    assert (E1 : fdot k (fun j => fdot k (Chat P S i) (fun l => M l j)) (fun j => Y j i) = zero).
    { unfold dot at 1. apply fsum_zero. intros j Hj. apply in_seq in Hj.
      rewrite (H i j Hi) by lia. unfold Ahat. destruct (P j) eqn:Pj.
      - unfold delta. destruct (Nat.eqb_spec i j) as [E|_].
        + subst j. rewrite Pi in Pj. discriminate Pj.
        + ring.
      - rewrite (Hz j) by (assumption || lia). ring. }
    rewrite dot_assoc in E1.
    rewrite (dot_ext k (Chat P S i) (Chat P S i) _ (fun l => fdelta l i)) in E1.
    - rewrite (dot_delta_r k i _ Hi) in E1. unfold Chat in E1. rewrite Pi in E1.
      unfold delta in E1. rewrite Nat.eqb_refl in E1. exact E1.
    - intros l _. reflexivity.
    - intros l Hl. apply HY; assumption.
  Qed.

  (* ---- well-formed matrices and entry-wise specifications ---- *)
  Lemma wf_row : forall k (A : mat) i, fwf k A -> i < k -> length (nth i A []) = k.
  Proof.
    intros k A i [HL HF] Hi. rewrite Forall_forall in HF. apply HF.
    apply nth_In. lia.
  Qed.

  Lemma mat_ext : forall k (A B : mat), fwf k A -> fwf k B ->
    (forall i j, i < k -> j < k -> fget A i j = fget B i j) -> A = B.
  Proof.
    intros k A B HA HB H. apply (nth_ext A B [] []).
    - destruct HA as [HA _], HB as [HB _]. lia.
    - intros i Hi. assert (Hik : i < k) by (destruct HA as [HA _]; lia).
      apply (nth_ext _ _ zero zero).
      + rewrite (wf_row k A i HA Hik), (wf_row k B i HB Hik). reflexivity.
      + intros j Hj. rewrite (wf_row k A i HA Hik) in Hj. exact (H i j Hik Hj).
  Qed.

  Lemma wf_map_seq : forall k (g : nat -> list F),
    (forall i, i < k -> length (g i) = k) -> fwf k (map g (seq 0 k)).
  Proof.
    intros k g H. split.
    - rewrite map_length, seq_length. reflexivity.
    - apply Forall_forall. intros r Hr. apply in_map_iff in Hr.
      destruct Hr as [i [Ei Hi]]. subst r. apply in_seq in Hi. apply H. lia.
  Qed.

  Lemma get_map_seq : forall k (g : nat -> list F) i j, i < k ->
    fget (map g (seq 0 k)) i j = nth j (g i) zero.
  Proof.
    intros k g i j Hi. unfold get. rewrite (nth_map_seq0 _ g k i [] Hi). reflexivity.
  Qed.

  Lemma wf_set_row : forall k (A : mat) i r, fwf k A -> length r = k -> fwf k (set_nth i r A).
  Proof.
    intros k A i r [HL HF] Hr. split.
    - rewrite set_nth_length. exact HL.
    - apply Forall_set_nth; assumption.
  Qed.

  (* swap_rows *)
  Lemma wf_swap_rows : forall k (A : mat) r c, fwf k A -> r < k -> c < k ->
    fwf k (fswap_rows r c A).
  Proof.
    intros k A r c HA Hr Hc. unfold swap_rows.
    apply wf_set_row; [apply wf_set_row|]; try exact HA; apply wf_row; assumption.
  Qed.

  Lemma nth_swap_rows : forall (A : mat) r c i, r < length A -> c < length A ->
    nth i (fswap_rows r c A) [] = nth (swapi r c i) A [].
  Proof.
    intros A r c i Hr Hc. unfold swap_rows, swapi.
    rewrite nth_set_nth by (rewrite set_nth_length; exact Hr).
    destruct (Nat.eqb i r); [reflexivity|].
    rewrite nth_set_nth by exact Hc. destruct (Nat.eqb i c); reflexivity.
  Qed.

  (* swap_cols *)
  Lemma wf_swap_cols : forall k (A : mat) a b, fwf k A -> fwf k (fswap_cols a b A).
  Proof.
    intros k A a b [HL HF]. unfold swap_cols. split.
    - rewrite map_length. exact HL.
    - apply Forall_forall. intros r Hr. apply in_map_iff in Hr.
      destruct Hr as [r0 [Er Hr0]]. subst r. rewrite !set_nth_length.
      rewrite Forall_forall in HF. apply HF. exact Hr0.
  Qed.

  Lemma get_swap_cols : forall k (A : mat) a b i j, fwf k A -> a < k -> b < k -> i < k ->
    fget (fswap_cols a b A) i j = fget A i (swapi a b j).
  Proof.
    intros k A a b i j HA Ha Hb Hi. unfold get, swap_cols.
    rewrite (nth_map_lt _ _ _ A i [] []) by (destruct HA as [HL _]; lia).
    pose proof (wf_row k A i HA Hi) as HLr. unfold swapi.
    rewrite nth_set_nth by (rewrite set_nth_length; lia).
    destruct (Nat.eqb j a); [reflexivity|].
    rewrite nth_set_nth by lia. destruct (Nat.eqb j b); reflexivity.
  Qed.

  (* scale_row *)
  Lemma scale_row_length : forall c (row : list F), length (fscale_row c row) = length row.
  Proof.
    intros c row. unfold scale_row.
    destruct (eqb (nth c row zero) one); [reflexivity|].
    rewrite map_length, set_nth_length. reflexivity.
  Qed.

  Lemma nth_scale_row : forall c (row : list F) j, c < length row -> j < length row ->
    nth j (fscale_row c row) zero
    = if Nat.eqb j c then inv (nth c row zero)
      else mul (inv (nth c row zero)) (nth j row zero).
  Proof.
    intros c row j Hc Hj. unfold scale_row.
    destruct (eqb (nth c row zero) one) eqn:E.
    - apply eqb_eq in E. rewrite E, inv_one.
      destruct (Nat.eqb_spec j c) as [Ej|_].
      + subst j. exact E.
      + ring.
    - rewrite (nth_map_lt _ _ _ _ j zero zero) by (rewrite set_nth_length; exact Hj).
      rewrite nth_set_nth by exact Hc.
      destruct (Nat.eqb j c); [ring|reflexivity].
  Qed.

  (* addmul *)
  Lemma addmul_length : forall (dst src : list F) c, length dst = length src ->
    length (faddmul dst src c) = length dst.
  Proof.
    intros dst src c H. unfold addmul. rewrite map_length, combine_length. lia.
  Qed.

  Lemma nth_addmul : forall (dst src : list F) c j, length dst = length src ->
    j < length dst ->
    nth j (faddmul dst src c) zero = add (nth j dst zero) (mul c (nth j src zero)).
  Proof.
    intros dst src c j H Hj. unfold addmul.
    rewrite (nth_map_lt _ _ _ _ j (zero, zero) zero) by (rewrite combine_length; lia).
    rewrite combine_nth by exact H. reflexivity.
  Qed.

  (* elim_rows *)
  Lemma wf_elim_rows : forall k c (prow : list F) (A : mat),
    fwf k A -> length prow = k -> fwf k (felim_rows k c prow A).
  Proof.
    intros k c prow A HA Hp. unfold elim_rows. apply wf_map_seq. intros i Hi.
    cbv zeta. pose proof (wf_row k A i HA Hi) as HLr.
    destruct (Nat.eqb i c); [exact HLr|].
    rewrite addmul_length; rewrite set_nth_length; lia.
  Qed.

  Lemma get_elim_rows : forall k c (prow : list F) (A : mat) i j,
    fwf k A -> length prow = k -> i < k -> j < k ->
    fget (felim_rows k c prow A) i j
    = if Nat.eqb i c then fget A i j
      else add (if Nat.eqb j c then zero else fget A i j)
               (mul (fget A i c) (nth j prow zero)).
  Proof.
    intros k c prow A i j HA Hp Hi Hj. unfold elim_rows.
    rewrite get_map_seq by exact Hi. cbv zeta.
    pose proof (wf_row k A i HA Hi) as HLr.
    destruct (Nat.eqb i c); [reflexivity|].
    rewrite nth_addmul by (rewrite set_nth_length; lia).
    unfold get. destruct (Nat.eqb_spec j c) as [E|NE].
    - subst j. rewrite nth_set_nth_eq by lia. reflexivity.
    - rewrite nth_set_nth_neq by exact NE. reflexivity.
  Qed.

  (* unit_row *)
  Lemma unit_row_length : forall k c, length (funit_row k c) = k.
  Proof. intros k c. unfold unit_row. rewrite map_length, seq_length. reflexivity. Qed.

  Lemma nth_unit_row : forall k c j, j < k ->
    nth j (funit_row k c) zero = if Nat.eqb j c then one else zero.
  Proof. intros k c j Hj. unfold unit_row. apply nth_map_seq0. exact Hj. Qed.

  Lemma list_eqb_true : forall l1 l2 : list F, flist_eqb l1 l2 = true -> l1 = l2.
  Proof.
    intros l1. induction l1 as [|a t1 IH]; intros l2 H.
    - destruct l2 as [|b t2]; [reflexivity|discriminate H].
    - destruct l2 as [|b t2]; [discriminate H|].
      cbn [list_eqb] in H. apply andb_true_iff in H. destruct H as [H1 H2].
      apply eqb_eq in H1. subst b. rewrite (IH t2 H2). reflexivity.
  Qed.

  (* the shortcut: eliminating with the unit row changes nothing *)
  Lemma elim_unit_noop : forall k c (A : mat), fwf k A -> c < k ->
    felim_rows k c (funit_row k c) A = A.
  Proof.
    intros k c A HA Hc.
    apply (mat_ext k).
    - apply wf_elim_rows; [exact HA|apply unit_row_length].
    - exact HA.
    - intros i j Hi Hj.
      rewrite get_elim_rows by (assumption || apply unit_row_length).
      destruct (Nat.eqb i c); [reflexivity|].
      rewrite nth_unit_row by exact Hj.
      destruct (Nat.eqb_spec j c) as [E|_].
      + subst j. ring.
      + ring.
  Qed.

  (* ---- the loop body on the matrix ---- *)
  Lemma eliminate_spec : forall k (A : mat) r c,
    fwf k A -> r < k -> c < k -> fget A r c <> zero ->
    exists A3, feliminate k A r c = Some A3 /\ fwf k A3 /\
      forall i j, i < k -> j < k ->
        fget A3 i j = stepf (fun i j => fget A (swapi r c i) j) c i j.
  Proof.
    intros k A r c HA Hr Hc Hnz. unfold eliminate.
    set (A1 := if Nat.eqb r c then A else fswap_rows r c A).
    assert (HA1 : fwf k A1).
    { unfold A1. destruct (Nat.eqb r c); [exact HA|]. apply wf_swap_rows; assumption. }
    assert (Hrow : forall i, nth i A1 [] = nth (swapi r c i) A []).
    { intros i. unfold A1. destruct (Nat.eqb_spec r c) as [E|_].
      - subst c. rewrite swapi_same. reflexivity.
      - destruct HA as [HL _]. apply nth_swap_rows; lia. }
    assert (Hget : forall i j, fget A1 i j = fget A (swapi r c i) j).
    { intros i j. unfold get. rewrite Hrow. reflexivity. }
    cbv zeta.
    assert (Hpiv : fget A1 c c = fget A r c) by (rewrite Hget, swapi_r; reflexivity).
    destruct (eqb (fget A1 c c) zero) eqn:Ez.
    { apply eqb_eq in Ez. rewrite Hpiv in Ez. contradiction. }
    set (prow := fscale_row c (nth c A1 [])).
    pose proof (wf_row k A1 c HA1 Hc) as HLrow.
    assert (HLp : length prow = k).
    { unfold prow. rewrite scale_row_length. exact HLrow. }
    assert (Hprow : forall j, j < k ->
              nth j prow zero = pivf (fun i j => fget A (swapi r c i) j) c j).
    { intros j Hj. unfold prow. rewrite nth_scale_row by lia.
      unfold pivf. rewrite <- !Hget. reflexivity. }
    set (A2 := set_nth c prow A1).
    assert (HA2 : fwf k A2) by (apply wf_set_row; assumption).
    assert (Hget2 : forall i j, fget A2 i j
              = if Nat.eqb i c then nth j prow zero else fget A1 i j).
    { intros i j. unfold get, A2.
      rewrite nth_set_nth by (destruct HA1 as [HL _]; lia).
      destruct (Nat.eqb i c); reflexivity. }
    assert (Hspec : forall i j, i < k -> j < k ->
              fget (felim_rows k c prow A2) i j
              = stepf (fun i j => fget A (swapi r c i) j) c i j).
    { intros i j Hi Hj. rewrite get_elim_rows by assumption.
      unfold stepf. rewrite !Hget2.
      destruct (Nat.eqb i c); [apply Hprow; exact Hj|].
      rewrite !Hget, (Hprow j Hj). reflexivity. }
    destruct (flist_eqb prow (funit_row k c)) eqn:Eu.
    - apply list_eqb_true in Eu. exists A2. split; [reflexivity|]. split; [exact HA2|].
      intros i j Hi Hj. rewrite <- (Hspec i j Hi Hj), Eu.
      rewrite (elim_unit_noop k c A2 HA2 Hc). reflexivity.
    - exists (felim_rows k c prow A2). split; [reflexivity|]. split; [|exact Hspec].
      apply wf_elim_rows; assumption.
  Qed.

  (* ---- the pivot search ---- *)
  Lemma scan_row_found : forall ipiv (A : mat) row cols r c,
    fscan_row ipiv A row cols = PFound r c ->
    r = row /\ In c cols /\ nth c ipiv 0 = 0 /\ fget A row c <> zero.
  Proof.
    intros ipiv A row cols r c. induction cols as [|ix cols IH]; intros H.
    - discriminate H.
    - cbn [scan_row] in H.
      destruct (Nat.eqb_spec (nth ix ipiv 0) 0) as [E0|N0].
      + destruct (eqb (fget A row ix) zero) eqn:Ez; cbn [negb] in H.
        * destruct (IH H) as [H1 [H2 [H3 H4]]].
          split; [exact H1|]. split; [right; exact H2|]. split; assumption.
        * injection H as Er Ec. subst r c.
          split; [reflexivity|]. split; [left; reflexivity|]. split; [exact E0|].
          apply eqb_false_neq. exact Ez.
      + destruct (Nat.ltb 1 (nth ix ipiv 0)); [discriminate H|].
        destruct (IH H) as [H1 [H2 [H3 H4]]].
        split; [exact H1|]. split; [right; exact H2|]. split; assumption.
  Qed.

  Lemma scan_row_nofail : forall ipiv (A : mat) row cols,
    (forall l, nth l ipiv 0 <= 1) -> fscan_row ipiv A row cols <> PFail.
  Proof.
    intros ipiv A row cols Hle. induction cols as [|ix cols IH].
    - discriminate.
    - cbn [scan_row].
      destruct (Nat.eqb (nth ix ipiv 0) 0).
      + destruct (eqb (fget A row ix) zero); cbn [negb]; [exact IH|discriminate].
      + destruct (Nat.ltb_spec 1 (nth ix ipiv 0)) as [Hlt|_]; [|exact IH].
        pose proof (Hle ix). lia.
  Qed.

  Lemma scan_row_none : forall ipiv (A : mat) row cols,
    fscan_row ipiv A row cols = PNone ->
    forall c, In c cols -> nth c ipiv 0 = 0 -> fget A row c = zero.
  Proof.
    intros ipiv A row cols. induction cols as [|ix cols IH]; intros H c Hin Hc.
    - destruct Hin.
    - cbn [scan_row] in H.
      destruct (Nat.eqb_spec (nth ix ipiv 0) 0) as [E0|N0].
      + destruct (eqb (fget A row ix) zero) eqn:Ez; cbn [negb] in H; [|discriminate H].
        destruct Hin as [E|Hin].
        * subst c. apply eqb_eq. exact Ez.
        * exact (IH H c Hin Hc).
      + destruct (Nat.ltb 1 (nth ix ipiv 0)); [discriminate H|].
        destruct Hin as [E|Hin].
        * subst c. contradiction.
        * exact (IH H c Hin Hc).
  Qed.

  Lemma scan_rows_found : forall k ipiv (A : mat) rows r c,
    fscan_rows k ipiv A rows = PFound r c ->
    In r rows /\ nth r ipiv 0 <> 1 /\ c < k /\ nth c ipiv 0 = 0 /\ fget A r c <> zero.
  Proof.
    intros k ipiv A rows r c. induction rows as [|row rows IH]; intros H.
    - discriminate H.
    - cbn [scan_rows] in H.
      destruct (Nat.eqb_spec (nth row ipiv 0) 1) as [E1|N1]; cbn [negb] in H.
      + destruct (IH H) as [H1 H2]. split; [right; exact H1|exact H2].
      + destruct (fscan_row ipiv A row (seq 0 k)) as [r' c'| |] eqn:Es.
        * injection H as Er Ec. subst r' c'.
          destruct (scan_row_found _ _ _ _ _ _ Es) as [H1 [H2 [H3 H4]]]. subst r.
          apply in_seq in H2.
          split; [left; reflexivity|]. split; [exact N1|]. split; [lia|].
          split; assumption.
        * destruct (IH H) as [H1 H2]. split; [right; exact H1|exact H2].
        * discriminate H.
  Qed.

  Lemma scan_rows_nofail : forall k ipiv (A : mat) rows,
    (forall l, nth l ipiv 0 <= 1) -> fscan_rows k ipiv A rows <> PFail.
  Proof.
    intros k ipiv A rows Hle. induction rows as [|row rows IH].
    - discriminate.
    - cbn [scan_rows].
      destruct (Nat.eqb (nth row ipiv 0) 1); cbn [negb]; [exact IH|].
      destruct (fscan_row ipiv A row (seq 0 k)) as [r' c'| |] eqn:Es.
      + discriminate.
      + exact IH.
      + exfalso. exact (scan_row_nofail ipiv A row (seq 0 k) Hle Es).
  Qed.

  Lemma scan_rows_none : forall k ipiv (A : mat) rows,
    fscan_rows k ipiv A rows = PNone ->
    forall r c, In r rows -> nth r ipiv 0 <> 1 -> c < k -> nth c ipiv 0 = 0 ->
      fget A r c = zero.
  Proof.
    intros k ipiv A rows. induction rows as [|row rows IH]; intros H r c Hin Hr Hc Hc0.
    - destruct Hin.
    - cbn [scan_rows] in H.
      destruct (Nat.eqb_spec (nth row ipiv 0) 1) as [E1|N1]; cbn [negb] in H.
      + destruct Hin as [E|Hin].
        * subst r. contradiction.
        * exact (IH H r c Hin Hr Hc Hc0).
      + destruct (fscan_row ipiv A row (seq 0 k)) as [r' c'| |] eqn:Es.
        * discriminate H.
        * destruct Hin as [E|Hin].
          -- subst r. apply (scan_row_none _ _ _ _ Es); [|exact Hc0].
             apply in_seq. lia.
          -- exact (IH H r c Hin Hr Hc Hc0).
        * discriminate H.
  Qed.

  Lemma find_pivot_found : forall k ipiv (A : mat) col r c,
    (forall l, nth l ipiv 0 <= 1) -> col < k ->
    ffind_pivot k ipiv A col = PFound r c ->
    r < k /\ c < k /\ nth r ipiv 0 = 0 /\ nth c ipiv 0 = 0 /\ fget A r c <> zero.
  Proof.
    intros k ipiv A col r c Hle Hcol H. unfold find_pivot in H.
    destruct (Nat.eqb_spec (nth col ipiv 0) 1) as [E1|N1]; cbn [negb andb] in H.
    - destruct (scan_rows_found _ _ _ _ _ _ H) as [H1 [H2 [H3 [H4 H5]]]].
      apply in_seq in H1. pose proof (Hle r).
      split; [lia|]. split; [exact H3|]. split; [lia|]. split; assumption.
    - destruct (eqb (fget A col col) zero) eqn:Ez; cbn [negb] in H.
      + destruct (scan_rows_found _ _ _ _ _ _ H) as [H1 [H2 [H3 [H4 H5]]]].
        apply in_seq in H1. pose proof (Hle r).
        split; [lia|]. split; [exact H3|]. split; [lia|]. split; assumption.
      + injection H as Er Ec. subst r c. pose proof (Hle col).
        split; [exact Hcol|]. split; [exact Hcol|]. split; [lia|]. split; [lia|].
        apply eqb_false_neq. exact Ez.
  Qed.

  Lemma find_pivot_nofail : forall k ipiv (A : mat) col,
    (forall l, nth l ipiv 0 <= 1) -> ffind_pivot k ipiv A col <> PFail.
  Proof.
    intros k ipiv A col Hle. unfold find_pivot.
    destruct (negb (Nat.eqb (nth col ipiv 0) 1) && negb (eqb (fget A col col) zero)).
    - discriminate.
    - apply scan_rows_nofail. exact Hle.
  Qed.

  Lemma find_pivot_none : forall k ipiv (A : mat) col,
    ffind_pivot k ipiv A col = PNone ->
    forall r c, r < k -> c < k -> nth r ipiv 0 = 0 -> nth c ipiv 0 = 0 ->
      fget A r c = zero.
  Proof.
    intros k ipiv A col H r c Hr Hc Hr0 Hc0. unfold find_pivot in H.
    destruct (negb (Nat.eqb (nth col ipiv 0) 1) && negb (eqb (fget A col col) zero)).
    - discriminate H.
    - apply (scan_rows_none _ _ _ _ H); try assumption.
      + apply in_seq. lia.
      + lia.
  Qed.

  (* ---- matrix algebra on lists ---- *)
  Lemma wf_row0 : forall k (A : mat), fwf k A -> length (nth 0 A []) = k.
  Proof.
    intros k A HA. destruct k as [|k].
    - destruct HA as [HL _]. destruct A as [|r A]; [reflexivity|discriminate HL].
    - apply (wf_row (S k) A 0 HA). lia.
  Qed.

  Lemma wf_mmul : forall k (A B : mat), fwf k A -> fwf k B -> fwf k (fmmul A B).
  Proof.
    intros k A B [HLA _] HB. unfold mmul. split.
    - rewrite map_length. exact HLA.
    - apply Forall_forall. intros r Hr. apply in_map_iff in Hr.
      destruct Hr as [ra [Er _]]. subst r.
      rewrite map_length, seq_length. apply (wf_row0 k B HB).
  Qed.

  Lemma get_mmul : forall k (A B : mat) i j, fwf k A -> fwf k B -> i < k -> j < k ->
    fget (fmmul A B) i j = fdot k (fget A i) (fun l => fget B l j).
  Proof.
    intros k A B i j HA HB Hi Hj. unfold mmul.
    unfold get at 1.
    rewrite (nth_map_lt _ _ _ A i [] []) by (destruct HA as [HL _]; lia).
    rewrite nth_map_seq0 by (rewrite (wf_row0 k B HB); exact Hj).
    destruct HB as [HLB _]. rewrite HLB. reflexivity.
  Qed.

  Lemma wf_mI : forall k, fwf k (fmI k).
  Proof.
    intros k. unfold mI. apply wf_map_seq. intros i _.
    rewrite map_length, seq_length. reflexivity.
  Qed.

  Lemma get_mI : forall k i j, i < k -> j < k -> fget (fmI k) i j = fdelta i j.
  Proof.
    intros k i j Hi Hj. unfold mI. rewrite get_map_seq by exact Hi.
    apply nth_map_seq0. exact Hj.
  Qed.

  Lemma wf_mT : forall k (A : mat), fwf k A -> fwf k (fmT A).
  Proof.
    intros k A HA. unfold mT. rewrite (wf_row0 k A HA).
    apply wf_map_seq. intros i _. rewrite map_length, seq_length.
    destruct HA as [HL _]. exact HL.
  Qed.

  Lemma get_mT : forall k (A : mat) i j, fwf k A -> i < k -> j < k ->
    fget (fmT A) i j = fget A j i.
  Proof.
    intros k A i j HA Hi Hj. unfold mT. rewrite (wf_row0 k A HA).
    rewrite get_map_seq by exact Hi.
    destruct HA as [HL _]. rewrite HL.
    exact (nth_map_seq0 _ (fun i0 => fget A i0 i) k j zero Hj).
  Qed.

  Lemma mmul_assoc : forall k (X Y Z : mat), fwf k X -> fwf k Y -> fwf k Z ->
    fmmul (fmmul X Y) Z = fmmul X (fmmul Y Z).
  Proof.
    intros k X Y Z HX HY HZ.
    pose proof (wf_mmul k X Y HX HY) as HXY.
    pose proof (wf_mmul k Y Z HY HZ) as HYZ.
    apply (mat_ext k); [apply wf_mmul; assumption|apply wf_mmul; assumption|].
    intros i j Hi Hj.
    rewrite (get_mmul k (fmmul X Y) Z i j HXY HZ Hi Hj).
    rewrite (get_mmul k X (fmmul Y Z) i j HX HYZ Hi Hj).
    rewrite (dot_ext k (fget (fmmul X Y) i)
               (fun m => fdot k (fget X i) (fun l => fget Y l m))
               (fun m => fget Z m j) (fun m => fget Z m j)).
    - rewrite dot_assoc. apply dot_ext.
      + intros l _. reflexivity.
      + intros l Hl. symmetry. apply get_mmul; assumption.
    - intros m Hm. apply get_mmul; assumption.
    - intros m _. reflexivity.
  Qed.

  Lemma mmul_I_l : forall k (X : mat), fwf k X -> fmmul (fmI k) X = X.
  Proof.
    intros k X HX. apply (mat_ext k); [apply wf_mmul; [apply wf_mI|exact HX]|exact HX|].
    intros i j Hi Hj. rewrite (get_mmul k _ _ i j (wf_mI k) HX Hi Hj).
    rewrite (dot_ext k (fget (fmI k) i) (fdelta i) (fun l => fget X l j) (fun l => fget X l j)).
    - exact (dot_delta_l k i (fun l => fget X l j) Hi).
    - intros l Hl. apply get_mI; assumption.
    - intros l _. reflexivity.
  Qed.

  Lemma mmul_I_r : forall k (X : mat), fwf k X -> fmmul X (fmI k) = X.
  Proof.
    intros k X HX. apply (mat_ext k); [apply wf_mmul; [exact HX|apply wf_mI]|exact HX|].
    intros i j Hi Hj. rewrite (get_mmul k _ _ i j HX (wf_mI k) Hi Hj).
    rewrite (dot_ext k (fget X i) (fget X i) (fun l => fget (fmI k) l j) (fun l => fdelta l j)).
    - exact (dot_delta_r k j (fget X i) Hj).
    - intros l _. reflexivity.
    - intros l Hl. apply get_mI; assumption.
  Qed.

  Lemma mT_mmul : forall k (X Y : mat), fwf k X -> fwf k Y ->
    fmT (fmmul X Y) = fmmul (fmT Y) (fmT X).
  Proof.
    intros k X Y HX HY.
    pose proof (wf_mmul k X Y HX HY) as HXY.
    pose proof (wf_mT k X HX) as HTX. pose proof (wf_mT k Y HY) as HTY.
    apply (mat_ext k); [apply wf_mT; exact HXY|apply wf_mmul; assumption|].
    intros i j Hi Hj.
    rewrite (get_mT k _ i j HXY Hi Hj), (get_mmul k X Y j i HX HY Hj Hi).
    rewrite (get_mmul k _ _ i j HTY HTX Hi Hj). rewrite dot_comm.
    apply dot_ext.
    - intros l Hl. symmetry. apply (get_mT k); assumption.
    - intros l Hl. symmetry. apply (get_mT k); assumption.
  Qed.

  Lemma mT_mI : forall k, fmT (fmI k) = fmI k.
  Proof.
    intros k. apply (mat_ext k); [apply wf_mT; apply wf_mI|apply wf_mI|].
    intros i j Hi Hj. rewrite (get_mT k _ i j (wf_mI k) Hi Hj), !get_mI by assumption.
    unfold delta. rewrite Nat.eqb_sym. reflexivity.
  Qed.

  Lemma mT_invol : forall k (A : mat), fwf k A -> fmT (fmT A) = A.
  Proof.
    intros k A HA. pose proof (wf_mT k A HA) as HT.
    apply (mat_ext k); [apply wf_mT; exact HT|exact HA|].
    intros i j Hi Hj. rewrite (get_mT k _ i j HT Hi Hj). apply (get_mT k); assumption.
  Qed.

  (* ---- the loop invariant ---- *)
  (* the input with the recorded row swaps applied, oldest first *)
  Fixpoint rowswaps (idx : list (nat * nat)) (A : mat) : mat :=
    match idx with
    | [] => A
    | (r, c) :: idx' => fswap_rows r c (rowswaps idx' A)
    end.

  Definition idx_ok (k : nat) (idx : list (nat * nat)) : Prop :=
    forall r c, In (r, c) idx -> r < k /\ c < k.

  Lemma wf_rowswaps : forall k idx (A : mat), fwf k A -> idx_ok k idx ->
    fwf k (rowswaps idx A).
  Proof.
    intros k idx A HA. induction idx as [|[r c] idx IH]; intros Hok.
    - exact HA.
    - cbn [rowswaps]. destruct (Hok r c (or_introl eq_refl)) as [Hr Hc].
      apply wf_swap_rows; [|exact Hr|exact Hc].
      apply IH. intros r' c' Hin. apply Hok. right. exact Hin.
  Qed.

  Lemma get_swap_rows : forall k (A : mat) r c i j, fwf k A -> r < k -> c < k ->
    fget (fswap_rows r c A) i j = fget A (swapi r c i) j.
  Proof.
    intros k A r c i j [HL _] Hr Hc. unfold get.
    rewrite nth_swap_rows by lia. reflexivity.
  Qed.

  Definition marked (ipiv : list nat) (l : nat) : bool := Nat.eqb (nth l ipiv 0) 1.

  Definition SInv (k : nat) (A0 : mat) (st : gj_state F) : Prop :=
    match st with
    | (Sm, ipiv, idx) =>
        fwf k Sm /\ length ipiv = k /\ (forall l, nth l ipiv 0 <= 1) /\
        list_sum ipiv = length idx /\ idx_ok k idx /\
        Inv k (marked ipiv) (fget Sm) (fget (rowswaps idx A0))
    end.

  Lemma list_sum_repeat0 : forall k, list_sum (repeat 0 k) = 0.
  Proof. intros k. induction k as [|k IH]; [reflexivity|exact IH]. Qed.

  Lemma SInv_init : forall k (A : mat), fwf k A -> SInv k A (A, repeat 0 k, []).
  Proof.
    intros k A HA. cbn [SInv]. split; [exact HA|]. split; [apply repeat_length|].
    split; [intros l; rewrite nth_repeat; lia|].
    split; [apply list_sum_repeat0|]. split; [intros r c Hin; destruct Hin|].
    cbn [rowswaps].
    apply (Inv_ext k (fun _ => false) _ (fget A) (fget A) (fget A) (fget A)).
    - intros l _. unfold marked. rewrite nth_repeat. reflexivity.
    - intros i j _ _. reflexivity.
    - intros i j _ _. reflexivity.
    - apply Inv_init.
  Qed.

  Lemma gj_step_idx : forall k S ipiv idx col S' ipiv' idx',
    fgj_step k (S, ipiv, idx) col = Some (S', ipiv', idx') ->
    length idx' = Datatypes.S (length idx).
  Proof.
    intros k S ipiv idx col S' ipiv' idx' H. unfold gj_step in H.
    destruct (ffind_pivot k ipiv S col) as [r c| |]; try discriminate H.
    destruct (feliminate k S r c) as [A3|]; [|discriminate H].
    injection H as _ _ E. subst idx'. reflexivity.
  Qed.

  Lemma gj_step_inv : forall k (A0 : mat) st col st',
    fwf k A0 -> SInv k A0 st -> col < k ->
    fgj_step k st col = Some st' -> SInv k A0 st'.
  Proof.
    intros k A0 st col st' HA0 HS Hcol H.
    destruct st as [[S ipiv] idx].
    destruct HS as [HwS [HLp [Hle [Hsum [Hok HI]]]]].
    unfold gj_step in H.
    destruct (ffind_pivot k ipiv S col) as [r c| |] eqn:Ef; try discriminate H.
    destruct (find_pivot_found k ipiv S col r c Hle Hcol Ef) as [Hr [Hc [Hr0 [Hc0 Hnz]]]].
    destruct (eliminate_spec k S r c HwS Hr Hc Hnz) as [A3 [E3 [HwA3 Hget3]]].
    rewrite E3 in H. injection H as E. subst st'.
    pose proof (wf_rowswaps k idx A0 HA0 Hok) as HwM.
    cbn [SInv]. split; [exact HwA3|]. split; [rewrite set_nth_length; exact HLp|].
    split.
    { intros l. rewrite nth_set_nth by lia. rewrite Hc0.
      destruct (Nat.eqb l c); [lia|apply Hle]. }
    split.
    { rewrite list_sum_set_nth_S by lia. cbn [length]. rewrite Hsum. reflexivity. }
    split.
    { intros r' c' Hin. destruct Hin as [E|Hin].
      - injection E as Er Ec. subst r' c'. split; assumption.
      - apply Hok. exact Hin. }
    cbn [rowswaps].
    assert (Pr : marked ipiv r = false) by (unfold marked; rewrite Hr0; reflexivity).
    assert (Pc : marked ipiv c = false) by (unfold marked; rewrite Hc0; reflexivity).
    pose proof (Inv_swap k (marked ipiv) (fget S) (fget (rowswaps idx A0)) r c
                  Hr Hc Pr Pc HI) as HI1.
    assert (Hnz1 : (fun i j => fget S (swapi r c i) j) c c <> zero).
    { cbv beta. rewrite swapi_r. exact Hnz. }
    pose proof (Inv_step k (marked ipiv) _ _ c Hc Pc Hnz1 HI1) as HI2.
    revert HI2. apply Inv_ext.
    - intros l Hl. unfold marked. rewrite nth_set_nth by lia. rewrite Hc0.
      destruct (Nat.eqb l c); reflexivity.
    - intros i j Hi Hj. symmetry. apply Hget3; assumption.
    - intros i j Hi Hj. symmetry. apply (get_swap_rows k); assumption.
  Qed.

  (* M has a right inverse *)
  Definition RInv (k : nat) (M Y : nat -> nat -> F) : Prop :=
    forall a b, a < k -> b < k -> fdot k (M a) (fun l => Y l b) = fdelta a b.

  Lemma rinv_rowswaps : forall k idx (A0 : mat), fwf k A0 -> idx_ok k idx ->
    (exists Y, RInv k (fget A0) Y) -> exists Y, RInv k (fget (rowswaps idx A0)) Y.
  Proof.
    intros k idx A0 HA0. induction idx as [|[r c] idx IH]; intros Hok HY.
    - exact HY.
    - assert (Hok' : idx_ok k idx) by (intros r' c' Hin; apply Hok; right; exact Hin).
      destruct (IH Hok' HY) as [Y HYM].
      destruct (Hok r c (or_introl eq_refl)) as [Hr Hc].
      pose proof (wf_rowswaps k idx A0 HA0 Hok') as HwM.
      exists (fun i j => Y i (swapi r c j)). intros a b Ha Hb. cbn [rowswaps].
      rewrite (dot_ext k _ (fget (rowswaps idx A0) (swapi r c a))
                 _ (fun l => Y l (swapi r c b))).
      + rewrite (HYM _ _ (swapi_lt k r c a Hr Hc Ha) (swapi_lt k r c b Hr Hc Hb)).
        apply delta_swapi.
      + intros l _. apply (get_swap_rows k); assumption.
      + intros l _. reflexivity.
  Qed.

  Lemma gj_step_progress : forall k (A0 : mat) S ipiv idx col,
    fwf k A0 -> SInv k A0 (S, ipiv, idx) -> col < k -> length idx < k ->
    (exists Y, RInv k (fget A0) Y) ->
    exists st', fgj_step k (S, ipiv, idx) col = Some st'.
  Proof.
    intros k A0 S ipiv idx col HA0 HS Hcol Hlen HY.
    destruct HS as [HwS [HLp [Hle [Hsum [Hok HI]]]]].
    unfold gj_step.
    destruct (ffind_pivot k ipiv S col) as [r c| |] eqn:Ef.
    - destruct (find_pivot_found k ipiv S col r c Hle Hcol Ef) as [Hr [Hc [Hr0 [Hc0 Hnz]]]].
      destruct (eliminate_spec k S r c HwS Hr Hc Hnz) as [A3 [E3 _]].
      rewrite E3. eexists. reflexivity.
    - exfalso.
      destruct (rinv_rowswaps k idx A0 HA0 Hok HY) as [Y HYM].
      destruct (exists_unmarked ipiv) as [i [Hi Hi0]]; [lia|].
      apply (Inv_stuck k (marked ipiv) (fget S) (fget (rowswaps idx A0)) Y i HI HYM).
      + lia.
      + unfold marked. rewrite Hi0. reflexivity.
      + intros j Hj Pj. apply (find_pivot_none k ipiv S col Ef); try lia.
        unfold marked in Pj. apply Nat.eqb_neq in Pj. pose proof (Hle j). lia.
    - exfalso. exact (find_pivot_nofail k ipiv S col Hle Ef).
  Qed.

  Lemma gj_loop_inv : forall k (A0 : mat), fwf k A0 ->
    forall cols S ipiv idx S' ipiv' idx',
      SInv k A0 (S, ipiv, idx) -> (forall col, In col cols -> col < k) ->
      fgj_loop k (S, ipiv, idx) cols = Some (S', ipiv', idx') ->
      SInv k A0 (S', ipiv', idx') /\ length idx' = length idx + length cols.
  Proof.
    intros k A0 HA0 cols. induction cols as [|col cols IH];
      intros S ipiv idx S' ipiv' idx' HS Hcols H.
    - cbn [gj_loop] in H. injection H as E1 E2 E3. subst S' ipiv' idx'.
      split; [exact HS|cbn [length]; lia].
    - cbn [gj_loop] in H.
      destruct (fgj_step k (S, ipiv, idx) col) as [[[S1 ipiv1] idx1]|] eqn:Es;
        [|discriminate H].
      assert (Hcol : col < k) by (apply Hcols; left; reflexivity).
      pose proof (gj_step_inv k A0 _ col _ HA0 HS Hcol Es) as HS1.
      pose proof (gj_step_idx k _ _ _ _ _ _ _ Es) as Hl1.
      destruct (IH S1 ipiv1 idx1 S' ipiv' idx' HS1) as [HS' Hl'].
      + intros c Hin. apply Hcols. right. exact Hin.
      + exact H.
      + split; [exact HS'|]. cbn [length]. lia.
  Qed.

  Lemma gj_loop_progress : forall k (A0 : mat), fwf k A0 ->
    (exists Y, RInv k (fget A0) Y) ->
    forall cols S ipiv idx,
      SInv k A0 (S, ipiv, idx) -> (forall col, In col cols -> col < k) ->
      length idx + length cols <= k ->
      exists st', fgj_loop k (S, ipiv, idx) cols = Some st'.
  Proof.
    intros k A0 HA0 HY cols. induction cols as [|col cols IH];
      intros S ipiv idx HS Hcols Hlen.
    - eexists. reflexivity.
    - cbn [gj_loop]. cbn [length] in Hlen.
      assert (Hcol : col < k) by (apply Hcols; left; reflexivity).
      destruct (gj_step_progress k A0 S ipiv idx col HA0 HS Hcol) as [st1 Es];
        [lia|exact HY|].
      rewrite Es. destruct st1 as [[S1 ipiv1] idx1].
      pose proof (gj_step_inv k A0 _ col _ HA0 HS Hcol Es) as HS1.
      pose proof (gj_step_idx k _ _ _ _ _ _ _ Es) as Hl1.
      apply IH.
      + exact HS1.
      + intros c Hin. apply Hcols. right. exact Hin.
      + lia.
  Qed.

  (* ---- the final column swaps undo the row swaps ---- *)
  Lemma unscramble_spec : forall k idx (S X : mat) (D : nat -> nat -> F),
    fwf k S -> fwf k X -> idx_ok k idx ->
    (forall i j, i < k -> j < k ->
       fdot k (fget S i) (fun l => fget (rowswaps idx X) l j) = D i j) ->
    fwf k (funscramble idx S) /\
    forall i j, i < k -> j < k ->
      fdot k (fget (funscramble idx S) i) (fun l => fget X l j) = D i j.
  Proof.
    intros k idx. induction idx as [|[r c] idx IH]; intros S X D HS HX Hok H.
    - split; [exact HS|exact H].
    - cbn [unscramble].
      assert (Hok' : idx_ok k idx) by (intros r' c' Hin; apply Hok; right; exact Hin).
      destruct (Hok r c (or_introl eq_refl)) as [Hr Hc].
      pose proof (wf_rowswaps k idx X HX Hok') as HwM.
      set (S' := if Nat.eqb r c then S else fswap_cols r c S).
      assert (HS' : fwf k S').
      { unfold S'. destruct (Nat.eqb r c); [exact HS|apply wf_swap_cols; exact HS]. }
      assert (Hget' : forall i l, i < k -> fget S' i l = fget S i (swapi r c l)).
      { intros i l Hi. unfold S'. destruct (Nat.eqb_spec r c) as [E|_].
        - subst c. rewrite swapi_same. reflexivity.
        - apply (get_swap_cols k); assumption. }
      apply (IH S' X D HS' HX Hok').
      intros i j Hi Hj. rewrite <- (H i j Hi Hj). cbn [rowswaps].
      rewrite <- (dot_swapi k r c (fget S' i) (fun l => fget (rowswaps idx X) l j) Hr Hc).
      apply dot_ext.
      + intros l _. rewrite (Hget' i _ Hi), swapi_invol. reflexivity.
      + intros l _. symmetry. apply (get_swap_rows k); assumption.
  Qed.

  (* ---- main theorems ---- *)
  Lemma GJ_left : forall k (A B : mat), fwf k A ->
    finvert_mat k A = Some B -> fwf k B /\ fmmul B A = fmI k.
  Proof.
    intros k A B HA H. unfold invert_mat in H.
    destruct (fgj_loop k (A, repeat 0 k, []) (seq 0 k)) as [[[S ipiv] idx]|] eqn:El;
      [|discriminate H].
    injection H as EB. subst B.
    assert (Hcols : forall col, In col (seq 0 k) -> col < k).
    { intros col Hin. apply in_seq in Hin. lia. }
    destruct (gj_loop_inv k A HA (seq 0 k) A (repeat 0 k) [] S ipiv idx
                (SInv_init k A HA) Hcols El) as [HS Hl].
    cbn [length] in Hl. rewrite seq_length in Hl.
    destruct HS as [HwS [HLp [Hle [Hsum [Hok HI]]]]].
    assert (Hall : forall l, l < k -> marked ipiv l = true).
    { intros l Hl'. unfold marked. rewrite (all_marked ipiv Hle) by lia. reflexivity. }
    pose proof (Inv_final k _ _ _ Hall HI) as Hfin.
    destruct (unscramble_spec k idx S A fdelta HwS HA Hok Hfin) as [HwB HB].
    split; [exact HwB|].
    apply (mat_ext k); [apply wf_mmul; assumption|apply wf_mI|].
    intros i j Hi Hj. rewrite (get_mmul k _ _ i j HwB HA Hi Hj), get_mI by assumption.
    apply HB; assumption.
  Qed.

  (* completeness: a right inverse forces success *)
  Theorem GJ_complete : forall k (A : mat), fwf k A ->
    (exists B, fwf k B /\ fmmul A B = fmI k) ->
    exists B, finvert_mat k A = Some B.
  Proof.
    intros k A HA [Y [HwY HY]]. unfold invert_mat.
    destruct (gj_loop_progress k A HA) with (cols := seq 0 k) (S := A)
      (ipiv := repeat 0 k) (idx := @nil (nat * nat)) as [[[S ipiv] idx] El].
    - exists (fget Y). intros a b Ha Hb.
      rewrite <- (get_mmul k A Y a b HA HwY Ha Hb), HY. apply get_mI; assumption.
    - apply SInv_init. exact HA.
    - intros col Hin. apply in_seq in Hin. lia.
    - cbn [length]. rewrite seq_length. lia.
    - rewrite El. eexists. reflexivity.
  Qed.

  (* soundness: the result is a two-sided inverse *)
  Theorem GJ_sound : forall k (A B : mat), fwf k A ->
    finvert_mat k A = Some B -> fmmul B A = fmI k /\ fmmul A B = fmI k.
  Proof.
    intros k A B HA H.
    destruct (GJ_left k A B HA H) as [HwB HBA].
    split; [exact HBA|].
    destruct (GJ_complete k B HwB) as [Z HZ].
    { exists A. split; assumption. }
    destruct (GJ_left k B Z HwB HZ) as [HwZ HZB].
    assert (E : Z = A).
    { rewrite <- (mmul_I_r k Z HwZ), <- HBA.
      rewrite <- (mmul_assoc k Z B A HwZ HwB HA), HZB.
      apply mmul_I_l. exact HA. }
    rewrite <- E at 1. exact HZB.
  Qed.

  Lemma GJ_wf : forall k (A B : mat), fwf k A -> finvert_mat k A = Some B -> fwf k B.
  Proof. intros k A B HA H. exact (proj1 (GJ_left k A B HA H)). Qed.

  (* a left inverse is as good as a right inverse *)
  Lemma left_inv_right_inv : forall k (A : mat), fwf k A ->
    (exists B, fwf k B /\ fmmul B A = fmI k) ->
    (exists B, fwf k B /\ fmmul A B = fmI k).
  Proof.
    intros k A HA [B [HwB HBA]].
    pose proof (wf_mT k A HA) as HTA. pose proof (wf_mT k B HwB) as HTB.
    destruct (GJ_complete k (fmT A) HTA) as [Z HZ].
    { exists (fmT B). split; [exact HTB|].
      rewrite <- (mT_mmul k B A HwB HA), HBA. apply mT_mI. }
    destruct (GJ_left k _ Z HTA HZ) as [HwZ HZA].
    exists (fmT Z). split; [apply wf_mT; exact HwZ|].
    rewrite <- (mT_invol k A HA) at 1.
    rewrite <- (mT_mmul k Z (fmT A) HwZ HTA), HZA. apply mT_mI.
  Qed.

  Theorem GJ_complete_left : forall k (A : mat), fwf k A ->
    (exists B, fwf k B /\ fmmul B A = fmI k) ->
    exists B, finvert_mat k A = Some B.
  Proof.
    intros k A HA H. apply GJ_complete; [exact HA|].
    apply left_inv_right_inv; assumption.
  Qed.

  Theorem GJ_none_iff_singular : forall k (A : mat), fwf k A ->
    (finvert_mat k A = None <-> ~ exists B, fwf k B /\ fmmul A B = fmI k).
  Proof.
    intros k A HA. split.
    - intros HN HB. destruct (GJ_complete k A HA HB) as [B E].
      rewrite E in HN. discriminate HN.
    - intros HN. destruct (finvert_mat k A) as [B|] eqn:E; [|reflexivity].
      exfalso. apply HN. exists B. split.
      + exact (GJ_wf k A B HA E).
      + exact (proj2 (GJ_sound k A B HA E)).
  Qed.

  Theorem GJ_none_iff_singular_left : forall k (A : mat), fwf k A ->
    (finvert_mat k A = None <-> ~ exists B, fwf k B /\ fmmul B A = fmI k).
  Proof.
    intros k A HA. split.
    - intros HN HB. destruct (GJ_complete_left k A HA HB) as [B E].
      rewrite E in HN. discriminate HN.
    - intros HN. destruct (finvert_mat k A) as [B|] eqn:E; [|reflexivity].
      exfalso. apply HN. exists B. split.
      + exact (GJ_wf k A B HA E).
      + exact (proj1 (GJ_sound k A B HA E)).
  Qed.

  (* the result is THE inverse *)
  Theorem GJ_unique : forall k (A B : mat), fwf k A -> fwf k B ->
    fmmul B A = fmI k -> finvert_mat k A = Some B.
  Proof.
    intros k A B HA HB HBA.
    destruct (GJ_complete_left k A HA) as [B' E].
    { exists B. split; assumption. }
    pose proof (GJ_wf k A B' HA E) as HB'.
    destruct (GJ_sound k A B' HA E) as [_ HAB'].
    rewrite E. f_equal.
    rewrite <- (mmul_I_l k B' HB'), <- HBA.
    rewrite (mmul_assoc k B A B' HB HA HB'), HAB'.
    apply mmul_I_r. exact HB.
  Qed.
End Theory.

(* ------------------------------------------------------------------ *)
(* Part 3: homomorphisms                                               *)
(* ------------------------------------------------------------------ *)
Section Hom.
  Variables F1 F2 : Type.
  Variables (zero1 one1 : F1) (add1 mul1 : F1 -> F1 -> F1) (inv1 : F1 -> F1).
  Variable eqb1 : F1 -> F1 -> bool.
  Variables (zero2 one2 : F2) (add2 mul2 : F2 -> F2 -> F2) (inv2 : F2 -> F2).
  Variable eqb2 : F2 -> F2 -> bool.
  Variable phi : F1 -> F2.
  Hypothesis phi_zero : phi zero1 = zero2.
  Hypothesis phi_one : phi one1 = one2.
  Hypothesis phi_add : forall a b, phi (add1 a b) = add2 (phi a) (phi b).
  Hypothesis phi_mul : forall a b, phi (mul1 a b) = mul2 (phi a) (phi b).
  Hypothesis phi_inv : forall a, phi (inv1 a) = inv2 (phi a).
  Hypothesis phi_eqb : forall a b, eqb2 (phi a) (phi b) = eqb1 a b.

  Definition mmap (A : matrix F1) : matrix F2 := map (map phi) A.

  Lemma mmap_map : forall (X : Type) (g : X -> list F1) l,
    mmap (map g l) = map (fun x => map phi (g x)) l.
  Proof. intros X g l. unfold mmap. apply map_map. Qed.

  Lemma nth_mmap : forall A i, nth i (mmap A) [] = map phi (nth i A []).
  Proof. intros A i. exact (map_nth (map phi) A [] i). Qed.

  Lemma hom_nthz : forall l i, nth i (map phi l) zero2 = phi (nth i l zero1).
  Proof. intros l i. rewrite <- phi_zero. apply map_nth. Qed.

  Lemma hom_get : forall A i j, get F2 zero2 (mmap A) i j = phi (get F1 zero1 A i j).
  Proof. intros A i j. unfold get. rewrite nth_mmap. apply hom_nthz. Qed.

  Lemma hom_eqb_zero : forall a, eqb2 (phi a) zero2 = eqb1 a zero1.
  Proof. intros a. rewrite <- phi_zero. apply phi_eqb. Qed.

  Lemma hom_eqb_one : forall a, eqb2 (phi a) one2 = eqb1 a one1.
  Proof. intros a. rewrite <- phi_one. apply phi_eqb. Qed.

  Lemma wf_mmap : forall k A, wf F1 k A -> wf F2 k (mmap A).
  Proof.
    intros k A [HL HF]. unfold mmap. split.
    - rewrite map_length. exact HL.
    - apply Forall_map. revert HF. apply Forall_impl. intros r Hr.
      rewrite map_length. exact Hr.
  Qed.

  Lemma hom_scan_row : forall ipiv A row cols,
    scan_row F2 zero2 eqb2 ipiv (mmap A) row cols = scan_row F1 zero1 eqb1 ipiv A row cols.
  Proof.
    intros ipiv A row cols. induction cols as [|ix cols IH].
    - reflexivity.
    - cbn [scan_row]. rewrite hom_get, hom_eqb_zero, IH. reflexivity.
  Qed.

  Lemma hom_scan_rows : forall k ipiv A rows,
    scan_rows F2 zero2 eqb2 k ipiv (mmap A) rows = scan_rows F1 zero1 eqb1 k ipiv A rows.
  Proof.
    intros k ipiv A rows. induction rows as [|row rows IH].
    - reflexivity.
    - cbn [scan_rows]. rewrite hom_scan_row, IH. reflexivity.
  Qed.

  Lemma hom_find_pivot : forall k ipiv A col,
    find_pivot F2 zero2 eqb2 k ipiv (mmap A) col = find_pivot F1 zero1 eqb1 k ipiv A col.
  Proof.
    intros k ipiv A col. unfold find_pivot.
    rewrite hom_get, hom_eqb_zero, hom_scan_rows. reflexivity.
  Qed.

  Lemma hom_swap_rows : forall r c A,
    swap_rows F2 r c (mmap A) = mmap (swap_rows F1 r c A).
  Proof.
    intros r c A. unfold swap_rows. rewrite !nth_mmap. unfold mmap.
    rewrite !map_set_nth. reflexivity.
  Qed.

  Lemma hom_swap_cols : forall a b A,
    swap_cols F2 zero2 a b (mmap A) = mmap (swap_cols F1 zero1 a b A).
  Proof.
    intros a b A. unfold swap_cols, mmap. rewrite !map_map.
    apply map_ext. intros row. rewrite !map_set_nth, !hom_nthz. reflexivity.
  Qed.

  Lemma hom_set_zero : forall c p, set_nth c zero2 (map phi p) = map phi (set_nth c zero1 p).
  Proof. intros c p. rewrite map_set_nth, phi_zero. reflexivity. Qed.

  Lemma hom_set_one : forall c p, set_nth c one2 (map phi p) = map phi (set_nth c one1 p).
  Proof. intros c p. rewrite map_set_nth, phi_one. reflexivity. Qed.

  Lemma hom_scale_row : forall c row,
    scale_row F2 zero2 one2 mul2 inv2 eqb2 c (map phi row)
    = map phi (scale_row F1 zero1 one1 mul1 inv1 eqb1 c row).
  Proof.
    intros c row. unfold scale_row. rewrite hom_nthz, hom_eqb_one.
    destruct (eqb1 (nth c row zero1) one1); [reflexivity|].
    rewrite hom_set_one, !map_map. apply map_ext. intros a.
    rewrite phi_mul, phi_inv. reflexivity.
  Qed.

  Lemma hom_addmul : forall dst src c,
    addmul F2 add2 mul2 (map phi dst) (map phi src) (phi c)
    = map phi (addmul F1 add1 mul1 dst src c).
  Proof.
    intros dst src c. unfold addmul. revert src.
    induction dst as [|d dst IH]; intros src.
    - reflexivity.
    - destruct src as [|s src]; [reflexivity|].
      cbn [map combine fst snd]. rewrite IH, phi_add, phi_mul. reflexivity.
  Qed.

  Lemma hom_elim_rows : forall k c prow A,
    elim_rows F2 zero2 add2 mul2 k c (map phi prow) (mmap A)
    = mmap (elim_rows F1 zero1 add1 mul1 k c prow A).
  Proof.
    intros k c prow A. unfold elim_rows. rewrite mmap_map.
    apply map_ext. intros ix. cbv zeta. rewrite nth_mmap.
    destruct (Nat.eqb ix c); [reflexivity|].
    rewrite hom_nthz, hom_set_zero. apply hom_addmul.
  Qed.

  Lemma hom_unit_row : forall k c,
    unit_row F2 zero2 one2 k c = map phi (unit_row F1 zero1 one1 k c).
  Proof.
    intros k c. unfold unit_row. rewrite map_map. apply map_ext. intros j.
    destruct (Nat.eqb j c); [symmetry; exact phi_one|symmetry; exact phi_zero].
  Qed.

  Lemma hom_list_eqb : forall l1 l2,
    list_eqb F2 eqb2 (map phi l1) (map phi l2) = list_eqb F1 eqb1 l1 l2.
  Proof.
    intros l1. induction l1 as [|a t1 IH]; intros l2.
    - destruct l2; reflexivity.
    - destruct l2 as [|b t2]; [reflexivity|].
      cbn [map list_eqb]. rewrite phi_eqb, IH. reflexivity.
  Qed.

  Lemma hom_eliminate : forall k A r c,
    eliminate F2 zero2 one2 add2 mul2 inv2 eqb2 k (mmap A) r c
    = option_map mmap (eliminate F1 zero1 one1 add1 mul1 inv1 eqb1 k A r c).
  Proof.
    intros k A r c. unfold eliminate.
    assert (E1 : (if Nat.eqb r c then mmap A else swap_rows F2 r c (mmap A))
                 = mmap (if Nat.eqb r c then A else swap_rows F1 r c A)).
    { destruct (Nat.eqb r c); [reflexivity|apply hom_swap_rows]. }
    rewrite E1. generalize (if Nat.eqb r c then A else swap_rows F1 r c A).
    intros A1. cbv zeta. rewrite hom_get, hom_eqb_zero.
    destruct (eqb1 (get F1 zero1 A1 c c) zero1); [reflexivity|].
    cbn [option_map]. f_equal.
    rewrite nth_mmap, hom_scale_row, hom_unit_row, hom_list_eqb.
    assert (E2 : forall p, set_nth c (map phi p) (mmap A1) = mmap (set_nth c p A1)).
    { intros p. unfold mmap. rewrite map_set_nth. reflexivity. }
    rewrite E2.
    destruct (list_eqb F1 eqb1 _ _); [reflexivity|].
    apply hom_elim_rows.
  Qed.

  Definition mst (st : gj_state F1) : gj_state F2 :=
    match st with (A, ipiv, idx) => (mmap A, ipiv, idx) end.

  Lemma hom_gj_step : forall k st col,
    gj_step F2 zero2 one2 add2 mul2 inv2 eqb2 k (mst st) col
    = option_map mst (gj_step F1 zero1 one1 add1 mul1 inv1 eqb1 k st col).
  Proof.
    intros k [[A ipiv] idx] col. cbn [mst gj_step]. rewrite hom_find_pivot.
    destruct (find_pivot F1 zero1 eqb1 k ipiv A col) as [r c| |]; try reflexivity.
    rewrite hom_eliminate.
    destruct (eliminate F1 zero1 one1 add1 mul1 inv1 eqb1 k A r c); reflexivity.
  Qed.

  Lemma hom_gj_loop : forall k cols st,
    gj_loop F2 zero2 one2 add2 mul2 inv2 eqb2 k (mst st) cols
    = option_map mst (gj_loop F1 zero1 one1 add1 mul1 inv1 eqb1 k st cols).
  Proof.
    intros k cols. induction cols as [|col cols IH]; intros st.
    - reflexivity.
    - cbn [gj_loop]. rewrite hom_gj_step.
      destruct (gj_step F1 zero1 one1 add1 mul1 inv1 eqb1 k st col) as [st'|];
        cbn [option_map]; [apply IH|reflexivity].
  Qed.

  Lemma hom_unscramble : forall idx A,
    unscramble F2 zero2 idx (mmap A) = mmap (unscramble F1 zero1 idx A).
  Proof.
    intros idx. induction idx as [|[r c] idx IH]; intros A.
    - reflexivity.
    - cbn [unscramble]. rewrite <- IH. f_equal.
      destruct (Nat.eqb r c); [reflexivity|apply hom_swap_cols].
  Qed.

  Theorem hom_invert_mat : forall k A,
    invert_mat F2 zero2 one2 add2 mul2 inv2 eqb2 k (mmap A)
    = option_map mmap (invert_mat F1 zero1 one1 add1 mul1 inv1 eqb1 k A).
  Proof.
    intros k A. unfold invert_mat.
    change (mmap A, repeat 0 k, @nil (nat * nat)) with (mst (A, repeat 0 k, [])).
    rewrite hom_gj_loop.
    destruct (gj_loop F1 zero1 one1 add1 mul1 inv1 eqb1 k (A, repeat 0 k, []) (seq 0 k))
      as [[[A' ipiv] idx]|]; cbn [option_map mst]; [|reflexivity].
    rewrite hom_unscramble. reflexivity.
  Qed.

  Lemma hom_mmul : forall A B,
    mmul F2 zero2 add2 mul2 (mmap A) (mmap B) = mmap (mmul F1 zero1 add1 mul1 A B).
  Proof.
    intros A B. unfold mmul. rewrite mmap_map.
    change (mmap A) with (map (map phi) A). rewrite map_map.
    apply map_ext. intros ra. rewrite nth_mmap, map_map.
    change (length (mmap B)) with (length (map (map phi) B)).
    rewrite !map_length.
    apply map_ext. intros j. unfold dot.
    rewrite (hom_sum F1 F2 zero1 add1 zero2 add2 phi phi_zero phi_add), map_map.
    f_equal. apply map_ext. intros l.
    rewrite phi_mul, hom_nthz, hom_get. reflexivity.
  Qed.

  Lemma hom_mI : forall k, mI F2 zero2 one2 k = mmap (mI F1 zero1 one1 k).
  Proof.
    intros k. unfold mI. rewrite mmap_map. apply map_ext. intros i.
    rewrite map_map. apply map_ext. intros j. unfold delta.
    destruct (Nat.eqb i j); [symmetry; exact phi_one|symmetry; exact phi_zero].
  Qed.
End Hom.

(* ------------------------------------------------------------------ *)
(* Part 4: executable instances over N                                 *)
(* ------------------------------------------------------------------ *)
Local Open Scope N_scope.

Definition invert_matN (mulN : N -> N -> N) (invN : N -> N) (k : nat) (A : list (list N))
  : option (list (list N)) :=
  invert_mat N 0 1 N.lxor mulN invN N.eqb k A.
Definition mmulN (mulN : N -> N -> N) (A B : list (list N)) : list (list N) :=
  mmul N 0 N.lxor mulN A B.
Definition mIN (k : nat) : list (list N) := mI N 0 1 k.
Definition wfN (k : nat) (A : list (list N)) : Prop := wf N k A.
Definition belowN (q : N) (A : list (list N)) : Prop :=
  Forall (Forall (fun a => a < q)) A.

Definition invert_mat256 := invert_matN mul256 inv256.
Definition mmul256 := mmulN mul256.
Definition invert_mat16 := invert_matN mul16 inv16.
Definition mmul16 := mmulN mul16.

(* ---- generic transfer along an injective homomorphism into N ---- *)
Section Transfer.
  Variables (mulN : N -> N -> N) (invN : N -> N).
  Variable q : N.
  Variable G : Type.
  Variables (zero one : G) (add mul : G -> G -> G) (inv : G -> G).
  Variable eqbG : G -> G -> bool.

  Hypothesis eqbG_eq : forall a b, eqbG a b = true <-> a = b.
  Hypothesis add_comm : forall a b, add a b = add b a.
  Hypothesis add_assoc : forall a b c, add a (add b c) = add (add a b) c.
  Hypothesis add_0_l : forall a, add zero a = a.
  Hypothesis add_self : forall a, add a a = zero.
  Hypothesis mul_comm : forall a b, mul a b = mul b a.
  Hypothesis mul_assoc : forall a b c, mul a (mul b c) = mul (mul a b) c.
  Hypothesis mul_1_l : forall a, mul one a = a.
  Hypothesis mul_add_distr_l : forall a b c, mul a (add b c) = add (mul a b) (mul a c).
  Hypothesis mul_inv_r : forall a, a <> zero -> mul a (inv a) = one.
  Hypothesis one_neq_zero : one <> zero.

  Variable phi : G -> N.
  Variable psi : N -> G.
  Hypothesis phi_zero : phi zero = 0.
  Hypothesis phi_one : phi one = 1.
  Hypothesis phi_add : forall a b, phi (add a b) = N.lxor (phi a) (phi b).
  Hypothesis phi_mul : forall a b, phi (mul a b) = mulN (phi a) (phi b).
  Hypothesis phi_inv : forall a, phi (inv a) = invN (phi a).
  Hypothesis phi_inj : forall a b, phi a = phi b -> a = b.
  Hypothesis phi_lt : forall a, phi a < q.
  Hypothesis phi_psi : forall a, a < q -> phi (psi a) = a.

  Local Notation invG := (invert_mat G zero one add mul inv eqbG).
  Local Notation mmulG := (mmul G zero add mul).
  Local Notation mIG := (mI G zero one).
  Local Notation up := (mmap G N phi).
  Local Notation down := (map (map psi)).

  Lemma phi_eqb : forall a b, N.eqb (phi a) (phi b) = eqbG a b.
  Proof.
    intros a b. destruct (eqbG a b) eqn:E.
    - apply eqbG_eq in E. subst b. apply N.eqb_refl.
    - apply N.eqb_neq. intros H. apply phi_inj in H.
      apply eqbG_eq in H. rewrite H in E. discriminate E.
  Qed.

  Lemma up_down : forall A, belowN q A -> up (down A) = A.
  Proof.
    intros A HA. unfold mmap. rewrite map_map.
    rewrite <- (map_id A) at 2. apply map_ext_in. intros r Hr.
    unfold belowN in HA. rewrite Forall_forall in HA. pose proof (HA r Hr) as HF.
    rewrite map_map. rewrite <- (map_id r) at 2. apply map_ext_in. intros a Ha.
    rewrite Forall_forall in HF. apply phi_psi. apply HF. exact Ha.
  Qed.

  Lemma below_up : forall A, belowN q (up A).
  Proof.
    intros A. unfold belowN, mmap. apply Forall_map. apply Forall_forall. intros r _.
    apply Forall_map. apply Forall_forall. intros a _. apply phi_lt.
  Qed.

  Lemma wf_down : forall k A, wfN k A -> wf G k (down A).
  Proof.
    intros k A [HL HF]. split.
    - rewrite map_length. exact HL.
    - apply Forall_map. revert HF. apply Forall_impl. intros r Hr.
      rewrite map_length. exact Hr.
  Qed.

  Lemma up_inj : forall A B, up A = up B -> A = B.
  Proof.
    unfold mmap. intros A. induction A as [|r A IH]; intros B H.
    - destruct B; [reflexivity|discriminate H].
    - destruct B as [|s B]; [discriminate H|]. cbn [map] in H.
      injection H as Hr HA. f_equal; [|apply IH; exact HA].
      clear IH HA. revert s Hr. induction r as [|a r IHr]; intros s Hr.
      + destruct s; [reflexivity|discriminate Hr].
      + destruct s as [|b s]; [discriminate Hr|]. cbn [map] in Hr.
        injection Hr as Ha Hr. f_equal; [apply phi_inj; exact Ha|apply IHr; exact Hr].
  Qed.

  Lemma invN_up : forall k A,
    invert_matN mulN invN k (up A) = option_map up (invG k A).
  Proof.
    intros k A. unfold invert_matN.
    apply (hom_invert_mat G N zero one add mul inv eqbG 0 1 N.lxor mulN invN N.eqb phi
             phi_zero phi_one phi_add phi_mul phi_inv phi_eqb).
  Qed.

  Lemma mmulN_up : forall A B, mmulN mulN (up A) (up B) = up (mmulG A B).
  Proof.
    intros A B. unfold mmulN.
    apply (hom_mmul G N zero add mul 0 N.lxor mulN phi phi_zero phi_add phi_mul).
  Qed.

  Lemma mIN_up : forall k, mIN k = up (mIG k).
  Proof.
    intros k. unfold mIN. apply (hom_mI G N zero one 0 1 phi phi_zero phi_one).
  Qed.

  Theorem invN_sound : forall k A B,
    wfN k A -> belowN q A -> invert_matN mulN invN k A = Some B ->
    wfN k B /\ belowN q B /\ mmulN mulN B A = mIN k /\ mmulN mulN A B = mIN k.
  Proof.
    intros k A B HA Hq H.
    pose proof (wf_down k A HA) as HwA'.
    rewrite <- (up_down A Hq) in H. rewrite invN_up in H.
    destruct (invG k (down A)) as [B'|] eqn:E; [|discriminate H].
    cbn [option_map] in H. injection H as EB. subst B.
    pose proof (GJ_wf G zero one add mul inv eqbG eqbG_eq add_comm add_assoc add_0_l add_self
                  mul_comm mul_assoc mul_1_l mul_add_distr_l mul_inv_r one_neq_zero
                  k (down A) B' HwA' E) as HwB'.
    destruct (GJ_sound G zero one add mul inv eqbG eqbG_eq add_comm add_assoc add_0_l add_self
                mul_comm mul_assoc mul_1_l mul_add_distr_l mul_inv_r one_neq_zero
                k (down A) B' HwA' E) as [H1 H2].
    split; [apply (wf_mmap G N phi); exact HwB'|]. split; [apply below_up|].
    rewrite <- (up_down A Hq), !mmulN_up, H1, H2, mIN_up. split; reflexivity.
  Qed.

  Theorem invN_complete : forall k A,
    wfN k A -> belowN q A ->
    (exists B, wfN k B /\ belowN q B /\ mmulN mulN A B = mIN k) ->
    exists B, invert_matN mulN invN k A = Some B.
  Proof.
    intros k A HA Hq [B [HB [HqB HAB]]].
    pose proof (wf_down k A HA) as HwA'. pose proof (wf_down k B HB) as HwB'.
    destruct (GJ_complete G zero one add mul inv eqbG eqbG_eq add_comm add_assoc add_0_l
                add_self mul_comm mul_assoc mul_1_l mul_add_distr_l mul_inv_r one_neq_zero
                k (down A) HwA') as [Z HZ].
    - exists (down B). split; [exact HwB'|]. apply up_inj.
      rewrite <- mmulN_up, <- mIN_up, (up_down A Hq), (up_down B HqB). exact HAB.
    - exists (up Z). rewrite <- (up_down A Hq), invN_up, HZ. reflexivity.
  Qed.

  Theorem invN_complete_left : forall k A,
    wfN k A -> belowN q A ->
    (exists B, wfN k B /\ belowN q B /\ mmulN mulN B A = mIN k) ->
    exists B, invert_matN mulN invN k A = Some B.
  Proof.
    intros k A HA Hq [B [HB [HqB HBA]]].
    pose proof (wf_down k A HA) as HwA'. pose proof (wf_down k B HB) as HwB'.
    destruct (GJ_complete_left G zero one add mul inv eqbG eqbG_eq add_comm add_assoc add_0_l
                add_self mul_comm mul_assoc mul_1_l mul_add_distr_l mul_inv_r one_neq_zero
                k (down A) HwA') as [Z HZ].
    - exists (down B). split; [exact HwB'|]. apply up_inj.
      rewrite <- mmulN_up, <- mIN_up, (up_down A Hq), (up_down B HqB). exact HBA.
    - exists (up Z). rewrite <- (up_down A Hq), invN_up, HZ. reflexivity.
  Qed.

  Theorem invN_none_iff_singular : forall k A,
    wfN k A -> belowN q A ->
    (invert_matN mulN invN k A = None <->
     ~ exists B, wfN k B /\ belowN q B /\ mmulN mulN A B = mIN k).
  Proof.
    intros k A HA Hq. split.
    - intros HN HB. destruct (invN_complete k A HA Hq HB) as [B E].
      rewrite E in HN. discriminate HN.
    - intros HN. destruct (invert_matN mulN invN k A) as [B|] eqn:E; [|reflexivity].
      exfalso. apply HN. exists B.
      destruct (invN_sound k A B HA Hq E) as [H1 [H2 [_ H4]]].
      split; [exact H1|]. split; [exact H2|exact H4].
  Qed.

  Theorem invN_unique : forall k A B,
    wfN k A -> belowN q A -> wfN k B -> belowN q B ->
    mmulN mulN B A = mIN k -> invert_matN mulN invN k A = Some B.
  Proof.
    intros k A B HA Hq HB HqB HBA.
    pose proof (wf_down k A HA) as HwA'. pose proof (wf_down k B HB) as HwB'.
    rewrite <- (up_down A Hq), invN_up.
    rewrite (GJ_unique G zero one add mul inv eqbG eqbG_eq add_comm add_assoc add_0_l
               add_self mul_comm mul_assoc mul_1_l mul_add_distr_l mul_inv_r one_neq_zero
               k (down A) (down B) HwA' HwB').
    - cbn [option_map]. rewrite (up_down B HqB). reflexivity.
    - apply up_inj.
      rewrite <- mmulN_up, <- mIN_up, (up_down A Hq), (up_down B HqB). exact HBA.
  Qed.
End Transfer.

(* ---- the instances q = 256 and q = 16 ---- *)
Definition GF_eqb (q : N) (a b : GF q) : bool := N.eqb (val a) (val b).

Lemma GF_eqb_eq : forall q (a b : GF q), GF_eqb q a b = true <-> a = b.
Proof.
  intros q a b. unfold GF_eqb. rewrite N.eqb_eq. split.
  - apply val_inj.
  - intros E. rewrite E. reflexivity.
Qed.

Lemma F256_add_self : forall a, F256_add a a = F256_zero.
Proof. intros a. exact (F256_add_opp_r a). Qed.

Lemma F16_add_self : forall a, F16_add a a = F16_zero.
Proof. intros a. exact (F16_add_opp_r a). Qed.

Ltac gj_field256 :=
  first [ exact (GF_eqb_eq 256) | exact F256_add_comm | exact F256_add_assoc
        | exact F256_add_0_l | exact F256_add_self | exact F256_mul_comm
        | exact F256_mul_assoc | exact F256_mul_1_l | exact F256_mul_add_distr_l
        | exact F256_mul_inv_r | exact F256_one_neq_zero
        | exact F256_val_zero | exact F256_val_one | exact F256_val_add
        | exact F256_val_mul | exact F256_val_inv
        | exact (val_inj 256) | exact F256_val_lt | exact of_N256_val_lt ].

Ltac gj_field16 :=
  first [ exact (GF_eqb_eq 16) | exact F16_add_comm | exact F16_add_assoc
        | exact F16_add_0_l | exact F16_add_self | exact F16_mul_comm
        | exact F16_mul_assoc | exact F16_mul_1_l | exact F16_mul_add_distr_l
        | exact F16_mul_inv_r | exact F16_one_neq_zero
        | exact F16_val_zero | exact F16_val_one | exact F16_val_add
        | exact F16_val_mul | exact F16_val_inv
        | exact (val_inj 16) | exact F16_val_lt | exact of_N16_val_lt ].

(* q = 256 *)
Theorem invert_mat256_sound : forall k A B,
  wfN k A -> belowN 256 A -> invert_mat256 k A = Some B ->
  wfN k B /\ belowN 256 B /\ mmul256 B A = mIN k /\ mmul256 A B = mIN k.
Proof.
  intros k A B HA Hq H. unfold invert_mat256, mmul256 in *.
  apply (invN_sound mul256 inv256 256 (GF 256)
           F256_zero F256_one F256_add F256_mul F256_inv (GF_eqb 256))
    with (phi := @val 256) (psi := of_N256);
    first [gj_field256 | assumption].
Qed.

Theorem invert_mat256_complete : forall k A,
  wfN k A -> belowN 256 A ->
  (exists B, wfN k B /\ belowN 256 B /\ mmul256 A B = mIN k) ->
  exists B, invert_mat256 k A = Some B.
Proof.
  intros k A HA Hq H. unfold invert_mat256, mmul256 in *.
  apply (invN_complete mul256 inv256 256 (GF 256)
           F256_zero F256_one F256_add F256_mul F256_inv (GF_eqb 256))
    with (phi := @val 256) (psi := of_N256);
    first [gj_field256 | assumption].
Qed.

Theorem invert_mat256_complete_left : forall k A,
  wfN k A -> belowN 256 A ->
  (exists B, wfN k B /\ belowN 256 B /\ mmul256 B A = mIN k) ->
  exists B, invert_mat256 k A = Some B.
Proof.
  intros k A HA Hq H. unfold invert_mat256, mmul256 in *.
  apply (invN_complete_left mul256 inv256 256 (GF 256)
           F256_zero F256_one F256_add F256_mul F256_inv (GF_eqb 256))
    with (phi := @val 256) (psi := of_N256);
    first [gj_field256 | assumption].
Qed.

Theorem invert_mat256_none_iff_singular : forall k A,
  wfN k A -> belowN 256 A ->
  (invert_mat256 k A = None <->
   ~ exists B, wfN k B /\ belowN 256 B /\ mmul256 A B = mIN k).
Proof.
  intros k A HA Hq. unfold invert_mat256, mmul256.
  apply (invN_none_iff_singular mul256 inv256 256 (GF 256)
           F256_zero F256_one F256_add F256_mul F256_inv (GF_eqb 256))
    with (phi := @val 256) (psi := of_N256);
    first [gj_field256 | assumption].
Qed.

Theorem invert_mat256_unique : forall k A B,
  wfN k A -> belowN 256 A -> wfN k B -> belowN 256 B ->
  mmul256 B A = mIN k -> invert_mat256 k A = Some B.
Proof.
  intros k A B HA Hq HB HqB H. unfold invert_mat256, mmul256 in *.
  apply (invN_unique mul256 inv256 256 (GF 256)
           F256_zero F256_one F256_add F256_mul F256_inv (GF_eqb 256))
    with (phi := @val 256) (psi := of_N256);
    first [gj_field256 | assumption].
Qed.

(* q = 16 *)
Theorem invert_mat16_sound : forall k A B,
  wfN k A -> belowN 16 A -> invert_mat16 k A = Some B ->
  wfN k B /\ belowN 16 B /\ mmul16 B A = mIN k /\ mmul16 A B = mIN k.
Proof.
  intros k A B HA Hq H. unfold invert_mat16, mmul16 in *.
  apply (invN_sound mul16 inv16 16 (GF 16)
           F16_zero F16_one F16_add F16_mul F16_inv (GF_eqb 16))
    with (phi := @val 16) (psi := of_N16);
    first [gj_field16 | assumption].
Qed.

Theorem invert_mat16_complete : forall k A,
  wfN k A -> belowN 16 A ->
  (exists B, wfN k B /\ belowN 16 B /\ mmul16 A B = mIN k) ->
  exists B, invert_mat16 k A = Some B.
Proof.
  intros k A HA Hq H. unfold invert_mat16, mmul16 in *.
  apply (invN_complete mul16 inv16 16 (GF 16)
           F16_zero F16_one F16_add F16_mul F16_inv (GF_eqb 16))
    with (phi := @val 16) (psi := of_N16);
    first [gj_field16 | assumption].
Qed.

Theorem invert_mat16_complete_left : forall k A,
  wfN k A -> belowN 16 A ->
  (exists B, wfN k B /\ belowN 16 B /\ mmul16 B A = mIN k) ->
  exists B, invert_mat16 k A = Some B.
Proof.
  intros k A HA Hq H. unfold invert_mat16, mmul16 in *.
  apply (invN_complete_left mul16 inv16 16 (GF 16)
           F16_zero F16_one F16_add F16_mul F16_inv (GF_eqb 16))
    with (phi := @val 16) (psi := of_N16);
    first [gj_field16 | assumption].
Qed.

Theorem invert_mat16_none_iff_singular : forall k A,
  wfN k A -> belowN 16 A ->
  (invert_mat16 k A = None <->
   ~ exists B, wfN k B /\ belowN 16 B /\ mmul16 A B = mIN k).
Proof.
  intros k A HA Hq. unfold invert_mat16, mmul16.
  apply (invN_none_iff_singular mul16 inv16 16 (GF 16)
           F16_zero F16_one F16_add F16_mul F16_inv (GF_eqb 16))
    with (phi := @val 16) (psi := of_N16);
    first [gj_field16 | assumption].
Qed.

Theorem invert_mat16_unique : forall k A B,
  wfN k A -> belowN 16 A -> wfN k B -> belowN 16 B ->
  mmul16 B A = mIN k -> invert_mat16 k A = Some B.
Proof.
  intros k A B HA Hq HB HqB H. unfold invert_mat16, mmul16 in *.
  apply (invN_unique mul16 inv16 16 (GF 16)
           F16_zero F16_one F16_add F16_mul F16_inv (GF_eqb 16))
    with (phi := @val 16) (psi := of_N16);
    first [gj_field16 | assumption].
Qed.

(* ------------------------------------------------------------------ *)
(* Part 5: examples                                                    *)
(* ------------------------------------------------------------------ *)
(* 2 x 2 over GF(256): det = 1*4 + 2*3 = 4 + 6 = 2, 1/2 = 142 *)
Example inv256_2x2 : invert_mat256 2 [[1; 2]; [3; 4]] = Some [[2; 1]; [143; 142]].
Proof. vm_compute. reflexivity. Qed.
Example inv256_2x2_check :
  mmul256 [[2; 1]; [143; 142]] [[1; 2]; [3; 4]] = mIN 2 /\
  mmul256 [[1; 2]; [3; 4]] [[2; 1]; [143; 142]] = mIN 2.
Proof. split; vm_compute; reflexivity. Qed.
(* zero diagonal: the full pivot search and the final column swaps are used *)
Example inv256_3x3 :
  invert_mat256 3 [[0; 0; 7]; [0; 5; 1]; [9; 0; 0]]
  = Some [[0; 0; 157]; [128; 167; 0]; [186; 0; 0]].
Proof. vm_compute. reflexivity. Qed.
Example inv256_3x3_check :
  mmul256 [[0; 0; 157]; [128; 167; 0]; [186; 0; 0]] [[0; 0; 7]; [0; 5; 1]; [9; 0; 0]] = mIN 3.
Proof. vm_compute. reflexivity. Qed.
(* a cyclic permutation matrix: its inverse is its transpose *)
Example inv256_perm :
  invert_mat256 3 [[0; 1; 0]; [0; 0; 1]; [1; 0; 0]] = Some [[0; 0; 1]; [1; 0; 0]; [0; 1; 0]].
Proof. vm_compute. reflexivity. Qed.
(* the unit-row shortcut is taken at step 0; in characteristic 2 the matrix is an involution *)
Example inv256_shortcut :
  invert_mat256 3 [[1; 0; 0]; [7; 1; 0]; [0; 0; 1]] = Some [[1; 0; 0]; [7; 1; 0]; [0; 0; 1]].
Proof. vm_compute. reflexivity. Qed.
(* singular: row 2 = row 0 + row 1 *)
Example inv256_singular : invert_mat256 3 [[1; 2; 3]; [4; 5; 6]; [5; 7; 5]] = None.
Proof. vm_compute. reflexivity. Qed.
Example inv256_singular2 : invert_mat256 2 [[2; 4]; [1; 2]] = None.
Proof. vm_compute. reflexivity. Qed.
Example inv256_0x0 : invert_mat256 0 [] = Some [].
Proof. vm_compute. reflexivity. Qed.
Example inv16_2x2 :
  match invert_mat16 2 [[1; 2]; [3; 4]] with
  | Some B => mmul16 B [[1; 2]; [3; 4]] = mIN 2 /\ mmul16 [[1; 2]; [3; 4]] B = mIN 2
  | None => False
  end.
Proof. vm_compute. split; reflexivity. Qed.
Example inv16_singular : invert_mat16 3 [[1; 2; 3]; [4; 5; 6]; [5; 7; 5]] = None.
Proof. vm_compute. reflexivity. Qed.

Print Assumptions GJ_sound.
Print Assumptions GJ_complete.
Print Assumptions GJ_complete_left.
Print Assumptions GJ_none_iff_singular.
Print Assumptions GJ_none_iff_singular_left.
Print Assumptions GJ_unique.
Print Assumptions elim_unit_noop.
Print Assumptions hom_invert_mat.
Print Assumptions invert_mat256_sound.
Print Assumptions invert_mat256_complete.
Print Assumptions invert_mat256_complete_left.
Print Assumptions invert_mat256_none_iff_singular.
Print Assumptions invert_mat256_unique.
Print Assumptions invert_mat16_sound.
Print Assumptions invert_mat16_complete.
Print Assumptions invert_mat16_complete_left.
Print Assumptions invert_mat16_none_iff_singular.
Print Assumptions invert_mat16_unique.
