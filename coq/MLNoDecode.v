(* In an LDPC / 2D session the simplification stage of of_finish_decoding never decodes a symbol.

   The C function of_linear_binary_code_simplify_linear_system_with_a_symbol has a branch "only one
   more symbol in the line: decode it and recurse" (MLModel.simplify: the `None => simplify f ...`
   branch; Events.simplify_ev: the only place that appends to the log).  A coverage measurement shows
   that the C never executes it.  Reason, proved here: the streaming decoder has already consumed every
   equation with exactly one unknown symbol (unless decoding is complete), the preparation sets the
   row counter to the row length, and the injection of a KNOWN symbol does not change the set of
   unknown entries of any row; so when a counter reaches 1 the remaining entry is a known column.

     N1  good_no_single                      a Good, incomplete state has no row with exactly one unknown entry
     N2  simplify_ev_no_log                  injecting a known column: empty log, same table, invariant kept
     N3  ml_finish_ev_simplification_silent  the log of the ML finish = the sources written back by the
                                             Gaussian elimination, in increasing ESI order (or nothing)
         (+ _flag : with the completion flag; _run : on the states of ITProofs.run)
     N4  ml_finish_injection_tab             plain model: the two injection folds leave the table unchanged

   No hypothesis on the symbol values or on the xor; no hypothesis on fuel or on perm. *)
From Coq Require Import List Arith Bool Lia.
From OFV Require Import ListAux ITModel ITLemmas ITProofs DenseSolve MLModel StableTables Events EventsProofs.
Import ListNotations.

(* ============================================================================================== *)
(* Part 1 - the invariant of the simplification and N2 (no matrix, no dimensions)                  *)
(* ============================================================================================== *)
Section Silent.
Variable Sy : Type. Variable sxor : Sy -> Sy -> Sy. Variable s0 : Sy.
Notation st := (st Sy).

(* number of entries of l whose symbol is unknown in s *)
Definition nunk (s : st) (l : list nat) : nat := length (filter (fun c => negb (known s c)) l).

(* the invariant: counters = row lengths, rows without repetition, no row with exactly one unknown entry *)
Record MI (s : st) : Prop := {
  mi_len : length (unk s) = length (rws s);
  mi_nd  : forall i, NoDup (nth i (rws s) []);
  mi_cnt : forall i, i < length (rws s) -> getn (unk s) i = length (nth i (rws s) []);
  mi_ns  : forall i, nunk s (nth i (rws s) []) <> 1 }.

Lemma nd_rm_NoDup c l : NoDup l -> NoDup (rm c l).
Proof. intros H. unfold rm. apply NoDup_filter. exact H. Qed.

Lemma nd_rm_notin c l : ~ In c l -> rm c l = l.
Proof.
  induction l as [|x l IH]; intros Hn; [reflexivity|].
  unfold rm in *. cbn [filter].
  destruct (Nat.eqb_spec x c) as [E|E].
  - exfalso. apply Hn. left. exact E.
  - cbn [negb]. rewrite IH; [reflexivity|]. intros Hin. apply Hn. right. exact Hin.
Qed.

Lemma nd_rm_length c l : NoDup l -> In c l -> length (rm c l) = length l - 1.
Proof.
  induction l as [|x l IH]; intros Hnd Hin; [destruct Hin|].
  inversion Hnd as [|x' l' Hx Hnd']; subst.
  change (rm c (x :: l)) with (if negb (x =? c) then x :: rm c l else rm c l).
  destruct (Nat.eqb_spec x c) as [E|E]; cbn [negb].
  - subst x. rewrite (nd_rm_notin c l Hx). cbn [length]. lia.
  - destruct Hin as [Hin|Hin]; [congruence|].
    cbn [length]. rewrite (IH Hnd' Hin).
    assert (0 < length l) by (destruct l; [destruct Hin|cbn [length]; lia]). lia.
Qed.

(* deleting a known column does not change the unknown entries *)
Lemma nd_rm_unknown (s : st) c l : known s c = true ->
  filter (fun x => negb (known s x)) (rm c l) = filter (fun x => negb (known s x)) l.
Proof.
  intros Hk. induction l as [|x l IH]; [reflexivity|].
  change (rm c (x :: l)) with (if negb (x =? c) then x :: rm c l else rm c l).
  destruct (Nat.eqb_spec x c) as [E|E]; cbn [negb].
  - subst x. cbn [filter]. rewrite Hk. cbn [negb]. exact IH.
  - cbn [filter]. rewrite IH. reflexivity.
Qed.

Lemma nd_nunk_rm (s : st) c l : known s c = true -> nunk s (rm c l) = nunk s l.
Proof. intros Hk. unfold nunk. rewrite (nd_rm_unknown s c l Hk). reflexivity. Qed.

Lemma MI_fields_eq (s s' : st) : rws s' = rws s -> unk s' = unk s -> tab s' = tab s -> MI s -> MI s'.
Proof.
  intros A B T [H1 H2 H3 H4]. constructor.
  - rewrite A, B. exact H1.
  - rewrite A. exact H2.
  - rewrite A, B. exact H3.
  - intros i. rewrite A. unfold nunk.
    rewrite (filter_ext (fun c => negb (known s' c)) (fun c => negb (known s c))).
    + exact (H4 i).
    + intros c. rewrite (known_tab_eq Sy s s' T). reflexivity.
Qed.

Lemma MI_early (s : st) c : MI s -> MI (snd (if r s <=? c then is_complete s else (false, s)))
  /\ tab (snd (if r s <=? c then is_complete s else (false, s))) = tab s
  /\ r (snd (if r s <=? c then is_complete s else (false, s))) = r s
  /\ n (snd (if r s <=? c then is_complete s else (false, s))) = n s.
Proof.
  intros HM. destruct (r s <=? c).
  - unfold is_complete. cbn [snd]. split; [|split; [reflexivity|split; reflexivity]].
    apply (MI_fields_eq s); try reflexivity. exact HM.
  - cbn [snd]. auto.
Qed.

(* one row of the loop of simplify: nothing is decoded *)
Lemma srow_ev_silent (rec : st -> nat -> Sy -> option (st * list nat)) c v (s : st) l row s' l' :
  MI s -> known s c = true -> In c (nth row (rws s) []) ->
  srow_ev Sy sxor rec c v (Some (s, l)) row = Some (s', l') ->
  l' = l /\ tab s' = tab s /\ r s' = r s /\ n s' = n s /\ MI s'
  /\ (forall j, j <> row -> nth j (rws s') [] = nth j (rws s) []).
Proof.
  intros [H1 H2 H3 H4] Hk Hin H. unfold srow_ev in H. cbv zeta in H.
  set (t := match nth row (ct s) None with Some t => sxor t v | None => v end) in *.
  set (u := getn (unk s) row - 1) in *.
  set (rw := rm c (nth row (rws s) [])) in *.
  assert (Hrow : row < length (rws s)).
  { destruct (Nat.lt_ge_cases row (length (rws s))) as [Hlt|Hge]; [exact Hlt|].
    rewrite nth_overflow in Hin by exact Hge. destruct Hin. }
  assert (Hu : u = length rw).
  { unfold u, rw. rewrite (H3 row Hrow). symmetry. apply nd_rm_length; [apply H2|exact Hin]. }
  assert (Hnrw : nunk s rw <> 1).
  { unfold rw. rewrite (nd_nunk_rm s c _ Hk). apply H4. }
  set (s1 := set_row s row rw u (Some t)) in *.
  assert (HM1 : MI s1).
  { constructor.
    - unfold s1. cbn [set_row unk rws]. rewrite !ITLemmas.upd_length. exact H1.
    - intros i. unfold s1. cbn [set_row rws]. rewrite nth_upd_cases.
      destruct ((i =? row) && (row <? length (rws s))); [apply nd_rm_NoDup; apply H2|apply H2].
    - intros i Hi. unfold s1 in *. cbn [set_row unk rws] in *. rewrite ITLemmas.upd_length in Hi.
      unfold getn. rewrite !nth_upd_cases.
      destruct (Nat.eqb_spec i row) as [E|E]; cbn [andb].
      + subst i.
        assert (A : row <? length (unk s) = true) by (apply Nat.ltb_lt; rewrite H1; exact Hrow).
        assert (B : row <? length (rws s) = true) by (apply Nat.ltb_lt; exact Hrow).
        rewrite A, B. exact Hu.
      + exact (H3 i Hi).
    - intros i. change (nunk s1 (nth i (rws s1) [])) with (nunk s (nth i (rws s1) [])).
      unfold s1. cbn [set_row rws]. rewrite nth_upd_cases.
      destruct ((i =? row) && (row <? length (rws s))); [exact Hnrw|apply H4]. }
  assert (Hother : forall j, j <> row -> nth j (rws s1) [] = nth j (rws s) []).
  { intros j Hj. unfold s1. cbn [set_row rws]. rewrite nth_upd_cases.
    destruct (Nat.eqb_spec j row) as [E|E]; [contradiction|reflexivity]. }
  assert (Hsame : l = l /\ tab s1 = tab s /\ r s1 = r s /\ n s1 = n s /\ MI s1
                  /\ (forall j, j <> row -> nth j (rws s1) [] = nth j (rws s) [])).
  { split; [reflexivity|split; [reflexivity|split; [reflexivity|split; [reflexivity|split; [exact HM1|exact Hother]]]]]. }
  destruct (u =? 1) eqn:Eu.
  - apply Nat.eqb_eq in Eu.
    destruct rw as [|c' rest] eqn:Erw; [discriminate|].
    change (tab s1) with (tab s) in H.
    destruct (nth c' (tab s) None) as [w|] eqn:Ec'.
    + injection H as <- <-. exact Hsame.
    + exfalso. apply Hnrw.
      rewrite Eu in Hu. cbn [length] in Hu.
      destruct rest as [|x rest']; [|cbn [length] in Hu; lia].
      unfold nunk. cbn [filter]. unfold known. rewrite Ec'. reflexivity.
  - injection H as <- <-. exact Hsame.
Qed.

Lemma srow_ev_fold_none (rec : st -> nat -> Sy -> option (st * list nat)) c v rows :
  fold_left (srow_ev Sy sxor rec c v) rows None = None.
Proof. induction rows as [|a rows IH]; [reflexivity|exact IH]. Qed.

Lemma srow_ev_fold_silent (rec : st -> nat -> Sy -> option (st * list nat)) c v :
  forall rows (s : st) l s' l', NoDup rows -> MI s -> known s c = true ->
  (forall i, In i rows -> In c (nth i (rws s) [])) ->
  fold_left (srow_ev Sy sxor rec c v) rows (Some (s, l)) = Some (s', l') ->
  l' = l /\ tab s' = tab s /\ r s' = r s /\ n s' = n s /\ MI s'.
Proof.
  induction rows as [|a rows IH]; intros s l s' l' Hnd HM Hk Hrows H.
  - cbn [fold_left] in H. injection H as <- <-. auto.
  - cbn [fold_left] in H. inversion Hnd as [|a' rows' Hna Hnd']; subst.
    destruct (srow_ev Sy sxor rec c v (Some (s, l)) a) as [[s1 l1]|] eqn:E.
    + destruct (srow_ev_silent rec c v s l a s1 l1 HM Hk (Hrows a (or_introl eq_refl)) E)
        as (-> & T1 & R1 & N1 & HM1 & O1).
      assert (Hk1 : known s1 c = true) by (rewrite (known_tab_eq Sy s s1 T1); exact Hk).
      assert (Hrows1 : forall i, In i rows -> In c (nth i (rws s1) [])).
      { intros i Hi. rewrite O1; [apply Hrows; right; exact Hi|]. intros ->. exact (Hna Hi). }
      destruct (IH s1 l s' l' Hnd' HM1 Hk1 Hrows1 H) as (A & B & C & D & F).
      split; [exact A|split; [congruence|split; [congruence|split; [congruence|exact F]]]].
    + rewrite srow_ev_fold_none in H. discriminate.
Qed.

Lemma rows_with_In (s : st) c i : In i (rows_with s c) -> In c (nth i (rws s) []).
Proof.
  unfold rows_with. intros H. apply filter_In in H. destruct H as [_ H].
  apply existsb_exists in H. destruct H as (x & Hx & E). apply Nat.eqb_eq in E. subst x. exact Hx.
Qed.

(* N2: injecting a known column logs nothing, leaves the table alone and keeps the invariant
   (whatever the fuel: the recursive call is never reached) *)
Theorem simplify_ev_no_log fuel (s : st) c v s' l : MI s -> known s c = true ->
  simplify_ev sxor fuel s c v = Some (s', l) ->
  l = [] /\ tab s' = tab s /\ MI s' /\ r s' = r s /\ n s' = n s.
Proof.
  intros HM Hk H. destruct fuel as [|f]; [discriminate|].
  rewrite simplify_ev_unfold in H.
  pose proof (rows_with_In s c) as Hin. pose proof (rows_with_nodup Sy s c) as Hnd.
  destruct (rows_with s c) as [|row0 rowsl].
  - injection H as <- <-. auto.
  - cbv zeta in H. destruct (MI_early s c HM) as (HMe & Te & Re & Ne).
    destruct (fst (if r s <=? c then is_complete s else (false, s))).
    + injection H as <- <-. auto.
    + set (se := snd (if r s <=? c then is_complete s else (false, s))) in *.
      assert (Hke : known se c = true) by (rewrite (known_tab_eq Sy s se Te); exact Hk).
      assert (Hrws : rws se = rws s) by (unfold se; destruct (r s <=? c); reflexivity).
      assert (Hrows : forall i, In i (row0 :: rowsl) -> In c (nth i (rws se) [])).
      { intros i Hi. rewrite Hrws. exact (Hin i Hi). }
      destruct (srow_ev_fold_silent (simplify_ev sxor f) c v (row0 :: rowsl) se [] s' l Hnd HMe Hke Hrows H)
        as (A & B & C & D & F).
      split; [exact A|split; [congruence|split; [exact F|split; congruence]]].
Qed.

(* the same for the plain model *)
Corollary simplify_no_decode fuel (s : st) c v s' : MI s -> known s c = true ->
  simplify sxor fuel s c v = Some s' -> tab s' = tab s /\ MI s' /\ r s' = r s /\ n s' = n s.
Proof.
  intros HM Hk H. destruct (proj1 (proj2 (simplify_ev_sim Sy sxor fuel s c v)) s' H) as (l & Hl).
  destruct (simplify_ev_no_log fuel s c v s' l HM Hk Hl) as (_ & A). exact A.
Qed.

Lemma inject_ev_silent fuel (s : st) l c s' l' : MI s ->
  inject_ev sxor fuel (Some (s, l)) c = Some (s', l') ->
  l' = l /\ tab s' = tab s /\ MI s' /\ r s' = r s /\ n s' = n s.
Proof.
  intros HM H. cbn [inject_ev] in H. destruct (nth c (tab s) None) as [v|] eqn:Ec.
  - destruct (simplify_ev sxor fuel s c v) as [[s2 l2]|] eqn:E; [|discriminate]. injection H as <- <-.
    destruct (simplify_ev_no_log fuel s c v s2 l2 HM (known_nth_some Sy s c v Ec) E) as (-> & A).
    rewrite app_nil_r. split; [reflexivity|exact A].
  - injection H as <- <-. auto.
Qed.

Lemma inject_ev_fold_none fuel cols : fold_left (inject_ev sxor fuel) cols None = None.
Proof. induction cols as [|c cols IH]; [reflexivity|exact IH]. Qed.

Lemma inject_ev_fold_silent fuel : forall cols (s : st) l s' l', MI s ->
  fold_left (inject_ev sxor fuel) cols (Some (s, l)) = Some (s', l') ->
  l' = l /\ tab s' = tab s /\ MI s' /\ r s' = r s /\ n s' = n s.
Proof.
  induction cols as [|c cols IH]; intros s l s' l' HM H.
  - cbn [fold_left] in H. injection H as <- <-. auto.
  - cbn [fold_left] in H. destruct (inject_ev sxor fuel (Some (s, l)) c) as [[s1 l1]|] eqn:E.
    + destruct (inject_ev_silent fuel s l c s1 l1 HM E) as (-> & T1 & HM1 & R1 & N1).
      destruct (IH s1 l s' l' HM1 H) as (A & B & C & D & F).
      split; [exact A|split; [congruence|split; [exact C|split; congruence]]].
    + rewrite inject_ev_fold_none in H. discriminate.
Qed.

(* N3 on the invariant: the whole log of the finish comes from the write-back of the solver *)
Theorem ml_finish_ev_silent_MI fuel perm (s : st) o l : MI (prepar s) ->
  ml_finish_ev sxor s0 fuel perm s = Some (o, l) ->
  l = (if o_solved o
       then filter (fun c => match nth c (tab s) None with None => true | Some _ => false end)
                   (map (fun i => r s + i) (seq 0 (n s - r s)))
       else []).
Proof.
  intros HM H. unfold ml_finish_ev in H. cbv zeta in H.
  set (srcs := map (fun i => r s + i) (seq 0 (n s - r s))) in *.
  rewrite <- fold_left_app in H.
  destruct (fold_left (inject_ev sxor fuel) (srcs ++ perm) (Some (prepar s, []))) as [[s1 l1]|] eqn:Hf; [|discriminate].
  destruct (ml_finish sxor s0 fuel perm s) as [o'|]; [|discriminate].
  injection H as <- <-.
  destruct (inject_ev_fold_silent fuel (srcs ++ perm) (prepar s) [] s1 l1 HM Hf) as (-> & T1 & _).
  change (tab (prepar s)) with (tab s) in T1. rewrite T1. destruct (o_solved o'); reflexivity.
Qed.

(* N4: the state after the two injection folds of ml_finish has the table of s *)
Theorem ml_finish_injection_tab_MI fuel perm (s s1 : st) : MI (prepar s) ->
  fold_left (inject sxor fuel) perm
    (fold_left (inject sxor fuel) (map (fun i => r s + i) (seq 0 (n s - r s))) (Some (prepar s))) = Some s1 ->
  tab s1 = tab s /\ MI s1 /\ r s1 = r s /\ n s1 = n s.
Proof.
  intros HM H. rewrite <- fold_left_app in H.
  pose proof (inject_ev_fold_erase Sy sxor fuel (map (fun i => r s + i) (seq 0 (n s - r s)) ++ perm)
                (Some (prepar s, []))) as He.
  cbn [erase] in He. rewrite H in He. apply erase_some in He. destruct He as (l & Hl).
  destruct (inject_ev_fold_silent fuel _ (prepar s) [] s1 l HM Hl) as (_ & A). exact A.
Qed.
End Silent.

(* ============================================================================================== *)
(* Part 2 - the states of the streaming decoder (ITProofs): N1 and the top-level statements        *)
(* ============================================================================================== *)
Section Session.
Variable Sy : Type. Variable sxor : Sy -> Sy -> Sy. Variable s0 : Sy.
Notation st := (st Sy).
Variable H0 : list (list nat).
Variable R0 N0 : nat.
Hypothesis H0_len : length H0 = R0.
Hypothesis H0_nodup : forall i, i < R0 -> NoDup (nth i H0 []).
Hypothesis H0_range : forall i c, i < R0 -> In c (nth i H0 []) -> c < N0.
Hypothesis H0_deg : forall i, i < R0 -> 2 <= length (nth i H0 []).
Hypothesis R_le_N : R0 <= N0.

Notation WF := (WF Sy R0 N0).
Notation Good := (Good Sy H0 R0 N0).
Notation iscomp := (iscomp Sy R0 N0).

(* shape of the rows of a Good, incomplete state *)
Lemma good_row_shape (s : st) : Good s -> ~ iscomp s -> forall i, i < R0 ->
  (nth i (rws s) [] = nth i H0 [] /\ 2 <= length (Urow H0 (known s) i)) \/ nth i (rws s) [] = [].
Proof.
  intros (W & HG) Hnc i Hi. destruct HG as [Hc|(HI & HN)]; [contradiction|].
  pose proof (HI i Hi) as Hrow. pose proof (HN i Hi) as Hnr. unfold rowinv in Hrow. unfold ready1 in Hnr.
  destruct (nth i (ct s) None) as [t|] eqn:Ect.
  - right. destruct Hrow as (A & B & _ & _).
    destruct (nth i (rws s) []) as [|x [|y rest]] eqn:Er; [reflexivity| |].
    + exfalso. apply Hnr. split; [discriminate|reflexivity].
    + exfalso. rewrite <- A in B. cbn [length] in B. lia.
  - destruct Hrow as [(A & _ & _ & D)|(A & _)]; [left; split; assumption|right; exact A].
Qed.

(* N1 (NoSingle): the streaming decoder leaves no equation with exactly one unknown symbol *)
Theorem good_no_single (s : st) : Good s -> ~ iscomp s -> forall i, i < R0 ->
  length (filter (fun c => negb (known s c)) (nth i (rws s) [])) <> 1.
Proof.
  intros HG Hnc i Hi. destruct (good_row_shape s HG Hnc i Hi) as [(A & D)|A]; rewrite A.
  - change (filter (fun c => negb (known s c)) (nth i H0 [])) with (Urow H0 (known s) i). lia.
  - cbn [filter length]. lia.
Qed.

Lemma not_complete_flag (s : st) : WF s -> fst (is_complete s) = false -> ~ iscomp s.
Proof.
  intros W Hf Hc. pose proof (is_complete_spec Sy H0 R0 N0 H0_len R_le_N s W) as Hs.
  destruct (is_complete s) as [b sx]. cbn [fst] in Hf. destruct Hs as (_ & _ & _ & _ & _ & _ & Hb).
  apply Hb in Hc. congruence.
Qed.

(* N1 with the flag the C tests *)
Corollary good_no_single_flag (s : st) : Good s -> fst (is_complete s) = false -> forall i, i < R0 ->
  length (filter (fun c => negb (known s c)) (nth i (rws s) [])) <> 1.
Proof. intros HG Hf. apply good_no_single; [exact HG|]. exact (not_complete_flag s (proj1 HG) Hf). Qed.

(* the prepared system satisfies the invariant of Part 1 *)
Lemma good_prepar_MI (s : st) : Good s -> ~ iscomp s -> MI Sy (prepar s).
Proof.
  intros HG Hnc. pose proof (proj1 HG) as W.
  assert (Hover : forall i, R0 <= i -> nth i (rws s) [] = []).
  { intros i Hi. apply nth_overflow. rewrite (wf_rws Sy R0 N0 s W). exact Hi. }
  constructor.
  - cbn [prepar unk rws]. apply map_length.
  - intros i. cbn [prepar rws]. destruct (Nat.lt_ge_cases i R0) as [Hi|Hi].
    + destruct (good_row_shape s HG Hnc i Hi) as [(A & _)|A]; rewrite A; [exact (H0_nodup i Hi)|constructor].
    + rewrite (Hover i Hi). constructor.
  - intros i _. cbn [prepar unk rws]. unfold getn. apply nth_map_length.
  - intros i. cbn [prepar rws]. change (nunk Sy (prepar s)) with (nunk Sy s). unfold nunk.
    destruct (Nat.lt_ge_cases i R0) as [Hi|Hi].
    + exact (good_no_single s HG Hnc i Hi).
    + rewrite (Hover i Hi). cbn [filter length]. lia.
Qed.

(* N3: the callback log of of_finish_decoding consists only of the sources recovered by the Gaussian
   elimination, in increasing ESI order; the simplification contributes nothing.
   Any fuel, any perm. *)
Theorem ml_finish_ev_simplification_silent fuel perm (s : st) o l : Good s -> ~ iscomp s ->
  ml_finish_ev sxor s0 fuel perm s = Some (o, l) ->
  l = (if o_solved o
       then filter (fun c => match nth c (tab s) None with None => true | Some _ => false end)
                   (map (fun i => R0 + i) (seq 0 (N0 - R0)))
       else []).
Proof.
  intros HG Hnc H. pose proof (proj1 HG) as W.
  rewrite <- (wf_r Sy R0 N0 s W), <- (wf_n Sy R0 N0 s W).
  exact (ml_finish_ev_silent_MI Sy sxor s0 fuel perm s o l (good_prepar_MI s HG Hnc) H).
Qed.

Corollary ml_finish_ev_simplification_silent_flag fuel perm (s : st) o l : Good s ->
  fst (is_complete s) = false ->
  ml_finish_ev sxor s0 fuel perm s = Some (o, l) ->
  l = (if o_solved o
       then filter (fun c => match nth c (tab s) None with None => true | Some _ => false end)
                   (map (fun i => R0 + i) (seq 0 (N0 - R0)))
       else []).
Proof.
  intros HG Hf. apply ml_finish_ev_simplification_silent; [exact HG|]. exact (not_complete_flag s (proj1 HG) Hf).
Qed.

(* the states of a session *)
Lemma run_good fuel0 (hist : list (nat * Sy)) (s : st) : (forall ev, In ev hist -> fst ev < N0) ->
  run Sy sxor s0 H0 R0 N0 fuel0 hist = Some s -> Good s.
Proof.
  intros Hr Hrun. destruct (init_good Sy sxor s0 H0 R0 N0 H0_len H0_deg R_le_N) as (G0 & K0).
  assert (HS0 : Sound Sy H0 R0 (fun _ => True) (init Sy R0 N0 H0)) by (intros c _; apply peel_recv; exact I).
  destruct (fold_good Sy sxor s0 H0 R0 N0 H0_len H0_nodup H0_range H0_deg R_le_N fuel0 (fun _ => True) hist
              (init Sy R0 N0 H0) s) as (G & _); auto.
Qed.

Corollary run_no_single fuel0 (hist : list (nat * Sy)) (s : st) : (forall ev, In ev hist -> fst ev < N0) ->
  run Sy sxor s0 H0 R0 N0 fuel0 hist = Some s -> fst (is_complete s) = false -> forall i, i < R0 ->
  length (filter (fun c => negb (known s c)) (nth i (rws s) [])) <> 1.
Proof. intros Hr Hrun. apply good_no_single_flag. exact (run_good fuel0 hist s Hr Hrun). Qed.

(* N3 on the states of ITProofs.run *)
Corollary ml_finish_ev_simplification_silent_run fuel0 (hist : list (nat * Sy)) (s : st) fuel perm o l :
  (forall ev, In ev hist -> fst ev < N0) ->
  run Sy sxor s0 H0 R0 N0 fuel0 hist = Some s -> fst (is_complete s) = false ->
  ml_finish_ev sxor s0 fuel perm s = Some (o, l) ->
  l = (if o_solved o
       then filter (fun c => match nth c (tab s) None with None => true | Some _ => false end)
                   (map (fun i => R0 + i) (seq 0 (N0 - R0)))
       else []).
Proof.
  intros Hr Hrun. apply ml_finish_ev_simplification_silent_flag. exact (run_good fuel0 hist s Hr Hrun).
Qed.

(* N4: plain model, the state after the two injection folds of ml_finish has the table of s *)
Theorem ml_finish_injection_tab fuel perm (s s1 : st) : Good s -> ~ iscomp s ->
  fold_left (inject sxor fuel) perm
    (fold_left (inject sxor fuel) (map (fun i => r s + i) (seq 0 (n s - r s))) (Some (prepar s))) = Some s1 ->
  tab s1 = tab s.
Proof.
  intros HG Hnc H.
  exact (proj1 (ml_finish_injection_tab_MI Sy sxor fuel perm s s1 (good_prepar_MI s HG Hnc) H)).
Qed.
End Session.

Print Assumptions good_no_single.
Print Assumptions simplify_ev_no_log.
Print Assumptions ml_finish_ev_simplification_silent.
Print Assumptions ml_finish_ev_simplification_silent_run.
Print Assumptions ml_finish_injection_tab.
