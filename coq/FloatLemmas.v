(* Real-analysis facts about binary64 round-to-nearest used by the float layers of C19 and C20. *)
From Flocq Require Import Core Relative.
From Coq Require Import Reals ZArith Lia Lra Psatz.
Local Open Scope R_scope.

Definition rnd64 := round radix2 (FLT_exp (-1074) 53) ZnearestE.

Lemma pow2_53 : bpow radix2 53 = 9007199254740992.
Proof. rewrite <- IZR_Zpower by lia. reflexivity. Qed.

(* A correctly rounded quotient of integers a/b with a < 2^53 stays strictly between the
   integers enclosing the exact quotient. *)
Lemma quotient_stays_between :
  forall a b m : Z, (0 < a < 2^53)%Z -> (0 < b < 2^53)%Z ->
    (m * b < a < (m + 1) * b)%Z ->
    IZR m < rnd64 (IZR a / IZR b) < IZR (m + 1).
Proof.
  intros a b m Ha Hb Hm.
  assert (Hb' : 0 < IZR b) by (apply IZR_lt; lia).
  assert (Ha' : 0 < IZR a) by (apply IZR_lt; lia).
  set (x := IZR a / IZR b).
  assert (Hx0 : 0 < x) by (unfold x; apply Rdiv_lt_0_compat; assumption).
  assert (Hm0 : (0 <= m)%Z) by nia.
  assert (Hm0' : 0 <= IZR m) by (apply IZR_le; lia).
  assert (Hib : 0 < / IZR b) by (apply Rinv_0_lt_compat; assumption).
  assert (Hlo : IZR m + / IZR b <= x).
  { unfold x. apply Rmult_le_reg_r with (IZR b); [assumption|].
    unfold Rdiv. rewrite Rmult_plus_distr_r, Rmult_assoc, !Rinv_l, Rmult_1_r by lra.
    rewrite <- mult_IZR, <- plus_IZR. apply IZR_le. lia. }
  assert (Hhi : x <= IZR (m+1) - / IZR b).
  { unfold x. apply Rmult_le_reg_r with (IZR b); [assumption|].
    unfold Rdiv, Rminus. rewrite Rmult_plus_distr_r, Rmult_assoc.
    rewrite Ropp_mult_distr_l_reverse, !Rinv_l, Rmult_1_r by lra.
    rewrite <- mult_IZR. rewrite <- opp_IZR, <- plus_IZR. apply IZR_le. lia. }
  assert (Hinvb : / IZR b = x / IZR a) by (unfold x; field; lra).
  assert (Ha53 : IZR a < 9007199254740992) by (apply (IZR_lt a 9007199254740992); lia).
  assert (Hb53 : IZR b < 9007199254740992) by (apply (IZR_lt b 9007199254740992); lia).
  assert (Hxlow : / 9007199254740992 < x).
  { apply Rlt_le_trans with (/ IZR b); [| lra].
    apply Rinv_lt_contravar; [|assumption]. apply Rmult_lt_0_compat; lra. }
  assert (Hxbig : bpow radix2 (-1074 + 53 - 1) <= Rabs x).
  { rewrite Rabs_pos_eq by lra.
    apply Rle_trans with (/ 9007199254740992); [| lra].
    rewrite <- pow2_53, <- bpow_opp. apply bpow_le. lia. }
  pose proof (relative_error_N_FLT radix2 (-1074) 53 ltac:(lia) (fun z => negb (Z.even z)) x Hxbig) as Herr.
  change (round radix2 (FLT_exp (-1074) 53) (Znearest (fun z => negb (Z.even z))) x) with (rnd64 x) in Herr.
  rewrite (Rabs_pos_eq x) in Herr by lra.
  assert (Heps : / 2 * bpow radix2 (-53 + 1) * x < x / IZR a).
  { unfold Rdiv. rewrite (Rmult_comm x). apply Rmult_lt_compat_r; [assumption|].
    assert (Hp : bpow radix2 (-53+1) = / 4503599627370496).
    { change (-53+1)%Z with (-(52))%Z. rewrite bpow_opp. f_equal. }
    rewrite Hp.
    replace (/ 2 * / 4503599627370496) with (/ 9007199254740992) by lra.
    apply Rinv_lt_contravar; [|assumption]. apply Rmult_lt_0_compat; lra. }
  apply Rabs_le_inv in Herr.
  rewrite plus_IZR in *. simpl (IZR 1) in *.
  change (- (53) + 1)%Z with (-53 + 1)%Z in Herr.
  set (E := / 2 * bpow radix2 (-53 + 1) * x) in *. clearbody E.
  rewrite Hinvb in *.
  split; lra.
Qed.

(* integers below 2^53 are binary64 numbers *)
Lemma int_is_double : forall z : Z, (Z.abs z <= 2^53)%Z -> generic_format radix2 (FLT_exp (-1074) 53) (IZR z).
Proof.
  intros z Hz. apply generic_format_FLT.
  destruct (Z.eq_dec (Z.abs z) (2^53)) as [E|NE].
  - destruct (Z.abs_spec z) as [[_ Hz']|[_ Hz']].
    + exists (Float radix2 1 53); [|simpl; lia|simpl; lia].
      unfold F2R; simpl Fnum; simpl Fexp. rewrite pow2_53. replace z with (9007199254740992)%Z by lia. lra.
    + exists (Float radix2 (-1) 53); [|simpl; lia|simpl; lia].
      unfold F2R; simpl Fnum; simpl Fexp. rewrite pow2_53. replace z with (-9007199254740992)%Z by lia. lra.
  - exists (Float radix2 z 0); [unfold F2R; simpl; ring | simpl; lia | simpl; lia].
Qed.

Lemma rnd64_int : forall z : Z, (Z.abs z <= 2^53)%Z -> rnd64 (IZR z) = IZR z.
Proof. intros z Hz. apply round_generic; [apply valid_rnd_N | apply int_is_double, Hz]. Qed.

(* the quotient theorem in floor / ceiling form *)
Lemma rnd64_quotient_floor : forall a b : Z, (0 <= a < 2^53)%Z -> (0 < b < 2^53)%Z ->
  Zfloor (rnd64 (IZR a / IZR b)) = (a / b)%Z.
Proof.
  intros a b Ha Hb.
  pose proof (Z.div_mod a b ltac:(lia)) as Hdm. pose proof (Z.mod_pos_bound a b ltac:(lia)) as Hr.
  assert (Hq : (0 <= a / b)%Z) by (apply Z.div_pos; lia).
  set (q := (a / b)%Z) in *. set (r := (a mod b)%Z) in *. clearbody q r.
  assert (Hb' : IZR b <> 0) by (apply not_0_IZR; lia).
  destruct (Z.eq_dec r 0) as [Hr0|Hr0].
  - assert (Hx : IZR a / IZR b = IZR q).
    { rewrite Hdm, Hr0, Z.add_0_r, mult_IZR. field. exact Hb'. }
    rewrite Hx, rnd64_int; [apply Zfloor_IZR|]. rewrite Z.abs_eq by lia. nia.
  - assert (Hpos : (0 < a)%Z) by lia.
    destruct (quotient_stays_between a b q ltac:(lia) Hb ltac:(lia)) as [H1 H2].
    apply Zfloor_imp. split; [lra|exact H2].
Qed.

Lemma rnd64_quotient_ceil : forall a b : Z, (0 <= a < 2^53)%Z -> (0 < b < 2^53)%Z ->
  Zceil (rnd64 (IZR a / IZR b)) = ((a + b - 1) / b)%Z.
Proof.
  intros a b Ha Hb.
  pose proof (Z.div_mod a b ltac:(lia)) as Hdm. pose proof (Z.mod_pos_bound a b ltac:(lia)) as Hr.
  assert (Hq : (0 <= a / b)%Z) by (apply Z.div_pos; lia).
  set (q := (a / b)%Z) in *. set (r := (a mod b)%Z) in *. clearbody q r.
  assert (Hb' : IZR b <> 0) by (apply not_0_IZR; lia).
  destruct (Z.eq_dec r 0) as [Hr0|Hr0].
  - assert (Hx : IZR a / IZR b = IZR q).
    { rewrite Hdm, Hr0, Z.add_0_r, mult_IZR. field. exact Hb'. }
    rewrite Hx, rnd64_int by (rewrite Z.abs_eq by lia; nia). rewrite Zceil_IZR.
    apply Z.div_unique with (b - 1)%Z; lia.
  - assert (Hpos : (0 < a)%Z) by lia.
    destruct (quotient_stays_between a b q ltac:(lia) Hb ltac:(lia)) as [H1 H2].
    replace ((a + b - 1) / b)%Z with (q + 1)%Z by (apply Z.div_unique with (r - 1)%Z; lia).
    apply Zceil_imp. replace (q + 1 - 1)%Z with q by lia. split; [exact H1|lra].
Qed.
