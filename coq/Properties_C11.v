(* C11 — decoded-source-symbol callback contract, RS part (model of the shared API layer):
   when decoding happens, the callback is invoked once for every source ESI that is still missing,
   in increasing order, never for a received symbol, never without a registered callback.
   The LDPC-Staircase part (IT step 3, ML simplification, ML Gaussian stage as repaired) is covered
   by the correspondence and the C-side oracle only. *)
From Coq Require Import Arith List Bool.
From OFV Require Import ListAux RSApi RSApiProofs.
Import ListNotations.

Theorem rs_callback_events :
  forall (B : Type) (core : nat -> list (option B) -> option (list B)) (cb : bool) (mk : nat -> B -> B) (k n : nat),
  k <= n ->
  forall (s : rs B) vals, length vals = k -> length (tab s) = n -> fin s = false ->
  navail_src s <> rk s -> k <= navail s -> rk s = k -> core k (tab s) = Some vals ->
  evs (fst (rs_finish core cb mk s)) =
  evs s ++ (if cb then filter (fun j => negb (is_some (nth j (tab s) None))) (seq 0 k) else []).
Proof. exact rs_callback_events_proof. Qed.

Print Assumptions rs_callback_events.
