(* C11 — decoded-source-symbol callback contract, RS part (model of the shared API layer):
   when decoding happens, the callback is invoked once for every source ESI that is still missing,
   in increasing order, never for a received symbol, never without a registered callback.
   LDPC-Staircase / 2D part (Events.v: the decoder models with a log of the columns for which the library
   invokes the decoded-symbol callbacks - IT step 3, ML simplification, ML Gaussian stage; EventsProofs.v):
   the logged versions compute exactly the states of the plain models; along any streaming session the log
   has no repetition and lists exactly the columns that are known at the end but were not submitted while
   unknown ("received first") - so one callback per decoded symbol, never for a received one; the finish log
   has no repetition and lists exactly the columns that the finish made known.  The C's callback sequence
   (kind, ESI, order) is compared with the model's log for every session with a registered callback. *)
From Coq Require Import Arith List Bool.
From OFV Require Import ListAux RSApi RSApiProofs ITModel ITProofs MLModel Events EventsProofs MLNoDecode.
Import ListNotations.

Theorem rs_callback_events :
  forall (B : Type) (core : nat -> list (option B) -> option (list B)) (cb : bool) (mk : nat -> B -> B) (k n : nat),
  k <= n ->
  forall (s : rs B) vals, length vals = k -> length (RSApi.tab s) = n -> fin s = false ->
  navail_src s <> rk s -> k <= navail s -> rk s = k -> core k (RSApi.tab s) = Some vals ->
  evs (fst (rs_finish core cb mk s)) =
  evs s ++ (if cb then filter (fun j => negb (is_some (nth j (RSApi.tab s) None))) (seq 0 k) else []).
Proof. exact rs_callback_events_proof. Qed.

Theorem ldpc_logged_models_are_the_models :
  forall (Sy : Type) (sxor : Sy -> Sy -> Sy) (s0 : Sy) (H0 : list (list nat)) (R0 N0 fuel : nat) (hist : list (nat * Sy)),
  erase (run_ev sxor s0 fuel (init Sy R0 N0 H0) hist) = ITProofs.run Sy sxor s0 H0 R0 N0 fuel hist.
Proof. exact run_ev_sim_init. Qed.

Theorem ldpc_finish_logged_model_is_the_model :
  forall (Sy : Type) (sxor : Sy -> Sy -> Sy) (s0 : Sy) (fuel : nat) (perm : list nat) (s : st Sy),
  (forall (o : outcome Sy) (l : list nat), ml_finish_ev sxor s0 fuel perm s = Some (o, l) -> ml_finish sxor s0 fuel perm s = Some o) /\
  (forall o : outcome Sy, ml_finish sxor s0 fuel perm s = Some o -> exists l, ml_finish_ev sxor s0 fuel perm s = Some (o, l)) /\
  (ml_finish sxor s0 fuel perm s = None <-> ml_finish_ev sxor s0 fuel perm s = None).
Proof. exact ml_finish_ev_sim. Qed.

Theorem ldpc_streaming_one_callback_per_decoded_symbol :
  forall (Sy : Type) (sxor : Sy -> Sy -> Sy) (s0 : Sy) (H0 : list (list nat)) (R0 N0 : nat),
  length H0 = R0 -> (forall i, i < R0 -> NoDup (nth i H0 [])) ->
  (forall i c, i < R0 -> In c (nth i H0 []) -> c < N0) -> (forall i, i < R0 -> 2 <= length (nth i H0 [])) -> R0 <= N0 ->
  forall (fuel : nat) (hist : list (nat * Sy)) (sf : st Sy) (l : list nat),
  (forall ev, In ev hist -> fst ev < N0) ->
  run_ev sxor s0 fuel (init Sy R0 N0 H0) hist = Some (sf, l) ->
  let fs := firsts Sy sxor s0 fuel (init Sy R0 N0 H0) hist in
  NoDup l /\ NoDup fs /\ (forall e, ~ (In e l /\ In e fs)) /\
  (forall e, known sf e = true -> In e l \/ In e fs) /\
  (forall e, In e l <-> known sf e = true /\ ~ In e fs) /\
  (forall e, In e fs -> known sf e = true /\ In e (map fst hist)).
Proof. exact run_ev_log. Qed.

Theorem ldpc_finish_one_callback_per_newly_decoded_symbol :
  forall (Sy : Type) (sxor : Sy -> Sy -> Sy) (s0 : Sy) (H0 : list (list nat)) (R0 N0 : nat),
  (forall i c, i < R0 -> In c (nth i H0 []) -> c < N0) ->
  forall (fuel : nat) (perm : list nat) (s : st Sy) (o : outcome Sy) (l : list nat),
  WF Sy R0 N0 s -> (forall i, i < R0 -> incl (nth i (rws s) []) (nth i H0 [])) ->
  ml_finish_ev sxor s0 fuel perm s = Some (o, l) ->
  NoDup l /\ (forall e, In e l -> known s e = false /\ known (o_st o) e = true) /\
  (forall e, known s e = false -> known (o_st o) e = true -> In e l).
Proof. exact ml_finish_ev_log_wf. Qed.

(* In a session the simplification stage of of_finish_decoding never decodes anything: the streaming decoder has consumed every equation
   with a single unknown symbol (the "decode and recurse" branch of of_linear_binary_code_simplify_linear_system_with_a_symbol is dead code
   for every history, which is also what a coverage measurement of the C shows).  Hence the callbacks of of_finish_decoding are exactly the
   sources recovered by the Gaussian elimination, in increasing ESI order, and none when it gives up. *)
Theorem ldpc_finish_callbacks_come_from_the_gaussian_stage :
  forall (Sy : Type) (sxor : Sy -> Sy -> Sy) (s0 : Sy) (H0 : list (list nat)) (R0 N0 : nat),
  length H0 = R0 -> (forall i, i < R0 -> NoDup (nth i H0 [])) ->
  (forall i c, i < R0 -> In c (nth i H0 []) -> c < N0) -> (forall i, i < R0 -> 2 <= length (nth i H0 [])) -> R0 <= N0 ->
  forall (fuel0 : nat) (hist : list (nat * Sy)) (s : st Sy) (fuel : nat) (perm : list nat) (o : outcome Sy) (l : list nat),
  (forall ev, In ev hist -> fst ev < N0) ->
  run Sy sxor s0 H0 R0 N0 fuel0 hist = Some s -> fst (is_complete s) = false ->
  ml_finish_ev sxor s0 fuel perm s = Some (o, l) ->
  l = (if o_solved o
       then filter (fun c => match nth c (tab s) None with None => true | Some _ => false end) (map (fun i => R0 + i) (seq 0 (N0 - R0)))
       else []).
Proof. intros Sy sxor s0 H0 R0 N0 A B C D E. exact (ml_finish_ev_simplification_silent_run Sy sxor s0 H0 R0 N0 A B C D E). Qed.

Print Assumptions ldpc_finish_callbacks_come_from_the_gaussian_stage.
Print Assumptions rs_callback_events.
Print Assumptions ldpc_logged_models_are_the_models.
Print Assumptions ldpc_streaming_one_callback_per_decoded_symbol.
Print Assumptions ldpc_finish_one_callback_per_newly_decoded_symbol.
