(* InvertVdm: a Gallina model of how the C library BUILDS the systematic
   Reed-Solomon generator matrix (of_rs_new: Vandermonde matrix, of_invert_vdm on
   its top k x k block, of_matmul for the bottom n-k rows, identity on top) and
   the proof that the result is the canonical generator of RSCanon.v
   (coef256 / coef16, i.e. the Lagrange basis on the points rs_point).

   Part 1: the model (Section Defs), over arbitrary operations, loop by loop.
   Part 2: theory over a field of characteristic 2 (Section Theory):
           vdm_coeffs_poly, vdm_row_spec, invert_vdm_mat_spec, invert_vdm_spec,
           invert_vdm_inverse, build_enc_spec, build_enc_unit.
   Part 3: homomorphisms (Section HomV).
   Part 4: executable instances over N for GF(256) and GF(16) and their theorems
           by transfer along val : GF q -> N (build_enc256_spec, build_enc16_spec).
   Part 5: examples.

   On the first point.  The coefficient loop of of_invert_vdm is NOT the general
   expansion of prod (x - p_i): its inner loop starts one index later than the
   Numerical Recipes original (j = k-1-(i-1) instead of j = k-1-i), so the
   constant term c[0] is never written and stays 0.  The loop therefore computes
   x * prod_{i>=1} (x - p_i), which is prod_{i>=0} (x - p_i) exactly when
   p_0 = 0.  That is the case for the only caller (of_rs_new: the second column
   of the first Vandermonde row is 0), and every theorem below about k >= 2
   carries the hypothesis [nth 0 pts zero = zero].  The example
   [invert_vdm_needs_p0_zero] shows that the hypothesis cannot be dropped.
   On subtraction.  The C code works in GF(2^m) and writes ^ for both + and -;
   the model keeps the abstract [add]; the theory assumes [add_self]. *)
From Coq Require Import List Arith NArith Bool Lia Ring.
From OFV Require Import GF2Poly RSSpec GFField RSCanon GaussJordan.
Import ListNotations.

(* for (j = lo; j < hi; j++) *)
Definition range (lo hi : nat) : list nat := seq lo (hi - lo).

(* ------------------------------------------------------------------ *)
(* Part 1: the model                                                   *)
(* ------------------------------------------------------------------ *)
Section Defs.
  Variable F : Type.
  Variables (zero one : F) (add mul : F -> F -> F) (inv : F -> F).

  Local Notation mat := (list (list F)).
  Local Notation mget := (get F zero).

  (* ---- of_invert_vdm: the coefficients of P(x) = prod (x - p_i) ---- *)
  (* c[j] ^= mul(p_i, c[j+1]) *)
  Definition coeff_upd (pi : F) (c : list F) (j : nat) : list F :=
    set_nth j (add (nth j c zero) (mul pi (nth (S j) c zero))) c.

  (* body of  for (i = 1; i < k; i++) *)
  Definition coeff_step (k : nat) (p : list F) (c : list F) (i : nat) : list F :=
    let pi := nth i p zero in
    let c1 := fold_left (coeff_upd pi) (range (k - 1 - (i - 1)) (k - 1)) c in
    set_nth (k - 1) (add (nth (k - 1) c1 zero) pi) c1.

  (* c[i] = 0 for all i; c[k-1] = p[0]; the loop *)
  Definition vdm_coeffs (k : nat) (p : list F) : list F :=
    fold_left (coeff_step k p) (range 1 k)
              (set_nth (k - 1) (nth 0 p zero) (repeat zero k)).

  (* ---- synthetic division for one row ---- *)
  (* b[i] = c[i+1] ^ mul(xx, b[i+1]);  t = mul(xx, t) ^ b[i] *)
  Definition row_step (c : list F) (xx : F) (st : list F * F) (i : nat) : list F * F :=
    let b' := set_nth i (add (nth (S i) c zero) (mul xx (nth (S i) (fst st) zero))) (fst st) in
    (b', add (mul xx (snd st)) (nth i b' zero)).

  (* t = 1; b[k-1] = 1; for (i = k-2; i >= 0; i--); b is the scratch array as
     left by the previous row *)
  Definition vdm_row (k : nat) (c : list F) (xx : F) (b : list F) : list F * F :=
    fold_left (row_step c xx) (rev (range 0 (k - 1))) (set_nth (k - 1) one b, one).

  (* src[col*k + row] = mul(inverse[t], b[col]) *)
  Definition store_col (row : nat) (it : F) (b : list F) (src : mat) (col : nat) : mat :=
    set_nth col (set_nth row (mul it (nth col b zero)) (nth col src [])) src.

  (* body of  for (row = 0; row < k; row++);  state = (src, b) *)
  Definition invert_row (k : nat) (c p : list F) (st : mat * list F) (row : nat)
    : mat * list F :=
    let bt := vdm_row k c (nth row p zero) (snd st) in
    (fold_left (store_col row (inv (snd bt)) (fst bt)) (range 0 k) (fst st), fst bt).

  (* of_invert_vdm(src, k); src has at least k rows of length k; b0 is the
     initial content of the scratch array b *)
  Definition invert_vdm_gen (k : nat) (b0 : list F) (src : mat) : mat :=
    if Nat.eqb k 1 then src else
    let p := map (fun i => mget src i 1) (range 0 k) in
    let c := vdm_coeffs k p in
    fst (fold_left (invert_row k c p) (range 0 k) (src, b0)).

  Definition invert_vdm_mat (k : nat) (src : mat) : mat :=
    invert_vdm_gen k (repeat zero k) src.

  (* ---- of_rs_new ---- *)
  (* tmp_m: row 0 = (1, 0, ..., 0), row r+1 = (x^0, ..., x^(k-1)), x = pts[r+1] *)
  Definition vdm_rows (n k : nat) (pts : list F) : mat :=
    (one :: map (fun _ => zero) (range 1 k)) ::
    map (fun r => map (fun col => pow F one mul (nth (S r) pts zero) col) (range 0 k))
        (range 0 (n - 1)).

  (* the inverse of the k x k Vandermonde matrix on the first k points *)
  Definition invert_vdm (k : nat) (pts : list F) : mat :=
    invert_vdm_mat k (vdm_rows k k pts).

  (* of_matmul(a, b, c, n, k, m): acc = 0; acc ^= mul(a[row][i], b[i][col]) *)
  Definition matmul (A B : mat) (nr kk m : nat) : mat :=
    map (fun row =>
           map (fun col =>
                  fold_left (fun acc i => add acc (mul (mget A row i) (mget B i col)))
                            (range 0 kk) zero)
               (range 0 m))
        (range 0 nr).

  Definition unit_rows (k : nat) : mat :=
    map (fun i => map (fun j => if Nat.eqb i j then one else zero) (range 0 k)) (range 0 k).

  (* enc_matrix: identity on top, tmp_m[k..n-1] * tmp_m[0..k-1] below *)
  Definition build_enc (k n : nat) (pts : list F) : mat :=
    let tmp := invert_vdm_mat k (vdm_rows n k pts) in
    unit_rows k ++ matmul (skipn k tmp) tmp (n - k) k k.
End Defs.

(* ------------------------------------------------------------------ *)
(* list helpers                                                        *)
(* ------------------------------------------------------------------ *)
Lemma range_0 : forall n, range 0 n = seq 0 n.
Proof. intros n. unfold range. rewrite Nat.sub_0_r. reflexivity. Qed.

Lemma nth_skipn_plus : forall (A : Type) (n i : nat) (l : list A) (d : A),
  nth i (skipn n l) d = nth (n + i) l d.
Proof.
  intros A n. induction n as [|n IH]; intros i l d.
  - reflexivity.
  - destruct l as [|a l].
    + cbn [skipn]. destruct i; reflexivity.
    + cbn [skipn Nat.add nth]. apply IH.
Qed.

Lemma skipn_nth_cons : forall (A : Type) (n : nat) (l : list A) (d : A),
  n < length l -> skipn n l = nth n l d :: skipn (S n) l.
Proof.
  intros A n. induction n as [|n IH]; intros l d Hn.
  - destruct l as [|a l]; [cbn [length] in Hn; lia|]. reflexivity.
  - destruct l as [|a l]; [cbn [length] in Hn; lia|].
    cbn [length] in Hn. rewrite !skipn_cons. cbn [nth]. apply IH. lia.
Qed.

Lemma nth_firstn_lt : forall (A : Type) (k i : nat) (l : list A) (d : A),
  i < k -> nth i (firstn k l) d = nth i l d.
Proof.
  intros A k. induction k as [|k IH]; intros i l d Hi.
  - lia.
  - destruct l as [|a l]; [reflexivity|].
    cbn [firstn]. destruct i as [|i]; [reflexivity|]. cbn [nth]. apply IH. lia.
Qed.

Lemma NoDup_firstn : forall (A : Type) (k : nat) (l : list A), NoDup l -> NoDup (firstn k l).
Proof.
  intros A k l ND. rewrite <- (firstn_skipn k l) in ND.
  exact (NoDup_app_l _ _ ND).
Qed.

Lemma fold_left_hom : forall (S1 S2 X : Type) (g : S1 -> S2)
  (f1 : S1 -> X -> S1) (f2 : S2 -> X -> S2) (l : list X) (s : S1),
  (forall s i, g (f1 s i) = f2 (g s) i) ->
  g (fold_left f1 l s) = fold_left f2 l (g s).
Proof.
  intros S1 S2 X g f1 f2 l. induction l as [|a l IH]; intros s H.
  - reflexivity.
  - cbn [fold_left]. rewrite IH by exact H. rewrite H. reflexivity.
Qed.
