(* InvertVdm: a Gallina model of how the C library BUILDS the systematic
   Reed-Solomon generator matrix (of_rs_new: Vandermonde matrix, of_invert_vdm on
   its top k x k block, of_matmul for the bottom n-k rows, identity on top) and
   the proof that the result is the canonical generator of RSCanon.v
   (coef256 / coef16, i.e. the Lagrange basis on the points rs_point).

   Part 1: the model (Section Defs), over arbitrary operations, loop by loop.
   Part 2: theory over a field of characteristic 2 (Section Theory):
           vdm_coeffs_poly, vdm_row_spec, invert_vdm_mat_spec, invert_vdm_spec,
           invert_vdm_inverse, build_enc_spec, build_enc_unit.
   Part 3: homomorphisms (Section HomV).
   Part 4: executable instances over N for GF(256) and GF(16) and their theorems
           by transfer along val : GF q -> N (build_enc256_spec, build_enc16_spec).
   Part 5: examples.

   On the first point.  The coefficient loop of of_invert_vdm is NOT the general
   expansion of prod (x - p_i): its inner loop starts one index later than the
   Numerical Recipes original (j = k-1-(i-1) instead of j = k-1-i), so in every
   pass the lowest coefficient of the new product, p_i * (constant term of the
   previous product), is dropped.  Started from x - p_0 the loop therefore
   computes x * prod_{i>=1} (x - p_i) only when p_0 = 0, and that is
   prod_{i>=0} (x - p_i) exactly in this case.  It is the case for the only
   caller (of_rs_new: the second column of the first Vandermonde row is 0), and
   every theorem below about k >= 2 carries the hypothesis
   [nth 0 pts zero = zero].  (For k = 2 the result happens to be right anyway,
   because c[0] is never read.)  The example [invert_vdm_needs_p0_zero] shows on
   the points 1, 2, 4 that the hypothesis cannot be dropped for k = 3.
   On subtraction.  The C code works in GF(2^m) and writes ^ for both + and -;
   the model keeps the abstract [add]; the theory assumes [add_self]. *)
From Coq Require Import List Arith NArith Bool Lia Ring.
From OFV Require Import GF2Poly RSSpec GFField RSCanon GaussJordan.
Import ListNotations.

(* for (j = lo; j < hi; j++) *)
Definition range (lo hi : nat) : list nat := seq lo (hi - lo).

(* ------------------------------------------------------------------ *)
(* Part 1: the model                                                   *)
(* ------------------------------------------------------------------ *)
Section Defs.
  Variable F : Type.
  Variables (zero one : F) (add mul : F -> F -> F) (inv : F -> F).

  Local Notation mat := (list (list F)).
  Local Notation mget := (get F zero).

  (* ---- of_invert_vdm: the coefficients of P(x) = prod (x - p_i) ---- *)
  (* c[j] ^= mul(p_i, c[j+1]) *)
  Definition coeff_upd (pi : F) (c : list F) (j : nat) : list F :=
    set_nth j (add (nth j c zero) (mul pi (nth (S j) c zero))) c.

  (* body of  for (i = 1; i < k; i++) *)
  Definition coeff_step (k : nat) (p : list F) (c : list F) (i : nat) : list F :=
    let pi := nth i p zero in
    let c1 := fold_left (coeff_upd pi) (range (k - 1 - (i - 1)) (k - 1)) c in
    set_nth (k - 1) (add (nth (k - 1) c1 zero) pi) c1.

  (* c[i] = 0 for all i; c[k-1] = p[0]; the loop *)
  Definition vdm_coeffs (k : nat) (p : list F) : list F :=
    fold_left (coeff_step k p) (range 1 k)
              (set_nth (k - 1) (nth 0 p zero) (repeat zero k)).

  (* ---- synthetic division for one row ---- *)
  (* b[i] = c[i+1] ^ mul(xx, b[i+1]);  t = mul(xx, t) ^ b[i] *)
  Definition row_step (c : list F) (xx : F) (st : list F * F) (i : nat) : list F * F :=
    let b' := set_nth i (add (nth (S i) c zero) (mul xx (nth (S i) (fst st) zero))) (fst st) in
    (b', add (mul xx (snd st)) (nth i b' zero)).

  (* t = 1; b[k-1] = 1; for (i = k-2; i >= 0; i--); b is the scratch array as
     left by the previous row *)
  Definition vdm_row (k : nat) (c : list F) (xx : F) (b : list F) : list F * F :=
    fold_left (row_step c xx) (rev (range 0 (k - 1))) (set_nth (k - 1) one b, one).

  (* src[col*k + row] = mul(inverse[t], b[col]) *)
  Definition store_col (row : nat) (it : F) (b : list F) (src : mat) (col : nat) : mat :=
    set_nth col (set_nth row (mul it (nth col b zero)) (nth col src [])) src.

  (* body of  for (row = 0; row < k; row++);  state = (src, b) *)
  Definition invert_row (k : nat) (c p : list F) (st : mat * list F) (row : nat)
    : mat * list F :=
    let bt := vdm_row k c (nth row p zero) (snd st) in
    (fold_left (store_col row (inv (snd bt)) (fst bt)) (range 0 k) (fst st), fst bt).

  (* of_invert_vdm(src, k); src has at least k rows of length k; b0 is the
     initial content of the scratch array b *)
  Definition invert_vdm_gen (k : nat) (b0 : list F) (src : mat) : mat :=
    if Nat.eqb k 1 then src else
    let p := map (fun i => mget src i 1) (range 0 k) in
    let c := vdm_coeffs k p in
    fst (fold_left (invert_row k c p) (range 0 k) (src, b0)).

  Definition invert_vdm_mat (k : nat) (src : mat) : mat :=
    invert_vdm_gen k (repeat zero k) src.

  (* ---- of_rs_new ---- *)
  (* tmp_m: row 0 = (1, 0, ..., 0), row r+1 = (x^0, ..., x^(k-1)), x = pts[r+1] *)
  Definition vdm_rows (n k : nat) (pts : list F) : mat :=
    (one :: map (fun _ => zero) (range 1 k)) ::
    map (fun r => map (fun col => pow F one mul (nth (S r) pts zero) col) (range 0 k))
        (range 0 (n - 1)).

  (* the inverse of the k x k Vandermonde matrix on the first k points *)
  Definition invert_vdm (k : nat) (pts : list F) : mat :=
    invert_vdm_mat k (vdm_rows k k pts).

  (* of_matmul(a, b, c, n, k, m): acc = 0; acc ^= mul(a[row][i], b[i][col]) *)
  Definition matmul (A B : mat) (nr kk m : nat) : mat :=
    map (fun row =>
           map (fun col =>
                  fold_left (fun acc i => add acc (mul (mget A row i) (mget B i col)))
                            (range 0 kk) zero)
               (range 0 m))
        (range 0 nr).

  Definition unit_rows (k : nat) : mat :=
    map (fun i => map (fun j => if Nat.eqb i j then one else zero) (range 0 k)) (range 0 k).

  (* enc_matrix: identity on top, tmp_m[k..n-1] * tmp_m[0..k-1] below *)
  Definition build_enc (k n : nat) (pts : list F) : mat :=
    let tmp := invert_vdm_mat k (vdm_rows n k pts) in
    unit_rows k ++ matmul (skipn k tmp) tmp (n - k) k k.
End Defs.

(* ------------------------------------------------------------------ *)
(* list helpers                                                        *)
(* ------------------------------------------------------------------ *)
Lemma range_0 : forall n, range 0 n = seq 0 n.
Proof. intros n. unfold range. rewrite Nat.sub_0_r. reflexivity. Qed.

Lemma nth_skipn_plus : forall (A : Type) (n i : nat) (l : list A) (d : A),
  nth i (skipn n l) d = nth (n + i) l d.
Proof.
  intros A n. induction n as [|n IH]; intros i l d.
  - reflexivity.
  - destruct l as [|a l].
    + cbn [skipn]. destruct i; reflexivity.
    + cbn [skipn Nat.add nth]. apply IH.
Qed.

Lemma skipn_nth_cons : forall (A : Type) (n : nat) (l : list A) (d : A),
  n < length l -> skipn n l = nth n l d :: skipn (S n) l.
Proof.
  intros A n. induction n as [|n IH]; intros l d Hn.
  - destruct l as [|a l]; [cbn [length] in Hn; lia|]. reflexivity.
  - destruct l as [|a l]; [cbn [length] in Hn; lia|].
    cbn [length] in Hn. rewrite !skipn_cons. cbn [nth]. apply IH. lia.
Qed.

Lemma nth_firstn_lt : forall (A : Type) (k i : nat) (l : list A) (d : A),
  i < k -> nth i (firstn k l) d = nth i l d.
Proof.
  intros A k. induction k as [|k IH]; intros i l d Hi.
  - lia.
  - destruct l as [|a l]; [reflexivity|].
    cbn [firstn]. destruct i as [|i]; [reflexivity|]. cbn [nth]. apply IH. lia.
Qed.

Lemma NoDup_firstn : forall (A : Type) (k : nat) (l : list A), NoDup l -> NoDup (firstn k l).
Proof.
  intros A k l ND. rewrite <- (firstn_skipn k l) in ND.
  exact (NoDup_app_l _ _ ND).
Qed.

Lemma fold_left_hom : forall (S1 S2 X : Type) (g : S1 -> S2)
  (f1 : S1 -> X -> S1) (f2 : S2 -> X -> S2) (l : list X) (s : S1),
  (forall s i, g (f1 s i) = f2 (g s) i) ->
  g (fold_left f1 l s) = fold_left f2 l (g s).
Proof.
  intros S1 S2 X g f1 f2 l. induction l as [|a l IH]; intros s H.
  - reflexivity.
  - cbn [fold_left]. rewrite IH by exact H. rewrite H. reflexivity.
Qed.

(* ------------------------------------------------------------------ *)
(* Part 2: theory over a field of characteristic 2                     *)
(* ------------------------------------------------------------------ *)
Section Theory.
  Variable F : Type.
  Variables (zero one : F) (add mul : F -> F -> F) (opp inv : F -> F).

  Hypothesis eq_dec : forall a b : F, {a = b} + {a <> b}.
  Hypothesis add_comm : forall a b, add a b = add b a.
  Hypothesis add_assoc : forall a b c, add a (add b c) = add (add a b) c.
  Hypothesis add_0_l : forall a, add zero a = a.
  Hypothesis add_opp_r : forall a, add a (opp a) = zero.
  Hypothesis add_self : forall a, add a a = zero.
  Hypothesis mul_comm : forall a b, mul a b = mul b a.
  Hypothesis mul_assoc : forall a b c, mul a (mul b c) = mul (mul a b) c.
  Hypothesis mul_1_l : forall a, mul one a = a.
  Hypothesis mul_add_distr_l : forall a b c, mul a (add b c) = add (mul a b) (mul a c).
  Hypothesis mul_inv_r : forall a, a <> zero -> mul a (inv a) = one.
  Hypothesis one_neq_zero : one <> zero.

  Local Notation mat := (list (list F)).
  Local Notation mget := (get F zero).
  Local Notation fsub := (sub F add opp).
  Local Notation pe := (peval F zero add mul).
  Local Notation fpow := (pow F one mul).
  Local Notation fsum := (sum F zero add).
  Local Notation fprod := (prod F one mul).
  Local Notation flagr := (lagr F zero one add mul opp inv).
  Local Notation flagr_poly := (lagr_poly F zero one add mul opp inv).
  Local Notation fpscale := (pscale F mul).
  Local Notation fpadd := (padd F add).
  Local Notation fpmul_lin := (pmul_lin F zero add mul).
  Local Notation fquot := (quot F zero add mul).
  Local Notation fcoeff_upd := (coeff_upd F zero add mul).
  Local Notation fcoeff_step := (coeff_step F zero add mul).
  Local Notation fvdm_coeffs := (vdm_coeffs F zero add mul).
  Local Notation frow_step := (row_step F zero add mul).
  Local Notation fvdm_row := (vdm_row F zero one add mul).
  Local Notation fstore_col := (store_col F zero mul).
  Local Notation finvert_row := (invert_row F zero one add mul inv).
  Local Notation finvert_vdm_gen := (invert_vdm_gen F zero one add mul inv).
  Local Notation finvert_vdm_mat := (invert_vdm_mat F zero one add mul inv).
  Local Notation fvdm_rows := (vdm_rows F zero one mul).
  Local Notation finvert_vdm := (invert_vdm F zero one add mul inv).
  Local Notation fmatmul := (matmul F zero add mul).
  Local Notation funit_rows := (unit_rows F zero one).
  Local Notation fbuild_enc := (build_enc F zero one add mul inv).

  Add Ring InvertVdm_ring :
    (F_ring F zero one add mul opp add_comm add_assoc add_0_l add_opp_r
            mul_comm mul_assoc mul_1_l mul_add_distr_l).

  Lemma opp_id : forall a, opp a = a.
  Proof.
    intros a.
    assert (E : opp a = add (add a a) (opp a)) by (rewrite add_self; ring).
    rewrite E. transitivity (add a (add a (opp a))); [ring|].
    rewrite add_opp_r. ring.
  Qed.

  Lemma sub_is_add : forall a b, fsub a b = add a b.
  Proof. intros a b. unfold sub. rewrite opp_id. reflexivity. Qed.

  (* ---- coefficients of the auxiliary polynomial operations ---- *)
  Lemma nth_pscale : forall c p m, nth m (fpscale c p) zero = mul c (nth m p zero).
  Proof.
    intros c p. unfold pscale. induction p as [|a p IH]; intros m.
    - destruct m; cbn [map nth]; ring.
    - destruct m as [|m]; cbn [map nth]; [reflexivity|apply IH].
  Qed.

  Lemma nth_padd : forall p q m,
    nth m (fpadd p q) zero = add (nth m p zero) (nth m q zero).
  Proof.
    intros p. induction p as [|a p IH]; intros q m.
    - cbn [padd]. destruct m; cbn [nth]; ring.
    - destruct q as [|b q].
      + cbn [padd]. destruct m; cbn [nth]; ring.
      + cbn [padd]. destruct m as [|m]; cbn [nth]; [reflexivity|apply IH].
  Qed.

  Lemma nth_pmul_lin : forall a q m,
    nth m (fpmul_lin a one q) zero
    = add (mul a (nth m q zero)) (match m with O => zero | S m' => nth m' q zero end).
  Proof.
    intros a q m. unfold pmul_lin. rewrite nth_padd, nth_pscale.
    destruct m as [|m]; cbn [nth]; [reflexivity|].
    rewrite nth_pscale. ring.
  Qed.

  (* prod (a_i + X) over the list, as a coefficient list *)
  Definition linprod (l : list F) : list F :=
    fold_right (fun a acc => fpmul_lin a one acc) [one] l.

  Lemma linprod_length : forall l, length (linprod l) = S (length l).
  Proof.
    intros l. induction l as [|a l IH].
    - reflexivity.
    - cbn [linprod fold_right length].
      rewrite (pmul_lin_length F zero add mul). fold (linprod l). rewrite IH. reflexivity.
  Qed.

  Lemma peval_linprod : forall l x,
    pe (linprod l) x = fprod (map (fun a => add a x) l).
  Proof.
    intros l x. induction l as [|a l IH].
    - cbn. ring.
    - cbn [linprod fold_right map].
      rewrite (peval_pmul_lin F zero one add mul opp add_comm add_assoc add_0_l add_opp_r
                 mul_comm mul_assoc mul_1_l mul_add_distr_l).
      fold (linprod l). rewrite IH.
      change (fprod (add a x :: map (fun a0 => add a0 x) l))
        with (mul (add a x) (fprod (map (fun a0 => add a0 x) l))).
      ring.
  Qed.

  (* ---- the array c extended by the implicit leading coefficient c[k] = 1 ---- *)
  Lemma ext_lt : forall (c : list F) j, j < length c -> nth j (c ++ [one]) zero = nth j c zero.
  Proof. intros c j Hj. apply app_nth1. exact Hj. Qed.

  Lemma ext_eq : forall (c : list F) k, length c = k -> nth k (c ++ [one]) zero = one.
  Proof.
    intros c k HL. subst k. rewrite app_nth2 by lia. rewrite Nat.sub_diag. reflexivity.
  Qed.

  Lemma ext_gt : forall (c : list F) j, length c < j -> nth j (c ++ [one]) zero = zero.
  Proof.
    intros c j Hj. apply nth_overflow. rewrite app_length. cbn [length]. lia.
  Qed.

  (* ---- the inner loop  for (j = lo; j < lo + cnt; j++) c[j] ^= p_i * c[j+1] ---- *)
  Lemma coeff_inner_spec : forall pi cnt lo c,
    lo + cnt <= length c ->
    length (fold_left (fcoeff_upd pi) (seq lo cnt) c) = length c /\
    (forall j, lo <= j < lo + cnt ->
       nth j (fold_left (fcoeff_upd pi) (seq lo cnt) c) zero
       = add (nth j c zero) (mul pi (nth (S j) c zero))) /\
    (forall j, j < lo \/ lo + cnt <= j ->
       nth j (fold_left (fcoeff_upd pi) (seq lo cnt) c) zero = nth j c zero).
  Proof.
    intros pi cnt. induction cnt as [|cnt IH]; intros lo c Hl.
    - cbn [seq fold_left]. split; [reflexivity|]. split.
      + intros j Hj. lia.
      + intros j _. reflexivity.
    - cbn [seq fold_left].
      assert (Hlen : length (fcoeff_upd pi c lo) = length c).
      { unfold coeff_upd. apply set_nth_length. }
      destruct (IH (S lo) (fcoeff_upd pi c lo)) as [H1 [H2 H3]]; [rewrite Hlen; lia|].
      assert (Hother : forall j, j <> lo -> nth j (fcoeff_upd pi c lo) zero = nth j c zero).
      { intros j Hj. unfold coeff_upd. apply nth_set_nth_neq. exact Hj. }
      split; [rewrite H1; exact Hlen|]. split.
      + intros j Hj. destruct (Nat.eq_dec j lo) as [E|NE].
        * subst j. rewrite H3 by lia. unfold coeff_upd. apply nth_set_nth_eq. lia.
        * rewrite H2 by lia. rewrite !Hother by lia. reflexivity.
      + intros j Hj. rewrite H3 by lia. apply Hother. lia.
  Qed.

  (* ---- one pass of the outer loop, on the extended array ---- *)
  Lemma coeff_step_spec : forall k p c i,
    length c = k -> 1 <= i < k ->
    (forall j, j <= k - i -> nth j (c ++ [one]) zero = zero) ->
    length (fcoeff_step k p c i) = k /\
    forall j, nth j (fcoeff_step k p c i ++ [one]) zero
              = add (nth j (c ++ [one]) zero)
                    (mul (nth i p zero) (nth (S j) (c ++ [one]) zero)).
  Proof.
    intros k p c i HL Hi Hz. unfold coeff_step. cbv zeta.
    set (pi := nth i p zero).
    assert (Er : range (k - 1 - (i - 1)) (k - 1) = seq (k - i) (i - 1)).
    { unfold range. f_equal; lia. }
    rewrite Er.
    destruct (coeff_inner_spec pi (i - 1) (k - i) c) as [H1 [H2 H3]]; [lia|].
    set (c1 := fold_left (fcoeff_upd pi) (seq (k - i) (i - 1)) c) in *.
    assert (HL' : length (set_nth (k - 1) (add (nth (k - 1) c1 zero) pi) c1) = k).
    { rewrite set_nth_length, H1. exact HL. }
    split; [exact HL'|].
    intros j.
    destruct (lt_dec j k) as [Hjk|Hjk].
    - rewrite ext_lt by lia. rewrite (ext_lt c j) by lia.
      destruct (Nat.eq_dec j (k - 1)) as [E|NE].
      + rewrite E. rewrite nth_set_nth_eq by lia.
        rewrite H3 by lia.
        replace (S (k - 1)) with k by lia. rewrite (ext_eq c k HL). ring.
      + rewrite nth_set_nth_neq by exact NE.
        rewrite (ext_lt c (S j)) by lia.
        destruct (lt_dec j (k - i)) as [Hlo|Hlo].
        * rewrite H3 by lia.
          pose proof (Hz j) as Z1. pose proof (Hz (S j)) as Z2.
          rewrite ext_lt in Z1 by lia. rewrite ext_lt in Z2 by lia.
          rewrite Z1, Z2 by lia. ring.
        * rewrite H2 by lia. reflexivity.
    - destruct (Nat.eq_dec j k) as [E|NE].
      + subst j. rewrite (ext_eq _ k HL'), (ext_eq c k HL).
        rewrite (ext_gt c (S k)) by lia. ring.
      + rewrite ext_gt by lia. rewrite (ext_gt c j) by lia.
        rewrite (ext_gt c (S j)) by lia. ring.
  Qed.

  (* ---- the outer loop: after the passes i = 1 .. m the array holds
     prod_{1 <= l <= m} (p_l + X), right-aligned, provided p_0 = 0 ---- *)
  Definition pts_upto (p : list F) (m : nat) : list F :=
    rev (map (fun l => nth l p zero) (seq 1 m)).

  Lemma coeffs_inv : forall k p, nth 0 p zero = zero -> forall m, m < k ->
    let c := fold_left (fcoeff_step k p) (seq 1 m)
                       (set_nth (k - 1) (nth 0 p zero) (repeat zero k)) in
    length c = k /\
    (forall j, j < k - m -> nth j (c ++ [one]) zero = zero) /\
    (forall t, nth (k - m + t) (c ++ [one]) zero = nth t (linprod (pts_upto p m)) zero).
  Proof.
    intros k p Hp0 m. induction m as [|m IH]; intros Hm; cbv zeta.
    - cbn [seq fold_left]. rewrite Hp0.
      set (c0 := set_nth (k - 1) zero (repeat zero k)).
      assert (HL0 : length c0 = k).
      { unfold c0. rewrite set_nth_length. apply repeat_length. }
      assert (Hc0 : forall j, nth j c0 zero = zero).
      { intros j. unfold c0. destruct (Nat.eq_dec j (k - 1)) as [E|NE].
        - rewrite E. apply nth_set_nth_eq. rewrite repeat_length. lia.
        - rewrite nth_set_nth_neq by exact NE.
          destruct (lt_dec j k) as [Hj|Hj].
          + apply nth_repeat.
          + apply nth_overflow. rewrite repeat_length. lia. }
      split; [exact HL0|]. split.
      + intros j Hj. rewrite ext_lt by lia. apply Hc0.
      + intros t. rewrite Nat.sub_0_r. unfold pts_upto. cbn [seq map rev linprod fold_right].
        destruct t as [|t].
        * rewrite Nat.add_0_r. rewrite (ext_eq c0 k HL0). reflexivity.
        * rewrite ext_gt by lia. cbn [nth]. destruct t; reflexivity.
    - destruct (IH ltac:(lia)) as [HL [Hz Hq]]. clear IH.
      rewrite seq_S, fold_left_app. cbn [fold_left].
      set (c := fold_left (fcoeff_step k p) (seq 1 m)
                          (set_nth (k - 1) (nth 0 p zero) (repeat zero k))) in *.
      replace (1 + m) with (S m) by lia.
      destruct (coeff_step_spec k p c (S m) HL) as [HL' Hstep]; [lia| |].
      { intros j Hj. apply Hz. lia. }
      split; [exact HL'|]. split.
      + intros j Hj. rewrite Hstep, (Hz j), (Hz (S j)) by lia. ring.
      + intros t. rewrite Hstep.
        assert (EQ : linprod (pts_upto p (S m))
                     = fpmul_lin (nth (S m) p zero) one (linprod (pts_upto p m))).
        { unfold pts_upto. rewrite seq_S, map_app, rev_app_distr. reflexivity. }
        rewrite EQ, nth_pmul_lin.
        replace (S (k - S m + t)) with (k - m + t) by lia. rewrite Hq.
        destruct t as [|t].
        * rewrite (Hz (k - S m + 0)) by lia. ring.
        * replace (k - S m + S t) with (k - m + t) by lia. rewrite Hq. ring.
  Qed.

  (* the coefficient array, extended by c[k] = 1, is X * prod_{1<=l<k} (p_l + X) *)
  Theorem vdm_coeffs_poly : forall k p, 1 <= k -> nth 0 p zero = zero ->
    length (fvdm_coeffs k p) = k /\
    fvdm_coeffs k p ++ [one] = zero :: linprod (pts_upto p (k - 1)).
  Proof.
    intros k p Hk Hp0. unfold vdm_coeffs.
    assert (Er : range 1 k = seq 1 (k - 1)) by reflexivity. rewrite Er.
    destruct (coeffs_inv k p Hp0 (k - 1)) as [HL [Hz Hq]]; [lia|].
    set (c := fold_left (fcoeff_step k p) (seq 1 (k - 1))
                        (set_nth (k - 1) (nth 0 p zero) (repeat zero k))) in *.
    split; [exact HL|].
    apply (nth_ext _ _ zero zero).
    - rewrite app_length. cbn [length]. rewrite linprod_length.
      unfold pts_upto. rewrite rev_length, map_length, seq_length. lia.
    - intros j _. destruct j as [|j].
      + cbn [nth]. apply Hz. lia.
      + cbn [nth]. rewrite <- Hq. f_equal. lia.
  Qed.

  Lemma peval_vdm_coeffs : forall k p x, 1 <= k -> nth 0 p zero = zero ->
    pe (fvdm_coeffs k p ++ [one]) x
    = mul x (fprod (map (fun a => add a x) (pts_upto p (k - 1)))).
  Proof.
    intros k p x Hk Hp0. destruct (vdm_coeffs_poly k p Hk Hp0) as [_ E].
    rewrite E. change (pe (zero :: ?q) x) with (add zero (mul x (pe q x))).
    rewrite peval_linprod. ring.
  Qed.

  (* P vanishes on p_0 .. p_(k-1) *)
  Lemma vdm_coeffs_roots : forall k p l, 1 <= k -> nth 0 p zero = zero -> l < k ->
    pe (fvdm_coeffs k p ++ [one]) (nth l p zero) = zero.
  Proof.
    intros k p l Hk Hp0 Hl. rewrite peval_vdm_coeffs by assumption.
    destruct l as [|l].
    - rewrite Hp0. ring.
    - rewrite (prod_has_zero F zero one add mul opp add_comm add_assoc add_0_l add_opp_r
                 mul_comm mul_assoc mul_1_l mul_add_distr_l).
      + ring.
      + apply in_map_iff. exists (nth (S l) p zero). split; [apply add_self|].
        unfold pts_upto. apply in_rev. rewrite rev_involutive.
        apply in_map_iff. exists (S l). split; [reflexivity|]. apply in_seq. lia.
  Qed.

  (* ---- synthetic division ---- *)
  Lemma quot_nth_rec : forall p a i,
    nth i (fquot p a) zero
    = add (nth (S i) p zero) (mul a (nth (S i) (fquot p a) zero)).
  Proof.
    intros p a. induction p as [|c p IH]; intros i.
    - cbn [quot nth]. destruct i; ring.
    - destruct p as [|d p].
      + cbn [quot nth]. destruct i; ring.
      + rewrite (quot_cons2 F zero add mul). destruct i as [|i].
        * cbn [nth].
          change (pe (d :: p) a) with (add d (mul a (pe p a))).
          destruct p as [|e p].
          -- cbn [quot nth peval fold_right]. ring.
          -- rewrite (quot_cons2 F zero add mul). cbn [nth]. reflexivity.
        * cbn [nth]. rewrite IH. reflexivity.
  Qed.

  (* the loop  for (i = m-1; i >= 0; i--)  of vdm_row *)
  Lemma row_loop_spec : forall k c xx, length c = k ->
    forall m b t, m < k -> length b = k ->
      (forall j, m <= j -> nth j b zero = nth j (fquot (c ++ [one]) xx) zero) ->
      t = pe (skipn m (fquot (c ++ [one]) xx)) xx ->
      fold_left (frow_step c xx) (rev (seq 0 m)) (b, t)
      = (fquot (c ++ [one]) xx, pe (fquot (c ++ [one]) xx) xx).
  Proof.
    intros k c xx HL.
    assert (HLQ : length (fquot (c ++ [one]) xx) = k).
    { rewrite (quot_length F zero add mul), app_length. cbn [length]. lia. }
    set (Q := fquot (c ++ [one]) xx) in *.
    intros m. induction m as [|m IH]; intros b t Hm HLb Hb Ht.
    - cbn [seq rev fold_left]. f_equal.
      + apply (nth_ext _ _ zero zero); [lia|]. intros j _. apply Hb. lia.
      + rewrite Ht. reflexivity.
    - rewrite seq_S, rev_app_distr. cbn [rev app fold_left Nat.add].
      unfold row_step at 2. cbn [fst snd].
      assert (Ebm : add (nth (S m) c zero) (mul xx (nth (S m) b zero)) = nth m Q zero).
      { unfold Q. rewrite quot_nth_rec. fold Q. rewrite (Hb (S m)) by lia.
        rewrite ext_lt by lia. reflexivity. }
      rewrite Ebm.
      apply IH.
      + lia.
      + rewrite set_nth_length. exact HLb.
      + intros j Hj. destruct (Nat.eq_dec j m) as [E|NE].
        * subst j. apply nth_set_nth_eq. lia.
        * rewrite nth_set_nth_neq by exact NE. apply Hb. lia.
      + rewrite nth_set_nth_eq by lia.
        rewrite (skipn_nth_cons F m Q zero) by lia.
        change (pe (nth m Q zero :: skipn (S m) Q) xx)
          with (add (nth m Q zero) (mul xx (pe (skipn (S m) Q) xx))).
        rewrite Ht. ring.
  Qed.

  (* b = P / (X - xx) and t = (P / (X - xx))(xx), whatever b contained before *)
  Theorem vdm_row_spec : forall k c xx b, 1 <= k -> length c = k -> length b = k ->
    fvdm_row k c xx b = (fquot (c ++ [one]) xx, pe (fquot (c ++ [one]) xx) xx).
  Proof.
    intros k c xx b Hk HL HLb. unfold vdm_row. rewrite range_0.
    assert (HLQ : length (fquot (c ++ [one]) xx) = k).
    { rewrite (quot_length F zero add mul), app_length. cbn [length]. lia. }
    assert (Elast : nth (k - 1) (fquot (c ++ [one]) xx) zero = one).
    { rewrite quot_nth_rec. replace (S (k - 1)) with k by lia.
      rewrite (ext_eq c k HL). rewrite (nth_overflow (fquot _ _)) by lia. ring. }
    apply (row_loop_spec k c xx HL).
    - lia.
    - rewrite set_nth_length. exact HLb.
    - intros j Hj. destruct (Nat.eq_dec j (k - 1)) as [E|NE].
      + rewrite E, Elast. apply nth_set_nth_eq. lia.
      + rewrite nth_set_nth_neq by exact NE.
        rewrite !nth_overflow by lia. reflexivity.
    - rewrite (skipn_nth_cons F (k - 1) _ zero) by lia.
      replace (S (k - 1)) with k by lia.
      rewrite skipn_all2 by lia. rewrite Elast. cbn [peval fold_right]. ring.
  Qed.

  (* ---- the facts of RSSpec.v, specialised to the present field ---- *)
  Lemma T_quot_spec : forall p a x,
    pe p x = add (pe p a) (mul (fsub x a) (pe (fquot p a) x)).
  Proof. apply (quot_spec F zero one add mul opp); assumption. Qed.

  Lemma T_quot_length : forall p a, length (fquot p a) = pred (length p).
  Proof. apply (quot_length F zero add mul). Qed.

  Lemma T_mul_eq_zero : forall a b, mul a b = zero -> a = zero \/ b = zero.
  Proof. apply (mul_eq_zero F zero one add mul opp inv); assumption. Qed.

  Lemma T_sub_eq_zero : forall x a, fsub x a = zero -> x = a.
  Proof. apply (sub_eq_zero F zero one add mul opp); assumption. Qed.

  Lemma T_root_bound : forall (p xs : list F),
    NoDup xs -> length p <= length xs ->
    (forall x, In x xs -> pe p x = zero) -> Forall (fun c => c = zero) p.
  Proof. apply (root_bound F zero one add mul opp inv); assumption. Qed.

  Lemma T_peval_inj : forall p q xs,
    length p = length q -> NoDup xs -> length p <= length xs ->
    (forall x, In x xs -> pe p x = pe q x) -> p = q.
  Proof. apply (peval_inj F zero one add mul opp inv); assumption. Qed.

  Lemma T_peval_pscale : forall c p x, pe (fpscale c p) x = mul c (pe p x).
  Proof. apply (peval_pscale F zero one add mul opp); assumption. Qed.

  Lemma T_lagr_poly_length : forall pts i, i < length pts ->
    length (flagr_poly pts i) = length pts.
  Proof. apply (lagr_poly_length F zero one add mul opp inv); assumption. Qed.

  Lemma T_peval_lagr_poly : forall pts i x, pe (flagr_poly pts i) x = flagr pts i x.
  Proof. apply (peval_lagr_poly F zero one add mul opp inv); assumption. Qed.

  Lemma T_lagr_delta : forall pts i j,
    NoDup pts -> i < length pts -> j < length pts ->
    flagr pts i (nth j pts zero) = if Nat.eqb i j then one else zero.
  Proof. apply (lagr_delta F zero one add mul opp inv); assumption. Qed.

  (* ---- from the quotient to the Lagrange basis polynomial ---- *)
  Section Quotient.
    Variable pts : list F.
    Variable c : list F.
    Hypothesis ND : NoDup pts.
    Hypothesis HLc : length c = length pts.
    Hypothesis Hroots : forall l, l < length pts -> pe (c ++ [one]) (nth l pts zero) = zero.

    Local Notation P := (c ++ [one]).
    Local Notation Qr r := (fquot (c ++ [one]) (nth r pts zero)).

    Lemma Qr_length : forall r, length (Qr r) = length pts.
    Proof.
      intros r. rewrite T_quot_length, app_length. cbn [length]. lia.
    Qed.

    Lemma Qr_other : forall r l, r < length pts -> l < length pts -> l <> r ->
      pe (Qr r) (nth l pts zero) = zero.
    Proof.
      intros r l Hr Hl Hne.
      pose proof (T_quot_spec P (nth r pts zero) (nth l pts zero)) as HQ.
      rewrite (Hroots l Hl), (Hroots r Hr) in HQ.
      assert (Hm : mul (fsub (nth l pts zero) (nth r pts zero))
                       (pe (Qr r) (nth l pts zero)) = zero).
      { etransitivity; [|symmetry; exact HQ]. ring. }
      destruct (T_mul_eq_zero _ _ Hm) as [E|E].
      - exfalso. apply Hne. apply (nth_inj F zero pts l r ND Hl Hr).
        apply T_sub_eq_zero. exact E.
      - exact E.
    Qed.

    Lemma Qr_self_neq_zero : forall r, r < length pts ->
      pe (Qr r) (nth r pts zero) <> zero.
    Proof.
      intros r Hr E.
      assert (HF : Forall (fun a => a = zero) (Qr r)).
      { apply (T_root_bound (Qr r) pts ND).
        - rewrite Qr_length. lia.
        - intros x Hx. destruct (In_nth pts x zero Hx) as [l [Hl El]]. subst x.
          destruct (Nat.eq_dec l r) as [Elr|Nlr].
          + subst l. exact E.
          + apply Qr_other; assumption. }
      assert (Elast : nth (length pts - 1) (Qr r) zero = one).
      { rewrite quot_nth_rec. replace (S (length pts - 1)) with (length pts) by lia.
        rewrite (ext_eq c (length pts) HLc).
        rewrite (nth_overflow (Qr r)) by (rewrite Qr_length; lia). ring. }
      apply one_neq_zero. rewrite <- Elast.
      rewrite Forall_forall in HF. apply HF. apply nth_In. rewrite Qr_length. lia.
    Qed.

    Lemma Qr_lagr_poly : forall r, r < length pts ->
      fpscale (inv (pe (Qr r) (nth r pts zero))) (Qr r) = flagr_poly pts r.
    Proof.
      intros r Hr.
      apply (T_peval_inj _ _ pts).
      - rewrite (pscale_length F mul), Qr_length, T_lagr_poly_length by exact Hr.
        reflexivity.
      - exact ND.
      - rewrite (pscale_length F mul), Qr_length. lia.
      - intros x Hx. destruct (In_nth pts x zero Hx) as [l [Hl El]]. subst x.
        rewrite T_peval_pscale, T_peval_lagr_poly, (T_lagr_delta pts r l ND Hr Hl).
        destruct (Nat.eqb_spec r l) as [Erl|Nrl].
        + subst l. rewrite mul_comm. apply mul_inv_r. apply Qr_self_neq_zero. exact Hr.
        + rewrite (Qr_other r l Hr Hl) by (intros E; apply Nrl; symmetry; exact E). ring.
    Qed.
  End Quotient.

  (* ---- matrices as lists of rows ---- *)
  Lemma mget_set_same : forall (src : mat) i (r : list F) j,
    i < length src -> mget (set_nth i r src) i j = nth j r zero.
  Proof.
    intros src i r j Hi. unfold get. rewrite nth_set_nth_eq by exact Hi. reflexivity.
  Qed.

  Lemma mget_set_other : forall (src : mat) i i' (r : list F) j,
    i' <> i -> mget (set_nth i r src) i' j = mget src i' j.
  Proof.
    intros src i i' r j Hne. unfold get. rewrite nth_set_nth_neq by exact Hne. reflexivity.
  Qed.

  (* the loop  for (col = 0; col < m; col++) src[col][row] = it * b[col] *)
  Lemma store_loop_spec : forall row it b m (src : mat),
    m <= length src -> (forall i, i < m -> row < length (nth i src [])) ->
    length (fold_left (fstore_col row it b) (seq 0 m) src) = length src /\
    (forall i, length (nth i (fold_left (fstore_col row it b) (seq 0 m) src) [])
               = length (nth i src [])) /\
    (forall i, i < m ->
       mget (fold_left (fstore_col row it b) (seq 0 m) src) i row = mul it (nth i b zero)) /\
    (forall i j, m <= i \/ j <> row ->
       mget (fold_left (fstore_col row it b) (seq 0 m) src) i j = mget src i j).
  Proof.
    intros row it b m. induction m as [|m IH]; intros src Hm Hrow.
    - cbn [seq fold_left]. split; [reflexivity|]. split; [reflexivity|]. split.
      + intros i Hi. lia.
      + intros i j _. reflexivity.
    - destruct (IH src) as [H1 [H2 [H3 H4]]]; [lia|intros i Hi; apply Hrow; lia|]. clear IH.
      rewrite seq_S, fold_left_app. cbn [fold_left Nat.add].
      set (s1 := fold_left (fstore_col row it b) (seq 0 m) src) in *.
      unfold store_col.
      assert (Hm1 : m < length s1) by (rewrite H1; lia).
      assert (Hr1 : row < length (nth m s1 [])) by (rewrite H2; apply Hrow; lia).
      split; [rewrite set_nth_length; exact H1|]. split; [|split].
      + intros i. destruct (Nat.eq_dec i m) as [E|NE].
        * subst i. rewrite nth_set_nth_eq by exact Hm1. rewrite set_nth_length. apply H2.
        * rewrite nth_set_nth_neq by exact NE. apply H2.
      + intros i Hi. destruct (Nat.eq_dec i m) as [E|NE].
        * subst i. rewrite mget_set_same by exact Hm1. apply nth_set_nth_eq. exact Hr1.
        * rewrite mget_set_other by exact NE. apply H3. lia.
      + intros i j Hij. destruct (Nat.eq_dec i m) as [E|NE].
        * subst i. rewrite mget_set_same by exact Hm1.
          rewrite nth_set_nth_neq by lia. apply (H4 m j). left. lia.
        * rewrite mget_set_other by exact NE. apply H4. lia.
  Qed.

  (* the loop  for (row = 0; row < m; row++)  of of_invert_vdm *)
  Lemma rows_loop_spec : forall k c p, 1 <= k -> length c = k ->
    forall m (src : mat) b,
      m <= k -> k <= length src -> (forall i, i < k -> length (nth i src []) = k) ->
      length b = k ->
      length (fst (fold_left (finvert_row k c p) (seq 0 m) (src, b))) = length src /\
      (forall i, length (nth i (fst (fold_left (finvert_row k c p) (seq 0 m) (src, b))) [])
                 = length (nth i src [])) /\
      length (snd (fold_left (finvert_row k c p) (seq 0 m) (src, b))) = k /\
      (forall i j, i < k -> j < m ->
         mget (fst (fold_left (finvert_row k c p) (seq 0 m) (src, b))) i j
         = mul (inv (pe (fquot (c ++ [one]) (nth j p zero)) (nth j p zero)))
               (nth i (fquot (c ++ [one]) (nth j p zero)) zero)) /\
      (forall i j, k <= i \/ m <= j ->
         mget (fst (fold_left (finvert_row k c p) (seq 0 m) (src, b))) i j = mget src i j).
  Proof.
    intros k c p Hk HLc m. induction m as [|m IH]; intros src b Hm Hsrc Hrows HLb.
    - cbn [seq fold_left fst snd]. split; [reflexivity|]. split; [reflexivity|].
      split; [exact HLb|]. split.
      + intros i j _ Hj. lia.
      + intros i j _. reflexivity.
    - destruct (IH src b) as [H1 [H2 [H3 [H4 H5]]]]; try assumption; [lia|]. clear IH.
      rewrite seq_S, fold_left_app. cbn [fold_left Nat.add].
      set (st := fold_left (finvert_row k c p) (seq 0 m) (src, b)) in *.
      unfold invert_row.
      rewrite (vdm_row_spec k c (nth m p zero) (snd st) Hk HLc H3). cbn [fst snd].
      rewrite range_0.
      set (B := fquot (c ++ [one]) (nth m p zero)).
      set (it := inv (pe B (nth m p zero))).
      destruct (store_loop_spec m it B k (fst st)) as [S1 [S2 [S3 S4]]].
      { rewrite H1. exact Hsrc. }
      { intros i Hi. rewrite H2, Hrows by exact Hi. lia. }
      split; [rewrite S1; exact H1|]. split; [intros i; rewrite S2; apply H2|].
      split.
      { unfold B. rewrite T_quot_length, app_length. cbn [length]. lia. }
      split.
      + intros i j Hi Hj. destruct (Nat.eq_dec j m) as [E|NE].
        * subst j. apply S3. exact Hi.
        * rewrite S4 by (right; exact NE). apply H4; [exact Hi|lia].
      + intros i j Hij. destruct (Nat.eq_dec j m) as [E|NE].
        * subst j. rewrite S4 by lia. apply H5. lia.
        * rewrite S4 by (right; exact NE). apply H5. lia.
  Qed.

  (* ---- of_invert_vdm ---- *)
  Theorem invert_vdm_gen_spec : forall k pts b0 (src : mat),
    2 <= k -> NoDup pts -> k <= length pts -> nth 0 pts zero = zero ->
    k <= length src -> (forall i, i < k -> length (nth i src []) = k) -> length b0 = k ->
    (forall i, i < k -> mget src i 1 = nth i pts zero) ->
    length (finvert_vdm_gen k b0 src) = length src /\
    (forall i, length (nth i (finvert_vdm_gen k b0 src) []) = length (nth i src [])) /\
    (forall col row, col < k -> row < k ->
       mget (finvert_vdm_gen k b0 src) col row
       = nth col (flagr_poly (firstn k pts) row) zero) /\
    (forall i j, k <= i -> mget (finvert_vdm_gen k b0 src) i j = mget src i j).
  Proof.
    intros k pts b0 src Hk ND Hkn Hp0 Hsrc Hrows HLb Hcol1.
    unfold invert_vdm_gen.
    destruct (Nat.eqb_spec k 1) as [E|_]; [lia|]. cbv zeta. rewrite range_0.
    assert (HLf : length (firstn k pts) = k) by (rewrite firstn_length; lia).
    assert (Ep : map (fun i => mget src i 1) (seq 0 k) = firstn k pts).
    { apply (nth_ext _ _ zero zero).
      - rewrite map_length, seq_length, HLf. reflexivity.
      - intros i Hi. rewrite map_length, seq_length in Hi.
        rewrite (nth_map_seq0 F (fun i => mget src i 1) k i zero Hi).
        rewrite nth_firstn_lt by exact Hi. apply Hcol1. exact Hi. }
    rewrite Ep.
    set (p := firstn k pts) in *.
    assert (NDp : NoDup p) by (apply NoDup_firstn; exact ND).
    assert (Hp0' : nth 0 p zero = zero).
    { unfold p. rewrite nth_firstn_lt by lia. exact Hp0. }
    destruct (vdm_coeffs_poly k p ltac:(lia) Hp0') as [HLc _].
    set (c := fvdm_coeffs k p) in *.
    destruct (rows_loop_spec k c p ltac:(lia) HLc k src b0 (le_n k) Hsrc Hrows HLb)
      as [H1 [H2 [_ [H4 H5]]]].
    split; [exact H1|]. split; [exact H2|]. split.
    - intros col row Hcol Hrow. rewrite (H4 col row Hcol Hrow).
      rewrite <- (Qr_lagr_poly p c NDp).
      + rewrite nth_pscale. reflexivity.
      + rewrite HLc, HLf. reflexivity.
      + intros l Hl. rewrite HLf in Hl. unfold c.
        apply vdm_coeffs_roots; [lia|exact Hp0'|exact Hl].
      + rewrite HLf. exact Hrow.
    - intros i j Hi. apply H5. left. exact Hi.
  Qed.

  (* ---- the Vandermonde matrix of of_rs_new ---- *)
  Lemma vdm_rows_length : forall n k pts, 1 <= n -> length (fvdm_rows n k pts) = n.
  Proof.
    intros n k pts Hn. unfold vdm_rows. cbn [length].
    rewrite map_length, range_0, seq_length. lia.
  Qed.

  Lemma vdm_rows_row_length : forall n k pts i, 1 <= k -> i < n ->
    length (nth i (fvdm_rows n k pts) []) = k.
  Proof.
    intros n k pts i Hk Hi. unfold vdm_rows. destruct i as [|i].
    - cbn [nth length]. rewrite map_length. unfold range. rewrite seq_length. lia.
    - cbn [nth]. rewrite !range_0.
      rewrite (nth_map_seq0 (list F) _ (n - 1) i []) by lia.
      rewrite map_length, seq_length. reflexivity.
  Qed.

  Lemma vdm_rows_get_0 : forall n k pts j,
    mget (fvdm_rows n k pts) 0 j = if Nat.eqb j 0 then one else zero.
  Proof.
    intros n k pts j. unfold get, vdm_rows. cbn [nth]. destruct j as [|j].
    - reflexivity.
    - cbn [nth Nat.eqb]. destruct (lt_dec j (length (range 1 k))) as [Hj|Hj].
      + rewrite (nth_map_lt nat F (fun _ => zero) (range 1 k) j 0 zero Hj). reflexivity.
      + apply nth_overflow. rewrite map_length. lia.
  Qed.

  Lemma vdm_rows_get_S : forall n k pts i j, S i < n -> j < k ->
    mget (fvdm_rows n k pts) (S i) j = fpow (nth (S i) pts zero) j.
  Proof.
    intros n k pts i j Hi Hj. unfold get, vdm_rows. cbn [nth]. rewrite !range_0.
    rewrite (nth_map_seq0 (list F) _ (n - 1) i []) by lia.
    apply (nth_map_seq0 F (fun col => fpow (nth (S i) pts zero) col) k j zero Hj).
  Qed.

  Lemma pow_zero : forall j, fpow zero j = if Nat.eqb j 0 then one else zero.
  Proof. intros j. destruct j as [|j]; cbn [pow Nat.eqb]; [reflexivity|ring]. Qed.

  (* row j of tmp_m is (x_j^0, ..., x_j^(k-1)), with 0^0 = 1 in row 0 *)
  Lemma vdm_rows_get : forall n k pts i j,
    nth 0 pts zero = zero -> i < n -> j < k ->
    mget (fvdm_rows n k pts) i j = fpow (nth i pts zero) j.
  Proof.
    intros n k pts i j Hp0 Hi Hj. destruct i as [|i].
    - rewrite vdm_rows_get_0, Hp0, pow_zero. reflexivity.
    - apply vdm_rows_get_S; assumption.
  Qed.

  Lemma lagr_poly_single : forall pts, 1 <= length pts -> flagr_poly (firstn 1 pts) 0 = [one].
  Proof.
    intros pts Hl. destruct pts as [|a pts]; [cbn [length] in Hl; lia|]. reflexivity.
  Qed.

  (* ---- of_invert_vdm applied to tmp_m: the top block becomes the matrix of the
     Lagrange basis coefficients, the rows below are untouched ---- *)
  Theorem invert_vdm_rows_spec : forall k n pts,
    1 <= k -> k <= n -> NoDup pts -> k <= length pts ->
    (2 <= k -> nth 0 pts zero = zero) ->
    length (finvert_vdm_mat k (fvdm_rows n k pts)) = n /\
    (forall col row, col < k -> row < k ->
       mget (finvert_vdm_mat k (fvdm_rows n k pts)) col row
       = nth col (flagr_poly (firstn k pts) row) zero) /\
    (forall i j, k <= i ->
       mget (finvert_vdm_mat k (fvdm_rows n k pts)) i j = mget (fvdm_rows n k pts) i j).
  Proof.
    intros k n pts Hk Hkn ND Hkl Hp0. unfold invert_vdm_mat.
    destruct (Nat.eq_dec k 1) as [E1|N1].
    - subst k. unfold invert_vdm_gen. cbn [Nat.eqb].
      split; [apply vdm_rows_length; lia|]. split.
      + intros col row Hcol Hrow.
        assert (Ec : col = 0) by lia. assert (Er : row = 0) by lia. subst col row.
        rewrite vdm_rows_get_0, lagr_poly_single by lia. reflexivity.
      + intros i j _. reflexivity.
    - destruct (invert_vdm_gen_spec k pts (repeat zero k) (fvdm_rows n k pts))
        as [H1 [_ [H3 H4]]]; try assumption.
      + lia.
      + apply Hp0. lia.
      + rewrite vdm_rows_length; lia.
      + intros i Hi. apply vdm_rows_row_length; lia.
      + apply repeat_length.
      + intros i Hi. rewrite vdm_rows_get by (try apply Hp0; lia).
        cbn [pow]. ring.
      + split; [rewrite H1; apply vdm_rows_length; lia|]. split; [exact H3|exact H4].
  Qed.

  (* entry [col][row] of the inverted matrix is coefficient number col of the
     Lagrange basis polynomial number row *)
  Theorem invert_vdm_spec : forall k pts,
    1 <= k -> NoDup pts -> k <= length pts -> (2 <= k -> nth 0 pts zero = zero) ->
    forall col row, col < k -> row < k ->
      mget (finvert_vdm k pts) col row = nth col (flagr_poly (firstn k pts) row) zero.
  Proof.
    intros k pts Hk ND Hkl Hp0. unfold invert_vdm.
    destruct (invert_vdm_rows_spec k k pts Hk (le_n k) ND Hkl Hp0) as [_ [H _]]. exact H.
  Qed.

  (* ---- polynomial evaluation as a sum of monomials ---- *)
  Lemma peval_as_sum : forall q x,
    pe q x = fsum (map (fun m => mul (fpow x m) (nth m q zero)) (seq 0 (length q))).
  Proof.
    intros q x. induction q as [|a q IH].
    - reflexivity.
    - cbn [length seq map].
      change (pe (a :: q) x) with (add a (mul x (pe q x))).
      change (fsum (?h :: ?t)) with (add h (fsum t)).
      rewrite <- seq_shift, map_map. cbn [nth pow].
      rewrite IH.
      rewrite <- (sum_map_scale F zero one add mul opp add_comm add_assoc add_0_l add_opp_r
                    mul_comm mul_assoc mul_1_l mul_add_distr_l).
      f_equal; [ring|]. f_equal. apply map_ext. intros m. ring.
  Qed.

  Lemma fold_left_add : forall (f : nat -> F) l a,
    fold_left (fun acc i => add acc (f i)) l a = add a (fsum (map f l)).
  Proof.
    intros f l. induction l as [|i l IH]; intros a.
    - cbn. ring.
    - cbn [fold_left map]. rewrite IH.
      change (fsum (f i :: map f l)) with (add (f i) (fsum (map f l))). ring.
  Qed.

  (* V * V^-1 = I on the top block *)
  Theorem invert_vdm_inverse : forall k pts,
    1 <= k -> NoDup pts -> k <= length pts -> nth 0 pts zero = zero ->
    forall j i, j < k -> i < k ->
      fsum (map (fun col => mul (mget (fvdm_rows k k pts) j col)
                                (mget (finvert_vdm k pts) col i)) (seq 0 k))
      = if Nat.eqb i j then one else zero.
  Proof.
    intros k pts Hk ND Hkl Hp0 j i Hj Hi.
    assert (HLf : length (firstn k pts) = k) by (rewrite firstn_length; lia).
    rewrite <- (T_lagr_delta (firstn k pts) i j) by (try apply NoDup_firstn; try assumption; lia).
    rewrite <- T_peval_lagr_poly, peval_as_sum, T_lagr_poly_length, HLf by lia.
    f_equal. apply map_ext_in. intros col Hcol. apply in_seq in Hcol.
    rewrite vdm_rows_get by (try assumption; lia).
    rewrite invert_vdm_spec by (try assumption; try (intros _; assumption); lia).
    rewrite nth_firstn_lt by exact Hj. reflexivity.
  Qed.

  (* ---- of_rs_new: the encoding matrix ---- *)
  Lemma unit_rows_length : forall k, length (funit_rows k) = k.
  Proof. intros k. unfold unit_rows. rewrite map_length, range_0, seq_length. reflexivity. Qed.

  Lemma build_enc_length : forall k n pts, k <= n -> length (fbuild_enc k n pts) = n.
  Proof.
    intros k n pts Hkn. unfold build_enc. cbv zeta.
    rewrite app_length, unit_rows_length. unfold matmul.
    rewrite map_length, range_0, seq_length. lia.
  Qed.

  Lemma build_enc_row_length : forall k n pts j, j < n -> k <= n ->
    length (nth j (fbuild_enc k n pts) []) = k.
  Proof.
    intros k n pts j Hj Hkn. unfold build_enc. cbv zeta.
    destruct (lt_dec j k) as [Hjk|Hjk].
    - rewrite app_nth1 by (rewrite unit_rows_length; exact Hjk).
      unfold unit_rows. rewrite !range_0.
      rewrite (nth_map_seq0 (list F) _ k j [] Hjk).
      rewrite map_length, seq_length. reflexivity.
    - rewrite app_nth2 by (rewrite unit_rows_length; lia). rewrite unit_rows_length.
      unfold matmul. rewrite !range_0.
      rewrite (nth_map_seq0 (list F) _ (n - k) (j - k) []) by lia.
      rewrite map_length, seq_length. reflexivity.
  Qed.

  (* rows j < k are unit rows *)
  Theorem build_enc_unit : forall k n pts j i, j < k -> i < k ->
    mget (fbuild_enc k n pts) j i = if Nat.eqb j i then one else zero.
  Proof.
    intros k n pts j i Hj Hi. unfold build_enc, get. cbv zeta.
    rewrite app_nth1 by (rewrite unit_rows_length; exact Hj).
    unfold unit_rows. rewrite !range_0.
    rewrite (nth_map_seq0 (list F) _ k j [] Hj).
    apply (nth_map_seq0 F (fun j0 => if Nat.eqb j j0 then one else zero) k i zero Hi).
  Qed.

  (* rows j >= k: entry [j][i] is the Lagrange basis polynomial number i on the
     first k points, evaluated at the point number j *)
  Theorem build_enc_spec : forall k n pts,
    1 <= k -> k <= n -> NoDup pts -> k <= length pts ->
    (2 <= k -> nth 0 pts zero = zero) ->
    forall j i, k <= j < n -> i < k ->
      mget (fbuild_enc k n pts) j i = flagr (firstn k pts) i (nth j pts zero).
  Proof.
    intros k n pts Hk Hkn ND Hkl Hp0 j i Hj Hi.
    destruct (invert_vdm_rows_spec k n pts Hk Hkn ND Hkl Hp0) as [_ [Htop Hbot]].
    unfold build_enc, get. cbv zeta.
    set (tmp := finvert_vdm_mat k (fvdm_rows n k pts)) in *.
    rewrite app_nth2 by (rewrite unit_rows_length; lia). rewrite unit_rows_length.
    unfold matmul. rewrite !range_0.
    rewrite (nth_map_seq0 (list F) _ (n - k) (j - k) []) by lia.
    rewrite (nth_map_seq0 F _ k i zero Hi).
    rewrite fold_left_add, add_0_l.
    assert (HLf : length (firstn k pts) = k) by (rewrite firstn_length; lia).
    rewrite <- T_peval_lagr_poly, peval_as_sum, T_lagr_poly_length, HLf by lia.
    f_equal. apply map_ext_in. intros l Hl. apply in_seq in Hl.
    rewrite (Htop l i) by lia. f_equal.
    unfold get at 1. rewrite nth_skipn_plus. replace (k + (j - k)) with j by lia.
    fold (mget tmp j l). rewrite Hbot by lia.
    destruct j as [|j]; [lia|]. apply vdm_rows_get_S; lia.
  Qed.
End Theory.

(* ------------------------------------------------------------------ *)
(* Part 3: homomorphisms                                               *)
(* ------------------------------------------------------------------ *)
Lemma map_repeat_const : forall (X Y : Type) (f : X -> Y) (a : X) (n : nat),
  map f (repeat a n) = repeat (f a) n.
Proof.
  intros X Y f a n. induction n as [|n IH]; [reflexivity|].
  cbn [repeat map]. rewrite IH. reflexivity.
Qed.

Section HomV.
  Variables F1 F2 : Type.
  Variables (zero1 one1 : F1) (add1 mul1 : F1 -> F1 -> F1) (inv1 : F1 -> F1).
  Variables (zero2 one2 : F2) (add2 mul2 : F2 -> F2 -> F2) (inv2 : F2 -> F2).
  Variable phi : F1 -> F2.
  Hypothesis phi_zero : phi zero1 = zero2.
  Hypothesis phi_one : phi one1 = one2.
  Hypothesis phi_add : forall a b, phi (add1 a b) = add2 (phi a) (phi b).
  Hypothesis phi_mul : forall a b, phi (mul1 a b) = mul2 (phi a) (phi b).
  Hypothesis phi_inv : forall a, phi (inv1 a) = inv2 (phi a).

  Local Notation up := (mmap F1 F2 phi).

  Lemma hv_nth : forall l i, nth i (map phi l) zero2 = phi (nth i l zero1).
  Proof. exact (hom_nthz F1 F2 zero1 zero2 phi phi_zero). Qed.

  Lemma hv_get : forall A i j, get F2 zero2 (up A) i j = phi (get F1 zero1 A i j).
  Proof. exact (hom_get F1 F2 zero1 zero2 phi phi_zero). Qed.

  Lemma hom_coeff_upd : forall pi c j,
    map phi (coeff_upd F1 zero1 add1 mul1 pi c j)
    = coeff_upd F2 zero2 add2 mul2 (phi pi) (map phi c) j.
  Proof.
    intros pi c j. unfold coeff_upd.
    rewrite map_set_nth, phi_add, phi_mul, !hv_nth. reflexivity.
  Qed.

  Lemma hom_coeff_step : forall k p c i,
    map phi (coeff_step F1 zero1 add1 mul1 k p c i)
    = coeff_step F2 zero2 add2 mul2 k (map phi p) (map phi c) i.
  Proof.
    intros k p c i. unfold coeff_step. cbv zeta. rewrite (hv_nth p i).
    set (c1 := fold_left (coeff_upd F1 zero1 add1 mul1 (nth i p zero1))
                         (range (k - 1 - (i - 1)) (k - 1)) c).
    assert (E : map phi c1
                = fold_left (coeff_upd F2 zero2 add2 mul2 (phi (nth i p zero1)))
                            (range (k - 1 - (i - 1)) (k - 1)) (map phi c)).
    { unfold c1. apply fold_left_hom. intros s j. apply hom_coeff_upd. }
    rewrite map_set_nth, phi_add, <- (hv_nth c1), E. reflexivity.
  Qed.

  Lemma hom_vdm_coeffs : forall k p,
    map phi (vdm_coeffs F1 zero1 add1 mul1 k p)
    = vdm_coeffs F2 zero2 add2 mul2 k (map phi p).
  Proof.
    intros k p. unfold vdm_coeffs.
    rewrite (fold_left_hom (list F1) (list F2) nat (map phi)
               (coeff_step F1 zero1 add1 mul1 k p)
               (coeff_step F2 zero2 add2 mul2 k (map phi p)))
      by (intros s i; apply hom_coeff_step).
    rewrite map_set_nth, map_repeat_const, phi_zero, hv_nth. reflexivity.
  Qed.

  Definition up_bt (st : list F1 * F1) : list F2 * F2 := (map phi (fst st), phi (snd st)).

  Lemma hom_row_step : forall c xx st i,
    up_bt (row_step F1 zero1 add1 mul1 c xx st i)
    = row_step F2 zero2 add2 mul2 (map phi c) (phi xx) (up_bt st) i.
  Proof.
    intros c xx st i. unfold row_step, up_bt. cbv zeta. cbn [fst snd].
    rewrite phi_add, phi_mul, <- !hv_nth, map_set_nth, phi_add, phi_mul, <- !hv_nth.
    reflexivity.
  Qed.

  Lemma hom_vdm_row : forall k c xx b,
    up_bt (vdm_row F1 zero1 one1 add1 mul1 k c xx b)
    = vdm_row F2 zero2 one2 add2 mul2 k (map phi c) (phi xx) (map phi b).
  Proof.
    intros k c xx b. unfold vdm_row.
    rewrite (fold_left_hom (list F1 * F1) (list F2 * F2) nat up_bt
               (row_step F1 zero1 add1 mul1 c xx)
               (row_step F2 zero2 add2 mul2 (map phi c) (phi xx)))
      by (intros s i; apply hom_row_step).
    unfold up_bt. cbn [fst snd]. rewrite map_set_nth, phi_one. reflexivity.
  Qed.

  Lemma hom_store_col : forall row it b src col,
    up (store_col F1 zero1 mul1 row it b src col)
    = store_col F2 zero2 mul2 row (phi it) (map phi b) (up src) col.
  Proof.
    intros row it b src col. unfold store_col.
    rewrite nth_mmap. unfold mmap.
    rewrite !map_set_nth, phi_mul, hv_nth. reflexivity.
  Qed.

  Definition up_st (st : matrix F1 * list F1) : matrix F2 * list F2 :=
    (up (fst st), map phi (snd st)).

  Lemma hom_invert_row : forall k c p st row,
    up_st (invert_row F1 zero1 one1 add1 mul1 inv1 k c p st row)
    = invert_row F2 zero2 one2 add2 mul2 inv2 k (map phi c) (map phi p) (up_st st) row.
  Proof.
    intros k c p st row. unfold invert_row, up_st. cbv zeta. cbn [fst snd].
    rewrite hv_nth, <- hom_vdm_row. unfold up_bt. cbn [fst snd].
    rewrite <- phi_inv.
    set (bt := vdm_row F1 zero1 one1 add1 mul1 k c (nth row p zero1) (snd st)).
    rewrite (fold_left_hom (matrix F1) (matrix F2) nat up
               (store_col F1 zero1 mul1 row (inv1 (snd bt)) (fst bt))
               (store_col F2 zero2 mul2 row (phi (inv1 (snd bt))) (map phi (fst bt))))
      by (intros s col; apply hom_store_col).
    reflexivity.
  Qed.

  Lemma hom_invert_vdm_gen : forall k b0 src,
    up (invert_vdm_gen F1 zero1 one1 add1 mul1 inv1 k b0 src)
    = invert_vdm_gen F2 zero2 one2 add2 mul2 inv2 k (map phi b0) (up src).
  Proof.
    intros k b0 src. unfold invert_vdm_gen.
    destruct (Nat.eqb k 1); [reflexivity|]. cbv zeta.
    assert (Ep : map (fun i => get F2 zero2 (up src) i 1) (range 0 k)
                 = map phi (map (fun i => get F1 zero1 src i 1) (range 0 k))).
    { rewrite map_map. apply map_ext. intros i. apply hv_get. }
    rewrite Ep, <- hom_vdm_coeffs.
    set (p := map (fun i => get F1 zero1 src i 1) (range 0 k)).
    set (c := vdm_coeffs F1 zero1 add1 mul1 k p).
    change (up src, map phi b0) with (up_st (src, b0)).
    rewrite <- (fold_left_hom (matrix F1 * list F1) (matrix F2 * list F2) nat up_st
                  (invert_row F1 zero1 one1 add1 mul1 inv1 k c p)
                  (invert_row F2 zero2 one2 add2 mul2 inv2 k (map phi c) (map phi p)))
      by (intros s row; apply hom_invert_row).
    reflexivity.
  Qed.

  Lemma hom_invert_vdm_mat : forall k src,
    up (invert_vdm_mat F1 zero1 one1 add1 mul1 inv1 k src)
    = invert_vdm_mat F2 zero2 one2 add2 mul2 inv2 k (up src).
  Proof.
    intros k src. unfold invert_vdm_mat.
    rewrite hom_invert_vdm_gen, map_repeat_const, phi_zero. reflexivity.
  Qed.

  Lemma hom_vdm_rows : forall n k pts,
    up (vdm_rows F1 zero1 one1 mul1 n k pts)
    = vdm_rows F2 zero2 one2 mul2 n k (map phi pts).
  Proof.
    intros n k pts. unfold vdm_rows, mmap. cbn [map].
    rewrite phi_one, !map_map. f_equal.
    - f_equal. apply map_ext. intros _. exact phi_zero.
    - apply map_ext. intros r. rewrite map_map. apply map_ext. intros col.
      rewrite (hom_pow F1 F2 one1 mul1 one2 mul2 phi phi_one phi_mul), hv_nth.
      reflexivity.
  Qed.

  Lemma hom_invert_vdm : forall k pts,
    up (invert_vdm F1 zero1 one1 add1 mul1 inv1 k pts)
    = invert_vdm F2 zero2 one2 add2 mul2 inv2 k (map phi pts).
  Proof.
    intros k pts. unfold invert_vdm. rewrite hom_invert_vdm_mat, hom_vdm_rows. reflexivity.
  Qed.

  Lemma hom_matmul : forall A B nr kk m,
    up (matmul F1 zero1 add1 mul1 A B nr kk m)
    = matmul F2 zero2 add2 mul2 (up A) (up B) nr kk m.
  Proof.
    intros A B nr kk m. unfold matmul. unfold mmap at 1. rewrite map_map.
    apply map_ext. intros row. rewrite map_map. apply map_ext. intros col.
    rewrite (fold_left_hom F1 F2 nat phi
               (fun acc i => add1 acc (mul1 (get F1 zero1 A row i) (get F1 zero1 B i col)))
               (fun acc i => add2 acc (mul2 (get F2 zero2 (up A) row i)
                                            (get F2 zero2 (up B) i col)))).
    - rewrite phi_zero. reflexivity.
    - intros s i. rewrite phi_add, phi_mul, !hv_get. reflexivity.
  Qed.

  Lemma hom_unit_rows : forall k,
    up (unit_rows F1 zero1 one1 k) = unit_rows F2 zero2 one2 k.
  Proof.
    intros k. unfold unit_rows, mmap. rewrite map_map. apply map_ext. intros i.
    rewrite map_map. apply map_ext. intros j.
    destruct (Nat.eqb i j); [exact phi_one|exact phi_zero].
  Qed.

  Lemma hom_build_enc : forall k n pts,
    up (build_enc F1 zero1 one1 add1 mul1 inv1 k n pts)
    = build_enc F2 zero2 one2 add2 mul2 inv2 k n (map phi pts).
  Proof.
    intros k n pts. unfold build_enc. cbv zeta.
    unfold mmap at 1. rewrite map_app. fold (up (unit_rows F1 zero1 one1 k)).
    rewrite hom_unit_rows. f_equal.
    fold (up (matmul F1 zero1 add1 mul1
                (skipn k (invert_vdm_mat F1 zero1 one1 add1 mul1 inv1 k
                            (vdm_rows F1 zero1 one1 mul1 n k pts)))
                (invert_vdm_mat F1 zero1 one1 add1 mul1 inv1 k
                   (vdm_rows F1 zero1 one1 mul1 n k pts)) (n - k) k k)).
    rewrite hom_matmul. unfold mmap at 1. rewrite <- skipn_map.
    fold (up (invert_vdm_mat F1 zero1 one1 add1 mul1 inv1 k
                (vdm_rows F1 zero1 one1 mul1 n k pts))).
    rewrite hom_invert_vdm_mat, hom_vdm_rows. reflexivity.
  Qed.
End HomV.

(* ------------------------------------------------------------------ *)
(* Part 4: executable instances over N                                 *)
(* ------------------------------------------------------------------ *)
Local Open Scope N_scope.

Definition invert_vdmN (m p : N) (mulN : N -> N -> N) (invN : N -> N) (k : nat)
  : list (list N) :=
  invert_vdm N 0 1 N.lxor mulN invN k (ptsN m p k).

Definition build_encN (m p : N) (mulN : N -> N -> N) (invN : N -> N) (k n : nat)
  : list (list N) :=
  build_enc N 0 1 N.lxor mulN invN k n (ptsN m p n).

Definition invert_vdm256 := invert_vdmN 8 P256 mul256 inv256.
Definition build_enc256 := build_encN 8 P256 mul256 inv256.
Definition invert_vdm16 := invert_vdmN 4 P16 mul16 inv16.
Definition build_enc16 := build_encN 4 P16 mul16 inv16.

Lemma firstn_seq_le : forall k n a, (k <= n)%nat -> firstn k (seq a n) = seq a k.
Proof.
  intros k. induction k as [|k IH]; intros n a Hk.
  - reflexivity.
  - destruct n as [|n]; [lia|]. cbn [seq firstn]. rewrite IH by lia. reflexivity.
Qed.

(* ---- generic transfer along an injective homomorphism into N ---- *)
Section TransferV.
  Variables (m p : N) (mulN : N -> N -> N) (invN : N -> N).
  Variable q : N.
  Variable qn : nat.
  Variable G : Type.
  Variables (zero one : G) (add mul : G -> G -> G) (opp inv : G -> G).

  Hypothesis eq_dec : forall a b : G, {a = b} + {a <> b}.
  Hypothesis add_comm : forall a b, add a b = add b a.
  Hypothesis add_assoc : forall a b c, add a (add b c) = add (add a b) c.
  Hypothesis add_0_l : forall a, add zero a = a.
  Hypothesis add_opp_r : forall a, add a (opp a) = zero.
  Hypothesis add_self : forall a, add a a = zero.
  Hypothesis mul_comm : forall a b, mul a b = mul b a.
  Hypothesis mul_assoc : forall a b c, mul a (mul b c) = mul (mul a b) c.
  Hypothesis mul_1_l : forall a, mul one a = a.
  Hypothesis mul_add_distr_l : forall a b c, mul a (add b c) = add (mul a b) (mul a c).
  Hypothesis mul_inv_r : forall a, a <> zero -> mul a (inv a) = one.
  Hypothesis one_neq_zero : one <> zero.

  Variable phi : G -> N.
  Variable psi : N -> G.
  Hypothesis phi_zero : phi zero = 0.
  Hypothesis phi_one : phi one = 1.
  Hypothesis phi_add : forall a b, phi (add a b) = N.lxor (phi a) (phi b).
  Hypothesis phi_mul : forall a b, phi (mul a b) = mulN (phi a) (phi b).
  Hypothesis phi_opp : forall a, phi (opp a) = phi a.
  Hypothesis phi_inv : forall a, phi (inv a) = invN (phi a).
  Hypothesis phi_inj : forall a b, phi a = phi b -> a = b.
  Hypothesis phi_lt : forall a, phi a < q.
  Hypothesis phi_psi : forall a, a < q -> phi (psi a) = a.
  Hypothesis pt_lt : forall j, (j < qn)%nat -> rs_point m p j < q.
  Hypothesis pt_inj : forall i j, (i < qn)%nat -> (j < qn)%nat ->
    rs_point m p i = rs_point m p j -> i = j.

  Local Notation pt := (rs_point m p).
  Local Notation gpts := (ptsG m p G psi).
  Local Notation lagrG := (lagr G zero one add mul opp inv).
  Local Notation lagr_polyG := (lagr_poly G zero one add mul opp inv).
  Local Notation up := (mmap G N phi).

  (* the facts of RSCanon.v, specialised *)
  Lemma TV_coefN_phi : forall k i j, (k <= qn)%nat -> (i < k)%nat -> (j < qn)%nat ->
    coefN m p mulN invN k i j = phi (lagrG (gpts k) i (psi (pt j))).
  Proof.
    apply (coefN_phi m p mulN invN q qn G zero one add mul opp inv) with (phi := phi);
      assumption.
  Qed.

  Lemma TV_map_phi_pts : forall k, (k <= qn)%nat -> map phi (gpts k) = ptsN m p k.
  Proof.
    apply (map_phi_ptsG m p q qn G zero one phi psi); assumption.
  Qed.

  Lemma TV_pts_NoDup : forall k, (k <= qn)%nat -> NoDup (gpts k).
  Proof.
    apply (ptsG_NoDup m p q qn G zero one phi psi); assumption.
  Qed.

  Lemma TV_nth_pts : forall k j, (j < k)%nat -> nth j (gpts k) zero = psi (pt j).
  Proof.
    apply (nth_ptsG m p q G zero phi psi); assumption.
  Qed.

  Lemma TV_pts_length : forall k, length (gpts k) = k.
  Proof. apply ptsG_length. Qed.

  Lemma TV_pts_0 : forall k, nth 0 (gpts k) zero = zero.
  Proof.
    intros k. destruct k as [|k].
    - reflexivity.
    - rewrite TV_nth_pts by lia. cbn [rs_point].
      apply (psi_zero q G zero phi psi); assumption.
  Qed.

  Lemma TV_firstn_pts : forall k n, (k <= n)%nat -> firstn k (gpts n) = gpts k.
  Proof.
    intros k n Hk. unfold ptsG, ptsN. rewrite !firstn_map, firstn_seq_le by exact Hk.
    reflexivity.
  Qed.

  Lemma build_encN_up : forall k n, (n <= qn)%nat ->
    build_encN m p mulN invN k n = up (build_enc G zero one add mul inv k n (gpts n)).
  Proof.
    intros k n Hn. unfold build_encN.
    rewrite (hom_build_enc G N zero one add mul inv 0 1 N.lxor mulN invN phi
               phi_zero phi_one phi_add phi_mul phi_inv).
    rewrite TV_map_phi_pts by exact Hn. reflexivity.
  Qed.

  Lemma invert_vdmN_up : forall k, (k <= qn)%nat ->
    invert_vdmN m p mulN invN k = up (invert_vdm G zero one add mul inv k (gpts k)).
  Proof.
    intros k Hk. unfold invert_vdmN.
    rewrite (hom_invert_vdm G N zero one add mul inv 0 1 N.lxor mulN invN phi
               phi_zero phi_one phi_add phi_mul phi_inv).
    rewrite TV_map_phi_pts by exact Hk. reflexivity.
  Qed.

  (* the matrix built by of_rs_new is the canonical generator *)
  Theorem build_encN_spec : forall k n,
    (1 <= k)%nat -> (k <= n)%nat -> (n <= qn)%nat ->
    forall j i, (j < n)%nat -> (i < k)%nat ->
      get N 0 (build_encN m p mulN invN k n) j i
      = if Nat.ltb j k then (if Nat.eqb i j then 1 else 0)
        else coefN m p mulN invN k i j.
  Proof.
    intros k n Hk Hkn Hn j i Hj Hi.
    rewrite (build_encN_up k n Hn).
    rewrite (hom_get G N zero 0 phi phi_zero).
    destruct (Nat.ltb_spec j k) as [Hjk|Hjk].
    - rewrite (build_enc_unit G zero one add mul inv k n (gpts n) j i Hjk Hi).
      rewrite (Nat.eqb_sym i j).
      destruct (Nat.eqb j i); [exact phi_one|exact phi_zero].
    - rewrite (build_enc_spec G zero one add mul opp inv eq_dec add_comm add_assoc add_0_l
                 add_opp_r add_self mul_comm mul_assoc mul_1_l mul_add_distr_l mul_inv_r
                 one_neq_zero k n (gpts n) Hk Hkn (TV_pts_NoDup n Hn)).
      + rewrite (TV_firstn_pts k n Hkn), (TV_nth_pts n j Hj).
        symmetry. apply TV_coefN_phi; lia.
      + rewrite TV_pts_length. exact Hkn.
      + intros _. apply TV_pts_0.
      + lia.
      + exact Hi.
  Qed.

  Theorem build_encN_shape : forall k n, (k <= n)%nat ->
    length (build_encN m p mulN invN k n) = n /\
    forall j, (j < n)%nat -> length (nth j (build_encN m p mulN invN k n) []) = k.
  Proof.
    intros k n Hkn. unfold build_encN. split.
    - apply (build_enc_length N 0 1 N.lxor mulN invN). exact Hkn.
    - intros j Hj. apply (build_enc_row_length N 0 1 N.lxor mulN invN); assumption.
  Qed.

  (* the matrix left by of_invert_vdm holds the Lagrange coefficients ... *)
  Theorem invert_vdmN_spec : forall k, (1 <= k)%nat -> (k <= qn)%nat ->
    forall col row, (col < k)%nat -> (row < k)%nat ->
      get N 0 (invert_vdmN m p mulN invN k) col row
      = phi (nth col (lagr_polyG (gpts k) row) zero).
  Proof.
    intros k Hk Hkq col row Hcol Hrow.
    rewrite (invert_vdmN_up k Hkq), (hom_get G N zero 0 phi phi_zero).
    rewrite (invert_vdm_spec G zero one add mul opp inv eq_dec add_comm add_assoc add_0_l
               add_opp_r add_self mul_comm mul_assoc mul_1_l mul_add_distr_l mul_inv_r
               one_neq_zero k (gpts k) Hk (TV_pts_NoDup k Hkq)).
    - rewrite <- (TV_pts_length k) at 1. rewrite firstn_all. reflexivity.
    - rewrite TV_pts_length. lia.
    - intros _. apply TV_pts_0.
    - exact Hcol.
    - exact Hrow.
  Qed.

  (* ... and is the inverse of the Vandermonde matrix on the first k points *)
  Theorem invert_vdmN_inverse : forall k, (1 <= k)%nat -> (k <= qn)%nat ->
    forall j i, (j < k)%nat -> (i < k)%nat ->
      fold_right N.lxor 0
        (map (fun col => mulN (get N 0 (vdm_rows N 0 1 mulN k k (ptsN m p k)) j col)
                              (get N 0 (invert_vdmN m p mulN invN k) col i)) (seq 0 k))
      = if Nat.eqb i j then 1 else 0.
  Proof.
    intros k Hk Hkq j i Hj Hi.
    pose proof (invert_vdm_inverse G zero one add mul opp inv eq_dec add_comm add_assoc
                  add_0_l add_opp_r add_self mul_comm mul_assoc mul_1_l mul_add_distr_l
                  mul_inv_r one_neq_zero k (gpts k) Hk (TV_pts_NoDup k Hkq)) as HI.
    rewrite TV_pts_length in HI. specialize (HI (le_n k) (TV_pts_0 k) j i Hj Hi).
    apply (f_equal phi) in HI.
    rewrite (hom_sum G N zero add 0 N.lxor phi phi_zero phi_add), map_map in HI.
    assert (ER : phi (if Nat.eqb i j then one else zero) = if Nat.eqb i j then 1 else 0).
    { destruct (Nat.eqb i j); [exact phi_one|exact phi_zero]. }
    rewrite ER in HI. rewrite <- HI. unfold sum. f_equal. apply map_ext. intros col.
    rewrite phi_mul, (invert_vdmN_up k Hkq), <- (TV_map_phi_pts k Hkq).
    rewrite <- (hom_vdm_rows G N zero one mul 0 1 mulN phi phi_zero phi_one phi_mul).
    rewrite !(hom_get G N zero 0 phi phi_zero). reflexivity.
  Qed.
End TransferV.

(* ---- the instances q = 256 and q = 16 ---- *)
Theorem build_enc256_spec : forall k n,
  (k <= n <= 256)%nat -> (1 <= k)%nat ->
  forall j i, (j < n)%nat -> (i < k)%nat ->
    get N 0 (build_enc256 k n) j i
    = if Nat.ltb j k then (if Nat.eqb i j then 1 else 0) else coef256 k i j.
Proof.
  intros k n [Hkn Hn] Hk j i Hj Hi. unfold build_enc256, coef256.
  apply (build_encN_spec 8 P256 mul256 inv256 256 256%nat (GF 256)
           F256_zero F256_one F256_add F256_mul F256_opp F256_inv)
    with (phi := @val 256) (psi := of_N256);
    first [field256 | exact F256_add_self | assumption].
Qed.

Theorem build_enc256_shape : forall k n, (k <= n)%nat ->
  length (build_enc256 k n) = n /\
  forall j, (j < n)%nat -> length (nth j (build_enc256 k n) []) = k.
Proof. intros k n Hkn. unfold build_enc256. apply build_encN_shape. exact Hkn. Qed.

Theorem invert_vdm256_inverse : forall k, (1 <= k)%nat -> (k <= 256)%nat ->
  forall j i, (j < k)%nat -> (i < k)%nat ->
    fold_right N.lxor 0
      (map (fun col => mul256 (get N 0 (vdm_rows N 0 1 mul256 k k (ptsN 8 P256 k)) j col)
                              (get N 0 (invert_vdm256 k) col i)) (seq 0 k))
    = if Nat.eqb i j then 1 else 0.
Proof.
  intros k Hk Hkq j i Hj Hi. unfold invert_vdm256.
  apply (invert_vdmN_inverse 8 P256 mul256 inv256 256 256%nat (GF 256)
           F256_zero F256_one F256_add F256_mul F256_opp F256_inv)
    with (phi := @val 256) (psi := of_N256);
    first [field256 | exact F256_add_self | assumption].
Qed.

Theorem build_enc16_spec : forall k n,
  (k <= n <= 16)%nat -> (1 <= k)%nat ->
  forall j i, (j < n)%nat -> (i < k)%nat ->
    get N 0 (build_enc16 k n) j i
    = if Nat.ltb j k then (if Nat.eqb i j then 1 else 0) else coef16 k i j.
Proof.
  intros k n [Hkn Hn] Hk j i Hj Hi. unfold build_enc16, coef16.
  apply (build_encN_spec 4 P16 mul16 inv16 16 16%nat (GF 16)
           F16_zero F16_one F16_add F16_mul F16_opp F16_inv)
    with (phi := @val 16) (psi := of_N16);
    first [field16 | exact F16_add_self | assumption].
Qed.

Theorem build_enc16_shape : forall k n, (k <= n)%nat ->
  length (build_enc16 k n) = n /\
  forall j, (j < n)%nat -> length (nth j (build_enc16 k n) []) = k.
Proof. intros k n Hkn. unfold build_enc16. apply build_encN_shape. exact Hkn. Qed.

Theorem invert_vdm16_inverse : forall k, (1 <= k)%nat -> (k <= 16)%nat ->
  forall j i, (j < k)%nat -> (i < k)%nat ->
    fold_right N.lxor 0
      (map (fun col => mul16 (get N 0 (vdm_rows N 0 1 mul16 k k (ptsN 4 P16 k)) j col)
                             (get N 0 (invert_vdm16 k) col i)) (seq 0 k))
    = if Nat.eqb i j then 1 else 0.
Proof.
  intros k Hk Hkq j i Hj Hi. unfold invert_vdm16.
  apply (invert_vdmN_inverse 4 P16 mul16 inv16 16 16%nat (GF 16)
           F16_zero F16_one F16_add F16_mul F16_opp F16_inv)
    with (phi := @val 16) (psi := of_N16);
    first [field16 | exact F16_add_self | assumption].
Qed.

(* ------------------------------------------------------------------ *)
(* Part 5: examples                                                    *)
(* ------------------------------------------------------------------ *)
Definition canon256 (k n : nat) : list (list N) :=
  map (fun j => map (fun i => if Nat.ltb j k then (if Nat.eqb i j then 1 else 0)
                              else coef256 k i j) (seq 0 k)) (seq 0 n).
Definition canon16 (k n : nat) : list (list N) :=
  map (fun j => map (fun i => if Nat.ltb j k then (if Nat.eqb i j then 1 else 0)
                              else coef16 k i j) (seq 0 k)) (seq 0 n).

(* tmp_m of of_rs_new(3, 6) over GF(256): the points are 0, 1, 2, 4, 8, 16 *)
Example vdm_rows256_3_6 :
  vdm_rows N 0 1 mul256 6 3 (ptsN 8 P256 6)
  = [[1; 0; 0]; [1; 1; 1]; [1; 2; 4]; [1; 4; 16]; [1; 8; 64]; [1; 16; 29]].
Proof. vm_compute. reflexivity. Qed.

Example invert_vdm256_2 : invert_vdm256 2 = [[1; 0]; [1; 1]].
Proof. vm_compute. reflexivity. Qed.

Example build_enc256_2_4 : build_enc256 2 4 = [[1; 0]; [0; 1]; [3; 2]; [5; 4]].
Proof. vm_compute. reflexivity. Qed.
Example build_enc256_2_4_canon : build_enc256 2 4 = canon256 2 4.
Proof. vm_compute. reflexivity. Qed.

Example invert_vdm256_3 : invert_vdm256 3 = [[1; 0; 0]; [143; 245; 122]; [142; 244; 122]].
Proof. vm_compute. reflexivity. Qed.
(* the general Gauss-Jordan inversion of GaussJordan.v gives the same matrix *)
Example invert_vdm256_3_gj :
  invert_mat256 3 (vdm_rows N 0 1 mul256 3 3 (ptsN 8 P256 3)) = Some (invert_vdm256 3).
Proof. vm_compute. reflexivity. Qed.

Example build_enc256_3_6 :
  build_enc256 3 6
  = [[1; 0; 0]; [0; 1; 0]; [0; 0; 1]; [15; 8; 6]; [45; 48; 28]; [153; 224; 120]].
Proof. vm_compute. reflexivity. Qed.
Example build_enc256_3_6_canon : build_enc256 3 6 = canon256 3 6.
Proof. vm_compute. reflexivity. Qed.

(* k = 1: of_invert_vdm returns at once; every row of the generator is (1) *)
Example build_enc256_1_3 : build_enc256 1 3 = [[1]; [1]; [1]].
Proof. vm_compute. reflexivity. Qed.

Example build_enc256_8_24_canon : build_enc256 8 24 = canon256 8 24.
Proof. vm_compute. reflexivity. Qed.

Example build_enc16_3_6 :
  build_enc16 3 6
  = [[1; 0; 0]; [0; 1; 0]; [0; 0; 1]; [15; 8; 6]; [11; 5; 15]; [1; 1; 1]].
Proof. vm_compute. reflexivity. Qed.
Example build_enc16_3_6_canon : build_enc16 3 6 = canon16 3 6.
Proof. vm_compute. reflexivity. Qed.
Example build_enc16_5_16_canon : build_enc16 5 16 = canon16 5 16.
Proof. vm_compute. reflexivity. Qed.

(* of_invert_vdm on the Vandermonde matrix of the points 1, 2, 4 (p_0 <> 0):
   the coefficient loop yields c = (0, 12, 7) where
   (x+1)(x+2)(x+4) = x^3 + 7 x^2 + 14 x + 8, and the result is not the inverse *)
Example vdm_coeffs_p0_nonzero : vdm_coeffs N 0 N.lxor mul256 3 [1; 2; 4] = [0; 12; 7].
Proof. vm_compute. reflexivity. Qed.
Example invert_vdm_needs_p0_zero :
  mmul256 [[1; 1; 1]; [1; 2; 4]; [1; 4; 16]]
          (invert_vdm_mat N 0 1 N.lxor mul256 inv256 3 [[1; 1; 1]; [1; 2; 4]; [1; 4; 16]])
  <> mIN 3.
Proof. vm_compute. discriminate. Qed.

Print Assumptions vdm_coeffs_poly.
Print Assumptions vdm_row_spec.
Print Assumptions invert_vdm_gen_spec.
Print Assumptions invert_vdm_spec.
Print Assumptions invert_vdm_inverse.
Print Assumptions build_enc_unit.
Print Assumptions build_enc_spec.
Print Assumptions hom_build_enc.
Print Assumptions build_encN_spec.
Print Assumptions build_enc256_spec.
Print Assumptions build_enc256_shape.
Print Assumptions invert_vdm256_inverse.
Print Assumptions build_enc16_spec.
Print Assumptions build_enc16_shape.
Print Assumptions invert_vdm16_inverse.
Print Assumptions invert_vdm_needs_p0_zero.
