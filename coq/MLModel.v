(* Model M of of_linear_binary_code_finish_decoding_with_ml (of_ml_decoding.c), on the state of the
   streaming decoder model (ITModel.v: the sparse matrix rows `rws`, the partial sums `ct`, the
   per-row counters and the symbol table `tab`, all in matrix-column space):
     prepar_linear_system            - both per-row counters := number of entries left in the row
     simplify_..._with_a_symbol      - `simplify`: inject a known symbol into every equation of its
                                       column, delete the entries, and when one entry is left in a
                                       row whose symbol is unknown, decode it and recurse
     injection of the known symbols  - sources in ESI order, then repairs in the order `perm`
                                       (the C draws it with rand(); any order is a parameter here)
     create_simplified_linear_system - non-empty columns / rows, the two give-up exits
     dense system + solver           - DenseSolve.solve on a (number of matrix rows) x (number of
                                       non-empty columns) system; the constant terms are taken through
                                       index_rows (stale identity entries past the non-empty rows)
     write-back                      - the first (number of unknown repairs) unknowns are skipped,
                                       the others go to the unknown sources in ESI order
   The counters nb_source_symbol_ready / nb_repair_symbol_ready are not state here: the number of
   unknown repair symbols is recomputed from the table (modelling assumption, exercised by the
   correspondence).  Callbacks and buffers are not modelled (values only). *)
From Coq Require Import List Arith Bool.
From OFV Require Import ListAux ITModel DenseSolve.
Import ListNotations.
Set Implicit Arguments.

Section ML.
Variable Sy : Type. Variable sxor : Sy -> Sy -> Sy. Variable s0 : Sy.
Notation st := (st Sy).

Definition rm (c : nat) (l : list nat) : list nat := filter (fun x => negb (x =? c)) l.
Definition is_nil {A} (l : list A) : bool := match l with [] => true | _ => false end.

Definition prepar (s : st) : st :=
  mk (r s) (n s) (rws s) (map (@length nat) (rws s)) (map (@length nat) (rws s)) (ct s) (tab s) (fnd s).

(* row := rw, unknown counter := u, constant term := t *)
Definition set_row (s : st) (row : nat) (rw : list nat) (u : nat) (t : option Sy) : st :=
  mk (r s) (n s) (upd (rws s) row rw) (upd (unk s) row u) (enc s) (upd (ct s) row t) (tab s) (fnd s).

Fixpoint simplify (fuel : nat) (s : st) (c : nat) (v : Sy) : option st :=
  match fuel with O => None | S f =>
  match rows_with s c with
  | [] => Some s                                            (* empty column: nothing to do *)
  | rowsl =>
    let early := if r s <=? c then is_complete s else (false, s) in
    if fst early then Some (snd early) else
    fold_left (fun os row => match os with None => None | Some s =>
        let t := match nth row (ct s) None with None => v | Some t => sxor t v end in
        let u := getn (unk s) row - 1 in
        let rw := rm c (nth row (rws s) []) in
        let s1 := set_row s row rw u (Some t) in
        if u =? 1 then
          match rw with
          | c' :: _ =>
            match nth c' (tab s1) None with
            | Some _ => Some s1                              (* known, will be injected later *)
            | None => simplify f (set_tab (set_row s1 row (rm c' rw) (u - 1) None) c' t) c' t
            end
          | [] => None
          end
        else Some s1
      end) rowsl (Some (snd early))
  end end.

Definition inject (fuel : nat) (os : option st) (c : nat) : option st :=
  match os with None => None | Some s =>
    match nth c (tab s) None with Some v => simplify fuel s c v | None => Some s end end.

(* const_term[i] = tab_const_term_of_equ[index_rows[i]]; tab_const_term_of_equ[index_rows[i]] = NULL *)
Fixpoint take_ct (idx : list nat) (ctl : list (option Sy)) : list (option Sy) * list (option Sy) :=
  match idx with
  | [] => ([], ctl)
  | j :: rest => let '(b, ctl') := take_ct rest (upd ctl j None) in (nth j ctl None :: b, ctl')
  end.

Fixpoint write_back (srcs : list nat) (x : list Sy) (pos : nat) (tb : list (option Sy)) : list (option Sy) :=
  match srcs with
  | [] => tb
  | c :: rest => match nth c tb None with
                 | Some _ => write_back rest x pos tb
                 | None => write_back rest x (S pos) (upd tb c (Some (nth pos x s0)))
                 end
  end.

Record outcome := { o_st : st; o_ok : bool; o_solved : bool }.

Definition ml_finish (fuel : nat) (perm : list nat) (s : st) : option outcome :=
  let k := n s - r s in
  let s := prepar s in
  let os := fold_left (inject fuel) (map (fun i => r s + i) (seq 0 k)) (Some s) in
  let os := fold_left (inject fuel) perm os in
  match os with None => None | Some s =>
    let cols := filter (fun c => negb (is_nil (rows_with s c))) (seq 0 (n s)) in
    let rows := filter (fun i => negb (is_nil (nth i (rws s) []))) (seq 0 (r s)) in
    let give_up (s : st) := let '(b, s') := is_complete s in Some {| o_st := s'; o_ok := b; o_solved := false |} in
    if (length cols =? 0) || (length rows <? length cols) then give_up s else
    let q := length cols in
    let A := map (fun i => map (fun c => existsb (Nat.eqb c) (nth i (rws s) [])) cols) rows
             ++ repeat (repeat false q) (r s - length rows) in
    let idx := rows ++ seq (length rows) (r s - length rows) in
    let '(b, ct') := take_ct idx (ct s) in
    let s := mk (r s) (n s) (rws s) (unk s) (enc s) ct' (tab s) (fnd s) in
    match solve Sy sxor s0 (r s) q (Build_sys A b) with
    | None => give_up s
    | Some x =>
      let nrep := length (filter (fun c => match nth c (tab s) None with None => true | Some _ => false end) (seq 0 (r s))) in
      let tb := write_back (map (fun i => r s + i) (seq 0 k)) x nrep (tab s) in
      Some {| o_st := mk (r s) (n s) (rws s) (unk s) (enc s) (ct s) tb (fnd s); o_ok := true; o_solved := true |}
    end
  end.
End ML.
