(* The plain copies of of_matrix_sparse.c WITH their error exits: of_mod2sparse_copyrows / copycols clear the destination and then
   return at the first out-of-range index, keeping the rows (columns) copied before it.  Sparse.v's s_copyrows / s_copycols model the
   in-range case only (an out-of-range index reads as an empty row there); the stream `sparse` runs these checked versions, which
   coincide with them in range (copyrows_chk_inrange, copycols_chk_inrange). *)
From Coq Require Import Arith List Bool Lia.
From OFV Require Import ListAux Sparse SparseProofs SparseOpt SparseOptProofs.
Import ListNotations.

Definition s_copyrows_chk (m r : smat) (rows : list nat) : smat :=
  if nc r <? nc m then r else
  insert_all (s_clear r)
    (flat_map (fun i => map (fun j => (i, j)) (nth (nth i rows 0) (rws m) [])) (seq 0 (first_bad_row m rows (nr r)))).

Definition s_copycols_chk (m r : smat) (cols : list nat) : smat :=
  if nr r <? nr m then r else
  insert_all (s_clear r)
    (flat_map (fun j => map (fun i => (i, j)) (nth (nth j cols 0) (cls m) [])) (seq 0 (first_bad_col m cols (nc r)))).

Lemma copyrows_chk_inrange m r rows : (forall i, i < nr r -> nth i rows 0 < nr m) -> s_copyrows_chk m r rows = s_copyrows m r rows.
Proof.
  intros H. unfold s_copyrows_chk, s_copyrows, first_bad_row.
  rewrite (first_bad_all (nr m) rows (nr r) 0); [reflexivity|]. intros k Hk. apply H. lia.
Qed.

Lemma copycols_chk_inrange m r cols : (forall j, j < nc r -> nth j cols 0 < nc m) -> s_copycols_chk m r cols = s_copycols m r cols.
Proof.
  intros H. unfold s_copycols_chk, s_copycols, first_bad_col.
  rewrite (first_bad_all (nc m) cols (nc r) 0); [reflexivity|]. intros k Hk. apply H. lia.
Qed.

Theorem copyrows_chk_spec m r rows : WF m -> WF r -> nc m <= nc r ->
  WF (s_copyrows_chk m r rows) /\ nr (s_copyrows_chk m r rows) = nr r /\ nc (s_copyrows_chk m r rows) = nc r /\
  forall i j, has (s_copyrows_chk m r rows) i j = (i <? first_bad_row m rows (nr r)) && has m (nth i rows 0) j.
Proof.
  intros Wm Wr Hc. unfold s_copyrows_chk.
  destruct (Nat.ltb_spec (nc r) (nc m)) as [Hlt|_]; [lia|].
  set (p := first_bad_row m rows (nr r)).
  destruct (first_bad_spec (nr m) rows (nr r) 0) as (Hp & Hgood & _). fold (first_bad_row m rows (nr r)) in Hp, Hgood. fold p in Hp, Hgood.
  match goal with |- context [insert_all _ ?l] => set (es := l) end.
  assert (Hin : forall i j, In (i, j) es <-> i < p /\ In j (nth (nth i rows 0) (rws m) [])).
  { intros i j. apply (in_rowpairs (fun i => nth (nth i rows 0) (rws m) [])). }
  destruct (insert_all_clear_spec r es Wr) as (W' & En & Ec & Hh).
  { intros (i, j) He. apply Hin in He as (Hi & Hj). simpl. split; [lia|].
    assert (Hri : nth i rows 0 < nr m) by (apply Hgood; lia).
    destruct (wf_rs m Wm _ Hri) as (_ & Hr). specialize (Hr j Hj). lia. }
  split; [exact W'|]. split; [exact En|]. split; [exact Ec|].
  intros i j. apply bool_eq_iff. rewrite Hh, Hin, andb_true_iff, Nat.ltb_lt, has_In. reflexivity.
Qed.

Theorem copycols_chk_spec m r cols : WF m -> WF r -> nr m <= nr r ->
  WF (s_copycols_chk m r cols) /\ nr (s_copycols_chk m r cols) = nr r /\ nc (s_copycols_chk m r cols) = nc r /\
  forall i j, has (s_copycols_chk m r cols) i j = (j <? first_bad_col m cols (nc r)) && (i <? nr m) && has m i (nth j cols 0).
Proof.
  intros Wm Wr Hc. unfold s_copycols_chk.
  destruct (Nat.ltb_spec (nr r) (nr m)) as [Hlt|_]; [lia|].
  set (p := first_bad_col m cols (nc r)).
  destruct (first_bad_spec (nc m) cols (nc r) 0) as (Hp & Hgood & _). fold (first_bad_col m cols (nc r)) in Hp, Hgood. fold p in Hp, Hgood.
  assert (Hcols : forall j, j < p -> nth j cols 0 < nc m) by (intros j Hj; apply Hgood; lia).
  match goal with |- context [insert_all _ ?l] => set (es := l) end.
  assert (Hin : forall i j, In (i, j) es <-> j < p /\ In i (nth (nth j cols 0) (cls m) [])).
  { intros i j. apply (in_colpairs (fun j => nth (nth j cols 0) (cls m) [])). }
  destruct (insert_all_clear_spec r es Wr) as (W' & En & Ec & Hh).
  { intros (i, j) He. apply Hin in He as (Hj & Hi). simpl. split; [|lia].
    destruct (wf_cs m Wm _ (Hcols j Hj)) as (_ & Hr). specialize (Hr i Hi). lia. }
  split; [exact W'|]. split; [exact En|]. split; [exact Ec|].
  intros i j. apply bool_eq_iff. rewrite Hh, Hin, !andb_true_iff, !Nat.ltb_lt. split.
  - intros (Hj & Hi). apply (col_In_has m i _ Wm (Hcols j Hj)) in Hi. tauto.
  - intros ((Hj & Hi) & Hhas). split; [exact Hj|]. apply (col_In_has m i _ Wm (Hcols j Hj)). tauto.
Qed.

Print Assumptions copyrows_chk_spec.
Print Assumptions copycols_chk_spec.
