(* Executable wrapper for the correspondence check of LDPC-Staircase sessions that end with
   of_finish_decoding: streaming part as in ITRun.v, then MLModel.ml_finish with the injection order
   of the repair symbols that the C drew (the harness reseeds rand() and reports the permutation). *)
From Coq Require Import NArith Arith List Bool.
From OFV Require Import ITModel ITRun MLModel.
Import ListNotations.

Fixpoint it_steps_st (fuel k r L : nat) (s : st (list N)) (vals : list (list N)) (esis : list nat)
  : list (option obs) * option (st (list N)) :=
  match esis with
  | [] => ([], Some s)
  | e :: rest =>
    match decode bxor (repeat 0%N L) fuel s (col_of k r e) (nth e vals []) with
    | None => ([None], None)
    | Some s' => let '(l, f) := it_steps_st fuel k r L s' vals rest in (Some (observe k r s') :: l, f)
    end
  end.

Record fin_obs := { fo_ok : bool; fo_solved : bool; fo_obs : obs }.

(* returns the per-call observations, the observation after the last call (for of_set_available_symbols
   sessions, which are one call) and the outcome of of_finish_decoding *)
Definition ml_session (k r L : nat) (H : list (list nat)) (lastnull : bool) (vals : list (list N)) (esis : list nat) (perm : list nat)
  : list (option obs) * option obs * option fin_obs :=
  let n := k + r in
  let fuel := S (S n) in
  let s0 := init (list N) r n H in
  let s1 := if lastnull then decode bxor (repeat 0%N L) fuel s0 (col_of k r (n - 1)) (repeat 0%N L) else Some s0 in
  match s1 with
  | None => ([None], None, None)
  | Some s =>
    let '(l, f) := it_steps_st fuel k r L s vals esis in
    match f with
    | None => (l, None, None)
    | Some sf =>
      (l, Some (observe k r sf),
       match ml_finish bxor (repeat 0%N L) fuel perm sf with
       | None => None
       | Some o => Some {| fo_ok := o_ok o; fo_solved := o_solved o; fo_obs := observe k r (o_st o) |}
       end)
    end
  end.

(* callback log of a session (C11): the columns for which the library invokes the decoded-symbol
   callbacks, in call order, for the streaming part and (if requested) the ML finish.  Events.v's
   logged versions are proved to compute the same states as the functions above (EventsProofs.v). *)
From OFV Require Import Events.
Definition ev_session (k r L : nat) (H : list (list nat)) (lastnull : bool) (vals : list (list N)) (esis : list nat) (fin : bool) (perm : list nat)
  : option (list nat) :=
  let n := k + r in
  let fuel := S (S n) in
  let s0 := init (list N) r n H in
  let s1 := if lastnull then decode bxor (repeat 0%N L) fuel s0 (col_of k r (n - 1)) (repeat 0%N L) else Some s0 in
  match s1 with
  | None => None
  | Some s =>
    match run_ev bxor (repeat 0%N L) fuel s (map (fun e => (col_of k r e, nth e vals [])) esis) with
    | None => None
    | Some (sf, l1) =>
      if fin then match ml_finish_ev bxor (repeat 0%N L) fuel perm sf with None => None | Some (_, l2) => Some (l1 ++ l2) end
      else Some l1
    end
  end.
