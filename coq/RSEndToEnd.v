(* RSEndToEnd: the Reed-Solomon session theorems at the level of real symbols.

   RSSession proves the session theorems with one field element per symbol.  Here a symbol is a
   vector of L bytes; the encoder is the model of RSEnc (rs8_repair / rs4_repair: every byte
   column is encoded independently, for GF(2^4) every byte carries two field elements), the
   decoder applies the decoding core of RSCore to every byte column (for GF(2^4): to the high
   and to the low nibble column) and transposes the result back, and the API layer is the model
   of RSApi instantiated with B := sym.

   Part 1: list utilities (option sequencing, columns, transposition).
   Part 2: the session theorems, generic in the buffer type B, in the core and in the codeword
           (RSSession's Section Gen / Few with B instead of N).
   Part 3: GF(2^8): encode8, core8_sym, S1 (core8_sym_correct), S2 (core8_sym_core_ok),
           S3 (the rs8_sym theorems).
   Part 4: GF(2^4): encode4, core4_sym, the same theorems.
   Part 5: examples. *)
From Coq Require Import List Arith NArith Bool Lia.
From OFV Require Import ListAux RSApi RSApiProofs GF2Poly RSSpec GFField RSCanon RSEnc RSCore.
Import ListNotations.

Definition sym := list N.   (* a symbol: L bytes *)

(* ------------------------------------------------------------------ *)
(* Part 1: list utilities                                              *)
(* ------------------------------------------------------------------ *)
(* Some of all the values if every entry is present *)
Fixpoint opt_all {A : Type} (l : list (option A)) : option (list A) :=
  match l with
  | [] => Some []
  | None :: _ => None
  | Some x :: r => match opt_all r with Some xs => Some (x :: xs) | None => None end
  end.

Lemma opt_all_map_some : forall (A C : Type) (f : C -> option A) (g : C -> A) (l : list C),
  (forall x, In x l -> f x = Some (g x)) -> opt_all (map f l) = Some (map g l).
Proof.
  intros A C f g l. induction l as [|x l IH]; intros H.
  - reflexivity.
  - cbn [map opt_all]. rewrite (H x (or_introl eq_refl)).
    rewrite IH by (intros y Hy; apply H; right; exact Hy). reflexivity.
Qed.

Lemma opt_all_total : forall (A C : Type) (f : C -> option A) (l : list C),
  (forall x, In x l -> exists v, f x = Some v) ->
  exists vs, opt_all (map f l) = Some vs.
Proof.
  intros A C f l. induction l as [|x l IH]; intros H.
  - exists []. reflexivity.
  - destruct (H x (or_introl eq_refl)) as [v Ev].
    destruct (IH (fun y Hy => H y (or_intror Hy))) as [vs Evs].
    exists (v :: vs). cbn [map opt_all]. rewrite Ev, Evs. reflexivity.
Qed.

Lemma e2e_nth_map_seq : forall (A : Type) (f : nat -> A) (m i : nat) (d : A),
  i < m -> nth i (map f (seq 0 m)) d = f i.
Proof.
  intros A f m i d Hi.
  rewrite (nth_indep _ d (f 0)) by (rewrite map_length, seq_length; exact Hi).
  rewrite (map_nth f (seq 0 m) 0 i). rewrite seq_nth by exact Hi. reflexivity.
Qed.

Lemma e2e_map_nth_seq : forall (A : Type) (l : list A) (d : A) (m : nat),
  length l = m -> map (fun i => nth i l d) (seq 0 m) = l.
Proof.
  intros A l d m Hm. apply (nth_ext _ _ d d).
  - rewrite map_length, seq_length. symmetry. exact Hm.
  - intros i Hi. rewrite map_length, seq_length in Hi. apply e2e_nth_map_seq. exact Hi.
Qed.

(* byte b of symbol i = element i of byte column b *)
Lemma nth_byte_col : forall (src : list sym) (b i : nat),
  nth i (byte_col src b) 0%N = nth b (nth i src []) 0%N.
Proof.
  intros src b i. unfold byte_col. revert i. induction src as [|s src IH]; intros i.
  - destruct i; destruct b; reflexivity.
  - destruct i as [|i]; cbn [map nth]; [reflexivity|apply IH].
Qed.

Lemma byte_col_length : forall (src : list sym) b, length (byte_col src b) = length src.
Proof. intros src b. unfold byte_col. apply map_length. Qed.

(* the column table of byte b: what the decoder sees of the availability table in column b *)
Definition col_tab (f : sym -> N) (t : list (option sym)) : list (option N) :=
  map (option_map f) t.

Lemma col_tab_length : forall f t, length (col_tab f t) = length t.
Proof. intros f t. unfold col_tab. apply map_length. Qed.

Lemma col_tab_nth : forall f t e, nth e (col_tab f t) None = option_map f (nth e t None).
Proof. intros f t e. unfold col_tab. exact (map_nth (option_map f) t None e). Qed.

Lemma col_tab_count : forall f t, count_some (col_tab f t) = count_some t.
Proof.
  intros f t. unfold count_some, col_tab. induction t as [|x t IH].
  - reflexivity.
  - cbn [map filter]. destruct x as [s|]; cbn [option_map is_some length]; rewrite IH; reflexivity.
Qed.

(* symbols from columns: symbol i = the list over the columns of their value i *)
Definition transpose_cols (k' : nat) (cols : list (list N)) : list sym :=
  map (fun i => map (fun c => nth i c 0%N) cols) (seq 0 k').

Lemma transpose_cols_length : forall k' cols, length (transpose_cols k' cols) = k'.
Proof. intros k' cols. unfold transpose_cols. now rewrite map_length, seq_length. Qed.

(* ------------------------------------------------------------------ *)
(* Part 2: the session theorems, generic in B                          *)
(* ------------------------------------------------------------------ *)
(* the decoded buffer holds the decoded value *)
Definition mkidB (B : Type) : nat -> B -> B := fun _ v => v.

Lemma e2e_firstn_app_exact : forall (A : Type) (l1 l2 : list A) (m : nat),
  m = length l1 -> firstn m (l1 ++ l2) = l1.
Proof.
  intros A l1 l2 m E. subst m. induction l1 as [|x l1 IH].
  - reflexivity.
  - cbn [length app firstn]. rewrite IH. reflexivity.
Qed.

Section GenB.
  Variable B : Type.
  Variable d : B.
  Variable core : nat -> list (option B) -> option (list B).
  Variable cb : bool.
  Variables k n : nat.
  Variable src : list B.
  Variable el : nat -> B.                 (* the codeword of src *)

  Hypothesis Hk1 : 1 <= k.
  Hypothesis Hkn : k <= n.
  Hypothesis Hls : length src = k.
  Hypothesis el_sys : forall e, e < k -> el e = nth e src d.
  Hypothesis core_ok : forall t : list (option B), length t = n -> k <= count_some t ->
    exists vals, core k t = Some vals /\ length vals = k.
  Hypothesis core_cw : forall t : list (option B), length t = n ->
    (forall e, e < n -> nth e t None = None \/ nth e t None = Some (el e)) ->
    k <= count_some t -> core k t = Some src.

  Definition CWB (t : list (option B)) : Prop :=
    length t = n /\ forall e, e < n -> nth e t None = None \/ nth e t None = Some (el e).

  Lemma all_someB : forall l : list (option B), count_some l = length l ->
    forall j, j < length l -> exists x, nth j l None = Some x.
  Proof.
    intros l. induction l as [|a l IH]; intros Hc j Hj.
    - cbn [length] in Hj. lia.
    - pose proof (count_some_le_length B l) as Hle.
      unfold count_some in *. destruct a as [v|]; cbn [filter is_some length] in *.
      + destruct j as [|j]; cbn [nth].
        * eexists. reflexivity.
        * apply IH; lia.
      + lia.
  Qed.

  Lemma nth_map_someB_lt : forall j, j < k -> nth j (map Some src) None = Some (nth j src d).
  Proof.
    intros j Hj.
    rewrite (nth_indep (map Some src) None (Some d)) by (rewrite map_length; lia).
    apply (map_nth Some src d j).
  Qed.

  Lemma cwB_firstn : forall t, CWB t -> count_some (firstn k t) = k -> firstn k t = map Some src.
  Proof.
    intros t [HL Ht] Hc.
    assert (HLf : length (firstn k t) = k) by (apply firstn_length_le; lia).
    apply (nth_ext _ _ None None).
    - rewrite map_length. lia.
    - intros j Hj. rewrite HLf in Hj. rewrite nth_map_someB_lt by exact Hj.
      destruct (all_someB (firstn k t) ltac:(lia) j ltac:(lia)) as [x Ex].
      rewrite (nth_firstn_lt (option B) t k j None Hj) in *.
      destruct (Ht j ltac:(lia)) as [E|E]; rewrite E in Ex; [discriminate Ex|].
      rewrite E, el_sys by exact Hj. reflexivity.
  Qed.

  Lemma fill_tabB : forall (vals : list B) (t : list (option B)) i ev,
    length vals <= length t ->
    (forall j, j < length vals -> nth j t None = None \/ nth j t None = Some (nth j vals d)) ->
    fst (fill cb (mkidB B) vals t i ev) = map Some vals ++ skipn (length vals) t.
  Proof.
    intros vals. induction vals as [|v vals IH]; intros t i ev HL H.
    - destruct t; reflexivity.
    - destruct t as [|e t]; [cbn [length] in HL; lia|].
      cbn [length] in HL.
      assert (Ht : forall j, j < length vals ->
                   nth j t None = None \/ nth j t None = Some (nth j vals d)).
      { intros j Hj. apply (H (S j)). cbn [length]. lia. }
      pose proof (H 0 ltac:(cbn [length]; lia)) as H0. cbn [nth] in H0.
      cbn [fill length skipn map app].
      destruct e as [x|].
      + specialize (IH t (S i) ev ltac:(lia) Ht).
        destruct (fill cb (mkidB B) vals t (S i) ev) as [t2 ev2]. cbn [fst] in *.
        destruct H0 as [H0|H0]; [discriminate H0|]. injection H0 as H0. subst x.
        rewrite IH. reflexivity.
      + specialize (IH t (S i) (if cb then ev ++ [i] else ev) ltac:(lia) Ht).
        destruct (fill cb (mkidB B) vals t (S i) (if cb then ev ++ [i] else ev)) as [t2 ev2].
        cbn [fst] in *. unfold mkidB. rewrite IH. reflexivity.
  Qed.

  Lemma cwB_filled : forall t, CWB t -> CWB (map Some src ++ skipn k t).
  Proof.
    intros t [HL Ht]. split.
    - rewrite app_length, map_length, skipn_length. lia.
    - intros e He. destruct (Nat.lt_ge_cases e k) as [Hek|Hek].
      + right. rewrite app_nth1 by (rewrite map_length; lia).
        rewrite nth_map_someB_lt by exact Hek. rewrite el_sys by exact Hek. reflexivity.
      + rewrite app_nth2 by (rewrite map_length; lia). rewrite map_length, Hls.
        rewrite nth_skipn_add. replace (k + (e - k)) with e by lia. apply Ht. exact He.
  Qed.

  Lemma finish_cwB : forall s : rs B, fin s = false -> rk s = k -> CWB (tab s) ->
    navail s = count_some (tab s) -> navail_src s = count_some (firstn k (tab s)) ->
    k <= navail s ->
    exists s', rs_finish core cb (mkidB B) s = (s', OK) /\ fin s' = true /\ rk s' = k /\
               CWB (tab s') /\ firstn k (tab s') = map Some src.
  Proof.
    intros s Hf Hk Hcw Hna Hns Hge. unfold rs_finish. rewrite Hf, Hk.
    destruct (Nat.ltb_spec (navail s) k) as [Hlt|_]; [lia|].
    destruct (Nat.eqb_spec (navail_src s) k) as [Heq|Hne].
    - eexists. split; [reflexivity|]. cbn [fin rk tab].
      split; [reflexivity|]. split; [reflexivity|]. split; [exact Hcw|].
      apply cwB_firstn; [exact Hcw|lia].
    - destruct Hcw as [HL Ht].
      rewrite (core_cw (tab s) HL Ht ltac:(lia)).
      pose proof (fill_tabB src (tab s) 0 (evs s)) as HF.
      destruct (fill cb (mkidB B) src (tab s) 0 (evs s)) as [t2 ev2]. cbn [fst] in HF.
      rewrite Hls in HF.
      assert (E2 : t2 = map Some src ++ skipn k (tab s)).
      { apply HF; [lia|]. intros j Hj.
        destruct (Ht j ltac:(lia)) as [E|E]; [left; exact E|right].
        rewrite E, el_sys by exact Hj. reflexivity. }
      eexists. split; [reflexivity|]. cbn [fin rk tab]. subst t2.
      split; [reflexivity|]. split; [reflexivity|]. split.
      + apply cwB_filled. split; assumption.
      + apply e2e_firstn_app_exact. rewrite map_length. lia.
  Qed.

  Record JB (s : rs B) : Prop := {
    jb_k : rk s = k;
    jb_cw : CWB (tab s);
    jb_open : fin s = false ->
      navail s = count_some (tab s) /\ navail_src s = count_some (firstn k (tab s));
    jb_done : fin s = true -> firstn k (tab s) = map Some src }.

  Lemma init_JB : JB (rs_init B k n).
  Proof.
    constructor; cbn [rs_init rk tab fin navail navail_src].
    - reflexivity.
    - split; [apply repeat_length|]. intros e _. left. apply nth_repeat_none.
    - intros _. split.
      + rewrite <- (firstn_all (repeat None n)). symmetry. apply count_some_repeat_none.
      + symmetry. apply count_some_repeat_none.
    - discriminate.
  Qed.

  Lemma step_JB : forall s e, JB s -> e < n -> JB (step B core cb (mkidB B) s (e, el e)).
  Proof.
    intros s e I He. unfold step, rs_decode_with_new_symbol. cbn [fst snd].
    destruct (fin s) eqn:Hf; [cbn [fst]; exact I|].
    destruct (jb_open s I Hf) as [Hna Hns].
    destruct (jb_cw s I) as [HL Ht].
    destruct (nth e (tab s) None) as [x|] eqn:Hx; [cbn [fst]; exact I|].
    set (t1 := upd (tab s) e (Some (el e))).
    assert (Hcw1 : CWB t1).
    { split; [unfold t1; rewrite upd_length; exact HL|].
      intros e' He'. unfold t1. destruct (Nat.eq_dec e' e) as [E|Hne].
      - subst e'. right. apply nth_upd_eq. lia.
      - rewrite nth_upd_neq by lia. apply Ht. exact He'. }
    assert (Hc1 : count_some t1 = S (navail s)).
    { unfold t1. rewrite (count_some_upd B k n Hkn); [lia|lia|exact Hx]. }
    assert (Hs1 : (if e <? rk s then S (navail_src s) else navail_src s)
                  = count_some (firstn k t1)).
    { unfold t1. rewrite firstn_upd, (jb_k s I).
      destruct (Nat.ltb_spec e k) as [Hek|Hek]; [|exact Hns].
      rewrite (count_some_upd B k n Hkn); [lia| |].
      - rewrite firstn_length. lia.
      - rewrite (nth_firstn_lt (option B) (tab s) k e None Hek). exact Hx. }
    cbn [rk rn tab navail navail_src fin evs].
    rewrite Hs1. rewrite (jb_k s I).
    destruct (Nat.eqb_spec (count_some (firstn k t1)) k) as [Heq|Hne].
    - cbn [fst]. constructor; cbn [rk tab fin navail navail_src].
      + reflexivity.
      + exact Hcw1.
      + discriminate.
      + intros _. apply cwB_firstn; assumption.
    - destruct (Nat.leb_spec k (S (navail s))) as [Hge|Hlt].
      + set (s1 := {| rk := k; rn := rn s; tab := t1; navail := S (navail s);
                      navail_src := count_some (firstn k t1); fin := false; evs := evs s |}).
        destruct (finish_cwB s1 eq_refl eq_refl Hcw1 (eq_sym Hc1) eq_refl Hge)
          as [s' [E [F' [K' [C' S']]]]].
        rewrite E. cbn [fst]. constructor.
        * exact K'.
        * exact C'.
        * intros F0. rewrite F0 in F'. discriminate F'.
        * intros _. exact S'.
      + cbn [fst]. constructor; cbn [rk tab fin navail navail_src].
        * reflexivity.
        * exact Hcw1.
        * intros _. split; [symmetry; exact Hc1|reflexivity].
        * discriminate.
  Qed.

  (* a history of submissions of codeword symbols *)
  Definition cw_histB (h : list (nat * B)) : Prop :=
    forall ev, In ev h -> fst ev < n /\ snd ev = el (fst ev).

  Lemma fold_JB : forall h s, JB s -> cw_histB h ->
    JB (fold_left (step B core cb (mkidB B)) h s).
  Proof.
    intros h. induction h as [|ev h IH]; intros s I Hh; cbn [fold_left].
    - exact I.
    - apply IH.
      + destruct (Hh ev (or_introl eq_refl)) as [H1 H2].
        destruct ev as [e b]. cbn [fst snd] in H1, H2. subst b. apply step_JB; assumption.
      + intros ev' Hin. apply Hh. right. exact Hin.
  Qed.

  Lemma run_JB : forall h, cw_histB h -> JB (run B core cb (mkidB B) k n h).
  Proof. intros h Hh. unfold run. apply fold_JB; [exact init_JB|exact Hh]. Qed.

  Lemma finish_JB : forall s, JB s -> JB (fst (rs_finish core cb (mkidB B) s)).
  Proof.
    intros s I. destruct (fin s) eqn:Hf.
    - unfold rs_finish. rewrite Hf. exact I.
    - destruct (jb_open s I Hf) as [Hna Hns].
      destruct (Nat.lt_ge_cases (navail s) k) as [Hlt|Hge].
      + unfold rs_finish. rewrite Hf. rewrite (jb_k s I).
        destruct (Nat.ltb_spec (navail s) k) as [_|Hge]; [exact I|lia].
      + destruct (finish_cwB s Hf (jb_k s I) (jb_cw s I) Hna Hns Hge)
          as [s' [E [F' [K' [C' S']]]]].
        rewrite E. cbn [fst]. constructor.
        * exact K'.
        * exact C'.
        * intros F0. rewrite F0 in F'. discriminate F'.
        * intros _. exact S'.
  Qed.

  (* R1: every entry of the table is empty or holds the codeword symbol of its position *)
  Definition cw_tableB (t : list (option B)) : Prop :=
    length t = n /\
    forall e, e < n ->
      (nth e t None = None \/ nth e t None = Some (el e)) /\
      (e < k -> nth e t None = None \/ nth e t None = Some (nth e src d)).

  Lemma CWB_cw_tableB : forall t, CWB t -> cw_tableB t.
  Proof.
    intros t [HL Ht]. split; [exact HL|]. intros e He. split; [apply Ht; exact He|].
    intros Hek. rewrite <- el_sys by exact Hek. apply Ht. exact He.
  Qed.

  Theorem genB_run_table : forall h, cw_histB h ->
    cw_tableB (tab (run B core cb (mkidB B) k n h)) /\
    cw_tableB (tab (fst (rs_finish core cb (mkidB B) (run B core cb (mkidB B) k n h)))).
  Proof.
    intros h Hh. pose proof (run_JB h Hh) as I. split; apply CWB_cw_tableB.
    - exact (jb_cw _ I).
    - exact (jb_cw _ (finish_JB _ I)).
  Qed.

  (* R2 *)
  Theorem genB_run_complete : forall h, cw_histB h -> k <= ndistinct n (map fst h) ->
    rs_is_complete (run B core cb (mkidB B) k n h) = true /\
    rs_source_tab (run B core cb (mkidB B) k n h) = Some (map Some src).
  Proof.
    intros h Hh Hd. pose proof (run_JB h Hh) as I.
    assert (Hf : fin (run B core cb (mkidB B) k n h) = true).
    { apply (rs_complete_iff_k_distinct_proof B core cb (mkidB B) k n Hkn core_ok h Hk1
               (fun ev Hin => proj1 (Hh ev Hin))). exact Hd. }
    split; [exact Hf|]. unfold rs_source_tab. rewrite Hf, (jb_k _ I), (jb_done _ I Hf).
    reflexivity.
  Qed.

  Theorem genB_session_recovers : forall h, cw_histB h -> k <= ndistinct n (map fst h) ->
    let r := rs_finish core cb (mkidB B) (run B core cb (mkidB B) k n h) in
    snd r = OK /\ rs_source_tab (fst r) = Some (map Some src).
  Proof.
    intros h Hh Hd. destruct (genB_run_complete h Hh Hd) as [Hf Hs].
    cbv zeta. unfold rs_finish. unfold rs_is_complete in Hf. rewrite Hf. cbn [fst snd].
    split; [reflexivity|exact Hs].
  Qed.

  (* R2': of_set_available_symbols then of_finish_decoding *)
  Theorem genB_avail_recovers : forall t : list (option B), length t = n ->
    (forall e, e < n -> nth e t None = None \/ nth e t None = Some (el e)) ->
    k <= count_some t ->
    let r := rs_finish core cb (mkidB B) (fst (rs_set_available (rs_init B k n) t)) in
    snd r = OK /\ rs_is_complete (fst r) = true /\
    rs_source_tab (fst r) = Some (map Some src).
  Proof.
    intros t HL Ht Hc. cbv zeta.
    destruct (finish_cwB (fst (rs_set_available (rs_init B k n) t))
                eq_refl eq_refl (conj HL Ht) eq_refl eq_refl Hc)
      as [s' [E [F' [K' [_ S']]]]].
    rewrite E. cbn [fst snd]. split; [reflexivity|]. split; [exact F'|].
    unfold rs_source_tab. rewrite F', K', S'. reflexivity.
  Qed.
End GenB.

(* R3 / R3': fewer than k symbols (whatever the submitted values are) *)
Section FewB.
  Variable B : Type.
  Variable core : nat -> list (option B) -> option (list B).
  Variables (cb : bool) (mk : nat -> B -> B).
  Variables k n : nat.
  Hypothesis Hk1 : 1 <= k.
  Hypothesis Hkn : k <= n.
  Hypothesis core_ok : forall t : list (option B), length t = n -> k <= count_some t ->
    exists vals, core k t = Some vals /\ length vals = k.

  Theorem genB_session_too_few : forall h : list (nat * B),
    (forall ev, In ev h -> fst ev < n) -> ndistinct n (map fst h) < k ->
    let r := rs_finish core cb mk (run B core cb mk k n h) in
    snd r = FAILURE /\ rs_source_tab (fst r) = None /\
    rs_is_complete (run B core cb mk k n h) = false.
  Proof.
    intros h Hh Hd. cbv zeta.
    pose proof (rs_finish_truthful_proof B core cb mk k n Hkn core_ok h Hk1 Hh) as HT.
    cbv zeta in HT. destruct HT as [_ [HF HC]].
    pose proof (rs_complete_iff_k_distinct_proof B core cb mk k n Hkn core_ok h Hk1 Hh) as HR.
    assert (Hc : rs_is_complete (fst (rs_finish core cb mk (run B core cb mk k n h))) = false).
    { destruct (rs_is_complete (fst (rs_finish core cb mk (run B core cb mk k n h))));
        [|reflexivity]. pose proof (proj1 HC eq_refl). lia. }
    split; [apply HF; exact Hc|]. split.
    - unfold rs_source_tab. unfold rs_is_complete in Hc. rewrite Hc. reflexivity.
    - destruct (rs_is_complete (run B core cb mk k n h)); [|reflexivity].
      pose proof (proj1 HR eq_refl). lia.
  Qed.
End FewB.

Theorem genB_avail_too_few :
  forall (B : Type) (core : nat -> list (option B) -> option (list B)) (cb : bool)
         (mk : nat -> B -> B) (k n : nat) (t : list (option B)),
  count_some t < k ->
  let r := rs_finish core cb mk (fst (rs_set_available (rs_init B k n) t)) in
  snd r = FAILURE /\ rs_is_complete (fst r) = false /\ rs_source_tab (fst r) = None.
Proof.
  intros B core cb mk k n t Hc. cbv zeta. unfold rs_finish, rs_set_available, rs_init.
  cbn [fst fin navail rk].
  destruct (Nat.ltb_spec (count_some t) k) as [_|Hge]; [|lia].
  cbn [fst snd]. split; [reflexivity|]. split; reflexivity.
Qed.

(* ------------------------------------------------------------------ *)
(* Part 3: GF(2^8), one field element per byte                         *)
(* ------------------------------------------------------------------ *)
(* a block of well-formed symbols: L bytes each *)
Definition wf_block (L : nat) (src : list sym) : Prop :=
  Forall (fun s : sym => length s = L /\ Forall (fun a => (a < 256)%N) s) src.

Lemma wf_block_nth_length : forall L src i, wf_block L src -> i < length src ->
  length (nth i src []) = L.
Proof.
  intros L src i Hwf Hi. unfold wf_block in Hwf. rewrite Forall_forall in Hwf.
  exact (proj1 (Hwf _ (nth_In src [] Hi))).
Qed.

Lemma wf_block_byte : forall L src i b, wf_block L src -> i < length src -> b < L ->
  (nth b (nth i src []) 0 < 256)%N.
Proof.
  intros L src i b Hwf Hi Hb. unfold wf_block in Hwf. rewrite Forall_forall in Hwf.
  destruct (Hwf _ (nth_In src [] Hi)) as [HL HF]. rewrite Forall_forall in HF.
  apply HF. apply nth_In. rewrite HL. exact Hb.
Qed.

Lemma byte_col_below : forall L src b, wf_block L src -> b < L ->
  Forall (fun a => (a < 256)%N) (byte_col src b).
Proof.
  intros L src b Hwf Hb. apply Forall_forall. intros a Ha.
  apply (In_nth _ _ 0%N) in Ha. destruct Ha as [i [Hi Ea]].
  rewrite byte_col_length in Hi. rewrite nth_byte_col in Ea. subst a.
  apply (wf_block_byte L); assumption.
Qed.

(* the columns of a block, transposed back, are the block *)
Lemma transpose_byte_cols : forall L k src, wf_block L src -> length src = k ->
  transpose_cols k (map (byte_col src) (seq 0 L)) = src.
Proof.
  intros L k src Hwf Hls. apply (nth_ext _ _ [] []).
  - rewrite transpose_cols_length. symmetry. exact Hls.
  - intros i Hi. rewrite transpose_cols_length in Hi. unfold transpose_cols.
    rewrite e2e_nth_map_seq by exact Hi. rewrite map_map.
    rewrite (map_ext _ (fun b => nth b (nth i src []) 0%N)) by (intros b; apply nth_byte_col).
    apply e2e_map_nth_seq. apply wf_block_nth_length; [exact Hwf|lia].
Qed.

(* the encoding symbol with ESI e of the block src (k source symbols of L bytes) *)
Definition encode8 (k n L : nat) (src : list sym) (e : nat) : sym :=
  if e <? k then nth e src [] else rs8_repair k L (invdens 8 P256 mul256 inv256 k) src e.

Lemma encode8_systematic : forall k n L src e, e < k -> encode8 k n L src e = nth e src [].
Proof.
  intros k n L src e He. unfold encode8.
  destruct (Nat.ltb_spec e k) as [_|H]; [reflexivity|lia].
Qed.

(* byte b of the encoding symbol e = element e of the codeword of byte column b *)
Lemma encode8_byte : forall k n L src e b, k <= 256 -> length src = k -> wf_block L src ->
  b < L -> nth b (encode8 k n L src e) 0%N = elem256 k (byte_col src b) e.
Proof.
  intros k n L src e b Hk Hls Hwf Hb. unfold encode8.
  destruct (Nat.ltb_spec e k) as [He|He].
  - rewrite elem256_systematic.
    + symmetry. apply nth_byte_col.
    + exact Hk.
    + rewrite byte_col_length. exact Hls.
    + apply (byte_col_below L); assumption.
    + exact He.
  - apply rs8_repair_byte; assumption.
Qed.

(* the decoding core at symbol level: the core of RSCore applied to each of the L byte columns
   of the table, transposed back; None if any column fails *)
Definition core8_sym (L n k' : nat) (t : list (option sym)) : option (list sym) :=
  match opt_all (map (fun b => rs_core256 k' n (col_tab (fun s => nth b s 0%N) t)) (seq 0 L)) with
  | None => None
  | Some cols => Some (transpose_cols k' cols)
  end.

(* S1 *)
Theorem core8_sym_correct : forall k n L (src : list sym) (t : list (option sym)),
  1 <= k <= n -> n <= 256 -> length src = k -> wf_block L src ->
  length t = n ->
  (forall e, e < n -> nth e t None = None \/ nth e t None = Some (encode8 k n L src e)) ->
  k <= count_some t ->
  core8_sym L n k t = Some src.
Proof.
  intros k n L src t Hk Hn Hls Hwf HL Ht Hc. unfold core8_sym.
  rewrite (opt_all_map_some _ _ _ (byte_col src)).
  - rewrite (transpose_byte_cols L k src Hwf Hls). reflexivity.
  - intros b Hb. apply in_seq in Hb.
    apply (rs_core256_correct k n (byte_col src b) _ Hk Hn).
    + rewrite byte_col_length. exact Hls.
    + apply (byte_col_below L); [exact Hwf|lia].
    + rewrite col_tab_length. exact HL.
    + intros e He. rewrite col_tab_nth. destruct (Ht e He) as [E|E]; rewrite E.
      * left. reflexivity.
      * right. cbn [option_map]. f_equal. apply encode8_byte; [lia|exact Hls|exact Hwf|lia].
    + rewrite col_tab_count. exact Hc.
Qed.

(* S2: the core succeeds on every table with at least k entries *)
Theorem core8_sym_core_ok : forall L k n, n <= 256 ->
  forall t : list (option sym), length t = n -> k <= count_some t ->
  exists vals, core8_sym L n k t = Some vals /\ length vals = k.
Proof.
  intros L k n Hn t HL Hc. unfold core8_sym.
  destruct (opt_all_total _ _
              (fun b => rs_core256 k n (col_tab (fun s => nth b s 0%N) t)) (seq 0 L)) as [cols E].
  - intros b _.
    destruct (rs_core256_core_ok k n Hn (col_tab (fun s => nth b s 0%N) t)) as [v [Ev _]].
    + rewrite col_tab_length. exact HL.
    + rewrite col_tab_count. exact Hc.
    + exists v. exact Ev.
  - rewrite E. eexists. split; [reflexivity|]. apply transpose_cols_length.
Qed.

Theorem core8_sym_none : forall L k n (t : list (option sym)), 1 <= L ->
  length t = n -> count_some t < k -> core8_sym L n k t = None.
Proof.
  intros L k n t HL1 HL Hc. unfold core8_sym. destruct L as [|L]; [lia|].
  cbn [seq map opt_all]. rewrite rs_core256_none; [reflexivity| |].
  - rewrite col_tab_length. exact HL.
  - rewrite col_tab_count. exact Hc.
Qed.

(* S3: the sessions.  A history of submissions of encoding symbols of the block src *)
Definition enc8_hist (k n L : nat) (src : list sym) (h : list (nat * sym)) : Prop :=
  forall ev, In ev h -> fst ev < n /\ snd ev = encode8 k n L src (fst ev).

Section Sym8.
  Variables (cb : bool) (k n L : nat) (src : list sym).
  Hypothesis Hk : 1 <= k <= n.
  Hypothesis Hn : n <= 256.
  Hypothesis Hls : length src = k.
  Hypothesis Hwf : wf_block L src.

  Let core := core8_sym L n.
  Let mk := mkidB sym.

  (* R1 *)
  Theorem rs8_sym_run_table : forall h, enc8_hist k n L src h ->
    forall s : rs sym,
    s = run sym core cb mk k n h \/ s = fst (rs_finish core cb mk (run sym core cb mk k n h)) ->
    length (tab s) = n /\
    forall e, e < n ->
      (nth e (tab s) None = None \/ nth e (tab s) None = Some (encode8 k n L src e)) /\
      (e < k -> nth e (tab s) None = None \/ nth e (tab s) None = Some (nth e src [])).
  Proof.
    intros h Hh s Hs.
    destruct (genB_run_table sym [] core cb k n src (encode8 k n L src)
                (proj1 Hk) (proj2 Hk) Hls
                (fun e He => encode8_systematic k n L src e He)
                (fun t HL Ht Hc => core8_sym_correct k n L src t Hk Hn Hls Hwf HL Ht Hc)
                h Hh) as [A B].
    destruct Hs as [Hs|Hs]; subst s; [exact A|exact B].
  Qed.

  (* R2 without of_finish_decoding *)
  Theorem rs8_sym_run_recovers_the_sources : forall h, enc8_hist k n L src h ->
    k <= ndistinct n (map fst h) ->
    rs_is_complete (run sym core cb mk k n h) = true /\
    rs_source_tab (run sym core cb mk k n h) = Some (map Some src).
  Proof.
    intros h Hh Hd.
    exact (genB_run_complete sym [] core cb k n src (encode8 k n L src)
             (proj1 Hk) (proj2 Hk) Hls
             (fun e He => encode8_systematic k n L src e He)
             (core8_sym_core_ok L k n Hn)
             (fun t HL Ht Hc => core8_sym_correct k n L src t Hk Hn Hls Hwf HL Ht Hc)
             h Hh Hd).
  Qed.

  (* R2 *)
  Theorem rs8_sym_session_recovers_the_sources : forall h, enc8_hist k n L src h ->
    k <= ndistinct n (map fst h) ->
    let r := rs_finish core cb mk (run sym core cb mk k n h) in
    snd r = OK /\ rs_source_tab (fst r) = Some (map Some src).
  Proof.
    intros h Hh Hd.
    exact (genB_session_recovers sym [] core cb k n src (encode8 k n L src)
             (proj1 Hk) (proj2 Hk) Hls
             (fun e He => encode8_systematic k n L src e He)
             (core8_sym_core_ok L k n Hn)
             (fun t HL Ht Hc => core8_sym_correct k n L src t Hk Hn Hls Hwf HL Ht Hc)
             h Hh Hd).
  Qed.

  (* R3 *)
  Theorem rs8_sym_session_too_few : forall h, enc8_hist k n L src h ->
    ndistinct n (map fst h) < k ->
    let r := rs_finish core cb mk (run sym core cb mk k n h) in
    snd r = FAILURE /\ rs_source_tab (fst r) = None /\
    rs_is_complete (run sym core cb mk k n h) = false.
  Proof.
    intros h Hh Hd.
    exact (genB_session_too_few sym core cb mk k n (proj1 Hk) (proj2 Hk)
             (core8_sym_core_ok L k n Hn) h (fun ev Hin => proj1 (Hh ev Hin)) Hd).
  Qed.

  (* R2': of_set_available_symbols (the whole table at once) then of_finish_decoding *)
  Theorem rs8_sym_avail_recovers_the_sources : forall t : list (option sym), length t = n ->
    (forall e, e < n -> nth e t None = None \/ nth e t None = Some (encode8 k n L src e)) ->
    k <= count_some t ->
    let r := rs_finish core cb mk (fst (rs_set_available (rs_init sym k n) t)) in
    snd r = OK /\ rs_is_complete (fst r) = true /\
    rs_source_tab (fst r) = Some (map Some src).
  Proof.
    intros t HL Ht Hc.
    exact (genB_avail_recovers sym [] core cb k n src (encode8 k n L src)
             (proj1 Hk) (proj2 Hk) Hls
             (fun e He => encode8_systematic k n L src e He)
             (fun t' HL' Ht' Hc' => core8_sym_correct k n L src t' Hk Hn Hls Hwf HL' Ht' Hc')
             t HL Ht Hc).
  Qed.
End Sym8.

(* R3': whatever the table holds *)
Theorem rs8_sym_avail_too_few :
  forall (cb : bool) (mk : nat -> sym -> sym) (k n L : nat) (t : list (option sym)),
  count_some t < k ->
  let r := rs_finish (core8_sym L n) cb mk (fst (rs_set_available (rs_init sym k n) t)) in
  snd r = FAILURE /\ rs_is_complete (fst r) = false /\ rs_source_tab (fst r) = None.
Proof.
  intros cb mk k n L t Hc. exact (genB_avail_too_few sym (core8_sym L n) cb mk k n t Hc).
Qed.


(* ------------------------------------------------------------------ *)
(* Part 4: GF(2^4), two field elements per byte                        *)
(* ------------------------------------------------------------------ *)
Definition hi4 (x : N) : N := N.shiftr x 4.
Definition lo4 (x : N) : N := N.land x 15.
Definition join4 (h l : N) : N := N.lor (N.shiftl h 4) l.

Lemma join4_hi_lo : forall x, join4 (hi4 x) (lo4 x) = x.
Proof.
  intros x. unfold join4, hi4, lo4. apply N.bits_inj. intros i.
  rewrite N.lor_spec, N.land_spec. change 15%N with (N.ones 4).
  destruct (N.lt_ge_cases i 4) as [Hi|Hi].
  - rewrite N.shiftl_spec_low by exact Hi. rewrite N.ones_spec_low by exact Hi.
    rewrite andb_true_r. reflexivity.
  - rewrite N.shiftl_spec_high' by exact Hi. rewrite N.shiftr_spec'.
    rewrite N.ones_spec_high by exact Hi. rewrite andb_false_r, orb_false_r.
    f_equal. lia.
Qed.

Lemma hi4_join4 : forall a b, (b < 16)%N -> hi4 (join4 a b) = a.
Proof.
  intros a b Hb. unfold join4, hi4. rewrite N.shiftr_lor.
  rewrite N.shiftr_shiftl_l by lia. change (4 - 4)%N with 0%N. rewrite N.shiftl_0_r.
  rewrite (N.shiftr_div_pow2 b 4). change (2 ^ 4)%N with 16%N.
  rewrite N.div_small by exact Hb. apply N.lor_0_r.
Qed.

Lemma lo4_join4 : forall a b, (b < 16)%N -> lo4 (join4 a b) = b.
Proof.
  intros a b Hb. unfold join4, lo4. change 15%N with (N.ones 4).
  apply N.bits_inj. intros i. rewrite N.land_spec, N.lor_spec.
  destruct (N.lt_ge_cases i 4) as [Hi|Hi].
  - rewrite N.shiftl_spec_low by exact Hi. rewrite N.ones_spec_low by exact Hi.
    rewrite andb_true_r. reflexivity.
  - rewrite N.ones_spec_high by exact Hi. rewrite andb_false_r. symmetry.
    destruct (N.eq_dec b 0) as [E|E]; [subst b; apply N.bits_0|].
    apply N.bits_above_log2. apply N.lt_le_trans with (m := 4%N); [|exact Hi].
    apply N.log2_lt_pow2; [lia|exact Hb].
Qed.

Lemma hi4_lt : forall x, (x < 256)%N -> (hi4 x < 16)%N.
Proof.
  intros x Hx. unfold hi4. rewrite N.shiftr_div_pow2. change (2 ^ 4)%N with 16%N.
  apply N.div_lt_upper_bound; lia.
Qed.

Lemma lo4_lt : forall x, (lo4 x < 16)%N.
Proof.
  intros x. unfold lo4. change 15%N with (N.ones 4). rewrite N.land_ones.
  change (2 ^ 4)%N with 16%N. apply N.mod_lt. lia.
Qed.

(* the codeword elements are field elements *)
Lemma elem16_lt : forall k src j, k <= 16 -> Forall (fun a => (a < 16)%N) src -> j < 16 ->
  (elem16 k src j < 16)%N.
Proof.
  intros k src j Hk HF Hj.
  assert (E : exists g : GF 16, elem16 k src j = @val 16 g).
  { eexists. unfold elem16.
    apply (elemN_phi 4 P16 mul16 inv16 16%N 16 (GF 16)
             F16_zero F16_one F16_add F16_mul F16_opp F16_inv)
      with (phi := @val 16) (psi := of_N16);
      first [field16 | assumption]. }
  destruct E as [g E]. rewrite E. apply F16_val_lt.
Qed.

Definition join_cols (hs ls : list N) : list N :=
  map (fun hl => join4 (fst hl) (snd hl)) (combine hs ls).

Lemma join_cols_hi_lo : forall col : list N, join_cols (map hi4 col) (map lo4 col) = col.
Proof.
  intros col. unfold join_cols. induction col as [|x col IH].
  - reflexivity.
  - cbn [map combine fst snd]. rewrite join4_hi_lo, IH. reflexivity.
Qed.

Lemma nth_map_hi4 : forall (l : list N) i, nth i (map hi4 l) 0%N = hi4 (nth i l 0%N).
Proof. intros l i. exact (map_nth hi4 l 0%N i). Qed.

Lemma nth_map_lo4 : forall (l : list N) i, nth i (map lo4 l) 0%N = lo4 (nth i l 0%N).
Proof. intros l i. exact (map_nth lo4 l 0%N i). Qed.

Lemma Forall_map_hi4 : forall l : list N, Forall (fun a => (a < 256)%N) l ->
  Forall (fun a => (a < 16)%N) (map hi4 l).
Proof.
  intros l H. induction H as [|x l Hx _ IH]; cbn [map]; constructor.
  - apply hi4_lt. exact Hx.
  - exact IH.
Qed.

Lemma Forall_map_lo4 : forall l : list N, Forall (fun a => (a < 16)%N) (map lo4 l).
Proof.
  intros l. induction l as [|x l IH]; cbn [map]; constructor.
  - apply lo4_lt.
  - exact IH.
Qed.

(* the encoding symbol with ESI e *)
Definition encode4 (k n L : nat) (src : list sym) (e : nat) : sym :=
  if e <? k then nth e src [] else rs4_repair k L (invdens 4 P16 mul16 inv16 k) src e.

Lemma encode4_systematic : forall k n L src e, e < k -> encode4 k n L src e = nth e src [].
Proof.
  intros k n L src e He. unfold encode4.
  destruct (Nat.ltb_spec e k) as [_|H]; [reflexivity|lia].
Qed.

(* byte b of the encoding symbol e: its high (low) nibble is element e of the codeword of the
   high (low) nibbles of byte column b *)
Lemma encode4_byte : forall k n L src e b, k <= 16 -> e < 16 -> length src = k ->
  wf_block L src -> b < L ->
  hi4 (nth b (encode4 k n L src e) 0%N) = elem16 k (map hi4 (byte_col src b)) e /\
  lo4 (nth b (encode4 k n L src e) 0%N) = elem16 k (map lo4 (byte_col src b)) e.
Proof.
  intros k n L src e b Hk He16 Hls Hwf Hb. unfold encode4.
  pose proof (byte_col_below L src b Hwf Hb) as HF.
  destruct (Nat.ltb_spec e k) as [He|He].
  - rewrite !elem16_systematic.
    + rewrite nth_map_hi4, nth_map_lo4, nth_byte_col. split; reflexivity.
    + exact Hk.
    + rewrite map_length, byte_col_length. exact Hls.
    + apply Forall_map_lo4.
    + exact He.
    + exact Hk.
    + rewrite map_length, byte_col_length. exact Hls.
    + apply Forall_map_hi4. exact HF.
    + exact He.
  - rewrite (rs4_repair_byte k L src e b Hls Hb).
    assert (Hlo : (elem16 k (map lo4 (byte_col src b)) e < 16)%N).
    { apply elem16_lt; [exact Hk|apply Forall_map_lo4|exact He16]. }
    split.
    + exact (hi4_join4 _ _ Hlo).
    + exact (lo4_join4 _ _ Hlo).
Qed.

(* one byte column: the high and the low nibble columns are decoded separately and recombined *)
Definition core4_col (n k' b : nat) (t : list (option sym)) : option (list N) :=
  match rs_core16 k' n (col_tab (fun s => N.shiftr (nth b s 0%N) 4) t),
        rs_core16 k' n (col_tab (fun s => N.land (nth b s 0%N) 15) t) with
  | Some hs, Some ls => Some (join_cols hs ls)
  | _, _ => None
  end.

Definition core4_sym (L n k' : nat) (t : list (option sym)) : option (list sym) :=
  match opt_all (map (fun b => core4_col n k' b t) (seq 0 L)) with
  | None => None
  | Some cols => Some (transpose_cols k' cols)
  end.

(* S1 *)
Theorem core4_sym_correct : forall k n L (src : list sym) (t : list (option sym)),
  1 <= k <= n -> n <= 16 -> length src = k -> wf_block L src ->
  length t = n ->
  (forall e, e < n -> nth e t None = None \/ nth e t None = Some (encode4 k n L src e)) ->
  k <= count_some t ->
  core4_sym L n k t = Some src.
Proof.
  intros k n L src t Hk Hn Hls Hwf HL Ht Hc. unfold core4_sym.
  rewrite (opt_all_map_some _ _ _ (byte_col src)).
  - rewrite (transpose_byte_cols L k src Hwf Hls). reflexivity.
  - intros b Hb. apply in_seq in Hb. unfold core4_col.
    pose proof (byte_col_below L src b Hwf ltac:(lia)) as HF.
    rewrite (rs_core16_correct k n (map hi4 (byte_col src b)) _ Hk Hn).
    + rewrite (rs_core16_correct k n (map lo4 (byte_col src b)) _ Hk Hn).
      * rewrite join_cols_hi_lo. reflexivity.
      * rewrite map_length, byte_col_length. exact Hls.
      * apply Forall_map_lo4.
      * rewrite col_tab_length. exact HL.
      * intros e He. rewrite col_tab_nth. destruct (Ht e He) as [E|E]; rewrite E.
        -- left. reflexivity.
        -- right. cbn [option_map]. f_equal.
           exact (proj2 (encode4_byte k n L src e b ltac:(lia) ltac:(lia) Hls Hwf ltac:(lia))).
      * rewrite col_tab_count. exact Hc.
    + rewrite map_length, byte_col_length. exact Hls.
    + apply Forall_map_hi4. exact HF.
    + rewrite col_tab_length. exact HL.
    + intros e He. rewrite col_tab_nth. destruct (Ht e He) as [E|E]; rewrite E.
      * left. reflexivity.
      * right. cbn [option_map]. f_equal.
        exact (proj1 (encode4_byte k n L src e b ltac:(lia) ltac:(lia) Hls Hwf ltac:(lia))).
    + rewrite col_tab_count. exact Hc.
Qed.

(* S2 *)
Theorem core4_sym_core_ok : forall L k n, n <= 16 ->
  forall t : list (option sym), length t = n -> k <= count_some t ->
  exists vals, core4_sym L n k t = Some vals /\ length vals = k.
Proof.
  intros L k n Hn t HL Hc. unfold core4_sym.
  destruct (opt_all_total _ _ (fun b => core4_col n k b t) (seq 0 L)) as [cols E].
  - intros b _. unfold core4_col.
    destruct (rs_core16_core_ok k n Hn (col_tab (fun s => N.shiftr (nth b s 0%N) 4) t))
      as [hs [Eh _]].
    + rewrite col_tab_length. exact HL.
    + rewrite col_tab_count. exact Hc.
    + destruct (rs_core16_core_ok k n Hn (col_tab (fun s => N.land (nth b s 0%N) 15) t))
        as [ls [El _]].
      * rewrite col_tab_length. exact HL.
      * rewrite col_tab_count. exact Hc.
      * rewrite Eh, El. eexists. reflexivity.
  - rewrite E. eexists. split; [reflexivity|]. apply transpose_cols_length.
Qed.

(* S3 *)
Definition enc4_hist (k n L : nat) (src : list sym) (h : list (nat * sym)) : Prop :=
  forall ev, In ev h -> fst ev < n /\ snd ev = encode4 k n L src (fst ev).

Section Sym4.
  Variables (cb : bool) (k n L : nat) (src : list sym).
  Hypothesis Hk : 1 <= k <= n.
  Hypothesis Hn : n <= 16.
  Hypothesis Hls : length src = k.
  Hypothesis Hwf : wf_block L src.

  Let core := core4_sym L n.
  Let mk := mkidB sym.

  Theorem rs4_sym_run_table : forall h, enc4_hist k n L src h ->
    forall s : rs sym,
    s = run sym core cb mk k n h \/ s = fst (rs_finish core cb mk (run sym core cb mk k n h)) ->
    length (tab s) = n /\
    forall e, e < n ->
      (nth e (tab s) None = None \/ nth e (tab s) None = Some (encode4 k n L src e)) /\
      (e < k -> nth e (tab s) None = None \/ nth e (tab s) None = Some (nth e src [])).
  Proof.
    intros h Hh s Hs.
    destruct (genB_run_table sym [] core cb k n src (encode4 k n L src)
                (proj1 Hk) (proj2 Hk) Hls
                (fun e He => encode4_systematic k n L src e He)
                (fun t HL Ht Hc => core4_sym_correct k n L src t Hk Hn Hls Hwf HL Ht Hc)
                h Hh) as [A B].
    destruct Hs as [Hs|Hs]; subst s; [exact A|exact B].
  Qed.

  Theorem rs4_sym_run_recovers_the_sources : forall h, enc4_hist k n L src h ->
    k <= ndistinct n (map fst h) ->
    rs_is_complete (run sym core cb mk k n h) = true /\
    rs_source_tab (run sym core cb mk k n h) = Some (map Some src).
  Proof.
    intros h Hh Hd.
    exact (genB_run_complete sym [] core cb k n src (encode4 k n L src)
             (proj1 Hk) (proj2 Hk) Hls
             (fun e He => encode4_systematic k n L src e He)
             (core4_sym_core_ok L k n Hn)
             (fun t HL Ht Hc => core4_sym_correct k n L src t Hk Hn Hls Hwf HL Ht Hc)
             h Hh Hd).
  Qed.

  Theorem rs4_sym_session_recovers_the_sources : forall h, enc4_hist k n L src h ->
    k <= ndistinct n (map fst h) ->
    let r := rs_finish core cb mk (run sym core cb mk k n h) in
    snd r = OK /\ rs_source_tab (fst r) = Some (map Some src).
  Proof.
    intros h Hh Hd.
    exact (genB_session_recovers sym [] core cb k n src (encode4 k n L src)
             (proj1 Hk) (proj2 Hk) Hls
             (fun e He => encode4_systematic k n L src e He)
             (core4_sym_core_ok L k n Hn)
             (fun t HL Ht Hc => core4_sym_correct k n L src t Hk Hn Hls Hwf HL Ht Hc)
             h Hh Hd).
  Qed.

  Theorem rs4_sym_session_too_few : forall h, enc4_hist k n L src h ->
    ndistinct n (map fst h) < k ->
    let r := rs_finish core cb mk (run sym core cb mk k n h) in
    snd r = FAILURE /\ rs_source_tab (fst r) = None /\
    rs_is_complete (run sym core cb mk k n h) = false.
  Proof.
    intros h Hh Hd.
    exact (genB_session_too_few sym core cb mk k n (proj1 Hk) (proj2 Hk)
             (core4_sym_core_ok L k n Hn) h (fun ev Hin => proj1 (Hh ev Hin)) Hd).
  Qed.

  Theorem rs4_sym_avail_recovers_the_sources : forall t : list (option sym), length t = n ->
    (forall e, e < n -> nth e t None = None \/ nth e t None = Some (encode4 k n L src e)) ->
    k <= count_some t ->
    let r := rs_finish core cb mk (fst (rs_set_available (rs_init sym k n) t)) in
    snd r = OK /\ rs_is_complete (fst r) = true /\
    rs_source_tab (fst r) = Some (map Some src).
  Proof.
    intros t HL Ht Hc.
    exact (genB_avail_recovers sym [] core cb k n src (encode4 k n L src)
             (proj1 Hk) (proj2 Hk) Hls
             (fun e He => encode4_systematic k n L src e He)
             (fun t' HL' Ht' Hc' => core4_sym_correct k n L src t' Hk Hn Hls Hwf HL' Ht' Hc')
             t HL Ht Hc).
  Qed.
End Sym4.

Theorem rs4_sym_avail_too_few :
  forall (cb : bool) (mk : nat -> sym -> sym) (k n L : nat) (t : list (option sym)),
  count_some t < k ->
  let r := rs_finish (core4_sym L n) cb mk (fst (rs_set_available (rs_init sym k n) t)) in
  snd r = FAILURE /\ rs_is_complete (fst r) = false /\ rs_source_tab (fst r) = None.
Proof.
  intros cb mk k n L t Hc. exact (genB_avail_too_few sym (core4_sym L n) cb mk k n t Hc).
Qed.

(* ------------------------------------------------------------------ *)
(* Part 5: the encoding symbols are those of rs_repairs; examples      *)
(* ------------------------------------------------------------------ *)
(* encode8 / encode4: the source symbols followed by the repair symbols of rs_repairs (the
   function the extracted model runs against the C encoders) *)
Theorem encode8_rs_repairs : forall k n L src e, length src = k -> e < n ->
  encode8 k n L src e = nth e (src ++ rs_repairs true k n L src) [].
Proof.
  intros k n L src e Hls He. unfold encode8. destruct (Nat.ltb_spec e k) as [Hek|Hek].
  - rewrite app_nth1 by lia. reflexivity.
  - rewrite app_nth2 by lia. rewrite Hls. symmetry. apply nth_rs_repairs8. lia.
Qed.

Theorem encode4_rs_repairs : forall k n L src e, length src = k -> e < n ->
  encode4 k n L src e = nth e (src ++ rs_repairs false k n L src) [].
Proof.
  intros k n L src e Hls He. unfold encode4. destruct (Nat.ltb_spec e k) as [Hek|Hek].
  - rewrite app_nth1 by lia. reflexivity.
  - rewrite app_nth2 by lia. rewrite Hls. unfold rs_repairs.
    rewrite (nth_indep _ [] (rs4_repair k L (invdens 4 P16 mul16 inv16 k) src 0))
      by (rewrite map_length, seq_length; lia).
    rewrite (map_nth (rs4_repair k L (invdens 4 P16 mul16 inv16 k) src) (seq k (n - k)) 0 (e - k)).
    rewrite seq_nth by lia. f_equal. lia.
Qed.

(* k = 2, n = 4, L = 3 *)
Example session8_2_4 :
  let src := [[5; 7; 200]; [1; 2; 3]]%N in
  let enc := encode8 2 4 3 src in
  let s := run sym (core8_sym 3 4) true (mkidB sym) 2 4 [(3, enc 3); (3, enc 3); (2, enc 2)] in
  rs_is_complete s = true /\ rs_source_tab s = Some (map Some src) /\ evs s = [0; 1].
Proof. vm_compute. repeat split; reflexivity. Qed.

Example session4_2_4 :
  let src := [[5; 7; 200]; [1; 2; 3]]%N in
  let enc := encode4 2 4 3 src in
  let s := run sym (core4_sym 3 4) true (mkidB sym) 2 4 [(3, enc 3); (0, enc 0)] in
  rs_is_complete s = true /\ rs_source_tab s = Some (map Some src) /\ evs s = [1].
Proof. vm_compute. repeat split; reflexivity. Qed.

Example session8_2_4_few :
  let src := [[5; 7; 200]; [1; 2; 3]]%N in
  let enc := encode8 2 4 3 src in
  let s := run sym (core8_sym 3 4) true (mkidB sym) 2 4 [(3, enc 3); (3, enc 3)] in
  rs_is_complete s = false /\ snd (rs_finish (core8_sym 3 4) true (mkidB sym) s) = FAILURE.
Proof. vm_compute. split; reflexivity. Qed.

Print Assumptions core8_sym_correct.
Print Assumptions core8_sym_core_ok.
Print Assumptions rs8_sym_run_table.
Print Assumptions rs8_sym_run_recovers_the_sources.
Print Assumptions rs8_sym_session_recovers_the_sources.
Print Assumptions rs8_sym_session_too_few.
Print Assumptions rs8_sym_avail_recovers_the_sources.
Print Assumptions rs8_sym_avail_too_few.
Print Assumptions core4_sym_correct.
Print Assumptions core4_sym_core_ok.
Print Assumptions rs4_sym_run_table.
Print Assumptions rs4_sym_run_recovers_the_sources.
Print Assumptions rs4_sym_session_recovers_the_sources.
Print Assumptions rs4_sym_session_too_few.
Print Assumptions rs4_sym_avail_recovers_the_sources.
Print Assumptions rs4_sym_avail_too_few.
Print Assumptions encode8_rs_repairs.
Print Assumptions encode4_rs_repairs.
