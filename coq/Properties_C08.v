(* C08 — a released session leaves nothing behind.
   OWNERSHIP LEDGER (LdpcHeap.v, theorems below, section "ledger"): for LDPC-Staircase / 2D decoder sessions the
   allocation behaviour of the streaming decoder, of of_finish_decoding (persistent effect) and of
   of_release_codec_instance is a model: every partial sum, every stored repair copy and every decoded source symbol
   is a named block in a ledger of live blocks; freeing a block that is not live makes the model stuck.  Proved for
   every matrix of the decoder's shape, every history of submissions (any order, duplicates), every callback
   behaviour, with or without of_finish_decoding: the ledger never gets stuck (no double or invalid free), every
   live block is referenced from exactly one table slot (nothing is lost before release), and after release the
   live blocks are exactly the library blocks stored in SOURCE entries - the decoded source symbols the API hands
   to the application.  Tie: harness/drv_dec.c counts the library's live blocks with link-time wrappers after
   set-up, after every submission call, after finish and after release; the numbers must equal the ledger's on
   every generated LDPC/2D session.
   Not in the ledger: call-local scratch (allocated and freed inside one call), the Gaussian elimination's temporaries,
   out-of-memory exits.
   The Reed-Solomon sessions have the same kind of ledger (RSHeap.v: the codec context - created by the first
   of_build_repair_symbol or by the decoding, freed by the GF(2^8) decoding itself and kept until release by GF(2^m) -
   and one block per decoded source symbol unless the callback returned a buffer), with the same theorems and tie.
   Whether the COMPILED library has freed every block is a fact about the heap at run time: the check
   also decides that by link-time allocation accounting (every generated life cycle, release at any
   point, the application freeing exactly what the API says it owns, live blocks must return to the
   level before the session) under AddressSanitizer.
   The parts of the bookkeeping that ARE logic, stated for the models tied to the C:
   - the library's own sub-allocator (the entry pool of the sparse matrix, blocks of 1024 entries):
     in every reachable state blocks * 1024 = free entries + live entries, so no entry is lost or
     handed out twice, and freeing the blocks releases every entry (C17's theorem, restated);
   - a table entry is written at most once (StableTables.v): a buffer the library allocated for a
     decoded symbol is never replaced by another one, which is the only way a stored buffer could
     be orphaned before release;
   - the Reed-Solomon finish allocates (or asks the callback for) exactly one buffer per source entry
     that is still empty, and none for an entry that holds a received symbol. *)
From Coq Require Import Arith List Bool.
From OFV Require Import ListAux Sparse SparseProofs ITModel ITProofs MLModel RSApi RSApiProofs StableTables LdpcHeap LdpcHeapProofs RSHeap RSHeapProofs.
Import ListNotations.

Theorem sparse_entry_pool_is_conserved : forall m, SparseProofs.WF m -> nblocks m * BLOCK = nfree m + total m.
Proof. exact pool_accounting. Qed.

Theorem decoded_symbol_buffers_are_never_replaced :
  forall (Sy : Type) (sxor : Sy -> Sy -> Sy) (s0 : Sy) fuel perm s o,
  MLModel.ml_finish sxor s0 fuel perm s = Some o ->
  forall e x, nth e (ITModel.tab s) None = Some x -> nth e (ITModel.tab (MLModel.o_st o)) None = Some x.
Proof. exact ml_finish_tab_stable. Qed.

Theorem rs_finish_one_buffer_per_missing_source :
  forall (B : Type) (core : nat -> list (option B) -> option (list B)) (cb : bool) (mk : nat -> B -> B) (k n : nat),
  k <= n ->
  forall (s : rs B) vals, length vals = k -> length (RSApi.tab s) = n -> fin s = false ->
  navail_src s <> rk s -> k <= navail s -> rk s = k -> core k (RSApi.tab s) = Some vals ->
  evs (fst (rs_finish core cb mk s)) =
  evs s ++ (if cb then filter (fun j => negb (is_some (nth j (RSApi.tab s) None))) (seq 0 k) else []).
Proof. exact rs_callback_events_proof. Qed.

(* ---- ledger ---- *)
(* the ledger does not change what the decoder does: its control state is the IT model's *)
Theorem ledger_follows_the_decoder_model : forall cbf fuel s c p,
  match hdecode cbf fuel s c p with Some s' => decode ux tt fuel (core s) c tt = Some (core s') | None => True end.
Proof. exact hdecode_sim. Qed.

(* ... and never gets stuck where the decoder model does not: no free of a block that is not live, at any depth
   of the recursion, for any callback behaviour *)
Theorem ledger_never_stuck_in_a_submission :
  forall cbf (H0 : list (list nat)) (R0 N0 : nat), length H0 = R0 -> (forall i, i < R0 -> NoDup (nth i H0 [])) ->
  (forall i c, i < R0 -> In c (nth i H0 []) -> c < N0) -> (forall i, i < R0 -> 2 <= length (nth i H0 [])) -> R0 <= N0 ->
  forall fuel s c, Good unit H0 R0 N0 (core s) -> HInv s -> c < N0 -> N0 < fuel -> exists s', hdecode cbf fuel s c App = Some s'.
Proof. exact hdecode_total. Qed.

(* every reachable state: each live block is referenced by exactly one slot, each referenced block is live *)
Theorem ledger_invariant_holds_in_every_reachable_state :
  forall cbf (H0 : list (list nat)) (R0 N0 : nat), length H0 = R0 -> (forall i, i < R0 -> NoDup (nth i H0 [])) ->
  (forall i c, i < R0 -> In c (nth i H0 []) -> c < N0) -> (forall i, i < R0 -> 2 <= length (nth i H0 [])) -> R0 <= N0 ->
  forall fuel esis s s', Good unit H0 R0 N0 (core s) -> (forall c, In c esis -> c < N0) -> HInv s ->
  hrun cbf fuel s esis = Some s' -> HInv s' /\ Good unit H0 R0 N0 (core s').
Proof. exact hrun_inv. Qed.

Theorem ledger_finish_keeps_the_invariant : forall cbf fuel perm s s' ok, HInv s -> hfinish cbf fuel perm s = Some (s', ok) -> HInv s'.
Proof. exact hfinish_inv. Qed.
Theorem ledger_finish_never_stuck : forall cbf fuel perm s o, HInv s -> ml_finish ux tt fuel perm (core s) = Some o ->
  exists s', hfinish cbf fuel perm s = Some (s', o_ok o) /\ core s' = o_st o.
Proof. exact hfinish_no_stuck. Qed.

(* release at any point: frees only live blocks, each once; what remains is what the application owns *)
Theorem release_frees_everything_but_the_decoded_sources : forall s, HInv s ->
  exists h, hrelease s = Some h /\ (forall b, In b (live h) <-> In b (lib_blocks (skipn (r (core s)) (htab s)))) /\ NoDup (live h).
Proof. exact hrelease_spec. Qed.

(* the whole life cycle, from the initial state *)
Theorem ldpc_session_leaves_nothing_behind :
  forall cbf (H0 : list (list nat)) (R0 N0 : nat), length H0 = R0 -> (forall i, i < R0 -> NoDup (nth i H0 [])) ->
  (forall i c, i < R0 -> In c (nth i H0 []) -> c < N0) -> (forall i, i < R0 -> 2 <= length (nth i H0 [])) -> R0 <= N0 ->
  forall fuel esis fin s, (forall c, In c esis -> c < N0) -> session cbf H0 R0 N0 fuel esis fin = Some s ->
  exists h, hrelease s = Some h /\ (forall b, In b (live h) <-> In b (lib_blocks (skipn R0 (htab s)))) /\ NoDup (live h).
Proof. exact session_leaves_nothing_behind. Qed.

Theorem ldpc_session_ledger_never_stuck :
  forall cbf (H0 : list (list nat)) (R0 N0 : nat), length H0 = R0 -> (forall i, i < R0 -> NoDup (nth i H0 [])) ->
  (forall i c, i < R0 -> In c (nth i H0 []) -> c < N0) -> (forall i, i < R0 -> 2 <= length (nth i H0 [])) -> R0 <= N0 ->
  forall fuel esis, (forall c, In c esis -> c < N0) -> N0 < fuel ->
  exists s1, session cbf H0 R0 N0 fuel esis None = Some s1
    /\ forall fuel2 perm o, ml_finish ux tt fuel2 perm (core s1) = Some o ->
         exists s2, session cbf H0 R0 N0 fuel esis (Some (fuel2, perm)) = Some s2 /\ core s2 = o_st o.
Proof. exact session_never_stuck. Qed.

(* Reed-Solomon sessions, both codecs (ctxn, keep), any callback behaviour, ANY sequence of build / submit /
   set-available / finish operations: the ledger is never stuck, and release leaves exactly the blocks of the decoded
   source symbols; a second release of the context would be stuck *)
Theorem rs_session_leaves_nothing_behind :
  forall ctxn keep cbf cb k n (ops : list rsop),
  exists s, rsh_run ctxn keep cbf cb (rsh_init k n) ops = Some s /\ RInv s /\
    exists h, rsh_release s = Some h /\ (forall b, In b (live h) <-> In b (given s)) /\ NoDup (live h).
Proof. exact RSHeapProofs.rs_session_leaves_nothing_behind. Qed.
Theorem rs_context_cannot_be_freed_twice : forall s h b, RInv s -> rsh_release s = Some h -> In b (ctxb s) -> hfree h b = None.
Proof. exact rsh_release_ctx_dead. Qed.
Theorem rs_decoded_blocks_are_never_taken_back : forall ctxn keep cbf cb ops s s' b,
  rsh_run ctxn keep cbf cb s ops = Some s' -> In b (given s) -> In b (given s').
Proof. exact rsh_run_given_mono. Qed.

Print Assumptions rs_session_leaves_nothing_behind.
Print Assumptions rs_context_cannot_be_freed_twice.
Print Assumptions ledger_never_stuck_in_a_submission.
Print Assumptions ledger_invariant_holds_in_every_reachable_state.
Print Assumptions release_frees_everything_but_the_decoded_sources.
Print Assumptions ldpc_session_leaves_nothing_behind.
Print Assumptions ldpc_session_ledger_never_stuck.
Print Assumptions sparse_entry_pool_is_conserved.
Print Assumptions decoded_symbol_buffers_are_never_replaced.
Print Assumptions rs_finish_one_buffer_per_missing_source.
