(* C08 — a released session leaves nothing behind.
   Whether the compiled library has freed every block is a fact about the heap at run time: no Gallina
   model of this development can exhibit a leak or a double free of malloc'ed memory, and the check
   decides that part by link-time allocation accounting (every generated life cycle, release at any
   point, the application freeing exactly what the API says it owns, live blocks must return to the
   level before the session) under AddressSanitizer.
   The parts of the bookkeeping that ARE logic, stated for the models tied to the C:
   - the library's own sub-allocator (the entry pool of the sparse matrix, blocks of 1024 entries):
     in every reachable state blocks * 1024 = free entries + live entries, so no entry is lost or
     handed out twice, and freeing the blocks releases every entry (C17's theorem, restated);
   - a table entry is written at most once (StableTables.v): a buffer the library allocated for a
     decoded symbol is never replaced by another one, which is the only way a stored buffer could
     be orphaned before release;
   - the Reed-Solomon finish allocates (or asks the callback for) exactly one buffer per source entry
     that is still empty, and none for an entry that holds a received symbol. *)
From Coq Require Import Arith List Bool.
From OFV Require Import ListAux Sparse SparseProofs ITModel MLModel RSApi RSApiProofs StableTables.
Import ListNotations.

Theorem sparse_entry_pool_is_conserved : forall m, SparseProofs.WF m -> nblocks m * BLOCK = nfree m + total m.
Proof. exact pool_accounting. Qed.

Theorem decoded_symbol_buffers_are_never_replaced :
  forall (Sy : Type) (sxor : Sy -> Sy -> Sy) (s0 : Sy) fuel perm s o,
  MLModel.ml_finish sxor s0 fuel perm s = Some o ->
  forall e x, nth e (ITModel.tab s) None = Some x -> nth e (ITModel.tab (MLModel.o_st o)) None = Some x.
Proof. exact ml_finish_tab_stable. Qed.

Theorem rs_finish_one_buffer_per_missing_source :
  forall (B : Type) (core : nat -> list (option B) -> option (list B)) (cb : bool) (mk : nat -> B -> B) (k n : nat),
  k <= n ->
  forall (s : rs B) vals, length vals = k -> length (RSApi.tab s) = n -> fin s = false ->
  navail_src s <> rk s -> k <= navail s -> rk s = k -> core k (RSApi.tab s) = Some vals ->
  evs (fst (rs_finish core cb mk s)) =
  evs s ++ (if cb then filter (fun j => negb (is_some (nth j (RSApi.tab s) None))) (seq 0 k) else []).
Proof. exact rs_callback_events_proof. Qed.

Print Assumptions sparse_entry_pool_is_conserved.
Print Assumptions decoded_symbol_buffers_are_never_replaced.
Print Assumptions rs_finish_one_buffer_per_missing_source.
