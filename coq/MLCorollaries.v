(* Projections of MLSession.ldpc_session_finish for the properties that use one clause of it. *)
From Coq Require Import Arith List Bool.
From OFV Require Import ListAux XorGroup LdpcEnc ITModel ITProofs MLModel MLFinish MLSession.
Import ListNotations.

Section C.
Variable Sy : Type. Variable sxor : Sy -> Sy -> Sy. Variable s0 : Sy.
Hypothesis sxor_assoc : forall a b c, sxor a (sxor b c) = sxor (sxor a b) c.
Hypothesis sxor_comm : forall a b, sxor a b = sxor b a.
Hypothesis sxor_0_l : forall a, sxor s0 a = a.
Hypothesis sxor_nilp : forall a, sxor a a = s0.
Variable H0 : list (list nat). Variable R0 N0 : nat.
Hypothesis H0_len : length H0 = R0.
Hypothesis H0_nodup : forall i, i < R0 -> NoDup (nth i H0 []).
Hypothesis H0_range : forall i c, i < R0 -> In c (nth i H0 []) -> c < N0.
Hypothesis H0_deg : forall i, i < R0 -> 2 <= length (nth i H0 []).
Hypothesis R_le_N : R0 <= N0.
Hypothesis H0_cols : forall c, c < N0 -> exists i, i < R0 /\ In c (nth i H0 []).
Hypothesis H0_stair : stair R0 H0.
Hypothesis Sy_nontrivial : exists a : Sy, a <> s0.
Variable cw : nat -> Sy.
Hypothesis parity : forall i, i < R0 -> fold_right sxor s0 (map cw (nth i H0 [])) = s0.

Lemma ml_session_values (hist : list (nat * Sy)) (s : st Sy) fuel perm (o : outcome Sy) :
  (forall ev, In ev hist -> fst ev < N0 /\ snd ev = cw (fst ev)) -> run Sy sxor s0 H0 R0 N0 (S N0) hist = Some s ->
  N0 < fuel -> (forall c, c < R0 -> In c perm) -> (forall c, In c perm -> c < R0) ->
  ml_finish sxor s0 fuel perm s = Some o ->
  forall c v, nth c (tab (o_st o)) None = Some v -> v = cw c.
Proof.
  intros A B C D E F.
  exact (proj1 (ldpc_session_finish Sy sxor s0 sxor_assoc sxor_comm sxor_0_l sxor_nilp H0 R0 N0 H0_len H0_nodup H0_range H0_deg R_le_N
                  H0_cols H0_stair Sy_nontrivial cw parity hist s fuel perm o A B C D E F)).
Qed.

Lemma ml_session_status (hist : list (nat * Sy)) (s : st Sy) fuel perm (o : outcome Sy) :
  (forall ev, In ev hist -> fst ev < N0 /\ snd ev = cw (fst ev)) -> run Sy sxor s0 H0 R0 N0 (S N0) hist = Some s ->
  N0 < fuel -> (forall c, c < R0 -> In c perm) -> (forall c, In c perm -> c < R0) ->
  ml_finish sxor s0 fuel perm s = Some o ->
  (o_ok o = true <-> forall c, R0 <= c < N0 -> known (o_st o) c = true).
Proof.
  intros A B C D E F.
  exact (proj1 (proj2 (proj2 (ldpc_session_finish Sy sxor s0 sxor_assoc sxor_comm sxor_0_l sxor_nilp H0 R0 N0 H0_len H0_nodup H0_range H0_deg R_le_N
                  H0_cols H0_stair Sy_nontrivial cw parity hist s fuel perm o A B C D E F)))).
Qed.
End C.
