(* C18 ("... within the bounds of the matrices given") / C07 for the symbol-level dense solver model
   (DenseSolve.v) and for the index translation around it in the ML finish (MLModel.v: ml_finish).

   The plain models read with [nth i l default] and write with [upd l i x]; both are TOTAL (an out-of-range
   read returns the default, an out-of-range write is dropped), so an index slip would be masked.  Here every
   function is copied with all reads and writes going through the accessors of ITBounds.v that FAIL out of
   range ([nth_chk], [upd_chk]); the result of the checked solver distinguishes
        OutOfBounds | NoSolution | Solved x
   (NoSolution: no pivot for some column, the plain model's None).
     S1  checked copies bit_chk getrow_chk find_pivot_chk swap_chk xor_row_from_chk elim_row_chk
         col_forward_chk triangularize_chk back_subst_chk solve_chk
     S2  [solve_chk_refines]: Solved x -> solve = Some x;  NoSolution -> solve = None  (no hypothesis)
     S3  [Shape] (p rows of q bits, p constant terms) is preserved by elim_row / swap / col_forward /
         triangularize, and on a well-shaped system the checked solver EQUALS the plain one
         ([solve_chk_safe]), hence is never OutOfBounds ([solve_chk_never_oob]); q <= p is not needed as a
         hypothesis: the back-substitution only runs after q pivots were found, which forces q <= p
     S4  take_ct_chk / write_back_chk, their exact failure conditions, the shapes ml_finish passes
         ([take_ct_chk_ml], [write_back_chk_ml]), and a checked copy of everything ml_finish does after the
         injections ([ml_tail_chk], [ml_finish_chk]) proved EQUAL to the plain one under the hypotheses of
         MLFinish.v ([ml_tail_chk_safe], [ml_finish_chk_safe]); the inequality
         nrep + (number of unknown sources) <= q is PROVED (from MLFinish.cols_char), not assumed
     S5  closed examples where the checked copies are OutOfBounds and the plain functions return a value *)
From Coq Require Import Arith List Bool Lia.
From OFV Require Import ListAux DenseSolve DenseSolveProofs.
From OFV Require ITBounds ITLemmas.
Import ListNotations.

Notation nth_chk := ITBounds.nth_chk.
Notation upd_chk := ITBounds.upd_chk.

(* ------------------------------------------------------------------------------------------ *)
(* 0. Result type, accessors                                                                    *)
(* ------------------------------------------------------------------------------------------ *)
Inductive result (X : Type) : Type := OutOfBounds | NoSolution | Solved (x : X).
Arguments OutOfBounds {X}.
Arguments NoSolution {X}.
Arguments Solved {X} x.

Definition bind {X Y} (a : result X) (f : X -> result Y) : result Y :=
  match a with OutOfBounds => OutOfBounds | NoSolution => NoSolution | Solved x => f x end.
(* a failed access *)
Definition acc {X} (o : option X) : result X := match o with Some x => Solved x | None => OutOfBounds end.
(* the plain model's option, seen as a result that is never OutOfBounds *)
Definition of_opt {X} (o : option X) : result X := match o with Some x => Solved x | None => NoSolution end.

Notation "'let!' x := a 'in' k" := (bind a (fun x => k)) (at level 200, x name, a at level 100, k at level 200, right associativity).

(* the two copies of upd in the project (ListAux.upd used by DenseSolve, ITModel.upd used by MLModel and
   ITBounds) are the same function *)
Lemma upd_same {X} (l : list X) i x : ITModel.upd l i x = ListAux.upd l i x.
Proof. reflexivity. Qed.

Lemma nth_chk_None {X} (l : list X) i : nth_chk l i = None <-> length l <= i.
Proof. apply ITBounds.nth_chk_none. Qed.
Lemma upd_chk_None {X} (l : list X) i x : upd_chk l i x = None <-> length l <= i.
Proof. apply ITBounds.upd_chk_none. Qed.

Lemma acc_nth_in {X} (l : list X) i d : i < length l -> acc (nth_chk l i) = Solved (nth i l d).
Proof. intros H. now rewrite (ITBounds.nth_chk_in l i d H). Qed.
Lemma acc_upd_in {X} (l : list X) i x : i < length l -> acc (upd_chk l i x) = Solved (upd l i x).
Proof. intros H. now rewrite (ITBounds.upd_chk_in l i x H). Qed.

(* "is v, unless out of bounds" and "is the option o, unless out of bounds" *)
Definition okis {X} (a : result X) (v : X) : Prop :=
  match a with OutOfBounds => True | NoSolution => False | Solved x => x = v end.
Definition refo {X} (a : result X) (o : option X) : Prop :=
  match a with OutOfBounds => True | NoSolution => o = None | Solved x => o = Some x end.

Lemma okis_acc_nth {X} (l : list X) i d : okis (acc (nth_chk l i)) (nth i l d).
Proof.
  destruct (nth_chk l i) as [x|] eqn:E; simpl; [|exact I].
  now destruct (ITBounds.nth_chk_sound l i x d E).
Qed.
Lemma okis_acc_upd {X} (l : list X) i x : okis (acc (upd_chk l i x)) (upd l i x).
Proof.
  destruct (upd_chk l i x) as [l'|] eqn:E; simpl; [|exact I].
  destruct (ITBounds.upd_chk_sound l i x l' E) as (_ & H). now rewrite <- H.
Qed.
Lemma okis_bind {X Y} (a : result X) (f : X -> result Y) v w : okis a v -> okis (f v) w -> okis (bind a f) w.
Proof. destruct a; simpl; intros H K; [exact I|destruct H|now subst]. Qed.
Lemma okis_refo {X Y} (a : result X) (f : X -> result Y) v o : okis a v -> refo (f v) o -> refo (bind a f) o.
Proof. destruct a; simpl; intros H K; [exact I|destruct H|now subst]. Qed.
Lemma okis_Solved {X} (v : X) : okis (Solved v) v.
Proof. reflexivity. Qed.
Lemma refo_of_opt {X} (o : option X) : refo (of_opt o) o.
Proof. destruct o; reflexivity. Qed.

(* ------------------------------------------------------------------------------------------ *)
(* S1. Checked copies of the dense solver                                                       *)
(* ------------------------------------------------------------------------------------------ *)
Section DS.
Variable Sy : Type. Variable sxor : Sy -> Sy -> Sy. Variable s0 : Sy.
Notation sys := (sys Sy).
Notation val := (val Sy s0).
Notation elim_row := (elim_row Sy sxor s0).
Notation col_forward := (col_forward Sy sxor s0).
Notation triangularize := (triangularize Sy sxor s0).
Notation back_subst := (back_subst Sy sxor s0).
Notation solve := (solve Sy sxor s0).

Definition bit_chk (row : list bool) (c : nat) : result bool := acc (nth_chk row c).
Definition getrow_chk (A : list (list bool)) (r : nat) : result (list bool) := acc (nth_chk A r).

(* s ^= t word by word: both rows must have the same number of words *)
Fixpoint xor_from_aux_chk (c0 : nat) (i : nat) (s t : list bool) : result (list bool) :=
  match s, t with
  | x :: s', y :: t' => let! u := xor_from_aux_chk c0 (S i) s' t' in Solved ((if c0 <=? i then xorb x y else x) :: u)
  | [], [] => Solved []
  | _, _ => OutOfBounds
  end.
Definition xor_row_from_chk (c0 : nat) (s t : list bool) : result (list bool) := xor_from_aux_chk c0 0 s t.

Fixpoint find_pivot_chk (A : list (list bool)) (i j cnt : nat) : result nat :=
  match cnt with
  | O => NoSolution
  | S c => let! row := getrow_chk A j in let! b := bit_chk row i in
           if b then Solved j else find_pivot_chk A i (S j) c
  end.

Definition swap_chk {X} (l : list X) (i j : nat) : result (list X) :=
  let! vj := acc (nth_chk l j) in let! vi := acc (nth_chk l i) in
  let! l1 := acc (upd_chk l i vj) in acc (upd_chk l1 j vi).

Definition elim_row_chk (i : nat) (y : sys) (j : nat) : result sys :=
  let! rj := getrow_chk (sA y) j in
  let! b := bit_chk rj i in
  if b then
    let! ri := getrow_chk (sA y) i in
    let! rx := xor_row_from_chk (32 * (i / 32)) rj ri in
    let! A' := acc (upd_chk (sA y) j rx) in
    let! oi := acc (nth_chk (sb y) i) in
    match oi with
    | Some ci =>
      let! oj := acc (nth_chk (sb y) j) in
      let! b' := acc (upd_chk (sb y) j (match oj with None => Some ci | Some cj => Some (sxor cj ci) end)) in
      Solved {| sA := A'; sb := b' |}
    | None =>
      let! b' := acc (upd_chk (sb y) i (Some s0)) in Solved {| sA := A'; sb := b' |}
    end
  else Solved y.

Definition col_forward_chk (p : nat) (y : sys) (i : nat) : result sys :=
  let! j := find_pivot_chk (sA y) i i (p - i) in
  let! y1 := (if j =? i then Solved y else
              let! A1 := swap_chk (sA y) i j in let! b1 := swap_chk (sb y) i j in Solved {| sA := A1; sb := b1 |}) in
  fold_left (fun a j => let! y := a in elim_row_chk i y j) (seq (S i) (p - S i)) (Solved y1).

Fixpoint triangularize_chk (p : nat) (cols : list nat) (y : sys) : result sys :=
  match cols with [] => Solved y | i :: rest => let! y' := col_forward_chk p y i in triangularize_chk p rest y' end.

Definition bs_step_chk (row : list bool) (x : list Sy) (a : result Sy) (j : nat) : result Sy :=
  let! a := a in let! b := bit_chk row j in
  if b then let! xj := acc (nth_chk x j) in Solved (sxor a xj) else Solved a.

Fixpoint back_subst_chk (q : nat) (y : sys) (cnt : nat) (x : list Sy) : result (list Sy) :=
  match cnt with
  | O => Solved x
  | S c => let! row := getrow_chk (sA y) c in
           let! bi := acc (nth_chk (sb y) c) in
           let! a := fold_left (bs_step_chk row x) (seq (S c) (q - S c)) (Solved (val bi)) in
           let! x' := acc (upd_chk x c a) in
           back_subst_chk q y c x'
  end.

Definition solve_chk (p q : nat) (y : sys) : result (list Sy) :=
  let! y' := triangularize_chk p (seq 0 q) y in back_subst_chk q y' q (repeat s0 q).

(* ------------------------------------------------------------------------------------------ *)
(* S2. Refinement: whatever the checked copy returns other than OutOfBounds is the plain result *)
(* ------------------------------------------------------------------------------------------ *)
Lemma bit_chk_okis row c : okis (bit_chk row c) (bit row c).
Proof. apply okis_acc_nth. Qed.
Lemma getrow_chk_okis A r : okis (getrow_chk A r) (getrow A r).
Proof. apply okis_acc_nth. Qed.

Lemma xor_from_aux_chk_okis c0 : forall s t i, okis (xor_from_aux_chk c0 i s t) (xor_from_aux c0 i s t).
Proof.
  induction s as [|x s IH]; intros [|y t] i; cbn [xor_from_aux_chk xor_from_aux]; try exact I; [reflexivity|].
  eapply okis_bind; [apply IH|]. reflexivity.
Qed.
Lemma xor_row_from_chk_okis c0 s t : okis (xor_row_from_chk c0 s t) (xor_row_from c0 s t).
Proof. apply xor_from_aux_chk_okis. Qed.

Lemma find_pivot_chk_refo A i : forall cnt j, refo (find_pivot_chk A i j cnt) (find_pivot A i j cnt).
Proof.
  induction cnt as [|c IH]; intros j; cbn [find_pivot_chk find_pivot]; [reflexivity|].
  eapply okis_refo; [apply getrow_chk_okis|]. eapply okis_refo; [apply bit_chk_okis|].
  destruct (bit (getrow A j) i); [reflexivity|apply IH].
Qed.

Lemma swap_chk_okis {X} (l : list X) i j d : okis (swap_chk l i j) (swap l i j d).
Proof.
  unfold swap_chk, swap.
  eapply okis_bind; [apply (okis_acc_nth l j d)|]. eapply okis_bind; [apply (okis_acc_nth l i d)|].
  eapply okis_bind; [apply okis_acc_upd|]. apply okis_acc_upd.
Qed.

Lemma elim_row_chk_okis i y j : okis (elim_row_chk i y j) (elim_row i y j).
Proof.
  unfold elim_row_chk, elim_row.
  eapply okis_bind; [apply getrow_chk_okis|]. eapply okis_bind; [apply bit_chk_okis|].
  destruct (bit (getrow (sA y) j) i); [|reflexivity].
  eapply okis_bind; [apply getrow_chk_okis|]. eapply okis_bind; [apply xor_row_from_chk_okis|].
  eapply okis_bind; [apply okis_acc_upd|]. eapply okis_bind; [apply (okis_acc_nth (sb y) i None)|].
  destruct (nth i (sb y) None) as [ci|].
  - eapply okis_bind; [apply (okis_acc_nth (sb y) j None)|]. eapply okis_bind; [apply okis_acc_upd|]. reflexivity.
  - eapply okis_bind; [apply okis_acc_upd|]. reflexivity.
Qed.

Lemma elim_fold_okis i : forall js a y, okis a y ->
  okis (fold_left (fun a j => let! y := a in elim_row_chk i y j) js a) (fold_left (elim_row i) js y).
Proof.
  induction js as [|j js IH]; intros a y H; cbn [fold_left]; [exact H|].
  apply IH. eapply okis_bind; [exact H|apply elim_row_chk_okis].
Qed.

Lemma col_forward_chk_refo p y i : refo (col_forward_chk p y i) (col_forward p y i).
Proof.
  unfold col_forward_chk, col_forward.
  pose proof (find_pivot_chk_refo (sA y) i (p - i) i) as H.
  destruct (find_pivot_chk (sA y) i i (p - i)) as [| |j]; cbn [bind refo] in *; [exact I|now rewrite H|].
  rewrite H.
  assert (K : okis (if j =? i then Solved y else
                    let! A1 := swap_chk (sA y) i j in let! b1 := swap_chk (sb y) i j in Solved {| sA := A1; sb := b1 |})
                   (if j =? i then y else {| sA := swap (sA y) i j []; sb := swap (sb y) i j None |})).
  { destruct (j =? i); [reflexivity|].
    eapply okis_bind; [apply swap_chk_okis|]. eapply okis_bind; [apply swap_chk_okis|]. reflexivity. }
  destruct (if j =? i then Solved y else _) as [| |y1]; cbn [bind okis] in *; [exact I|destruct K|]. subst y1.
  pose proof (elim_fold_okis i (seq (S i) (p - S i)) _ _ (okis_Solved (if j =? i then y else {| sA := swap (sA y) i j []; sb := swap (sb y) i j None |}))) as F.
  destruct (fold_left _ _ (Solved _)) as [| |y2]; cbn [okis refo] in *; [exact I|destruct F|now subst].
Qed.

Lemma triangularize_chk_refo p : forall cols y, refo (triangularize_chk p cols y) (triangularize p cols y).
Proof.
  induction cols as [|i rest IH]; intros y; cbn [triangularize_chk triangularize]; [reflexivity|].
  pose proof (col_forward_chk_refo p y i) as H.
  destruct (col_forward_chk p y i) as [| |y']; cbn [bind refo] in *; [exact I|now rewrite H|].
  rewrite H. apply IH.
Qed.

Lemma bs_fold_okis row x : forall js a v, okis a v ->
  okis (fold_left (bs_step_chk row x) js a) (fold_left (fun a j => if bit row j then sxor a (nth j x s0) else a) js v).
Proof.
  induction js as [|j js IH]; intros a v H; cbn [fold_left]; [exact H|].
  apply IH. unfold bs_step_chk. eapply okis_bind; [exact H|]. eapply okis_bind; [apply bit_chk_okis|].
  destruct (bit row j); [|reflexivity]. eapply okis_bind; [apply (okis_acc_nth x j s0)|]. reflexivity.
Qed.

Lemma back_subst_chk_okis q y : forall cnt x, okis (back_subst_chk q y cnt x) (back_subst q y cnt x).
Proof.
  induction cnt as [|c IH]; intros x; cbn [back_subst_chk back_subst]; [reflexivity|].
  eapply okis_bind; [apply getrow_chk_okis|]. eapply okis_bind; [apply (okis_acc_nth (sb y) c None)|].
  eapply okis_bind; [apply bs_fold_okis; reflexivity|]. eapply okis_bind; [apply okis_acc_upd|]. apply IH.
Qed.

Lemma solve_chk_refo p q y : refo (solve_chk p q y) (solve p q y).
Proof.
  unfold solve_chk, solve. pose proof (triangularize_chk_refo p (seq 0 q) y) as H.
  destruct (triangularize_chk p (seq 0 q) y) as [| |y']; cbn [bind refo] in *; [exact I|now rewrite H|].
  rewrite H. pose proof (back_subst_chk_okis q y' q (repeat s0 q)) as K.
  destruct (back_subst_chk q y' q (repeat s0 q)); cbn [okis refo] in *; [exact I|destruct K|now subst].
Qed.

Theorem solve_chk_refines p q y :
  (forall x, solve_chk p q y = Solved x -> solve p q y = Some x) /\
  (solve_chk p q y = NoSolution -> solve p q y = None).
Proof.
  pose proof (solve_chk_refo p q y) as H. split.
  - intros x E. now rewrite E in H.
  - intros E. now rewrite E in H.
Qed.

(* ------------------------------------------------------------------------------------------ *)
(* S3. Safety on well-shaped systems                                                            *)
(* ------------------------------------------------------------------------------------------ *)
(* p rows of q bits each, p constant terms *)
Definition Shape (p q : nat) (y : sys) : Prop :=
  length (sA y) = p /\ length (sb y) = p /\ Forall (fun row => length row = q) (sA y).

Lemma Shape_row p q y k : Shape p q y -> k < p -> length (getrow (sA y) k) = q.
Proof. intros (HA & _ & HF) Hk. unfold getrow. apply (proj1 (Forall_nth _ _) HF). now rewrite HA. Qed.

(* the same thing as the invariant WFs of DenseSolveProofs.v *)
Lemma Shape_WFs p q y : Shape p q y <-> WFs Sy p q y.
Proof.
  split.
  - intros S. destruct S as (HA & HB & HF). constructor; [exact HA|exact HB|].
    intros k Hk. apply (Shape_row p q y k); [now repeat split|exact Hk].
  - intros [HA HB HL]. split; [exact HA|]. split; [exact HB|].
    apply Forall_nth. intros k d Hk. rewrite (nth_indep _ d []) by exact Hk. apply HL. now rewrite <- HA.
Qed.

Lemma Forall_upd {X} (P : X -> Prop) : forall (l : list X) i x, Forall P l -> (i < length l -> P x) -> Forall P (upd l i x).
Proof.
  induction l as [|h t IH]; intros i x HF Hx; [destruct i; exact HF|].
  inversion HF as [|? ? Hh Ht]; subst. destruct i as [|i]; cbn [upd].
  - constructor; [apply Hx; simpl; lia|exact Ht].
  - constructor; [exact Hh|]. apply IH; [exact Ht|]. intros Hi. apply Hx. simpl. lia.
Qed.

Lemma xor_from_aux_len c0 : forall s t i, length (xor_from_aux c0 i s t) = length s.
Proof. induction s as [|x s IH]; intros [|y t] i; simpl; auto. Qed.

Lemma elim_row_Shape p q i y j : Shape p q y -> Shape p q (elim_row i y j).
Proof.
  intros S. pose proof S as (HA & HB & HF). unfold elim_row.
  destruct (bit (getrow (sA y) j) i); [|exact S].
  assert (HF' : Forall (fun row => length row = q)
                  (upd (sA y) j (xor_row_from (32 * (i / 32)) (getrow (sA y) j) (getrow (sA y) i)))).
  { apply Forall_upd; [exact HF|]. intros Hj. unfold xor_row_from. rewrite xor_from_aux_len.
    apply (Shape_row p q y j S). now rewrite <- HA. }
  destruct (nth i (sb y) None) as [ci|]; (split; [|split]); cbn [sA sb]; rewrite ?upd_length; assumption.
Qed.

Lemma elim_fold_Shape p q i : forall js y, Shape p q y -> Shape p q (fold_left (elim_row i) js y).
Proof. induction js as [|j js IH]; intros y S; cbn [fold_left]; [exact S|]. apply IH. now apply elim_row_Shape. Qed.

Lemma swap_Shape p q y i j : Shape p q y -> i < p -> j < p ->
  Shape p q {| sA := swap (sA y) i j []; sb := swap (sb y) i j None |}.
Proof.
  intros S Hi Hj. pose proof S as (HA & HB & HF). unfold swap. split; [|split]; cbn [sA sb]; rewrite ?upd_length; try assumption.
  apply Forall_upd; [apply Forall_upd; [exact HF|]|]; intros _.
  - apply (Shape_row p q y j S Hj).
  - apply (Shape_row p q y i S Hi).
Qed.

Lemma find_pivot_range A i : forall cnt j j', find_pivot A i j cnt = Some j' -> j <= j' < j + cnt.
Proof.
  induction cnt as [|c IH]; intros j j' H; cbn [find_pivot] in H; [discriminate|].
  destruct (bit (getrow A j) i); [injection H as <-; lia|]. apply IH in H. lia.
Qed.

Lemma col_forward_Shape p q y i y' : Shape p q y -> col_forward p y i = Some y' -> Shape p q y'.
Proof.
  intros S H. unfold col_forward in H.
  destruct (find_pivot (sA y) i i (p - i)) as [j|] eqn:E; [|discriminate]. injection H as <-.
  apply find_pivot_range in E. apply elim_fold_Shape.
  destruct (j =? i); [exact S|]. apply swap_Shape; [exact S|lia|lia].
Qed.

Lemma triangularize_Shape p q : forall cols y y', Shape p q y -> triangularize p cols y = Some y' -> Shape p q y'.
Proof.
  induction cols as [|i rest IH]; intros y y' S H; cbn [triangularize] in H; [now injection H as <-|].
  destruct (col_forward p y i) as [y1|] eqn:E; [|discriminate].
  apply (IH y1 y'); [exact (col_forward_Shape p q y i y1 S E)|exact H].
Qed.

(* a column that found its pivot is a row index: the back-substitution over q columns only runs when q <= p *)
Lemma triangularize_cols_lt p : forall cols y y', triangularize p cols y = Some y' -> forall i, In i cols -> i < p.
Proof.
  induction cols as [|i rest IH]; intros y y' H k Hk; [destruct Hk|]. cbn [triangularize] in H.
  destruct (col_forward p y i) as [y1|] eqn:E; [|discriminate]. destruct Hk as [<-|Hk]; [|exact (IH y1 y' H k Hk)].
  unfold col_forward in E. destruct (find_pivot (sA y) i i (p - i)) as [j|] eqn:F; [|discriminate].
  apply find_pivot_range in F. lia.
Qed.

(* ---- the checked copies equal the plain ones on well-shaped systems ---- *)
Lemma getrow_chk_in A k : k < length A -> getrow_chk A k = Solved (getrow A k).
Proof. intros H. unfold getrow_chk, getrow. now apply acc_nth_in. Qed.
Lemma bit_chk_in row c : c < length row -> bit_chk row c = Solved (bit row c).
Proof. intros H. unfold bit_chk, bit. now apply acc_nth_in. Qed.

Lemma xor_from_aux_chk_in c0 : forall s t i, length s = length t -> xor_from_aux_chk c0 i s t = Solved (xor_from_aux c0 i s t).
Proof.
  induction s as [|x s IH]; intros [|y t] i H; cbn [xor_from_aux_chk xor_from_aux]; try discriminate H; [reflexivity|].
  rewrite IH by (simpl in H; lia). reflexivity.
Qed.

Lemma find_pivot_chk_safe p q A i : length A = p -> Forall (fun row => length row = q) A -> i < q ->
  forall cnt j, j + cnt <= p -> find_pivot_chk A i j cnt = of_opt (find_pivot A i j cnt).
Proof.
  intros HA HF Hi. induction cnt as [|c IH]; intros j Hj; cbn [find_pivot_chk find_pivot]; [reflexivity|].
  rewrite getrow_chk_in by lia. cbn [bind]. rewrite bit_chk_in.
  - cbn [bind]. destruct (bit (getrow A j) i); [reflexivity|]. apply IH. lia.
  - unfold getrow. rewrite (proj1 (Forall_nth _ _) HF j [] ltac:(lia)). exact Hi.
Qed.

Lemma swap_chk_in {X} (l : list X) i j d : i < length l -> j < length l -> swap_chk l i j = Solved (swap l i j d).
Proof.
  intros Hi Hj. unfold swap_chk, swap.
  rewrite (acc_nth_in l j d Hj). cbn [bind]. rewrite (acc_nth_in l i d Hi). cbn [bind].
  rewrite acc_upd_in by exact Hi. cbn [bind]. rewrite acc_upd_in by (rewrite ITLemmas.upd_length; exact Hj). reflexivity.
Qed.

Lemma elim_row_chk_safe p q i y j : Shape p q y -> i < q -> i < p -> j < p -> elim_row_chk i y j = Solved (elim_row i y j).
Proof.
  intros S Hiq Hip Hjp. pose proof S as (HA & HB & HF). unfold elim_row_chk, elim_row.
  rewrite getrow_chk_in by lia. cbn [bind].
  rewrite bit_chk_in by (rewrite (Shape_row p q y j S Hjp); exact Hiq). cbn [bind].
  destruct (bit (getrow (sA y) j) i); [|reflexivity].
  rewrite getrow_chk_in by lia. cbn [bind]. unfold xor_row_from_chk, xor_row_from.
  rewrite xor_from_aux_chk_in by (rewrite (Shape_row p q y j S Hjp), (Shape_row p q y i S Hip); reflexivity). cbn [bind].
  rewrite acc_upd_in by lia. cbn [bind]. rewrite (acc_nth_in (sb y) i None) by lia. cbn [bind].
  destruct (nth i (sb y) None) as [ci|].
  - rewrite (acc_nth_in (sb y) j None) by lia. cbn [bind]. rewrite acc_upd_in by lia. reflexivity.
  - rewrite acc_upd_in by lia. reflexivity.
Qed.

Lemma elim_fold_safe p q i : i < q -> i < p -> forall js y, Shape p q y -> (forall j, In j js -> j < p) ->
  fold_left (fun a j => let! y := a in elim_row_chk i y j) js (Solved y) = Solved (fold_left (elim_row i) js y).
Proof.
  intros Hiq Hip. induction js as [|j js IH]; intros y S Hjs; cbn [fold_left]; [reflexivity|].
  cbn [bind]. rewrite (elim_row_chk_safe p q i y j S Hiq Hip) by (apply Hjs; now left).
  apply IH; [now apply elim_row_Shape|]. intros k Hk. apply Hjs. now right.
Qed.

Lemma col_forward_chk_safe p q y i : Shape p q y -> i < q -> col_forward_chk p y i = of_opt (col_forward p y i).
Proof.
  intros S Hiq. pose proof S as (HA & HB & HF). unfold col_forward_chk, col_forward.
  destruct (Nat.le_gt_cases p i) as [Hpi|Hip]; [replace (p - i) with 0 by lia; reflexivity|].
  rewrite (find_pivot_chk_safe p q (sA y) i HA HF Hiq) by lia.
  destruct (find_pivot (sA y) i i (p - i)) as [j|] eqn:E; [|reflexivity]. cbn [of_opt bind].
  apply find_pivot_range in E.
  assert (K : (if j =? i then Solved y else
               let! A1 := swap_chk (sA y) i j in let! b1 := swap_chk (sb y) i j in Solved {| sA := A1; sb := b1 |})
              = Solved (if j =? i then y else {| sA := swap (sA y) i j []; sb := swap (sb y) i j None |})).
  { destruct (j =? i); [reflexivity|].
    rewrite (swap_chk_in (sA y) i j []) by lia. cbn [bind]. rewrite (swap_chk_in (sb y) i j None) by lia. reflexivity. }
  rewrite K. cbn [bind]. apply (elim_fold_safe p q i Hiq ltac:(lia)).
  - destruct (j =? i); [exact S|]. apply swap_Shape; [exact S|lia|lia].
  - intros k Hk. apply in_seq in Hk. lia.
Qed.

Lemma triangularize_chk_safe p q : forall cols y, Shape p q y -> (forall i, In i cols -> i < q) ->
  triangularize_chk p cols y = of_opt (triangularize p cols y).
Proof.
  induction cols as [|i rest IH]; intros y S Hc; cbn [triangularize_chk triangularize]; [reflexivity|].
  rewrite (col_forward_chk_safe p q y i S) by (apply Hc; now left).
  destruct (col_forward p y i) as [y1|] eqn:E; [|reflexivity]. cbn [of_opt bind].
  apply IH; [exact (col_forward_Shape p q y i y1 S E)|]. intros k Hk. apply Hc. now right.
Qed.

Lemma bs_fold_safe row x q : length row = q -> length x = q -> forall js v, (forall j, In j js -> j < q) ->
  fold_left (bs_step_chk row x) js (Solved v) = Solved (fold_left (fun a j => if bit row j then sxor a (nth j x s0) else a) js v).
Proof.
  intros Hr Hx. induction js as [|j js IH]; intros v Hjs; cbn [fold_left]; [reflexivity|].
  assert (Hj : j < q) by (apply Hjs; now left).
  unfold bs_step_chk at 2. cbn [bind]. rewrite bit_chk_in by lia. cbn [bind].
  destruct (bit row j).
  - rewrite (acc_nth_in x j s0) by lia. cbn [bind]. apply IH. intros k Hk. apply Hjs. now right.
  - apply IH. intros k Hk. apply Hjs. now right.
Qed.

Lemma back_subst_chk_safe p q y : Shape p q y -> forall cnt x, cnt <= q -> cnt <= p -> length x = q ->
  back_subst_chk q y cnt x = Solved (back_subst q y cnt x).
Proof.
  intros S. pose proof S as (HA & HB & HF).
  induction cnt as [|c IH]; intros x Hcq Hcp Hx; cbn [back_subst_chk back_subst]; [reflexivity|].
  rewrite getrow_chk_in by lia. cbn [bind]. rewrite (acc_nth_in (sb y) c None) by lia. cbn [bind].
  rewrite (bs_fold_safe (getrow (sA y) c) x q (Shape_row p q y c S ltac:(lia)) Hx)
    by (intros j Hj; apply in_seq in Hj; lia).
  cbn [bind]. rewrite acc_upd_in by lia. cbn [bind]. apply IH; [lia|lia|]. now rewrite ITLemmas.upd_length.
Qed.

(* S3: on a well-shaped system the checked solver IS the plain solver *)
Theorem solve_chk_safe p q y : Shape p q y -> solve_chk p q y = of_opt (solve p q y).
Proof.
  intros S. unfold solve_chk, solve.
  rewrite (triangularize_chk_safe p q (seq 0 q) y S) by (intros i Hi; apply in_seq in Hi; lia).
  destruct (triangularize p (seq 0 q) y) as [y'|] eqn:E; [|reflexivity]. cbn [of_opt bind].
  apply (back_subst_chk_safe p q y' (triangularize_Shape p q _ y y' S E)); [lia| |apply repeat_length].
  destruct q as [|q']; [lia|].
  pose proof (triangularize_cols_lt p _ y y' E q' ltac:(apply in_seq; lia)). lia.
Qed.

Corollary solve_chk_never_oob p q y : Shape p q y -> solve_chk p q y <> OutOfBounds.
Proof. intros S. rewrite (solve_chk_safe p q y S). destruct (solve p q y); discriminate. Qed.

(* the statement with the hypotheses spelled out (q <= p is implied by success, so it is not needed) *)
Corollary solve_chk_never_oob' p q (y : sys) :
  length (sA y) = p -> (forall row, In row (sA y) -> length row = q) -> length (sb y) = p ->
  solve_chk p q y <> OutOfBounds.
Proof.
  intros HA HR HB. apply solve_chk_never_oob. split; [exact HA|]. split; [exact HB|]. apply Forall_forall. exact HR.
Qed.

Lemma solve_length p q y x : solve p q y = Some x -> length x = q.
Proof.
  unfold solve. destruct (triangularize p (seq 0 q) y) as [y'|]; [|discriminate]. intros H. injection H as <-.
  assert (L : forall cnt x0, length (back_subst q y' cnt x0) = length x0).
  { induction cnt as [|c IH]; intros x0; cbn [back_subst]; [reflexivity|]. now rewrite IH, upd_length. }
  rewrite L. apply repeat_length.
Qed.
End DS.

Arguments Shape {Sy} p q y.

(* ------------------------------------------------------------------------------------------ *)
(* S4. The index translation of the ML finish: take_ct (through index_rows) and write_back       *)
(* ------------------------------------------------------------------------------------------ *)
From OFV Require Import ITModel ITLemmas ITProofs MLModel MLSimplify MLFinish.

Lemma filter_len_mono {X} (f g : X -> bool) l : (forall y, In y l -> f y = true -> g y = true) ->
  length (filter f l) <= length (filter g l).
Proof.
  induction l as [|a l IH]; intros H; cbn [filter]; [lia|].
  assert (IH' : length (filter f l) <= length (filter g l)) by (apply IH; intros y Hy; apply H; now right).
  destruct (f a) eqn:Ef; [rewrite (H a (or_introl eq_refl) Ef)|destruct (g a)]; cbn [length]; lia.
Qed.

Lemma filter_none {X} (f : X -> bool) l : (forall y, In y l -> f y = false) -> filter f l = [].
Proof.
  induction l as [|a l IH]; intros H; cbn [filter]; [reflexivity|].
  rewrite (H a (or_introl eq_refl)). apply IH. intros y Hy. apply H. now right.
Qed.

Section TW.
Variable Sy : Type. Variable s0 : Sy.
Notation unkt := (unkt Sy).

(* const_term[i] = tab_const_term_of_equ[index_rows[i]]; tab_const_term_of_equ[index_rows[i]] = NULL *)
Fixpoint take_ct_chk (idx : list nat) (ctl : list (option Sy)) : option (list (option Sy) * list (option Sy)) :=
  match idx with
  | [] => Some ([], ctl)
  | j :: rest =>
    match nth_chk ctl j with None => None | Some v =>
    match upd_chk ctl j None with None => None | Some ctl1 =>
    match take_ct_chk rest ctl1 with None => None | Some (b, ctl') => Some (v :: b, ctl') end end end
  end.

(* tab[srcs[j]] is read, and when it is unknown x[pos] is read and tab[srcs[j]] written *)
Fixpoint write_back_chk (srcs : list nat) (x : list Sy) (pos : nat) (tb : list (option Sy)) : option (list (option Sy)) :=
  match srcs with
  | [] => Some tb
  | c :: rest =>
    match nth_chk tb c with
    | None => None
    | Some (Some _) => write_back_chk rest x pos tb
    | Some None =>
      match nth_chk x pos with None => None | Some v =>
      match upd_chk tb c (Some v) with None => None | Some tb' => write_back_chk rest x (S pos) tb' end end
    end
  end.

(* ---- take_ct ---- *)
Lemma take_ct_chk_sound : forall idx ctl bc, take_ct_chk idx ctl = Some bc -> take_ct idx ctl = bc.
Proof.
  induction idx as [|j rest IH]; intros ctl bc H; cbn [take_ct_chk take_ct] in *; [now injection H as <-|].
  destruct (nth_chk ctl j) as [v|] eqn:E1; [|discriminate].
  destruct (upd_chk ctl j None) as [ctl1|] eqn:E2; [|discriminate].
  destruct (take_ct_chk rest ctl1) as [[b ctl']|] eqn:E3; [|discriminate]. injection H as <-.
  destruct (ITBounds.nth_chk_sound ctl j v None E1) as (_ & <-).
  destruct (ITBounds.upd_chk_sound ctl j None ctl1 E2) as (_ & <-).
  now rewrite (IH _ _ E3).
Qed.

(* exact failure condition: some index is not an index of the table *)
Lemma take_ct_chk_in : forall idx ctl, (forall j, In j idx -> j < length ctl) -> take_ct_chk idx ctl = Some (take_ct idx ctl).
Proof.
  induction idx as [|j rest IH]; intros ctl H; cbn [take_ct_chk take_ct]; [reflexivity|].
  assert (Hj : j < length ctl) by (apply H; now left).
  rewrite (ITBounds.nth_chk_in ctl j None Hj), (ITBounds.upd_chk_in ctl j None Hj).
  rewrite IH by (intros k Hk; rewrite upd_length; apply H; now right).
  destruct (take_ct rest (upd ctl j None)) as [b ctl']. reflexivity.
Qed.

Lemma take_ct_chk_none : forall idx ctl, take_ct_chk idx ctl = None -> exists j, In j idx /\ length ctl <= j.
Proof.
  induction idx as [|j rest IH]; intros ctl H; cbn [take_ct_chk] in H; [discriminate|].
  destruct (nth_chk ctl j) as [v|] eqn:E1; [|exists j; split; [now left|now apply nth_chk_None]].
  destruct (upd_chk ctl j None) as [ctl1|] eqn:E2; [|exists j; split; [now left|now apply upd_chk_None in E2]].
  destruct (take_ct_chk rest ctl1) as [[b ctl']|] eqn:E3; [discriminate|].
  destruct (IH ctl1 E3) as (k & Hk & Hl). exists k. split; [now right|].
  destruct (ITBounds.upd_chk_sound ctl j None ctl1 E2) as (_ & <-). now rewrite upd_length in Hl.
Qed.

(* the shape ml_finish passes: the non-empty rows (a filter of 0..R-1) followed by stale identity entries,
   into a table of R constant terms *)
Theorem take_ct_chk_ml (f : nat -> bool) R (ctl : list (option Sy)) : length ctl = R ->
  let rows := filter f (seq 0 R) in
  let idx := rows ++ seq (length rows) (R - length rows) in
  take_ct_chk idx ctl = Some (take_ct idx ctl).
Proof.
  intros Hl rows idx. apply take_ct_chk_in. intros j Hj. unfold idx in Hj. apply in_app_or in Hj. rewrite Hl.
  destruct Hj as [Hj|Hj].
  - unfold rows in Hj. apply filter_In in Hj. destruct Hj as (Hj & _). apply in_seq in Hj. lia.
  - apply in_seq in Hj. lia.
Qed.

(* ---- write_back ---- *)
Lemma write_back_chk_sound x : forall srcs pos tb tb', write_back_chk srcs x pos tb = Some tb' -> write_back s0 srcs x pos tb = tb'.
Proof.
  induction srcs as [|c rest IH]; intros pos tb tb' H; cbn [write_back_chk write_back] in *; [now injection H as <-|].
  destruct (nth_chk tb c) as [o|] eqn:E1; [|discriminate].
  destruct (ITBounds.nth_chk_sound tb c o None E1) as (_ & <-).
  destruct (nth c tb None) as [w|]; [exact (IH _ _ _ H)|].
  destruct (nth_chk x pos) as [v|] eqn:E2; [|discriminate].
  destruct (ITBounds.nth_chk_sound x pos v s0 E2) as (_ & <-).
  destruct (upd_chk tb c (Some (nth pos x s0))) as [tb1|] eqn:E3; [|discriminate].
  destruct (ITBounds.upd_chk_sound tb c _ tb1 E3) as (_ & <-). exact (IH _ _ _ H).
Qed.

Lemma unkt_upd_le (tb : list (option Sy)) c v l :
  length (filter (unkt (upd tb c (Some v))) l) <= length (filter (unkt tb) l).
Proof.
  apply filter_len_mono. intros y _. unfold MLFinish.unkt.
  destruct (Nat.eq_dec c y) as [->|Hne]; [|now rewrite nth_upd_neq by exact Hne].
  destruct (Nat.lt_ge_cases y (length tb)) as [Hlt|Hge].
  - rewrite nth_upd_eq by exact Hlt. discriminate.
  - rewrite nth_overflow by (rewrite upd_length; exact Hge). now rewrite nth_overflow by exact Hge.
Qed.

(* every position is in the table and, unless no entry is unknown, the reads of x stay inside x *)
Lemma write_back_chk_in x : forall srcs pos tb, (forall c, In c srcs -> c < length tb) ->
  (filter (unkt tb) srcs = [] \/ pos + length (filter (unkt tb) srcs) <= length x) ->
  write_back_chk srcs x pos tb = Some (write_back s0 srcs x pos tb).
Proof.
  induction srcs as [|c rest IH]; intros pos tb Hs Hx; cbn [write_back_chk write_back]; [reflexivity|].
  assert (Hc : c < length tb) by (apply Hs; now left).
  rewrite (ITBounds.nth_chk_in tb c None Hc). cbn [filter] in Hx.
  destruct (nth c tb None) as [w|] eqn:Ec.
  - assert (Hu : unkt tb c = false) by (unfold MLFinish.unkt; now rewrite Ec). rewrite Hu in Hx.
    apply IH; [intros k Hk; apply Hs; now right|exact Hx].
  - assert (Hu : unkt tb c = true) by (unfold MLFinish.unkt; now rewrite Ec). rewrite Hu in Hx.
    destruct Hx as [Hx|Hx]; [discriminate Hx|]. cbn [length] in Hx.
    rewrite (ITBounds.nth_chk_in x pos s0) by lia.
    rewrite (ITBounds.upd_chk_in tb c _ Hc).
    apply IH; [intros k Hk; rewrite upd_length; apply Hs; now right|].
    right. pose proof (unkt_upd_le tb c (nth pos x s0) rest). lia.
Qed.

(* the shape ml_finish passes: the k source positions R .. R+k-1 of a table of R+k symbols, reading the
   solution from position nrep on *)
Theorem write_back_chk_ml R k x nrep (tb : list (option Sy)) : length tb = R + k ->
  let srcs := map (fun i => R + i) (seq 0 k) in
  (filter (unkt tb) srcs = [] \/ nrep + length (filter (unkt tb) srcs) <= length x) ->
  write_back_chk srcs x nrep tb = Some (write_back s0 srcs x nrep tb).
Proof.
  intros Hl srcs Hx. apply write_back_chk_in; [|exact Hx].
  intros c Hc. unfold srcs in Hc. apply in_map_iff in Hc. destruct Hc as (i & <- & Hi). apply in_seq in Hi. lia.
Qed.
End TW.

(* ---- everything ml_finish does after the injections, with checked accesses ---- *)
Section MLT.
Variable Sy : Type. Variable sxor : Sy -> Sy -> Sy. Variable s0 : Sy.
Notation st := (st Sy).

(* None = some access was out of bounds (the plain ml_tail is never None) *)
Definition ml_tail_chk (k : nat) (s : st) : option (outcome Sy) :=
  if (length (cols_of Sy s) =? 0) || (length (rows_of Sy s) <? length (cols_of Sy s)) then give_up Sy s else
  match take_ct_chk Sy (idx_of Sy s) (ct s) with
  | None => None
  | Some (b, ct') =>
    let s2 := with_ct Sy s ct' in
    match solve_chk Sy sxor s0 (r s) (length (cols_of Sy s)) (Build_sys (matA Sy s) b) with
    | OutOfBounds => None
    | NoSolution => give_up Sy s2
    | Solved x =>
      match write_back_chk Sy (map (fun i => r s + i) (seq 0 k)) x (nrep_of Sy s) (tab s) with
      | None => None
      | Some tb => Some {| o_st := mk (r s) (n s) (rws s) (unk s) (enc s) (ct s2) tb (fnd s); o_ok := true; o_solved := true |}
      end
    end
  end.

(* None = out of fuel in the injections (as in the plain model) or an access out of bounds after them *)
Definition ml_finish_chk (fuel : nat) (perm : list nat) (s : st) : option (outcome Sy) :=
  match red Sy sxor fuel perm s with None => None | Some s1 => ml_tail_chk (n s - r s) s1 end.

Theorem ml_tail_chk_refines k (s : st) o : ml_tail_chk k s = Some o -> ml_tail Sy sxor s0 k s = Some o.
Proof.
  unfold ml_tail_chk, ml_tail.
  destruct ((length (cols_of Sy s) =? 0) || (length (rows_of Sy s) <? length (cols_of Sy s))); [exact (fun H => H)|].
  destruct (take_ct_chk Sy (idx_of Sy s) (ct s)) as [[b ct']|] eqn:E1; [|discriminate].
  rewrite (take_ct_chk_sound Sy _ _ _ E1). cbn [fst snd].
  pose proof (solve_chk_refo Sy sxor s0 (r s) (length (cols_of Sy s)) (Build_sys (matA Sy s) b)) as R.
  destruct (solve_chk Sy sxor s0 (r s) (length (cols_of Sy s)) (Build_sys (matA Sy s) b)) as [| |x]; cbn [refo] in R;
    [discriminate|rewrite R; exact (fun H => H)|].
  rewrite R. destruct (write_back_chk Sy _ x (nrep_of Sy s) (tab s)) as [tb|] eqn:E3; [|discriminate].
  rewrite (write_back_chk_sound Sy s0 x _ _ _ _ E3). exact (fun H => H).
Qed.

Theorem ml_finish_chk_refines fuel perm (s : st) o : ml_finish_chk fuel perm s = Some o -> ml_finish sxor s0 fuel perm s = Some o.
Proof.
  unfold ml_finish_chk. rewrite ml_finish_eq. destruct (red Sy sxor fuel perm s) as [s1|]; [|discriminate].
  apply ml_tail_chk_refines.
Qed.

(* ---- under the hypotheses of MLFinish.v ---- *)
Hypothesis sxor_assoc : forall a b c, sxor a (sxor b c) = sxor (sxor a b) c.
Hypothesis sxor_comm : forall a b, sxor a b = sxor b a.
Hypothesis sxor_0_l : forall a, sxor s0 a = a.
Hypothesis sxor_nilp : forall a, sxor a a = s0.
Variable H0 : list (list nat).
Variable R0 N0 : nat.
Hypothesis H0_len : length H0 = R0.
Hypothesis H0_nodup : forall i, i < R0 -> NoDup (nth i H0 []).
Hypothesis H0_range : forall i c, i < R0 -> In c (nth i H0 []) -> c < N0.
Hypothesis H0_deg : forall i, i < R0 -> 2 <= length (nth i H0 []).
Hypothesis R_le_N : R0 <= N0.
Variable cw : nat -> Sy.
Hypothesis parity : forall i, i < R0 -> xs Sy sxor s0 cw (nth i H0 []) = s0.
Hypothesis H0_cols : forall c, c < N0 -> exists i, i < R0 /\ In c (nth i H0 []).

Notation Inv := (MLInv Sy sxor s0 H0 R0 N0 cw).
Notation Pre := (MLPre Sy H0 R0 N0 cw).
Notation iscomp := (iscomp Sy R0 N0).
Notation RC := (RC Sy H0 R0).
Notation unkt := (unkt Sy).

Section Tail.
Variable s1 : st.
Hypothesis I1 : Inv s1.
Hypothesis HX : iscomp s1 \/ RC s1.

Let Wf1 := W1 Sy sxor s0 H0 R0 N0 cw s1 I1.
Let Er := r1 Sy sxor s0 H0 R0 N0 cw s1 I1.

(* the index list is the shape of take_ct_chk_ml *)
Lemma take_ct_chk_tail : take_ct_chk Sy (idx_of Sy s1) (ct s1) = Some (take_ct (idx_of Sy s1) (ct s1)).
Proof.
  unfold idx_of, rows_of.
  apply (take_ct_chk_ml Sy (fun i => negb (is_nil (nth i (rws s1) []))) (r s1) (ct s1)).
  rewrite Er. exact (wf_ct Sy R0 N0 s1 Wf1).
Qed.

(* the dense system is well-shaped *)
Lemma matA_Shape : Shape R0 (length (cols_of Sy s1)) (Build_sys (matA Sy s1) (fst (take_ct (idx_of Sy s1) (ct s1)))).
Proof.
  apply Shape_WFs. apply (matA_WF Sy sxor s0 H0 R0 N0 H0_len R_le_N cw s1 I1).
  exact (rhs_length Sy sxor s0 H0 R0 N0 H0_len R_le_N cw s1 I1).
Qed.

(* the solution has one entry for each unknown repair, then one for each unknown source:
   nrep + (number of unknown sources) <= q  (with equality; when the sources are all known nothing is read) *)
Lemma write_back_reads_ok :
  let srcs := map (fun i => R0 + i) (seq 0 (N0 - R0)) in
  filter (unkt (tab s1)) srcs = [] \/ nrep_of Sy s1 + length (filter (unkt (tab s1)) srcs) <= length (cols_of Sy s1).
Proof.
  cbv zeta. rewrite map_add_seq. destruct HX as [C|HRC].
  - left. apply filter_none. intros c Hc. apply in_seq in Hc.
    rewrite unkt_known. rewrite (C c ltac:(lia)). reflexivity.
  - right. rewrite (cols_char Sy sxor s0 H0 R0 N0 H0_len H0_nodup H0_range H0_deg R_le_N cw H0_cols s1 I1 HRC).
    unfold nrep_of. rewrite Er.
    replace (seq 0 N0) with (seq 0 R0 ++ seq R0 (N0 - R0)) by (rewrite <- seq_app; f_equal; lia).
    rewrite filter_app, app_length. lia.
Qed.

Theorem ml_tail_chk_safe : ml_tail_chk (N0 - R0) s1 = ml_tail Sy sxor s0 (N0 - R0) s1.
Proof.
  unfold ml_tail_chk, ml_tail.
  destruct ((length (cols_of Sy s1) =? 0) || (length (rows_of Sy s1) <? length (cols_of Sy s1))); [reflexivity|].
  rewrite take_ct_chk_tail. pose proof matA_Shape as S.
  destruct (take_ct (idx_of Sy s1) (ct s1)) as [b ct'] eqn:E1. cbn [fst snd] in *.
  rewrite Er. rewrite (solve_chk_safe Sy sxor s0 R0 _ _ S).
  destruct (solve Sy sxor s0 R0 (length (cols_of Sy s1)) (Build_sys (matA Sy s1) b)) as [x|] eqn:E2; cbn [of_opt]; [|reflexivity].
  rewrite (write_back_chk_ml Sy s0 R0 (N0 - R0) x (nrep_of Sy s1) (tab s1)); [reflexivity| |].
  - rewrite (wf_tab Sy R0 N0 s1 Wf1). lia.
  - rewrite (solve_length Sy sxor s0 _ _ _ _ E2). exact write_back_reads_ok.
Qed.

Corollary ml_tail_chk_never_oob : exists o, ml_tail_chk (N0 - R0) s1 = Some o.
Proof.
  rewrite ml_tail_chk_safe. unfold ml_tail, give_up.
  destruct ((length (cols_of Sy s1) =? 0) || (length (rows_of Sy s1) <? length (cols_of Sy s1))).
  - destruct (is_complete s1) as [b sx]. eexists; reflexivity.
  - destruct (solve Sy sxor s0 (r s1) _ _).
    + eexists; reflexivity.
    + destruct (is_complete _) as [b sx]. eexists; reflexivity.
Qed.
End Tail.

(* the whole finish: from any state satisfying the precondition of MLFinish.v, with enough fuel and a
   permutation of the repair columns, the state reached after the injections makes every access of the
   rest of ml_finish fall inside its table, and the checked finish is the plain one *)
Theorem ml_finish_chk_safe fuel perm (s : st) : Pre s -> N0 < fuel ->
  (forall c, c < R0 -> In c perm) -> (forall c, In c perm -> c < R0) ->
  ml_finish_chk fuel perm s = ml_finish sxor s0 fuel perm s /\
  exists s1 o, red Sy sxor fuel perm s = Some s1 /\ ml_tail_chk (n s - r s) s1 = Some o /\
               ml_finish sxor s0 fuel perm s = Some o.
Proof.
  intros P Hf Hp1 Hp2.
  destruct (reduce_gen Sy sxor s0 sxor_assoc sxor_comm sxor_0_l sxor_nilp H0 R0 N0 H0_len H0_nodup H0_range H0_deg R_le_N
              cw fuel perm s parity P Hf Hp1 Hp2) as (s1 & Hs1 & I1 & _ & _ & X).
  assert (W : WF Sy R0 N0 s) by apply P.
  assert (E : ml_finish_chk fuel perm s = ml_finish sxor s0 fuel perm s).
  { unfold ml_finish_chk. rewrite ml_finish_eq, Hs1. rewrite (wf_r Sy R0 N0 s W), (wf_n Sy R0 N0 s W).
    exact (ml_tail_chk_safe s1 I1 X). }
  split; [exact E|].
  destruct (ml_tail_chk_never_oob s1 I1 X) as (o & Ho). exists s1, o. split; [exact Hs1|].
  rewrite (wf_r Sy R0 N0 s W), (wf_n Sy R0 N0 s W). split; [exact Ho|].
  rewrite <- E. unfold ml_finish_chk. rewrite Hs1, (wf_r Sy R0 N0 s W), (wf_n Sy R0 N0 s W). exact Ho.
Qed.
End MLT.

(* ------------------------------------------------------------------------------------------ *)
(* S5. The checks are not vacuous: the checked copies fail where the plain ones mask the slip    *)
(* ------------------------------------------------------------------------------------------ *)
Section Examples.
Let solveb := solve bool xorb false.
Let solveb_chk := solve_chk bool xorb false.

(* row 0 is one bit short: the back-substitution reads bit 1 of row 0 (the plain model reads the default) *)
Definition short_row : sys bool := Build_sys [[true]; [false; true]] [Some true; Some false].
Example short_row_plain : solveb 2 2 short_row = Some [true; false].
Proof. vm_compute. reflexivity. Qed.
Example short_row_chk : solveb_chk 2 2 short_row = OutOfBounds.
Proof. vm_compute. reflexivity. Qed.

(* rows of different lengths meet in the word-granular XOR (the plain model stops at the shorter row) *)
Definition uneven_rows : sys bool := Build_sys [[true]; [true; true]] [Some true; Some false].
Example uneven_rows_plain : solveb 2 2 uneven_rows = Some [true; true].
Proof. vm_compute. reflexivity. Qed.
Example uneven_rows_chk : solveb_chk 2 2 uneven_rows = OutOfBounds.
Proof. vm_compute. reflexivity. Qed.

(* fewer constant terms than rows *)
Definition short_rhs : sys bool := Build_sys [[true; false]; [false; true]] [Some true].
Example short_rhs_plain : solveb 2 2 short_rhs = Some [true; false].
Proof. vm_compute. reflexivity. Qed.
Example short_rhs_chk : solveb_chk 2 2 short_rhs = OutOfBounds.
Proof. vm_compute. reflexivity. Qed.

(* on well-shaped systems the three outcomes other than OutOfBounds do occur *)
Example good_solved : solveb_chk 3 2 (Build_sys [[false; true]; [true; true]; [false; false]] [Some true; Some false; None]) = Solved [true; true].
Proof. vm_compute. reflexivity. Qed.
Example good_singular : solveb_chk 2 2 (Build_sys [[true; true]; [true; true]] [Some true; Some true]) = NoSolution.
Proof. vm_compute. reflexivity. Qed.
(* more unknowns than equations: no pivot for the last column, no access past the last row *)
Example good_wide : solveb_chk 1 2 (Build_sys [[true; true]] [Some true]) = NoSolution.
Proof. vm_compute. reflexivity. Qed.

(* an index_rows entry beyond the table of constant terms *)
Example take_ct_plain : take_ct [0; 5] [Some true; None] = ([Some true; None], [None; None]).
Proof. vm_compute. reflexivity. Qed.
Example take_ct_oob : take_ct_chk bool [0; 5] [Some true; None] = None.
Proof. vm_compute. reflexivity. Qed.

(* two unknown sources but a solution of one entry; a source position beyond the symbol table *)
Example write_back_plain : write_back false [1; 2] [true] 0 [Some true; None; None] = [Some true; Some true; Some false].
Proof. vm_compute. reflexivity. Qed.
Example write_back_oob_x : write_back_chk bool [1; 2] [true] 0 [Some true; None; None] = None.
Proof. vm_compute. reflexivity. Qed.
Example write_back_plain2 : write_back false [1; 3] [true; true] 0 [Some true; None; None] = [Some true; Some true; None].
Proof. vm_compute. reflexivity. Qed.
Example write_back_oob_tab : write_back_chk bool [1; 3] [true; true] 0 [Some true; None; None] = None.
Proof. vm_compute. reflexivity. Qed.
(* all sources known: x is never read, whatever nrep is *)
Example write_back_no_read : write_back_chk bool [1; 2] [] 7 [None; Some true; Some false] = Some [None; Some true; Some false].
Proof. vm_compute. reflexivity. Qed.
End Examples.

Print Assumptions solve_chk_refines.
Print Assumptions elim_row_Shape.
Print Assumptions col_forward_Shape.
Print Assumptions triangularize_Shape.
Print Assumptions solve_chk_safe.
Print Assumptions solve_chk_never_oob.
Print Assumptions solve_chk_never_oob'.
Print Assumptions take_ct_chk_sound.
Print Assumptions take_ct_chk_none.
Print Assumptions take_ct_chk_ml.
Print Assumptions write_back_chk_sound.
Print Assumptions write_back_chk_ml.
Print Assumptions ml_tail_chk_refines.
Print Assumptions ml_finish_chk_refines.
Print Assumptions ml_tail_chk_safe.
Print Assumptions ml_tail_chk_never_oob.
Print Assumptions ml_finish_chk_safe.
Print Assumptions short_row_chk.
Print Assumptions take_ct_oob.
