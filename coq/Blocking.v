(* Spec S for C20: RFC 5052 (section 9.1) block partitioning, over Z. *)
From Coq Require Import ZArith.
Local Open Scope Z_scope.
Definition ceil_div (a b : Z) : Z := (a + b - 1) / b.
Record partition := { p_T : Z; p_N : Z; p_A_large : Z; p_A_small : Z; p_I : Z }.
Definition rfc5052 (B L E : Z) : partition :=
  let T := ceil_div L E in
  let N := ceil_div T B in
  {| p_T := T; p_N := N; p_A_large := ceil_div T N; p_A_small := T / N; p_I := T mod N |}.
