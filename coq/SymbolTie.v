(* The ESI <-> matrix-column convention of the models (ITRun.col_of: sources are columns r .. n-1, repairs 0 .. r-1) IS the
   library's: gen/GenSymbol.v is regenerated on every run from the macros of of_symbol.h (of_get_symbol_col,
   of_get_symbol_esi, of_is_source_symbol, of_is_repair_symbol; tools/gen_params.py through harness/wrap_macros.c).  For every
   session size the library accepts (k + r below 2^31) and every ESI / column below n the generated functions are the models'
   conversions, and they are inverse to each other. *)
From Coq Require Import ZArith Arith Bool Lia.
From OFV Require Import CSem ITRun.
From OFV.gen Require Import GenSymbol.
Local Open Scope Z_scope.

Definition esi_of (k r col : nat) : nat := if (col <? r)%nat then (col + k)%nat else (col - r)%nat.

Lemma w32 z : 0 <= z < 2147483648 -> wraps32 (wrapu32 z) = z.
Proof.
  intros H. unfold wraps32, wraps, wrapu32, wrapu. change (2 ^ 32) with 4294967296. change (2 ^ (32 - 1)) with 2147483648.
  rewrite (Z.mod_small z) by lia. rewrite Z.mod_small by lia. lia.
Qed.

Theorem get_symbol_col_is_col_of : forall k r esi : nat, Z.of_nat k + Z.of_nat r < 2147483648 -> (esi < k + r)%nat ->
  get_symbol_col (Z.of_nat esi) (Z.of_nat r) (Z.of_nat k) = Some (Z.of_nat (col_of k r esi)).
Proof.
  intros k r esi Hn He. unfold get_symbol_col, col_of.
  destruct (Nat.ltb_spec esi k) as [H|H]; destruct (Z.ltb_spec (Z.of_nat esi) (Z.of_nat k)) as [H'|H']; try lia;
    rewrite w32 by lia; f_equal; lia.
Qed.

Theorem get_symbol_esi_is_esi_of : forall k r col : nat, Z.of_nat k + Z.of_nat r < 2147483648 -> (col < k + r)%nat ->
  get_symbol_esi (Z.of_nat col) (Z.of_nat r) (Z.of_nat k) = Some (Z.of_nat (esi_of k r col)).
Proof.
  intros k r col Hn Hc. unfold get_symbol_esi, esi_of.
  destruct (Nat.ltb_spec col r) as [H|H]; destruct (Z.ltb_spec (Z.of_nat col) (Z.of_nat r)) as [H'|H']; try lia;
    rewrite w32 by lia; f_equal; lia.
Qed.

Theorem col_esi_inverse : forall k r esi, (esi < k + r)%nat -> esi_of k r (col_of k r esi) = esi /\ (col_of k r esi < k + r)%nat.
Proof.
  intros k r esi H. unfold esi_of, col_of.
  destruct (Nat.ltb_spec esi k); [destruct (Nat.ltb_spec (esi + r) r)|destruct (Nat.ltb_spec (esi - k) r)]; lia.
Qed.

Theorem esi_col_inverse : forall k r col, (col < k + r)%nat -> col_of k r (esi_of k r col) = col /\ (esi_of k r col < k + r)%nat.
Proof.
  intros k r col H. unfold esi_of, col_of.
  destruct (Nat.ltb_spec col r); [destruct (Nat.ltb_spec (col + k) k)|destruct (Nat.ltb_spec (col - r) k)]; lia.
Qed.

Theorem is_source_symbol_is_below_k : forall k esi : nat,
  is_source_symbol (Z.of_nat esi) (Z.of_nat k) = Some (if (esi <? k)%nat then 1 else 0) /\
  is_repair_symbol (Z.of_nat esi) (Z.of_nat k) = Some (if (esi <? k)%nat then 0 else 1).
Proof.
  intros k esi. unfold is_source_symbol, is_repair_symbol.
  destruct (Nat.ltb_spec esi k); destruct (Z.ltb_spec (Z.of_nat esi) (Z.of_nat k)); try lia; split; reflexivity.
Qed.

Print Assumptions get_symbol_col_is_col_of.
Print Assumptions get_symbol_esi_is_esi_of.
Print Assumptions col_esi_inverse.
