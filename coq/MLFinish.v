(* The maximum-likelihood finish of the LDPC erasure decoder model (MLModel.v: ml_finish):
     F1 ml_finish_total         the finish always returns an outcome
     F2 ml_finish_values        never a wrong symbol; knowledge only grows; received/decoded symbols are kept
     F3 ml_finish_complete_iff  it reports OK iff all source symbols are available
                                iff the source symbols are uniquely determined by the known symbols
     F4 Det_known_ext           the success only depends on the set of known columns
   The symbol type is assumed to have at least two elements (Sy_nontrivial); it is used to transport a
   GF(2) kernel vector z of the parity-check matrix to a second codeword cw + z*a. *)
From Coq Require Import List Arith Bool Lia.
From OFV Require Import ListAux XorGroup ITModel ITLemmas ITProofs MLModel MLSimplify
  DenseSolve DenseSolveProofs DenseSolveNZ DenseSolveComplete LdpcEnc.
Import ListNotations.

(* ------------------------------------------------------------------------------------------ *)
(* 0. Lists                                                                                     *)
(* ------------------------------------------------------------------------------------------ *)
Definition mem (c : nat) (l : list nat) : bool := existsb (Nat.eqb c) l.

Lemma mem_In c l : mem c l = true <-> In c l.
Proof.
  unfold mem. rewrite existsb_exists. split.
  - intros (x & Hx & E). apply Nat.eqb_eq in E. now subst.
  - intros H. exists c. split; [exact H|apply Nat.eqb_refl].
Qed.

Lemma mem_false c l : mem c l = false <-> ~ In c l.
Proof.
  rewrite <- mem_In. destruct (mem c l); split; intros H.
  - discriminate H.
  - exfalso. now apply H.
  - intros H'. discriminate H'.
  - reflexivity.
Qed.

Lemma mem_ext c l l' : (In c l <-> In c l') -> mem c l = mem c l'.
Proof.
  intros H. destruct (mem c l') eqn:E.
  - apply mem_In. apply H. now apply mem_In.
  - apply mem_false. intros Hc. apply H in Hc. apply mem_In in Hc. congruence.
Qed.

Lemma map_seq_nth {T} (G : nat -> T) (l : list nat) :
  map (fun j => G (nth j l 0)) (seq 0 (length l)) = map G l.
Proof.
  induction l as [|x l IH]; [reflexivity|].
  cbn [length]. cbn [seq]. rewrite <- seq_shift. cbn [map]. rewrite map_map. cbn [nth]. now rewrite IH.
Qed.

Lemma nth_map_d {A B} (f : A -> B) l j d d' : j < length l -> nth j (map f l) d' = f (nth j l d).
Proof.
  intros H. rewrite (nth_indep _ d' (f d)) by (now rewrite map_length). apply map_nth.
Qed.

Lemma map_add_seq a k : map (fun i => a + i) (seq 0 k) = seq a k.
Proof.
  revert a. induction k as [|k IH]; intros a; [reflexivity|].
  cbn [seq map]. rewrite Nat.add_0_r. f_equal. rewrite <- seq_shift, map_map.
  rewrite <- (IH (S a)). apply map_ext. intros i. lia.
Qed.

Lemma filter_len_le {A} (f : A -> bool) l : length (filter f l) <= length l.
Proof. induction l as [|x l IH]; simpl; [lia|]. destruct (f x); simpl; lia. Qed.

(* position of an element *)
Fixpoint idx (c : nat) (l : list nat) : nat :=
  match l with [] => 0 | x :: t => if x =? c then 0 else S (idx c t) end.

Lemma idx_nth l : NoDup l -> forall j, j < length l -> idx (nth j l 0) l = j.
Proof.
  induction l as [|x l IH]; intros ND j Hj; [simpl in Hj; lia|].
  inversion ND as [|? ? Hx ND']; subst. destruct j as [|j]; cbn [nth idx].
  - now rewrite Nat.eqb_refl.
  - simpl in Hj. destruct (Nat.eqb_spec x (nth j l 0)) as [E|E].
    + exfalso. apply Hx. rewrite E. apply nth_In. lia.
    + f_equal. apply IH; [exact ND'|lia].
Qed.

(* position in a filtered interval *)
Lemma filter_seq_pos (f : nat -> bool) c m : c < m -> f c = true ->
  nth (length (filter f (seq 0 c))) (filter f (seq 0 m)) 0 = c.
Proof.
  intros Hc Hf. replace m with (c + S (m - S c)) by lia.
  rewrite seq_app, filter_app. cbn [seq filter plus]. rewrite Hf.
  rewrite app_nth2 by lia. rewrite Nat.sub_diag. reflexivity.
Qed.

Lemma filter_seq_pos_lt (f : nat -> bool) c m : c < m -> f c = true ->
  length (filter f (seq 0 c)) < length (filter f (seq 0 m)).
Proof.
  intros Hc Hf. replace m with (c + S (m - S c)) by lia.
  rewrite seq_app, filter_app. cbn [seq filter plus]. rewrite Hf.
  rewrite app_length. cbn [length]. lia.
Qed.

(* ------------------------------------------------------------------------------------------ *)
(* 1. Sums over duplicate-free lists in an abelian group of exponent 2                         *)
(* ------------------------------------------------------------------------------------------ *)
Section Grp.
Variable T : Type. Variable op : T -> T -> T. Variable e : T.
Hypothesis op_assoc : forall a b c, op a (op b c) = op (op a b) c.
Hypothesis op_comm : forall a b, op a b = op b a.
Hypothesis op_0_l : forall a, op e a = a.
Notation gs := (xs T op e).

Lemma gs_ext f g l : (forall c, In c l -> f c = g c) -> gs f l = gs g l.
Proof. intros H. unfold xs. f_equal. apply map_ext_in. exact H. Qed.

Lemma gs_rm f l c : NoDup l -> In c l -> gs f l = op (f c) (gs f (rm c l)).
Proof. intros ND Hin. exact (rowsum_split T op e op_assoc op_comm f l c ND Hin). Qed.

Lemma gs_mem f : forall cols l, NoDup cols -> NoDup l -> incl l cols ->
  gs (fun c => if mem c l then f c else e) cols = gs f l.
Proof.
  induction cols as [|x cols IH]; intros l NDc NDl Hincl.
  - destruct l as [|y l]; [reflexivity|]. exfalso. apply (Hincl y). now left.
  - inversion NDc as [|? ? Hx NDc']; subst.
    change (gs (fun c => if mem c l then f c else e) (x :: cols))
      with (op (if mem x l then f x else e) (gs (fun c => if mem c l then f c else e) cols)).
    destruct (mem x l) eqn:Ex.
    + apply mem_In in Ex. rewrite (gs_rm f l x NDl Ex). f_equal.
      rewrite <- (IH (rm x l)).
      * apply gs_ext. intros c Hc. rewrite (mem_ext c (rm x l) l); [reflexivity|].
        rewrite rm_In. split; [tauto|]. intros H. split; [exact H|]. intros ->. now apply Hx.
      * exact NDc'.
      * now apply rm_NoDup.
      * intros c Hc. apply rm_In in Hc. destruct Hc as (Hc & Hne).
        destruct (Hincl c Hc) as [->|H]; [now elim Hne|exact H].
    + apply mem_false in Ex. rewrite op_0_l. apply IH; [exact NDc'|exact NDl|].
      intros c Hc. destruct (Hincl c Hc) as [->|H]; [now elim Ex|exact H].
Qed.

(* the same sum written over the positions of cols, as the dense solver does *)
Lemma gs_positions f cols l (X : nat -> T) : NoDup cols -> NoDup l -> incl l cols ->
  (forall j, j < length cols -> X j = f (nth j cols 0)) ->
  fold_right op e (map (fun j => if bit (map (fun c => mem c l) cols) j then X j else e) (seq 0 (length cols))) = gs f l.
Proof.
  intros NDc NDl Hincl HX. rewrite <- (gs_mem f cols l NDc NDl Hincl).
  unfold xs. rewrite <- (map_seq_nth (fun c => if mem c l then f c else e) cols). f_equal.
  apply map_ext_in. intros j Hj. apply in_seq in Hj.
  unfold bit. rewrite (nth_map_d (fun c => mem c l) cols j 0 false) by lia.
  rewrite HX by lia. reflexivity.
Qed.
End Grp.

(* ------------------------------------------------------------------------------------------ *)
(* 2. take_ct and write_back                                                                    *)
(* ------------------------------------------------------------------------------------------ *)
Section TW.
Variable Sy : Type. Variable s0 : Sy.

Lemma take_ct_cons j rest (ctl : list (option Sy)) :
  take_ct (j :: rest) ctl = (nth j ctl None :: fst (take_ct rest (upd ctl j None)), snd (take_ct rest (upd ctl j None))).
Proof. cbn [take_ct]. destruct (take_ct rest (upd ctl j None)) as [b c]. reflexivity. Qed.

Lemma take_ct_length : forall idxl (ctl : list (option Sy)),
  length (fst (take_ct idxl ctl)) = length idxl /\ length (snd (take_ct idxl ctl)) = length ctl.
Proof.
  induction idxl as [|j rest IH]; intros ctl; [split; reflexivity|].
  rewrite take_ct_cons. cbn [fst snd length]. destruct (IH (upd ctl j None)) as (A & B).
  rewrite A, B, upd_length. split; reflexivity.
Qed.

(* the entries taken through a duplicate-free prefix of the index list are the original ones *)
Lemma take_ct_prefix l2 : forall l1 (ctl : list (option Sy)) k, NoDup l1 -> k < length l1 ->
  nth k (fst (take_ct (l1 ++ l2) ctl)) None = nth (nth k l1 0) ctl None.
Proof.
  induction l1 as [|j l1 IH]; intros ctl k ND Hk; [simpl in Hk; lia|].
  inversion ND as [|? ? Hj ND']; subst.
  change ((j :: l1) ++ l2) with (j :: (l1 ++ l2)). rewrite take_ct_cons. cbn [fst].
  destruct k as [|k]; [reflexivity|]. cbn [nth]. simpl in Hk.
  rewrite IH by (auto; lia). apply nth_upd_neq.
  intros ->. apply Hj. apply nth_In. lia.
Qed.

Definition unkt (tb : list (option Sy)) (c : nat) : bool := match nth c tb None with None => true | Some _ => false end.

Lemma write_back_spec (x : list Sy) : forall m a pos (tb : list (option Sy)), a + m <= length tb ->
  forall c, nth c (write_back s0 (seq a m) x pos tb) None =
    if (a <=? c) && (c <? a + m) then
      match nth c tb None with
      | Some v => Some v
      | None => Some (nth (pos + length (filter (unkt tb) (seq a (c - a)))) x s0)
      end
    else nth c tb None.
Proof.
  induction m as [|m IH]; intros a pos tb Hlen c.
  - cbn [seq write_back]. destruct (Nat.leb_spec a c); destruct (Nat.ltb_spec c (a + 0)); simpl; try reflexivity; lia.
  - cbn [seq write_back]. destruct (nth a tb None) as [w|] eqn:Ea.
    + rewrite IH by lia.
      destruct (Nat.leb_spec (S a) c); destruct (Nat.ltb_spec c (S a + m));
      destruct (Nat.leb_spec a c); destruct (Nat.ltb_spec c (a + S m)); try lia; cbn [andb]; try reflexivity.
      * replace (c - a) with (S (c - S a)) by lia. cbn [seq filter]. unfold unkt at 2. rewrite Ea. reflexivity.
      * assert (c = a) by lia. subst c. rewrite Ea. reflexivity.
    + rewrite IH by (rewrite upd_length; lia).
      destruct (Nat.leb_spec (S a) c); destruct (Nat.ltb_spec c (S a + m));
      destruct (Nat.leb_spec a c); destruct (Nat.ltb_spec c (a + S m)); try lia; cbn [andb].
      * rewrite nth_upd_neq by lia. destruct (nth c tb None); [reflexivity|].
        replace (c - a) with (S (c - S a)) by lia. cbn [seq filter]. unfold unkt at 2. rewrite Ea. cbn [length].
        rewrite (filter_ext_in (unkt (upd tb a (Some (nth pos x s0)))) (unkt tb)).
        -- f_equal. f_equal. lia.
        -- intros y Hy. apply in_seq in Hy. unfold unkt. rewrite nth_upd_neq by lia. reflexivity.
      * apply nth_upd_neq. lia.
      * assert (c = a) by lia. subst c. rewrite Ea. rewrite nth_upd_eq by lia. rewrite Nat.sub_diag. cbn [seq filter length].
        rewrite Nat.add_0_r. reflexivity.
      * apply nth_upd_neq. lia.
Qed.

Lemma write_back_length (x : list Sy) : forall srcs pos (tb : list (option Sy)),
  length (write_back s0 srcs x pos tb) = length tb.
Proof.
  induction srcs as [|c srcs IH]; intros pos tb; [reflexivity|].
  cbn [write_back]. destruct (nth c tb None); rewrite IH; [reflexivity|apply upd_length].
Qed.
End TW.

(* ------------------------------------------------------------------------------------------ *)
(* 3. The finish                                                                                *)
(* ------------------------------------------------------------------------------------------ *)
Section MLF.
Variable Sy : Type. Variable sxor : Sy -> Sy -> Sy. Variable s0 : Sy.
Hypothesis sxor_assoc : forall a b c, sxor a (sxor b c) = sxor (sxor a b) c.
Hypothesis sxor_comm : forall a b, sxor a b = sxor b a.
Hypothesis sxor_0_l : forall a, sxor s0 a = a.
Hypothesis sxor_nilp : forall a, sxor a a = s0.

Variable H0 : list (list nat).
Variable R0 N0 : nat.
Hypothesis H0_len : length H0 = R0.
Hypothesis H0_nodup : forall i, i < R0 -> NoDup (nth i H0 []).
Hypothesis H0_range : forall i c, i < R0 -> In c (nth i H0 []) -> c < N0.
Hypothesis H0_deg : forall i, i < R0 -> 2 <= length (nth i H0 []).
Hypothesis R_le_N : R0 <= N0.

Variable cw : nat -> Sy.
Hypothesis parity : forall i, i < R0 -> xs Sy sxor s0 cw (nth i H0 []) = s0.

Hypothesis H0_cols : forall c, c < N0 -> exists i, i < R0 /\ In c (nth i H0 []).
Hypothesis H0_stair : stair R0 H0.
Hypothesis Sy_nontrivial : exists a : Sy, a <> s0.

(* GF(2) kernel vectors of the parity-check matrix *)
Definition hker (z : nat -> bool) : Prop :=
  forall i, i < R0 -> fold_right xorb false (map z (nth i H0 [])) = false.
(* the sources are uniquely determined by the symbols known in state s *)
Definition Det (s : st Sy) : Prop :=
  forall z, hker z -> (forall c, c < N0 -> known s c = true -> z c = false) -> forall c, R0 <= c < N0 -> z c = false.

Notation st := (st Sy).
Notation WF := (WF Sy R0 N0).
Notation Kmono := (Kmono Sy).
Notation iscomp := (iscomp Sy R0 N0).
Notation Inv cwx := (MLInv Sy sxor s0 H0 R0 N0 cwx).
Notation Pre cwx := (MLPre Sy H0 R0 N0 cwx).
Notation gs := (xs Sy sxor s0).
Notation bs := (xs bool xorb false).

Lemma s0_r a : sxor a s0 = a.
Proof. rewrite sxor_comm. apply sxor_0_l. Qed.

(* ---------- a kernel vector gives a second codeword ---------- *)
Definition cw2 (z : nat -> bool) (a : Sy) : nat -> Sy := fun c => if z c then sxor (cw c) a else cw c.

Lemma sxor4 p a X b : sxor (sxor p a) (sxor X b) = sxor (sxor p X) (sxor a b).
Proof.
  rewrite sxor_assoc. rewrite <- (sxor_assoc p a X). rewrite (sxor_comm a X). rewrite (sxor_assoc p X a).
  now rewrite <- sxor_assoc.
Qed.

Lemma gs_cw2 z a l : gs (cw2 z a) l = sxor (gs cw l) (if fold_right xorb false (map z l) then a else s0).
Proof.
  induction l as [|c l IH].
  - unfold xs. simpl. now rewrite sxor_0_l.
  - change (gs (cw2 z a) (c :: l)) with (sxor (cw2 z a c) (gs (cw2 z a) l)).
    change (gs cw (c :: l)) with (sxor (cw c) (gs cw l)).
    change (fold_right xorb false (map z (c :: l))) with (xorb (z c) (fold_right xorb false (map z l))).
    rewrite IH. unfold cw2 at 1. destruct (z c).
    + rewrite sxor4. destruct (fold_right xorb false (map z l)); cbn [xorb negb].
      * now rewrite sxor_nilp.
      * now rewrite s0_r.
    + rewrite sxor_assoc. destruct (fold_right xorb false (map z l)); reflexivity.
Qed.

Lemma parity2 z a : hker z -> forall i, i < R0 -> gs (cw2 z a) (nth i H0 []) = s0.
Proof. intros Hz i Hi. rewrite gs_cw2, (Hz i Hi), (parity i Hi). apply sxor_0_l. Qed.

(* ---------- the simplification phase, for any codeword compatible with the table ---------- *)
Definition red (fuel : nat) (perm : list nat) (s : st) : option st :=
  fold_left (inject sxor fuel) perm
    (fold_left (inject sxor fuel) (map (fun i => r (prepar s) + i) (seq 0 (n s - r s))) (Some (prepar s))).

Definition RC (s1 : st) : Prop :=
  forall i c, i < R0 -> (In c (nth i (rws s1) []) <-> In c (nth i H0 []) /\ known s1 c = false).

Lemma reduce_gen (cwx : nat -> Sy) fuel perm (s : st) :
  (forall i, i < R0 -> gs cwx (nth i H0 []) = s0) ->
  Pre cwx s -> N0 < fuel -> (forall c, c < R0 -> In c perm) -> (forall c, In c perm -> c < R0) ->
  exists s1, red fuel perm s = Some s1 /\ Inv cwx s1 /\ Kmono s s1
    /\ (forall c, known s c = true -> nth c (tab s1) None = nth c (tab s) None)
    /\ (iscomp s1 \/ RC s1).
Proof.
  intros parx P Hf Hp1 Hp2.
  assert (W : WF s) by apply P.
  destruct (prepar_inv Sy sxor s0 H0 R0 N0 H0_nodup cwx parx s P) as (I0 & _).
  unfold red. change (r (prepar s)) with (r s). rewrite (wf_r Sy R0 N0 s W), (wf_n Sy R0 N0 s W).
  rewrite map_add_seq. rewrite <- fold_left_app.
  set (cs := seq R0 (N0 - R0) ++ perm).
  assert (Hcs1 : forall c, In c cs -> c < N0).
  { intros c Hc. apply in_app_or in Hc. destruct Hc as [Hc|Hc]; [apply in_seq in Hc; lia|apply Hp2 in Hc; lia]. }
  assert (Hcs2 : forall c, c < N0 -> In c cs).
  { intros c Hc. apply in_or_app. destruct (Nat.lt_ge_cases c R0) as [Hlt|Hge]; [right; now apply Hp1|left; apply in_seq; lia]. }
  destruct (inject_all_spec Sy sxor s0 sxor_assoc sxor_comm sxor_0_l sxor_nilp H0 R0 N0 H0_len H0_nodup H0_range H0_deg R_le_N
              cwx parx cs fuel (prepar s) I0 Hcs1 Hf) as (s1 & Hs1 & I1 & M & T & _).
  exists s1. split; [exact Hs1|]. split; [exact I1|]. split; [exact M|]. split; [exact T|].
  destruct (reduced Sy sxor s0 sxor_assoc sxor_comm sxor_0_l sxor_nilp H0 R0 N0 H0_len H0_nodup H0_range H0_deg R_le_N
              cwx parx cs fuel (prepar s) s1 I0 Hcs1 Hcs2 Hf Hs1) as (_ & [C|(_ & X)]); [now left|right; exact X].
Qed.

Lemma reduce_main fuel perm (s : st) :
  Pre cw s -> N0 < fuel -> (forall c, c < R0 -> In c perm) -> (forall c, In c perm -> c < R0) ->
  exists s1, red fuel perm s = Some s1 /\ Inv cw s1 /\ Kmono s s1
    /\ (forall c, known s c = true -> nth c (tab s1) None = nth c (tab s) None)
    /\ (iscomp s1 \/ RC s1)
    /\ (forall z, hker z -> (forall c, c < N0 -> known s c = true -> z c = false) ->
        forall c, known s1 c = true -> z c = false).
Proof.
  intros P Hf Hp1 Hp2.
  destruct (reduce_gen cw fuel perm s parity P Hf Hp1 Hp2) as (s1 & Hs1 & I1 & M & T & X).
  exists s1. split; [exact Hs1|]. split; [exact I1|]. split; [exact M|]. split; [exact T|]. split; [exact X|].
  intros z Hz Hv c Hk.
  destruct Sy_nontrivial as (a & Ha).
  assert (P2 : Pre (cw2 z a) s).
  { destruct P as (W & Tb & Rw). split; [exact W|]. split; [|exact Rw].
    intros c' v Hc'. rewrite (Tb c' v Hc'). unfold cw2.
    destruct (Nat.lt_ge_cases c' N0) as [Hlt|Hge].
    - rewrite (Hv c' Hlt); [reflexivity|]. unfold known. now rewrite Hc'.
    - rewrite nth_overflow in Hc' by (rewrite (wf_tab Sy R0 N0 s W); exact Hge). discriminate Hc'. }
  destruct (reduce_gen (cw2 z a) fuel perm s (parity2 z a Hz) P2 Hf Hp1 Hp2) as (s1' & Hs1' & I1' & _).
  rewrite Hs1 in Hs1'. injection Hs1' as <-.
  unfold known in Hk. destruct (nth c (tab s1) None) as [v|] eqn:Ev; [|discriminate Hk].
  pose proof (ml_tab Sy sxor s0 H0 R0 N0 cw s1 I1 c v Ev) as E1.
  pose proof (ml_tab Sy sxor s0 H0 R0 N0 (cw2 z a) s1 I1' c v Ev) as E2.
  unfold cw2 in E2. destruct (z c); [|reflexivity]. exfalso. apply Ha.
  apply (XorGroup.sxor_cancel Sy sxor s0 sxor_assoc sxor_0_l sxor_nilp (cw c)). rewrite s0_r. congruence.
Qed.

(* ---------- the part of ml_finish that follows the injections ---------- *)
Definition give_up (s : st) : option (outcome Sy) :=
  let '(b, s') := is_complete s in Some {| o_st := s'; o_ok := b; o_solved := false |}.

Definition cols_of (s : st) : list nat := filter (fun c => negb (is_nil (rows_with s c))) (seq 0 (n s)).
Definition rows_of (s : st) : list nat := filter (fun i => negb (is_nil (nth i (rws s) []))) (seq 0 (r s)).
Definition rowvec (s : st) (cols : list nat) (i : nat) : list bool := map (fun c => mem c (nth i (rws s) [])) cols.
Definition matA (s : st) : list (list bool) :=
  map (rowvec s (cols_of s)) (rows_of s) ++ repeat (repeat false (length (cols_of s))) (r s - length (rows_of s)).
Definition idx_of (s : st) : list nat := rows_of s ++ seq (length (rows_of s)) (r s - length (rows_of s)).
Definition with_ct (s : st) (ct' : list (option Sy)) : st := mk (r s) (n s) (rws s) (unk s) (enc s) ct' (tab s) (fnd s).
Definition nrep_of (s : st) : nat := length (filter (unkt Sy (tab s)) (seq 0 (r s))).

Definition ml_tail (k : nat) (s : st) : option (outcome Sy) :=
  if (length (cols_of s) =? 0) || (length (rows_of s) <? length (cols_of s)) then give_up s else
  let s2 := with_ct s (snd (take_ct (idx_of s) (ct s))) in
  match solve Sy sxor s0 (r s) (length (cols_of s)) (Build_sys (matA s) (fst (take_ct (idx_of s) (ct s)))) with
  | None => give_up s2
  | Some x =>
    Some {| o_st := mk (r s) (n s) (rws s) (unk s) (enc s) (ct s2)
                       (write_back s0 (map (fun i => r s + i) (seq 0 k)) x (nrep_of s) (tab s)) (fnd s);
            o_ok := true; o_solved := true |}
  end.

Lemma ml_finish_eq fuel perm (s : st) :
  ml_finish sxor s0 fuel perm s = match red fuel perm s with None => None | Some s1 => ml_tail (n s - r s) s1 end.
Proof.
  unfold ml_finish, red. destruct (fold_left _ perm _) as [s1|]; [|reflexivity].
  unfold ml_tail, give_up. fold (cols_of s1). fold (rows_of s1).
  destruct ((length (cols_of s1) =? 0) || (length (rows_of s1) <? length (cols_of s1))); [reflexivity|].
  fold (idx_of s1). destruct (take_ct (idx_of s1) (ct s1)) as [b ct']. reflexivity.
Qed.

(* ---------- the state after the injections ---------- *)
Section Tail.
Variable s1 : st.
Hypothesis I1 : Inv cw s1.
Notation cols := (cols_of s1).
Notation rows := (rows_of s1).
Notation q := (length (cols_of s1)).

Lemma W1 : WF s1.
Proof. exact (ml_wf Sy sxor s0 H0 R0 N0 cw s1 I1). Qed.
Lemma r1 : r s1 = R0.
Proof. exact (wf_r Sy R0 N0 s1 W1). Qed.
Lemma n1 : n s1 = N0.
Proof. exact (wf_n Sy R0 N0 s1 W1). Qed.

Lemma rw_nodup i : i < R0 -> NoDup (nth i (rws s1) []).
Proof. intros Hi. exact (proj1 (ml_sub Sy sxor s0 H0 R0 N0 cw s1 I1 i Hi)). Qed.
Lemma rw_sub i c : i < R0 -> In c (nth i (rws s1) []) -> In c (nth i H0 []).
Proof. intros Hi Hc. exact (proj2 (ml_sub Sy sxor s0 H0 R0 N0 cw s1 I1 i Hi) c Hc). Qed.

Lemma rows_In i : In i rows <-> i < R0 /\ nth i (rws s1) [] <> [].
Proof.
  unfold rows_of. rewrite filter_In, in_seq, r1. split.
  - intros (A & B). split; [lia|]. intros E. rewrite E in B. discriminate B.
  - intros (A & B). split; [lia|]. destruct (nth i (rws s1) []); [now elim B|reflexivity].
Qed.

Lemma rows_nodup : NoDup rows.
Proof. apply NoDup_filter, seq_NoDup. Qed.

Lemma rows_len : length rows <= R0.
Proof. unfold rows_of. rewrite r1. rewrite <- (seq_length R0 0) at 2. apply filter_len_le. Qed.

Lemma cols_In c : In c cols <-> c < N0 /\ exists i, i < R0 /\ In c (nth i (rws s1) []).
Proof.
  unfold cols_of. rewrite filter_In, in_seq, n1.
  assert (RS : forall i, In i (rows_with s1 c) <-> i < R0 /\ In c (nth i (rws s1) [])).
  { intros i. apply (rows_with_spec Sy H0 R0 N0 H0_len H0_nodup H0_range H0_deg R_le_N). exact r1. }
  split.
  - intros (A & B). split; [lia|]. destruct (rows_with s1 c) as [|i l]; [discriminate B|].
    exists i. apply RS. now left.
  - intros (A & i & B). split; [lia|]. apply RS in B. destruct (rows_with s1 c); [destruct B|reflexivity].
Qed.

Lemma cols_nodup : NoDup cols.
Proof. apply NoDup_filter, seq_NoDup. Qed.

Lemma rw_cols i : i < R0 -> incl (nth i (rws s1) []) cols.
Proof.
  intros Hi c Hc. apply cols_In. split; [apply (H0_range i c Hi); now apply rw_sub|].
  exists i. split; [exact Hi|exact Hc].
Qed.

(* ---------- the dense system ---------- *)
Lemma matA_length : length (matA s1) = R0.
Proof. unfold matA. rewrite app_length, map_length, repeat_length, r1. pose proof rows_len. lia. Qed.

Lemma getrow_lo k : k < length rows -> getrow (matA s1) k = rowvec s1 cols (nth k rows 0).
Proof.
  intros Hk. unfold getrow, matA. rewrite app_nth1 by (now rewrite map_length).
  apply nth_map_d. exact Hk.
Qed.

Lemma bit_repeat_false m : forall k c, bit (nth k (repeat (repeat false q) m) []) c = false.
Proof.
  induction m as [|m IH]; intros k c.
  - unfold bit. destruct k; destruct c; reflexivity.
  - destruct k as [|k]; cbn [repeat nth]; [|apply IH].
    unfold bit. destruct (Nat.lt_ge_cases c q) as [Hc|Hc].
    + apply nth_repeat.
    + apply nth_overflow. now rewrite repeat_length.
Qed.

Lemma getrow_hi k c : length rows <= k -> bit (getrow (matA s1) k) c = false.
Proof.
  intros Hk. unfold getrow, matA. rewrite app_nth2 by (now rewrite map_length). apply bit_repeat_false.
Qed.

Lemma getrow_len k : k < R0 -> length (getrow (matA s1) k) = q.
Proof.
  intros Hk. destruct (Nat.lt_ge_cases k (length rows)) as [Hlo|Hhi].
  - rewrite getrow_lo by exact Hlo. unfold rowvec. apply map_length.
  - unfold getrow, matA. rewrite app_nth2 by (now rewrite map_length). rewrite map_length.
    rewrite (nth_indep _ [] (repeat false q)) by (rewrite repeat_length, r1; lia).
    rewrite nth_repeat. apply repeat_length.
Qed.

Lemma matA_WF (b : list (option Sy)) : length b = R0 -> WFs Sy R0 q (Build_sys (matA s1) b).
Proof. intros Hb. constructor; cbn [sA sb]; [apply matA_length|exact Hb|apply getrow_len]. Qed.

Lemma idx_length : length (idx_of s1) = R0.
Proof. unfold idx_of. rewrite app_length, seq_length, r1. pose proof rows_len. lia. Qed.

Lemma rhs_length : length (fst (take_ct (idx_of s1) (ct s1))) = R0.
Proof. rewrite (proj1 (take_ct_length Sy _ _)). apply idx_length. Qed.

Lemma rhs_nth k : k < length rows ->
  nth k (fst (take_ct (idx_of s1) (ct s1))) None = nth (nth k rows 0) (ct s1) None.
Proof. intros Hk. unfold idx_of. apply take_ct_prefix; [apply rows_nodup|exact Hk]. Qed.

Lemma nth_rows k : k < length rows -> nth k rows 0 < R0 /\ nth (nth k rows 0) (rws s1) [] <> [].
Proof. intros Hk. apply rows_In. apply nth_In. exact Hk. Qed.

(* the equations of the non-empty rows, read over the positions of cols *)
Lemma row_sum_Sy i (X : list Sy) : i < R0 -> (forall j, j < q -> nth j X s0 = cw (nth j cols 0)) ->
  dot Sy sxor s0 q (rowvec s1 cols i) X = gs cw (nth i (rws s1) []).
Proof.
  intros Hi HX. unfold dot, xsum, rowvec.
  apply (gs_positions Sy sxor s0 sxor_assoc sxor_comm sxor_0_l cw cols (nth i (rws s1) []) (fun j => nth j X s0)
           cols_nodup (rw_nodup i Hi) (rw_cols i Hi) HX).
Qed.

Lemma row_sum_bool i (Z : nat -> bool) : i < R0 ->
  (forall c, c < N0 -> known s1 c = true -> Z c = false) ->
  bdot q (rowvec s1 cols i) (fun j => Z (nth j cols 0)) = bs Z (nth i H0 []).
Proof.
  intros Hi HZ. unfold bdot.
  rewrite (map_ext (fun c => bit (rowvec s1 cols i) c && Z (nth c cols 0))
                   (fun j => if bit (rowvec s1 cols i) j then Z (nth j cols 0) else false))
    by (intros j; destruct (bit (rowvec s1 cols i) j); reflexivity).
  unfold rowvec.
  rewrite (gs_positions bool xorb false bx_assoc bx_comm bx_0_l Z cols (nth i (rws s1) []) (fun j => Z (nth j cols 0))
           cols_nodup (rw_nodup i Hi) (rw_cols i Hi) (fun j _ => eq_refl)).
  rewrite <- (gs_mem bool xorb false bx_assoc bx_comm bx_0_l Z (nth i H0 []) (nth i (rws s1) [])
                (H0_nodup i Hi) (rw_nodup i Hi) (fun c => rw_sub i c Hi)).
  apply gs_ext. intros c Hc. destruct (mem c (nth i (rws s1) [])) eqn:Em; [reflexivity|].
  apply mem_false in Em. symmetry. apply HZ; [exact (H0_range i c Hi Hc)|].
  destruct (known s1 c) eqn:Hk; [reflexivity|]. exfalso. apply Em.
  exact (ml_keep Sy sxor s0 H0 R0 N0 cw s1 I1 i c Hi Hc Hk).
Qed.

(* the codeword satisfies every non-zero row of the dense system *)
Lemma cw_sol_nz : sol_nz Sy sxor s0 R0 q (Build_sys (matA s1) (fst (take_ct (idx_of s1) (ct s1)))) (map cw cols).
Proof.
  intros k Hk Hnz. cbn [sA] in *.
  destruct (Nat.lt_ge_cases k (length rows)) as [Hlo|Hhi].
  - destruct (nth_rows k Hlo) as (Hi & Hne).
    rewrite getrow_lo by exact Hlo. rewrite row_sum_Sy; [|exact Hi|].
    + unfold DenseSolveProofs.vb. cbn [sb]. rewrite rhs_nth by exact Hlo.
      symmetry. exact (ml_roweq Sy sxor s0 H0 R0 N0 cw s1 I1 _ Hi Hne).
    + intros j Hj. apply nth_map_d. exact Hj.
  - destruct Hnz as (c & _ & Hc). rewrite getrow_hi in Hc by exact Hhi. discriminate Hc.
Qed.

Lemma solved_values x : solve Sy sxor s0 R0 q (Build_sys (matA s1) (fst (take_ct (idx_of s1) (ct s1)))) = Some x ->
  forall j, j < q -> nth j x s0 = cw (nth j cols 0).
Proof.
  intros Hs j Hj.
  destruct (solve_sound_nz Sy sxor s0 sxor_assoc sxor_comm sxor_0_l sxor_nilp R0 q _ x (matA_WF _ rhs_length) Hs) as (_ & Hag).
  rewrite (Hag (map cw cols) cw_sol_nz j Hj). apply nth_map_d. exact Hj.
Qed.

Lemma unkt_known (s : st) c : unkt Sy (tab s) c = negb (known s c).
Proof. unfold unkt, known. destruct (nth c (tab s) None); reflexivity. Qed.

(* ---------- when the rows that are left contain exactly the unknown columns ---------- *)
Section WithRC.
Hypothesis HRC : RC s1.

Lemma unknown_in_cols c : c < N0 -> known s1 c = false -> In c cols.
Proof.
  intros Hc Hk. destruct (H0_cols c Hc) as (i & Hi & Hin). apply cols_In. split; [exact Hc|].
  exists i. split; [exact Hi|]. apply HRC; [exact Hi|]. split; [exact Hin|exact Hk].
Qed.

Lemma cols_unknown c : In c cols -> c < N0 /\ known s1 c = false.
Proof.
  intros H. apply cols_In in H. destruct H as (Hc & i & Hi & Hin). split; [exact Hc|].
  apply (HRC i c Hi) in Hin. apply Hin.
Qed.

Lemma cols_char : cols = filter (unkt Sy (tab s1)) (seq 0 N0).
Proof.
  unfold cols_of at 1. rewrite n1. apply filter_ext_in. intros c Hc. apply in_seq in Hc.
  rewrite unkt_known.
  assert (E : In c cols <-> negb (is_nil (rows_with s1 c)) = true).
  { unfold cols_of. rewrite filter_In, in_seq, n1. split; [intros (_ & X); exact X|intros X; split; [lia|exact X]]. }
  destruct (known s1 c) eqn:Hk; cbn [negb].
  - destruct (negb (is_nil (rows_with s1 c))); [|reflexivity].
    destruct (cols_unknown c (proj2 E eq_refl)) as (_ & X). congruence.
  - apply E. apply unknown_in_cols; [lia|exact Hk].
Qed.

Lemma source_pos c : R0 <= c < N0 -> known s1 c = false ->
  let p := nrep_of s1 + length (filter (unkt Sy (tab s1)) (seq R0 (c - R0))) in
  p < q /\ nth p cols 0 = c.
Proof.
  intros Hc Hk p.
  assert (Hp : p = length (filter (unkt Sy (tab s1)) (seq 0 c))).
  { unfold p, nrep_of. rewrite r1. replace c with (R0 + (c - R0)) at 2 by lia.
    rewrite seq_app, filter_app, app_length. reflexivity. }
  assert (Hu : unkt Sy (tab s1) c = true) by (rewrite unkt_known, Hk; reflexivity).
  rewrite Hp, cols_char. split.
  - apply filter_seq_pos_lt; [lia|exact Hu].
  - apply filter_seq_pos; [lia|exact Hu].
Qed.

(* a kernel vector of the parity-check matrix that vanishes on the sources vanishes on the repairs *)
Lemma stair_zero (Z : nat -> bool) : hker Z -> (forall c, R0 <= c < N0 -> Z c = false) -> forall c, c < R0 -> Z c = false.
Proof.
  intros HZ Hsrc c Hc.
  set (Z' := fun x => if x <? N0 then Z x else false).
  assert (E : Z' c = false).
  { apply (ldpc_encode_unique_proof bool xorb false bx_assoc bx_comm bx_0_l bx_nilp R0 H0 Z' (fun _ => false) H0_stair).
    - intros x Hx. unfold Z'. destruct (Nat.ltb_spec x N0) as [Hlt|Hge]; [apply Hsrc; lia|reflexivity].
    - intros i Hi. unfold rowsum, xsum.
      transitivity (fold_right xorb false (map Z (nth i H0 []))); [|exact (HZ i Hi)]. f_equal. apply map_ext_in.
      intros x Hx. unfold Z'. apply (H0_range i x Hi) in Hx. apply Nat.ltb_lt in Hx. now rewrite Hx.
    - intros i Hi. unfold rowsum, xsum. apply fold_xorb_zero. reflexivity.
    - exact Hc. }
  unfold Z' in E. assert (Hlt : c <? N0 = true) by (apply Nat.ltb_lt; lia). now rewrite Hlt in E.
Qed.

(* a non-trivial kernel vector of the non-empty rows of the dense system refutes Det *)
Lemma kernel_not_det (s : st) (z : nat -> bool) : Kmono s s1 -> nontrivial q z ->
  (forall k, k < length rows -> bdot q (rowvec s1 cols (nth k rows 0)) z = false) -> ~ Det s.
Proof.
  intros KM (j & Hj & Hzj) Hker D.
  set (Z := fun c => if mem c cols then z (idx c cols) else false).
  assert (HZ1 : forall c, c < N0 -> known s1 c = true -> Z c = false).
  { intros c Hc Hk. unfold Z. destruct (mem c cols) eqn:Em; [|reflexivity].
    apply mem_In in Em. destruct (cols_unknown c Em) as (_ & X). congruence. }
  assert (HZ2 : forall j', j' < q -> Z (nth j' cols 0) = z j').
  { intros j' Hj'. unfold Z. assert (Em : mem (nth j' cols 0) cols = true) by (apply mem_In, nth_In; exact Hj').
    rewrite Em. now rewrite (idx_nth cols cols_nodup j' Hj'). }
  assert (HZ3 : hker Z).
  { intros i Hi. change (bs Z (nth i H0 []) = false). rewrite <- (row_sum_bool i Z Hi HZ1).
    rewrite (bdot_ext q (rowvec s1 cols i) (rowvec s1 cols i) _ z) by (intros c Hc; now rewrite HZ2).
    destruct (nth i (rws s1) []) as [|y l] eqn:Er.
    - apply bdot_zero. intros c Hc. unfold bit, rowvec.
      rewrite (nth_map_d (fun c0 => mem c0 (nth i (rws s1) [])) cols c 0 false Hc). rewrite Er. reflexivity.
    - assert (Hin : In i rows) by (apply rows_In; split; [exact Hi|rewrite Er; discriminate]).
      destruct (In_nth rows i 0 Hin) as (k & Hk & Ek). rewrite <- Ek. apply Hker. exact Hk. }
  assert (Hin : In (nth j cols 0) cols) by (apply nth_In; exact Hj).
  destruct (cols_unknown _ Hin) as (HcN & _).
  assert (Hsrc : forall c, R0 <= c < N0 -> Z c = false).
  { apply (D Z HZ3). intros c Hc Hk. apply HZ1; [exact Hc|]. apply KM. exact Hk. }
  assert (E : Z (nth j cols 0) = false).
  { destruct (Nat.lt_ge_cases (nth j cols 0) R0) as [Hlt|Hge]; [apply (stair_zero Z HZ3 Hsrc); exact Hlt|apply Hsrc; lia]. }
  rewrite HZ2 in E by exact Hj. congruence.
Qed.

(* fewer non-empty rows than unknowns: a non-trivial kernel vector exists *)
Lemma few_rows_kernel : length rows < q ->
  exists z, nontrivial q z /\ forall k, k < length rows -> bdot q (rowvec s1 cols (nth k rows 0)) z = false.
Proof.
  intros Hlt.
  set (p := length rows). set (A' := map (rowvec s1 cols) rows).
  assert (GR : forall k, k < p -> getrow A' k = rowvec s1 cols (nth k rows 0)).
  { intros k Hk. unfold getrow, A'. apply nth_map_d. exact Hk. }
  assert (W : WFs bool p q (hsys p A')).
  { apply hsys_WF; [unfold A'; apply map_length|]. intros k Hk. rewrite GR by exact Hk. unfold rowvec. apply map_length. }
  destruct (solve bool xorb false p q (hsys p A')) as [x|] eqn:E.
  - exfalso. unfold solve in E.
    destruct (triangularize bool xorb false p (seq 0 q) (hsys p A')) as [y'|] eqn:Et; [|discriminate E].
    assert (HL0 : Lower bool p (hsys p A') 0) by (intros k c Hc; lia).
    assert (HD0 : Diag bool (hsys p A') 0) by (intros c Hc; lia).
    assert (Hq0 : 0 + q <= q) by lia.
    destruct (triangularize_spec bool xorb false bx_assoc bx_comm bx_0_l bx_nilp p q q 0 (hsys p A') y' W HL0 HD0 Hq0 Et)
      as (_ & _ & _ & _ & Hp).
    assert (0 + q <= p) by (apply Hp; lia). lia.
  - destruct (solve_none_kernel bool xorb false p q (hsys p A') W E) as (z & Hnz & Hk).
    exists z. split; [exact Hnz|]. intros k Hkp. rewrite <- GR by exact Hkp. apply (Hk k Hkp).
Qed.

Lemma solve_none_rows_kernel (b : list (option Sy)) : length b = R0 ->
  solve Sy sxor s0 R0 q (Build_sys (matA s1) b) = None ->
  exists z, nontrivial q z /\ forall k, k < length rows -> bdot q (rowvec s1 cols (nth k rows 0)) z = false.
Proof.
  intros Hb E.
  destruct (solve_none_kernel Sy sxor s0 R0 q _ (matA_WF b Hb) E) as (z & Hnz & Hk).
  exists z. split; [exact Hnz|]. intros k Hkp. rewrite <- getrow_lo by exact Hkp.
  apply (Hk k). pose proof rows_len. lia.
Qed.

(* the solver succeeds: every kernel vector that vanishes on the known columns vanishes everywhere *)
Lemma solve_some_det (s : st) (b : list (option Sy)) x : length b = R0 ->
  (forall z, hker z -> (forall c, c < N0 -> known s c = true -> z c = false) -> forall c, known s1 c = true -> z c = false) ->
  solve Sy sxor s0 R0 q (Build_sys (matA s1) b) = Some x -> Det s.
Proof.
  intros Hb KD E z Hz Hv c Hc.
  pose proof (KD z Hz Hv) as Hv1.
  destruct (known s1 c) eqn:Hk; [apply Hv1; exact Hk|].
  assert (Hin : In c cols) by (apply unknown_in_cols; [lia|exact Hk]).
  destruct (In_nth cols c 0 Hin) as (j & Hj & Ej).
  assert (Kz : kernel R0 q (matA s1) (fun j => z (nth j cols 0))).
  { intros k Hk'. destruct (Nat.lt_ge_cases k (length rows)) as [Hlo|Hhi].
    - destruct (nth_rows k Hlo) as (Hi & _). rewrite getrow_lo by exact Hlo.
      rewrite (row_sum_bool _ z Hi (fun c' _ Hk'' => Hv1 c' Hk'')). exact (Hz _ Hi).
    - apply bdot_zero. intros c' _. now rewrite getrow_hi by exact Hhi. }
  pose proof (solve_some_no_kernel Sy sxor s0 R0 q _ x (matA_WF b Hb) E _ Kz j Hj) as X.
  cbv beta in X. now rewrite Ej in X.
Qed.
End WithRC.

(* ---------- the exits ---------- *)
Variable s : st.
Hypothesis KM : Kmono s s1.
Hypothesis KD : forall z, hker z -> (forall c, c < N0 -> known s c = true -> z c = false) ->
                forall c, known s1 c = true -> z c = false.
Hypothesis HX : iscomp s1 \/ RC s1.

Definition Post (o : outcome Sy) : Prop :=
  (forall c v, nth c (tab (o_st o)) None = Some v -> v = cw c) /\
  Kmono s1 (o_st o) /\
  (forall c, known s1 c = true -> nth c (tab (o_st o)) None = nth c (tab s1) None) /\
  (o_ok o = true <-> iscomp (o_st o)) /\
  (iscomp (o_st o) <-> Det s).

Lemma comp_det : iscomp s1 -> Det s.
Proof. intros C z Hz Hv c Hc. apply (KD z Hz Hv). apply C. exact Hc. Qed.

Lemma with_ct_WF ct' : length ct' = R0 -> WF (with_ct s1 ct').
Proof.
  intros Hl. destruct W1 as [Wr Wn Wrws Wunk Wenc Wct Wtab Wfnd Wcur].
  constructor; unfold with_ct; cbn [r n rws unk enc ct tab fnd]; try assumption.
Qed.

Lemma give_up_final (s2 : st) : WF s2 -> tab s2 = tab s1 -> (Det s -> iscomp s1) ->
  exists o, give_up s2 = Some o /\ Post o.
Proof.
  intros W2 Et HD. unfold give_up.
  pose proof (is_complete_spec Sy H0 R0 N0 H0_len R_le_N s2 W2) as X.
  destruct (is_complete s2) as [b sx]. destruct X as (_ & Et' & _ & _ & _ & _ & Hb).
  eexists. split; [reflexivity|]. unfold Post. cbn [o_st o_ok].
  assert (E : tab sx = tab s1) by congruence.
  assert (K : forall c, known sx c = known s1 c) by (apply known_tab_eq; exact E).
  assert (C : iscomp sx <-> iscomp s1).
  { split; apply iscomp_tab_eq; congruence. }
  split; [|split; [|split; [|split]]].
  - rewrite E. exact (ml_tab Sy sxor s0 H0 R0 N0 cw s1 I1).
  - intros c Hc. now rewrite K.
  - intros c _. now rewrite E.
  - rewrite Hb, C. split; apply iscomp_tab_eq; congruence.
  - rewrite C. split; [apply comp_det|exact HD].
Qed.

Definition tbx (x : list Sy) : list (option Sy) :=
  write_back s0 (map (fun i => r s1 + i) (seq 0 (N0 - R0))) x (nrep_of s1) (tab s1).

Lemma tbx_nth x c : nth c (tbx x) None =
  if (R0 <=? c) && (c <? N0) then
    match nth c (tab s1) None with
    | Some v => Some v
    | None => Some (nth (nrep_of s1 + length (filter (unkt Sy (tab s1)) (seq R0 (c - R0)))) x s0)
    end
  else nth c (tab s1) None.
Proof.
  unfold tbx. rewrite r1, map_add_seq.
  rewrite write_back_spec by (rewrite (wf_tab Sy R0 N0 s1 W1); lia).
  replace (R0 + (N0 - R0)) with N0 by lia. reflexivity.
Qed.

Lemma solved_final x ct' :
  (forall c, R0 <= c < N0 -> known s1 c = false ->
     nth (nrep_of s1 + length (filter (unkt Sy (tab s1)) (seq R0 (c - R0)))) x s0 = cw c) ->
  Det s ->
  Post {| o_st := mk (r s1) (n s1) (rws s1) (unk s1) (enc s1) ct' (tbx x) (fnd s1); o_ok := true; o_solved := true |}.
Proof.
  intros VAL D. unfold Post. cbn [o_st o_ok tab].
  assert (Kn : forall c, known s1 c = true -> nth c (tbx x) None = nth c (tab s1) None).
  { intros c Hk. rewrite tbx_nth. unfold known in Hk. destruct (nth c (tab s1) None); [|discriminate Hk].
    destruct ((R0 <=? c) && (c <? N0)); reflexivity. }
  assert (C : iscomp (mk (r s1) (n s1) (rws s1) (unk s1) (enc s1) ct' (tbx x) (fnd s1))).
  { intros c Hc. unfold known. cbn [tab]. rewrite tbx_nth.
    replace ((R0 <=? c) && (c <? N0)) with true.
    - destruct (nth c (tab s1) None); reflexivity.
    - symmetry. apply andb_true_iff. split; [apply Nat.leb_le; lia|apply Nat.ltb_lt; lia]. }
  split; [|split; [|split; [|split]]].
  - intros c v. rewrite tbx_nth. destruct ((R0 <=? c) && (c <? N0)) eqn:Er.
    + apply andb_true_iff in Er. destruct Er as (Er1 & Er2). apply Nat.leb_le in Er1. apply Nat.ltb_lt in Er2.
      destruct (nth c (tab s1) None) as [w|] eqn:Ew.
      * intros E. injection E as <-. exact (ml_tab Sy sxor s0 H0 R0 N0 cw s1 I1 c w Ew).
      * intros E. injection E as <-. apply VAL; [lia|]. unfold known. now rewrite Ew.
    + exact (ml_tab Sy sxor s0 H0 R0 N0 cw s1 I1 c v).
  - intros c Hk. unfold known. cbn [tab]. rewrite (Kn c Hk). exact Hk.
  - exact Kn.
  - split; [intros _; exact C|reflexivity].
  - split; [intros _; exact D|intros _; exact C].
Qed.

Lemma tail_spec : exists o, ml_tail (N0 - R0) s1 = Some o /\ Post o.
Proof.
  unfold ml_tail.
  destruct ((q =? 0) || (length rows <? q)) eqn:Ec.
  - apply (give_up_final s1 W1 eq_refl).
    destruct HX as [C|HRC]; [intros _; exact C|].
    apply orb_true_iff in Ec. destruct Ec as [Ec|Ec].
    + intros _ c Hc. destruct (known s1 c) eqn:Hk; [reflexivity|]. exfalso.
      apply Nat.eqb_eq in Ec. pose proof (unknown_in_cols HRC c ltac:(lia) Hk) as Hin.
      destruct cols; [destruct Hin|discriminate Ec].
    + intros D. exfalso. apply Nat.ltb_lt in Ec.
      destruct (few_rows_kernel Ec) as (z & Hnz & Hk).
      exact (kernel_not_det HRC s z KM Hnz Hk D).
  - destruct (solve Sy sxor s0 (r s1) q (Build_sys (matA s1) (fst (take_ct (idx_of s1) (ct s1))))) as [x|] eqn:E;
      rewrite r1 in E.
    + eexists. split; [reflexivity|].
      apply (solved_final x).
      * intros c Hc Hk. destruct HX as [C|HRC]; [rewrite (C c Hc) in Hk; discriminate Hk|].
        destruct (source_pos HRC c Hc Hk) as (Hp & Ep). cbv zeta in Hp, Ep.
        rewrite (solved_values x E _ Hp). now rewrite Ep.
      * destruct HX as [C|HRC]; [exact (comp_det C)|].
        exact (solve_some_det HRC s _ x rhs_length KD E).
    + apply give_up_final.
      * apply with_ct_WF. rewrite (proj2 (take_ct_length Sy _ _)). exact (wf_ct Sy R0 N0 s1 W1).
      * reflexivity.
      * destruct HX as [C|HRC]; [intros _; exact C|]. intros D. exfalso.
        destruct (solve_none_rows_kernel _ rhs_length E) as (z & Hnz & Hk).
        exact (kernel_not_det HRC s z KM Hnz Hk D).
Qed.
End Tail.

(* ---------- the theorems ---------- *)
Section Main.
Variable fuel : nat. Variable perm : list nat. Variable s : st.
Hypothesis HPre : Pre cw s.
Hypothesis Hfuel : fuel > N0.
Hypothesis Hperm1 : forall c, c < R0 -> In c perm.
Hypothesis Hperm2 : forall c, In c perm -> c < R0.

Lemma finish_main : exists s1 o, ml_finish sxor s0 fuel perm s = Some o /\
  Kmono s s1 /\ (forall c, known s c = true -> nth c (tab s1) None = nth c (tab s) None) /\ Post s1 s o.
Proof.
  assert (Hf : N0 < fuel) by lia.
  destruct (reduce_main fuel perm s HPre Hf Hperm1 Hperm2) as (s1 & Hs1 & I1 & KM & T & X & KD).
  destruct (tail_spec s1 I1 s KM KD X) as (o & Ho & P).
  exists s1, o. split; [|split; [exact KM|split; [exact T|exact P]]].
  rewrite ml_finish_eq, Hs1.
  assert (W : WF s) by apply HPre.
  rewrite (wf_r Sy R0 N0 s W), (wf_n Sy R0 N0 s W). exact Ho.
Qed.

(* F1 *)
Theorem ml_finish_total : exists o, ml_finish sxor s0 fuel perm s = Some o.
Proof. destruct finish_main as (s1 & o & Ho & _). exists o. exact Ho. Qed.

(* F2: never a wrong symbol; knowledge only grows; received/decoded symbols are kept *)
Theorem ml_finish_values o : ml_finish sxor s0 fuel perm s = Some o ->
  (forall c v, nth c (tab (o_st o)) None = Some v -> v = cw c) /\
  Kmono s (o_st o) /\
  (forall c, known s c = true -> nth c (tab (o_st o)) None = nth c (tab s) None).
Proof.
  intros Ho. destruct finish_main as (s1 & o' & Ho' & KM & T & (P1 & P2 & P3 & _)).
  rewrite Ho in Ho'. injection Ho' as <-.
  split; [exact P1|]. split.
  - intros c Hc. apply P2, KM, Hc.
  - intros c Hc. rewrite (P3 c (KM c Hc)). exact (T c Hc).
Qed.

(* F3: reports OK iff all sources are available iff they were uniquely determined *)
Theorem ml_finish_complete_iff o : ml_finish sxor s0 fuel perm s = Some o ->
  (o_ok o = true <-> iscomp (o_st o)) /\ (iscomp (o_st o) <-> Det s).
Proof.
  intros Ho. destruct finish_main as (s1 & o' & Ho' & _ & _ & (_ & _ & _ & P4 & P5)).
  rewrite Ho in Ho'. injection Ho' as <-.
  split; [exact P4|exact P5].
Qed.
End Main.

(* F4: Det only depends on the set of known columns *)
Corollary Det_known_ext (sa sb : st) : (forall c, known sa c = known sb c) -> (Det sa <-> Det sb).
Proof.
  intros E. unfold Det. split; intros D z Hz Hv c Hc; apply (D z Hz); try exact Hc; intros c' Hc' Hk; apply Hv; try exact Hc'.
  - now rewrite <- E.
  - now rewrite E.
Qed.

(* order / API independence of the outcome: two runs from states with the same known columns
   (any fuel, any injection order) agree on success *)
Corollary ml_finish_outcome_indep fuel1 fuel2 perm1 perm2 (sa sb : st) o1 o2 :
  Pre cw sa -> Pre cw sb -> fuel1 > N0 -> fuel2 > N0 ->
  (forall c, c < R0 -> In c perm1) -> (forall c, In c perm1 -> c < R0) ->
  (forall c, c < R0 -> In c perm2) -> (forall c, In c perm2 -> c < R0) ->
  (forall c, known sa c = known sb c) ->
  ml_finish sxor s0 fuel1 perm1 sa = Some o1 -> ml_finish sxor s0 fuel2 perm2 sb = Some o2 ->
  o_ok o1 = o_ok o2.
Proof.
  intros Pa Pb Hf1 Hf2 A1 A2 B1 B2 E H1 H2.
  destruct (ml_finish_complete_iff fuel1 perm1 sa Pa Hf1 A1 A2 o1 H1) as (X1 & Y1).
  destruct (ml_finish_complete_iff fuel2 perm2 sb Pb Hf2 B1 B2 o2 H2) as (X2 & Y2).
  pose proof (Det_known_ext sa sb E) as D.
  destruct (o_ok o1) eqn:E1; destruct (o_ok o2) eqn:E2; try reflexivity.
  - assert (T : false = true) by (apply X2, Y2, D, Y1, X1; reflexivity). discriminate T.
  - assert (T : false = true) by (apply X1, Y1, D, Y2, X2; reflexivity). discriminate T.
Qed.
End MLF.

Print Assumptions ml_finish_total.
Print Assumptions ml_finish_values.
Print Assumptions ml_finish_complete_iff.
Print Assumptions Det_known_ext.
Print Assumptions ml_finish_outcome_indep.
