(* The maximum-likelihood finish of the LDPC erasure decoder model (MLModel.v: ml_finish):
     F1 ml_finish_total         the finish always returns an outcome
     F2 ml_finish_values        never a wrong symbol; knowledge only grows; received/decoded symbols are kept
     F3 ml_finish_complete_iff  it reports OK iff all source symbols are available
                                iff the source symbols are uniquely determined by the known symbols
     F4 Det_known_ext           the success only depends on the set of known columns
   The symbol type is assumed to have at least two elements (Sy_nontrivial); it is used to transport a
   GF(2) kernel vector z of the parity-check matrix to a second codeword cw + z*a. *)
From Coq Require Import List Arith Bool Lia.
From OFV Require Import ListAux XorGroup ITModel ITLemmas ITProofs MLModel MLSimplify
  DenseSolve DenseSolveProofs DenseSolveNZ DenseSolveComplete LdpcEnc.
Import ListNotations.

(* ------------------------------------------------------------------------------------------ *)
(* 0. Lists                                                                                     *)
(* ------------------------------------------------------------------------------------------ *)
Definition mem (c : nat) (l : list nat) : bool := existsb (Nat.eqb c) l.

Lemma mem_In c l : mem c l = true <-> In c l.
Proof.
  unfold mem. rewrite existsb_exists. split.
  - intros (x & Hx & E). apply Nat.eqb_eq in E. now subst.
  - intros H. exists c. split; [exact H|apply Nat.eqb_refl].
Qed.

Lemma mem_false c l : mem c l = false <-> ~ In c l.
Proof.
  rewrite <- mem_In. destruct (mem c l); split; intros H.
  - discriminate H.
  - exfalso. now apply H.
  - intros H'. discriminate H'.
  - reflexivity.
Qed.

Lemma mem_ext c l l' : (In c l <-> In c l') -> mem c l = mem c l'.
Proof.
  intros H. destruct (mem c l') eqn:E.
  - apply mem_In. apply H. now apply mem_In.
  - apply mem_false. intros Hc. apply H in Hc. apply mem_In in Hc. congruence.
Qed.

Lemma map_seq_nth {T} (G : nat -> T) (l : list nat) :
  map (fun j => G (nth j l 0)) (seq 0 (length l)) = map G l.
Proof.
  induction l as [|x l IH]; [reflexivity|].
  cbn [length]. cbn [seq]. rewrite <- seq_shift. cbn [map]. rewrite map_map. cbn [nth]. now rewrite IH.
Qed.

Lemma nth_map_d {A B} (f : A -> B) l j d d' : j < length l -> nth j (map f l) d' = f (nth j l d).
Proof.
  intros H. rewrite (nth_indep _ d' (f d)) by (now rewrite map_length). apply map_nth.
Qed.

Lemma map_add_seq a k : map (fun i => a + i) (seq 0 k) = seq a k.
Proof.
  revert a. induction k as [|k IH]; intros a; [reflexivity|].
  cbn [seq map]. rewrite Nat.add_0_r. f_equal. rewrite <- seq_shift, map_map.
  rewrite <- (IH (S a)). apply map_ext. intros i. lia.
Qed.

Lemma filter_len_le {A} (f : A -> bool) l : length (filter f l) <= length l.
Proof. induction l as [|x l IH]; simpl; [lia|]. destruct (f x); simpl; lia. Qed.

(* position of an element *)
Fixpoint idx (c : nat) (l : list nat) : nat :=
  match l with [] => 0 | x :: t => if x =? c then 0 else S (idx c t) end.

Lemma idx_nth l : NoDup l -> forall j, j < length l -> idx (nth j l 0) l = j.
Proof.
  induction l as [|x l IH]; intros ND j Hj; [simpl in Hj; lia|].
  inversion ND as [|? ? Hx ND']; subst. destruct j as [|j]; cbn [nth idx].
  - now rewrite Nat.eqb_refl.
  - simpl in Hj. destruct (Nat.eqb_spec x (nth j l 0)) as [E|E].
    + exfalso. apply Hx. rewrite E. apply nth_In. lia.
    + f_equal. apply IH; [exact ND'|lia].
Qed.

(* position in a filtered interval *)
Lemma filter_seq_pos (f : nat -> bool) c m : c < m -> f c = true ->
  nth (length (filter f (seq 0 c))) (filter f (seq 0 m)) 0 = c.
Proof.
  intros Hc Hf. replace m with (c + S (m - S c)) by lia.
  rewrite seq_app, filter_app. cbn [seq filter plus]. rewrite Hf.
  rewrite app_nth2 by lia. rewrite Nat.sub_diag. reflexivity.
Qed.

(* ------------------------------------------------------------------------------------------ *)
(* 1. Sums over duplicate-free lists in an abelian group of exponent 2                         *)
(* ------------------------------------------------------------------------------------------ *)
Section Grp.
Variable T : Type. Variable op : T -> T -> T. Variable e : T.
Hypothesis op_assoc : forall a b c, op a (op b c) = op (op a b) c.
Hypothesis op_comm : forall a b, op a b = op b a.
Hypothesis op_0_l : forall a, op e a = a.
Notation gs := (xs T op e).

Lemma gs_ext f g l : (forall c, In c l -> f c = g c) -> gs f l = gs g l.
Proof. intros H. unfold xs. f_equal. apply map_ext_in. exact H. Qed.

Lemma gs_rm f l c : NoDup l -> In c l -> gs f l = op (f c) (gs f (rm c l)).
Proof. intros ND Hin. exact (rowsum_split T op e op_assoc op_comm f l c ND Hin). Qed.

Lemma gs_mem f : forall cols l, NoDup cols -> NoDup l -> incl l cols ->
  gs (fun c => if mem c l then f c else e) cols = gs f l.
Proof.
  induction cols as [|x cols IH]; intros l NDc NDl Hincl.
  - destruct l as [|y l]; [reflexivity|]. exfalso. apply (Hincl y). now left.
  - inversion NDc as [|? ? Hx NDc']; subst.
    change (gs (fun c => if mem c l then f c else e) (x :: cols))
      with (op (if mem x l then f x else e) (gs (fun c => if mem c l then f c else e) cols)).
    destruct (mem x l) eqn:Ex.
    + apply mem_In in Ex. rewrite (gs_rm f l x NDl Ex). f_equal.
      rewrite <- (IH (rm x l)).
      * apply gs_ext. intros c Hc. rewrite (mem_ext c (rm x l) l); [reflexivity|].
        rewrite rm_In. split; [tauto|]. intros H. split; [exact H|]. intros ->. now apply Hx.
      * exact NDc'.
      * now apply rm_NoDup.
      * intros c Hc. apply rm_In in Hc. destruct Hc as (Hc & Hne).
        destruct (Hincl c Hc) as [->|H]; [now elim Hne|exact H].
    + apply mem_false in Ex. rewrite op_0_l. apply IH; [exact NDc'|exact NDl|].
      intros c Hc. destruct (Hincl c Hc) as [->|H]; [now elim Ex|exact H].
Qed.

(* the same sum written over the positions of cols, as the dense solver does *)
Lemma gs_positions f cols l (X : nat -> T) : NoDup cols -> NoDup l -> incl l cols ->
  (forall j, j < length cols -> X j = f (nth j cols 0)) ->
  fold_right op e (map (fun j => if bit (map (fun c => mem c l) cols) j then X j else e) (seq 0 (length cols))) = gs f l.
Proof.
  intros NDc NDl Hincl HX. rewrite <- (gs_mem f cols l NDc NDl Hincl).
  unfold xs. rewrite <- (map_seq_nth (fun c => if mem c l then f c else e) cols). f_equal.
  apply map_ext_in. intros j Hj. apply in_seq in Hj.
  unfold bit. rewrite (nth_map_d (fun c => mem c l) cols j 0 false) by lia.
  rewrite HX by lia. reflexivity.
Qed.
End Grp.

(* ------------------------------------------------------------------------------------------ *)
(* 2. take_ct and write_back                                                                    *)
(* ------------------------------------------------------------------------------------------ *)
Section TW.
Variable Sy : Type. Variable s0 : Sy.

Lemma take_ct_cons j rest (ctl : list (option Sy)) :
  take_ct (j :: rest) ctl = (nth j ctl None :: fst (take_ct rest (upd ctl j None)), snd (take_ct rest (upd ctl j None))).
Proof. cbn [take_ct]. destruct (take_ct rest (upd ctl j None)) as [b c]. reflexivity. Qed.

Lemma take_ct_length : forall idxl (ctl : list (option Sy)),
  length (fst (take_ct idxl ctl)) = length idxl /\ length (snd (take_ct idxl ctl)) = length ctl.
Proof.
  induction idxl as [|j rest IH]; intros ctl; [split; reflexivity|].
  rewrite take_ct_cons. cbn [fst snd length]. destruct (IH (upd ctl j None)) as (A & B).
  rewrite A, B, upd_length. split; reflexivity.
Qed.

(* the entries taken through a duplicate-free prefix of the index list are the original ones *)
Lemma take_ct_prefix l2 : forall l1 (ctl : list (option Sy)) k, NoDup l1 -> k < length l1 ->
  nth k (fst (take_ct (l1 ++ l2) ctl)) None = nth (nth k l1 0) ctl None.
Proof.
  induction l1 as [|j l1 IH]; intros ctl k ND Hk; [simpl in Hk; lia|].
  inversion ND as [|? ? Hj ND']; subst.
  change ((j :: l1) ++ l2) with (j :: (l1 ++ l2)). rewrite take_ct_cons. cbn [fst].
  destruct k as [|k]; [reflexivity|]. cbn [nth]. simpl in Hk.
  rewrite IH by (auto; lia). apply nth_upd_neq.
  intros ->. apply Hj. apply nth_In. lia.
Qed.

Definition unkt (tb : list (option Sy)) (c : nat) : bool := match nth c tb None with None => true | Some _ => false end.

Lemma write_back_spec (x : list Sy) : forall m a pos (tb : list (option Sy)), a + m <= length tb ->
  forall c, nth c (write_back s0 (seq a m) x pos tb) None =
    if (a <=? c) && (c <? a + m) then
      match nth c tb None with
      | Some v => Some v
      | None => Some (nth (pos + length (filter (unkt tb) (seq a (c - a)))) x s0)
      end
    else nth c tb None.
Proof.
  induction m as [|m IH]; intros a pos tb Hlen c.
  - cbn [seq write_back]. destruct (Nat.leb_spec a c); destruct (Nat.ltb_spec c (a + 0)); simpl; try reflexivity; lia.
  - cbn [seq write_back]. destruct (nth a tb None) as [w|] eqn:Ea.
    + rewrite IH by lia.
      destruct (Nat.leb_spec (S a) c); destruct (Nat.ltb_spec c (S a + m));
      destruct (Nat.leb_spec a c); destruct (Nat.ltb_spec c (a + S m)); try lia; cbn [andb]; try reflexivity.
      * replace (c - a) with (S (c - S a)) by lia. cbn [seq filter]. unfold unkt at 2. rewrite Ea. reflexivity.
      * assert (c = a) by lia. subst c. rewrite Ea. reflexivity.
    + rewrite IH by (rewrite upd_length; lia).
      destruct (Nat.leb_spec (S a) c); destruct (Nat.ltb_spec c (S a + m));
      destruct (Nat.leb_spec a c); destruct (Nat.ltb_spec c (a + S m)); try lia; cbn [andb].
      * rewrite nth_upd_neq by lia. destruct (nth c tb None); [reflexivity|].
        replace (c - a) with (S (c - S a)) by lia. cbn [seq filter]. unfold unkt at 2. rewrite Ea. cbn [length].
        rewrite (filter_ext_in (unkt (upd tb a (Some (nth pos x s0)))) (unkt tb)).
        -- f_equal. f_equal. lia.
        -- intros y Hy. apply in_seq in Hy. unfold unkt. rewrite nth_upd_neq by lia. reflexivity.
      * apply nth_upd_neq. lia.
      * assert (c = a) by lia. subst c. rewrite Ea. rewrite nth_upd_eq by lia. rewrite Nat.sub_diag. cbn [seq filter length].
        rewrite Nat.add_0_r. reflexivity.
      * apply nth_upd_neq. lia.
Qed.

Lemma write_back_length (x : list Sy) : forall srcs pos (tb : list (option Sy)),
  length (write_back s0 srcs x pos tb) = length tb.
Proof.
  induction srcs as [|c srcs IH]; intros pos tb; [reflexivity|].
  cbn [write_back]. destruct (nth c tb None); rewrite IH; [reflexivity|apply upd_length].
Qed.
End TW.

(* ------------------------------------------------------------------------------------------ *)
(* 3. The finish                                                                                *)
(* ------------------------------------------------------------------------------------------ *)
Section MLF.
Variable Sy : Type. Variable sxor : Sy -> Sy -> Sy. Variable s0 : Sy.
Hypothesis sxor_assoc : forall a b c, sxor a (sxor b c) = sxor (sxor a b) c.
Hypothesis sxor_comm : forall a b, sxor a b = sxor b a.
Hypothesis sxor_0_l : forall a, sxor s0 a = a.
Hypothesis sxor_nilp : forall a, sxor a a = s0.

Variable H0 : list (list nat).
Variable R0 N0 : nat.
Hypothesis H0_len : length H0 = R0.
Hypothesis H0_nodup : forall i, i < R0 -> NoDup (nth i H0 []).
Hypothesis H0_range : forall i c, i < R0 -> In c (nth i H0 []) -> c < N0.
Hypothesis H0_deg : forall i, i < R0 -> 2 <= length (nth i H0 []).
Hypothesis R_le_N : R0 <= N0.

Variable cw : nat -> Sy.
Hypothesis parity : forall i, i < R0 -> xs Sy sxor s0 cw (nth i H0 []) = s0.

Hypothesis H0_cols : forall c, c < N0 -> exists i, i < R0 /\ In c (nth i H0 []).
Hypothesis H0_stair : stair R0 H0.
Hypothesis Sy_nontrivial : exists a : Sy, a <> s0.

(* GF(2) kernel vectors of the parity-check matrix *)
Definition hker (z : nat -> bool) : Prop :=
  forall i, i < R0 -> fold_right xorb false (map z (nth i H0 [])) = false.
(* the sources are uniquely determined by the symbols known in state s *)
Definition Det (s : st Sy) : Prop :=
  forall z, hker z -> (forall c, c < N0 -> known s c = true -> z c = false) -> forall c, R0 <= c < N0 -> z c = false.

Notation st := (st Sy).
Notation WF := (WF Sy R0 N0).
Notation Kmono := (Kmono Sy).
Notation iscomp := (iscomp Sy R0 N0).
Notation Inv cwx := (MLInv Sy sxor s0 H0 R0 N0 cwx).
Notation Pre cwx := (MLPre Sy H0 R0 N0 cwx).
Notation gs := (xs Sy sxor s0).
Notation bs := (xs bool xorb false).

Lemma s0_r a : sxor a s0 = a.
Proof. rewrite sxor_comm. apply sxor_0_l. Qed.

(* ---------- a kernel vector gives a second codeword ---------- *)
Definition cw2 (z : nat -> bool) (a : Sy) : nat -> Sy := fun c => if z c then sxor (cw c) a else cw c.

Lemma sxor4 p a X b : sxor (sxor p a) (sxor X b) = sxor (sxor p X) (sxor a b).
Proof.
  rewrite sxor_assoc. rewrite <- (sxor_assoc p a X). rewrite (sxor_comm a X). rewrite (sxor_assoc p X a).
  now rewrite <- sxor_assoc.
Qed.

Lemma gs_cw2 z a l : gs (cw2 z a) l = sxor (gs cw l) (if fold_right xorb false (map z l) then a else s0).
Proof.
  induction l as [|c l IH].
  - unfold xs. simpl. now rewrite sxor_0_l.
  - change (gs (cw2 z a) (c :: l)) with (sxor (cw2 z a c) (gs (cw2 z a) l)).
    change (gs cw (c :: l)) with (sxor (cw c) (gs cw l)).
    change (fold_right xorb false (map z (c :: l))) with (xorb (z c) (fold_right xorb false (map z l))).
    rewrite IH. unfold cw2 at 1. destruct (z c).
    + rewrite sxor4. destruct (fold_right xorb false (map z l)); cbn [xorb negb].
      * now rewrite sxor_nilp.
      * now rewrite s0_r.
    + rewrite sxor_assoc. destruct (fold_right xorb false (map z l)); reflexivity.
Qed.

Lemma parity2 z a : hker z -> forall i, i < R0 -> gs (cw2 z a) (nth i H0 []) = s0.
Proof. intros Hz i Hi. rewrite gs_cw2, (Hz i Hi), (parity i Hi). apply sxor_0_l. Qed.

(* ---------- the simplification phase, for any codeword compatible with the table ---------- *)
Definition red (fuel : nat) (perm : list nat) (s : st) : option st :=
  fold_left (inject sxor fuel) perm
    (fold_left (inject sxor fuel) (map (fun i => r (prepar s) + i) (seq 0 (n s - r s))) (Some (prepar s))).

Definition RC (s1 : st) : Prop :=
  forall i c, i < R0 -> (In c (nth i (rws s1) []) <-> In c (nth i H0 []) /\ known s1 c = false).

Lemma reduce_gen (cwx : nat -> Sy) fuel perm (s : st) :
  (forall i, i < R0 -> gs cwx (nth i H0 []) = s0) ->
  Pre cwx s -> N0 < fuel -> (forall c, c < R0 -> In c perm) -> (forall c, In c perm -> c < R0) ->
  exists s1, red fuel perm s = Some s1 /\ Inv cwx s1 /\ Kmono s s1
    /\ (forall c, known s c = true -> nth c (tab s1) None = nth c (tab s) None)
    /\ (iscomp s1 \/ RC s1).
Proof.
  intros parx P Hf Hp1 Hp2.
  assert (W : WF s) by apply P.
  destruct (prepar_inv Sy sxor s0 H0 R0 N0 H0_nodup cwx parx s P) as (I0 & _).
  unfold red. change (r (prepar s)) with (r s). rewrite (wf_r Sy R0 N0 s W), (wf_n Sy R0 N0 s W).
  rewrite map_add_seq. rewrite <- fold_left_app.
  set (cs := seq R0 (N0 - R0) ++ perm).
  assert (Hcs1 : forall c, In c cs -> c < N0).
  { intros c Hc. apply in_app_or in Hc. destruct Hc as [Hc|Hc]; [apply in_seq in Hc; lia|apply Hp2 in Hc; lia]. }
  assert (Hcs2 : forall c, c < N0 -> In c cs).
  { intros c Hc. apply in_or_app. destruct (Nat.lt_ge_cases c R0) as [Hlt|Hge]; [right; now apply Hp1|left; apply in_seq; lia]. }
  destruct (inject_all_spec Sy sxor s0 sxor_assoc sxor_comm sxor_0_l sxor_nilp H0 R0 N0 H0_len H0_nodup H0_range H0_deg R_le_N
              cwx parx cs fuel (prepar s) I0 Hcs1 Hf) as (s1 & Hs1 & I1 & M & T & _).
  exists s1. split; [exact Hs1|]. split; [exact I1|]. split; [exact M|]. split; [exact T|].
  destruct (reduced Sy sxor s0 sxor_assoc sxor_comm sxor_0_l sxor_nilp H0 R0 N0 H0_len H0_nodup H0_range H0_deg R_le_N
              cwx parx cs fuel (prepar s) s1 I0 Hcs1 Hcs2 Hf Hs1) as (_ & [C|(_ & X)]); [now left|right; exact X].
Qed.

Lemma reduce_main fuel perm (s : st) :
  Pre cw s -> N0 < fuel -> (forall c, c < R0 -> In c perm) -> (forall c, In c perm -> c < R0) ->
  exists s1, red fuel perm s = Some s1 /\ Inv cw s1 /\ Kmono s s1
    /\ (forall c, known s c = true -> nth c (tab s1) None = nth c (tab s) None)
    /\ (iscomp s1 \/ RC s1)
    /\ (forall z, hker z -> (forall c, c < N0 -> known s c = true -> z c = false) ->
        forall c, known s1 c = true -> z c = false).
Proof.
  intros P Hf Hp1 Hp2.
  destruct (reduce_gen cw fuel perm s parity P Hf Hp1 Hp2) as (s1 & Hs1 & I1 & M & T & X).
  exists s1. split; [exact Hs1|]. split; [exact I1|]. split; [exact M|]. split; [exact T|]. split; [exact X|].
  intros z Hz Hv c Hk.
  destruct Sy_nontrivial as (a & Ha).
  assert (P2 : Pre (cw2 z a) s).
  { destruct P as (W & Tb & Rw). split; [exact W|]. split; [|exact Rw].
    intros c' v Hc'. rewrite (Tb c' v Hc'). unfold cw2.
    destruct (Nat.lt_ge_cases c' N0) as [Hlt|Hge].
    - rewrite (Hv c' Hlt); [reflexivity|]. unfold known. now rewrite Hc'.
    - rewrite nth_overflow in Hc' by (rewrite (wf_tab Sy R0 N0 s W); exact Hge). discriminate Hc'. }
  destruct (reduce_gen (cw2 z a) fuel perm s (parity2 z a Hz) P2 Hf Hp1 Hp2) as (s1' & Hs1' & I1' & _).
  rewrite Hs1 in Hs1'. injection Hs1' as <-.
  unfold known in Hk. destruct (nth c (tab s1) None) as [v|] eqn:Ev; [|discriminate Hk].
  pose proof (ml_tab Sy sxor s0 H0 R0 N0 cw s1 I1 c v Ev) as E1.
  pose proof (ml_tab Sy sxor s0 H0 R0 N0 (cw2 z a) s1 I1' c v Ev) as E2.
  unfold cw2 in E2. destruct (z c); [|reflexivity]. exfalso. apply Ha.
  apply (XorGroup.sxor_cancel Sy sxor s0 sxor_assoc sxor_0_l sxor_nilp (cw c)). rewrite s0_r. congruence.
Qed.

(* ---------- the part of ml_finish that follows the injections ---------- *)
Definition give_up (s : st) : option (outcome Sy) :=
  let '(b, s') := is_complete s in Some {| o_st := s'; o_ok := b; o_solved := false |}.

Definition cols_of (s : st) : list nat := filter (fun c => negb (is_nil (rows_with s c))) (seq 0 (n s)).
Definition rows_of (s : st) : list nat := filter (fun i => negb (is_nil (nth i (rws s) []))) (seq 0 (r s)).
Definition rowvec (s : st) (cols : list nat) (i : nat) : list bool := map (fun c => mem c (nth i (rws s) [])) cols.
Definition matA (s : st) : list (list bool) :=
  map (rowvec s (cols_of s)) (rows_of s) ++ repeat (repeat false (length (cols_of s))) (r s - length (rows_of s)).
Definition idx_of (s : st) : list nat := rows_of s ++ seq (length (rows_of s)) (r s - length (rows_of s)).
Definition with_ct (s : st) (ct' : list (option Sy)) : st := mk (r s) (n s) (rws s) (unk s) (enc s) ct' (tab s) (fnd s).
Definition nrep_of (s : st) : nat := length (filter (unkt Sy (tab s)) (seq 0 (r s))).

Definition ml_tail (k : nat) (s : st) : option (outcome Sy) :=
  if (length (cols_of s) =? 0) || (length (rows_of s) <? length (cols_of s)) then give_up s else
  let s2 := with_ct s (snd (take_ct (idx_of s) (ct s))) in
  match solve Sy sxor s0 (r s) (length (cols_of s)) (Build_sys (matA s) (fst (take_ct (idx_of s) (ct s)))) with
  | None => give_up s2
  | Some x =>
    Some {| o_st := mk (r s) (n s) (rws s) (unk s) (enc s) (ct s2)
                       (write_back s0 (map (fun i => r s + i) (seq 0 k)) x (nrep_of s) (tab s)) (fnd s);
            o_ok := true; o_solved := true |}
  end.

Lemma ml_finish_eq fuel perm (s : st) :
  ml_finish sxor s0 fuel perm s = match red fuel perm s with None => None | Some s1 => ml_tail (n s - r s) s1 end.
Proof.
  unfold ml_finish, red. destruct (fold_left _ perm _) as [s1|]; [|reflexivity].
  unfold ml_tail, give_up. fold (cols_of s1). fold (rows_of s1).
  destruct ((length (cols_of s1) =? 0) || (length (rows_of s1) <? length (cols_of s1))); [reflexivity|].
  fold (idx_of s1). destruct (take_ct (idx_of s1) (ct s1)) as [b ct']. reflexivity.
Qed.
