(* Executable wrappers of the dense-matrix and solver models for the correspondence check. *)
From Coq Require Import ZArith NArith Arith List Bool.
From OFV Require Import ListAux Dense DenseSolve ITRun HweightArray.
Import ListNotations.

Inductive dop :=
| DSet (i j : nat) (v : bool) | DGet (i j : nat) | DFlip (i j : nat) | DClear
| DCopy (dr dc : nat) (junk : list (nat * nat))        (* copy into a larger matrix pre-filled with junk bits, continue on it *)
| DCopyRows (rows : list nat) (junk : list (nat * nat))
| DCopyCols (cols : list nat) (junk : list (nat * nat))
| DXorRows (from to : nat) | DRowWeight (i : nat) | DColWeight (j : nat) | DRowEmpty (i : nat)
| DRowWeightIF (i nb : nat)                             (* of_mod2dense_row_weight_ignore_first *)
| DSwapPtr (i j : nat).                                 (* exchange of two row pointers, as the solver's pivoting does *)

(* result code of the weight with ignored words: the weight, 9999 for UINT32(-1), 9998 when the model says the C would read past the row *)
Definition wif_code (o : option Z) : nat :=
  match o with Some z => if (z <? 9998)%Z then Z.to_nat z else 9999 | None => 9998 end.

Definition set_all (m : dmat) (l : list (nat * nat)) : dmat := fold_left (fun acc e => d_set acc (fst e) (snd e) true) l m.

Definition dense_step (m : dmat) (o : dop) : dmat * nat :=
  match o with
  | DSet i j v => (d_set m i j v, if (dr m <=? i) || (dc m <=? j) then 9 else 0)
  | DGet i j => (m, if d_get m i j then 1 else 0)
  | DFlip i j => let '(m', b) := d_flip m i j in (m', if (dr m <=? i) || (dc m <=? j) then 9 else if b then 1 else 0)
  | DClear => (d_clear m, 0)
  | DCopy a b junk => (d_copy m (set_all (d_allocate (dr m + a) (dc m + b)) junk), 0)
  | DCopyRows rows junk => (d_copyrows m (set_all (d_allocate (dr m) (dc m)) junk) rows, 0)
  | DCopyCols cols junk => (d_copycols m (set_all (d_allocate (dr m) (dc m)) junk) cols, 0)
  | DXorRows f t => (d_xor_rows m f t, 0)
  | DRowWeight i => (m, d_row_weight m i)
  | DColWeight j => (m, d_col_weight m j)
  | DRowEmpty i => (m, if d_row_is_empty m i then 1 else 0)
  | DRowWeightIF i nb => (m, wif_code (d_row_weight_ignore_first m i nb))
  | DSwapPtr i j => ({| dr := dr m; dc := dc m; dw := dw m;
                        drows := upd (upd (drows m) i (nth j (drows m) [])) j (nth i (drows m) []) |}, 0)
  end.

(* of_hweight_array on a raw array of 32-bit words *)
Definition hweight_array_run (ws : list Z) (size : Z) : option Z := hweight_array ws size.

(* solver on byte-string symbols of length L *)
Definition solve_bytes (p q L : nat) (A : list (list bool)) (b : list (option (list N))) : option (list (list N)) :=
  solve (list N) bxor (repeat 0%N L) p q (Build_sys A b).
