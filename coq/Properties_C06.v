(* C06 — encoders emit the canonical codeword.  LDPC-Staircase part (model LdpcEnc.v of
   of_ldpc_staircase_build_repair_symbol; the 2D parity encoder has the same text): after building
   the repair symbols in increasing ESI order every parity equation sums to zero, source symbols are
   untouched, and the repair values are the unique ones with that property.  Universal in the
   matrix (any staircase-shaped matrix), its size and the symbol group.
   Reed-Solomon part: RSEnc.v is the symbol-level model (repair symbol j = sum_i G[j][i] * source i,
   byte by byte; two field elements per byte for GF(2^4)) with G the canonical generator of RSCanon.v.
   Theorems: every byte of a model repair symbol is the canonical codeword element at position j of
   that byte column; G is systematic; G is "obtained from the Vandermonde matrix on the points 0, 1,
   x, x^2, ...": its row j satisfies (row j) * V_k = (1, x_j, x_j^2, ..., x_j^(k-1)) and is the ONLY
   row vector doing so (so G = V_n * V_k^-1), for every k <= 2^m, in GF(2)[x]/(x^8+x^4+x^3+x^2+1) and
   GF(2)[x]/(x^4+x+1).  InvertVdm.v models how the C BUILDS its generator (of_rs_new /
   of_rs_2m_build_encoding_matrix: Vandermonde rows on the points, the fast in-place inversion
   of_invert_vdm of the top block, of_matmul) and proves that the result is this canonical generator for
   every 1 <= k <= n <= 2^m (the inversion routine is correct because its first point is 0, which is
   what the library always passes: a counterexample with a non-zero first point is in the file).
   The C encoders (both codecs; codec 1 and codec 2 with m=8 therefore byte compatible) and the
   generator matrices they build are compared with the extracted model on every run. *)
From Coq Require Import Arith List Bool.
From Coq Require Import NArith.
From OFV Require Import XorGroup LdpcEnc GF2Poly GFField RSCanon RSEnc GaussJordan InvertVdm.
Import ListNotations.

Theorem ldpc_encode_zero_sum :
  forall (Sy : Type) (sxor : Sy -> Sy -> Sy) (s0 : Sy),
  (forall a b c, sxor a (sxor b c) = sxor (sxor a b) c) -> (forall a b, sxor a b = sxor b a) ->
  (forall a, sxor a a = s0) ->
  forall r H (tab : nat -> Sy), stair r H ->
  let t' := encode_all Sy sxor s0 r H tab in
  (forall c, c < r -> rowsum Sy sxor s0 t' (nth c H []) = s0) /\ (forall x, r <= x -> t' x = tab x).
Proof. exact ldpc_encode_zero_sum_proof. Qed.

Theorem ldpc_encode_unique :
  forall (Sy : Type) (sxor : Sy -> Sy -> Sy) (s0 : Sy),
  (forall a b c, sxor a (sxor b c) = sxor (sxor a b) c) -> (forall a b, sxor a b = sxor b a) ->
  (forall a, sxor s0 a = a) -> (forall a, sxor a a = s0) ->
  forall r H (t1 t2 : nat -> Sy), stair r H ->
  (forall x, r <= x -> t1 x = t2 x) ->
  (forall c, c < r -> rowsum Sy sxor s0 t1 (nth c H []) = s0) -> (forall c, c < r -> rowsum Sy sxor s0 t2 (nth c H []) = s0) ->
  forall c, c < r -> t1 c = t2 c.
Proof. exact ldpc_encode_unique_proof. Qed.

Theorem rs256_repair_bytes_are_canonical :
  forall k L src j b, length src = k -> b < L ->
  nth b (rs8_repair k L (invdens 8 P256 mul256 inv256 k) src j) 0%N = elem256 k (byte_col src b) j.
Proof. exact rs8_repair_byte. Qed.

Theorem rs16_repair_bytes_are_canonical :
  forall k L src j b, length src = k -> b < L ->
  nth b (rs4_repair k L (invdens 4 P16 mul16 inv16 k) src j) 0%N =
  N.lor (N.shiftl (elem16 k (map (fun x => N.shiftr x 4) (byte_col src b)) j) 4)
        (elem16 k (map (fun x => N.land x 15) (byte_col src b)) j).
Proof. exact rs4_repair_byte. Qed.

Theorem rs256_generator_times_vandermonde :
  forall k j t, k <= 256 -> j < 256 -> t < k ->
  fold_right N.lxor 0%N (map (fun i => mul256 (coef256 k i j) (pow256 (rs_point 8 P256 i) t)) (seq 0 k)) = pow256 (rs_point 8 P256 j) t.
Proof. exact coef256_vandermonde. Qed.

Theorem rs256_generator_unique :
  forall k j g, k <= 256 -> j < 256 -> length g = k -> Forall (fun a => (a < 256)%N) g ->
  (forall t, t < k -> fold_right N.lxor 0%N (map (fun i => mul256 (nth i g 0%N) (pow256 (rs_point 8 P256 i) t)) (seq 0 k)) = pow256 (rs_point 8 P256 j) t) ->
  forall i, i < k -> nth i g 0%N = coef256 k i j.
Proof. exact coef256_unique. Qed.

Theorem rs16_generator_times_vandermonde :
  forall k j t, k <= 16 -> j < 16 -> t < k ->
  fold_right N.lxor 0%N (map (fun i => mul16 (coef16 k i j) (pow16 (rs_point 4 P16 i) t)) (seq 0 k)) = pow16 (rs_point 4 P16 j) t.
Proof. exact coef16_vandermonde. Qed.

Theorem rs16_generator_unique :
  forall k j g, k <= 16 -> j < 16 -> length g = k -> Forall (fun a => (a < 16)%N) g ->
  (forall t, t < k -> fold_right N.lxor 0%N (map (fun i => mul16 (nth i g 0%N) (pow16 (rs_point 4 P16 i) t)) (seq 0 k)) = pow16 (rs_point 4 P16 j) t) ->
  forall i, i < k -> nth i g 0%N = coef16 k i j.
Proof. exact coef16_unique. Qed.

Theorem rs256_generator_systematic :
  forall k i j, k <= 256 -> i < k -> j < k -> coef256 k i j = if Nat.eqb i j then 1%N else 0%N.
Proof. exact coef256_systematic. Qed.

Theorem rs256_library_construction_yields_the_canonical_generator :
  forall k n, k <= n <= 256 -> 1 <= k -> forall j i, j < n -> i < k ->
  GaussJordan.get N 0%N (build_enc256 k n) j i = if Nat.ltb j k then (if Nat.eqb i j then 1%N else 0%N) else coef256 k i j.
Proof. exact build_enc256_spec. Qed.

Theorem rs16_library_construction_yields_the_canonical_generator :
  forall k n, k <= n <= 16 -> 1 <= k -> forall j i, j < n -> i < k ->
  GaussJordan.get N 0%N (build_enc16 k n) j i = if Nat.ltb j k then (if Nat.eqb i j then 1%N else 0%N) else coef16 k i j.
Proof. exact build_enc16_spec. Qed.

Print Assumptions ldpc_encode_zero_sum.
Print Assumptions rs256_library_construction_yields_the_canonical_generator.
Print Assumptions rs16_library_construction_yields_the_canonical_generator.
Print Assumptions rs256_repair_bytes_are_canonical.
Print Assumptions rs16_repair_bytes_are_canonical.
Print Assumptions rs256_generator_times_vandermonde.
Print Assumptions rs256_generator_unique.
Print Assumptions rs16_generator_unique.
Print Assumptions ldpc_encode_unique.
