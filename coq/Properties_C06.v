(* C06 — encoders emit the canonical codeword.  LDPC-Staircase part (model LdpcEnc.v of
   of_ldpc_staircase_build_repair_symbol; the 2D parity encoder has the same text): after building
   the repair symbols in increasing ESI order every parity equation sums to zero, source symbols are
   untouched, and the repair values are the unique ones with that property.  Universal in the
   matrix (any staircase-shaped matrix), its size and the symbol group.
   Reed-Solomon part (product by the systematic Vandermonde generator) is not proved yet: the C is
   compared with an independent python implementation of the canonical generator for every (k, n) of
   GF(2^4) and sampled (k, n) of GF(2^8), both codecs (byte compatibility included). *)
From Coq Require Import Arith List Bool.
From OFV Require Import XorGroup LdpcEnc.
Import ListNotations.

Theorem ldpc_encode_zero_sum :
  forall (Sy : Type) (sxor : Sy -> Sy -> Sy) (s0 : Sy),
  (forall a b c, sxor a (sxor b c) = sxor (sxor a b) c) -> (forall a b, sxor a b = sxor b a) ->
  (forall a, sxor a a = s0) ->
  forall r H (tab : nat -> Sy), stair r H ->
  let t' := encode_all Sy sxor s0 r H tab in
  (forall c, c < r -> rowsum Sy sxor s0 t' (nth c H []) = s0) /\ (forall x, r <= x -> t' x = tab x).
Proof. exact ldpc_encode_zero_sum_proof. Qed.

Theorem ldpc_encode_unique :
  forall (Sy : Type) (sxor : Sy -> Sy -> Sy) (s0 : Sy),
  (forall a b c, sxor a (sxor b c) = sxor (sxor a b) c) -> (forall a b, sxor a b = sxor b a) ->
  (forall a, sxor s0 a = a) -> (forall a, sxor a a = s0) ->
  forall r H (t1 t2 : nat -> Sy), stair r H ->
  (forall x, r <= x -> t1 x = t2 x) ->
  (forall c, c < r -> rowsum Sy sxor s0 t1 (nth c H []) = s0) -> (forall c, c < r -> rowsum Sy sxor s0 t2 (nth c H []) = s0) ->
  forall c, c < r -> t1 c = t2 c.
Proof. exact ldpc_encode_unique_proof. Qed.

Print Assumptions ldpc_encode_zero_sum.
Print Assumptions ldpc_encode_unique.
