(* C18 — dense GF(2) matrix and linear solver.
   (a) Dense.v mirrors the row-oriented build of of_matrix_dense.c (32-bit word packing, bit j of a row
       = bit j&31 of word j>>5): get after set / flip / clear / row XOR are exactly the bit-matrix
       operations, for all dimensions; weights and emptiness are counts over get.
   (b) DenseSolve.v mirrors of_ml_tool.c (pivot search, row swap, word-granular row XOR, NULL constant
       terms, backward substitution): whenever the solver returns, its result coincides with EVERY
       solution of the p x q system on all q unknowns, and is a solution as soon as one exists
       (universal in p, q, the matrix, the right-hand sides and the symbol group).
       The solver gives up if and only if the matrix has a non-trivial GF(2) kernel vector, i.e. lacks
       full column rank (DenseSolveComplete.v), and whether it gives up never depends on the
       right-hand sides.
   (c) DenseCopyProofs.v: copy / copy-rows / copy-columns are exactly the bit-matrix copies within the
       bounds of the matrices given (destination larger than the source included, early stop of
       copy-rows on a bad index included), under the invariants WFd, padzero (padding bits of the last
       word are zero) and words32 (words below 2^32), all three preserved by every operation; a row is
       reported empty iff it has no bit.
   (d) PopcountProofs.v, about gen/GenPopcount.v (regenerated from of_hamming_weight.c by the translator
       on every run): the SWAR popcounts of_hweight32 and of_popcount_3 return the number of set bits
       for EVERY 32-bit resp. 64-bit word, the byte table holds the popcount of every byte, and the
       table-based and naive variants (hand models of a pointer cast and a loop) agree. *)
From Coq Require Import NArith Arith List Bool.
From Coq Require Import ZArith.
From OFV Require Import CSem PopcountProofs.
From OFV.gen Require Import GenPopcount.
From OFV Require Import ListAux Dense DenseProofs DenseCopyProofs DenseSolve DenseSolveProofs DenseSolveComplete DenseSolveNZ.
Import ListNotations.

Theorem dense_get_after_set : forall m i j v i' j', WFd m -> i < dr m -> j < dc m ->
  d_get (d_set m i j v) i' j' = if (i' =? i) && (j' =? j) then v else d_get m i' j'.
Proof. exact get_set. Qed.

Theorem dense_get_after_flip : forall m i j i' j', WFd m -> i < dr m -> j < dc m ->
  d_get (fst (d_flip m i j)) i' j' = if (i' =? i) && (j' =? j) then negb (d_get m i j) else d_get m i' j'.
Proof. exact get_flip. Qed.

Theorem dense_get_after_clear : forall m i j, d_get (d_clear m) i j = false.
Proof. exact get_clear. Qed.

Theorem dense_get_after_xor_rows : forall m from to i j, WFd m -> from < dr m -> to < dr m ->
  d_get (d_xor_rows m from to) i j = if i =? to then xorb (d_get m to j) (d_get m from j) else d_get m i j.
Proof. exact get_xor_rows. Qed.

Theorem dense_empty_row_has_no_bit : forall m i, d_row_is_empty m i = true -> forall j, d_get m i j = false.
Proof. exact row_is_empty_sound. Qed.

Theorem solver_returns_the_solution :
  forall (Sy : Type) (sxor : Sy -> Sy -> Sy) (s0 : Sy),
  (forall a b c, sxor a (sxor b c) = sxor (sxor a b) c) -> (forall a b, sxor a b = sxor b a) ->
  (forall a, sxor s0 a = a) -> (forall a, sxor a a = s0) ->
  forall (p q : nat) (y : sys Sy) (x : list Sy), WFs Sy p q y -> solve Sy sxor s0 p q y = Some x ->
  length x = q /\
  (forall x', sol Sy sxor s0 p q y x' -> forall j, j < q -> nth j x s0 = nth j x' s0) /\
  ((exists x', sol Sy sxor s0 p q y x') -> sol Sy sxor s0 p q y x).
Proof. exact solve_sound_proof. Qed.

Theorem solver_fails_iff_rank_deficient :
  forall (Sy : Type) (sxor : Sy -> Sy -> Sy) (s0 : Sy) (p q : nat) (y : sys Sy), WFs Sy p q y ->
  (solve Sy sxor s0 p q y = None <->
   exists z : nat -> bool, (exists c, c < q /\ z c = true) /\
     forall r, r < p -> fold_right xorb false (map (fun c => bit (getrow (sA y) r) c && z c) (seq 0 q)) = false).
Proof. exact solve_none_iff_kernel. Qed.

Theorem solver_failure_independent_of_rhs :
  forall (Sy : Type) (sxor : Sy -> Sy -> Sy) (s0 : Sy) (p q : nat) (y1 y2 : sys Sy),
  WFs Sy p q y1 -> WFs Sy p q y2 -> sA y1 = sA y2 ->
  (solve Sy sxor s0 p q y1 = None <-> solve Sy sxor s0 p q y2 = None).
Proof. exact solve_control_independent_of_rhs. Qed.

Theorem dense_get_after_copy : forall m r i j, WFd m -> padzero m -> dr m <= dr r -> dc m <= dc r ->
  d_get (d_copy m r) i j = if (i <? dr m) && (j <? dc m) then d_get m i j else false.
Proof. exact get_copy_padzero. Qed.

Theorem dense_get_after_copyrows : forall m r rows t i j, WFd m -> padzero m -> dc m <= dc r -> stops_at m r rows t ->
  d_get (d_copyrows m r rows) i j = if (i <? t) && (j <? dc m) then d_get m (nth i rows 0) j else false.
Proof. exact get_copyrows_padzero. Qed.

Theorem dense_get_after_copycols : forall m r cols i j, WFd r -> dr m <= dr r ->
  d_get (d_copycols m r cols) i j = if (i <? dr m) && (j <? dc r) then d_get m i (nth j cols 0) else d_get r i j.
Proof. exact get_copycols_gen. Qed.

Theorem dense_row_is_empty_iff : forall m i, WFd m -> padzero m -> words32 m -> i < dr m ->
  (d_row_is_empty m i = true <-> forall j, j < dc m -> d_get m i j = false).
Proof. exact row_is_empty_iff. Qed.

Theorem popcount_swar32_correct : forall w, (0 <= w < 2 ^ 32)%Z -> of_hweight32 w = Some (popc 32 w).
Proof. exact hweight32_correct. Qed.

Theorem popcount_swar64_correct : forall x, (0 <= x < 2 ^ 64)%Z -> of_popcount_3 c_of_m1 c_of_m2 c_of_m4 c_of_h01 x = Some (popc 64 x).
Proof. exact popcount_3_correct. Qed.

Theorem popcount_byte_table_correct :
  length c_of_hw8table = 256 /\ forall b, (0 <= b < 256)%Z -> nth (Z.to_nat b) c_of_hw8table 0%Z = popc 8 b.
Proof. exact hw8table_correct. Qed.

Theorem popcount_table32_correct : forall w, (0 <= w < 2 ^ 32)%Z -> hweight32_table w = popc 32 w.
Proof. exact hweight32_table_correct. Qed.

Theorem popcount_naive32_correct : forall w, (0 <= w < 2 ^ 32)%Z -> naive 32 w 0%Z = popc 32 w.
Proof. exact hweight32_naive_correct. Qed.

(* all-zero rows (whose right-hand side the ML path leaves unspecified) do not influence the result *)
Theorem solver_ignores_zero_rows :
  forall (Sy : Type) (sxor : Sy -> Sy -> Sy) (s0 : Sy),
  (forall a b c, sxor a (sxor b c) = sxor (sxor a b) c) -> (forall a b, sxor a b = sxor b a) ->
  (forall a, sxor s0 a = a) -> (forall a, sxor a a = s0) ->
  forall (p q : nat) (y : sys Sy) (x : list Sy), WFs Sy p q y -> solve Sy sxor s0 p q y = Some x ->
  length x = q /\ forall x', sol_nz Sy sxor s0 p q y x' -> forall j, j < q -> nth j x s0 = nth j x' s0.
Proof. exact solve_sound_nz. Qed.

(* of_hweight_array: the ones of the WHOLE 32-bit words that cover the first `size` bits (two words at a time through the 64-bit
   popcount, one table-driven popcount for an odd word out), reading exactly those words *)
From OFV Require Import HweightArray HweightArrayProofs.
Theorem popcount_array_correct : forall ws size, Forall (fun w => (0 <= w < 2 ^ 32)%Z) ws -> (0 <= size < 2 ^ 31)%Z ->
  (hw_words size <= Z.of_nat (length ws))%Z ->
  hweight_array ws size = Some (sum_popc (firstn (Z.to_nat (hw_words size)) ws)).
Proof. exact hweight_array_correct. Qed.

Theorem popcount_array_reads_only_its_words : forall ws ws' size, (0 <= size)%Z ->
  firstn (Z.to_nat (hw_words size)) ws = firstn (Z.to_nat (hw_words size)) ws' -> hweight_array ws size = hweight_array ws' size.
Proof. exact hweight_array_reads_only_its_words. Qed.

(* of_mod2dense_row_weight_ignore_first: the weight of the row from the word boundary at or below nb_ignore on - the bits
   nb_ignore mod 32 of the first counted word ARE counted (ignore_first_counts_ignored_bits in HweightArrayProofs.v is the witness);
   with nb_ignore = 0 it is the row weight of the bit-matrix model *)
Theorem dense_row_weight_ignore_first : forall m i nb, WFd m -> words32 m -> padzero m -> i < dr m -> 32 * (nb / 32) <= dc m ->
  (Z.of_nat (dc m) < 2 ^ 31)%Z ->
  d_row_weight_ignore_first m i nb = Some (Z.of_nat (length (filter (fun j => d_get m i j) (seq (32 * (nb / 32)) (dc m - 32 * (nb / 32)))))).
Proof. exact row_weight_ignore_first_correct. Qed.

Theorem dense_row_weight_ignore_nothing : forall m i, WFd m -> words32 m -> padzero m -> i < dr m -> (Z.of_nat (dc m) < 2 ^ 31)%Z ->
  d_row_weight_ignore_first m i 0 = Some (Z.of_nat (d_row_weight m i)).
Proof. exact row_weight_ignore_first_0. Qed.

(* ---- "within the bounds of the matrices given": bounds-checked copy of the solver and of the index translation around it
   (SolveBounds.v).  DenseSolve.v reads with `nth i l default` and writes with `upd`, both total; solve_chk goes through
   accessors that FAIL out of range (and on two rows of different lengths in the word-granular row XOR).  It refines the
   plain model unconditionally, and on a well-shaped p x q system (p rows of q bits, p constant terms) it is never out of
   bounds: it returns exactly what the plain model returns.  The same for take_ct (the C's stale index_rows) and write_back
   (the positional copy-out) with the arguments ml_finish passes them. *)
From OFV Require SolveBounds.
Theorem checked_solver_refines_the_model : forall (Sy : Type) (sxor : Sy -> Sy -> Sy) (s0 : Sy) p q (y : sys Sy),
  (forall x, SolveBounds.solve_chk Sy sxor s0 p q y = SolveBounds.Solved x -> solve Sy sxor s0 p q y = Some x) /\
  (SolveBounds.solve_chk Sy sxor s0 p q y = SolveBounds.NoSolution -> solve Sy sxor s0 p q y = None).
Proof. exact SolveBounds.solve_chk_refines. Qed.
Theorem solver_stays_within_the_matrix_given : forall (Sy : Type) (sxor : Sy -> Sy -> Sy) (s0 : Sy) p q (y : sys Sy),
  length (sA y) = p -> (forall row, In row (sA y) -> length row = q) -> length (sb y) = p ->
  SolveBounds.solve_chk Sy sxor s0 p q y <> SolveBounds.OutOfBounds.
Proof. exact SolveBounds.solve_chk_never_oob'. Qed.
Theorem ml_finish_index_translation_stays_in_range :
  forall (Sy : Type) (sxor : Sy -> Sy -> Sy) (s0 : Sy),
  (forall a b c, sxor a (sxor b c) = sxor (sxor a b) c) -> (forall a b, sxor a b = sxor b a) ->
  (forall a, sxor s0 a = a) -> (forall a, sxor a a = s0) ->
  forall (H0 : list (list nat)) (R0 N0 : nat), length H0 = R0 -> (forall i, i < R0 -> NoDup (nth i H0 [])) ->
  (forall i c, i < R0 -> In c (nth i H0 []) -> c < N0) -> (forall i, i < R0 -> 2 <= length (nth i H0 [])) -> R0 <= N0 ->
  forall cw : nat -> Sy, (forall i, i < R0 -> ITProofs.xs Sy sxor s0 cw (nth i H0 []) = s0) ->
  (forall c, c < N0 -> exists i, i < R0 /\ In c (nth i H0 [])) ->
  forall fuel perm (s : ITModel.st Sy), MLSimplify.MLPre Sy H0 R0 N0 cw s -> N0 < fuel ->
  (forall c, c < R0 -> In c perm) -> (forall c, In c perm -> c < R0) ->
  SolveBounds.ml_finish_chk Sy sxor s0 fuel perm s = MLModel.ml_finish sxor s0 fuel perm s /\
  (exists s1 o, MLFinish.red Sy sxor fuel perm s = Some s1 /\
                SolveBounds.ml_tail_chk Sy sxor s0 (ITModel.n s - ITModel.r s) s1 = Some o /\ MLModel.ml_finish sxor s0 fuel perm s = Some o).
Proof. exact SolveBounds.ml_finish_chk_safe. Qed.

(* ---- the bit macros of of_matrix_dense.h, regenerated from the header on every run (gen/GenSymbol.v, BitsTie.v) ---- *)
From OFV Require BitsTie.
From OFV.gen Require GenSymbol.
Theorem getbit_macro_is_testbit : forall w i, (0 <= w < 4294967296)%Z -> (0 <= i < 32)%Z ->
  GenSymbol.mod2_getbit w i = Some (if Z.testbit w i then 1%Z else 0%Z).
Proof. exact BitsTie.getbit_is_testbit. Qed.
Theorem setbit1_macro_sets_the_bit : forall w i, (0 <= w < 4294967296)%Z -> (0 <= i < 31)%Z ->
  GenSymbol.mod2_setbit1 w i = Some (Z.lor w (2 ^ i)).
Proof. exact BitsTie.setbit1_is_setbit_below_31. Qed.
(* bit 31: `1 << 31` overflows int; ISO C leaves it undefined, gcc/clang wrap, and Dense.v models the wrap: the one
   language-level assumption of the dense model, stated instead of hidden *)
Theorem setbit1_macro_at_bit_31_is_outside_iso_c : forall w, GenSymbol.mod2_setbit1 w 31 = None.
Proof. exact BitsTie.setbit1_at_31_is_undefined_in_iso_c. Qed.

Print Assumptions solver_stays_within_the_matrix_given.
Print Assumptions ml_finish_index_translation_stays_in_range.
Print Assumptions popcount_array_correct.
Print Assumptions dense_row_weight_ignore_first.
Print Assumptions dense_get_after_set.
Print Assumptions solver_ignores_zero_rows.
Print Assumptions dense_get_after_copy.
Print Assumptions dense_get_after_copyrows.
Print Assumptions dense_get_after_copycols.
Print Assumptions dense_row_is_empty_iff.
Print Assumptions popcount_swar32_correct.
Print Assumptions popcount_swar64_correct.
Print Assumptions popcount_byte_table_correct.
Print Assumptions solver_returns_the_solution.
Print Assumptions solver_fails_iff_rank_deficient.
Print Assumptions solver_failure_independent_of_rhs.
