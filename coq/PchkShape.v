(* Structure of the LDPC-Staircase parity-check matrix built by the model Pchk.pchk, for EVERY outcome
   of the pseudo-random choices.
   Layout: (1) list / counting / sparse-matrix helpers; (2) Section PRNG: the construction restated with
   the two PRNG functions as parameters (gpchk; pchk_is_gpchk: its instance at Pchk.rnd and
   of_rfc5170_srand is Pchk.pchk by conversion) and the theorems gpchk_* under three abstract hypotheses
   on the generator (state invariant kept, result below maxv, seeding establishes the invariant);
   (3) the same theorems for Pchk.pchk:
     P1 pchk_wf, P2 pchk_rows, P3 pchk_stair, P4 pchk_repair_columns, pchk_repair_colcount,
     pchk_last_repair_colcount: NO hypothesis on the PRNG (instance "invariant := False");
     P5 pchk_source_columns, P6 pchk_cols_covered, P7 pchk_row_degree(_exact), P8 last_null_claim_premises,
     pchk_last_repair_null: under  rnd_range : forall g maxv x g', 1 <= maxv -> rnd g maxv = Some (x, g') -> x < maxv
     (an out-of-range row or column would make of_mod2sparse_insert a no-op in the model, so the range
     is really needed there); the *_g variants carry the hypotheses in the form that PrngProofs can
     discharge (state in 1..2^31-2, maxv <= 2^24, seed below 2^64).
   The proofs use no axiom: the gpchk_* theorems are closed under the global context.  The statements
   about Pchk.pchk inherit the axioms of the Reals library from the DEFINITION of of_rfc5170_rand
   (CSem's double arithmetic on Flocq), as Print Assumptions pchk shows; nothing else. *)
From Coq Require Import ZArith Arith List Bool Lia.
From OFV Require Import ListAux CSem Sparse SparseProofs Pchk.
From OFV Require LdpcEnc LastNull.
From OFV.gen Require Import GenPrng.
Import ListNotations.

(* ---------- small list facts ---------- *)

Lemma bool_iff (a b : bool) : (a = true <-> b = true) -> a = b.
Proof.
  destruct a, b; intros [H1 H2]; try reflexivity.
  - symmetry. apply H1. reflexivity.
  - apply H2. reflexivity.
Qed.

Lemma ssorted_nodup : forall l, ssorted l -> NoDup l.
Proof.
  induction l as [|x l IH]; intros Hs; [constructor|]. destruct Hs as (Hx & Hs).
  constructor; [|apply IH; exact Hs]. intros Hin. specialize (Hx x Hin). lia.
Qed.

Lemma nodup_same_length (a b : list nat) : NoDup a -> NoDup b -> (forall x, In x a <-> In x b) -> length a = length b.
Proof.
  intros Ha Hb Hiff. apply Nat.le_antisymm; apply NoDup_incl_length; auto; intros x Hx; apply Hiff; exact Hx.
Qed.

Lemma nodup_two (l : list nat) x y : NoDup l -> In x l -> In y l -> x <> y -> 2 <= length l.
Proof.
  intros Hnd Hx Hy Hne. destruct l as [|a [|b t]]; cbn [length]; [inversion Hx| |lia].
  destruct Hx as [<-|[]]. destruct Hy as [<-|[]]. congruence.
Qed.

Lemma filter_split_length {A} (f : A -> bool) : forall l,
  length l = length (filter f l) + length (filter (fun x => negb (f x)) l).
Proof.
  induction l as [|x l IH]; [reflexivity|]. cbn [filter]. destruct (f x); cbn [negb length]; lia.
Qed.

(* counting the elements that satisfy a boolean predicate *)
Lemma flen_ext {A} (f g : A -> bool) : forall l, (forall x, In x l -> f x = g x) ->
  length (filter f l) = length (filter g l).
Proof.
  induction l as [|x l IH]; intros Hfg; [reflexivity|]. cbn [filter].
  rewrite <- (Hfg x (or_introl eq_refl)).
  assert (E : length (filter f l) = length (filter g l)) by (apply IH; intros y Hy; apply Hfg; now right).
  destruct (f x); cbn [length]; lia.
Qed.

Lemma flen_le {A} (f g : A -> bool) : forall l, (forall x, In x l -> f x = true -> g x = true) ->
  length (filter f l) <= length (filter g l).
Proof.
  induction l as [|x l IH]; intros Hfg; [apply Nat.le_refl|]. cbn [filter].
  assert (E : length (filter f l) <= length (filter g l)) by (apply IH; intros y Hy; apply Hfg; now right).
  pose proof (Hfg x (or_introl eq_refl)) as Hx.
  destruct (f x) eqn:Ef; [rewrite (Hx eq_refl)|destruct (g x)]; cbn [length]; lia.
Qed.

Lemma flen_add1 (f g : nat -> bool) x0 : forall l, NoDup l -> In x0 l -> f x0 = false ->
  (forall x, In x l -> (g x = true <-> f x = true \/ x = x0)) ->
  length (filter g l) = S (length (filter f l)).
Proof.
  induction l as [|a l IH]; intros Hnd Hin Hf0 Hg; [inversion Hin|].
  inversion Hnd as [|? ? Ha Hnd']; subst. cbn [filter].
  destruct (Nat.eq_dec a x0) as [->|Hne].
  - assert (Eg : g x0 = true) by (apply Hg; [now left|now right]).
    rewrite Eg, Hf0. cbn [length]. f_equal. apply flen_ext. intros x Hx. apply bool_iff.
    rewrite (Hg x (or_intror Hx)). split; [|tauto]. intros [E|E]; [exact E|]. subst. tauto.
  - destruct Hin as [E|Hin]; [congruence|].
    assert (Eg : g a = f a).
    { apply bool_iff. rewrite (Hg a (or_introl eq_refl)). split; [|tauto]. intros [E|E]; [exact E|congruence]. }
    rewrite Eg. assert (E : length (filter g l) = S (length (filter f l))).
    { apply IH; auto. intros x Hx. apply Hg. now right. }
    destruct (f a); cbn [length]; lia.
Qed.

Lemma flen_none {A} (f : A -> bool) : forall l, (forall x, In x l -> f x = false) -> length (filter f l) = 0.
Proof.
  induction l as [|x l IH]; intros Hf; [reflexivity|]. cbn [filter]. rewrite (Hf x (or_introl eq_refl)).
  apply IH. intros y Hy. apply Hf. now right.
Qed.

Lemma flen_pos {A} (f : A -> bool) : forall l, 1 <= length (filter f l) -> exists x, In x l /\ f x = true.
Proof.
  induction l as [|x l IH]; cbn [filter length]; intros Hl; [lia|].
  destruct (f x) eqn:E; [exists x; split; [now left|exact E]|].
  destruct (IH Hl) as (y & Hy & Ey). exists y. split; [now right|exact Ey].
Qed.

Lemma flen_map {A B} (f : B -> bool) (h : A -> B) : forall l,
  length (filter f (map h l)) = length (filter (fun x => f (h x)) l).
Proof.
  induction l as [|x l IH]; [reflexivity|]. cbn [map filter]. destruct (f (h x)); cbn [length]; rewrite IH; reflexivity.
Qed.

(* counting over a list = counting over its indices *)
Lemma flen_index {A} (p : A -> bool) (d : A) : forall l,
  length (filter p l) = length (filter (fun i => p (nth i l d)) (seq 0 (length l))).
Proof.
  induction l as [|a t IH]; [reflexivity|].
  cbn [length seq filter]. rewrite <- seq_shift. cbn [nth].
  destruct (p a); cbn [length]; rewrite flen_map; cbn [nth]; rewrite IH; reflexivity.
Qed.

(* ---------- has / ins / found ---------- *)

Definition MInv (r n : nat) (m : smat) : Prop := WF m /\ nr m = r /\ nc m = n.

Lemma has_In m i c : has m i c = true <-> In c (nth i (rws m) []).
Proof. unfold has. apply mem_In. Qed.

Lemma has_range m i c : WF m -> has m i c = true -> i < nr m /\ c < nc m.
Proof.
  intros W Hh. apply has_In in Hh.
  destruct (Nat.lt_ge_cases i (nr m)) as [Hi|Hi].
  - split; [exact Hi|]. apply (wf_rs m W i Hi). exact Hh.
  - rewrite nth_overflow in Hh by (rewrite (wf_rl m W); exact Hi). inversion Hh.
Qed.

Lemma row_nodup m i : WF m -> NoDup (nth i (rws m) []).
Proof.
  intros W. destruct (Nat.lt_ge_cases i (nr m)) as [Hi|Hi].
  - apply ssorted_nodup. apply (wf_rs m W i Hi).
  - rewrite nth_overflow by (rewrite (wf_rl m W); exact Hi). constructor.
Qed.

Lemma row_len_mono m m' i : WF m -> (forall c, has m i c = true -> has m' i c = true) ->
  length (nth i (rws m) []) <= length (nth i (rws m') []).
Proof.
  intros W Hm. apply NoDup_incl_length; [apply row_nodup; exact W|].
  intros c Hc. apply has_In. apply Hm. apply has_In. exact Hc.
Qed.

Lemma ins_in m i j : WF m -> i < nr m -> j < nc m ->
  WF (ins m i j) /\ nr (ins m i j) = nr m /\ nc (ins m i j) = nc m /\
  forall i' j', has (ins m i j) i' j' = true <-> has m i' j' = true \/ (i' = i /\ j' = j).
Proof.
  intros W Hi Hj. unfold ins. pose proof (insert_spec m i j W Hi Hj) as HI.
  destruct (s_insert m i j) as [m' st]. cbn [fst]. destruct HI as (W' & Er & Ec & Hh & _).
  split; [exact W'|]. split; [exact Er|]. split; [exact Ec|].
  intros i' j'. rewrite Hh, orb_true_iff, andb_true_iff, !Nat.eqb_eq. tauto.
Qed.

Lemma ins_out m i j : ~ (i < nr m /\ j < nc m) -> ins m i j = m.
Proof.
  intros Hn. unfold ins, s_insert.
  destruct (Nat.leb_spec (nr m) i); [reflexivity|]. destruct (Nat.leb_spec (nc m) j); [reflexivity|]. lia.
Qed.

Definition colw (m : smat) (c : nat) : nat := length (filter (fun i => has m i c) (seq 0 (nr m))).

Lemma colw_ext m m' c : nr m = nr m' -> (forall i, has m i c = has m' i c) -> colw m c = colw m' c.
Proof. intros En Hh. unfold colw. rewrite En. apply flen_ext. intros i _. apply Hh. Qed.

Lemma colw_le m m' c : nr m = nr m' -> (forall i, has m i c = true -> has m' i c = true) -> colw m c <= colw m' c.
Proof. intros En Hh. unfold colw. rewrite En. apply flen_le. intros i _. apply Hh. Qed.

Lemma colcount_colw m c : WF m -> LastNull.colcount (rws m) c = colw m c.
Proof.
  intros W. unfold LastNull.colcount, colw. rewrite (flen_index _ []). rewrite (wf_rl m W). reflexivity.
Qed.

(* one insertion, whatever the indices *)
Lemma step_ins r n m i j : MInv r n m ->
  MInv r n (ins m i j) /\
  (forall i' c, c <> j -> has (ins m i j) i' c = has m i' c) /\
  (forall i' c, i' <> i -> has (ins m i j) i' c = has m i' c) /\
  (forall i' c, has m i' c = true -> has (ins m i j) i' c = true) /\
  (i < r -> j < n -> forall i' c, has (ins m i j) i' c = true <-> has m i' c = true \/ (i' = i /\ c = j)) /\
  (i < r -> j < n -> has m i j = false -> colw (ins m i j) j = S (colw m j)).
Proof.
  intros (W & Er & Ec).
  destruct (Nat.lt_ge_cases i (nr m)) as [Hi|Hi]; [destruct (Nat.lt_ge_cases j (nc m)) as [Hj|Hj]|].
  - destruct (ins_in m i j W Hi Hj) as (W' & Er' & Ec' & Hh).
    split; [split; [exact W'|split; congruence]|].
    split; [intros i' c Hne; apply bool_iff; rewrite Hh; split; [intros [H|(_ & H)]; [exact H|congruence]|tauto]|].
    split; [intros i' c Hne; apply bool_iff; rewrite Hh; split; [intros [H|(H & _)]; [exact H|congruence]|tauto]|].
    split; [intros i' c H; apply Hh; now left|].
    split; [intros _ _; exact Hh|].
    intros _ _ Hf. unfold colw. rewrite Er'. apply (flen_add1 _ _ i).
    + apply seq_NoDup.
    + apply in_seq. lia.
    + exact Hf.
    + intros x _. rewrite Hh. tauto.
  - rewrite ins_out by lia. split; [split; [exact W|split; assumption]|].
    split; [reflexivity|]. split; [reflexivity|]. split; [auto|]. split; intros; lia.
  - rewrite ins_out by lia. split; [split; [exact W|split; assumption]|].
    split; [reflexivity|]. split; [reflexivity|]. split; [auto|]. split; intros; lia.
Qed.

Lemma found_false m i j : WF m -> i < nr m -> j < nc m -> found m i j = false -> has m i j = false.
Proof. intros W Hi Hj. unfold found. rewrite (find_spec m i j W Hi Hj). auto. Qed.

(* the shuffled list of candidate rows only ever holds row numbers *)
Definition uok (r : nat) (u : list nat) : Prop := forall x, In x u -> x < r.

Lemma uok_nth r u h : 1 <= r -> uok r u -> nth h u 0 < r.
Proof. intros Hr Hu. destruct (nth_in_or_default h u 0) as [Hin|E]; [apply Hu; exact Hin|rewrite E; lia]. Qed.

Lemma in_upd (x : nat) : forall (u : list nat) i y, In y (upd u i x) -> y = x \/ In y u.
Proof.
  induction u as [|a u IH]; intros [|i] y Hy; cbn [upd] in Hy; try (now right).
  - destruct Hy as [E|Hy]; [left; congruence|right; now right].
  - destruct Hy as [E|Hy]; [right; now left|]. destruct (IH i y Hy) as [E|Hin]; [now left|right; now right].
Qed.

Lemma uok_upd r u i x : uok r u -> x < r -> uok r (upd u i x).
Proof. intros Hu Hx y Hy. apply in_upd in Hy as [->|Hy]; [exact Hx|apply Hu; exact Hy]. Qed.

Lemma uok_init r len : 1 <= r -> uok r (map (fun h => h mod r) (seq 0 len)).
Proof. intros Hr x Hx. apply in_map_iff in Hx as (h & <- & _). apply Nat.mod_upper_bound. lia. Qed.

(* ---------- the construction, parametric in the PRNG ---------- *)
(* Pchk.pchk is built on the generated of_rfc5170_rand, whose *definition* (double arithmetic of CSem,
   on top of Flocq and the real numbers) already depends on the axioms of the Reals library: every
   statement that mentions Pchk.pchk inherits them.  The model is therefore restated here with the
   two PRNG functions as parameters (same text as Pchk.v; pchk_is_gpchk below: the instance at
   Pchk.rnd / of_rfc5170_srand IS Pchk.pchk, by conversion), and everything is proved for the
   parametric construction, closed under the global context. *)
Section PRNG.
Variable rndf : Z -> nat -> option (nat * Z).
Variable srandf : Z -> Z -> option Z.

Fixpoint gpick_u (fuel : nat) (m : smat) (u : list nat) (j t len : nat) (g : Z) : option (nat * Z) :=
  match fuel with O => None | S f =>
    match rndf g (len - t) with None => None | Some (x, g') =>
      let i := t + x in if found m (nth i u 0) j then gpick_u f m u j t len g' else Some (i, g') end end.
Fixpoint gpick_row (fuel : nat) (m : smat) (j r : nat) (g : Z) : option (nat * Z) :=
  match fuel with O => None | S f =>
    match rndf g r with None => None | Some (i, g') => if found m i j then gpick_row f m j r g' else Some (i, g') end end.

Fixpoint gfill_col (fuel : nat) (cnt : nat) (j r len : nat) (s : lstate) : option lstate :=
  match cnt with O => Some s | S c =>
    let i := scan (lm s) (lu s) j (lt s) (len - lt s) in
    if i <? len then
      match gpick_u fuel (lm s) (lu s) j (lt s) len (lg s) with None => None | Some (i', g') =>
        gfill_col fuel c j r len {| lm := ins (lm s) (nth i' (lu s) 0) j; lu := upd (lu s) i' (nth (lt s) (lu s) 0); lt := S (lt s); lg := g' |} end
    else
      match gpick_row fuel (lm s) j r (lg s) with None => None | Some (i', g') =>
        gfill_col fuel c j r len {| lm := ins (lm s) i' j; lu := lu s; lt := lt s; lg := g' |} end
  end.

Fixpoint gfill_cols (fuel : nat) (cols : list nat) (n1 r len : nat) (s : lstate) : option lstate :=
  match cols with [] => Some s | j :: rest =>
    match gfill_col fuel n1 j r len s with None => None | Some s' => gfill_cols fuel rest n1 r len s' end end.

Fixpoint gpick_other (fuel : nat) (k r avoid : nat) (g : Z) : option (nat * Z) :=
  match fuel with O => None | S f =>
    match rndf g k with None => None | Some (x, g') => if x + r =? avoid then gpick_other f k r avoid g' else Some (x + r, g') end end.

Fixpoint gextra_rows (fuel : nat) (rows : list nat) (k r : nat) (m : smat) (g : Z) (added : nat) : option (smat * Z * nat) :=
  match rows with [] => Some (m, g, added) | i :: rest =>
    let step1 := match nth i (rws m) [] with
                 | [] => match rndf g k with None => None | Some (x, g') => Some (ins m i (x + r), g', S added) end
                 | _ => Some (m, g, added) end in
    match step1 with None => None | Some (m1, g1, a1) =>
      match nth i (rws m1) [] with
      | [e] => if 1 <? k then
                 match gpick_other fuel k r e g1 with None => None | Some (j, g2) => gextra_rows fuel rest k r (ins m1 i j) g2 (S a1) end
               else gextra_rows fuel rest k r m1 g1 a1
      | _ => gextra_rows fuel rest k r m1 g1 a1
      end
    end
  end.

Definition gpchk (fuel : nat) (k r n1 : nat) (seed : Z) (g0 : Z) : option (smat * bool * Z) :=
  if r <? n1 then None else
  match srandf g0 seed with None => None | Some g =>
    let n := k + r in let len := n1 * k in
    let u := map (fun h => h mod r) (seq 0 len) in
    match gfill_cols fuel (seq r k) n1 r len {| lm := s_allocate r n; lu := u; lt := 0; lg := g |} with None => None | Some s =>
      match gextra_rows fuel (seq 0 r) k r (lm s) (lg s) 0 with None => None | Some (m, g', added) =>
        Some (staircase r m, 1 <=? added, g') end end end.

(* good: the invariant of the generator state; okmax: the arguments for which the range is known;
   pre: what is asked of (previous state, seed) for the seeding to establish the invariant.
   Nothing else is assumed about the generator. *)
Variable good : Z -> Prop.
Variable okmax : nat -> Prop.
Variable pre : Z -> Z -> Prop.
Hypothesis rnd_good : forall g maxv x g', good g -> rndf g maxv = Some (x, g') -> good g'.
Hypothesis rnd_range : forall g maxv x g', good g -> okmax maxv -> 1 <= maxv -> rndf g maxv = Some (x, g') -> x < maxv.
Hypothesis srand_good : forall g0 seed g, pre g0 seed -> srandf g0 seed = Some g -> good g.

Lemma pick_u_spec m u j t len : forall fuel g i g', gpick_u fuel m u j t len g = Some (i, g') ->
  found m (nth i u 0) j = false /\ (good g -> good g').
Proof.
  induction fuel as [|f IH]; intros g i g' Hp; cbn [gpick_u] in Hp; [discriminate|].
  destruct (rndf g (len - t)) as [[x g1]|] eqn:Er; [|discriminate]. cbv zeta in Hp.
  destruct (found m (nth (t + x) u 0) j) eqn:Ef.
  - destruct (IH _ _ _ Hp) as (A & B). split; [exact A|]. intros Hg. apply B. exact (rnd_good _ _ _ _ Hg Er).
  - inversion Hp; subst. split; [exact Ef|]. intros Hg. exact (rnd_good _ _ _ _ Hg Er).
Qed.

Lemma pick_row_spec m j r : forall fuel g i g', gpick_row fuel m j r g = Some (i, g') ->
  found m i j = false /\ (good g -> good g' /\ (okmax r -> 1 <= r -> i < r)).
Proof.
  induction fuel as [|f IH]; intros g i g' Hp; cbn [gpick_row] in Hp; [discriminate|].
  destruct (rndf g r) as [[x g1]|] eqn:Er; [|discriminate].
  destruct (found m x j) eqn:Ef.
  - destruct (IH _ _ _ Hp) as (A & B). split; [exact A|]. intros Hg. apply B. exact (rnd_good _ _ _ _ Hg Er).
  - inversion Hp; subst. split; [exact Ef|]. intros Hg. split; [exact (rnd_good _ _ _ _ Hg Er)|].
    intros Ho Hr. exact (rnd_range _ _ _ _ Hg Ho Hr Er).
Qed.

Lemma pick_other_spec k r avoid : forall fuel g j g', gpick_other fuel k r avoid g = Some (j, g') ->
  j <> avoid /\ r <= j /\ (good g -> good g' /\ (okmax k -> 1 <= k -> j < k + r)).
Proof.
  induction fuel as [|f IH]; intros g j g' Hp; cbn [gpick_other] in Hp; [discriminate|].
  destruct (rndf g k) as [[x g1]|] eqn:Er; [|discriminate].
  destruct (Nat.eqb_spec (x + r) avoid) as [E|Hne].
  - destruct (IH _ _ _ Hp) as (A & B & C). split; [exact A|]. split; [exact B|].
    intros Hg. apply C. exact (rnd_good _ _ _ _ Hg Er).
  - inversion Hp; subst. split; [exact Hne|]. split; [lia|]. intros Hg. split; [exact (rnd_good _ _ _ _ Hg Er)|].
    intros Ho Hk. pose proof (rnd_range _ _ _ _ Hg Ho Hk Er). lia.
Qed.

(* ---------- the N1 insertions of one source column ---------- *)
Lemma fill_col_spec fuel j r n len : 1 <= r -> j < n -> forall cnt s s',
  gfill_col fuel cnt j r len s = Some s' -> MInv r n (lm s) -> uok r (lu s) ->
  MInv r n (lm s') /\ uok r (lu s') /\
  (forall i c, c <> j -> has (lm s') i c = has (lm s) i c) /\
  (good (lg s) -> okmax r -> good (lg s') /\ colw (lm s') j = colw (lm s) j + cnt).
Proof.
  intros Hr Hj. induction cnt as [|cnt IH]; intros s s' Hf HM Hu; cbn [gfill_col] in Hf.
  { inversion Hf; subst. split; [exact HM|]. split; [exact Hu|]. split; [reflexivity|]. intros Hg _. split; [exact Hg|lia]. }
  cbv zeta in Hf. destruct HM as (W & Er & Ec).
  destruct (scan (lm s) (lu s) j (lt s) (len - lt s) <? len).
  - destruct (gpick_u fuel (lm s) (lu s) j (lt s) len (lg s)) as [[i' g']|] eqn:Ep; [|discriminate].
    destruct (pick_u_spec _ _ _ _ _ _ _ _ _ Ep) as (Hfound & Hgood).
    pose proof (uok_nth r (lu s) i' Hr Hu) as Hrow.
    destruct (step_ins r n (lm s) (nth i' (lu s) 0) j (conj W (conj Er Ec))) as (HM1 & Hoc & _ & _ & _ & Hcw).
    apply IH in Hf; cbn [lm lu lt lg] in *; [|exact HM1|apply uok_upd; [exact Hu|apply uok_nth; assumption]].
    destruct Hf as (HM' & Hu' & Hoc' & Hcnt). split; [exact HM'|]. split; [exact Hu'|]. split.
    + intros i c Hc. rewrite Hoc' by exact Hc. apply Hoc. exact Hc.
    + intros Hg Ho. destruct (Hcnt (Hgood Hg) Ho) as (Hg' & E). split; [exact Hg'|].
      rewrite E, Hcw; [lia|exact Hrow|exact Hj|].
      apply found_false; [exact W|lia|lia|exact Hfound].
  - destruct (gpick_row fuel (lm s) j r (lg s)) as [[i' g']|] eqn:Ep; [|discriminate].
    destruct (pick_row_spec _ _ _ _ _ _ _ Ep) as (Hfound & Hgood).
    destruct (step_ins r n (lm s) i' j (conj W (conj Er Ec))) as (HM1 & Hoc & _ & _ & _ & Hcw).
    apply IH in Hf; cbn [lm lu lt lg] in *; [|exact HM1|exact Hu].
    destruct Hf as (HM' & Hu' & Hoc' & Hcnt). split; [exact HM'|]. split; [exact Hu'|]. split.
    + intros i c Hc. rewrite Hoc' by exact Hc. apply Hoc. exact Hc.
    + intros Hg Ho. destruct (Hgood Hg) as (Hg1 & Hrow). specialize (Hrow Ho Hr).
      destruct (Hcnt Hg1 Ho) as (Hg' & E). split; [exact Hg'|].
      rewrite E, Hcw; [lia|exact Hrow|exact Hj|].
      apply found_false; [exact W|lia|lia|exact Hfound].
Qed.

Lemma fill_cols_spec fuel r n n1 len : 1 <= r -> forall cols s s',
  gfill_cols fuel cols n1 r len s = Some s' -> NoDup cols -> (forall c, In c cols -> c < n) ->
  MInv r n (lm s) -> uok r (lu s) ->
  MInv r n (lm s') /\ uok r (lu s') /\
  (forall i c, ~ In c cols -> has (lm s') i c = has (lm s) i c) /\
  (good (lg s) -> okmax r -> good (lg s') /\ forall c, In c cols -> colw (lm s') c = colw (lm s) c + n1).
Proof.
  intros Hr. induction cols as [|j rest IH]; intros s s' Hf Hnd Hrange HM Hu; cbn [gfill_cols] in Hf.
  { inversion Hf; subst. split; [exact HM|]. split; [exact Hu|]. split; [reflexivity|].
    intros Hg _. split; [exact Hg|]. intros c []. }
  inversion Hnd as [|? ? Hj Hnd']; subst.
  destruct (gfill_col fuel n1 j r len s) as [s1|] eqn:E1; [|discriminate].
  destruct (fill_col_spec fuel j r n len Hr (Hrange j (or_introl eq_refl)) n1 s s1 E1 HM Hu) as (HM1 & Hu1 & Hoc1 & Hcnt1).
  destruct (IH s1 s' Hf Hnd' (fun c Hc => Hrange c (or_intror Hc)) HM1 Hu1) as (HM' & Hu' & Hoc' & Hcnt').
  split; [exact HM'|]. split; [exact Hu'|]. split.
  - intros i c Hc. rewrite Hoc' by (intros H; apply Hc; now right). apply Hoc1. intros ->. apply Hc. now left.
  - intros Hg Ho. destruct (Hcnt1 Hg Ho) as (Hg1 & Ej). destruct (Hcnt' Hg1 Ho) as (Hg' & Erest).
    split; [exact Hg'|]. intros c [<-|Hc].
    + rewrite <- Ej. apply colw_ext.
      * destruct HM' as (_ & -> & _). destruct HM1 as (_ & -> & _). reflexivity.
      * intros i. apply Hoc'. exact Hj.
    + rewrite (Erest c Hc). f_equal. apply colw_ext.
      * destruct HM as (_ & -> & _). destruct HM1 as (_ & -> & _). reflexivity.
      * intros i. apply Hoc1. intros ->. tauto.
Qed.

(* ---------- the extra entries ---------- *)
Definition xstep1 (i k r : nat) (m : smat) (g : Z) (added : nat) : option (smat * Z * nat) :=
  match nth i (rws m) [] with
  | [] => match rndf g k with None => None | Some (x, g') => Some (ins m i (x + r), g', S added) end
  | _ => Some (m, g, added) end.
Definition xstep2 (fuel i k r : nat) (m1 : smat) (g1 : Z) (a1 : nat) : option (smat * Z * nat) :=
  match nth i (rws m1) [] with
  | [e] => if 1 <? k then
             match gpick_other fuel k r e g1 with None => None | Some (j, g2) => Some (ins m1 i j, g2, S a1) end
           else Some (m1, g1, a1)
  | _ => Some (m1, g1, a1)
  end.

Lemma extra_rows_cons fuel i rest k r m g added :
  gextra_rows fuel (i :: rest) k r m g added =
  match xstep1 i k r m g added with None => None | Some (m1, g1, a1) =>
    match xstep2 fuel i k r m1 g1 a1 with None => None | Some (m2, g2, a2) => gextra_rows fuel rest k r m2 g2 a2 end end.
Proof.
  cbn [gextra_rows]. unfold xstep1.
  destruct (match nth i (rws m) [] with
            | [] => match rndf g k with Some (x, g') => Some (ins m i (x + r), g', S added) | None => None end
            | _ :: _ => Some (m, g, added) end) as [[[m1 g1] a1]|]; [|reflexivity].
  unfold xstep2. destruct (nth i (rws m1) []) as [|e [|e2 t]]; try reflexivity.
  destruct (1 <? k); [|reflexivity]. destruct (gpick_other fuel k r e g1) as [[j g2]|]; reflexivity.
Qed.

(* what every step of gextra_rows preserves *)
Definition xok (r n : nat) (m : smat) (g : Z) (a : nat) (m' : smat) (g' : Z) (a' : nat) : Prop :=
  MInv r n m' /\ a <= a' /\ (a' = a -> m' = m) /\
  (forall i c, has m i c = true -> has m' i c = true) /\
  (forall i c, c < r -> has m' i c = has m i c) /\
  (good g -> good g').

Lemma xok_refl r n m g a : MInv r n m -> xok r n m g a m g a.
Proof. intros HM. split; [exact HM|]. split; [lia|]. split; [reflexivity|]. split; [auto|]. split; [reflexivity|auto]. Qed.

Lemma xok_trans r n m g a m1 g1 a1 m2 g2 a2 :
  xok r n m g a m1 g1 a1 -> xok r n m1 g1 a1 m2 g2 a2 -> xok r n m g a m2 g2 a2.
Proof.
  intros (HM1 & Ha1 & He1 & Hm1 & Hr1 & Hg1) (HM2 & Ha2 & He2 & Hm2 & Hr2 & Hg2).
  split; [exact HM2|]. split; [lia|]. split; [|split; [|split]].
  - intros E. rewrite He2 by lia. apply He1. lia.
  - intros i c H. apply Hm2, Hm1, H.
  - intros i c Hc. rewrite Hr2 by exact Hc. apply Hr1. exact Hc.
  - intros H. apply Hg2, Hg1, H.
Qed.

Lemma xok_ins r n m g a i j g' : MInv r n m -> r <= j -> (good g -> good g') ->
  xok r n m g a (ins m i j) g' (S a).
Proof.
  intros HM Hj Hg. destruct (step_ins r n m i j HM) as (HM1 & Hoc & _ & Hmono & _ & _).
  split; [exact HM1|]. split; [lia|]. split; [lia|]. split; [exact Hmono|]. split; [|exact Hg].
  intros i' c Hc. apply Hoc. lia.
Qed.

Lemma xstep1_spec i k r n m g a m1 g1 a1 : n = k + r -> 1 <= k -> MInv r n m ->
  xstep1 i k r m g a = Some (m1, g1, a1) ->
  xok r n m g a m1 g1 a1 /\ (good g -> okmax k -> i < r -> 1 <= length (nth i (rws m1) [])).
Proof.
  intros En Hk HM. unfold xstep1. destruct (nth i (rws m) []) as [|e t] eqn:Erow.
  - destruct (rndf g k) as [[x g']|] eqn:Er; [|discriminate]. intros E. inversion E; subst m1 g1 a1.
    split; [apply xok_ins; [exact HM|lia|intros Hg; exact (rnd_good _ _ _ _ Hg Er)]|].
    intros Hg Ho Hi. pose proof (rnd_range _ _ _ _ Hg Ho Hk Er) as Hx.
    destruct (step_ins r n m i (x + r) HM) as (_ & _ & _ & _ & Hin & _).
    assert (Hh : has (ins m i (x + r)) i (x + r) = true) by (apply Hin; [exact Hi|lia|right; auto]).
    apply has_In in Hh. destruct (nth i (rws (ins m i (x + r))) []); [inversion Hh|cbn [length]; lia].
  - intros E. inversion E; subst m1 g1 a1. split; [apply xok_refl; exact HM|].
    intros _ _ _. rewrite Erow. cbn [length]. lia.
Qed.

Definition rowdeg (k : nat) : nat := if 1 <? k then 2 else 1.

Lemma xstep2_spec fuel i k r n m1 g1 a1 m2 g2 a2 : n = k + r -> 1 <= k -> MInv r n m1 ->
  xstep2 fuel i k r m1 g1 a1 = Some (m2, g2, a2) ->
  xok r n m1 g1 a1 m2 g2 a2 /\
  (good g1 -> okmax k -> i < r -> 1 <= length (nth i (rws m1) []) -> rowdeg k <= length (nth i (rws m2) [])).
Proof.
  intros En Hk HM. unfold xstep2, rowdeg. destruct (nth i (rws m1) []) as [|e [|e2 t]] eqn:Erow.
  - intros E. inversion E; subst m2 g2 a2. split; [apply xok_refl; exact HM|].
    intros _ _ _ Hl. rewrite Erow in *. cbn [length] in Hl. lia.
  - destruct (Nat.ltb_spec 1 k) as [Hk1|Hk1].
    + destruct (gpick_other fuel k r e g1) as [[j g']|] eqn:Ep; [|discriminate].
      destruct (pick_other_spec _ _ _ _ _ _ _ Ep) as (Hne & Hrj & Hgood).
      intros E. inversion E; subst m2 g2 a2.
      split; [apply xok_ins; [exact HM|exact Hrj|intros Hg; apply (Hgood Hg)]|].
      intros Hg Ho Hi _. destruct (Hgood Hg) as (_ & Hjn). specialize (Hjn Ho Hk).
      destruct (step_ins r n m1 i j HM) as ((W' & _ & _) & _ & _ & Hmono & Hin & _).
      apply (nodup_two _ e j); [apply row_nodup; exact W'| | |congruence].
      * apply has_In. apply Hmono. apply has_In. rewrite Erow. now left.
      * apply has_In. apply Hin; [exact Hi|lia|right; auto].
    + intros E. inversion E; subst m2 g2 a2. split; [apply xok_refl; exact HM|].
      intros _ _ _ _. rewrite Erow. cbn [length]. lia.
  - intros E. inversion E; subst m2 g2 a2. split; [apply xok_refl; exact HM|].
    intros _ _ _ _. rewrite Erow. cbn [length]. destruct (1 <? k); lia.
Qed.

Lemma extra_rows_spec fuel k r n : n = k + r -> 1 <= k -> forall rows m g added m' g' added',
  gextra_rows fuel rows k r m g added = Some (m', g', added') -> MInv r n m ->
  xok r n m g added m' g' added' /\
  (good g -> okmax k -> (forall i, In i rows -> i < r) ->
   forall i, In i rows -> rowdeg k <= length (nth i (rws m') [])).
Proof.
  intros En Hk. induction rows as [|i rest IH]; intros m g added m' g' added' Hx HM.
  { cbn [gextra_rows] in Hx. inversion Hx; subst. split; [apply xok_refl; exact HM|]. intros _ _ _ i []. }
  rewrite extra_rows_cons in Hx.
  destruct (xstep1 i k r m g added) as [[[m1 g1] a1]|] eqn:E1; [|discriminate].
  destruct (xstep2 fuel i k r m1 g1 a1) as [[[m2 g2] a2]|] eqn:E2; [|discriminate].
  destruct (xstep1_spec i k r n m g added m1 g1 a1 En Hk HM E1) as (X1 & D1).
  assert (HM1 : MInv r n m1) by apply X1.
  destruct (xstep2_spec fuel i k r n m1 g1 a1 m2 g2 a2 En Hk HM1 E2) as (X2 & D2).
  assert (HM2 : MInv r n m2) by apply X2.
  destruct (IH m2 g2 a2 m' g' added' Hx HM2) as (X3 & D3).
  split; [exact (xok_trans _ _ _ _ _ _ _ _ _ _ _ (xok_trans _ _ _ _ _ _ _ _ _ _ _ X1 X2) X3)|].
  intros Hg Ho Hrows i' [<-|Hin].
  - assert (Hi : i < r) by (apply Hrows; now left).
    assert (Hg1 : good g1) by (apply X1; exact Hg).
    apply Nat.le_trans with (length (nth i (rws m2) [])); [apply D2; auto|].
    apply row_len_mono; [apply HM2|]. intros c. apply X3.
  - apply D3; auto.
    + apply X2. apply X1. exact Hg.
    + intros i0 Hi0. apply Hrows. now right.
Qed.

(* ---------- the staircase ---------- *)
Lemma stair_fold r n : r <= n -> forall cnt a acc, 1 <= a -> a + cnt <= r -> MInv r n acc ->
  MInv r n (fold_left (fun acc i => ins (ins acc i i) i (i - 1)) (seq a cnt) acc) /\
  forall i c, has (fold_left (fun acc i => ins (ins acc i i) i (i - 1)) (seq a cnt) acc) i c = true <->
              has acc i c = true \/ (a <= i < a + cnt /\ (c = i \/ S c = i)).
Proof.
  intros Hrn. induction cnt as [|cnt IH]; intros a acc Ha Hac HM; cbn [seq fold_left].
  - split; [exact HM|]. intros i c. split; [auto|]. intros [H|(H & _)]; [exact H|lia].
  - destruct (step_ins r n acc a a HM) as (HM1 & _ & _ & _ & Hin1 & _).
    destruct (step_ins r n (ins acc a a) a (a - 1) HM1) as (HM2 & _ & _ & _ & Hin2 & _).
    destruct (IH (S a) (ins (ins acc a a) a (a - 1)) ltac:(lia) ltac:(lia) HM2) as (HM' & Hh).
    split; [exact HM'|]. intros i c. rewrite Hh, Hin2, Hin1 by lia. split.
    + intros [[[H|(E1 & E2)]|(E1 & E2)]|(H1 & H2)]; [now left|right; lia|right; lia|right; lia].
    + intros [H|(H1 & H2)]; [left; left; now left|].
      destruct (Nat.eq_dec i a) as [->|Hne]; [|right; lia].
      left. destruct H2 as [->|H2]; [left; right; split; reflexivity|right; split; lia].
Qed.

Lemma staircase_spec r n m : 1 <= r -> r <= n -> MInv r n m ->
  MInv r n (staircase r m) /\
  forall i c, has (staircase r m) i c = true <-> has m i c = true \/ (i < r /\ (c = i \/ S c = i)).
Proof.
  intros Hr Hrn HM. unfold staircase.
  destruct (step_ins r n m 0 0 HM) as (HM0 & _ & _ & _ & Hin0 & _).
  destruct (stair_fold r n Hrn (r - 1) 1 (ins m 0 0) ltac:(lia) ltac:(lia) HM0) as (HM' & Hh).
  split; [exact HM'|]. intros i c. rewrite Hh, Hin0 by lia. split.
  - intros [[H|(E1 & E2)]|(H1 & H2)]; [now left|right; lia|right; lia].
  - intros [H|(H1 & H2)]; [left; now left|].
    destruct (Nat.eq_dec i 0) as [->|Hne]; [|right; lia]. left. right. lia.
Qed.

(* ---------- the whole construction ---------- *)
Lemma colw_allocate r n c : colw (s_allocate r n) c = 0.
Proof. unfold colw. apply flen_none. intros i _. apply (proj2 (allocate_wf r n)). Qed.

Lemma pchk_decomp fuel k r n1 seed g0 m extra g : 1 <= k -> 1 <= r ->
  gpchk fuel k r n1 seed g0 = Some (m, extra, g) ->
  exists m1 m2 added, n1 <= r /\ MInv r (k + r) m1 /\ MInv r (k + r) m2 /\ MInv r (k + r) m /\
    extra = (1 <=? added) /\
    (forall i c, has m i c = true <-> has m2 i c = true \/ (i < r /\ (c = i \/ S c = i))) /\
    (forall i c, has m2 i c = true -> r <= c) /\
    (forall i c, has m1 i c = true -> has m2 i c = true) /\
    (added = 0 -> m2 = m1) /\
    (pre g0 seed -> okmax k -> okmax r ->
       (forall c, r <= c < k + r -> colw m1 c = n1) /\
       (forall i, i < r -> rowdeg k <= length (nth i (rws m2) []))).
Proof.
  intros Hk Hr. unfold gpchk. destruct (Nat.ltb_spec r n1) as [Hlt|Hn1]; [discriminate|].
  destruct (srandf g0 seed) as [gs|] eqn:Es; [|discriminate]. cbv zeta.
  set (s0 := {| lm := s_allocate r (k + r); lu := map (fun h => h mod r) (seq 0 (n1 * k)); lt := 0; lg := gs |}).
  destruct (gfill_cols fuel (seq r k) n1 r (n1 * k) s0) as [s|] eqn:Ef; [|discriminate].
  destruct (gextra_rows fuel (seq 0 r) k r (lm s) (lg s) 0) as [[[m2 g2] added]|] eqn:Ex; [|discriminate].
  intros E. inversion E; subst m extra g. clear E.
  destruct (allocate_wf r (k + r)) as (W0 & H0).
  assert (HM0 : MInv r (k + r) (lm s0)) by (split; [exact W0|split; reflexivity]).
  destruct (fill_cols_spec fuel r (k + r) n1 (n1 * k) Hr (seq r k) s0 s Ef (seq_NoDup k r)) as (HM1 & _ & Hoc & Hcnt).
  { intros c Hc. apply in_seq in Hc. lia. }
  { exact HM0. }
  { apply uok_init. exact Hr. }
  destruct (extra_rows_spec fuel k r (k + r) eq_refl Hk (seq 0 r) (lm s) (lg s) 0 m2 g2 added Ex HM1)
    as ((HM2 & _ & Hsame & Hmono & Hrep & Hgood) & Hdeg).
  destruct (staircase_spec r (k + r) m2 Hr ltac:(lia) HM2) as (HM3 & Hst).
  exists (lm s), m2, added.
  split; [exact Hn1|]. split; [exact HM1|]. split; [exact HM2|]. split; [exact HM3|]. split; [reflexivity|].
  split; [exact Hst|]. split; [|split; [exact Hmono|split; [exact Hsame|]]].
  - intros i c Hh. destruct (Nat.lt_ge_cases c r) as [Hc|Hc]; [|exact Hc]. exfalso.
    rewrite (Hrep i c Hc), Hoc in Hh by (rewrite in_seq; lia). cbn [lm s0] in Hh. rewrite H0 in Hh. discriminate.
  - intros Hpre Hok Hor. assert (Hgs : good (lg s0)) by (cbn [lg s0]; exact (srand_good _ _ _ Hpre Es)).
    destruct (Hcnt Hgs Hor) as (Hg1 & Hcw). split.
    + intros c Hc. rewrite Hcw by (apply in_seq; lia). cbn [lm s0]. rewrite colw_allocate. reflexivity.
    + intros i Hi. apply (Hdeg Hg1 Hok).
      * intros i0 Hi0. apply in_seq in Hi0. lia.
      * apply in_seq. lia.
Qed.

(* ---------- the theorems (generic in the PRNG hypotheses) ---------- *)
Section Main.
Variables (fuel k r n1 : nat) (seed g0 : Z) (m : smat) (extra : bool) (g : Z).
Hypothesis k_pos : 1 <= k.
Hypothesis r_pos : 1 <= r.
Hypothesis Hpchk : gpchk fuel k r n1 seed g0 = Some (m, extra, g).

(* P1 *)
Theorem gpchk_wf : WF m /\ nr m = r /\ nc m = k + r.
Proof. destruct (pchk_decomp _ _ _ _ _ _ _ _ _ k_pos r_pos Hpchk) as (m1 & m2 & added & _ & _ & _ & HM & _). exact HM. Qed.

Theorem gpchk_n1_le_r : n1 <= r.
Proof. destruct (pchk_decomp _ _ _ _ _ _ _ _ _ k_pos r_pos Hpchk) as (m1 & m2 & added & Hn1 & _). exact Hn1. Qed.

(* P2 *)
Theorem gpchk_rows : length (rws m) = r /\
  forall i, i < r -> NoDup (nth i (rws m) []) /\ (forall c, In c (nth i (rws m) []) -> c < k + r).
Proof.
  destruct gpchk_wf as (W & Er & Ec). split; [rewrite (wf_rl m W); exact Er|].
  intros i Hi. split; [apply row_nodup; exact W|]. rewrite <- Ec. apply (wf_rs m W i). lia.
Qed.

(* P4 *)
Theorem gpchk_repair_columns : forall c i, c < r -> i < r -> (In c (nth i (rws m) []) <-> i = c \/ i = c + 1).
Proof.
  destruct (pchk_decomp _ _ _ _ _ _ _ _ _ k_pos r_pos Hpchk) as (m1 & m2 & added & _ & _ & _ & _ & _ & Hst & Hsrc & _).
  intros c i Hc Hi. rewrite <- has_In, Hst. split.
  - intros [Hh|(_ & Hci)]; [apply Hsrc in Hh; lia|lia].
  - intros Hci. right. lia.
Qed.

(* P3 *)
Theorem gpchk_stair : LdpcEnc.stair r (rws m).
Proof.
  destruct (pchk_decomp _ _ _ _ _ _ _ _ _ k_pos r_pos Hpchk) as (m1 & m2 & added & _ & _ & _ & _ & _ & Hst & Hsrc & _).
  destruct gpchk_rows as (Hlen & Hrows). split; [exact Hlen|].
  intros c Hc. split; [apply (Hrows c Hc)|]. split.
  - apply has_In, Hst. right. lia.
  - intros x Hx Hne. apply has_In, Hst in Hx. destruct Hx as [Hh|(_ & Hx)]; [left; exact (Hsrc _ _ Hh)|right; lia].
Qed.

Lemma colw_repair : forall c, c < r ->
  colw m c = length (filter (fun i => (i =? c) || (i =? S c)) (seq 0 r)).
Proof.
  intros c Hc. destruct gpchk_wf as (W & Er & Ec). unfold colw. rewrite Er. apply flen_ext.
  intros i Hi. apply in_seq in Hi. apply bool_iff.
  rewrite has_In, (gpchk_repair_columns c i Hc ltac:(lia)), orb_true_iff, !Nat.eqb_eq. lia.
Qed.

Lemma flen_eq1 c : c < r -> length (filter (fun i => i =? c) (seq 0 r)) = 1.
Proof.
  intros Hc. rewrite (flen_add1 (fun _ => false) (fun i => i =? c) c); [rewrite flen_none; auto| | |reflexivity|].
  - apply seq_NoDup.
  - apply in_seq. lia.
  - intros x _. rewrite Nat.eqb_eq. split; [auto|]. intros [H|H]; [discriminate|exact H].
Qed.

(* P4, in LastNull's terms *)
Theorem gpchk_repair_colcount : forall c, c < r - 1 -> LastNull.colcount (rws m) c = 2.
Proof.
  intros c Hc. destruct gpchk_wf as (W & _). rewrite (colcount_colw m c W), colw_repair by lia.
  rewrite (flen_add1 (fun i => i =? c) (fun i => (i =? c) || (i =? S c)) (S c)).
  - rewrite flen_eq1 by lia. reflexivity.
  - apply seq_NoDup.
  - apply in_seq. lia.
  - apply Nat.eqb_neq. lia.
  - intros x _. rewrite orb_true_iff, !Nat.eqb_eq. tauto.
Qed.

Theorem gpchk_last_repair_colcount : LastNull.colcount (rws m) (r - 1) = 1.
Proof.
  destruct gpchk_wf as (W & _). rewrite (colcount_colw m _ W), colw_repair by lia.
  transitivity (length (filter (fun i => i =? r - 1) (seq 0 r))); [|apply flen_eq1; lia].
  apply flen_ext. intros i Hi. apply in_seq in Hi.
  destruct (Nat.eqb_spec i (S (r - 1))); [lia|]. apply orb_false_r.
Qed.

Hypothesis Hpre : pre g0 seed.
Hypothesis Hok : okmax k.
Hypothesis Hor : okmax r.

(* P5 *)
Theorem gpchk_source_columns : forall c, r <= c < k + r ->
  n1 <= LastNull.colcount (rws m) c /\ (extra = false -> LastNull.colcount (rws m) c = n1).
Proof.
  destruct (pchk_decomp _ _ _ _ _ _ _ _ _ k_pos r_pos Hpchk)
    as (m1 & m2 & added & _ & HM1 & HM2 & HM & Hex & Hst & Hsrc & Hmono & Hsame & Hrnd).
  destruct (Hrnd Hpre Hok Hor) as (Hcw & _).
  intros c Hc. rewrite (colcount_colw m c (proj1 HM)).
  assert (E : colw m c = colw m2 c).
  { apply colw_ext.
    - destruct HM as (_ & -> & _). destruct HM2 as (_ & -> & _). reflexivity.
    - intros i. apply bool_iff. rewrite Hst. split; [|tauto]. intros [H|(Hi & Hci)]; [exact H|lia]. }
  rewrite E. split.
  - rewrite <- (Hcw c Hc). apply colw_le; [|intros i; apply Hmono].
    destruct HM1 as (_ & -> & _). destruct HM2 as (_ & -> & _). reflexivity.
  - intros Hf. subst extra. apply Nat.leb_gt in Hf. rewrite Hsame by lia. apply Hcw. exact Hc.
Qed.

(* P6 *)
Theorem gpchk_cols_covered : 1 <= n1 -> forall c, c < k + r -> exists i, i < r /\ In c (nth i (rws m) []).
Proof.
  intros Hn1 c Hc. destruct (Nat.lt_ge_cases c r) as [Hlt|Hge].
  - exists c. split; [exact Hlt|]. apply gpchk_repair_columns; auto.
  - destruct (gpchk_source_columns c ltac:(lia)) as (Hle & _).
    destruct gpchk_wf as (W & Er & _). rewrite (colcount_colw m c W) in Hle. unfold colw in Hle.
    destruct (flen_pos _ _ (Nat.le_trans _ _ _ Hn1 Hle)) as (i & Hi & Hh).
    apply in_seq in Hi. exists i. split; [lia|]. apply has_In. exact Hh.
Qed.

(* P7: every row has rowdeg k source entries (2, or 1 when k = 1) and its 1 (row 0) or 2 repair entries *)
Theorem gpchk_row_degree_exact : forall i, i < r ->
  rowdeg k + (if i =? 0 then 1 else 2) <= length (nth i (rws m) []).
Proof.
  destruct (pchk_decomp _ _ _ _ _ _ _ _ _ k_pos r_pos Hpchk)
    as (m1 & m2 & added & _ & HM1 & HM2 & HM & Hex & Hst & Hsrc & Hmono & Hsame & Hrnd).
  destruct (Hrnd Hpre Hok Hor) as (_ & Hdeg).
  intros i Hi. set (row := nth i (rws m) []).
  assert (Hnd : NoDup row) by (apply row_nodup; apply HM).
  rewrite (filter_split_length (fun c => r <=? c) row). apply Nat.add_le_mono.
  - apply Nat.le_trans with (length (nth i (rws m2) [])); [apply Hdeg; exact Hi|].
    apply Nat.eq_le_incl. apply nodup_same_length; [apply row_nodup; apply HM2|apply NoDup_filter; exact Hnd|].
    intros c. rewrite filter_In. unfold row. rewrite <- !has_In, Hst, Nat.leb_le. split.
    + intros Hh. split; [now left|exact (Hsrc _ _ Hh)].
    + intros ([Hh|(_ & Hci)] & Hrc); [exact Hh|lia].
  - assert (Hin : forall c, c < r -> (c = i \/ S c = i) -> In c (filter (fun c => negb (r <=? c)) row)).
    { intros c Hc Hci. apply filter_In. split; [apply has_In, Hst; right; split; assumption|].
      apply negb_true_iff, Nat.leb_gt. exact Hc. }
    destruct (Nat.eqb_spec i 0) as [->|Hne].
    + specialize (Hin 0 Hi (or_introl eq_refl)).
      destruct (filter (fun c => negb (r <=? c)) row); [inversion Hin|cbn [length]; lia].
    + apply (nodup_two _ i (i - 1)); [apply NoDup_filter; exact Hnd| | |lia]; apply Hin; lia.
Qed.

Theorem gpchk_row_degree : forall i, i < r -> 2 <= length (nth i (rws m) []).
Proof.
  intros i Hi. pose proof (gpchk_row_degree_exact i Hi) as H. unfold rowdeg in H.
  destruct (1 <? k), (i =? 0); lia.
Qed.

(* P8 *)
Theorem glast_null_claim_premises : extra = false -> Nat.even n1 = true ->
  (forall row, In row (rws m) -> NoDup row /\ forall c, In c row -> c < k + r) /\
  (forall c, r <= c < k + r -> Nat.even (LastNull.colcount (rws m) c) = true) /\
  (forall c, c < r - 1 -> LastNull.colcount (rws m) c = 2) /\
  LastNull.colcount (rws m) (r - 1) = 1.
Proof.
  intros Hex Hev. split; [|split; [|split]].
  - intros row Hin. destruct gpchk_rows as (Hlen & Hrows).
    destruct (In_nth _ _ [] Hin) as (i & Hi & <-). apply Hrows. lia.
  - intros c Hc. destruct (gpchk_source_columns c Hc) as (_ & E). rewrite (E Hex). exact Hev.
  - exact gpchk_repair_colcount.
  - exact gpchk_last_repair_colcount.
Qed.

(* ... so that C15's theorem applies: in every codeword of the matrix the last repair symbol is null *)
Theorem gpchk_last_repair_null : last_symbol_null_claim n1 extra = true ->
  forall (Sy : Type) (sxor : Sy -> Sy -> Sy) (s0 : Sy),
  (forall a b c, sxor a (sxor b c) = sxor (sxor a b) c) -> (forall a b, sxor a b = sxor b a) ->
  (forall a, sxor s0 a = a) -> (forall a, sxor a a = s0) ->
  forall cw : nat -> Sy, (forall row, In row (rws m) -> LastNull.rowsum Sy sxor s0 cw row = s0) ->
  cw (r - 1) = s0.
Proof.
  unfold last_symbol_null_claim. intros Hc. apply andb_true_iff in Hc as (Hev & Hex).
  apply negb_true_iff in Hex. destruct (glast_null_claim_premises Hex Hev) as (A & B & C & D).
  intros Sy sxor s0 H1 H2 H3 H4 cw Hcw.
  apply (LastNull.last_repair_is_null_proof Sy sxor s0 H1 H2 H3 H4 cw (rws m) r (k + r) r_pos ltac:(lia) A Hcw B C D).
Qed.

End Main.
End PRNG.

(* ---------- back to Pchk.pchk ---------- *)
Lemma pchk_is_gpchk fuel k r n1 seed g0 :
  pchk fuel k r n1 seed g0 = gpchk rnd of_rfc5170_srand fuel k r n1 seed g0.
Proof. reflexivity. Qed.

(* "number of rows containing c" *)
Lemma colcount_rows (H : list (list nat)) c :
  LastNull.colcount H c = length (filter (fun i => existsb (Nat.eqb c) (nth i H [])) (seq 0 (length H))).
Proof. unfold LastNull.colcount. apply flen_index. Qed.

(* ---------- P1-P4: no hypothesis on the PRNG (instance good := False) ---------- *)
Section Unconditional.
Variables (fuel k r n1 : nat) (seed g0 : Z) (m : smat) (extra : bool) (g : Z).
Hypothesis k_pos : 1 <= k.
Hypothesis r_pos : 1 <= r.
Hypothesis Hpchk : pchk fuel k r n1 seed g0 = Some (m, extra, g).

Let goodF : Z -> Prop := fun _ => False.
Let okT : nat -> Prop := fun _ => True.
Let preF : Z -> Z -> Prop := fun _ _ => False.
Let hF1 : forall g maxv x g', goodF g -> rnd g maxv = Some (x, g') -> goodF g'.
Proof. intros ? ? ? ? []. Qed.
Let hF2 : forall g maxv x g', goodF g -> okT maxv -> 1 <= maxv -> rnd g maxv = Some (x, g') -> x < maxv.
Proof. intros ? ? ? ? []. Qed.
Let hF3 : forall g0 seed g, preF g0 seed -> of_rfc5170_srand g0 seed = Some g -> goodF g.
Proof. intros ? ? ? []. Qed.

(* P1 *)
Theorem pchk_wf : WF m /\ nr m = r /\ nc m = k + r.
Proof. exact (gpchk_wf _ _ goodF okT preF hF1 hF2 hF3 fuel k r n1 seed g0 m extra g k_pos r_pos Hpchk). Qed.

Theorem pchk_n1_le_r : n1 <= r.
Proof. exact (gpchk_n1_le_r _ _ goodF okT preF hF1 hF2 hF3 fuel k r n1 seed g0 m extra g k_pos r_pos Hpchk). Qed.

(* P2 *)
Theorem pchk_rows : length (rws m) = r /\
  forall i, i < r -> NoDup (nth i (rws m) []) /\ (forall c, In c (nth i (rws m) []) -> c < k + r).
Proof. exact (gpchk_rows _ _ goodF okT preF hF1 hF2 hF3 fuel k r n1 seed g0 m extra g k_pos r_pos Hpchk). Qed.

(* P3 *)
Theorem pchk_stair : LdpcEnc.stair r (rws m).
Proof. exact (gpchk_stair _ _ goodF okT preF hF1 hF2 hF3 fuel k r n1 seed g0 m extra g k_pos r_pos Hpchk). Qed.

(* P4 *)
Theorem pchk_repair_columns : forall c i, c < r -> i < r -> (In c (nth i (rws m) []) <-> i = c \/ i = c + 1).
Proof. exact (gpchk_repair_columns _ _ goodF okT preF hF1 hF2 hF3 fuel k r n1 seed g0 m extra g k_pos r_pos Hpchk). Qed.

Theorem pchk_repair_colcount : forall c, c < r - 1 -> LastNull.colcount (rws m) c = 2.
Proof. exact (gpchk_repair_colcount _ _ goodF okT preF hF1 hF2 hF3 fuel k r n1 seed g0 m extra g k_pos r_pos Hpchk). Qed.

Theorem pchk_last_repair_colcount : LastNull.colcount (rws m) (r - 1) = 1.
Proof. exact (gpchk_last_repair_colcount _ _ goodF okT preF hF1 hF2 hF3 fuel k r n1 seed g0 m extra g k_pos r_pos Hpchk). Qed.
End Unconditional.

(* ---------- P5-P8 for Pchk.pchk, generic form of the hypotheses (the form PrngProofs can discharge:
   good g := 1 <= g <= PM_P - 1, okmax v := v <= 2^24, pre g0 seed := good g0 /\ 0 <= seed < 2^64) ---------- *)
Section Concrete.
Variable good : Z -> Prop.
Variable okmax : nat -> Prop.
Variable pre : Z -> Z -> Prop.
Hypothesis rnd_good : forall g maxv x g', good g -> rnd g maxv = Some (x, g') -> good g'.
Hypothesis rnd_range : forall g maxv x g', good g -> okmax maxv -> 1 <= maxv -> rnd g maxv = Some (x, g') -> x < maxv.
Hypothesis srand_good : forall g0 seed g, pre g0 seed -> of_rfc5170_srand g0 seed = Some g -> good g.
Variables (fuel k r n1 : nat) (seed g0 : Z) (m : smat) (extra : bool) (g : Z).
Hypothesis k_pos : 1 <= k.
Hypothesis r_pos : 1 <= r.
Hypothesis Hpchk : pchk fuel k r n1 seed g0 = Some (m, extra, g).
Hypothesis Hpre : pre g0 seed.
Hypothesis Hok : okmax k.
Hypothesis Hor : okmax r.

Theorem pchk_source_columns_g : forall c, r <= c < k + r ->
  n1 <= LastNull.colcount (rws m) c /\ (extra = false -> LastNull.colcount (rws m) c = n1).
Proof. exact (gpchk_source_columns _ _ good okmax pre rnd_good rnd_range srand_good fuel k r n1 seed g0 m extra g k_pos r_pos Hpchk Hpre Hok Hor). Qed.

Theorem pchk_cols_covered_g : 1 <= n1 -> forall c, c < k + r -> exists i, i < r /\ In c (nth i (rws m) []).
Proof. exact (gpchk_cols_covered _ _ good okmax pre rnd_good rnd_range srand_good fuel k r n1 seed g0 m extra g k_pos r_pos Hpchk Hpre Hok Hor). Qed.

Theorem pchk_row_degree_exact_g : forall i, i < r ->
  rowdeg k + (if i =? 0 then 1 else 2) <= length (nth i (rws m) []).
Proof. exact (gpchk_row_degree_exact _ _ good okmax pre rnd_good rnd_range srand_good fuel k r n1 seed g0 m extra g k_pos r_pos Hpchk Hpre Hok Hor). Qed.

Theorem pchk_row_degree_g : forall i, i < r -> 2 <= length (nth i (rws m) []).
Proof. exact (gpchk_row_degree _ _ good okmax pre rnd_good rnd_range srand_good fuel k r n1 seed g0 m extra g k_pos r_pos Hpchk Hpre Hok Hor). Qed.

Theorem last_null_claim_premises_g : extra = false -> Nat.even n1 = true ->
  (forall row, In row (rws m) -> NoDup row /\ forall c, In c row -> c < k + r) /\
  (forall c, r <= c < k + r -> Nat.even (LastNull.colcount (rws m) c) = true) /\
  (forall c, c < r - 1 -> LastNull.colcount (rws m) c = 2) /\
  LastNull.colcount (rws m) (r - 1) = 1.
Proof. exact (glast_null_claim_premises _ _ good okmax pre rnd_good rnd_range srand_good fuel k r n1 seed g0 m extra g k_pos r_pos Hpchk Hpre Hok Hor). Qed.

Theorem pchk_last_repair_null_g : last_symbol_null_claim n1 extra = true ->
  forall (Sy : Type) (sxor : Sy -> Sy -> Sy) (s0 : Sy),
  (forall a b c, sxor a (sxor b c) = sxor (sxor a b) c) -> (forall a b, sxor a b = sxor b a) ->
  (forall a, sxor s0 a = a) -> (forall a, sxor a a = s0) ->
  forall cw : nat -> Sy, (forall row, In row (rws m) -> LastNull.rowsum Sy sxor s0 cw row = s0) ->
  cw (r - 1) = s0.
Proof. exact (gpchk_last_repair_null _ _ good okmax pre rnd_good rnd_range srand_good fuel k r n1 seed g0 m extra g k_pos r_pos Hpchk Hpre Hok Hor). Qed.
End Concrete.

(* ---------- P5-P8 under the plain range hypothesis (instance good := True) ---------- *)
Section Range.
Hypothesis rnd_range : forall g maxv x g', 1 <= maxv -> rnd g maxv = Some (x, g') -> x < maxv.
Variables (fuel k r n1 : nat) (seed g0 : Z) (m : smat) (extra : bool) (g : Z).
Hypothesis k_pos : 1 <= k.
Hypothesis r_pos : 1 <= r.
Hypothesis Hpchk : pchk fuel k r n1 seed g0 = Some (m, extra, g).

Let goodT : Z -> Prop := fun _ => True.
Let okT : nat -> Prop := fun _ => True.
Let preT : Z -> Z -> Prop := fun _ _ => True.
Let hT1 : forall g maxv x g', goodT g -> rnd g maxv = Some (x, g') -> goodT g'.
Proof. intros; exact I. Qed.
Let hT2 : forall g maxv x g', goodT g -> okT maxv -> 1 <= maxv -> rnd g maxv = Some (x, g') -> x < maxv.
Proof. intros g1 maxv x g' _ _ Hm E. exact (rnd_range g1 maxv x g' Hm E). Qed.
Let hT3 : forall g0 seed g, preT g0 seed -> of_rfc5170_srand g0 seed = Some g -> goodT g.
Proof. intros; exact I. Qed.

(* P5 *)
Theorem pchk_source_columns : forall c, r <= c < k + r ->
  n1 <= LastNull.colcount (rws m) c /\ (extra = false -> LastNull.colcount (rws m) c = n1).
Proof. exact (pchk_source_columns_g goodT okT preT hT1 hT2 hT3 fuel k r n1 seed g0 m extra g k_pos r_pos Hpchk I I I). Qed.

(* P6 *)
Theorem pchk_cols_covered : 1 <= n1 -> forall c, c < k + r -> exists i, i < r /\ In c (nth i (rws m) []).
Proof. exact (pchk_cols_covered_g goodT okT preT hT1 hT2 hT3 fuel k r n1 seed g0 m extra g k_pos r_pos Hpchk I I I). Qed.

(* P7 *)
Theorem pchk_row_degree_exact : forall i, i < r ->
  rowdeg k + (if i =? 0 then 1 else 2) <= length (nth i (rws m) []).
Proof. exact (pchk_row_degree_exact_g goodT okT preT hT1 hT2 hT3 fuel k r n1 seed g0 m extra g k_pos r_pos Hpchk I I I). Qed.

Theorem pchk_row_degree : forall i, i < r -> 2 <= length (nth i (rws m) []).
Proof. exact (pchk_row_degree_g goodT okT preT hT1 hT2 hT3 fuel k r n1 seed g0 m extra g k_pos r_pos Hpchk I I I). Qed.

(* P8 *)
Theorem last_null_claim_premises : extra = false -> Nat.even n1 = true ->
  (forall row, In row (rws m) -> NoDup row /\ forall c, In c row -> c < k + r) /\
  (forall c, r <= c < k + r -> Nat.even (LastNull.colcount (rws m) c) = true) /\
  (forall c, c < r - 1 -> LastNull.colcount (rws m) c = 2) /\
  LastNull.colcount (rws m) (r - 1) = 1.
Proof. exact (last_null_claim_premises_g goodT okT preT hT1 hT2 hT3 fuel k r n1 seed g0 m extra g k_pos r_pos Hpchk I I I). Qed.

Theorem pchk_last_repair_null : last_symbol_null_claim n1 extra = true ->
  forall (Sy : Type) (sxor : Sy -> Sy -> Sy) (s0 : Sy),
  (forall a b c, sxor a (sxor b c) = sxor (sxor a b) c) -> (forall a b, sxor a b = sxor b a) ->
  (forall a, sxor s0 a = a) -> (forall a, sxor a a = s0) ->
  forall cw : nat -> Sy, (forall row, In row (rws m) -> LastNull.rowsum Sy sxor s0 cw row = s0) ->
  cw (r - 1) = s0.
Proof. exact (pchk_last_repair_null_g goodT okT preT hT1 hT2 hT3 fuel k r n1 seed g0 m extra g k_pos r_pos Hpchk I I I). Qed.
End Range.

(* the proofs: closed under the global context *)
Print Assumptions gpchk_wf.
Print Assumptions gpchk_rows.
Print Assumptions gpchk_stair.
Print Assumptions gpchk_repair_columns.
Print Assumptions gpchk_repair_colcount.
Print Assumptions gpchk_last_repair_colcount.
Print Assumptions gpchk_source_columns.
Print Assumptions gpchk_cols_covered.
Print Assumptions gpchk_row_degree_exact.
Print Assumptions gpchk_row_degree.
Print Assumptions glast_null_claim_premises.
Print Assumptions gpchk_last_repair_null.

(* the statements about Pchk.pchk mention of_rfc5170_rand, whose definition (not these proofs) rests on
   the Reals library: the same four axioms are printed for the bare definition and for the theorems *)
Print Assumptions pchk.
Print Assumptions pchk_wf.
Print Assumptions pchk_rows.
Print Assumptions pchk_stair.
Print Assumptions pchk_repair_columns.
Print Assumptions pchk_source_columns.
Print Assumptions pchk_cols_covered.
Print Assumptions pchk_row_degree.
Print Assumptions last_null_claim_premises.
Print Assumptions pchk_last_repair_null.
