From Coq Require Import Arith List Bool Lia.
From OFV Require Import ListAux Sparse.
Import ListNotations.

(* ---------- strictly increasing lists ---------- *)
Fixpoint ssorted (l : list nat) : Prop :=
  match l with [] => True | x :: t => (forall y, In y t -> x < y) /\ ssorted t end.

Lemma mem_In x l : mem x l = true <-> In x l.
Proof.
  unfold mem. rewrite existsb_exists. split.
  - intros (y & Hy & E). apply Nat.eqb_eq in E. subst. exact Hy.
  - intros H. exists x. split; [exact H|apply Nat.eqb_refl].
Qed.
Lemma mem_false x l : mem x l = false <-> ~ In x l.
Proof. rewrite <- mem_In. destruct (mem x l); split; intros; try congruence; tauto. Qed.

Lemma last_opt_spec l : ssorted l ->
  match last_opt l with None => l = [] | Some y => In y l /\ forall x, In x l -> x <= y end.
Proof.
  induction l as [|a t IH]; simpl; auto. intros (Ha & Ht). destruct t as [|b t'].
  - split; [now left|]. intros x [->|[]]. lia.
  - specialize (IH Ht). destruct (last_opt (b :: t')) as [y|]; [|discriminate].
    destruct IH as (Hy & Hmax). split; [now right|]. intros x [->|Hx]; [|auto].
    specialize (Ha y Hy). lia.
Qed.

Lemma ssorted_app_last l x : ssorted l -> (forall y, In y l -> y < x) -> ssorted (l ++ [x]).
Proof.
  induction l as [|a t IH]; simpl; intros Hs Hlt; [tauto|]. destruct Hs as (Ha & Ht). split.
  - intros y Hy. apply in_app_or in Hy as [Hy|[<-|[]]]; auto.
  - apply IH; auto.
Qed.

Lemma ins_walk_spec x : forall l, ssorted l ->
  match ins_walk x l with
  | None => In x l
  | Some l' => ~ In x l /\ ssorted l' /\ (forall y, In y l' <-> y = x \/ In y l) /\ length l' = S (length l)
  end.
Proof.
  induction l as [|a t IH]; simpl; intros Hs.
  - split; [intros []|]. split; [simpl; split; [intros y []|exact I]|]. split; [intros y; simpl; intuition|reflexivity].
  - destruct Hs as (Ha & Ht). destruct (Nat.eqb_spec a x) as [->|Hne]; [now left|].
    destruct (Nat.ltb_spec x a) as [Hlt|Hge].
    + split; [|split; [|split]].
      * intros [E|Hin]; [lia|]. specialize (Ha x Hin). lia.
      * simpl. split; [|split; auto]. intros y [<-|Hy]; [exact Hlt|]. specialize (Ha y Hy). lia.
      * intros y. simpl. intuition.
      * reflexivity.
    + specialize (IH Ht). destruct (ins_walk x t) as [t'|].
      * destruct IH as (Hn & Hs' & Hm & Hl). split; [|split; [|split]].
        -- intros [E|Hin]; [lia|tauto].
        -- simpl. split; [|exact Hs']. intros y Hy. apply Hm in Hy as [->|Hy]; [lia|auto].
        -- intros y. simpl. rewrite Hm. intuition.
        -- simpl. now rewrite Hl.
      * now right.
Qed.

Lemma ins_walk_append x : forall l, ssorted l -> (forall y, In y l -> y < x) -> ins_walk x l = Some (l ++ [x]).
Proof.
  induction l as [|a t IH]; simpl; intros Hs Hlt; auto. destruct Hs as (Ha & Ht).
  pose proof (Hlt a (or_introl eq_refl)) as Hax.
  destruct (Nat.eqb_spec a x); [lia|]. destruct (Nat.ltb_spec x a); [lia|].
  rewrite IH; auto.
Qed.

Lemma ins_fast_walk x l : ssorted l -> ins_fast x l = ins_walk x l.
Proof.
  intros Hs. unfold ins_fast. pose proof (last_opt_spec l Hs) as HL.
  destruct (last_opt l) as [y|].
  - destruct HL as (Hy & Hmax). destruct (Nat.eqb_spec y x) as [->|Hne].
    + pose proof (ins_walk_spec x l Hs) as H. destruct (ins_walk x l); [tauto|reflexivity].
    + destruct (Nat.ltb_spec y x) as [Hlt|Hge]; [|reflexivity].
      symmetry. apply ins_walk_append; auto. intros z Hz. specialize (Hmax z Hz). lia.
  - subst l. reflexivity.
Qed.

Lemma find_walk_spec i j : forall row col, ssorted row -> ssorted col ->
  (In j row <-> In i col) -> find_walk row col i j = mem j row.
Proof.
  induction row as [|c row' IH]; intros col Hsr Hsc Hiff; [reflexivity|].
  simpl find_walk. destruct Hsr as (Hc & Hsr').
  destruct (Nat.ltb_spec j c) as [Hlt|Hge].
  - symmetry. apply mem_false. intros [E|Hin]; [lia|]. specialize (Hc j Hin). lia.
  - destruct (Nat.eqb_spec c j) as [->|Hne].
    + symmetry. apply mem_In. now left.
    + assert (Hrow : In j (c :: row') <-> In j row') by (simpl; intuition).
      destruct col as [|r col'].
      * symmetry. apply mem_false. intros Hin. apply Hiff in Hin. inversion Hin.
      * destruct Hsc as (Hr & Hsc').
        destruct (Nat.ltb_spec i r) as [Hlt2|Hge2].
        -- symmetry. apply mem_false. intros Hin. apply Hiff in Hin. destruct Hin as [E|Hin]; [lia|].
           specialize (Hr i Hin). lia.
        -- destruct (Nat.eqb_spec r i) as [->|Hne2].
           ++ symmetry. apply mem_In. apply Hiff. now left.
           ++ rewrite IH; auto.
              ** unfold mem. simpl. destruct (Nat.eqb_spec j c); [lia|reflexivity].
              ** rewrite <- Hrow, Hiff. simpl. intuition.
Qed.

Lemma ssorted_remove1 x : forall l, ssorted l ->
  ssorted (remove1 x l) /\ (forall y, In y (remove1 x l) <-> In y l /\ y <> x) /\
  (In x l -> S (length (remove1 x l)) = length l).
Proof.
  induction l as [|a t IH]; simpl; intros Hs.
  { split; [exact I|]. split; [intros y; tauto|intros []]. }
  destruct Hs as (Ha & Ht). destruct (IH Ht) as (Hs' & Hm & Hl).
  destruct (Nat.eqb_spec a x) as [->|Hne]; simpl.
  - split; [exact Hs'|]. split.
    + intros y. rewrite Hm. split; [intros (A & B); auto|]. intros ([E|A] & B); [congruence|auto].
    + intros _. f_equal.
      assert (Hnx : ~ In x t) by (intros Hin; specialize (Ha x Hin); lia).
      clear -Hnx. induction t as [|b t IHt]; simpl; auto.
      destruct (Nat.eqb_spec b x) as [->|]; simpl; [exfalso; apply Hnx; now left|].
      f_equal. apply IHt. intros H. apply Hnx. now right.
  - split; [|split].
    + simpl. split; [|exact Hs']. intros y Hy. apply Hm in Hy. apply Ha. tauto.
    + intros y. simpl. rewrite Hm. split; [intros [<-|(A & B)]; auto|]. intros ([<-|A] & B); auto.
    + intros [E|Hin]; [congruence|]. simpl. f_equal. auto.
Qed.

Lemma BLOCK_pos : 0 < BLOCK.  Proof. unfold BLOCK. apply Nat.lt_0_succ. Qed.
Global Opaque BLOCK.

(* ---------- well-formed matrices ---------- *)
Definition total (m : smat) : nat := list_sum (map (@length nat) (rws m)).

Record WF (m : smat) : Prop := {
  wf_rl : length (rws m) = nr m;
  wf_cl : length (cls m) = nc m;
  wf_rs : forall i, i < nr m -> ssorted (nth i (rws m) []) /\ forall j, In j (nth i (rws m) []) -> j < nc m;
  wf_cs : forall j, j < nc m -> ssorted (nth j (cls m) []) /\ forall i, In i (nth j (cls m) []) -> i < nr m;
  wf_cons : forall i j, i < nr m -> j < nc m -> (In j (nth i (rws m) []) <-> In i (nth j (cls m) []));
  wf_pool : nblocks m * BLOCK = nfree m + total m }.

(* the abstract set: (i, j) is an entry *)
Definition has (m : smat) (i j : nat) : bool := mem j (nth i (rws m) []).

Lemma nth_repeat_nil {A} k i : nth i (repeat (@nil A) k) [] = [].
Proof. revert i; induction k; intros [|i]; simpl; auto. Qed.
Lemma list_sum_repeat0 k : list_sum (map (@length nat) (repeat [] k)) = 0.
Proof. induction k; simpl; auto. Qed.

Lemma allocate_wf r c : WF (s_allocate r c) /\ forall i j, has (s_allocate r c) i j = false.
Proof.
  split; [constructor; simpl; rewrite ?repeat_length; auto|].
  - intros i Hi. rewrite nth_repeat_nil. simpl. tauto.
  - intros j Hj. rewrite nth_repeat_nil. simpl. tauto.
  - intros i j _ _. rewrite !nth_repeat_nil. simpl. tauto.
  - unfold total. simpl. now rewrite list_sum_repeat0.
  - intros i j. unfold has. simpl. now rewrite nth_repeat_nil.
Qed.

Lemma clear_wf m : WF (s_clear m) /\ forall i j, has (s_clear m) i j = false.
Proof.
  split; [constructor; simpl; rewrite ?repeat_length; auto|].
  - intros i Hi. rewrite nth_repeat_nil. simpl. tauto.
  - intros j Hj. rewrite nth_repeat_nil. simpl. tauto.
  - intros i j _ _. rewrite !nth_repeat_nil. simpl. tauto.
  - unfold total. simpl. now rewrite list_sum_repeat0.
  - intros i j. unfold has. simpl. now rewrite nth_repeat_nil.
Qed.

Lemma total_upd (l : list (list nat)) i x : i < length l ->
  list_sum (map (@length nat) (upd l i x)) + length (nth i l []) = list_sum (map (@length nat) l) + length x.
Proof.
  revert i. induction l as [|a t IH]; intros [|i] Hi; simpl in *; try lia.
  specialize (IH i ltac:(lia)). lia.
Qed.

Lemma nth_upd (l : list (list nat)) i k x : i < length l ->
  nth k (upd l i x) [] = if k =? i then x else nth k l [].
Proof.
  intros Hi. destruct (Nat.eqb_spec k i) as [->|Hne]; [apply nth_upd_eq; exact Hi|apply nth_upd_neq; lia].
Qed.

(* find = membership *)
Theorem find_spec m i j : WF m -> i < nr m -> j < nc m -> s_find m i j = Some (has m i j).
Proof.
  intros W Hi Hj. unfold s_find, has.
  destruct (Nat.leb_spec (nr m) i); [lia|]. destruct (Nat.leb_spec (nc m) j); [lia|]. simpl. f_equal.
  destruct (wf_rs m W i Hi) as (Hsr & _). destruct (wf_cs m W j Hj) as (Hsc & _).
  pose proof (wf_cons m W i j Hi Hj) as Hiff.
  set (row := nth i (rws m) []) in *. set (col := nth j (cls m) []) in *.
  pose proof (last_opt_spec row Hsr) as HLr. destruct (last_opt row) as [lc|].
  - destruct HLr as (Hlc & Hmaxr). destruct (Nat.ltb_spec lc j) as [Hlt|Hge].
    + symmetry. apply mem_false. intros Hin. specialize (Hmaxr j Hin). lia.
    + destruct (Nat.eqb_spec lc j) as [->|Hne]; [symmetry; now apply mem_In|].
      pose proof (last_opt_spec col Hsc) as HLc. destruct (last_opt col) as [lr|].
      * destruct HLc as (Hlr & Hmaxc). destruct (Nat.ltb_spec lr i) as [Hlt2|Hge2].
        -- symmetry. apply mem_false. intros Hin. apply Hiff in Hin. specialize (Hmaxc i Hin). lia.
        -- destruct (Nat.eqb_spec lr i) as [->|Hne2]; [symmetry; apply mem_In, Hiff; exact Hlr|].
           apply find_walk_spec; auto.
      * symmetry. apply mem_false. intros Hin. apply Hiff in Hin. rewrite HLc in Hin. inversion Hin.
  - rewrite HLr. reflexivity.
Qed.

(* insert: the set gains exactly (i, j); well-formedness (sortedness of every traversal, row/column
   agreement, pool accounting) is preserved; never "garbled" *)
Theorem insert_spec m i j : WF m -> i < nr m -> j < nc m ->
  let '(m', st) := s_insert m i j in
  WF m' /\ nr m' = nr m /\ nc m' = nc m /\
  (forall i' j', has m' i' j' = has m i' j' || ((i' =? i) && (j' =? j))) /\
  (st = if has m i j then Existed else Inserted).
Proof.
  intros W Hi Hj. unfold s_insert.
  destruct (Nat.leb_spec (nr m) i); [lia|]. destruct (Nat.leb_spec (nc m) j); [lia|]. simpl.
  destruct (wf_rs m W i Hi) as (Hsr & Hrr). destruct (wf_cs m W j Hj) as (Hsc & Hrc).
  pose proof (wf_cons m W i j Hi Hj) as Hiff.
  rewrite (ins_fast_walk j _ Hsr). pose proof (ins_walk_spec j _ Hsr) as HR.
  destruct (ins_walk j (nth i (rws m) [])) as [row'|].
  2:{ split; [exact W|]. split; [auto|]. split; [auto|]. unfold has. apply mem_In in HR. split.
      - intros i' j'. destruct (Nat.eqb_spec i' i) as [->|]; simpl; [|now rewrite orb_false_r].
        destruct (Nat.eqb_spec j' j) as [->|]; simpl; [now rewrite HR|now rewrite orb_false_r].
      - now rewrite HR. }
  destruct HR as (Hnin & Hsr' & Hmr & Hlr).
  rewrite (ins_fast_walk i _ Hsc). pose proof (ins_walk_spec i _ Hsc) as HC.
  destruct (ins_walk i (nth j (cls m) [])) as [col'|]; [|exfalso; apply Hnin, Hiff, HC].
  destruct HC as (_ & Hsc' & Hmc & Hlc).
  assert (Hpool : let '(nb, nf) := pool_take m in nb * BLOCK = nf + S (total m)).
  { unfold pool_take. pose proof (wf_pool m W) as Hp. pose proof BLOCK_pos as Hb.
    destruct (Nat.eqb_spec (nfree m) 0) as [E|E]; lia. }
  destruct (pool_take m) as [nb nf].
  assert (Hhas : forall i' j', mem j' (nth i' (upd (rws m) i row') []) = mem j' (nth i' (rws m) []) || ((i' =? i) && (j' =? j))).
  { intros i' j'. rewrite nth_upd by (rewrite (wf_rl m W); exact Hi).
    destruct (Nat.eqb_spec i' i) as [->|]; simpl; [|now rewrite orb_false_r].
    destruct (Nat.eqb_spec j' j) as [->|Hne]; simpl.
    - rewrite orb_true_r. apply mem_In, Hmr. now left.
    - rewrite orb_false_r. destruct (mem j' (nth i (rws m) [])) eqn:E.
      + apply mem_In. apply Hmr. right. now apply mem_In.
      + apply mem_false. intros Hin. apply Hmr in Hin as [->|Hin]; [congruence|]. apply mem_false in E. tauto. }
  split; [|split; [reflexivity|split; [reflexivity|split]]].
  - constructor; simpl.
    + rewrite upd_length. apply (wf_rl m W).
    + rewrite upd_length. apply (wf_cl m W).
    + intros i' Hi'. rewrite nth_upd by (rewrite (wf_rl m W); exact Hi).
      destruct (Nat.eqb_spec i' i) as [->|]; [|apply (wf_rs m W i' Hi')].
      split; [exact Hsr'|]. intros j' Hj'. apply Hmr in Hj' as [->|Hj']; auto.
    + intros j' Hj'. rewrite nth_upd by (rewrite (wf_cl m W); exact Hj).
      destruct (Nat.eqb_spec j' j) as [->|]; [|apply (wf_cs m W j' Hj')].
      split; [exact Hsc'|]. intros i' Hi'. apply Hmc in Hi' as [->|Hi']; auto.
    + intros i' j' Hi' Hj'. rewrite !nth_upd by (rewrite ?(wf_rl m W), ?(wf_cl m W); assumption).
      pose proof (wf_cons m W i' j' Hi' Hj') as Hc'.
      destruct (Nat.eqb_spec i' i) as [->|Hni], (Nat.eqb_spec j' j) as [->|Hnj].
      * rewrite Hmr, Hmc. tauto.
      * rewrite Hmr. rewrite <- (wf_cons m W i j' Hi Hj'). intuition.
      * rewrite Hmc. rewrite (wf_cons m W i' j Hi' Hj). intuition.
      * exact Hc'.
    + unfold total. simpl. pose proof (total_upd (rws m) i row' ltac:(rewrite (wf_rl m W); exact Hi)) as Ht.
      unfold total in Hpool. lia.
  - intros i' j'. unfold has. simpl. apply Hhas.
  - unfold has. destruct (mem j (nth i (rws m) [])) eqn:E; [apply mem_In in E; tauto|reflexivity].
Qed.

Corollary insert_idempotent m i j : WF m -> i < nr m -> j < nc m -> has m i j = true -> s_insert m i j = (m, Existed).
Proof.
  intros W Hi Hj Hh. unfold s_insert.
  destruct (Nat.leb_spec (nr m) i); [lia|]. destruct (Nat.leb_spec (nc m) j); [lia|]. simpl.
  destruct (wf_rs m W i Hi) as (Hsr & _). rewrite (ins_fast_walk j _ Hsr).
  pose proof (ins_walk_spec j _ Hsr) as HR. destruct (ins_walk j (nth i (rws m) [])); [|reflexivity].
  unfold has in Hh. apply mem_In in Hh. tauto.
Qed.

(* delete *)
Theorem delete_spec m i j : WF m -> i < nr m -> j < nc m ->
  WF (s_delete m i j) /\ (forall i' j', has (s_delete m i j) i' j' = has m i' j' && negb ((i' =? i) && (j' =? j))).
Proof.
  intros W Hi Hj. unfold s_delete. destruct (mem j (nth i (rws m) [])) eqn:E.
  2:{ split; [exact W|]. intros i' j'. unfold has.
      destruct (Nat.eqb_spec i' i) as [->|]; simpl; [|now rewrite andb_true_r].
      destruct (Nat.eqb_spec j' j) as [->|]; simpl; [now rewrite E|now rewrite andb_true_r]. }
  apply mem_In in E.
  destruct (wf_rs m W i Hi) as (Hsr & Hrr). destruct (wf_cs m W j Hj) as (Hsc & Hrc).
  destruct (ssorted_remove1 j _ Hsr) as (Hsr' & Hmr & Hlr).
  destruct (ssorted_remove1 i _ Hsc) as (Hsc' & Hmc & Hlc).
  split.
  - constructor; simpl.
    + rewrite upd_length. apply (wf_rl m W).
    + rewrite upd_length. apply (wf_cl m W).
    + intros i' Hi'. rewrite nth_upd by (rewrite (wf_rl m W); exact Hi).
      destruct (Nat.eqb_spec i' i) as [->|]; [|apply (wf_rs m W i' Hi')].
      split; [exact Hsr'|]. intros j' Hj'. apply Hmr in Hj'. apply Hrr. tauto.
    + intros j' Hj'. rewrite nth_upd by (rewrite (wf_cl m W); exact Hj).
      destruct (Nat.eqb_spec j' j) as [->|]; [|apply (wf_cs m W j' Hj')].
      split; [exact Hsc'|]. intros i' Hi'. apply Hmc in Hi'. apply Hrc. tauto.
    + intros i' j' Hi' Hj'. rewrite !nth_upd by (rewrite ?(wf_rl m W), ?(wf_cl m W); assumption).
      pose proof (wf_cons m W i' j' Hi' Hj') as Hc'.
      destruct (Nat.eqb_spec i' i) as [->|Hni], (Nat.eqb_spec j' j) as [->|Hnj].
      * rewrite Hmr, Hmc. tauto.
      * rewrite Hmr. rewrite <- (wf_cons m W i j' Hi Hj'). intuition.
      * rewrite Hmc. rewrite (wf_cons m W i' j Hi' Hj). intuition.
      * exact Hc'.
    + unfold total. simpl. pose proof (total_upd (rws m) i (remove1 j (nth i (rws m) [])) ltac:(rewrite (wf_rl m W); exact Hi)) as Ht.
      pose proof (wf_pool m W) as Hp. unfold total in Hp. specialize (Hlr E). lia.
  - intros i' j'. unfold has. simpl. rewrite nth_upd by (rewrite (wf_rl m W); exact Hi).
    destruct (Nat.eqb_spec i' i) as [->|]; simpl; [|now rewrite andb_true_r].
    destruct (Nat.eqb_spec j' j) as [->|Hne]; simpl.
    + rewrite andb_false_r. apply mem_false. intros Hin. apply Hmr in Hin. tauto.
    + rewrite andb_true_r. destruct (mem j' (nth i (rws m) [])) eqn:E2.
      * apply mem_In. apply Hmr. split; [now apply mem_In|exact Hne].
      * apply mem_false. intros Hin. apply Hmr in Hin. apply mem_false in E2. tauto.
Qed.

(* bulk insertion (copy, copyrows, copycols, copy_filled_matrix, dense -> sparse) *)
Theorem insert_all_spec : forall es r, WF r -> (forall e, In e es -> fst e < nr r /\ snd e < nc r) ->
  WF (insert_all r es) /\ nr (insert_all r es) = nr r /\ nc (insert_all r es) = nc r /\
  forall i j, has (insert_all r es) i j = has r i j || existsb (fun e => (i =? fst e) && (j =? snd e)) es.
Proof.
  induction es as [|e es IH]; intros r W Hr; simpl.
  - split; [exact W|]. split; [reflexivity|]. split; [reflexivity|]. intros. now rewrite orb_false_r.
  - destruct (Hr e (or_introl eq_refl)) as (H1 & H2).
    pose proof (insert_spec r (fst e) (snd e) W H1 H2) as HI.
    destruct (s_insert r (fst e) (snd e)) as [r' st]. destruct HI as (W' & Er & Ec & Hh & _). simpl.
    destruct (IH r' W') as (W'' & Er' & Ec' & Hh').
    { intros e' He'. rewrite Er, Ec. apply Hr. now right. }
    split; [exact W''|]. split; [congruence|]. split; [congruence|].
    intros i j. rewrite Hh', Hh, orb_assoc. reflexivity.
Qed.

(* traversals: every row and column list of a well-formed matrix is strictly increasing and
   enumerates exactly that row's / column's entries *)
Theorem traversals_sorted m : WF m ->
  (forall i, i < nr m -> ssorted (nth i (rws m) []) /\ forall j, In j (nth i (rws m) []) <-> has m i j = true) /\
  (forall j, j < nc m -> ssorted (nth j (cls m) []) /\ forall i, i < nr m -> (In i (nth j (cls m) []) <-> has m i j = true)).
Proof.
  intros W. split.
  - intros i Hi. split; [apply (wf_rs m W i Hi)|]. intros j. unfold has. now rewrite mem_In.
  - intros j Hj. split; [apply (wf_cs m W j Hj)|]. intros i Hi. unfold has. rewrite mem_In. symmetry. apply (wf_cons m W i j Hi Hj).
Qed.

(* entries m enumerates exactly the set *)
Lemma entries_spec m i j : In (i, j) (entries m) <-> i < nr m /\ In j (nth i (rws m) []).
Proof.
  unfold entries. rewrite in_flat_map. split.
  - intros (i' & Hi' & Hin). apply in_seq in Hi'. apply in_map_iff in Hin as (j' & E & Hj'). inversion E; subst. split; [lia|exact Hj'].
  - intros (Hi & Hj). exists i. split; [apply in_seq; lia|]. apply in_map_iff. exists j. auto.
Qed.

Lemma existsb_pair (es : list (nat * nat)) i j :
  existsb (fun e => (i =? fst e) && (j =? snd e)) es = true <-> In (i, j) es.
Proof.
  rewrite existsb_exists. split.
  - intros ((a, b) & Hin & E). simpl in E. apply andb_true_iff in E as (E1 & E2).
    apply Nat.eqb_eq in E1. apply Nat.eqb_eq in E2. subst. exact Hin.
  - intros Hin. exists (i, j). simpl. rewrite !Nat.eqb_refl. auto.
Qed.

(* of_mod2sparse_copy: afterwards r holds exactly the entries of m *)
Theorem copy_spec m r : WF m -> WF r -> nr m <= nr r -> nc m <= nc r ->
  WF (s_copy m r) /\ forall i j, has (s_copy m r) i j = (i <? nr m) && has m i j.
Proof.
  intros Wm Wr Hr Hc. unfold s_copy.
  destruct (Nat.ltb_spec (nr r) (nr m)); [lia|]. destruct (Nat.ltb_spec (nc r) (nc m)); [lia|]. simpl.
  destruct (clear_wf r) as (Wc & Hc0).
  destruct (insert_all_spec (entries m) (s_clear r) Wc) as (W' & _ & _ & Hh).
  { intros (i, j) He. apply entries_spec in He as (Hi & Hj). simpl.
    destruct (wf_rs m Wm i Hi) as (_ & Hrange). specialize (Hrange j Hj). lia. }
  split; [exact W'|]. intros i j. rewrite Hh, Hc0. simpl.
  destruct (Nat.ltb_spec i (nr m)) as [Hi|Hi]; simpl.
  - unfold has. destruct (mem j (nth i (rws m) [])) eqn:E.
    + apply existsb_pair, entries_spec. split; [exact Hi|now apply mem_In].
    + destruct (existsb _ (entries m)) eqn:E2; [|reflexivity].
      apply existsb_pair, entries_spec in E2. apply mem_false in E. tauto.
  - destruct (existsb _ (entries m)) eqn:E2; [|reflexivity].
    apply existsb_pair, entries_spec in E2. lia.
Qed.

(* pool: the free list plus the live entries account for every entry of every block, so freeing the
   blocks releases everything; after clear nothing is left *)
Theorem pool_accounting m : WF m -> nblocks m * BLOCK = nfree m + total m.
Proof. intros W. apply (wf_pool m W). Qed.
