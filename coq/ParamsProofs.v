From Coq Require Import ZArith Bool Lia ZifyBool.
From OFV Require Import Params.
From OFV.gen Require Import GenConsts.
Local Open Scope Z_scope.

Lemma accept_ldpc_iff_limits_proof k r L n1 seed :
  0 <= k < 2^32 -> 0 <= r < 2^32 -> accept_ldpc k r L n1 seed = limits_ldpc k r L n1 seed.
Proof.
  intros Hk Hr. unfold accept_ldpc, limits_ldpc, u32, c_ldpc_max_k, c_ldpc_max_n.
  change (2 ^ 32) with 4294967296 in *.
  destruct (Z_lt_le_dec (k + r) 4294967296) as [Hs|Hs].
  - rewrite (Z.mod_small (k + r)) by lia. lia.
  - assert (E : (k + r) mod 4294967296 = k + r - 4294967296).
    { symmetry. apply Z.mod_unique with 1; lia. }
    rewrite E. lia.
Qed.

Lemma accept_rs28_iff_limits_proof k r L : 0 <= k -> 0 <= r -> accept_rs28 k r L = limits_rs28 k r L.
Proof. intros Hk Hr. unfold accept_rs28, limits_rs28, c_rs28_max_k, c_rs28_max_n. lia. Qed.

(* RS over GF(2^m): n is never compared with the field size.  Full statement wanted:
   accept_rs2m = limits_rs2m; it is FALSE of the faithful model (and of the C): *)
Lemma accept_rs2m_refuted_proof : exists m k r L, accept_rs2m m k r L = true /\ limits_rs2m m k r L = false.
Proof. exists 4, 1, 23, 1024. split; reflexivity. Qed.   (* the configuration of test RS_2m_4.src1 *)

(* ... and holds outside that class *)
Lemma accept_rs2m_outside_class_proof m k r L : 0 <= k -> 0 <= r ->
  (k + r <= 2 ^ m - 1 \/ accept_rs2m m k r L = false) -> accept_rs2m m k r L = limits_rs2m m k r L.
Proof.
  intros Hk Hr H. unfold accept_rs2m, limits_rs2m in *.
  destruct (Z.eq_dec m 4) as [->|N4]; [change (2 ^ 4 - 1) with 15 in *; lia|].
  destruct (Z.eq_dec m 8) as [->|N8]; [change (2 ^ 8 - 1) with 255 in *; lia|].
  replace (m =? 4) with false by lia. replace (m =? 8) with false by lia. reflexivity.
Qed.

(* every accepted LDPC configuration satisfies the premises of the LDPC theorems *)
Lemma accept_ldpc_valid_proof k r L n1 seed : 0 <= k < 2^32 -> 0 <= r < 2^32 -> accept_ldpc k r L n1 seed = true ->
  1 <= k /\ 3 <= n1 <= r /\ 1 <= L /\ 1 <= seed <= 2147483646 /\ k + r <= 50000.
Proof.
  intros Hk Hr H. rewrite accept_ldpc_iff_limits_proof in H by assumption. unfold limits_ldpc, c_ldpc_max_k, c_ldpc_max_n in H. lia.
Qed.
