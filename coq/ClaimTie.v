(* C15: what OF_CRTL_LDPC_STAIRCASE_IS_LAST_SYMBOL_NULL answers IS the claim the theorems are about.  gen/GenClaim.v is
   regenerated on every run from that case of of_ldpc_staircase_get_control_parameter (tools/gen_params.py).  For every N1 a
   UINT8 can hold and the two values the construction stores in extra_entries_added_in_pchk (0, 1) the C answers
   last_symbol_null_claim N1 extra.  The comparison `== true` is kept as the C has it: a stored value other than 0 or 1
   would read as "no extra entry" (the closed example below; seed C15f stored the count). *)
From Coq Require Import ZArith Arith List Bool Lia.
From OFV Require Import CSem Pchk.
From OFV.gen Require Import GenClaim.
Import ListNotations.
Local Open Scope Z_scope.

Definition claim_ok (n1 : nat) (e : bool) : bool :=
  match is_last_symbol_null_case (Z.of_nat n1) (if e then 1 else 0) with
  | Some v => Z.eqb v (if last_symbol_null_claim n1 e then 1 else 0)
  | None => false
  end.

Lemma claim_sweep : forallb (fun n1 => claim_ok n1 true && claim_ok n1 false) (seq 0 256) = true.
Proof. vm_compute. reflexivity. Qed.

Theorem is_last_symbol_null_answers_the_claim : forall (n1 : nat) (extra : bool), (n1 < 256)%nat ->
  is_last_symbol_null_case (Z.of_nat n1) (if extra then 1 else 0) = Some (if last_symbol_null_claim n1 extra then 1 else 0).
Proof.
  intros n1 extra H.
  pose proof (proj1 (forallb_forall _ _) claim_sweep n1) as S.
  assert (I : In n1 (seq 0 256)) by (apply in_seq; lia).
  specialize (S I). apply andb_true_iff in S as (S1 & S2).
  assert (C : claim_ok n1 extra = true) by (destruct extra; assumption).
  unfold claim_ok in C. destruct (is_last_symbol_null_case (Z.of_nat n1) (if extra then 1 else 0)) as [v|]; [|discriminate].
  apply Z.eqb_eq in C. now subst.
Qed.

(* the flag is compared with `true` (= 1): any other stored value reads as "nothing added" *)
Example a_flag_value_of_two_reads_as_no_extra_entry : is_last_symbol_null_case 4 2 = Some 1.
Proof. reflexivity. Qed.

Print Assumptions is_last_symbol_null_answers_the_claim.
