(* C16: the generic decoder/encoder theorems instantiated with the 2D parity matrix model (Pchk2D.v). *)
From Coq Require Import List Arith Bool Lia.
From OFV Require Import ListAux XorGroup LdpcEnc ITModel ITLemmas ITProofs ITCorollaries Pchk2D MLModel MLFinish MLSession.
Import ListNotations.

Section P2D.
Variable Sy : Type. Variable sxor : Sy -> Sy -> Sy. Variable s0 : Sy.
Hypothesis sxor_assoc : forall a b c, sxor a (sxor b c) = sxor (sxor a b) c.
Hypothesis sxor_comm : forall a b, sxor a b = sxor b a.
Hypothesis sxor_0_l : forall a, sxor s0 a = a.
Hypothesis sxor_nilp : forall a, sxor a a = s0.
Variables d l : nat.
Hypothesis d_pos : 1 <= d. Hypothesis l_pos : 1 <= l.
Let H := rows2d d l. Let R := d + l. Let N := d * l + d + l.

Lemma hl : length H = R.  Proof. apply p2d_len; assumption. Qed.
Lemma hnd : forall i, i < R -> NoDup (nth i H []).  Proof. apply p2d_nodup; assumption. Qed.
Lemma hrg : forall i c, i < R -> In c (nth i H []) -> c < N.  Proof. apply p2d_range; assumption. Qed.
Lemma hdg : forall i, i < R -> 2 <= length (nth i H []).  Proof. apply p2d_deg; assumption. Qed.
Lemma hrn : R <= N.  Proof. apply p2d_R_le_N; assumption. Qed.

Lemma p2d_encode_zero_sum (tab : nat -> Sy) :
  let t' := encode_all Sy sxor s0 R H tab in
  (forall c, c < R -> rowsum Sy sxor s0 t' (nth c H []) = s0) /\ (forall x, R <= x -> t' x = tab x).
Proof. apply ldpc_encode_zero_sum_proof; auto. apply p2d_stair; assumption. Qed.

Lemma p2d_decoder_values (cw : nat -> Sy) :
  (forall i, i < R -> fold_right sxor s0 (map cw (nth i H [])) = s0) ->
  forall fuel (hist : list (nat * Sy)) (s : st Sy),
  (forall ev, In ev hist -> fst ev < N /\ snd ev = cw (fst ev)) -> run Sy sxor s0 H R N fuel hist = Some s ->
  forall c v, nth c (tab s) None = Some v -> v = cw c.
Proof.
  intros Hp. apply (run_values Sy sxor s0 H R N hl hnd hrg hdg hrn
                     sxor_assoc sxor_comm sxor_0_l sxor_nilp cw Hp).
Qed.

Lemma p2d_decoder_is_peeling (hist : list (nat * Sy)) :
  (forall ev, In ev hist -> fst ev < N) ->
  exists s, run Sy sxor s0 H R N (S N) hist = Some s /\
    let Rc := fun e => In e (map fst hist) in
    (forall c, R <= c < N -> (known s c = true <-> peel H R Rc c)) /\
    ((forall c, R <= c < N -> known s c = true) <-> (forall c, R <= c < N -> peel H R Rc c)).
Proof.
  apply (it_closure_full Sy sxor s0 H R N hl hnd hrg hdg hrn).
Qed.

(* any single loss is recovered by the streaming decoder, whatever the arrival order *)
Lemma p2d_any_single_loss_recovered (e : nat) (hist : list (nat * Sy)) :
  e < N -> (forall ev, In ev hist -> fst ev < N) -> (forall c, c < N -> c <> e -> In c (map fst hist)) ->
  exists s, run Sy sxor s0 H R N (S N) hist = Some s /\ fst (is_complete s) = true /\ forall c, R <= c < N -> known s c = true.
Proof.
  intros He Hr Hall. destruct (p2d_decoder_is_peeling hist Hr) as (s & Hs & Hk & _). exists s. split; [exact Hs|].
  assert (Hsrc : forall c, R <= c < N -> known s c = true).
  { intros c Hc. apply Hk; [exact Hc|].
    assert (Hp : peel H R (fun c' => c' < N /\ c' <> e) c) by (apply p2d_single_loss; auto; lia).
    revert Hp. apply peel_ext. intros c' (A & B). apply Hall; assumption. }
  split; [|exact Hsrc].
  apply (run_complete_flag Sy sxor s0 H R N hl hnd hrg hdg hrn (S N) hist s Hr Hs).
  exact Hsrc.
Qed.
(* of_finish_decoding (ML) on the 2D matrix: sound, truthful, and it recovers exactly the patterns the
   checks determine uniquely *)
Lemma hcov : forall c, c < N -> exists i, i < R /\ In c (nth i H []).  Proof. apply p2d_covered; assumption. Qed.
Lemma hst : stair R H.  Proof. apply p2d_stair; assumption. Qed.

Lemma p2d_session_finish (Hnt : exists a : Sy, a <> s0) (cw : nat -> Sy) :
  (forall i, i < R -> fold_right sxor s0 (map cw (nth i H [])) = s0) ->
  forall (hist : list (nat * Sy)) (s : st Sy) (fuel : nat) (perm : list nat) (o : outcome Sy),
  (forall ev, In ev hist -> fst ev < N /\ snd ev = cw (fst ev)) ->
  run Sy sxor s0 H R N (S N) hist = Some s ->
  N < fuel -> (forall c, c < R -> In c perm) -> (forall c, In c perm -> c < R) ->
  ml_finish sxor s0 fuel perm s = Some o ->
  (forall c v, nth c (tab (o_st o)) None = Some v -> v = cw c) /\
  (forall c x, nth c (tab s) None = Some x -> nth c (tab (o_st o)) None = Some x) /\
  (o_ok o = true <-> (forall c, R <= c < N -> known (o_st o) c = true)) /\
  ((forall c, R <= c < N -> known (o_st o) c = true) <->
   (forall z : nat -> bool, (forall i, i < R -> fold_right xorb false (map z (nth i H [])) = false) ->
      (forall c, In c (map fst hist) -> z c = false) -> forall c, R <= c < N -> z c = false)).
Proof.
  intros Hp. exact (ldpc_session_finish Sy sxor s0 sxor_assoc sxor_comm sxor_0_l sxor_nilp H R N hl hnd hrg hdg hrn hcov hst Hnt cw Hp).
Qed.

Lemma p2d_session_total (Hnt : exists a : Sy, a <> s0) (cw : nat -> Sy) :
  (forall i, i < R -> fold_right sxor s0 (map cw (nth i H [])) = s0) ->
  forall (hist : list (nat * Sy)) (fuel : nat) (perm : list nat),
  (forall ev, In ev hist -> fst ev < N /\ snd ev = cw (fst ev)) ->
  N < fuel -> (forall c, c < R -> In c perm) -> (forall c, In c perm -> c < R) ->
  exists (s : st Sy) (o : outcome Sy), run Sy sxor s0 H R N (S N) hist = Some s /\ ml_finish sxor s0 fuel perm s = Some o.
Proof.
  intros Hp. exact (ldpc_session_total Sy sxor s0 sxor_assoc sxor_comm sxor_0_l sxor_nilp H R N hl hnd hrg hdg hrn hcov hst Hnt cw Hp).
Qed.
End P2D.
