(* C16 — 2D parity codec.  Model: Pchk2D.v (matrix construction of of_create_2D_pchk_matrix /
   of_fill_2D_pchk_matrix on the sparse-matrix model, argument swap included), decoded through the
   generic streaming decoder model (ITModel.v) and encoded by the generic staircase-shaped builder
   (LdpcEnc.v) - in the C, codec 5 uses the same engines through a pointer cast.
   Theorems, for ALL d, l >= 1 (no bound on k or n):
   - structure: each check has its own repair symbol and no other; every source symbol is in exactly
     one row check and one column check; the closed form of every row;
   - the parameter search accepts (r, n) only with a product shape and builds exactly that matrix;
   - encoder: after building the repair symbols every check sums to zero, sources untouched;
   - decoder: every symbol the streaming decoder holds equals the codeword's; what it makes available
     is exactly the peeling closure of the received set (any order, duplicates); any single loss is
     recovered, whatever the order of arrival.
   - of_finish_decoding (the ML model of C03 on this matrix): the session always returns, never holds
     a wrong symbol, reports OK iff all sources are available, and that happens iff the checks determine
     the sources uniquely given the received set (every GF(2) kernel vector of the matrix vanishing on
     the received set vanishes on the sources).
   Not a theorem: release without leak (run-time allocation accounting on the compiled C).
   The matrix model is compared with the C for every (k, n-k) of the property's domain, and every
   session is replayed on the extracted decoder models. *)
From Coq Require Import Arith List Bool.
From OFV Require Import ListAux Sparse Pchk XorGroup LdpcEnc ITModel ITProofs MLModel Pchk2D P2DProofs.
Import ListNotations.

Theorem p2d_each_check_has_its_own_repair :
  forall d l, 1 <= d -> 1 <= l -> forall i c, i < d + l -> c < d + l -> (In c (nth i (rows2d d l) []) <-> c = i).
Proof. exact p2d_own_repair. Qed.

Theorem p2d_each_source_in_one_row_check_and_one_column_check :
  forall d l, 1 <= d -> 1 <= l -> forall a b, a < d -> b < l -> forall i, i < d + l ->
  (In (d + l + a * l + b) (nth i (rows2d d l) []) <-> i = a \/ i = d + b).
Proof. exact p2d_source_checks. Qed.

Theorem p2d_accepts_only_product_shapes :
  forall r n d l m, create2d r n = Some (d, l, m) -> m = fill2d d l /\ d + l = r /\ d * l + d + l = n /\ 1 <= d /\ 1 <= l.
Proof. exact create2d_spec. Qed.

Theorem p2d_encoder_satisfies_every_check :
  forall (Sy : Type) (sxor : Sy -> Sy -> Sy) (s0 : Sy),
  (forall a b c, sxor a (sxor b c) = sxor (sxor a b) c) -> (forall a b, sxor a b = sxor b a) -> (forall a, sxor a a = s0) ->
  forall d l, 1 <= d -> 1 <= l -> forall tab : nat -> Sy,
  let t' := encode_all Sy sxor s0 (d + l) (rows2d d l) tab in
  (forall c, c < d + l -> rowsum Sy sxor s0 t' (nth c (rows2d d l) []) = s0) /\ (forall x, d + l <= x -> t' x = tab x).
Proof. exact p2d_encode_zero_sum. Qed.

Theorem p2d_decoder_never_returns_a_wrong_symbol :
  forall (Sy : Type) (sxor : Sy -> Sy -> Sy) (s0 : Sy),
  (forall a b c, sxor a (sxor b c) = sxor (sxor a b) c) -> (forall a b, sxor a b = sxor b a) ->
  (forall a, sxor s0 a = a) -> (forall a, sxor a a = s0) ->
  forall d l, 1 <= d -> 1 <= l -> forall cw : nat -> Sy,
  (forall i, i < d + l -> fold_right sxor s0 (map cw (nth i (rows2d d l) [])) = s0) ->
  forall fuel (hist : list (nat * Sy)) (s : st Sy),
  (forall ev, In ev hist -> fst ev < d * l + d + l /\ snd ev = cw (fst ev)) ->
  run Sy sxor s0 (rows2d d l) (d + l) (d * l + d + l) fuel hist = Some s ->
  forall c v, nth c (tab s) None = Some v -> v = cw c.
Proof. exact p2d_decoder_values. Qed.

Theorem p2d_streaming_decoder_is_the_peeling_closure :
  forall (Sy : Type) (sxor : Sy -> Sy -> Sy) (s0 : Sy) d l, 1 <= d -> 1 <= l -> forall hist : list (nat * Sy),
  (forall ev, In ev hist -> fst ev < d * l + d + l) ->
  exists s, run Sy sxor s0 (rows2d d l) (d + l) (d * l + d + l) (S (d * l + d + l)) hist = Some s /\
    let Rc := fun e => In e (map fst hist) in
    (forall c, d + l <= c < d * l + d + l -> (known s c = true <-> peel (rows2d d l) (d + l) Rc c)) /\
    ((forall c, d + l <= c < d * l + d + l -> known s c = true) <-> (forall c, d + l <= c < d * l + d + l -> peel (rows2d d l) (d + l) Rc c)).
Proof. exact p2d_decoder_is_peeling. Qed.

Theorem p2d_any_single_loss_is_recovered :
  forall (Sy : Type) (sxor : Sy -> Sy -> Sy) (s0 : Sy) d l, 1 <= d -> 1 <= l -> forall (e : nat) (hist : list (nat * Sy)),
  e < d * l + d + l -> (forall ev, In ev hist -> fst ev < d * l + d + l) ->
  (forall c, c < d * l + d + l -> c <> e -> In c (map fst hist)) ->
  exists s, run Sy sxor s0 (rows2d d l) (d + l) (d * l + d + l) (S (d * l + d + l)) hist = Some s /\
            fst (is_complete s) = true /\ forall c, d + l <= c < d * l + d + l -> known s c = true.
Proof. exact p2d_any_single_loss_recovered. Qed.

Theorem p2d_finish_recovers_exactly_the_determined_patterns :
  forall (Sy : Type) (sxor : Sy -> Sy -> Sy) (s0 : Sy),
  (forall a b c, sxor a (sxor b c) = sxor (sxor a b) c) -> (forall a b, sxor a b = sxor b a) ->
  (forall a, sxor s0 a = a) -> (forall a, sxor a a = s0) ->
  forall d l, 1 <= d -> 1 <= l -> (exists a : Sy, a <> s0) -> forall cw : nat -> Sy,
  (forall i, i < d + l -> fold_right sxor s0 (map cw (nth i (rows2d d l) [])) = s0) ->
  forall (hist : list (nat * Sy)) (s : st Sy) (fuel : nat) (perm : list nat) (o : outcome Sy),
  (forall ev, In ev hist -> fst ev < d * l + d + l /\ snd ev = cw (fst ev)) ->
  run Sy sxor s0 (rows2d d l) (d + l) (d * l + d + l) (S (d * l + d + l)) hist = Some s ->
  d * l + d + l < fuel -> (forall c, c < d + l -> In c perm) -> (forall c, In c perm -> c < d + l) ->
  ml_finish sxor s0 fuel perm s = Some o ->
  (forall c v, nth c (tab (o_st o)) None = Some v -> v = cw c) /\
  (forall c x, nth c (tab s) None = Some x -> nth c (tab (o_st o)) None = Some x) /\
  (o_ok o = true <-> (forall c, d + l <= c < d * l + d + l -> known (o_st o) c = true)) /\
  ((forall c, d + l <= c < d * l + d + l -> known (o_st o) c = true) <->
   (forall z : nat -> bool, (forall i, i < d + l -> fold_right xorb false (map z (nth i (rows2d d l) [])) = false) ->
      (forall c, In c (map fst hist) -> z c = false) -> forall c, d + l <= c < d * l + d + l -> z c = false)).
Proof. exact p2d_session_finish. Qed.

Theorem p2d_finish_always_returns :
  forall (Sy : Type) (sxor : Sy -> Sy -> Sy) (s0 : Sy),
  (forall a b c, sxor a (sxor b c) = sxor (sxor a b) c) -> (forall a b, sxor a b = sxor b a) ->
  (forall a, sxor s0 a = a) -> (forall a, sxor a a = s0) ->
  forall d l, 1 <= d -> 1 <= l -> (exists a : Sy, a <> s0) -> forall cw : nat -> Sy,
  (forall i, i < d + l -> fold_right sxor s0 (map cw (nth i (rows2d d l) [])) = s0) ->
  forall (hist : list (nat * Sy)) (fuel : nat) (perm : list nat),
  (forall ev, In ev hist -> fst ev < d * l + d + l /\ snd ev = cw (fst ev)) ->
  d * l + d + l < fuel -> (forall c, c < d + l -> In c perm) -> (forall c, In c perm -> c < d + l) ->
  exists (s : st Sy) (o : outcome Sy),
    run Sy sxor s0 (rows2d d l) (d + l) (d * l + d + l) (S (d * l + d + l)) hist = Some s /\ ml_finish sxor s0 fuel perm s = Some o.
Proof. exact p2d_session_total. Qed.

(* the two limit tests at the head of of_2d_parity_set_fec_parameters, regenerated from the source on every run
   (gen/GenParams.v): passed iff k <= MAX_K and the (UINT32) total <= MAX_N; the shape test is create2d's *)
From Coq Require Import ZArith.
From OFV Require Import CSem Params ParamsTie.
From OFV.gen Require Import GenConsts GenParams.
Theorem p2d_source_checks_are_the_two_limits : forall k r L : Z, is_u32 k -> is_u32 r ->
  p2d_prefix k c_p2d_max_k r c_p2d_max_n L = Some ((k <=? c_p2d_max_k)%Z && (u32 (k + r) <=? c_p2d_max_n)%Z).
Proof. exact p2d_prefix_is_limits. Qed.

Print Assumptions p2d_each_check_has_its_own_repair.
Print Assumptions p2d_finish_recovers_exactly_the_determined_patterns.
Print Assumptions p2d_each_source_in_one_row_check_and_one_column_check.
Print Assumptions p2d_accepts_only_product_shapes.
Print Assumptions p2d_encoder_satisfies_every_check.
Print Assumptions p2d_decoder_never_returns_a_wrong_symbol.
Print Assumptions p2d_streaming_decoder_is_the_peeling_closure.
Print Assumptions p2d_any_single_loss_is_recovered.
