(* C16 — 2D parity codec.  Model: Pchk2D.v (matrix construction of of_create_2D_pchk_matrix /
   of_fill_2D_pchk_matrix on the sparse-matrix model, argument swap included), decoded through the
   generic streaming decoder model (ITModel.v) and encoded by the generic staircase-shaped builder
   (LdpcEnc.v) - in the C, codec 5 uses the same engines through a pointer cast.
   Theorems, for ALL d, l >= 1 (no bound on k or n):
   - structure: each check has its own repair symbol and no other; every source symbol is in exactly
     one row check and one column check; the closed form of every row;
   - the parameter search accepts (r, n) only with a product shape and builds exactly that matrix;
   - encoder: after building the repair symbols every check sums to zero, sources untouched;
   - decoder: every symbol the streaming decoder holds equals the codeword's; what it makes available
     is exactly the peeling closure of the received set (any order, duplicates); any single loss is
     recovered, whatever the order of arrival.
   Not theorems yet: of_finish_decoding (ML) on this matrix recovers exactly the uniquely determined
   patterns, and release without leak: decided on the compiled C (every received subset of every
   accepted shape with n <= 9, sampled subsets otherwise, both APIs, GF(2) oracle, allocation count);
   the matrix model is compared with the C for every (k, n-k) of the property's domain. *)
From Coq Require Import Arith List Bool.
From OFV Require Import ListAux Sparse Pchk XorGroup LdpcEnc ITModel ITProofs Pchk2D P2DProofs.
Import ListNotations.

Theorem p2d_each_check_has_its_own_repair :
  forall d l, 1 <= d -> 1 <= l -> forall i c, i < d + l -> c < d + l -> (In c (nth i (rows2d d l) []) <-> c = i).
Proof. exact p2d_own_repair. Qed.

Theorem p2d_each_source_in_one_row_check_and_one_column_check :
  forall d l, 1 <= d -> 1 <= l -> forall a b, a < d -> b < l -> forall i, i < d + l ->
  (In (d + l + a * l + b) (nth i (rows2d d l) []) <-> i = a \/ i = d + b).
Proof. exact p2d_source_checks. Qed.

Theorem p2d_accepts_only_product_shapes :
  forall r n d l m, create2d r n = Some (d, l, m) -> m = fill2d d l /\ d + l = r /\ d * l + d + l = n /\ 1 <= d /\ 1 <= l.
Proof. exact create2d_spec. Qed.

Theorem p2d_encoder_satisfies_every_check :
  forall (Sy : Type) (sxor : Sy -> Sy -> Sy) (s0 : Sy),
  (forall a b c, sxor a (sxor b c) = sxor (sxor a b) c) -> (forall a b, sxor a b = sxor b a) -> (forall a, sxor a a = s0) ->
  forall d l, 1 <= d -> 1 <= l -> forall tab : nat -> Sy,
  let t' := encode_all Sy sxor s0 (d + l) (rows2d d l) tab in
  (forall c, c < d + l -> rowsum Sy sxor s0 t' (nth c (rows2d d l) []) = s0) /\ (forall x, d + l <= x -> t' x = tab x).
Proof. exact p2d_encode_zero_sum. Qed.

Theorem p2d_decoder_never_returns_a_wrong_symbol :
  forall (Sy : Type) (sxor : Sy -> Sy -> Sy) (s0 : Sy),
  (forall a b c, sxor a (sxor b c) = sxor (sxor a b) c) -> (forall a b, sxor a b = sxor b a) ->
  (forall a, sxor s0 a = a) -> (forall a, sxor a a = s0) ->
  forall d l, 1 <= d -> 1 <= l -> forall cw : nat -> Sy,
  (forall i, i < d + l -> fold_right sxor s0 (map cw (nth i (rows2d d l) [])) = s0) ->
  forall fuel (hist : list (nat * Sy)) (s : st Sy),
  (forall ev, In ev hist -> fst ev < d * l + d + l /\ snd ev = cw (fst ev)) ->
  run Sy sxor s0 (rows2d d l) (d + l) (d * l + d + l) fuel hist = Some s ->
  forall c v, nth c (tab s) None = Some v -> v = cw c.
Proof. exact p2d_decoder_values. Qed.

Theorem p2d_streaming_decoder_is_the_peeling_closure :
  forall (Sy : Type) (sxor : Sy -> Sy -> Sy) (s0 : Sy) d l, 1 <= d -> 1 <= l -> forall hist : list (nat * Sy),
  (forall ev, In ev hist -> fst ev < d * l + d + l) ->
  exists s, run Sy sxor s0 (rows2d d l) (d + l) (d * l + d + l) (S (d * l + d + l)) hist = Some s /\
    let Rc := fun e => In e (map fst hist) in
    (forall c, d + l <= c < d * l + d + l -> (known s c = true <-> peel (rows2d d l) (d + l) Rc c)) /\
    ((forall c, d + l <= c < d * l + d + l -> known s c = true) <-> (forall c, d + l <= c < d * l + d + l -> peel (rows2d d l) (d + l) Rc c)).
Proof. exact p2d_decoder_is_peeling. Qed.

Theorem p2d_any_single_loss_is_recovered :
  forall (Sy : Type) (sxor : Sy -> Sy -> Sy) (s0 : Sy) d l, 1 <= d -> 1 <= l -> forall (e : nat) (hist : list (nat * Sy)),
  e < d * l + d + l -> (forall ev, In ev hist -> fst ev < d * l + d + l) ->
  (forall c, c < d * l + d + l -> c <> e -> In c (map fst hist)) ->
  exists s, run Sy sxor s0 (rows2d d l) (d + l) (d * l + d + l) (S (d * l + d + l)) hist = Some s /\
            fst (is_complete s) = true /\ forall c, d + l <= c < d * l + d + l -> known s c = true.
Proof. exact p2d_any_single_loss_recovered. Qed.

Print Assumptions p2d_each_check_has_its_own_repair.
Print Assumptions p2d_each_source_in_one_row_check_and_one_column_check.
Print Assumptions p2d_accepts_only_product_shapes.
Print Assumptions p2d_encoder_satisfies_every_check.
Print Assumptions p2d_decoder_never_returns_a_wrong_symbol.
Print Assumptions p2d_streaming_decoder_is_the_peeling_closure.
Print Assumptions p2d_any_single_loss_is_recovered.
