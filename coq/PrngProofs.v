From Flocq Require Import Core Relative IEEE754.BinarySingleNaN.
From Coq Require Import Reals ZArith Lia Lra Bool.
From OFV Require Import CSem CSemProofs FloatLemmas Prng.
From OFV.gen Require Import GenPrng.
Local Open Scope Z_scope.

(* ---- integer part: Carta's 16-bit split is multiplication modulo 2^31-1 ---- *)
Definition carta_lo (s : Z) : Z :=
  16807 * (s mod 65536) + ((16807 * (s / 65536)) mod 32768) * 65536 + (16807 * (s / 65536)) / 32768.
Definition carta (s : Z) : Z := let lo := carta_lo s in if lo >? PM_P then lo - PM_P else lo.

Lemma carta_mod : forall s, 1 <= s <= PM_P - 1 ->
  carta s mod PM_P = (16807 * s) mod PM_P /\ 0 <= carta s <= PM_P /\ 0 <= carta_lo s < 2 * PM_P.
Proof.
  intros s Hs. unfold carta, carta_lo, PM_P in *.
  set (a := s mod 65536). set (b := s / 65536).
  assert (Ha : 0 <= a < 65536) by (subst a; apply Z.mod_pos_bound; lia).
  assert (Hb : 0 <= b < 32768)
    by (subst b; split; [apply Z.div_pos; lia | apply Z.div_lt_upper_bound; lia]).
  assert (Hs2 : s = 65536 * b + a) by (subst a b; apply Z.div_mod; lia).
  set (h := 16807 * b). set (h1 := h mod 32768). set (h2 := h / 32768).
  assert (Hh : h = 32768 * h2 + h1) by (subst h1 h2; apply Z.div_mod; lia).
  assert (Hh1 : 0 <= h1 < 32768) by (subst h1; apply Z.mod_pos_bound; lia).
  assert (Hh2 : 0 <= h2 < 16807)
    by (subst h2; split; [apply Z.div_pos; subst h; lia | apply Z.div_lt_upper_bound; subst h; lia]).
  assert (Heq : 16807 * s = (16807 * a + h1 * 65536 + h2) + h2 * 2147483647) by (subst h; lia).
  clearbody a b h h1 h2.
  destruct (16807 * a + h1 * 65536 + h2 >? 2147483647) eqn:E.
  - split; [| lia]. rewrite Heq, Z.mod_add by lia.
    replace (16807 * a + h1 * 65536 + h2 - 2147483647)
      with (16807 * a + h1 * 65536 + h2 + (-1) * 2147483647) by lia.
    now rewrite Z.mod_add by lia.
  - split; [| lia]. rewrite Heq. now rewrite Z.mod_add by lia.
Qed.

Lemma inv16807 : (16807 * 1407677000) mod PM_P = 1.  Proof. reflexivity. Qed.

(* the next state is never 0 (16807 is invertible modulo 2^31-1) and stays in 1..2^31-2 *)
Lemma pm_next_range s : 1 <= s <= PM_P - 1 -> 1 <= pm_next s <= PM_P - 1.
Proof.
  intros Hs. unfold pm_next.
  pose proof (Z.mod_pos_bound (16807 * s) PM_P ltac:(unfold PM_P; lia)) as Hb.
  destruct (Z.eq_dec ((16807 * s) mod PM_P) 0) as [E|NE]; [exfalso|unfold PM_P in *; lia].
  assert (H1 : (1407677000 * (16807 * s)) mod PM_P = 0).
  { rewrite <- Z.mul_mod_idemp_r, E, Z.mul_0_r by (unfold PM_P; lia). reflexivity. }
  replace (1407677000 * (16807 * s)) with ((16807 * 1407677000) * s) in H1 by ring.
  rewrite <- Z.mul_mod_idemp_l, inv16807, Z.mul_1_l in H1 by (unfold PM_P; lia).
  rewrite Z.mod_small in H1 by (unfold PM_P in *; lia). lia.
Qed.

Lemma carta_is_pm s : 1 <= s <= PM_P - 1 -> carta s = pm_next s.
Proof.
  intros Hs. destruct (carta_mod s Hs) as (Hm & Hr & _).
  pose proof (pm_next_range s Hs) as Hn. unfold pm_next in *.
  destruct (Z.eq_dec (carta s) PM_P) as [E|NE].
  - rewrite E, Z.mod_same in Hm by (unfold PM_P; lia). lia.
  - destruct (Z.eq_dec (carta s) 0) as [E0|NE0].
    + rewrite E0, Z.mod_0_l in Hm by (unfold PM_P; lia). lia.
    + rewrite Z.mod_small in Hm by lia. exact Hm.
Qed.

(* ---- the generated function has Carta's form ---- *)
Lemma gen_rand_form s maxv : 1 <= s <= PM_P - 1 ->
  of_rfc5170_rand s maxv = bind (scale_ref (carta s) maxv) (fun o => Some (o, carta s)).
Proof.
  intros Hs. pose proof (carta_mod s Hs) as (_ & Hc & Hlo). unfold PM_P in *.
  unfold of_rfc5170_rand.
  change (wrapu64 16807) with 16807. change (wrapu64 65535) with (Z.ones 16).
  change (wrapu64 32767) with (Z.ones 15). change (wrapu64 2147483647) with 2147483647.
  do 3 (rewrite chk_shift_ok by lia; cbn [bind]).
  rewrite (Z.land_ones s 16) by lia. rewrite !Z.shiftr_div_pow2 by lia.
  rewrite (Z.land_ones _ 15) by lia. rewrite Z.shiftl_mul_pow2 by lia.
  change (2 ^ 16) with 65536. change (2 ^ 15) with 32768.
  assert (Hd : 0 <= s / 65536 < 32768)
    by (split; [apply Z.div_pos; lia | apply Z.div_lt_upper_bound; lia]).
  assert (Hm : 0 <= s mod 65536 < 65536) by (apply Z.mod_pos_bound; lia).
  rewrite (wrapu64_small (s / 65536)) by lia.
  rewrite (wrapu64_small (16807 * (s / 65536))) by lia.
  rewrite (wrapu64_small (16807 * (s mod 65536))) by lia.
  set (h := 16807 * (s / 65536)) in *.
  assert (Hh1 : 0 <= h mod 32768 < 32768) by (apply Z.mod_pos_bound; lia).
  assert (Hh2 : 0 <= h / 32768 < 16807)
    by (split; [apply Z.div_pos; subst h; lia | apply Z.div_lt_upper_bound; subst h; lia]).
  rewrite (wrapu64_small (h mod 32768 * 65536)) by lia.
  rewrite (wrapu64_small (h / 32768)) by lia.
  rewrite (wrapu64_small (16807 * (s mod 65536) + h mod 32768 * 65536)) by lia.
  rewrite (wrapu64_small (16807 * (s mod 65536) + h mod 32768 * 65536 + h / 32768)) by lia.
  unfold carta, carta_lo, PM_P, scale_ref in *. fold h.
  set (lo := 16807 * (s mod 65536) + h mod 32768 * 65536 + h / 32768) in *.
  destruct (lo >? 2147483647) eqn:E.
  - rewrite (wrapu64_small (lo - 2147483647)) by lia. reflexivity.
  - reflexivity.
Qed.

(* (a) + the reference expression *)
Lemma rand_is_park_miller_proof s maxv : 1 <= s <= PM_P - 1 ->
  of_rfc5170_rand s maxv = bind (scale_ref (pm_next s) maxv) (fun o => Some (o, pm_next s))
  /\ 1 <= pm_next s <= PM_P - 1.
Proof.
  intros Hs. split; [|apply pm_next_range, Hs].
  rewrite gen_rand_form by exact Hs. rewrite carta_is_pm by exact Hs. reflexivity.
Qed.

(* (b) seeding *)
Lemma srand_range_proof g s : 0 <= s < 2 ^ 64 ->
  of_rfc5170_srand g s = Some (if (1 <=? s) && (s <=? PM_P - 1) then s else g).
Proof.
  intros Hs. unfold of_rfc5170_srand.
  change (wrapu64 1) with 1. change (wrapu64 2147483646) with 2147483646. change (PM_P - 1) with 2147483646.
  rewrite Z.geb_leb. destruct ((1 <=? s) && (s <=? 2147483646)); reflexivity.
Qed.

(* (c) RFC 5170's test vector *)
Lemma ten_thousandth_pm : pm_iter (Z.to_nat 10000) 1 = 1043618065.  Proof. vm_compute. reflexivity. Qed.

(* ---- (d) the scaling expression, exact below 2^53 ---- *)
Local Open Scope R_scope.
Lemma scale_exact_proof s' maxv : (1 <= s' <= PM_P - 1)%Z -> (0 <= maxv)%Z -> (s' * maxv < 2^53)%Z ->
  scale_ref s' maxv = Some ((s' * maxv) / PM_P)%Z.
Proof.
  intros Hs Hm Hp. unfold scale_ref, PM_P in *.
  assert (Hmb : (maxv < 2^53)%Z) by nia.
  destruct (d_of_Z_exact s' ltac:(lia)) as [Rs Fs].
  destruct (d_of_Z_exact maxv ltac:(lia)) as [Rm Fm].
  destruct (d_of_Z_exact 2147483647 ltac:(lia)) as [RP FP].
  destruct (d_mul_exact _ _ (s' * maxv)%Z Fs Fm ltac:(rewrite Rs, Rm, mult_IZR; reflexivity) ltac:(nia)) as [Rx Fx].
  set (x := d_mul (d_of_Z s') (d_of_Z maxv)) in *.
  assert (Hq0 : (0 <= s' * maxv / 2147483647)%Z) by (apply Z.div_pos; nia).
  assert (Hqb : (s' * maxv / 2147483647 <= s' * maxv)%Z) by (apply Z.div_le_upper_bound; nia).
  assert (HPne : R64 (d_of_Z 2147483647) <> 0) by (rewrite RP; lra).
  assert (Hxr : 0 <= IZR (s' * maxv) <= IZR (2^53)) by (split; apply IZR_le; nia).
  assert (Hbnd : Rabs (R64 x / R64 (d_of_Z 2147483647)) <= IZR (2^53)).
  { rewrite Rx, RP. rewrite Rabs_pos_eq.
    - apply Rle_trans with (IZR (s' * maxv) / 1); [|lra].
      unfold Rdiv. apply Rmult_le_compat_l; [lra|]. apply Rinv_le_contravar; lra.
    - unfold Rdiv; apply Rle_mult_inv_pos; lra. }
  destruct (d_div_rounded x _ Fx FP HPne Hbnd) as [Rq Fq].
  rewrite Rx, RP in Rq.
  assert (Hfl : Zfloor (rnd64 (IZR (s' * maxv) / IZR 2147483647)) = (s' * maxv / 2147483647)%Z)
    by (apply rnd64_quotient_floor; nia).
  assert (Hnn : 0 <= rnd64 (IZR (s' * maxv) / IZR 2147483647)).
  { unfold rnd64. apply round_ge_generic; [apply FLT_exp_valid; reflexivity|apply valid_rnd_N|apply generic_format_0|].
    unfold Rdiv; apply Rle_mult_inv_pos; lra. }
  assert (Htr : Ztrunc (R64 (d_div x (d_of_Z 2147483647))) = (s' * maxv / 2147483647)%Z).
  { rewrite Rq. rewrite Ztrunc_floor by exact Hnn. exact Hfl. }
  unfold d_to_u64. rewrite (d_to_int_ok _ _ _ Fq); rewrite Htr; [reflexivity|].
  split; [lia|]. apply Z.le_trans with (s' * maxv)%Z; [exact Hqb|]. change (2^64 - 1)%Z with 18446744073709551615%Z. nia.
Qed.

(* ---- (d) range: the result is always in 0..maxv-1, for every maxv the matrix construction can
   request (1 .. 255*50000 = 12,750,000 < 2^24), including products above 2^53 ---- *)
Lemma scale_range_proof s' maxv : (1 <= s' <= PM_P - 1)%Z -> (1 <= maxv <= 2^24)%Z ->
  exists o, scale_ref s' maxv = Some o /\ (0 <= o < maxv)%Z.
Proof.
  intros Hs Hm.
  destruct (Z_lt_le_dec maxv 8) as [Hsmall|Hbig].
  { (* small maxv: the product is below 2^53, the result is the exact floor *)
    exists ((s' * maxv) / PM_P)%Z. split.
    - apply scale_exact_proof; [exact Hs|lia|unfold PM_P in *; nia].
    - unfold PM_P in *. split; [apply Z.div_pos; nia|apply Z.div_lt_upper_bound; nia]. }
  unfold scale_ref, PM_P in *.
  destruct (d_of_Z_exact s' ltac:(lia)) as [Rs Fs].
  destruct (d_of_Z_exact maxv ltac:(lia)) as [Rm Fm].
  destruct (d_of_Z_exact 2147483647 ltac:(lia)) as [RP FP].
  assert (Hs1 : 1 <= IZR s' <= 2147483646) by (split; apply IZR_le; lia).
  assert (Hm1 : 8 <= IZR maxv <= 16777216) by (split; apply IZR_le; lia).
  set (X := IZR s' * IZR maxv).
  assert (HX1 : 1 <= X) by (unfold X; nra).
  assert (HXm : X <= 2147483646 * IZR maxv) by (unfold X; nra).
  assert (HXb : Rabs (R64 (d_of_Z s') * R64 (d_of_Z maxv)) <= bpow radix2 1000).
  { rewrite Rs, Rm. fold X. rewrite Rabs_pos_eq by lra.
    apply Rle_trans with (bpow radix2 60); [|apply bpow_le; lia].
    replace (bpow radix2 60) with 1152921504606846976 by (rewrite <- IZR_Zpower by lia; reflexivity). nra. }
  destruct (d_mul_rounded _ _ Fs Fm HXb) as [Rx Fx]. rewrite Rs, Rm in Rx. fold X in Rx.
  set (x := d_mul (d_of_Z s') (d_of_Z maxv)) in *.
  pose proof (rnd64_rel_err X HX1) as Herr. apply Rabs_le_inv in Herr.
  pose proof (rnd64_ge_0 X ltac:(lra)) as Hp0.
  set (p := rnd64 X) in *. clearbody p. clearbody X.
  (* z = maxv - 2^-29 is a double strictly below maxv and above every possible quotient *)
  set (z := IZR (maxv * 536870912 - 1) * / 536870912).
  assert (Hzf : generic_format radix2 (FLT_exp (-1074) 53) z).
  { apply generic_format_FLT. exists (Float radix2 (maxv * 536870912 - 1) (-29)).
    - unfold F2R, z. simpl Fnum. simpl Fexp. f_equal.
    - simpl. lia.
    - simpl. lia. }
  assert (Hz : z = IZR maxv - / 536870912) by (unfold z; rewrite minus_IZR, mult_IZR; field).
  clearbody z.
  assert (Hquot : p / 2147483647 <= z).
  { apply Rmult_le_reg_r with 2147483647; [lra|].
    unfold Rdiv. rewrite Rmult_assoc, Rinv_l, Rmult_1_r by lra. rewrite Hz. lra. }
  assert (Hq0 : 0 <= p / 2147483647) by (unfold Rdiv; apply Rle_mult_inv_pos; lra).
  assert (HPne : R64 (d_of_Z 2147483647) <> 0) by (rewrite RP; lra).
  assert (Hbnd : Rabs (R64 x / R64 (d_of_Z 2147483647)) <= IZR (2^53)).
  { rewrite Rx, RP, Rabs_pos_eq by exact Hq0.
    apply Rle_trans with z; [exact Hquot|]. rewrite Hz.
    replace (IZR (2^53)) with 9007199254740992 by reflexivity. lra. }
  destruct (d_div_rounded x _ Fx FP HPne Hbnd) as [Rq Fq]. rewrite Rx, RP in Rq.
  set (q := d_div x (d_of_Z 2147483647)) in *.
  assert (Hq1 : 0 <= R64 q) by (rewrite Rq; apply rnd64_ge_0; exact Hq0).
  assert (Hq2 : R64 q <= z) by (rewrite Rq; apply rnd64_le_format; assumption).
  assert (Hq3 : R64 q < IZR maxv) by (rewrite Hz in Hq2; lra).
  assert (Htr : Ztrunc (R64 q) = Zfloor (R64 q)) by (apply Ztrunc_floor; exact Hq1).
  assert (Hf0 : (0 <= Zfloor (R64 q))%Z) by (apply Zfloor_lub; simpl; exact Hq1).
  assert (Hf1 : (Zfloor (R64 q) < maxv)%Z).
  { apply lt_IZR. apply Rle_lt_trans with (R64 q); [apply Zfloor_lb|exact Hq3]. }
  exists (Zfloor (R64 q)). split; [|lia].
  unfold d_to_u64. rewrite (d_to_int_ok _ _ _ Fq); rewrite Htr; [reflexivity|].
  change (2^64 - 1)%Z with 18446744073709551615%Z. lia.
Qed.

(* iterating the generated function itself (maxv = 1) walks the Park-Miller sequence *)
Local Open Scope Z_scope.
Fixpoint gen_iter (n : nat) (s : Z) : option Z :=
  match n with O => Some s | S k => bind (of_rfc5170_rand s 1) (fun r => gen_iter k (snd r)) end.
Lemma gen_iter_pm n : forall s, 1 <= s <= PM_P - 1 -> gen_iter n s = Some (pm_iter n s).
Proof.
  induction n as [|n IH]; intros s Hs; [reflexivity|]. cbn [gen_iter pm_iter].
  destruct (rand_is_park_miller_proof s 1 Hs) as [E R]. rewrite E.
  rewrite scale_exact_proof by (unfold PM_P in *; lia). cbn [bind snd]. apply IH, R.
Qed.
Lemma ten_thousandth_proof : gen_iter (Z.to_nat 10000) 1 = Some 1043618065.
Proof. rewrite gen_iter_pm by (unfold PM_P; lia). rewrite ten_thousandth_pm. reflexivity. Qed.
