(* C12 — sessions are independent of each other.
   Generic theorem (Interleave.v): for ANY machine whose steps do not let the shared global state
   influence the session's next state or its output, the outputs of a session in ANY interleaving with
   other sessions equal its outputs when run alone from ANY global state.
   Instance: configuring an LDPC-Staircase session, the only API step that reads the shared PRNG state
   (of_seed), is local: refused seeds are rejected up front (C09) and accepted ones overwrite the state
   before its first read (C05, C19).  The remaining shared state (the GF(2^8) tables of codec 1, built
   once, proved canonical in C14; of_verbosity, printing only) and the other API steps are covered by
   the correspondence: interleaved runs of mixed sessions against solo runs in fresh processes. *)
From Coq Require Import ZArith Arith List Bool.
From OFV Require Import Sparse Interleave IndepLdpc.

Theorem sessions_independent :
  forall (G S Op Out : Type) (step : G -> S -> Op -> G * S * Out),
  (forall g g' s o, snd (fst (step g s o)) = snd (fst (step g' s o)) /\ snd (step g s o) = snd (step g' s o)) ->
  forall (h : list (nat * Op)) (g : G) (st : nat -> S) (i : nat) (g' : G),
  outs_of Out i (grun G S Op Out step g st h) = solo G S Op Out step g' (st i) (ops_of Op i h).
Proof. exact sessions_independent_proof. Qed.

Theorem ldpc_configuration_is_independent : forall fuel (h : list (nat * cfg)) g st i g',
  outs_of bool i (grun Z (option (smat * bool)) cfg bool (ldpc_configure fuel) g st h)
  = solo Z (option (smat * bool)) cfg bool (ldpc_configure fuel) g' (st i) (ops_of cfg i h).
Proof. exact ldpc_sessions_independent_proof. Qed.

Print Assumptions sessions_independent.
Print Assumptions ldpc_configuration_is_independent.
