(* C12 — sessions are independent of each other.
   Generic theorem (Interleave.v): for ANY machine whose steps do not let the shared global state
   influence the session's next state or its output, the outputs of a session in ANY interleaving with
   other sessions equal its outputs when run alone from ANY global state.
   Instance: configuring an LDPC-Staircase session, the only API step that reads the shared PRNG state
   (of_seed), is local: refused seeds are rejected up front (C09) and accepted ones overwrite the state
   before its first read (C05, C19).
   Second instance: of_finish_decoding of the LDPC codecs draws the injection order of the repair symbols
   from the C library's rand(), whose state every session shares: whether decoding succeeds does not depend
   on that order (nor on anything but the set of received symbols), and every symbol it delivers is the
   codeword's whatever the order (Properties_C03.v, restated below for the status).
   The remaining shared state (the GF(2^8) tables of codec 1, built
   once, proved canonical in C14; of_verbosity, printing only) and the other API steps are covered by
   the correspondence: interleaved runs of mixed sessions against solo runs in fresh processes. *)
From Coq Require Import ZArith Arith List Bool.
From OFV Require Import Sparse Interleave IndepLdpc LdpcEnc ITModel ITProofs MLModel MLSession.
Import ListNotations.

Theorem sessions_independent :
  forall (G S Op Out : Type) (step : G -> S -> Op -> G * S * Out),
  (forall g g' s o, snd (fst (step g s o)) = snd (fst (step g' s o)) /\ snd (step g s o) = snd (step g' s o)) ->
  forall (h : list (nat * Op)) (g : G) (st : nat -> S) (i : nat) (g' : G),
  outs_of Out i (grun G S Op Out step g st h) = solo G S Op Out step g' (st i) (ops_of Op i h).
Proof. exact sessions_independent_proof. Qed.

Theorem ldpc_configuration_is_independent : forall fuel (h : list (nat * cfg)) g st i g',
  outs_of bool i (grun Z (option (smat * bool)) cfg bool (ldpc_configure fuel) g st h)
  = solo Z (option (smat * bool)) cfg bool (ldpc_configure fuel) g' (st i) (ops_of cfg i h).
Proof. exact ldpc_sessions_independent_proof. Qed.

Theorem ldpc_finish_status_independent_of_rand :
  forall (Sy : Type) (sxor : Sy -> Sy -> Sy) (s0 : Sy),
  (forall a b c, sxor a (sxor b c) = sxor (sxor a b) c) -> (forall a b, sxor a b = sxor b a) ->
  (forall a, sxor s0 a = a) -> (forall a, sxor a a = s0) ->
  forall (H0 : list (list nat)) (R0 N0 : nat),
  length H0 = R0 -> (forall i, i < R0 -> NoDup (nth i H0 [])) ->
  (forall i c, i < R0 -> In c (nth i H0 []) -> c < N0) -> (forall i, i < R0 -> 2 <= length (nth i H0 [])) -> R0 <= N0 ->
  (forall c, c < N0 -> exists i, i < R0 /\ In c (nth i H0 [])) -> stair R0 H0 -> (exists a : Sy, a <> s0) ->
  forall cw : nat -> Sy, (forall i, i < R0 -> fold_right sxor s0 (map cw (nth i H0 [])) = s0) ->
  forall (h1 h2 : list (nat * Sy)) (s1 s2 : st Sy) (fuel1 fuel2 : nat) (perm1 perm2 : list nat) (o1 o2 : outcome Sy),
  (forall ev, In ev h1 -> fst ev < N0 /\ snd ev = cw (fst ev)) -> (forall ev, In ev h2 -> fst ev < N0 /\ snd ev = cw (fst ev)) ->
  (forall c, In c (map fst h1) <-> In c (map fst h2)) ->
  run Sy sxor s0 H0 R0 N0 (S N0) h1 = Some s1 -> run Sy sxor s0 H0 R0 N0 (S N0) h2 = Some s2 ->
  N0 < fuel1 -> N0 < fuel2 ->
  (forall c, c < R0 -> In c perm1) -> (forall c, In c perm1 -> c < R0) ->
  (forall c, c < R0 -> In c perm2) -> (forall c, In c perm2 -> c < R0) ->
  ml_finish sxor s0 fuel1 perm1 s1 = Some o1 -> ml_finish sxor s0 fuel2 perm2 s2 = Some o2 -> o_ok o1 = o_ok o2.
Proof. exact ldpc_session_finish_order_independent. Qed.

Print Assumptions sessions_independent.
Print Assumptions ldpc_finish_status_independent_of_rand.
Print Assumptions ldpc_configuration_is_independent.
