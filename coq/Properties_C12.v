(* C12 — sessions are independent of each other.
   Generic theorem (Interleave.v): for ANY machine whose steps do not let the shared global state
   influence the session's next state or its output, the outputs of a session in ANY interleaving with
   other sessions equal its outputs when run alone from ANY global state.
   Instance: configuring an LDPC-Staircase session, the only API step that reads the shared PRNG state
   (of_seed), is local: refused seeds are rejected up front (C09) and accepted ones overwrite the state
   before its first read (C05, C19).
   Second instance: of_finish_decoding of the LDPC codecs draws the injection order of the repair symbols
   from the C library's rand(), whose state every session shares: whether decoding succeeds does not depend
   on that order (nor on anything but the set of received symbols), and every symbol it delivers is the
   codeword's whatever the order (Properties_C03.v, restated below for the status).
   The remaining shared state (the GF(2^8) tables of codec 1, built
   once, proved canonical in C14; of_verbosity, printing only) and the other API steps are covered by
   the correspondence: interleaved runs of mixed sessions against solo runs in fresh processes. *)
From Coq Require Import ZArith Arith List Bool.
From OFV Require Import Sparse Interleave IndepLdpc LdpcEnc ITModel ITProofs MLModel MLSession InterleaveObs.
Import ListNotations.

Theorem sessions_independent :
  forall (G S Op Out : Type) (step : G -> S -> Op -> G * S * Out),
  (forall g g' s o, snd (fst (step g s o)) = snd (fst (step g' s o)) /\ snd (step g s o) = snd (step g' s o)) ->
  forall (h : list (nat * Op)) (g : G) (st : nat -> S) (i : nat) (g' : G),
  outs_of Out i (grun G S Op Out step g st h) = solo G S Op Out step g' (st i) (ops_of Op i h).
Proof. exact sessions_independent_proof. Qed.

Theorem ldpc_configuration_is_independent : forall fuel (h : list (nat * IndepLdpc.cfg)) g st i g',
  outs_of bool i (grun Z (option (smat * bool)) IndepLdpc.cfg bool (ldpc_configure fuel) g st h)
  = solo Z (option (smat * bool)) IndepLdpc.cfg bool (ldpc_configure fuel) g' (st i) (ops_of IndepLdpc.cfg i h).
Proof. exact ldpc_sessions_independent_proof. Qed.

Theorem ldpc_finish_status_independent_of_rand :
  forall (Sy : Type) (sxor : Sy -> Sy -> Sy) (s0 : Sy),
  (forall a b c, sxor a (sxor b c) = sxor (sxor a b) c) -> (forall a b, sxor a b = sxor b a) ->
  (forall a, sxor s0 a = a) -> (forall a, sxor a a = s0) ->
  forall (H0 : list (list nat)) (R0 N0 : nat),
  length H0 = R0 -> (forall i, i < R0 -> NoDup (nth i H0 [])) ->
  (forall i c, i < R0 -> In c (nth i H0 []) -> c < N0) -> (forall i, i < R0 -> 2 <= length (nth i H0 [])) -> R0 <= N0 ->
  (forall c, c < N0 -> exists i, i < R0 /\ In c (nth i H0 [])) -> stair R0 H0 -> (exists a : Sy, a <> s0) ->
  forall cw : nat -> Sy, (forall i, i < R0 -> fold_right sxor s0 (map cw (nth i H0 [])) = s0) ->
  forall (h1 h2 : list (nat * Sy)) (s1 s2 : st Sy) (fuel1 fuel2 : nat) (perm1 perm2 : list nat) (o1 o2 : outcome Sy),
  (forall ev, In ev h1 -> fst ev < N0 /\ snd ev = cw (fst ev)) -> (forall ev, In ev h2 -> fst ev < N0 /\ snd ev = cw (fst ev)) ->
  (forall c, In c (map fst h1) <-> In c (map fst h2)) ->
  run Sy sxor s0 H0 R0 N0 (S N0) h1 = Some s1 -> run Sy sxor s0 H0 R0 N0 (S N0) h2 = Some s2 ->
  N0 < fuel1 -> N0 < fuel2 ->
  (forall c, c < R0 -> In c perm1) -> (forall c, In c perm1 -> c < R0) ->
  (forall c, c < R0 -> In c perm2) -> (forall c, In c perm2 -> c < R0) ->
  ml_finish sxor s0 fuel1 perm1 s1 = Some o1 -> ml_finish sxor s0 fuel2 perm2 s2 = Some o2 -> o_ok o1 = o_ok o2.
Proof. exact ldpc_session_finish_order_independent. Qed.

(* Observational version (InterleaveObs.v): it suffices that the steps preserve a relation R between session states
   and give equal outputs on R-related states, whatever the two global states.  This is what of_finish_decoding
   needs: the permutation it draws from the shared rand() state may change the decoder's internals, not what the
   application can observe. *)
Theorem sessions_independent_observationally :
  forall (G S Op Out : Type) (step : G -> S -> Op -> G * S * Out) (R : S -> S -> Prop),
  (forall s s', R s s' -> forall g g' o, R (snd (fst (step g s o))) (snd (fst (step g' s' o))) /\ snd (step g s o) = snd (step g' s' o)) ->
  forall (h : list (nat * Op)) (g : G) (st : nat -> S) (i : nat) (g' : G) (s' : S), R (st i) s' ->
  outs_of Out i (grun G S Op Out step g st h) = solo G S Op Out step g' s' (ops_of Op i h).
Proof. exact sessions_independent_obs. Qed.

(* the C's shuffle loop of of_finish_decoding yields a permutation of the rows whatever rand() returns *)
Theorem finish_shuffle_is_a_permutation : forall r rvs,
  (forall c, c < r -> In c (shuffle r rvs)) /\ (forall c, In c (shuffle r rvs) -> c < r) /\ NoDup (shuffle r rvs) /\ length (shuffle r rvs) = r.
Proof. exact shuffle_perm. Qed.

(* The complete LDPC-Staircase decoder session as a machine over the shared rand() state (any type G, any function
   draw : G -> nat -> list nat * G, nothing assumed about it): Submit (any column, any order, duplicates), Finish
   (draws R0 values, shuffles, runs the ML finish), Query.  Every operation outputs (status, completion flag, the
   source table).  For ANY interleaving with other sessions in ANY states and ANY two rand() states, a session that
   starts from the initial state of a well-formed configuration outputs what it outputs alone. *)
Theorem ldpc_session_is_independent_of_every_other_session :
  forall (Sy : Type) (sxor : Sy -> Sy -> Sy) (s0 : Sy),
  (forall a b c, sxor a (sxor b c) = sxor (sxor a b) c) -> (forall a b, sxor a b = sxor b a) ->
  (forall a, sxor s0 a = a) -> (forall a, sxor a a = s0) -> (exists a : Sy, a <> s0) ->
  forall (G : Type) (draw : G -> nat -> list nat * G) (c : InterleaveObs.cfg Sy), WFcfg Sy sxor s0 c ->
  forall (h : list (nat * lop)) (g g' : G) (st : nat -> lsess Sy) (i : nat), st i = init_sess Sy c ->
  outs_of (lout Sy) i (grun G (lsess Sy) lop (lout Sy) (lstep Sy sxor s0 G draw) g st h)
  = solo G (lsess Sy) lop (lout Sy) (lstep Sy sxor s0 G draw) g' (st i) (ops_of lop i h).
Proof. exact ldpc_sessions_independent_full. Qed.

Print Assumptions sessions_independent.
Print Assumptions sessions_independent_observationally.
Print Assumptions finish_shuffle_is_a_permutation.
Print Assumptions ldpc_session_is_independent_of_every_other_session.
Print Assumptions ldpc_finish_status_independent_of_rand.
Print Assumptions ldpc_configuration_is_independent.
