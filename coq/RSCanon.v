(* RSCanon: the canonical systematic Reed-Solomon code over GF(256) and GF(16),
   as executable N-level definitions, with the abstract theory of RSSpec.v
   transferred along val : GF q -> N.
   Part 1: Lagrange basis with a single inversion (generic).
   Part 2: N-level generator entries and codeword elements.
   Part 3: theorems for q = 256 and q = 16. *)
From Coq Require Import List Arith NArith Bool Lia Ring.
From OFV Require Import GF2Poly RSSpec GFField.
Import ListNotations.

(* ------------------------------------------------------------------ *)
(* Part 1: Lagrange basis, numerator / denominator form                *)
(* ------------------------------------------------------------------ *)
Section NDDefs.
  Variable F : Type.
  Variables (zero one : F) (add mul : F -> F -> F) (opp inv : F -> F).

  Definition lagr_nd (pts : list F) (i : nat) (x : F) : F :=
    mul (prod F one mul
           (map (fun j => sub F add opp x (nth j pts zero))
                (filter (fun j => negb (Nat.eqb j i)) (seq 0 (length pts)))))
        (inv (prod F one mul
           (map (fun j => sub F add opp (nth i pts zero) (nth j pts zero))
                (filter (fun j => negb (Nat.eqb j i)) (seq 0 (length pts)))))).
End NDDefs.

Section NDHom.
  Variables F1 F2 : Type.
  Variables (zero1 one1 : F1) (add1 mul1 : F1 -> F1 -> F1) (opp1 inv1 : F1 -> F1).
  Variables (zero2 one2 : F2) (add2 mul2 : F2 -> F2 -> F2) (opp2 inv2 : F2 -> F2).
  Variable phi : F1 -> F2.
  Hypothesis phi_zero : phi zero1 = zero2.
  Hypothesis phi_one : phi one1 = one2.
  Hypothesis phi_add : forall a b, phi (add1 a b) = add2 (phi a) (phi b).
  Hypothesis phi_mul : forall a b, phi (mul1 a b) = mul2 (phi a) (phi b).
  Hypothesis phi_opp : forall a, phi (opp1 a) = opp2 (phi a).
  Hypothesis phi_inv : forall a, phi (inv1 a) = inv2 (phi a).

  Lemma hom_lagr_nd : forall pts i x,
    phi (lagr_nd F1 zero1 one1 add1 mul1 opp1 inv1 pts i x)
    = lagr_nd F2 zero2 one2 add2 mul2 opp2 inv2 (map phi pts) i (phi x).
  Proof.
    intros pts i x. unfold lagr_nd.
    rewrite phi_mul, phi_inv.
    rewrite !(hom_prod F1 F2 one1 mul1 one2 mul2 phi phi_one phi_mul).
    rewrite !map_map, map_length.
    f_equal; [|f_equal]; f_equal; apply map_ext; intros j;
      rewrite (hom_sub F1 F2 add1 opp1 add2 opp2 phi phi_add phi_opp);
      rewrite !(hom_nth F1 F2 zero1 zero2 phi phi_zero); reflexivity.
  Qed.
End NDHom.

Section NDTheory.
  Variable F : Type.
  Variables (zero one : F) (add mul : F -> F -> F) (opp inv : F -> F).

  Hypothesis eq_dec : forall a b : F, {a = b} + {a <> b}.
  Hypothesis add_comm : forall a b, add a b = add b a.
  Hypothesis add_assoc : forall a b c, add a (add b c) = add (add a b) c.
  Hypothesis add_0_l : forall a, add zero a = a.
  Hypothesis add_opp_r : forall a, add a (opp a) = zero.
  Hypothesis mul_comm : forall a b, mul a b = mul b a.
  Hypothesis mul_assoc : forall a b c, mul a (mul b c) = mul (mul a b) c.
  Hypothesis mul_1_l : forall a, mul one a = a.
  Hypothesis mul_add_distr_l : forall a b c, mul a (add b c) = add (mul a b) (mul a c).
  Hypothesis mul_inv_r : forall a, a <> zero -> mul a (inv a) = one.
  Hypothesis one_neq_zero : one <> zero.

  Local Notation fsub := (sub F add opp).
  Local Notation fprod := (prod F one mul).

  Add Ring NDTheory_ring :
    (F_ring F zero one add mul opp add_comm add_assoc add_0_l add_opp_r
            mul_comm mul_assoc mul_1_l mul_add_distr_l).

  Lemma nd_mul_eq_zero : forall a b, mul a b = zero -> a = zero \/ b = zero.
  Proof.
    exact (mul_eq_zero F zero one add mul opp inv eq_dec add_comm add_assoc add_0_l
             add_opp_r mul_comm mul_assoc mul_1_l mul_add_distr_l mul_inv_r).
  Qed.

  Lemma inv_one : inv one = one.
  Proof.
    rewrite <- (mul_1_l (inv one)). apply mul_inv_r. exact one_neq_zero.
  Qed.

  Lemma mul_neq_zero : forall a b, a <> zero -> b <> zero -> mul a b <> zero.
  Proof.
    intros a b Ha Hb E. destruct (nd_mul_eq_zero a b E) as [H|H]; contradiction.
  Qed.

  Lemma inv_mul : forall a b, a <> zero -> b <> zero ->
    inv (mul a b) = mul (inv a) (inv b).
  Proof.
    intros a b Ha Hb.
    pose proof (mul_neq_zero a b Ha Hb) as Hab.
    assert (E1 : inv (mul a b)
                 = mul (inv (mul a b)) (mul (mul a (inv a)) (mul b (inv b)))).
    { rewrite (mul_inv_r a Ha), (mul_inv_r b Hb). ring. }
    assert (E2 : mul (inv (mul a b)) (mul (mul a (inv a)) (mul b (inv b)))
                 = mul (mul (mul a b) (inv (mul a b))) (mul (inv a) (inv b))) by ring.
    etransitivity; [exact E1|]. etransitivity; [exact E2|].
    rewrite (mul_inv_r (mul a b) Hab). ring.
  Qed.

  Lemma fprod_cons : forall c l, fprod (c :: l) = mul c (fprod l).
  Proof. reflexivity. Qed.

  Lemma prod_neq_zero : forall l, (forall y, In y l -> y <> zero) -> fprod l <> zero.
  Proof.
    intros l. induction l as [|a l IH]; intros H.
    - exact one_neq_zero.
    - rewrite fprod_cons. apply mul_neq_zero.
      + apply H. left. reflexivity.
      + apply IH. intros y Hy. apply H. right. exact Hy.
  Qed.

  Lemma prod_div : forall (A : Type) (f g : A -> F) (l : list A),
    (forall j, In j l -> g j <> zero) ->
    fprod (map (fun j => mul (f j) (inv (g j))) l)
    = mul (fprod (map f l)) (inv (fprod (map g l))).
  Proof.
    intros A f g l. induction l as [|a l IH]; intros H.
    - cbn [map]. change (fprod []) with one. rewrite inv_one. ring.
    - cbn [map]. rewrite !fprod_cons.
      assert (Hl : forall j, In j l -> g j <> zero).
      { intros j Hj. apply H. right. exact Hj. }
      rewrite (IH Hl).
      rewrite inv_mul.
      + ring.
      + apply H. left. reflexivity.
      + apply prod_neq_zero. intros y Hy. apply in_map_iff in Hy.
        destruct Hy as [j [Ej Hj]]. subst y. apply Hl. exact Hj.
  Qed.

  Lemma lagr_nd_eq : forall pts i x,
    NoDup pts -> i < length pts ->
    lagr_nd F zero one add mul opp inv pts i x = lagr F zero one add mul opp inv pts i x.
  Proof.
    intros pts i x ND Hi. unfold lagr_nd, lagr. symmetry.
    apply (prod_div nat (fun j => fsub x (nth j pts zero))
                        (fun j => fsub (nth i pts zero) (nth j pts zero))).
    intros j Hj. apply in_others in Hj. destruct Hj as [Hjk Hji].
    apply (sub_neq_zero F zero one add mul opp add_comm add_assoc add_0_l add_opp_r
             mul_comm mul_assoc mul_1_l mul_add_distr_l).
    intros E. apply Hji. symmetry. exact (nth_inj F zero pts i j ND Hi Hjk E).
  Qed.
End NDTheory.

(* ------------------------------------------------------------------ *)
(* Part 2: executable N-level definitions                              *)
(* ------------------------------------------------------------------ *)
Local Open Scope N_scope.

Definition ptsN (m p : N) (k : nat) : list N := map (rs_point m p) (seq 0 k).

(* generator entry G[j][i] *)
Definition coefN (m p : N) (mul : N -> N -> N) (inv : N -> N) (k i j : nat) : N :=
  lagr_nd N 0 1 N.lxor mul (fun a => a) inv (ptsN m p k) i (rs_point m p j).

(* element j of the codeword of the k field elements src *)
Definition elemN (m p : N) (mul : N -> N -> N) (inv : N -> N)
                 (k : nat) (src : list N) (j : nat) : N :=
  fold_right N.lxor 0
    (map (fun i => mul (nth i src 0) (coefN m p mul inv k i j)) (seq 0 k)).

Definition coef256 (k i j : nat) : N := coefN 8 P256 mul256 inv256 k i j.
Definition elem256 (k : nat) (src : list N) (j : nat) : N :=
  elemN 8 P256 mul256 inv256 k src j.
Definition coef16 (k i j : nat) : N := coefN 4 P16 mul16 inv16 k i j.
Definition elem16 (k : nat) (src : list N) (j : nat) : N :=
  elemN 4 P16 mul16 inv16 k src j.

Definition pow256 (x : N) (t : nat) : N := pow N 1 mul256 x t.
Definition pow16 (x : N) (t : nat) : N := pow N 1 mul16 x t.

(* ------------------------------------------------------------------ *)
(* Part 3a: generic transfer along an injective homomorphism into N    *)
(* ------------------------------------------------------------------ *)
Lemma NoDup_map_in : forall (A B : Type) (f : A -> B) (l : list A),
  NoDup l ->
  (forall x y, In x l -> In y l -> f x = f y -> x = y) ->
  NoDup (map f l).
Proof.
  intros A B f l ND. induction ND as [|a l Hna ND IH]; intros Hinj.
  - constructor.
  - cbn [map]. constructor.
    + intros Hin. apply in_map_iff in Hin. destruct Hin as [b [Eb Hb]].
      assert (E : b = a).
      { apply Hinj; [right; exact Hb|left; reflexivity|exact Eb]. }
      subst b. apply Hna. exact Hb.
    + apply IH. intros x y Hx Hy. apply Hinj; right; assumption.
Qed.

Lemma nth_map_seq : forall (A : Type) (f : nat -> A) (n j : nat) (d : A),
  (j < n)%nat -> nth j (map f (seq 0 n)) d = f j.
Proof.
  intros A f n j d Hj.
  rewrite (nth_indep _ d (f 0%nat)) by (rewrite map_length, seq_length; exact Hj).
  rewrite map_nth, seq_nth by exact Hj. reflexivity.
Qed.

Section Canon.
  Variables (m p : N) (mulN : N -> N -> N) (invN : N -> N).
  Variable q : N.
  Variable qn : nat.
  Variable G : Type.
  Variables (zero one : G) (add mul : G -> G -> G) (opp inv : G -> G).

  Hypothesis eq_dec : forall a b : G, {a = b} + {a <> b}.
  Hypothesis add_comm : forall a b, add a b = add b a.
  Hypothesis add_assoc : forall a b c, add a (add b c) = add (add a b) c.
  Hypothesis add_0_l : forall a, add zero a = a.
  Hypothesis add_opp_r : forall a, add a (opp a) = zero.
  Hypothesis mul_comm : forall a b, mul a b = mul b a.
  Hypothesis mul_assoc : forall a b c, mul a (mul b c) = mul (mul a b) c.
  Hypothesis mul_1_l : forall a, mul one a = a.
  Hypothesis mul_add_distr_l : forall a b c, mul a (add b c) = add (mul a b) (mul a c).
  Hypothesis mul_inv_r : forall a, a <> zero -> mul a (inv a) = one.
  Hypothesis one_neq_zero : one <> zero.

  Variable phi : G -> N.
  Variable psi : N -> G.
  Hypothesis phi_zero : phi zero = 0.
  Hypothesis phi_one : phi one = 1.
  Hypothesis phi_add : forall a b, phi (add a b) = N.lxor (phi a) (phi b).
  Hypothesis phi_mul : forall a b, phi (mul a b) = mulN (phi a) (phi b).
  Hypothesis phi_opp : forall a, phi (opp a) = phi a.
  Hypothesis phi_inv : forall a, phi (inv a) = invN (phi a).
  Hypothesis phi_inj : forall a b, phi a = phi b -> a = b.
  Hypothesis phi_lt : forall a, phi a < q.
  Hypothesis phi_psi : forall a, a < q -> phi (psi a) = a.
  Hypothesis pt_lt : forall j, (j < qn)%nat -> rs_point m p j < q.
  Hypothesis pt_inj : forall i j, (i < qn)%nat -> (j < qn)%nat ->
    rs_point m p i = rs_point m p j -> i = j.

  Local Notation idN := (fun a : N => a).
  Local Notation lagrG := (lagr G zero one add mul opp inv).
  Local Notation lagrN := (lagr N 0 1 N.lxor mulN idN invN).
  Local Notation lagr_ndG := (lagr_nd G zero one add mul opp inv).
  Local Notation rsG := (rs_sym G zero one add mul opp inv).
  Local Notation rsN := (rs_sym N 0 1 N.lxor mulN idN invN).
  Local Notation sumG := (sum G zero add).
  Local Notation sumN := (sum N 0 N.lxor).
  Local Notation powG := (pow G one mul).
  Local Notation powN := (pow N 1 mulN).
  Local Notation pt := (rs_point m p).
  Local Notation ltq := (fun a : N => a < q).

  Definition ptsG (k : nat) : list G := map psi (ptsN m p k).

  (* ---- psi / phi round trips ---- *)
  Lemma q_pos : 0 < q.
  Proof. rewrite <- phi_zero. apply phi_lt. Qed.

  Lemma psi_zero : psi 0 = zero.
  Proof.
    apply phi_inj. rewrite phi_zero. apply phi_psi. exact q_pos.
  Qed.

  Lemma map_phi_psi : forall l, Forall ltq l -> map phi (map psi l) = l.
  Proof.
    intros l HF. induction HF as [|a l Ha HF IH].
    - reflexivity.
    - cbn [map]. rewrite (phi_psi a Ha), IH. reflexivity.
  Qed.

  Lemma nth_psi : forall l i, nth i (map psi l) zero = psi (nth i l 0).
  Proof.
    intros l i. rewrite <- psi_zero. apply map_nth.
  Qed.

  Lemma nth_lt : forall l i, Forall ltq l -> nth i l 0 < q.
  Proof.
    intros l i HF. destruct (Nat.lt_ge_cases i (length l)) as [Hi|Hi].
    - rewrite Forall_forall in HF. apply HF. apply nth_In. exact Hi.
    - rewrite nth_overflow by exact Hi. exact q_pos.
  Qed.

  (* ---- the points ---- *)
  Lemma ptsN_length : forall k, length (ptsN m p k) = k.
  Proof. intros k. unfold ptsN. rewrite map_length, seq_length. reflexivity. Qed.

  Lemma ptsN_lt : forall k, (k <= qn)%nat -> Forall ltq (ptsN m p k).
  Proof.
    intros k Hk. apply Forall_forall. intros x Hx. unfold ptsN in Hx.
    apply in_map_iff in Hx. destruct Hx as [j [Ej Hj]]. subst x.
    apply in_seq in Hj. apply pt_lt. lia.
  Qed.

  Lemma nth_ptsN : forall k j, (j < k)%nat -> nth j (ptsN m p k) 0 = pt j.
  Proof. intros k j Hj. unfold ptsN. apply nth_map_seq. exact Hj. Qed.

  Lemma ptsG_length : forall k, length (ptsG k) = k.
  Proof. intros k. unfold ptsG. rewrite map_length. apply ptsN_length. Qed.

  Lemma map_phi_ptsG : forall k, (k <= qn)%nat -> map phi (ptsG k) = ptsN m p k.
  Proof.
    intros k Hk. unfold ptsG. apply map_phi_psi. apply ptsN_lt. exact Hk.
  Qed.

  Lemma nth_ptsG : forall k j, (j < k)%nat -> nth j (ptsG k) zero = psi (pt j).
  Proof.
    intros k j Hj. unfold ptsG. rewrite nth_psi, nth_ptsN by exact Hj. reflexivity.
  Qed.

  Lemma psi_pt_inj : forall i j, (i < qn)%nat -> (j < qn)%nat ->
    psi (pt i) = psi (pt j) -> i = j.
  Proof.
    intros i j Hi Hj E. apply (pt_inj i j Hi Hj).
    rewrite <- (phi_psi (pt i)) by (apply pt_lt; exact Hi).
    rewrite <- (phi_psi (pt j)) by (apply pt_lt; exact Hj).
    rewrite E. reflexivity.
  Qed.

  Lemma NoDup_psi_pt : forall J : list nat, NoDup J ->
    (forall j, In j J -> (j < qn)%nat) -> NoDup (map (fun j => psi (pt j)) J).
  Proof.
    intros J ND HJ. apply NoDup_map_in; [exact ND|].
    intros x y Hx Hy E. apply psi_pt_inj; [apply HJ; exact Hx|apply HJ; exact Hy|exact E].
  Qed.

  Lemma ptsG_NoDup : forall k, (k <= qn)%nat -> NoDup (ptsG k).
  Proof.
    intros k Hk. unfold ptsG, ptsN. rewrite map_map.
    apply NoDup_psi_pt; [apply seq_NoDup|].
    intros j Hj. apply in_seq in Hj. lia.
  Qed.

  (* ---- generator entries ---- *)
  Lemma coefN_phi : forall k i j, (k <= qn)%nat -> (i < k)%nat -> (j < qn)%nat ->
    coefN m p mulN invN k i j = phi (lagrG (ptsG k) i (psi (pt j))).
  Proof.
    intros k i j Hk Hi Hj. unfold coefN.
    rewrite <- (lagr_nd_eq G zero one add mul opp inv eq_dec add_comm add_assoc add_0_l
                  add_opp_r mul_comm mul_assoc mul_1_l mul_add_distr_l mul_inv_r
                  one_neq_zero (ptsG k) i (psi (pt j)) (ptsG_NoDup k Hk))
      by (rewrite ptsG_length; exact Hi).
    rewrite (hom_lagr_nd G N zero one add mul opp inv 0 1 N.lxor mulN idN invN phi
               phi_zero phi_one phi_add phi_mul phi_opp phi_inv).
    rewrite (map_phi_ptsG k Hk), (phi_psi (pt j) (pt_lt j Hj)). reflexivity.
  Qed.

  Lemma coefN_lagrN : forall k i j, (k <= qn)%nat -> (i < k)%nat -> (j < qn)%nat ->
    coefN m p mulN invN k i j = lagrN (ptsN m p k) i (pt j).
  Proof.
    intros k i j Hk Hi Hj. rewrite (coefN_phi k i j Hk Hi Hj).
    rewrite (hom_lagr G N zero one add mul opp inv 0 1 N.lxor mulN idN invN phi
               phi_zero phi_one phi_add phi_mul phi_opp phi_inv).
    rewrite (map_phi_ptsG k Hk), (phi_psi (pt j) (pt_lt j Hj)). reflexivity.
  Qed.

  Theorem coefN_lt : forall k i j, (k <= qn)%nat -> (i < k)%nat -> (j < qn)%nat ->
    coefN m p mulN invN k i j < q.
  Proof.
    intros k i j Hk Hi Hj. rewrite (coefN_phi k i j Hk Hi Hj). apply phi_lt.
  Qed.

  Theorem coefN_systematic : forall k i j, (k <= qn)%nat -> (i < k)%nat -> (j < k)%nat ->
    coefN m p mulN invN k i j = if Nat.eqb i j then 1 else 0.
  Proof.
    intros k i j Hk Hi Hj.
    rewrite (coefN_phi k i j Hk Hi) by lia.
    rewrite <- (nth_ptsG k j Hj).
    rewrite (lagr_delta G zero one add mul opp inv add_comm add_assoc add_0_l add_opp_r
               mul_comm mul_assoc mul_1_l mul_add_distr_l mul_inv_r
               (ptsG k) i j (ptsG_NoDup k Hk))
      by (rewrite ptsG_length; assumption).
    destruct (Nat.eqb i j); [exact phi_one|exact phi_zero].
  Qed.

  (* ---- codeword elements ---- *)
  Lemma elemN_rsN : forall k src j, (k <= qn)%nat -> (j < qn)%nat ->
    elemN m p mulN invN k src j = rsN (ptsN m p k) src (pt j).
  Proof.
    intros k src j Hk Hj. unfold elemN, rs_sym, sum. rewrite ptsN_length.
    f_equal. apply map_ext_in. intros i Hi. apply in_seq in Hi.
    rewrite (coefN_lagrN k i j Hk) by lia. reflexivity.
  Qed.

  Lemma elemN_phi : forall k src j, (k <= qn)%nat -> Forall ltq src -> (j < qn)%nat ->
    elemN m p mulN invN k src j = phi (rsG (ptsG k) (map psi src) (psi (pt j))).
  Proof.
    intros k src j Hk HF Hj. rewrite (elemN_rsN k src j Hk Hj).
    rewrite (hom_rs_sym G N zero one add mul opp inv 0 1 N.lxor mulN idN invN phi
               phi_zero phi_one phi_add phi_mul phi_opp phi_inv).
    rewrite (map_phi_ptsG k Hk), (map_phi_psi src HF), (phi_psi (pt j) (pt_lt j Hj)).
    reflexivity.
  Qed.

  Theorem elemN_systematic : forall k src j,
    (k <= qn)%nat -> length src = k -> Forall ltq src -> (j < k)%nat ->
    elemN m p mulN invN k src j = nth j src 0.
  Proof.
    intros k src j Hk HL HF Hj.
    rewrite (elemN_phi k src j Hk HF) by lia.
    rewrite <- (nth_ptsG k j Hj).
    rewrite (rs_systematic G zero one add mul opp inv add_comm add_assoc add_0_l add_opp_r
               mul_comm mul_assoc mul_1_l mul_add_distr_l mul_inv_r
               (ptsG k) (map psi src) j (ptsG_NoDup k Hk)).
    - rewrite nth_psi. apply phi_psi. apply nth_lt. exact HF.
    - rewrite map_length, ptsG_length. exact HL.
    - rewrite ptsG_length. exact Hj.
  Qed.

  Theorem elemN_mds : forall k src src',
    (k <= qn)%nat -> length src = k -> length src' = k ->
    Forall ltq src -> Forall ltq src' ->
    forall J : list nat, NoDup J -> length J = k ->
      (forall j, In j J -> (j < qn)%nat) ->
      (forall j, In j J -> elemN m p mulN invN k src j = elemN m p mulN invN k src' j) ->
      src = src'.
  Proof.
    intros k src src' Hk HL HL' HF HF' J ND HLJ HJ HE.
    rewrite <- (map_phi_psi src HF), <- (map_phi_psi src' HF'). f_equal.
    apply (rs_mds G zero one add mul opp inv eq_dec add_comm add_assoc add_0_l add_opp_r
             mul_comm mul_assoc mul_1_l mul_add_distr_l mul_inv_r
             (ptsG k) (map psi src) (map psi src') (map (fun j => psi (pt j)) J)).
    - apply ptsG_NoDup. exact Hk.
    - rewrite map_length, ptsG_length. exact HL.
    - rewrite map_length, ptsG_length. exact HL'.
    - apply NoDup_psi_pt; assumption.
    - rewrite map_length, ptsG_length. exact HLJ.
    - intros y Hy. apply in_map_iff in Hy. destruct Hy as [j [Ej Hj]]. subst y.
      apply phi_inj.
      rewrite <- (elemN_phi k src j Hk HF (HJ j Hj)).
      rewrite <- (elemN_phi k src' j Hk HF' (HJ j Hj)).
      apply HE. exact Hj.
  Qed.

  (* ---- Vandermonde characterisation of the generator rows ---- *)
  Theorem coefN_vandermonde : forall k j t,
    (k <= qn)%nat -> (j < qn)%nat -> (t < k)%nat ->
    fold_right N.lxor 0
      (map (fun i => mulN (coefN m p mulN invN k i j) (powN (pt i) t)) (seq 0 k))
    = powN (pt j) t.
  Proof.
    intros k j t Hk Hj Ht.
    pose proof (rs_vandermonde G zero one add mul opp inv eq_dec add_comm add_assoc add_0_l
                  add_opp_r mul_comm mul_assoc mul_1_l mul_add_distr_l mul_inv_r
                  (ptsG k) t (psi (pt j)) (ptsG_NoDup k Hk)) as HV.
    rewrite ptsG_length in HV. specialize (HV Ht).
    apply (f_equal phi) in HV.
    rewrite (hom_sum G N zero add 0 N.lxor phi phi_zero phi_add) in HV.
    rewrite (hom_pow G N one mul 1 mulN phi phi_one phi_mul) in HV.
    rewrite (phi_psi (pt j) (pt_lt j Hj)) in HV.
    rewrite map_map in HV. rewrite <- HV. unfold sum. f_equal.
    apply map_ext_in. intros i Hi. apply in_seq in Hi.
    rewrite phi_mul, (hom_pow G N one mul 1 mulN phi phi_one phi_mul).
    rewrite <- (coefN_phi k i j Hk) by lia.
    rewrite (nth_ptsG k i) by lia.
    rewrite (phi_psi (pt i)) by (apply pt_lt; lia). reflexivity.
  Qed.

  Theorem coefN_unique : forall k j g,
    (k <= qn)%nat -> (j < qn)%nat -> length g = k -> Forall ltq g ->
    (forall t, (t < k)%nat ->
       fold_right N.lxor 0
         (map (fun i => mulN (nth i g 0) (powN (pt i) t)) (seq 0 k)) = powN (pt j) t) ->
    forall i, (i < k)%nat -> nth i g 0 = coefN m p mulN invN k i j.
  Proof.
    intros k j g Hk Hj HL HF HV i Hi.
    rewrite (coefN_phi k i j Hk Hi Hj).
    rewrite <- (gen_row_unique G zero one add mul opp inv add_comm add_assoc add_0_l
                  add_opp_r mul_comm mul_assoc mul_1_l mul_add_distr_l mul_inv_r
                  (ptsG k) (map psi g) (psi (pt j)) (ptsG_NoDup k Hk)).
    - rewrite nth_psi. symmetry. apply phi_psi. apply nth_lt. exact HF.
    - rewrite map_length, ptsG_length. exact HL.
    - rewrite ptsG_length. intros t Ht. apply phi_inj.
      rewrite (hom_sum G N zero add 0 N.lxor phi phi_zero phi_add).
      rewrite (hom_pow G N one mul 1 mulN phi phi_one phi_mul).
      rewrite (phi_psi (pt j) (pt_lt j Hj)).
      rewrite <- (HV t Ht). rewrite map_map. unfold sum. f_equal.
      apply map_ext_in. intros i' Hi'. apply in_seq in Hi'.
      rewrite phi_mul, (hom_pow G N one mul 1 mulN phi phi_one phi_mul).
      rewrite nth_psi, (nth_ptsG k i') by lia.
      rewrite (phi_psi (nth i' g 0)) by (apply nth_lt; exact HF).
      rewrite (phi_psi (pt i')) by (apply pt_lt; lia). reflexivity.
    - rewrite ptsG_length. exact Hi.
  Qed.
End Canon.

(* ------------------------------------------------------------------ *)
(* Part 3b: the instances q = 256 and q = 16                           *)
(* ------------------------------------------------------------------ *)
Ltac field256 :=
  first [ exact F256_eq_dec | exact F256_add_comm | exact F256_add_assoc
        | exact F256_add_0_l | exact F256_add_opp_r | exact F256_mul_comm
        | exact F256_mul_assoc | exact F256_mul_1_l | exact F256_mul_add_distr_l
        | exact F256_mul_inv_r | exact F256_one_neq_zero
        | exact F256_val_zero | exact F256_val_one | exact F256_val_add
        | exact F256_val_mul | exact F256_val_opp | exact F256_val_inv
        | exact (val_inj 256) | exact F256_val_lt | exact of_N256_val_lt
        | exact rs_point256_lt | exact rs_point256_inj ].

Ltac field16 :=
  first [ exact F16_eq_dec | exact F16_add_comm | exact F16_add_assoc
        | exact F16_add_0_l | exact F16_add_opp_r | exact F16_mul_comm
        | exact F16_mul_assoc | exact F16_mul_1_l | exact F16_mul_add_distr_l
        | exact F16_mul_inv_r | exact F16_one_neq_zero
        | exact F16_val_zero | exact F16_val_one | exact F16_val_add
        | exact F16_val_mul | exact F16_val_opp | exact F16_val_inv
        | exact (val_inj 16) | exact F16_val_lt | exact of_N16_val_lt
        | exact rs_point16_lt | exact rs_point16_inj ].

(* ---- q = 256 ---- *)
Theorem coef256_lt : forall k i j,
  (k <= 256)%nat -> (i < k)%nat -> (j < 256)%nat -> coef256 k i j < 256.
Proof.
  intros k i j Hk Hi Hj. unfold coef256.
  apply (coefN_lt 8 P256 mul256 inv256 256 256%nat (GF 256)
           F256_zero F256_one F256_add F256_mul F256_opp F256_inv)
    with (phi := @val 256) (psi := of_N256);
    first [field256 | assumption].
Qed.

Theorem coef256_systematic : forall k i j,
  (k <= 256)%nat -> (i < k)%nat -> (j < k)%nat ->
  coef256 k i j = if Nat.eqb i j then 1 else 0.
Proof.
  intros k i j Hk Hi Hj. unfold coef256.
  apply (coefN_systematic 8 P256 mul256 inv256 256 256%nat (GF 256)
           F256_zero F256_one F256_add F256_mul F256_opp F256_inv)
    with (phi := @val 256) (psi := of_N256);
    first [field256 | assumption].
Qed.

Theorem elem256_systematic : forall k src j,
  (k <= 256)%nat -> length src = k -> Forall (fun a => a < 256) src -> (j < k)%nat ->
  elem256 k src j = nth j src 0.
Proof.
  intros k src j Hk HL HF Hj. unfold elem256.
  apply (elemN_systematic 8 P256 mul256 inv256 256 256%nat (GF 256)
           F256_zero F256_one F256_add F256_mul F256_opp F256_inv)
    with (phi := @val 256) (psi := of_N256);
    first [field256 | assumption].
Qed.

Theorem elem256_mds : forall k src src',
  (k <= 256)%nat -> length src = k -> length src' = k ->
  Forall (fun a => a < 256) src -> Forall (fun a => a < 256) src' ->
  forall J : list nat, NoDup J -> length J = k ->
    (forall j, In j J -> (j < 256)%nat) ->
    (forall j, In j J -> elem256 k src j = elem256 k src' j) ->
    src = src'.
Proof.
  intros k src src' Hk HL HL' HF HF' J ND HLJ HJ HE. unfold elem256 in HE.
  apply (elemN_mds 8 P256 mul256 inv256 256 256%nat (GF 256)
           F256_zero F256_one F256_add F256_mul F256_opp F256_inv)
    with (phi := @val 256) (psi := of_N256) (k := k) (J := J);
    first [field256 | assumption].
Qed.

Theorem coef256_vandermonde : forall k j t,
  (k <= 256)%nat -> (j < 256)%nat -> (t < k)%nat ->
  fold_right N.lxor 0
    (map (fun i => mul256 (coef256 k i j) (pow256 (rs_point 8 P256 i) t)) (seq 0 k))
  = pow256 (rs_point 8 P256 j) t.
Proof.
  intros k j t Hk Hj Ht. unfold coef256, pow256.
  apply (coefN_vandermonde 8 P256 mul256 inv256 256 256%nat (GF 256)
           F256_zero F256_one F256_add F256_mul F256_opp F256_inv)
    with (phi := @val 256) (psi := of_N256);
    first [field256 | assumption].
Qed.

Theorem coef256_unique : forall k j g,
  (k <= 256)%nat -> (j < 256)%nat -> length g = k -> Forall (fun a => a < 256) g ->
  (forall t, (t < k)%nat ->
     fold_right N.lxor 0
       (map (fun i => mul256 (nth i g 0) (pow256 (rs_point 8 P256 i) t)) (seq 0 k))
     = pow256 (rs_point 8 P256 j) t) ->
  forall i, (i < k)%nat -> nth i g 0 = coef256 k i j.
Proof.
  intros k j g Hk Hj HL HF HV i Hi. unfold coef256. unfold pow256 in HV.
  apply (coefN_unique 8 P256 mul256 inv256 256 256%nat (GF 256)
           F256_zero F256_one F256_add F256_mul F256_opp F256_inv)
    with (phi := @val 256) (psi := of_N256);
    first [field256 | assumption].
Qed.

(* ---- q = 16 ---- *)
Theorem coef16_lt : forall k i j,
  (k <= 16)%nat -> (i < k)%nat -> (j < 16)%nat -> coef16 k i j < 16.
Proof.
  intros k i j Hk Hi Hj. unfold coef16.
  apply (coefN_lt 4 P16 mul16 inv16 16 16%nat (GF 16)
           F16_zero F16_one F16_add F16_mul F16_opp F16_inv)
    with (phi := @val 16) (psi := of_N16);
    first [field16 | assumption].
Qed.

Theorem coef16_systematic : forall k i j,
  (k <= 16)%nat -> (i < k)%nat -> (j < k)%nat ->
  coef16 k i j = if Nat.eqb i j then 1 else 0.
Proof.
  intros k i j Hk Hi Hj. unfold coef16.
  apply (coefN_systematic 4 P16 mul16 inv16 16 16%nat (GF 16)
           F16_zero F16_one F16_add F16_mul F16_opp F16_inv)
    with (phi := @val 16) (psi := of_N16);
    first [field16 | assumption].
Qed.

Theorem elem16_systematic : forall k src j,
  (k <= 16)%nat -> length src = k -> Forall (fun a => a < 16) src -> (j < k)%nat ->
  elem16 k src j = nth j src 0.
Proof.
  intros k src j Hk HL HF Hj. unfold elem16.
  apply (elemN_systematic 4 P16 mul16 inv16 16 16%nat (GF 16)
           F16_zero F16_one F16_add F16_mul F16_opp F16_inv)
    with (phi := @val 16) (psi := of_N16);
    first [field16 | assumption].
Qed.

Theorem elem16_mds : forall k src src',
  (k <= 16)%nat -> length src = k -> length src' = k ->
  Forall (fun a => a < 16) src -> Forall (fun a => a < 16) src' ->
  forall J : list nat, NoDup J -> length J = k ->
    (forall j, In j J -> (j < 16)%nat) ->
    (forall j, In j J -> elem16 k src j = elem16 k src' j) ->
    src = src'.
Proof.
  intros k src src' Hk HL HL' HF HF' J ND HLJ HJ HE. unfold elem16 in HE.
  apply (elemN_mds 4 P16 mul16 inv16 16 16%nat (GF 16)
           F16_zero F16_one F16_add F16_mul F16_opp F16_inv)
    with (phi := @val 16) (psi := of_N16) (k := k) (J := J);
    first [field16 | assumption].
Qed.

Theorem coef16_vandermonde : forall k j t,
  (k <= 16)%nat -> (j < 16)%nat -> (t < k)%nat ->
  fold_right N.lxor 0
    (map (fun i => mul16 (coef16 k i j) (pow16 (rs_point 4 P16 i) t)) (seq 0 k))
  = pow16 (rs_point 4 P16 j) t.
Proof.
  intros k j t Hk Hj Ht. unfold coef16, pow16.
  apply (coefN_vandermonde 4 P16 mul16 inv16 16 16%nat (GF 16)
           F16_zero F16_one F16_add F16_mul F16_opp F16_inv)
    with (phi := @val 16) (psi := of_N16);
    first [field16 | assumption].
Qed.

Theorem coef16_unique : forall k j g,
  (k <= 16)%nat -> (j < 16)%nat -> length g = k -> Forall (fun a => a < 16) g ->
  (forall t, (t < k)%nat ->
     fold_right N.lxor 0
       (map (fun i => mul16 (nth i g 0) (pow16 (rs_point 4 P16 i) t)) (seq 0 k))
     = pow16 (rs_point 4 P16 j) t) ->
  forall i, (i < k)%nat -> nth i g 0 = coef16 k i j.
Proof.
  intros k j g Hk Hj HL HF HV i Hi. unfold coef16. unfold pow16 in HV.
  apply (coefN_unique 4 P16 mul16 inv16 16 16%nat (GF 16)
           F16_zero F16_one F16_add F16_mul F16_opp F16_inv)
    with (phi := @val 16) (psi := of_N16);
    first [field16 | assumption].
Qed.

(* ------------------------------------------------------------------ *)
(* Sanity examples; expected values computed independently as rows of  *)
(* V_n * V_k^-1 (Vandermonde matrices on the points 0, 1, x, x^2, ...). *)
(* k = 2: the line through (0,s0), (1,s1) at the point x = 2 is         *)
(* s0 + 2*(s0+s1) = 3*s0 + 2*s1.                                        *)
(* ------------------------------------------------------------------ *)
Example coef256_2_0_2 : coef256 2 0 2 = 3.
Proof. vm_compute. reflexivity. Qed.
Example coef256_2_1_2 : coef256 2 1 2 = 2.
Proof. vm_compute. reflexivity. Qed.
Example coef256_2_row4 : (coef256 2 0 4, coef256 2 1 4) = (9, 8).
Proof. vm_compute. reflexivity. Qed.
Example coef256_3_row4 : map (fun i => coef256 3 i 4) (seq 0 3) = [45; 48; 28].
Proof. vm_compute. reflexivity. Qed.
Example elem256_3_123_4 : elem256 3 [1; 2; 3] 4 = 105.
Proof. vm_compute. reflexivity. Qed.
Example coef256_4_row255 : map (fun i => coef256 4 i 255) (seq 0 4) = [74; 100; 25; 54].
Proof. vm_compute. reflexivity. Qed.
Example coef16_2_0_2 : coef16 2 0 2 = 3.
Proof. vm_compute. reflexivity. Qed.
Example coef16_2_1_2 : coef16 2 1 2 = 2.
Proof. vm_compute. reflexivity. Qed.
Example coef16_3_row4 : map (fun i => coef16 3 i 4) (seq 0 3) = [11; 5; 15].
Proof. vm_compute. reflexivity. Qed.
Example coef16_3_row15 : map (fun i => coef16 3 i 15) (seq 0 3) = [10; 4; 15].
Proof. vm_compute. reflexivity. Qed.
Example elem16_3_123_4 : elem16 3 [1; 2; 3] 4 = 3.
Proof. vm_compute. reflexivity. Qed.
Example elem16_3_123_15 : elem16 3 [1; 2; 3] 15 = 0.
Proof. vm_compute. reflexivity. Qed.

Print Assumptions lagr_nd_eq.
Print Assumptions hom_lagr_nd.
Print Assumptions elem256_systematic.
Print Assumptions elem256_mds.
Print Assumptions coef256_vandermonde.
Print Assumptions coef256_unique.
Print Assumptions elem16_systematic.
Print Assumptions elem16_mds.
Print Assumptions coef16_vandermonde.
Print Assumptions coef16_unique.
