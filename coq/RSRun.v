(* Executable wrapper of the RS API model (stream `dec`, codecs 1 and 2).  The algebraic core is
   replaced by an oracle that succeeds (the values are checked on the C side against the encoded
   source; the algebra is tied separately), buffers are tagged: true = the application's received
   buffer, false = a buffer filled at decoding time. *)
From Coq Require Import Arith List Bool.
From OFV Require Import ListAux RSApi.
Import ListNotations.

Definition st_code (s : status) : nat := match s with OK => 0 | FAILURE => 1 | ERROR => 2 end.
Definition core_oracle (k : nat) (_ : list (option bool)) : option (list bool) := Some (repeat false k).
Definition mk_dec (_ : nat) (_ : bool) : bool := false.

Record rs_obs := { ro_status : nat; ro_complete : bool; ro_tab : list (option bool);
                   ro_state : rs bool (* whole session state: counters, flag and availability are compared with the C's after every call *) }.
Definition observe_rs (s : rs bool) (st : status) : rs_obs :=
  {| ro_status := st_code st; ro_complete := rs_is_complete s;
     ro_tab := match rs_source_tab s with Some t => t | None => repeat None (rk s) end;
     ro_state := s |}.

Fixpoint rs_steps (cb : bool) (s : rs bool) (esis : list nat) : rs bool * list rs_obs :=
  match esis with
  | [] => (s, [])
  | e :: rest =>
    let '(s1, st) := rs_decode_with_new_symbol core_oracle cb mk_dec s e true in
    let '(s2, l) := rs_steps cb s1 rest in (s2, observe_rs s1 st :: l)
  end.

Definition rs_session (k n : nat) (cb api finish : bool) (esis : list nat) : list rs_obs * option rs_obs * list nat :=
  let s0 := rs_init bool k n in
  let '(s1, obs) :=
    if api then
      let t := map (fun e => if existsb (Nat.eqb e) esis then Some true else None) (seq 0 n) in
      let '(s1, st) := rs_set_available s0 t in (s1, [observe_rs s1 st])
    else rs_steps cb s0 esis in
  if finish then let '(s2, st) := rs_finish core_oracle cb mk_dec s1 in (obs, Some (observe_rs s2 st), evs s2)
  else (obs, None, evs s1).
