#!/bin/sh
# Offline build of the framework after a fresh restore: regenerate coq/gen/*.v from /repo,
# full .vo build of the Coq development, extraction + OCaml driver.
set -e
cd "$(dirname "$0")"
python3 tools/setup.py
