#!/usr/bin/env python3
"""Diagnostic: which lines of /repo's library do the correspondence streams of the checks execute?
   tools/coverage.py [Cxx ...] runs the quick tier of the given checks (default: all) with gcov-instrumented drivers and
   prints, per source file, the executable lines never reached. Nothing here decides a property; the output is what the
   generators are aimed with (DESIGN.md section 12)."""
import json, os, subprocess, sys
V = os.path.dirname(os.path.dirname(os.path.abspath(__file__)))
out = os.path.join(V, "build", "cov.json")
pids = [a for a in sys.argv[1:] if a.startswith("C")] or ["C%02d" % i for i in range(1, 21)]
if "--report-only" not in sys.argv:
    if os.path.exists(out):
        os.remove(out)
    env = dict(os.environ, VERIF_COV=out)
    for p in pids:
        r = subprocess.run([os.path.join(V, "check"), p, "--tier", "quick"], cwd=V, env=env, stdout=subprocess.PIPE, stderr=subprocess.STDOUT, universal_newlines=True)
        print(p, r.stdout.strip().splitlines()[-1][:150], flush=True)
    # evidence files must describe normal runs: redo them without instrumentation
    for p in pids:
        subprocess.run([os.path.join(V, "check"), p, "--tier", "quick"], cwd=V, stdout=subprocess.DEVNULL, stderr=subprocess.DEVNULL)
acc = json.load(open(out))
tot = hit = 0
for fn in sorted(acc):
    if fn.startswith("BR:"):
        continue
    lines = acc[fn]
    miss = sorted(int(k) for k, v in lines.items() if v == 0)
    tot += len(lines); hit += len(lines) - len(miss)
    print("== %s: %d/%d executable lines reached" % (fn, len(lines) - len(miss), len(lines)))
    if "--lines" in sys.argv and miss:
        try:
            src = open(os.path.join("/repo", fn), errors="replace").read().splitlines()
        except FileNotFoundError:
            src = []
        for m in miss:
            print("   %5d: %s" % (m, src[m - 1].strip()[:140] if m <= len(src) else ""))
print("TOTAL %d/%d" % (hit, tot))
if "--branches" in sys.argv:
    for fn in sorted(acc):
        if not fn.startswith("BR:"):
            continue
        try:
            src = open(os.path.join("/repo", fn[3:]), errors="replace").read().splitlines()
        except FileNotFoundError:
            src = []
        lines = acc[fn[3:]]
        half = [(int(k), v) for k, v in acc[fn].items() if lines.get(k, 0) > 0 and any(x == 0 for x in v) and any(x > 0 for x in v)]
        if half:
            print("== %s: %d reached lines with a branch outcome never taken" % (fn[3:], len(half)))
            for k, v in sorted(half):
                print("   %5d %s: %s" % (k, v, src[k - 1].strip()[:120] if k <= len(src) else ""))
