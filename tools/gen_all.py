"""Runs every translator (coq/gen/*.v are regenerated from the snapshot of /repo)."""
import gen_tables, gen_funcs, gen_consts, gen_params


def generate_all(snap):
    out = {"tables": gen_tables.generate(snap), "prng": gen_funcs.gen_prng(snap), "blocking": gen_funcs.gen_blocking(snap), "consts": gen_consts.generate(snap), "popcount": gen_funcs.gen_popcount(snap), "params": gen_params.generate(snap), "symbol": gen_params.generate_symbol(snap), "claim": gen_params.generate_claim(snap)}
    return out


if __name__ == "__main__":
    import vlib
    s = vlib.Snapshot()
    try:
        generate_all(s); print("coq/gen regenerated")
    finally:
        s.cleanup()
