"""Runs every translator (coq/gen/*.v are regenerated from the snapshot of /repo)."""
import gen_tables


def generate_all(snap):
    out = {"tables": gen_tables.generate(snap)}
    return out
